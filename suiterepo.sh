#!/bin/sh
# runs the pinned suite (BASELINE.json cmd) on /repo (or $1) and lists stable tests that do not pass
export GOFLAGS=-mod=mod GOPROXY=off
D=${1:-/repo}
OUT=/tmp/suite-repo.$$.json
( cd $D && go test -json -vet=off -count=1 -timeout 40m ./... 2>/dev/null > $OUT )
python3 - $OUT <<'PY'
import json,sys
base=json.load(open('/root/.vp/BASELINE.json'))
stable=set(base['stable_pass'])
res={}
for l in open(sys.argv[1]):
    try: e=json.loads(l)
    except Exception: continue
    if e.get('Test') and e.get('Action') in('pass','fail'):
        res[e['Package']+'::'+e['Test']]=e['Action']
bad=sorted(t for t in stable if res.get(t)!='pass')
print("stable=%d passed=%d not_passing=%d"%(len(stable),sum(1 for t in stable if res.get(t)=='pass'),len(bad)))
print("\n".join(bad[:60]))
PY
rm -f $OUT
git -C $D status --short | head -5
