#!/bin/sh
# usage: replayall.sh <ID> <dir>   replays every <dir>/<ID>-*.json, prints result + sig
for f in $2/$1-*.json; do
  r=$(./check $1 --replay $f 2>&1 | grep -v KNOWN | grep "REPLAY-\|^PASS" | head -1 | cut -c1-160)
  echo "$(basename $f): $r"
done
