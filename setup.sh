#!/bin/sh
# Builds every engine test binary and the CLI once (offline), so that the checks only pay
# for incremental rebuilds afterwards.
set -e
cd "$(dirname "$0")"
export GOFLAGS=-mod=mod GOPROXY=off
unset GOSUMDB GOTOOLCHAIN
mkdir -p work/bin evidence replays
python3 - <<'PY'
import os, subprocess, sys
sys.path.insert(0, os.getcwd())
import importlib.util
spec = importlib.util.spec_from_loader("chk", loader=None)
src = open("check").read()
chk = type(sys)("chk")
chk.__file__ = os.path.abspath("check")
exec(compile(src.replace('if __name__ == "__main__":', 'if False:'), "check", "exec"), chk.__dict__)
engines = sorted({p["engine"] for p in chk.PROPS.values()})
ok = True
for e in engines:
    out, dt = chk.build(e)
    print("built" if out else "FAILED", e, "%.0fs" % dt, flush=True)
    ok = ok and bool(out)
if any(p.get("needs_cli") for p in chk.PROPS.values()):
    print("cli", "built" if chk.build_cli() else "FAILED", flush=True)
sys.exit(0 if ok else 1)
PY
