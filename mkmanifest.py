#!/usr/bin/env python3
"""Regenerates MANIFEST.json from props.d (claimed checks) + properties.jsonl (not_applicable for the rest)."""
import json, os, sys
ROOT = os.path.dirname(os.path.abspath(__file__))
sys.path.insert(0, ROOT)
from props import PROPS

ids = [json.loads(l)["id"] for l in open(os.path.join(ROOT, "properties.jsonl"))]
NA = {}
na_file = os.path.join(ROOT, "not_applicable.json")
if os.path.exists(na_file):
    NA = json.load(open(na_file))
checks = []
for pid in ids:
    if pid not in PROPS:
        continue
    sp = PROPS[pid]
    level = sp.get("level", "exploration")
    checks.append({
        "property_id": pid,
        "quick_cmd": "./check %s --tier quick" % pid,
        "thorough_cmd": "./check %s --tier thorough" % pid,
        "evidence_file": "/verif/evidence/%s.json" % pid,
        "replay_cmd_template": "./check %s --replay {path}" % pid,
        "engine": sp["engine"],
        "level_claimed": {
            "category": level,
            "text": sp.get("level_text", "Generated-input search against an explicit oracle (property-based testing with pgregory.net/rapid: enumerated "
                                          "deterministic core + seeded random campaign, shrunk failures become replay files). It can refute the property on the "
                                          "explored cases and reports how many distinct non-trivial cases were explored; it never establishes absence of violations."),
            "design_ref": "DESIGN.md §6 (%s)" % pid,
        },
        "level_note": "; ".join(sp.get("assumptions", [])) or "trusts the Go toolchain, rapid, and the harness' own oracle code (reference computations written from the property statement)",
        "technique": sp.get("technique", "property-based testing (rapid) with " + sp.get("oracle_kind", "explicit oracle")),
    })
na = [{"property_id": pid, "reason": NA.get(pid, "check not built yet in this round (planned: DESIGN.md §6)")} for pid in ids if pid not in PROPS]
engines = {}
for pid, sp in PROPS.items():
    engines.setdefault(sp["engine"], []).append(pid)
man = {
    "version": 1,
    "setup_cmd": "./setup.sh",
    "hooks": {
        "guard": "verif",
        "enable": "go build/test -tags verif (the driver ./check always passes -tags verif)",
        "baseline_off_cmd": "cd /repo && GOFLAGS=-mod=mod GOPROXY=off go test -vet=off -count=1 ./...",
        "source_commits": json.load(open(os.path.join(ROOT, "hooks", "commits.json"))) if os.path.exists(os.path.join(ROOT, "hooks", "commits.json")) else [],
        "add_only": True,
    },
    "engines": [{"name": e, "path": "harness/" + e, "serves_properties": sorted(p), "kind_free_text": "Go test package driven by ./check (rapid property tests)"} for e, p in sorted(engines.items())],
    "checks": checks,
    "not_applicable": na,
    "notes": "All checks: ./check <ID> --tier quick|thorough, VERIF_SEED honoured. Known findings: KNOWN_FINDINGS.json. See DESIGN.md.",
}
json.dump(man, open(os.path.join(ROOT, "MANIFEST.json"), "w"), indent=1)
print("claimed", len(checks), "not_applicable", len(na))
