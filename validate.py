#!/opt/veriftools/pyvenv/bin/python
# validates MANIFEST.json and evidence/*.json against the given schemas
import json,sys,glob,os
import jsonschema
ok=True
def check(path,schema):
    global ok
    try:
        jsonschema.validate(json.load(open(path)),json.load(open(schema)))
    except Exception as e:
        ok=False; print("INVALID",path,str(e).splitlines()[0][:200])
check('/verif/MANIFEST.json','/root/.vp/MANIFEST.schema.json')
n=0
for f in sorted(glob.glob('/verif/evidence/*.json')):
    check(f,'/root/.vp/EVIDENCE.schema.json'); n+=1
m=json.load(open('/verif/MANIFEST.json'))
ids={c['property_id'] for c in m['checks']}|{c['property_id'] for c in m['not_applicable']}
allp={json.loads(l)['id'] for l in open('/verif/properties.jsonl')}
if ids!=allp: ok=False; print("MANIFEST does not cover",sorted(allp-ids),"extra",sorted(ids-allp))
print("validated manifest +",n,"evidence files:", "ok" if ok else "PROBLEMS")
sys.exit(0 if ok else 1)
