#!/usr/bin/env python3
# lists open known findings whose committed reproducer no longer shows their signature
import json,subprocess,sys,os
k=json.load(open('/verif/KNOWN_FINDINGS.json'))
only=set(sys.argv[1:])
for f in k['findings']:
    if only and f['property'] not in only: continue
    rp=f.get('reproducer')
    if not rp or not os.path.exists('/verif/'+rp):
        print('NO-REPRODUCER',f['property'],f['sig']); continue
    if f.get('kind') in('hang','crash'):
        print('SKIP(hang/crash)',f['property'],f['sig']); continue
    out=subprocess.run(['./check',f['property'],'--replay',rp],cwd='/verif',capture_output=True,text=True).stdout
    seen=[l.split(' ',1)[1] for l in out.splitlines() if l.startswith('REPLAY-KNOWN ')]
    if f['sig'] in seen: print('ok   ',f['property'],f['sig'])
    else: print('STALE',f['property'],f['sig'],'| seen:',seen,'|',[l for l in out.splitlines() if 'REPLAY' in l][:2])
