#!/bin/sh
# usage: mutrun.sh <d2-worktree> <tag> <property> [more ./check args]
# Runs one check against a modified copy of d2 living in a scratch worktree, without touching /repo.
set -e
WT="$1"; TAG="$2"; PROP="$3"; shift 3
H=/tmp/mh-$TAG
mkdir -p "$H"
rsync -a --delete /verif/harness/ "$H/harness/"
sed -i "s#=> /repo#=> $WT#" "$H/harness/go.mod"
cd /verif
VERIF_REPO="$WT" VERIF_HARNESS="$H/harness" VERIF_WORKDIR="$H/work" VERIF_OUTDIR="$H/out" ./check "$PROP" "$@"
