#!/usr/bin/env python3
# usage: addfixed.py <PROP> "<what failed>" [replay-file-to-keep-as-corpus]
import json,subprocess,sys,shutil,os
k=json.load(open('/verif/KNOWN_FINDINGS.json'))
h=subprocess.check_output(['git','-C','/repo','log','-1','--format=%h']).decode().strip()
k['fixed'].append("fixed: property=%s %s %s"%(sys.argv[1],h,sys.argv[2]))
json.dump(k,open('/verif/KNOWN_FINDINGS.json','w'),indent=1,ensure_ascii=False)
if len(sys.argv)>3:
    d=json.load(open(sys.argv[3]))
    os.makedirs('/verif/corpus/'+sys.argv[1],exist_ok=True)
    out='/verif/corpus/%s/fixed-%s.json'%(sys.argv[1],h)
    json.dump({"property":sys.argv[1],"case":d['case']},open(out,'w'))
    print(out)
