#!/bin/sh
# usage: suitemut.sh <ID>...   runs the repository's pinned suite in each mutant worktree /tmp/mut-<ID>
# and writes /tmp/mut-<ID>/MUTANT/suite.txt: the failing tests other than the ones that fail on the
# unchanged tree offline (e2etests-cli cases that need a browser).
export GOFLAGS=-mod=mod GOPROXY=off
for ID in "$@"; do
  WT=/tmp/mut-$ID
  ( cd $WT && go build ./... 2>&1 | tail -3 > MUTANT/build.txt
    nice -n 5 go test -json -vet=off -count=1 -timeout 40m ./... 2>/dev/null > /tmp/suite-$ID.json
    python3 - $ID <<'PY'
import json,sys
ID=sys.argv[1]
base=json.load(open('/root/.vp/BASELINE.json'))
stable=set(eval(base['stable_pass'])) if isinstance(base['stable_pass'],str) else set(base['stable_pass'])
res={}
for l in open('/tmp/suite-%s.json'%ID):
    try: e=json.loads(l)
    except Exception: continue
    if e.get('Test') and e.get('Action') in('pass','fail'):
        res[e['Package']+'::'+e['Test']]=e['Action']
bad=sorted(t for t in stable if res.get(t)!='pass')
open('/tmp/mut-%s/MUTANT/suite.txt'%ID,'w').write("stable=%d passed=%d not_passing=%d\n%s\n"%(len(stable),sum(1 for t in stable if res.get(t)=='pass'),len(bad),"\n".join(bad[:40])))
PY
    rm -f /tmp/suite-$ID.json
    cat MUTANT/suite.txt | head -5 )
done
