#!/bin/sh
# usage: evalmut.sh <ID> [check args]   (worktree /tmp/mut-<ID> with MUTANT/ deliverables)
ID="$1"; shift
WT=/tmp/mut-$ID
export GOFLAGS=-mod=mod GOPROXY=off
demo() { # $1 = d2 checkout
  D=/tmp/demo-$ID; rm -rf $D; mkdir -p $D
  cp $WT/MUTANT/demo_test.go $D/
  sed -e 's#^module .*#module demo#' /repo/go.mod > $D/go.mod
  printf '\nrequire oss.terrastruct.com/d2 v0.0.0\nreplace oss.terrastruct.com/d2 => %s\n' "$1" >> $D/go.mod
  cp /repo/go.sum $D/
  (cd $D && go test -vet=off -count=1 ./... 2>&1 | tail -4)
}
echo "== demo against mutant"; demo $WT
echo "== demo against /repo"; demo /repo
echo "== check $ID against mutant"
/verif/mutrun.sh $WT $ID $ID "$@" 2>&1 | grep -v "^KNOWN-FINDING" | tail -6
