import json,glob,collections,base64,sys
pid=sys.argv[1]
c=collections.Counter(); ex={}
for f in glob.glob((sys.argv[3] if len(sys.argv)>3 else '/verif/replays')+'/%s-*.json'%pid):
    d=json.load(open(f))
    c[d['sig']]+=1
    ex.setdefault(d['sig'],[]).append((d['case'],d['msg'][:400],f))
def dec(case):
    if isinstance(case,dict):
        o={}
        for k,v in case.items():
            if k in('text','data') and isinstance(v,str):
                try: o[k]=base64.b64decode(v).decode('utf-8','backslashreplace')
                except Exception: o[k]=v
            else: o[k]=dec(v)
        return o
    if isinstance(case,list): return [dec(x) for x in case]
    return case
for s,n in c.most_common():
    print(s,n)
    for case,msg,f in sorted(ex[s],key=lambda x:len(json.dumps(x[0])))[:int(sys.argv[2]) if len(sys.argv)>2 else 3]:
        print('   ',json.dumps(dec(case),ensure_ascii=False)[:500]); print('      ',msg[:400])
