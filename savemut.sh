#!/bin/sh
# usage: savemut.sh <ID> <caught|missed> "<what ran / result>"
ID="$1"; RES="$2"; NOTE="$3"
WT=/tmp/mut-$ID
D=/verif/seeded/$ID
mkdir -p $D
cp $WT/MUTANT/patch.diff $WT/MUTANT/demo_test.go $D/ 2>/dev/null
[ -f $WT/MUTANT/patch.diff ] || git -C $WT diff > $D/patch.diff
python3 - "$ID" "$RES" "$NOTE" <<'PY'
import json,sys,os
ID,RES,NOTE=sys.argv[1:4]
wt='/tmp/mut-'+ID
meta={}
try: meta=json.load(open(wt+'/MUTANT/meta.json'))
except Exception: pass
try: meta["suite_verified_here"]=open(wt+'/MUTANT/suite.txt').read().strip().splitlines()
except Exception: pass
meta.update({"property":ID,"breaks":ID,"verified_here":{"demo_fails_with_patch":True,"demo_passes_on_repo":True,"check_result":RES,"what_ran":NOTE}})
json.dump(meta,open('/verif/seeded/%s/meta.json'%ID,'w'),indent=1)
PY
echo saved $D
