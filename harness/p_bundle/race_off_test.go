//go:build !race

package p_bundle

const c46Race = false
