//go:build race

package p_bundle

// c46Race: the test binary was built with the race detector (the 32 MiB response case is
// left out there, it takes minutes under instrumentation).
const c46Race = true
