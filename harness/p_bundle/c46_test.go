package p_bundle

import (
	"bytes"
	"context"
	"encoding/base64"
	"errors"
	"fmt"
	"html"
	"mime"
	"net"
	"net/http"
	"net/http/httptest"
	"net/url"
	"os"
	"path"
	"path/filepath"
	"runtime"
	"sort"
	"strconv"
	"strings"
	"sync"
	"sync/atomic"
	"syscall"
	"testing"
	"time"
	"unicode/utf8"

	"oss.terrastruct.com/d2/lib/imgbundler"
	"pgregory.net/rapid"

	"verif/harness/gen"
	"verif/harness/hx"
)

// C46: image bundling is independent of worker scheduling and failures.
//
// The harness owns the schedule without any hook in d2:
//   - a local image is a named pipe: os.ReadFile in the worker blocks until the harness
//     writes the content (I/O gate);
//   - a remote image is served by a loopback HTTP server whose handler blocks on a per-image
//     gate before it answers 200/404/500, drops the connection or truncates the body (I/O gate);
//   - the simplelog.Logger handed to the bundler is ours: the last log call of a worker
//     ("... MIME type for <href>: ..." on success, "failed to bundle <href>: ..." on failure)
//     happens after the I/O and immediately before the worker hands over its result, so
//     blocking inside that call is a second gate (post gate) that also orders workers whose
//     I/O cannot block (missing files, regular files).
//
// The oracle never depends on the schedule that was actually achieved: a gate that times out
// only degrades the schedule (counted), it is never a violation.

const c46WorkerLimit = 16 // imgbundler.runWorkers: "Limits the number of workers to 16."

const c46MaxImage = 1 << 25 // imgbundler.maxImageSize

type c46Img struct {
	Name    string `json:"name"`              // decoded file name / last URL path segment
	Loc     string `json:"loc"`               // rel | abs | http
	Dir     string `json:"dir,omitempty"`     // rel: "", "./", "sub/", "../"
	Query   string `json:"query,omitempty"`   // http: decoded raw query
	Data    []byte `json:"data,omitempty"`    // content prefix
	Pad     int    `json:"pad,omitempty"`     // followed by Pad deterministic pseudo-random bytes
	CType   string `json:"ctype,omitempty"`   // http: Content-Type header, "" = header suppressed
	Fail    string `json:"fail,omitempty"`    // "" loads; local: missing|dir|dangling; http: 404|500|drop|truncate|toolarge
	Regular bool   `json:"regular,omitempty"` // local, loads: regular file instead of a FIFO
}

type c46Seg struct {
	K string `json:"k"`           // t: literal text, r: reference to Imgs[R], d: image that already is a data URI
	T []byte `json:"t,omitempty"` // the text / what follows the closing quote of the href
	R int    `json:"r,omitempty"`
}

type c46Case struct {
	Imgs   []c46Img `json:"imgs"`
	Segs   []c46Seg `json:"segs"`
	Mode   string   `json:"mode"`   // local: BundleLocal; remote: BundleRemote; both: BundleLocal then BundleRemote (as the CLI)
	Orders [][]int  `json:"orders"` // release priorities, each a permutation of the image indices
	Sched  string   `json:"sched"`  // strict | io | pileup | burst
	Cache  bool     `json:"cache,omitempty"`
	Stdin  bool     `json:"stdin,omitempty"` // input path "-": every local href is absolute
	Note   string   `json:"note,omitempty"`
}

func (im *c46Img) isHTTP() bool { return im.Loc == "http" }

func (im *c46Img) content() []byte {
	if im.Pad <= 0 {
		return im.Data
	}
	b := make([]byte, len(im.Data)+im.Pad)
	copy(b, im.Data)
	x := uint32(2463534242) + uint32(len(im.Data))*7919
	for i := len(im.Data); i < len(b); i++ {
		x ^= x << 13
		x ^= x >> 17
		x ^= x << 5
		b[i] = byte(x >> 11)
	}
	return b
}

// ---------------------------------------------------------------------------------------
// independent sequential reference

type c46Match struct{ hs, he int } // href = in[hs:he]

// c46Scan finds the image references: the literal `<image href="`, one or more bytes other
// than `"`, then `"`; left to right, not overlapping. Written by hand (no regexp).
func c46Scan(in []byte) []c46Match {
	const open = `<image href="`
	var out []c46Match
	p := 0
	for {
		i := bytes.Index(in[p:], []byte(open))
		if i < 0 {
			return out
		}
		hs := p + i + len(open)
		q := bytes.IndexByte(in[hs:], '"')
		if q < 0 {
			return out // no closing quote anywhere after: nothing further can match
		}
		if q == 0 {
			p = p + i + 1
			continue
		}
		out = append(out, c46Match{hs, hs + q})
		p = hs + q + 1
	}
}

// c46RefMime is the MIME rule of the bundler (imgbundler.worker, sniffMimeType): the
// Content-Type header of a remote response when it has one; otherwise by file extension of
// the href (the raw href text for local images, the URL path for remote ones), otherwise by
// content sniffing; "text/xml" is rewritten to "image/svg+xml" and an octet-stream that
// contains "<svg" becomes "image/svg+xml".
func c46RefMime(href string, content []byte, remote bool, ctype string) string {
	m := ""
	if remote {
		m = ctype
	}
	if m == "" {
		p := href
		if remote {
			if u, err := url.Parse(html.UnescapeString(href)); err == nil {
				p = u.Path
			} else {
				p = ""
			}
		}
		m = mime.TypeByExtension(path.Ext(p))
		if m == "" {
			m = http.DetectContentType(content)
		}
	}
	m = strings.Replace(m, "text/xml", "image/svg+xml", 1)
	if m == "application/octet-stream" && bytes.Contains(content, []byte("<svg")) {
		m = "image/svg+xml"
	}
	return m
}

// c46Reference bundles sequentially: every reference whose href is in repl is rewritten.
func c46Reference(in []byte, ms []c46Match, repl map[string]string) []byte {
	var out []byte
	prev := 0
	for _, m := range ms {
		out = append(out, in[prev:m.hs]...)
		h := string(in[m.hs:m.he])
		if r, ok := repl[h]; ok {
			out = append(out, r...)
		} else {
			out = append(out, h...)
		}
		prev = m.he
	}
	return append(out, in[prev:]...)
}

// c46Diagnose names the first discrepancy between the bundler's output and the reference.
func c46Diagnose(in []byte, ms []c46Match, repl map[string]string, out []byte) (string, string) {
	pos, prev := 0, 0
	for k, m := range ms {
		lit := in[prev:m.hs]
		if !bytes.HasPrefix(out[pos:], lit) {
			return "other-bytes-changed", fmt.Sprintf("bytes before reference #%d differ from the input (input offset %d..%d)", k, prev, m.hs)
		}
		pos += len(lit)
		h := string(in[m.hs:m.he])
		q := bytes.IndexByte(out[pos:], '"')
		if q < 0 {
			return "other-bytes-changed", fmt.Sprintf("reference #%d (%q): closing quote lost", k, h)
		}
		got := string(out[pos : pos+q])
		want, replaced := repl[h]
		if !replaced {
			want = h
		}
		if got != want {
			switch {
			case got == h && replaced:
				return "lost-replacement", fmt.Sprintf("reference #%d href %q loaded but was left as it was", k, h)
			case !replaced && strings.HasPrefix(got, "data:") && !strings.HasPrefix(h, "data:"):
				return "spurious-replacement", fmt.Sprintf("reference #%d href %q must stay but became %.80q", k, h, got)
			case replaced && strings.HasPrefix(got, "data:"):
				gi, wi := strings.Index(got, ";base64,"), strings.Index(want, ";base64,")
				if gi >= 0 && got[gi:] == want[wi:] {
					return "mime-differs", fmt.Sprintf("reference #%d href %q: got %q, reference rule says %q", k, h, got[:gi], want[:wi])
				}
				return "content-differs", fmt.Sprintf("reference #%d href %q: data URI does not carry the image content (got %.60q... want %.60q...)", k, h, got, want)
			default:
				return "other-bytes-changed", fmt.Sprintf("reference #%d href %q became %.80q", k, h, got)
			}
		}
		pos += q
		prev = m.he
	}
	if !bytes.Equal(out[pos:], in[prev:]) {
		return "other-bytes-changed", "bytes after the last reference differ from the input"
	}
	return "output-differs", "output differs from the reference"
}

// ---------------------------------------------------------------------------------------
// environment of one case: files, FIFOs, HTTP server

var c46Seq atomic.Int64

// c46Degraded counts schedules whose gates timed out in this process. After a few of them
// (for instance because the bundler's log messages changed and the post gate never sees its
// worker) the remaining cases run ungated: still checked, no longer counted as non-trivial.
var c46Degraded atomic.Int64

type c46Env struct {
	c      *c46Case
	dir    string
	input  string   // inputPath argument
	hrefs  []string // raw (escaped) href text per image
	paths  []string // local: file system path
	srv    *httptest.Server
	nonce  string
	mu     sync.Mutex
	run    *c46Run // current run (handlers and logger look it up)
	urlBad []string
	bodies [][]byte // image contents, computed once
}

type c46ImgRT struct {
	post     chan struct{} // closed when the worker reaches its last log call
	postOnce sync.Once
	postGate chan struct{} // nil: the log call does not block
	gateOnce sync.Once
	ioGate   chan struct{} // http: handler waits for it
	ioOnce   sync.Once
	written  atomic.Bool // local FIFO: content delivered
	arrived  atomic.Bool // http: a request arrived
	arrCh    chan struct{}
	arrOnce  sync.Once
	served   atomic.Int32
	errMsg   atomic.Value // string: the bundler's error log for this image
}

type c46Run struct {
	env      *c46Env
	active   []int // eligible image indices of this phase (document order)
	rt       map[int]*c46ImgRT
	abort    chan struct{}
	degraded atomic.Bool
	why      atomic.Value
	early    bool // the bundler returned before every worker was released
	dirty    bool // ... and some worker may still be using the files: no further schedule on them
}

func (r *c46Run) degrade(why string) {
	if !r.degraded.Swap(true) {
		r.why.Store(why)
		c46Degraded.Add(1)
	}
}

func (rt *c46ImgRT) openPost() {
	if rt.postGate != nil {
		rt.gateOnce.Do(func() { close(rt.postGate) })
	}
}
func (rt *c46ImgRT) openIO() { rt.ioOnce.Do(func() { close(rt.ioGate) }) }

// the logger handed to the bundler; bound to one call, so that a worker that outlives its
// call (possible only if the bundler returns early) cannot disturb the next schedule
type c46Logger struct{ r *c46Run }

func (l c46Logger) Debug(s string) { l.r.onLog(false, s) }
func (l c46Logger) Info(string)    {}
func (l c46Logger) Error(s string) { l.r.onLog(true, s) }

func (e *c46Env) current() *c46Run {
	e.mu.Lock()
	defer e.mu.Unlock()
	return e.run
}

func (r *c46Run) onLog(isErr bool, s string) {
	e := r.env
	// the image whose href appears first in the message (every worker message names its href
	// before anything derived from it)
	best, bestAt := -1, 1<<30
	for _, i := range r.active {
		if at := strings.Index(s, e.hrefs[i]); at >= 0 && (at < bestAt || (at == bestAt && len(e.hrefs[i]) > len(e.hrefs[best]))) {
			best, bestAt = i, at
		}
	}
	if best < 0 {
		return
	}
	rt := r.rt[best]
	if isErr {
		rt.errMsg.Store(s)
	}
	rest := s[:bestAt] + s[bestAt+len(e.hrefs[best]):] // the message without the href
	if isErr || strings.Contains(strings.ToLower(rest), "mime") {
		rt.postOnce.Do(func() { close(rt.post) })
		if rt.postGate != nil {
			select {
			case <-rt.postGate:
			case <-r.abort:
			}
		}
	}
}

func (e *c46Env) ServeHTTP(w http.ResponseWriter, rq *http.Request) {
	// /<nonce>/i<idx>/<name>[?query]
	parts := strings.SplitN(strings.TrimPrefix(rq.URL.Path, "/"), "/", 3)
	idx := -1
	if len(parts) == 3 && parts[0] == e.nonce && strings.HasPrefix(parts[1], "i") {
		if n, err := strconv.Atoi(parts[1][1:]); err == nil && n >= 0 && n < len(e.c.Imgs) {
			idx = n
		}
	}
	if idx < 0 || !e.c.Imgs[idx].isHTTP() || parts[2] != e.c.Imgs[idx].Name || rq.URL.RawQuery != e.c.Imgs[idx].Query {
		e.mu.Lock()
		e.urlBad = append(e.urlBad, rq.URL.String())
		e.mu.Unlock()
		http.Error(w, "harness: unknown url", 404)
		return
	}
	im := &e.c.Imgs[idx]
	r := e.current()
	var rt *c46ImgRT
	if r != nil {
		rt = r.rt[idx]
	}
	if rt == nil {
		http.Error(w, "harness: not part of this run", 404)
		return
	}
	rt.arrived.Store(true)
	rt.arrOnce.Do(func() { close(rt.arrCh) })
	select {
	case <-rt.ioGate:
	case <-r.abort:
	case <-rq.Context().Done():
		return
	}
	hijackClose := func(pre string, body []byte) {
		hj, ok := w.(http.Hijacker)
		if !ok {
			panic("harness: no hijacker")
		}
		conn, buf, err := hj.Hijack()
		if err != nil {
			return
		}
		if pre != "" {
			buf.WriteString(pre)
			buf.Write(body)
			buf.Flush()
		}
		if tc, ok := conn.(*net.TCPConn); ok && pre == "" {
			tc.SetLinger(0) // reset: the client sees an error, not a clean EOF it could mistake for an idle close
		}
		conn.Close()
	}
	switch im.Fail {
	case "404":
		http.Error(w, "no such image", 404)
	case "500":
		http.Error(w, "boom", 500)
	case "drop":
		hijackClose("", nil)
	case "truncate":
		body := e.bodies[idx]
		hijackClose(fmt.Sprintf("HTTP/1.1 200 OK\r\nContent-Type: image/png\r\nContent-Length: %d\r\n\r\n", len(body)+10), body)
	case "toolarge":
		w.Header().Set("Content-Type", "image/png")
		w.Header().Set("Content-Length", strconv.Itoa(c46MaxImage+1))
		chunk := make([]byte, 1<<20)
		for sent := 0; sent < c46MaxImage+1; {
			n := len(chunk)
			if c46MaxImage+1-sent < n {
				n = c46MaxImage + 1 - sent
			}
			if _, err := w.Write(chunk[:n]); err != nil {
				break
			}
			sent += n
		}
	default:
		body := e.bodies[idx]
		if im.CType == "" {
			w.Header()["Content-Type"] = nil // no header and no sniffing by net/http
		} else {
			w.Header().Set("Content-Type", im.CType)
		}
		w.Header().Set("Content-Length", strconv.Itoa(len(body)))
		if _, err := w.Write(body); err == nil {
			rt.served.Add(1)
		}
	}
}

func c46WorkDir() string {
	d := os.Getenv("VERIF_WORK")
	if d == "" {
		d = filepath.Join(os.TempDir(), "verif-c46")
	}
	os.MkdirAll(d, 0o755)
	return d
}

var errC46Timeout = errors.New("timeout")
var errC46NoReader = errors.New("worker finished without opening the file")

// c46WriteFifo delivers data to the reader of the FIFO: it waits (polling a non-blocking
// open, so that nothing is left blocked in a system call) until a reader has the FIFO open.
// It gives up when abort or done is closed.
func c46WriteFifo(p string, data []byte, wait time.Duration, abort, done <-chan struct{}) error {
	deadline := time.Now().Add(wait)
	for spin := 0; ; spin++ {
		fd, err := syscall.Open(p, syscall.O_WRONLY|syscall.O_NONBLOCK|syscall.O_CLOEXEC, 0)
		if err == nil {
			syscall.SetNonblock(fd, false)
			f := os.NewFile(uintptr(fd), p)
			_, werr := f.Write(data)
			cerr := f.Close()
			if werr != nil {
				return werr
			}
			return cerr
		}
		if err != syscall.ENXIO && err != syscall.EINTR {
			return err
		}
		if time.Now().After(deadline) {
			return errC46Timeout
		}
		select {
		case <-abort:
			return errC46Timeout
		case <-done: // the worker of this image already reported its outcome: nobody will read
			return errC46NoReader
		default:
		}
		if spin < 200 {
			runtime.Gosched()
		} else {
			time.Sleep(20 * time.Microsecond)
		}
	}
}

func c46ValidName(s string) bool {
	if s == "" || s == "." || s == ".." || len(s) > 120 || !utf8.ValidString(s) {
		return false
	}
	return !strings.ContainsAny(s, "/\x00")
}

func c46Setup(h *hx.H, c *c46Case) *c46Env {
	seq := c46Seq.Add(1)
	e := &c46Env{c: c, nonce: fmt.Sprintf("n%d", seq)}
	e.dir = filepath.Join(c46WorkDir(), fmt.Sprintf("c46-%d-%d", os.Getpid(), seq))
	wdir := filepath.Join(e.dir, "w")
	for _, d := range []string{filepath.Join(wdir, "sub", e.nonce), filepath.Join(wdir, e.nonce), filepath.Join(e.dir, "abs"), filepath.Join(e.dir, e.nonce)} {
		if err := os.MkdirAll(d, 0o755); err != nil {
			panic("harness: " + err.Error())
		}
	}
	e.input = filepath.Join(wdir, "in.svg")
	if c.Stdin {
		e.input = "-"
	}
	needSrv := false
	for i := range c.Imgs {
		if c.Imgs[i].isHTTP() {
			needSrv = true
		}
	}
	if needSrv {
		e.srv = httptest.NewServer(e)
	}
	e.hrefs = make([]string, len(c.Imgs))
	e.paths = make([]string, len(c.Imgs))
	e.bodies = make([][]byte, len(c.Imgs))
	for i := range c.Imgs {
		e.bodies[i] = c.Imgs[i].content()
	}
	for i := range c.Imgs {
		im := &c.Imgs[i]
		switch {
		case im.isHTTP():
			u := e.srv.URL + "/" + e.nonce + "/i" + strconv.Itoa(i) + "/" + url.PathEscape(im.Name)
			if im.Query != "" {
				u += "?" + im.Query
			}
			e.hrefs[i] = html.EscapeString(u)
			continue
		case im.Loc == "abs" || c.Stdin:
			e.paths[i] = filepath.Join(e.dir, "abs", im.Name)
			e.hrefs[i] = html.EscapeString(e.paths[i])
		default:
			rel := im.Dir
			if c.Cache { // the bundler's cache is keyed by the href text: keep relative hrefs unique per case
				rel += e.nonce + "/"
			}
			rel += im.Name
			e.paths[i] = filepath.Join(wdir, rel)
			e.hrefs[i] = html.EscapeString(rel)
		}
		var err error
		switch im.Fail {
		case "":
			if im.Regular {
				err = os.WriteFile(e.paths[i], e.bodies[i], 0o644)
			} else {
				err = syscall.Mkfifo(e.paths[i], 0o644)
			}
		case "dir":
			err = os.Mkdir(e.paths[i], 0o755)
		case "dangling":
			err = os.Symlink("c46-no-such-target", e.paths[i])
		}
		if err != nil {
			e.close()
			h.Reject("harness:setup")
		}
	}
	return e
}

func (e *c46Env) close() {
	if e.srv != nil {
		e.srv.CloseClientConnections()
		e.srv.Close()
		if tr, ok := http.DefaultTransport.(*http.Transport); ok {
			tr.CloseIdleConnections()
		}
	}
	os.RemoveAll(e.dir)
}

func (e *c46Env) svg() []byte {
	var b []byte
	for _, s := range e.c.Segs {
		switch s.K {
		case "r":
			b = append(b, `<image href="`...)
			b = append(b, e.hrefs[s.R]...)
			b = append(b, '"')
			b = append(b, s.T...)
		case "d":
			b = append(b, `<image href="data:image/png;base64,iVBORw0KGgo="`...)
			b = append(b, s.T...)
		default:
			b = append(b, s.T...)
		}
	}
	return b
}

// ---------------------------------------------------------------------------------------
// one bundling call under a generated schedule

const c46GateWait = 20 * time.Second

type c46Result struct {
	out []byte
	err error
}

// c46RunPhase calls BundleLocal/BundleRemote on in and releases the workers of the eligible
// images elig (document order) by priority prio (image index -> rank). cached images are
// answered from the bundler's cache without I/O or logging.
func c46RunPhase(e *c46Env, remote bool, in []byte, elig []int, prio map[int]int, cached map[int]bool, sched string) (c46Result, *c46Run) {
	c := e.c
	r := &c46Run{env: e, active: elig, rt: map[int]*c46ImgRT{}, abort: make(chan struct{})}
	if c46Degraded.Load() >= 3 {
		sched = "burst"
	}
	blocking := sched == "strict" || sched == "pileup"
	if sched == "pileup" && len(elig) > c46WorkerLimit {
		sched = "strict"
	}
	for _, i := range elig {
		rt := &c46ImgRT{post: make(chan struct{}), ioGate: make(chan struct{}), arrCh: make(chan struct{})}
		if blocking {
			rt.postGate = make(chan struct{})
		}
		r.rt[i] = rt
	}
	e.mu.Lock()
	e.run = r
	e.mu.Unlock()

	resc := make(chan c46Result, 1)
	go func() {
		var out []byte
		var err error
		if remote {
			out, err = imgbundler.BundleRemote(context.Background(), c46Logger{r}, in, c.Cache)
		} else {
			out, err = imgbundler.BundleLocal(context.Background(), c46Logger{r}, e.input, in, c.Cache)
		}
		resc <- c46Result{out, err}
	}()

	var res c46Result
	have := false
	// wait for ch, the bundler's return, or the gate timeout
	waitFor := func(ch <-chan struct{}, what string) bool {
		if have || r.degraded.Load() {
			return false
		}
		t := time.NewTimer(c46GateWait)
		defer t.Stop()
		select {
		case <-ch:
			return true
		case res = <-resc:
			have = true
			select {
			case <-ch: // both happened: the worker got through and the call is over
				return true
			default:
			}
			return false
		case <-t.C:
			r.degrade("timeout waiting for " + what)
			return false
		}
	}
	isFifo := func(i int) bool { im := &c.Imgs[i]; return !im.isHTTP() && im.Fail == "" && !im.Regular }
	releaseIO := func(i int) {
		rt := r.rt[i]
		if c.Imgs[i].isHTTP() {
			rt.openIO()
			return
		}
		if isFifo(i) && !rt.written.Load() {
			err := c46WriteFifo(e.paths[i], e.bodies[i], c46GateWait, r.abort, rt.post)
			if err == errC46NoReader {
				return // the oracle will tell what that means
			}
			if err != nil {
				r.degrade("fifo " + err.Error())
				return
			}
			rt.written.Store(true)
		}
	}
	// release(i) opens the post gate of worker i and waits until that worker is gone: it has
	// then handed its result to the collecting loop (unbuffered channel) or recorded its
	// failure. The goroutine count is the only thing observable from outside; the wait is
	// bounded and only sharpens the schedule.
	gone := func(base int) {
		for k := 0; k < 45; k++ {
			if runtime.NumGoroutine() < base {
				return
			}
			if k < 30 {
				runtime.Gosched()
			} else {
				time.Sleep(20 * time.Microsecond)
			}
		}
	}
	release := func(i int) {
		base := runtime.NumGoroutine()
		r.rt[i].openPost()
		gone(base)
	}
	byPrio := append([]int(nil), elig...)
	sort.SliceStable(byPrio, func(a, b int) bool { return prio[byPrio[a]] < prio[byPrio[b]] })

	switch sched {
	case "burst":
		var wg sync.WaitGroup
		for _, i := range byPrio {
			if cached[i] {
				continue
			}
			if isFifo(i) {
				wg.Add(1)
				go func(i int) { defer wg.Done(); releaseIO(i) }(i)
			} else {
				releaseIO(i)
			}
		}
		wg.Wait()
	case "pileup":
		for _, i := range byPrio {
			if !cached[i] {
				releaseIO(i)
			}
		}
		for _, i := range byPrio {
			if !cached[i] {
				waitFor(r.rt[i].post, "post gate")
			}
		}
		for _, i := range byPrio {
			if !cached[i] && !have && !r.degraded.Load() {
				release(i)
			}
		}
	default: // strict, io: one worker at a time, within the window of running workers
		window := []int{}
		next := 0
		fill := func() {
			for len(window) < c46WorkerLimit && next < len(elig) {
				window = append(window, elig[next])
				next++
			}
		}
		remove := func(i int) {
			for k, w := range window {
				if w == i {
					window = append(window[:k], window[k+1:]...)
					return
				}
			}
		}
		selfFinishing := func(i int) bool {
			if cached[i] {
				return true
			}
			im := &c.Imgs[i]
			return sched == "io" && !im.isHTTP() && (im.Fail != "" || im.Regular)
		}
		fill()
		for len(window) > 0 && !have && !r.degraded.Load() {
			progressed := false
			for _, w := range append([]int(nil), window...) {
				if selfFinishing(w) {
					if !cached[w] {
						waitFor(r.rt[w].post, "self-finishing worker")
					}
					remove(w)
					progressed = true
				}
			}
			fill()
			if progressed {
				continue
			}
			best := window[0]
			for _, w := range window {
				if prio[w] < prio[best] {
					best = w
				}
			}
			if !blocking {
				// let the connections of the running workers come up first, the goroutine count is stable then
				for _, w := range window {
					if c.Imgs[w].isHTTP() && !cached[w] {
						waitFor(r.rt[w].arrCh, "request")
					}
				}
			}
			base := runtime.NumGoroutine()
			releaseIO(best)
			if waitFor(r.rt[best].post, "post gate") {
				if blocking {
					release(best)
				} else {
					gone(base) // no post gate in this mode: the worker left on its own
				}
			}
			remove(best)
			fill()
		}
	}

	// Everything that is still gated is released now (normally nothing): after a degraded
	// schedule or an early return the remaining workers must still be able to finish.
	for _, i := range elig {
		r.rt[i].openPost()
		r.rt[i].openIO()
	}
	if !have {
		var wg sync.WaitGroup
		for _, i := range elig {
			if !cached[i] && isFifo(i) && !r.rt[i].written.Load() {
				wg.Add(1)
				go func(i int) {
					defer wg.Done()
					if c46WriteFifo(e.paths[i], e.bodies[i], c46GateWait, r.abort, r.rt[i].post) == nil {
						r.rt[i].written.Store(true)
					}
				}(i)
			}
		}
		res = <-resc // no timeout of our own: a bundler that never returns is left to the case watchdog
		have = true
		close(r.abort)
		wg.Wait()
	} else {
		// The bundler returned while the schedule was still being played. If a worker has not
		// reported its outcome by now the return was early (never on the unchanged tree): let
		// every worker get past its I/O before the files are used again.
		close(r.abort)
		for _, i := range elig {
			if !cached[i] {
				select {
				case <-r.rt[i].post:
				default:
					r.early = true
				}
			}
		}
		var wg sync.WaitGroup
		for _, i := range elig {
			if !cached[i] && isFifo(i) && !r.rt[i].written.Load() {
				wg.Add(1)
				go func(i int) {
					defer wg.Done()
					c46WriteFifo(e.paths[i], e.bodies[i], 2*time.Second, nil, r.rt[i].post)
				}(i)
			}
		}
		wg.Wait()
		for _, i := range elig {
			if cached[i] {
				continue
			}
			t := time.NewTimer(2 * time.Second)
			select {
			case <-r.rt[i].post:
			case <-t.C:
				r.dirty = true
			}
			t.Stop()
		}
	}
	e.mu.Lock()
	e.run = nil
	e.mu.Unlock()
	return res, r
}

// ---------------------------------------------------------------------------------------
// the check

type c46Verdict struct {
	sig, msg string
}

func c46IsNetNoise(msg string) bool {
	for _, s := range []string{"dial tcp", "connect:", "cannot assign requested address", "too many open files", "no buffer space"} {
		if strings.Contains(msg, s) {
			return true
		}
	}
	return false
}

func checkC46(h *hx.H, c c46Case) {
	n := len(c.Imgs)
	if n == 0 && len(c.Segs) == 0 {
		h.Reject("empty")
	}
	if c.Mode != "local" && c.Mode != "remote" && c.Mode != "both" {
		h.Reject("bad-mode")
	}
	switch c.Sched {
	case "strict", "io", "pileup", "burst":
	default:
		h.Reject("bad-sched")
	}
	for i := range c.Imgs {
		im := &c.Imgs[i]
		if !c46ValidName(im.Name) {
			h.Reject("bad-name")
		}
		switch im.Loc {
		case "rel", "abs":
			switch im.Fail {
			case "", "missing", "dir", "dangling":
			default:
				h.Reject("bad-fail")
			}
			switch im.Dir {
			case "", "./", "sub/", "../":
			default:
				h.Reject("bad-dir")
			}
			// a local name that parses as a URL with an http* scheme is a remote reference for the bundler
			if u, err := url.Parse(im.Name); err == nil && strings.HasPrefix(u.Scheme, "http") {
				h.Reject("bad-name")
			}
		case "http":
			switch im.Fail {
			case "", "404", "500", "drop", "truncate", "toolarge":
			default:
				h.Reject("bad-fail")
			}
			for _, r := range im.Query {
				if !(r >= 'a' && r <= 'z' || r >= '0' && r <= '9' || r == '=' || r == '&' || r == '_' || r == '-') {
					h.Reject("bad-query")
				}
			}
		default:
			h.Reject("bad-loc")
		}
		if im.Pad < 0 || im.Pad > 1<<20 {
			h.Reject("bad-pad")
		}
	}
	for _, s := range c.Segs {
		if s.K == "r" && (s.R < 0 || s.R >= n) {
			h.Reject("bad-ref")
		}
	}
	if len(c.Orders) == 0 {
		h.Reject("no-order")
	}
	for _, o := range c.Orders {
		if len(o) != n {
			h.Reject("bad-order")
		}
		seen := make([]bool, n)
		for _, x := range o {
			if x < 0 || x >= n || seen[x] {
				h.Reject("bad-order")
			}
			seen[x] = true
		}
	}

	e := c46Setup(h, &c)
	defer e.close()
	in := e.svg()

	// the href text must identify the image: needed to read the error message as a set
	fixed := "failed to bundle local images: failed to bundle remote images: failed to wait for workers: context deadline exceeded context canceled [] data:image/png;base64,"
	for i := 0; i < n; i++ {
		if strings.Contains(fixed, e.hrefs[i]) || strings.ContainsAny(e.hrefs[i], "\"") {
			h.Reject("ambiguous-href")
		}
		for j := 0; j < n; j++ {
			if i != j && strings.Contains(e.hrefs[j], e.hrefs[i]) {
				h.Reject("ambiguous-href")
			}
		}
	}
	byHref := map[string]int{}
	for i, hr := range e.hrefs {
		byHref[hr] = i
	}
	ms0 := c46Scan(in)
	refCount := map[int]int{}
	hasData := false
	for _, m := range ms0 {
		hr := string(in[m.hs:m.he])
		if strings.HasPrefix(hr, "data:") {
			hasData = true
			continue
		}
		i, ok := byHref[hr]
		if !ok {
			h.Reject("stray-ref") // text that happens to form a reference to an image the case does not describe
		}
		refCount[i]++
	}

	phases := []bool{}
	switch c.Mode {
	case "local":
		phases = []bool{false}
	case "remote":
		phases = []bool{true}
	default:
		phases = []bool{false, true}
	}

	// eligible images per phase in document order (first occurrence)
	eligOf := func(doc []byte, remote bool) []int {
		var el []int
		seen := map[int]bool{}
		for _, m := range c46Scan(doc) {
			hr := string(doc[m.hs:m.he])
			if i, ok := byHref[hr]; ok && !seen[i] && c.Imgs[i].isHTTP() == remote {
				seen[i] = true
				el = append(el, i)
			}
		}
		return el
	}

	cached := map[int]bool{}
	var verdicts []c46Verdict
	var firstOut []byte
	totalElig, totalFail := 0, 0
	nonIdentity := false
	degradedRuns := 0
	earlyReturn, dirty := false, false
	var failKinds, ctypes = map[string]bool{}, map[string]bool{}

	for k, order := range c.Orders {
		prio := map[int]int{}
		for rank, i := range order {
			prio[i] = rank
		}
		cur := in
		v := c46Verdict{}
		runDegraded := false
		nElig, nFail := 0, 0
		for _, remote := range phases {
			elig := eligOf(cur, remote)
			res, run := c46RunPhase(e, remote, cur, elig, prio, cached, c.Sched)
			if run.degraded.Load() {
				runDegraded = true
			}
			if run.early {
				earlyReturn = true
			}
			if run.dirty {
				dirty = true
			}
			kind := "local"
			if remote {
				kind = "remote"
			}
			// reference
			repl := map[string]string{}
			var failing []int
			for _, i := range elig {
				im := &c.Imgs[i]
				if im.Fail != "" {
					failing = append(failing, i)
					failKinds[kind+":"+im.Fail] = true
					continue
				}
				body := e.bodies[i]
				ct := ""
				if remote {
					ct = im.CType
					ctypes[ct] = true
				}
				repl[e.hrefs[i]] = "data:" + c46RefMime(e.hrefs[i], body, remote, ct) + ";base64," + base64.StdEncoding.EncodeToString(body)
			}
			nElig += len(elig)
			nFail += len(failing)
			// order of the eligible images differs from document order?
			for a := 0; a+1 < len(elig); a++ {
				if prio[elig[a]] > prio[elig[a+1]] {
					nonIdentity = true
				}
			}
			msCur := c46Scan(cur)
			want := c46Reference(cur, msCur, repl)

			// harness-side noise: an image that had to load never reached our server
			if remote && res.err != nil {
				for _, i := range elig {
					if c.Imgs[i].Fail == "" && !cached[i] && !run.rt[i].arrived.Load() {
						if m, _ := run.rt[i].errMsg.Load().(string); c46IsNetNoise(m) {
							h.Reject("harness:net")
						}
					}
				}
			}

			if v.sig == "" && !bytes.Equal(res.out, want) {
				sig, msg := c46Diagnose(cur, msCur, repl, res.out)
				v = c46Verdict{sig + ":" + kind, fmt.Sprintf("order %v (%s, run %d): %s", order, c.Sched, k, msg)}
			}
			if v.sig == "" {
				// the error names exactly the failing hrefs
				if len(failing) == 0 && res.err != nil {
					v = c46Verdict{"error-without-failure:" + kind, fmt.Sprintf("order %v: no image fails but error %q", order, res.err.Error())}
				} else if len(failing) > 0 && res.err == nil {
					v = c46Verdict{"failure-not-reported:" + kind, fmt.Sprintf("order %v: images %v fail but the error is nil", order, failing)}
				} else if res.err != nil {
					txt := res.err.Error()
					isFailing := map[int]bool{}
					for _, i := range failing {
						isFailing[i] = true
					}
					for i := 0; i < n; i++ {
						mentioned := strings.Contains(txt, e.hrefs[i])
						if isFailing[i] && !mentioned {
							v = c46Verdict{"failing-href-not-reported:" + kind, fmt.Sprintf("order %v: href %q failed (%s) but error is %q", order, e.hrefs[i], c.Imgs[i].Fail, txt)}
							break
						}
						if !isFailing[i] && mentioned {
							v = c46Verdict{"loaded-href-reported:" + kind, fmt.Sprintf("order %v: href %q did not fail but error is %q", order, e.hrefs[i], txt)}
							break
						}
					}
				}
			}
			for _, i := range elig {
				if c.Imgs[i].Fail == "" && c.Cache {
					cached[i] = true
				}
			}
			cur = res.out
			if v.sig != "" {
				break
			}
		}
		if v.sig == "" {
			if firstOut == nil {
				firstOut = cur
			} else if !bytes.Equal(firstOut, cur) {
				v = c46Verdict{"outputs-differ-between-orders", fmt.Sprintf("order %v gives another result than order %v", order, c.Orders[0])}
			}
		}
		verdicts = append(verdicts, v)
		if runDegraded {
			degradedRuns++
		}
		totalElig, totalFail = nElig, nFail
		if dirty || v.sig != "" {
			break // the first disagreement decides; after a dirty early return the files cannot be reused
		}
	}
	if earlyReturn {
		h.Label("returned_before_all_workers_released")
	}
	if len(e.urlBad) > 0 {
		h.Label("unknown_url_requested")
	}

	bad, good := -1, 0
	for k, v := range verdicts {
		if v.sig != "" {
			if bad < 0 {
				bad = k
			}
		} else {
			good++
		}
	}
	if bad >= 0 {
		v := verdicts[bad]
		if good > 0 {
			h.Failf("order-dependent:"+v.sig, "%d earlier schedule(s) of the same input agree with the reference, but %s", good, v.msg)
		}
		h.Failf(v.sig, "%s", v.msg)
	}

	// labels
	nl := totalElig
	switch {
	case nl > c46WorkerLimit:
		h.Label("n:>16")
	case nl > 6:
		h.Label("n:7-16")
	default:
		h.Label(fmt.Sprintf("n:%d", nl))
	}
	fl := totalFail
	if fl > 6 {
		h.Label("failures:>6")
	} else {
		h.Label(fmt.Sprintf("failures:%d", fl))
	}
	if totalFail == totalElig && totalElig > 0 {
		h.Label("all_fail")
	}
	hasDup, hasAmp, nLocal, nRemote := false, false, 0, 0
	for i, cnt := range refCount {
		if cnt > 1 {
			hasDup = true
		}
		if strings.Contains(e.hrefs[i], "&amp;") {
			hasAmp = true
		}
		if c.Imgs[i].isHTTP() {
			nRemote++
		} else {
			nLocal++
		}
	}
	if hasDup {
		h.Label("has_dup")
	}
	if hasData {
		h.Label("has_data_uri")
	}
	if hasAmp {
		h.Label("has_amp")
	}
	switch {
	case nLocal > 0 && nRemote > 0:
		h.Label("refs:mixed")
	case nRemote > 0:
		h.Label("refs:remote")
	case nLocal > 0:
		h.Label("refs:local")
	default:
		h.Label("refs:none")
	}
	h.Label("mode:"+c.Mode, "sched:"+c.Sched)
	if c.Cache {
		h.Label("cache")
	}
	if c.Stdin {
		h.Label("stdin")
	}
	for k := range failKinds {
		h.Label("fail:" + k)
	}
	for k := range ctypes {
		if k == "" {
			k = "(none)"
		}
		h.Label("ctype:" + k)
	}
	if nonIdentity {
		h.Label("order:non_identity")
	}
	ungated := c46Degraded.Load() >= 3
	if ungated {
		h.Label("sched_forced_ungated")
	}
	if degradedRuns > 0 {
		h.Label("sched_degraded")
		h.AddExtra("schedules_degraded", int64(degradedRuns))
	}
	h.AddExtra("schedules", int64(len(c.Orders)))
	h.AddExtra("bundle_calls", int64(len(c.Orders)*len(phases)))
	h.NonTrivial(totalElig >= 3 && totalFail >= 1 && nonIdentity && degradedRuns == 0 && !ungated)
}

// ---------------------------------------------------------------------------------------
// enumerated core

var (
	c46PNG  = []byte("\x89PNG\r\n\x1a\n\x00\x00\x00\rIHDR\x00\x00\x00\x01")
	c46GIF  = []byte("GIF89a\x01\x00\x01\x00\x80\x00\x00")
	c46JPG  = []byte("\xff\xd8\xff\xe0\x00\x10JFIF\x00")
	c46SVG  = []byte(`<svg xmlns="http://www.w3.org/2000/svg" width="4" height="4"><rect width="4" height="4" fill="red"/></svg>`)
	c46XML  = []byte(`<?xml version="1.0" encoding="utf-8"?><svg xmlns="http://www.w3.org/2000/svg"><image href="k9-inner.png" /></svg>`)
	c46TXT  = []byte("plain text, not an image & <b>\n")
	c46Attr = []byte(` x="0" y="0" width="128" height="128" style="fill:#FFFFFF;stroke:#0D32B2;" />`)
)

var c46Contents = [][]byte{c46PNG, c46SVG, c46GIF, c46JPG, c46XML, c46TXT, {}, {0}, []byte("\x00\x01\x02\xfe\xff"), []byte(`"><image href="x"`)}
var c46Exts = []string{".png", ".svg", "", ".jpg", ".gif", ".PNG", ".xml", ".webp", ".zzq", ".html", ".json"}
var c46CTypes = []string{"image/png", "", "text/xml", "application/octet-stream", "image/svg+xml; charset=utf-8", "text/xml; charset=utf-8", "image/jpeg", "text/plain; charset=utf-8"}
var c46LocalFails = []string{"missing", "dir", "dangling"}
var c46HTTPFails = []string{"404", "drop", "500", "truncate"}

var c46Texts = []string{
	"<?xml version=\"1.0\" encoding=\"utf-8\"?>\n<svg id=\"d2-svg\" xmlns=\"http://www.w3.org/2000/svg\" xmlns:xlink=\"http://www.w3.org/1999/xlink\" viewBox=\"-100 -131 328 587\">",
	"<style type=\"text/css\"><![CDATA[\n.shape { shape-rendering: geometricPrecision; }\n]]></style>",
	"<g id=\"a\"><g class=\"shape\" >",
	"</g><text class=\"text-bold\" x=\"64.0\" y=\"-15.0\" style=\"text-anchor:middle\">a &amp; b</text></g>",
	"<image href=\"\" />",
	"<image  href=\"two-spaces.png\" />",
	"<image xlink:href=\"xlink.png\" />",
	"<IMAGE href=\"upper.png\" />",
	"<image href='single.png' />",
	"<image\nhref=\"newline.png\" />",
	"<img src=\"img.png\">",
	"<!-- a comment -->",
	"<rect x=\"0\" y=\"0\" width=\"10\" height=\"10\" />",
	"$1 ${1} \\1 %s",
	"\n",
	"é✓ text",
	"</svg>",
}

func c46T(s string) c46Seg { return c46Seg{K: "t", T: []byte(s)} }
func c46R(i int) c46Seg    { return c46Seg{K: "r", R: i, T: c46Attr} }

func c46Perms(n int) [][]int {
	var out [][]int
	p := make([]int, n)
	for i := range p {
		p[i] = i
	}
	var rec func(k int)
	rec = func(k int) {
		if k == n {
			out = append(out, append([]int(nil), p...))
			return
		}
		for i := k; i < n; i++ {
			p[k], p[i] = p[i], p[k]
			rec(k + 1)
			p[k], p[i] = p[i], p[k]
		}
	}
	rec(0)
	return out
}

// c46Shape is the fixed document family of the enumerated core: n images of the given kind,
// image 1 carries an escaped ampersand, image 0 is referenced twice, one data-URI image and
// lookalike elements in between.
func c46Shape(n int, kind string, failMask int, sched string) c46Case {
	c := c46Case{Sched: sched, Note: fmt.Sprintf("core %s n=%d fail=%b", kind, n, failMask)}
	for j := 0; j < n; j++ {
		im := c46Img{Data: c46Contents[j%len(c46Contents)]}
		httpImg := kind == "remote" || (kind == "mixed" && j%2 == 1)
		ext := c46Exts[j%len(c46Exts)]
		if httpImg {
			im.Loc = "http"
			im.Name = fmt.Sprintf("k%d-icon%s", j, ext)
			im.CType = c46CTypes[j%len(c46CTypes)]
			if j == 1 {
				im.Query = "fmt=svg&size=2"
			}
			if failMask>>j&1 == 1 {
				im.Fail = c46HTTPFails[j%len(c46HTTPFails)]
			}
		} else {
			im.Loc = []string{"rel", "abs", "rel"}[j%3]
			im.Dir = []string{"", "", "sub/", "", "../", "./"}[j%6]
			im.Name = fmt.Sprintf("k%d-pic%s", j, ext)
			if j == 1 || (kind == "mixed" && j == 0) {
				im.Name = fmt.Sprintf("k%d-a&b 'q'%s", j, ext)
			}
			if failMask>>j&1 == 1 {
				im.Fail = c46LocalFails[j%len(c46LocalFails)]
			}
		}
		c.Imgs = append(c.Imgs, im)
	}
	c.Segs = append(c.Segs, c46T(c46Texts[0]), c46T(c46Texts[1]))
	for j := 0; j < n; j++ {
		c.Segs = append(c.Segs, c46T(c46Texts[2]), c46R(j), c46T(c46Texts[3]))
		if j == 0 {
			c.Segs = append(c.Segs, c46Seg{K: "d", T: c46Attr}, c46T(c46Texts[5]), c46T(c46Texts[4]))
		}
	}
	c.Segs = append(c.Segs, c46T(c46Texts[8]), c46R(0), c46T("<!-- "), c46R(n-1), c46T(" -->"), c46T(c46Texts[16]))
	switch kind {
	case "local":
		c.Mode = "local"
	case "remote":
		c.Mode = "remote"
	default:
		c.Mode = "both"
	}
	return c
}

func c46Wide(n int, kind string, failFrom int, sched string) c46Case {
	c := c46Case{Sched: sched, Note: fmt.Sprintf("wide %s n=%d", kind, n)}
	for j := 0; j < n; j++ {
		im := c46Img{Data: append([]byte(nil), c46Contents[j%4]...), Name: fmt.Sprintf("k%d-w%s", j, c46Exts[j%5])}
		im.Data = append(im.Data, byte(j))
		httpImg := kind == "remote" || (kind == "mixed" && j%3 == 2)
		if httpImg {
			im.Loc = "http"
			im.CType = c46CTypes[j%len(c46CTypes)]
			if j >= failFrom || j%7 == 3 {
				im.Fail = c46HTTPFails[j%len(c46HTTPFails)]
			}
		} else {
			im.Loc = "rel"
			if j >= failFrom || j%7 == 3 {
				im.Fail = c46LocalFails[j%len(c46LocalFails)]
			}
		}
		c.Imgs = append(c.Imgs, im)
		c.Segs = append(c.Segs, c46T("<g>"), c46R(j), c46T("</g>\n"))
	}
	c.Segs = append(c.Segs, c46R(2), c46T("</svg>"))
	id := make([]int, n)
	rev := make([]int, n)
	rot := make([]int, n)
	for i := 0; i < n; i++ {
		id[i], rev[i], rot[i] = i, n-1-i, (i*7+5)%n
	}
	c.Orders = [][]int{rev, rot, id}
	if n%7 == 0 { // (i*7+5)%n is not a permutation then
		c.Orders = [][]int{rev, id}
	}
	c.Mode = map[string]string{"local": "local", "remote": "remote", "mixed": "both"}[kind]
	return c
}

func coreC46() []c46Case {
	var out []c46Case
	maxN := hx.Pick(4, 5)
	for _, kind := range []string{"local", "remote", "mixed"} {
		for n := 1; n <= maxN; n++ {
			perms := c46Perms(n)
			for mask := 0; mask < 1<<n; mask++ {
				c := c46Shape(n, kind, mask, "strict")
				c.Orders = perms
				out = append(out, c)
				if n <= 3 {
					for _, s := range []string{"io", "pileup", "burst"} {
						c2 := c46Shape(n, kind, mask, s)
						c2.Orders = perms
						out = append(out, c2)
					}
				}
			}
		}
	}
	// more images than workers: late starts, local failures that happen late
	for _, kind := range []string{"local", "remote", "mixed"} {
		for _, s := range []string{"strict", "io", "burst"} {
			out = append(out, c46Wide(18, kind, 16, s), c46Wide(23, kind, 20, s), c46Wide(17, kind, 99, s))
		}
		// more failing images than workers, followed by loadable ones: a worker slot that a
		// failure does not give back is only missed once all 16 are gone
		mf := c46Wide(21, kind, 99, "strict")
		for j := range mf.Imgs {
			if j < 17 {
				if mf.Imgs[j].Loc == "http" {
					mf.Imgs[j].Fail = c46HTTPFails[j%len(c46HTTPFails)]
				} else {
					mf.Imgs[j].Fail = c46LocalFails[j%len(c46LocalFails)]
				}
			} else {
				mf.Imgs[j].Fail = ""
			}
		}
		mf.Note = "wide " + kind + " 17 failing then 4 loading"
		mf.Orders = mf.Orders[len(mf.Orders)-1:] // document order
		out = append(out, mf, c46Wide(20, kind, 0, "strict"))
	}
	// cache: the second and third schedule find the loaded images in the bundler's cache
	for _, kind := range []string{"local", "remote", "mixed"} {
		for _, mask := range []int{0, 2, 5, 7} {
			c := c46Shape(3, kind, mask, "strict")
			c.Cache = true
			c.Orders = [][]int{{2, 0, 1}, {1, 2, 0}, {0, 1, 2}}
			c.Note = "cache " + c.Note
			out = append(out, c)
		}
	}
	// stdin input path, absolute hrefs only
	{
		c := c46Shape(3, "local", 2, "strict")
		c.Stdin = true
		c.Orders = c46Perms(3)
		c.Note = "stdin"
		out = append(out, c)
	}
	// contents: larger than a pipe buffer, empty, regular files next to FIFOs
	for _, kind := range []string{"local", "remote"} {
		c := c46Shape(4, kind, 4, "strict")
		c.Imgs[0].Pad = 200_000
		c.Imgs[1].Data = nil
		c.Imgs[3].Regular = true
		c.Orders = [][]int{{3, 2, 1, 0}, {1, 0, 3, 2}}
		c.Note = "big/empty " + kind
		out = append(out, c)
	}
	// a response larger than the bundler's limit is a failure
	if !c46Race {
		c := c46Shape(3, "remote", 0, "strict")
		c.Imgs[1].Fail = "toolarge"
		c.Orders = [][]int{{2, 1, 0}}
		c.Note = "toolarge"
		out = append(out, c)
	}
	// no eligible reference at all
	out = append(out,
		c46Case{Mode: "both", Sched: "strict", Orders: [][]int{{}}, Note: "no images",
			Segs: []c46Seg{c46T(c46Texts[0]), {K: "d", T: c46Attr}, c46T(c46Texts[4]), c46T(c46Texts[5]), c46T(c46Texts[6]), c46T(c46Texts[7]), c46T(c46Texts[8]), c46T(c46Texts[9]), c46T(c46Texts[16]), c46T(`<image href="unterminated`)}},
	)
	// the other kind of reference is not eligible: BundleLocal over remote refs and vice versa
	for _, mode := range []string{"local", "remote"} {
		c := c46Shape(4, "mixed", 3, "strict")
		c.Mode = mode
		c.Orders = [][]int{{3, 2, 1, 0}, {0, 1, 2, 3}}
		c.Note = "mixed refs, only " + mode
		out = append(out, c)
	}
	// n = 6, selected failure sets, selected orders, every scheduler
	for _, kind := range []string{"local", "remote", "mixed"} {
		for _, mask := range []int{0, 1, 0b100000, 0b101010, 0b111111, 0b011110} {
			for _, s := range []string{"strict", "pileup"} {
				c := c46Shape(6, kind, mask, s)
				c.Orders = [][]int{{5, 4, 3, 2, 1, 0}, {1, 0, 3, 2, 5, 4}, {2, 5, 0, 3, 1, 4}, {0, 1, 2, 3, 4, 5}}
				out = append(out, c)
			}
		}
	}
	return out
}

// ---------------------------------------------------------------------------------------
// random cases

var c46NameRunes = []rune("abcxyz0189_-.&'\"<> %#+;=,()[]é✓~@!$")

func genC46(t *rapid.T) c46Case {
	var c c46Case
	n := rapid.IntRange(1, 6).Draw(t, "n")
	wide := gen.Pick(t, "wide", 24, 1) == 1
	if wide {
		n = rapid.IntRange(17, 22).Draw(t, "nwide")
	}
	manyFail := wide && rapid.Bool().Draw(t, "manyfail")
	kind := gen.Pick(t, "kind", 3, 3, 4) // local, remote, mixed
	for j := 0; j < n; j++ {
		var im c46Img
		httpImg := kind == 1 || (kind == 2 && rapid.Bool().Draw(t, "http"))
		body := "img"
		if gen.Pick(t, "namekind", 2, 1) == 1 {
			body = string(rapid.SliceOfN(rapid.SampledFrom(c46NameRunes), 1, 8).Draw(t, "name"))
		} else if rapid.Bool().Draw(t, "amp") {
			body = "a&b"
		}
		im.Name = fmt.Sprintf("k%d-%s%s", j, body, rapid.SampledFrom(c46Exts).Draw(t, "ext"))
		if gen.Pick(t, "data", 5, 1) == 1 {
			im.Data = rapid.SliceOfN(rapid.Byte(), 0, 64).Draw(t, "bytes")
		} else {
			im.Data = rapid.SampledFrom(c46Contents).Draw(t, "content")
		}
		switch gen.Pick(t, "pad", 20, 4, 1) {
		case 1:
			im.Pad = rapid.IntRange(1, 600).Draw(t, "padn")
		case 2:
			im.Pad = rapid.IntRange(66_000, 100_000).Draw(t, "padbig") // more than a pipe buffer
		}
		fails := gen.Pick(t, "fails", 3, 2) == 1
		if wide && manyFail {
			fails = j < n-3 || rapid.Bool().Draw(t, "tailfails")
		}
		if httpImg {
			im.Loc = "http"
			im.CType = rapid.SampledFrom(c46CTypes).Draw(t, "ctype")
			if rapid.Bool().Draw(t, "q") {
				im.Query = rapid.SampledFrom([]string{"v=1", "a=1&b=2", "x&y&z", "size=64&fmt=png&t=0"}).Draw(t, "query")
			}
			if fails {
				im.Fail = rapid.SampledFrom(c46HTTPFails).Draw(t, "fail")
			}
		} else {
			im.Loc = rapid.SampledFrom([]string{"rel", "rel", "abs"}).Draw(t, "loc")
			if im.Loc == "rel" {
				im.Dir = rapid.SampledFrom([]string{"", "", "./", "sub/", "../"}).Draw(t, "dir")
			}
			if fails {
				im.Fail = rapid.SampledFrom(c46LocalFails).Draw(t, "fail")
			} else {
				im.Regular = gen.Pick(t, "regular", 4, 1) == 1
			}
		}
		c.Imgs = append(c.Imgs, im)
	}
	// document: every image at least once, in a drawn order, plus duplicates, data URIs, text
	first := rapid.Permutation(c46Iota(n)).Draw(t, "doc")
	text := func() c46Seg { return c46T(rapid.SampledFrom(c46Texts).Draw(t, "text")) }
	c.Segs = append(c.Segs, c46T(c46Texts[0]))
	for _, j := range first {
		for k := rapid.IntRange(0, 2).Draw(t, "ntext"); k > 0; k-- {
			c.Segs = append(c.Segs, text())
		}
		c.Segs = append(c.Segs, c46R(j))
		switch gen.Pick(t, "extra", 6, 2, 2) {
		case 1:
			c.Segs = append(c.Segs, c46R(rapid.IntRange(0, n-1).Draw(t, "dup")))
		case 2:
			c.Segs = append(c.Segs, c46Seg{K: "d", T: c46Attr})
		}
	}
	c.Segs = append(c.Segs, c46T(c46Texts[16]))
	switch kind {
	case 0:
		c.Mode = "local"
	case 1:
		c.Mode = "remote"
	default:
		c.Mode = []string{"both", "both", "both", "local", "remote"}[gen.Pick(t, "mode", 3, 0, 0, 1, 1)]
	}
	c.Sched = []string{"strict", "io", "pileup", "burst"}[gen.Pick(t, "sched", 5, 2, 2, 1)]
	c.Cache = gen.Pick(t, "cache", 5, 1) == 1
	if kind != 1 {
		c.Stdin = gen.Pick(t, "stdin", 9, 1) == 1
	}
	no := rapid.IntRange(1, hx.Pick(3, 4)).Draw(t, "norders")
	if wide {
		no = rapid.IntRange(1, 2).Draw(t, "norders_wide")
	}
	for k := 0; k < no; k++ {
		c.Orders = append(c.Orders, rapid.Permutation(c46Iota(n)).Draw(t, "order"))
	}
	return c
}

func c46Iota(n int) []int {
	s := make([]int, n)
	for i := range s {
		s[i] = i
	}
	return s
}

func TestC46(t *testing.T) {
	hx.Run(t, hx.Spec[c46Case]{Prop: "C46", Core: coreC46, Gen: genC46, Check: checkC46, Timeout: 150 * time.Second})
}
