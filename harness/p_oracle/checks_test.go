package p_oracle

import (
	"sort"
	"strings"
)

// shared helpers of the property checks

func (o *stepObs) ok() bool { return o.panicked == nil && o.err == nil }

func (o *stepObs) ctx() string {
	tr := o.x.trace
	if len(tr) > 24 {
		tr = tr[len(tr)-24:]
	}
	s := "history:\n  " + strings.Join(tr, "\n  ") + "\nsource before the edit:\n" + o.x.text
	if o.postText != "" {
		s += "\nsource after the edit:\n" + o.postText
	}
	return s
}

// forceStates computes the semantic state of every board of the pre-state (must run before
// the call: the API mutates the graph it is given).
func (o *stepObs) forceStates() {
	for i := range o.x.boards {
		o.x.pre(i)
	}
}

// idAlias matches post elements to pre elements by AbsID (for edits that never change IDs).
func idAlias(pre, post *bstate) map[string]string {
	al := map[string]string{}
	for _, pm := range post.order {
		if m, ok := pre.byID[strings.ToLower(post.els[pm].absID)]; ok && pre.els[m].edge == post.els[pm].edge {
			al[pm] = m
		}
	}
	return al
}

func setOf(xs []string) map[string]bool {
	m := map[string]bool{}
	for _, x := range xs {
		m[x] = true
	}
	return m
}

func sortedKeys(m map[string]bool) []string {
	var out []string
	for k := range m {
		out = append(out, k)
	}
	sort.Strings(out)
	return out
}

// relation of board b to the addressed board: "base" if the addressed board starts from b's
// content (root for a scenario, the previous step for a step, ...), else "unrelated".
func relation(bs []board, b, addr int) string {
	if inheritsFrom(bs, addr, b) {
		return "base"
	}
	return "unrelated"
}
