package p_oracle

import (
	"fmt"
	"sort"
	"strings"

	"oss.terrastruct.com/d2/d2format"
	"oss.terrastruct.com/d2/d2graph"
	"oss.terrastruct.com/d2/d2oracle"
	"oss.terrastruct.com/d2/d2parser"

	"verif/harness/canon"
)

// ---------------------------------------------------------------------------------------
// shared helpers of the property checks

func (o *stepObs) ok() bool { return o.panicked == nil && o.err == nil }

func (o *stepObs) ctx() string {
	tr := o.x.trace
	if len(tr) > 24 {
		tr = tr[len(tr)-24:]
	}
	s := "history:\n  " + strings.Join(tr, "\n  ") + "\nsource before the edit:\n" + o.x.text
	if o.postText != "" {
		s += "\nsource after the edit:\n" + o.postText
	}
	return s
}

// forceStates computes the semantic state of every board of the pre-state (must run before
// the call: the API mutates the graph it is given).
func (o *stepObs) forceStates() {
	for i := range o.x.boards {
		o.x.pre(i)
	}
}

// idAlias matches post elements to pre elements by AbsID (for edits that never change IDs).
func idAlias(pre, post *bstate) map[string]string {
	al := map[string]string{}
	for _, pm := range post.order {
		if m, ok := pre.byID[strings.ToLower(post.els[pm].absID)]; ok && pre.els[m].edge == post.els[pm].edge {
			al[pm] = m
		}
	}
	return al
}

func setOf(xs []string) map[string]bool {
	m := map[string]bool{}
	for _, x := range xs {
		m[x] = true
	}
	return m
}

func sortedKeys(m map[string]bool) []string {
	var out []string
	for k := range m {
		out = append(out, k)
	}
	sort.Strings(out)
	return out
}

// relation of board b to the addressed board: "base" if the addressed board starts from b's
// content (root for a scenario, the previous step for a step, ...), else "unrelated".
func relation(bs []board, b, addr int) string {
	if inheritsFrom(bs, addr, b) {
		return "base"
	}
	return "unrelated"
}

// ---------------------------------------------------------------------------------------
// C36: every successful edit yields source that compiles to the returned diagram and that the
// formatter leaves unchanged.

type c36 struct{ x *exec }

func (k *c36) prop() string { return "C36" }

func (k *c36) check(o *stepObs) {
	x, c := o.x, o.c
	if !o.ok() {
		return
	}
	name := opNames[c.kind]
	if c.nonRoot && x.okEdits >= 1 || c.kind == opUpdateImport && x.okEdits >= 1 {
		x.nt = true
	}
	if o.postG == nil {
		sig := "edited-source-does-not-compile:" + name
		if o.postErr != nil && strings.Contains(o.postErr.Error(), "compiler panic") {
			sig = "edited-source-crashes-compiler:" + name
		}
		if c.kind == opUpdateImport {
			if c.impNew == nil {
				sig += ":remove"
			} else {
				sig += ":repath"
			}
			switch e := o.postErr.Error(); {
			case strings.Contains(e, "indexed edge does not exist"):
				sig += ":dangling-connection-reference"
			case strings.Contains(e, "near"):
				sig += ":dangling-near"
			}
		}
		x.fail(o.step, sig, "%s succeeded but the source it produced does not compile: %v\n%s", c, o.postErr, o.ctx())
		return
	}
	if o.retG != nil {
		var d string
		if p := guard(func() { d = canon.Diff(canon.Of(o.retG).Sorted(), canon.Of(o.postG).Sorted()) }); p != nil {
			x.fail(o.step, "returned-graph-unusable:"+name, "projecting the returned graph panicked: %s", p.val)
			return
		}
		if d != "" {
			x.fail(o.step, "returned-graph-differs-from-source:"+name, "%s: the returned graph is not what its source compiles to: %s\n%s", c, d, o.ctx())
		}
	}
	m, err := d2parser.Parse("index.d2", strings.NewReader(o.postText), nil)
	if err != nil {
		x.fail(o.step, "edited-source-does-not-parse:"+name, "%v", err)
		return
	}
	if t2 := d2format.Format(m); t2 != o.postText {
		x.fail(o.step, unstableSig(o.postText, t2), "%s: the formatter changes the source the edit produced\n--- produced\n%s--- formatted again\n%s%s", c, o.postText, t2, o.ctx())
	}
}

func noBlank(s string) string {
	var out []string
	for _, l := range strings.Split(s, "\n") {
		if strings.TrimSpace(l) != "" {
			out = append(out, l)
		}
	}
	return strings.Join(out, "\n")
}

func hasBoardKeyword(s string) bool {
	return strings.Contains(s, "layers") || strings.Contains(s, "scenarios") || strings.Contains(s, "steps")
}

// unstableSig classifies a formatter instability narrowly.
func unstableSig(a, b string) string {
	switch {
	case noBlank(a) == noBlank(b) && hasBoardKeyword(a):
		return "not-formatter-stable:board-blank-lines"
	case noBlank(a) == noBlank(b):
		return "not-formatter-stable:blank-lines"
	case hasBoardKeyword(a):
		return "not-formatter-stable:board"
	}
	return "not-formatter-stable"
}

// ---------------------------------------------------------------------------------------
// C37: Create and Set change exactly what they name.

type c37 struct{ x *exec }

func (k *c37) prop() string { return "C37" }

func (k *c37) before(o *stepObs) {
	if governs(o.c.kind) == "C37" {
		o.forceStates()
	}
}

func allowedSetCells(cell string) func(string) bool {
	return func(ch string) bool {
		if ch == cell {
			return true
		}
		switch {
		case cell == "label":
			// a block-string label carries its language, and a markdown/code label is a text/code shape
			return ch == "language" || ch == "shape"
		case strings.HasPrefix(cell, "source-arrowhead."):
			return strings.HasPrefix(ch, "source-arrowhead.")
		case strings.HasPrefix(cell, "target-arrowhead."):
			return strings.HasPrefix(ch, "target-arrowhead.")
		}
		return false
	}
}

func (k *c37) check(o *stepObs) {
	x, c := o.x, o.c
	if governs(c.kind) != "C37" || !o.ok() || o.postG == nil {
		return
	}
	name := opNames[c.kind]
	if c.nonRoot && x.okEdits >= 1 {
		x.nt = true
	}
	pre := x.pre(c.bd)
	pj := postBoard(o.postBs, c.bp)
	if pj < 0 {
		x.fail(o.step, "board-vanished:"+name, "%s: the addressed board no longer exists\n%s", c, o.ctx())
		return
	}
	post := stateOf(o.postBs[pj].g)
	al := idAlias(pre, post)
	d := diffStates(pre, post, al)

	// the new / addressed element
	var addedOK map[string]bool // markers (post) that may be new
	switch c.kind {
	case opCreateObj:
		obj := d2oracle.GetObj(o.postG, c.bp, o.newKey)
		if obj == nil || obj == o.postBs[pj].g.Root {
			x.fail(o.step, "create:returned-key-not-found", "%s returned key %q which denotes no object afterwards\n%s", c, o.newKey, o.ctx())
			return
		}
		id := strings.ToLower(obj.AbsID())
		if m, ok := pre.byID[id]; ok {
			x.fail(o.step, "create:returned-key-existed", "%s returned key %q, an object that existed before (%s)\n%s", c, o.newKey, m, o.ctx())
			return
		}
		nm := post.byID[id]
		addedOK = map[string]bool{nm: true}
		for p := post.els[nm].parent; p != ""; p = post.els[p].parent {
			addedOK[p] = true
		}
		if !setOf(d.added)[nm] {
			x.fail(o.step, "create:new-object-not-new", "%s: %q is not among the new elements %v\n%s", c, o.newKey, d.added, o.ctx())
			return
		}
		if o.newKey != c.key {
			x.label("create:key-uniquified")
		}
		if len(d.added) > 1 {
			x.label("create:with-missing-containers")
		}
	case opCreateEdge:
		e := d2oracle.GetEdge(o.postG, c.bp, o.newKey)
		if e == nil {
			x.fail(o.step, "create:returned-key-not-found", "%s returned key %q which is the ID of no connection afterwards (connections: %v)\n%s", c, o.newKey, ids(post, post.edges), o.ctx())
			return
		}
		id := strings.ToLower(e.AbsID())
		if m, ok := pre.byID[id]; ok {
			x.fail(o.step, "create:returned-key-existed", "%s returned key %q, a connection that existed before (%s)\n%s", c, o.newKey, m, o.ctx())
			return
		}
		nm := post.byID[id]
		addedOK = map[string]bool{nm: true}
		ne := post.els[nm]
		rs, rd := al[ne.src], al[ne.dst]
		if rs != c.srcM || rd != c.dstM {
			x.fail(o.step, "create:connection-joins-other-objects", "%s: new connection %s joins %s,%s instead of %s,%s\n%s", c, ne.absID, rs, rd, c.srcM, c.dstM, o.ctx())
			return
		}
		if ne.index > 0 {
			x.label("create:parallel-connection")
		}
	default:
		tm, ok := post.byID[strings.ToLower(c.elemID)]
		if !ok {
			x.fail(o.step, "set:target-vanished:"+c.cell, "%s: the element %s no longer exists\n%s", c, c.elemID, o.ctx())
			return
		}
		got, has := post.els[tm].cells[c.cell]
		want := *c.value
		same := has && got == want
		if !same && has && c.attr != nil && c.attr.keyword && strings.EqualFold(got, want) {
			same = true
			x.label("set:keyword-case-folded")
		}
		if !same && has && c.tag != nil && strings.TrimSpace(got) == strings.TrimSpace(want) {
			// block strings cannot carry leading / trailing white space: left open
			same = true
			x.label("gray:block-string-trims-whitespace")
		}
		if !same {
			x.fail(o.step, setValueSig(c, want, got, has), "%s: afterwards %s of %s is %q (present=%v), want %q\n%s", c, c.cell, c.elemID, got, has, want, o.ctx())
		}
		if c.tag != nil {
			if lang := post.els[tm].cells["language"]; lang != "markdown" {
				x.fail(o.step, "set:block-tag-ignored", "%s: language afterwards is %q\n%s", c, lang, o.ctx())
			}
			x.label("set:label-md")
		}
	}

	// everything else unchanged on the addressed board
	for _, a := range d.added {
		if !addedOK[a] {
			x.fail(o.step, name+":unexpected-new-element", "%s: unexpected new element %s (%s); %s\n%s", c, a, post.els[a].absID, d, o.ctx())
			return
		}
	}
	if len(d.removed) > 0 {
		x.fail(o.step, name+":element-lost", "%s: lost %v; %s\n%s", c, idsPre(pre, d.removed), d, o.ctx())
		return
	}
	for _, m := range d.keys() {
		ch := d.changed[m]
		if (c.kind == opSetLabel || c.kind == opSetAttr) && m == c.elem {
			if bad := only(ch, allowedSetCells(c.cell)); len(bad) > 0 {
				x.fail(o.step, "set:"+cellClass(c.cell)+":other-cell-of-target-changed:"+cellClass(bad[0]), "%s: also changed %v of the same element\n%s", c, bad, o.ctx())
				return
			}
			continue
		}
		what := "other-element-changed"
		if c.kind == opCreateEdge && pre.els[m].edge && len(only(ch, func(a string) bool { return a == "@absid" || a == "@index" })) == 0 {
			what = "existing-connection-renumbered"
		}
		x.fail(o.step, name+":"+what, "%s: element %s (%s) changed %v\n%s", c, m, pre.els[m].absID, ch, o.ctx())
		return
	}

	// other boards
	for i := range x.boards {
		if i == c.bd {
			continue
		}
		j := postBoard(o.postBs, x.boards[i].path)
		if j < 0 {
			x.fail(o.step, "board-vanished:"+name, "%s: board %v no longer exists\n%s", c, x.boards[i].path, o.ctx())
			return
		}
		pi, pj := x.pre(i), stateOf(o.postBs[j].g)
		inh := inheritsFrom(x.boards, i, c.bd)
		al := idAlias(pi, pj)
		if inh {
			// a connection added to the base renumbers the board's own parallel connections:
			// match connections by marker where there is one
			for _, pm := range pj.edges {
				if _, ok := pi.els[pm]; ok && !strings.HasPrefix(pm, "id:") {
					al[pm] = pm
				}
			}
		}
		di := diffStates(pi, pj, al)
		if !inh {
			if !di.empty() {
				x.fail(o.step, name+":unrelated-board-changed", "%s: board %v (%s) changed: %s\n%s", c, x.boards[i].path, relation(x.boards, i, c.bd), di, o.ctx())
				return
			}
			continue
		}
		// a board that starts from the addressed one sees the same edit, nothing else
		var lostObjs []string
		for _, m := range di.removed {
			if !pi.els[m].edge {
				lostObjs = append(lostObjs, m)
			}
		}
		if di.removed = lostObjs; len(di.removed) > 0 {
			x.fail(o.step, name+":element-lost@inheriting-board", "%s: board %v lost %v\n%s", c, x.boards[i].path, idsPre(pi, di.removed), o.ctx())
			return
		}
		for _, a := range di.added {
			if pj.els[a].edge {
				continue
			}
			if _, ok := post.byID[strings.ToLower(pj.els[a].absID)]; !ok {
				x.fail(o.step, name+":unexpected-new-element@inheriting-board", "%s: board %v got %s\n%s", c, x.boards[i].path, pj.els[a].absID, o.ctx())
				return
			}
		}
		for _, m := range di.keys() {
			ch := di.changed[m]
			if pi.els[m].edge {
				continue // connections of an inheriting board are renumbered by edits of the base: not compared
			}
			if (c.kind == opSetLabel || c.kind == opSetAttr) && strings.EqualFold(pi.els[m].absID, c.elemID) {
				if bad := only(ch, allowedSetCells(c.cell)); len(bad) == 0 {
					continue
				}
			}
			if c.kind == opCreateObj && len(only(ch, func(a string) bool { return a == "@absid" || a == "@id" })) == 0 {
				continue // the board's own object merges with a new base object whose name differs in letter case only
			}
			x.fail(o.step, name+":other-element-changed@inheriting-board", "%s: board %v element %s changed %v\n%s", c, x.boards[i].path, pi.els[m].absID, ch, o.ctx())
			return
		}
	}
}

func cellClass(cell string) string {
	if i := strings.IndexByte(cell, '.'); i > 0 && (strings.HasPrefix(cell, "style.") || strings.Contains(cell, "arrowhead")) {
		return cell[:i]
	}
	return cell
}

func setValueSig(c *call, want, got string, has bool) string {
	cls := "other"
	lw := strings.ToLower(want)
	switch {
	case !has:
		cls = "absent"
	case lw == "true" || lw == "false":
		cls = "boolean"
	case lw == "null":
		cls = "null"
	case c.tag != nil && strings.TrimSpace(got) == strings.TrimSpace(want):
		cls = "block-string-whitespace"
	case c.tag != nil:
		cls = "block-string"
	case strings.EqualFold(got, want):
		cls = "letter-case"
	case strings.TrimSpace(got) == strings.TrimSpace(want):
		cls = "whitespace"
	}
	return "set-value-differs:" + cellClass(c.cell) + ":" + cls
}

func ids(st *bstate, ms []string) []string {
	var out []string
	for _, m := range ms {
		out = append(out, st.els[m].absID)
	}
	return out
}

func idsPre(st *bstate, ms []string) []string {
	var out []string
	for _, m := range ms {
		out = append(out, m+"="+st.els[m].absID)
	}
	return out
}

// ---------------------------------------------------------------------------------------
// C38: Delete removes exactly the target and keeps its children.

type c38 struct{ x *exec }

func (k *c38) prop() string { return "C38" }

func (k *c38) before(o *stepObs) {
	if governs(o.c.kind) == "C38" {
		o.forceStates()
	}
}

func groupOf(absID string) string {
	if i := strings.LastIndexByte(absID, '['); i > 0 {
		return absID[:i]
	}
	return absID
}

func (k *c38) check(o *stepObs) {
	x, c := o.x, o.c
	if governs(c.kind) != "C38" || !o.ok() || o.postG == nil {
		return
	}
	name := opNames[c.kind]
	pre := x.pre(c.bd)
	if !pre.marked {
		x.label("unchecked:unmarked-state")
		return
	}
	if c.nonRoot && x.okEdits >= 1 {
		x.nt = true
	}
	pj := postBoard(o.postBs, c.bp)
	if pj < 0 {
		x.fail(o.step, "board-vanished:"+name, "%s: the addressed board no longer exists\n%s", c, o.ctx())
		return
	}
	post := stateOf(o.postBs[pj].g)
	d := diffStates(pre, post, nil)
	suffix := ""
	if c.tInherited {
		x.label(name + ":inherited-target")
	}
	if c.tForeign {
		x.label(name + ":imported-target")
	}
	if len(d.added) > 0 {
		x.fail(o.step, name+":new-element"+suffix, "%s: new elements %v; %s\n%s", c, ids(post, d.added), d, o.ctx())
		return
	}
	T := pre.els[c.elem]
	switch c.kind {
	case opDeleteObj:
		want := map[string]bool{T.m: true}
		for _, e := range pre.edges {
			if pre.els[e].src == T.m || pre.els[e].dst == T.m {
				want[e] = true
			}
		}
		kids := setOf(pre.children(T.m))
		if len(kids) > 0 {
			x.label("delete-obj:container")
		}
		rem := setOf(d.removed)
		for _, m := range sortedKeys(want) {
			if !rem[m] {
				what := "target"
				if m != T.m {
					what = "attached-connection"
				}
				x.fail(o.step, "delete-obj:"+what+"-survives"+suffix, "%s: %s (%s) still exists; %s\n%s", c, m, pre.els[m].absID, d, o.ctx())
				return
			}
		}
		for _, m := range d.removed {
			if want[m] {
				continue
			}
			what := "unrelated-object"
			e := pre.els[m]
			switch {
			case e.edge && (pre.under(e.src, T.m) || pre.under(e.dst, T.m)):
				what = "connection-of-descendant"
			case e.edge:
				what = "unrelated-connection"
			case kids[m]:
				what = "child"
			case pre.under(m, T.m):
				what = "descendant"
			}
			if o.postBs[pj].g.IsFolderOnly {
				// the board's block became empty, the formatter prints it as a bare key, which is a folder
				what = "rest-of-emptied-board"
			}
			x.fail(o.step, "delete-obj:"+what+"-lost"+suffix, "%s: %s (%s) is gone too; %s\n%s", c, m, e.absID, d, o.ctx())
			return
		}
		for _, m := range d.keys() {
		ch := d.changed[m]
			e := pre.els[m]
			var allowed func(string) bool
			switch {
			case kids[m]:
				if post.els[m].parent != T.parent {
					x.fail(o.step, "delete-obj:child-not-moved-to-parent"+suffix, "%s: child %s (%s) now lives under %q, deleted object's parent was %q\n%s", c, m, e.absID, post.els[m].parent, T.parent, o.ctx())
					return
				}
				collide := false
				for _, s := range pre.children(T.parent) {
					if s != T.m && strings.EqualFold(pre.els[s].id, e.id) {
						collide = true
					}
				}
				if collide {
					x.label("delete-obj:child-name-taken")
				}
				allowed = func(a string) bool { return a == "@absid" || a == "@parent" || (a == "@id" && collide) }
			case !e.edge && pre.under(m, T.m):
				allowed = func(a string) bool { return a == "@absid" }
			case e.edge && (pre.under(e.src, T.m) || pre.under(e.dst, T.m)):
				allowed = func(a string) bool { return a == "@absid" || a == "@index" }
			default:
				allowed = func(string) bool { return false }
			}
			if bad := only(ch, allowed); len(bad) > 0 {
				what := "other-element-changed"
				if m == T.parent && !strings.HasPrefix(bad[0], "@") {
					what = "attribute-moved-to-parent"
				} else if kids[m] && bad[0] == "@id" {
					what = "child-renamed-without-collision"
				} else if pre.under(m, T.m) || e.edge && (pre.under(e.src, T.m) || pre.under(e.dst, T.m)) {
					what = "descendant-changed:" + strings.TrimPrefix(cellClass(bad[0]), "@")
				}
				x.fail(o.step, "delete-obj:"+what+suffix, "%s: %s (%s) changed %v\n%s", c, m, e.absID, bad, o.ctx())
				return
			}
		}
		// every kept child is a child of the former parent
		for _, m := range sortedKeys(kids) {
			if pe, ok := post.els[m]; ok && pe.parent != T.parent {
				x.fail(o.step, "delete-obj:child-not-moved-to-parent"+suffix, "%s: child %s now lives under %q\n%s", c, m, pe.parent, o.ctx())
				return
			}
		}
	case opDeleteEdge:
		if len(d.removed) != 1 || d.removed[0] != T.m {
			sig := "delete-edge:removed-other"
			if len(d.removed) == 0 {
				sig = "delete-edge:target-survives"
			}
			x.fail(o.step, sig+suffix, "%s: removed %v, want exactly %s; %s\n%s", c, idsPre(pre, d.removed), T.m, d, o.ctx())
			return
		}
		for _, m := range d.keys() {
		ch := d.changed[m]
			e := pre.els[m]
			later := e.edge && groupOf(e.absID) == groupOf(T.absID) && e.index > T.index
			if later {
				x.label("delete-edge:renumbered-parallel")
				if post.els[m].index != e.index-1 {
					x.fail(o.step, "delete-edge:parallel-not-renumbered"+suffix, "%s: parallel connection %s (%s) has index %d afterwards\n%s", c, m, e.absID, post.els[m].index, o.ctx())
					return
				}
			}
			if bad := only(ch, func(a string) bool { return later && (a == "@index" || a == "@absid") }); len(bad) > 0 {
				x.fail(o.step, "delete-edge:other-element-changed"+suffix, "%s: %s (%s) changed %v\n%s", c, m, e.absID, bad, o.ctx())
				return
			}
		}
		for _, m := range pre.edges {
			e := pre.els[m]
			if m != T.m && groupOf(e.absID) == groupOf(T.absID) && e.index > T.index {
				if pe, ok := post.els[m]; ok && pe.index != e.index-1 {
					x.fail(o.step, "delete-edge:parallel-not-renumbered"+suffix, "%s: parallel connection %s (%s) has index %d afterwards\n%s", c, m, e.absID, pe.index, o.ctx())
					return
				}
			}
		}
	case opDeleteAttr:
		if len(d.removed) > 0 {
			x.fail(o.step, "delete-attr:element-lost"+suffix, "%s: lost %v\n%s", c, idsPre(pre, d.removed), o.ctx())
			return
		}
		_, had := T.cells[c.cell]
		if had {
			x.label("delete-attr:was-set")
			if v, still := post.els[T.m].cells[c.cell]; still {
				x.fail(o.step, "delete-attr:not-reset:"+cellClass(c.cell)+suffix, "%s: %s is still %q\n%s", c, c.cell, v, o.ctx())
				return
			}
		}
		for _, m := range d.keys() {
		ch := d.changed[m]
			if bad := only(ch, func(a string) bool { return m == T.m && a == c.cell }); len(bad) > 0 {
				what := "other-element-changed"
				if m == T.m {
					what = cellClass(c.cell) + ":other-cell-of-target-changed:" + cellClass(bad[0])
				} else if bad[0] == c.cell && !T.edge && pre.under(m, T.m) {
					what = "same-attribute-of-descendant-reset"
				} else if bad[0] == c.cell && T.edge {
					what = "same-attribute-of-other-connection-reset"
				}
				x.fail(o.step, "delete-attr:"+what+suffix, "%s: %s (%s) changed %v\n%s", c, m, pre.els[m].absID, bad, o.ctx())
				return
			}
		}
	}
	k.otherBoards(o, name)
}

// otherBoards: boards that do not start from the addressed one are untouched (by markers / IDs).
func (k *c38) otherBoards(o *stepObs, name string) { unrelatedBoardsSame(o, name) }

func unrelatedBoardsSame(o *stepObs, name string) {
	x, c := o.x, o.c
	for i := range x.boards {
		if i == c.bd || inheritsFrom(x.boards, i, c.bd) {
			continue
		}
		j := postBoard(o.postBs, x.boards[i].path)
		if j < 0 {
			x.fail(o.step, "board-vanished:"+name, "%s: board %v no longer exists\n%s", c, x.boards[i].path, o.ctx())
			return
		}
		pi, pj := x.pre(i), stateOf(o.postBs[j].g)
		if di := diffStates(pi, pj, idAlias(pi, pj)); !di.empty() {
			x.fail(o.step, name+":unrelated-board-changed", "%s: board %v (%s) changed: %s\n%s", c, x.boards[i].path, relation(x.boards, i, c.bd), di, o.ctx())
			return
		}
	}
}

// ---------------------------------------------------------------------------------------
// C39: Rename and Move relocate objects without losing anything.

type c39 struct{ x *exec }

func (k *c39) prop() string { return "C39" }

func (k *c39) before(o *stepObs) {
	if governs(o.c.kind) == "C39" {
		o.forceStates()
	}
}

func (k *c39) check(o *stepObs) {
	x, c := o.x, o.c
	if governs(c.kind) != "C39" || !o.ok() || o.postG == nil {
		return
	}
	name := opNames[c.kind]
	pre := x.pre(c.bd)
	if !pre.marked {
		x.label("unchecked:unmarked-state")
		return
	}
	if c.nonRoot && x.okEdits >= 1 {
		x.nt = true
	}
	pj := postBoard(o.postBs, c.bp)
	if pj < 0 {
		x.fail(o.step, "board-vanished:"+name, "%s: the addressed board no longer exists\n%s", c, o.ctx())
		return
	}
	post := stateOf(o.postBs[pj].g)
	d := diffStates(pre, post, nil)
	T := pre.els[c.elem]
	cross := c.kind == opMove && c.dest != T.parent
	if c.kind == opMove {
		switch {
		case !cross:
			x.label("move:same-scope")
			name = "move-same-scope"
		case c.inclDesc:
			name = "move+desc"
		}
		if cross && c.dest == "" {
			x.label("move:to-root")
		} else if cross && pre.under(T.m, c.dest) {
			x.label("move:outwards")
		} else if cross {
			x.label("move:into-container")
		}
		if len(pre.children(T.m)) > 0 {
			x.label(name + ":container")
		}
	}
	if len(d.removed) > 0 {
		what := "element"
		e := pre.els[d.removed[0]]
		switch {
		case e.m == T.m:
			what = "target"
		case e.edge:
			what = "connection"
		case pre.under(e.m, T.m):
			what = "descendant"
		}
		x.fail(o.step, name+":"+what+"-lost", "%s: lost %v; %s\n%s", c, idsPre(pre, d.removed), d, o.ctx())
		return
	}
	// new elements: only containers on the destination path
	if len(d.added) > 0 {
		okAdded := map[string]bool{}
		if pt, ok := post.els[T.m]; ok {
			for p := pt.parent; p != ""; p = post.els[p].parent {
				okAdded[p] = true
			}
		}
		for _, a := range d.added {
			if !okAdded[a] || post.els[a].edge {
				x.fail(o.step, name+":new-element", "%s: new element %s; %s\n%s", c, post.els[a].absID, d, o.ctx())
				return
			}
		}
		x.label("move:created-containers")
	}
	pt := post.els[T.m]
	if cross && pt.parent != c.dest {
		x.fail(o.step, name+":not-at-destination", "%s: %s now lives under %q, destination was %q (%s)\n%s", c, T.m, pt.parent, c.dest, pt.absID, o.ctx())
		return
	}
	kids := setOf(pre.children(T.m))
	for _, m := range d.keys() {
		ch := d.changed[m]
		e := pre.els[m]
		var allowed func(string) bool
		switch {
		case m == T.m:
			allowed = func(a string) bool { return a == "@id" || a == "@absid" || (cross && a == "@parent") }
		case kids[m] && cross && !c.inclDesc:
			// children that are not moved stay in the former parent; renamed only if the name is taken there
			if post.els[m].parent != T.parent {
				x.fail(o.step, name+":child-not-left-in-former-parent", "%s: child %s (%s) now lives under %q, former parent %q\n%s", c, m, e.absID, post.els[m].parent, T.parent, o.ctx())
				return
			}
			collide := false
			for _, s := range pre.children(T.parent) {
				if strings.EqualFold(pre.els[s].id, e.id) {
					collide = true
				}
			}
			if collide {
				x.label("move:child-name-taken")
			}
			allowed = func(a string) bool { return a == "@absid" || a == "@parent" || (a == "@id" && collide) }
		case !e.edge && pre.under(m, T.m):
			allowed = func(a string) bool { return a == "@absid" }
		case e.edge && (pre.under(e.src, T.m) || pre.under(e.dst, T.m)):
			// the ID of an attached connection changes with its ends; parallel ones may swap their order
			allowed = func(a string) bool { return a == "@absid" || a == "@index" }
			if post.els[m].index != e.index {
				x.label("gray:parallel-connections-reordered")
			}
		default:
			allowed = func(string) bool { return false }
		}
		if bad := only(ch, allowed); len(bad) > 0 {
			what := "other-element-changed"
			switch {
			case m == T.m:
				what = "target-changed"
			case !e.edge && pre.under(m, T.m):
				what = "descendant-changed"
			case e.edge && (bad[0] == "@src" || bad[0] == "@dst"):
				what = "connection-reattached"
			case e.edge && (pre.under(e.src, T.m) || pre.under(e.dst, T.m)):
				what = "attached-connection-changed"
			case e.edge:
				what = "other-connection-changed"
			}
			x.fail(o.step, name+":"+what+":"+strings.TrimPrefix(cellClass(bad[0]), "@"), "%s: %s (%s) changed %v; %s\n%s", c, m, e.absID, bad, d, o.ctx())
			return
		}
	}
	if cross && !c.inclDesc {
		for _, m := range sortedKeys(kids) {
			if post.els[m].parent != T.parent {
				x.fail(o.step, name+":child-moved-along", "%s: child %s still lives under %q although descendants were not included\n%s", c, m, post.els[m].parent, o.ctx())
				return
			}
		}
	}
	if cross && c.inclDesc {
		for _, m := range sortedKeys(kids) {
			if post.els[m].parent != T.m {
				x.fail(o.step, name+":child-left-behind", "%s: child %s lives under %q although descendants were included\n%s", c, m, post.els[m].parent, o.ctx())
				return
			}
		}
	}
	unrelatedBoardsSame(o, name)
}

// ---------------------------------------------------------------------------------------
// C40: ID-change predictions match the edits they predict.

type c40 struct{ x *exec }

func (k *c40) prop() string { return "C40" }

func hasDeltas(c *call) bool {
	switch c.kind {
	case opDeleteObj, opDeleteEdge, opDeleteAttr, opRename, opReconnect:
		return true
	case opMove:
		return c.bd == 0 // MoveIDDeltas has no board path
	}
	return false
}

func (k *c40) before(o *stepObs) {
	x, c := o.x, o.c
	if !hasDeltas(c) {
		return
	}
	x.pre(c.bd)
	o.deltasSet = true
	g := x.g
	p := guard(func() {
		switch c.kind {
		case opDeleteObj, opDeleteEdge, opDeleteAttr:
			o.deltas, o.deltasErr = d2oracle.DeleteIDDeltas(g, c.bp, c.key)
		case opRename:
			o.deltas, o.deltasErr = d2oracle.RenameIDDeltas(g, c.bp, c.key, c.newName)
		case opMove:
			o.deltas, o.deltasErr = d2oracle.MoveIDDeltas(g, c.key, c.newKey, c.inclDesc)
		case opReconnect:
			o.deltas, o.deltasErr = d2oracle.ReconnectEdgeIDDeltas(g, c.bp, c.key, c.srcKey, c.dstKey)
		}
	})
	if p != nil {
		x.label("panic:deltas:" + opNames[c.kind])
		x.fail(o.step, p.sig+"@deltas:"+opNames[c.kind], "ID deltas for %s panicked: %s\n%s\nsource:\n%s", c, p.val, p.stack, x.text)
		o.deltasSet = false
		// the graph may be half-modified: start the edit from a fresh compile
		x.reload()
		x.pre(c.bd)
	}
}

func (k *c40) check(o *stepObs) {
	x, c := o.x, o.c
	if !o.deltasSet || !o.ok() || o.postG == nil {
		return
	}
	name := opNames[c.kind]
	if c.kind == opMove && c.inclDesc {
		name += "+desc"
	}
	if o.deltasErr != nil {
		x.label("deltas-refused-edit-ok:" + name)
		return
	}
	pre := x.pre(c.bd)
	if !pre.marked {
		x.label("unchecked:unmarked-state")
		return
	}
	pj := postBoard(o.postBs, c.bp)
	if pj < 0 {
		return
	}
	post := stateOf(o.postBs[pj].g)
	if !post.marked {
		x.label("unchecked:unmarked-post-state")
		return
	}
	if c.nonRoot && x.okEdits >= 1 {
		x.nt = true
	}
	if len(o.deltas) > 0 {
		x.label("deltas:nonempty:" + name)
	} else {
		x.label("deltas:empty:" + name)
	}
	for _, m := range pre.order {
		a := pre.els[m]
		b, survives := post.els[m]
		want, predicted := o.deltas[a.absID]
		kind := "object"
		if a.edge {
			kind = "connection"
		}
		if !survives {
			if predicted {
				x.fail(o.step, "delta-for-removed-"+kind+":"+name, "%s: %s (%s) is removed by the edit but the deltas predict %q -> %q\ndeltas: %v\n%s", c, m, a.absID, a.absID, want, o.deltas, o.ctx())
				return
			}
			continue
		}
		if !predicted {
			want = a.absID
		}
		if b.absID != want {
			what := "wrong-new-id"
			if !predicted {
				what = "unpredicted-id-change"
			} else if b.absID == a.absID {
				what = "predicted-change-did-not-happen"
			}
			x.fail(o.step, "delta-mismatch:"+what+":"+kind+":"+name, "%s: %s %s had ID %q, deltas predict %q, the edit gives %q\ndeltas: %v\n%s", c, kind, m, a.absID, want, b.absID, o.deltas, o.ctx())
			return
		}
	}
}

// ---------------------------------------------------------------------------------------
// C41: edits on a board stay within that board (and the boards that start from it).

type c41 struct{ x *exec }

func (k *c41) prop() string { return "C41" }

func (k *c41) before(o *stepObs) {
	x, c := o.x, o.c
	if c.bd == 0 || c.kind == opUpdateImport {
		return
	}
	for i := range x.boards {
		if !inheritsFrom(x.boards, i, c.bd) {
			x.preCanon(i)
		}
	}
}

func (k *c41) compare(o *stepObs, g *d2graph.Graph, sigPrefix string) {
	x, c := o.x, o.c
	bs := listBoards(g)
	for i := range x.boards {
		if inheritsFrom(x.boards, i, c.bd) {
			continue
		}
		rel := relation(x.boards, i, c.bd)
		j := postBoard(bs, x.boards[i].path)
		if j < 0 {
			x.fail(o.step, sigPrefix+"board-vanished:"+rel, "%s: board %v no longer exists\n%s", c, x.boards[i].path, o.ctx())
			return
		}
		if d := canon.Diff(x.preCanon(i), canonAlone(bs[j].g)); d != "" {
			x.fail(o.step, sigPrefix+"other-board-changed:"+opNames[c.kind]+":"+rel, "%s addressed to board %v changed board %v (%s): %s\n%s", c, c.bp, x.boards[i].path, rel, d, o.ctx())
			return
		}
	}
}

func (k *c41) check(o *stepObs) {
	x, c := o.x, o.c
	if c.bd == 0 || c.kind == opUpdateImport || o.panicked != nil {
		return
	}
	if x.okEdits >= 1 {
		x.nt = true
	}
	x.label("board-edit:" + x.boards[c.bd].kind)
	if o.err != nil {
		// a refused edit must not have changed the caller's graph
		var t string
		if p := guard(func() { t = d2format.Format(x.g.AST) }); p != nil {
			x.fail(o.step, "refused-edit-left-unprintable-ast:"+opNames[c.kind], "%s was refused (%v) and formatting the caller's AST now panics: %s", c, o.err, p.val)
			return
		}
		if t == x.text {
			x.label("refused@board:source-untouched")
			return
		}
		x.label("refused@board:source-modified")
		g, err := compileText(x.files, t)
		if err != nil {
			x.fail(o.step, "refused-edit-broke-source:"+opNames[c.kind], "%s was refused (%v) but the caller's graph was modified and no longer compiles: %v\n--- caller's source now\n%s%s", c, firstLine(o.err.Error()), err, t, o.ctx())
			return
		}
		k.compare(o, g, "refused:")
		return
	}
	if o.postG == nil {
		return
	}
	k.compare(o, o.postG, "")
}

var _ = fmt.Sprint
