package p_oracle

import (
	"encoding/json"
	"flag"
	"fmt"
	"os"
	"strings"
	"sync"
	"time"

	"verif/harness/hx"
)

var knownOnce sync.Once
var knownSigs map[string]bool

// isKnown reads the list of open findings the runner was given (only to decide whether a
// failing history is worth minimising; the classification itself is done by hx).
func isKnown(prop, sig string) bool {
	knownOnce.Do(func() {
		knownSigs = map[string]bool{}
		f := flag.Lookup("verif.known")
		if f == nil || f.Value.String() == "" {
			return
		}
		b, err := os.ReadFile(f.Value.String())
		if err != nil {
			return
		}
		var kf struct {
			Findings []struct {
				Property, Sig, Status string
			} `json:"findings"`
		}
		if json.Unmarshal(b, &kf) == nil {
			for _, x := range kf.Findings {
				if x.Status == "open" {
					knownSigs[x.Property+"\x00"+x.Sig] = true
				}
			}
		}
	})
	return knownSigs[prop+"\x00"+sig]
}

func hasSig(r *result, sig string) bool {
	for _, v := range r.viol {
		if v.sig == sig {
			return true
		}
	}
	return false
}

// minimise greedily drops edits and source lines / blocks while the violation keeps its signature.
func minimise(c Case, prop, sig string) Case {
	still := func(c Case) bool {
		if len(c.Ops) == 0 {
			return false
		}
		r := run(c, checkers[prop], prop)
		return r.rejected == "" && hasSig(r, sig)
	}
	deadline := time.Now().Add(minimiseBudget)
	for progress := true; progress && time.Now().Before(deadline); {
		progress = false
		for i := len(c.Ops) - 1; i >= 0; i-- {
			d := Case{Files: c.Files, Ops: append(append([]Op(nil), c.Ops[:i]...), c.Ops[i+1:]...)}
			if still(d) {
				c, progress = d, true
			}
		}
		for _, name := range []string{"index.d2", "imp.d2"} {
			src, ok := c.Files[name]
			if !ok {
				continue
			}
			lines := strings.Split(strings.TrimRight(src, "\n"), "\n")
			for i := len(lines) - 1; i >= 0 && time.Now().Before(deadline); i-- {
				if i >= len(lines) {
					continue
				}
				// a single line, or the block it opens
				j := i
				if strings.HasSuffix(strings.TrimSpace(lines[i]), "{") {
					depth := 0
					for j = i; j < len(lines); j++ {
						depth += strings.Count(lines[j], "{") - strings.Count(lines[j], "}")
						if depth <= 0 {
							break
						}
					}
					if j >= len(lines) {
						continue
					}
				} else if strings.Count(lines[i], "{") != strings.Count(lines[i], "}") {
					continue
				}
				nl := append(append([]string(nil), lines[:i]...), lines[j+1:]...)
				files := map[string]string{}
				for k, v := range c.Files {
					files[k] = v
				}
				files[name] = strings.Join(nl, "\n") + "\n"
				if name == "imp.d2" {
					files["imp2.d2"] = files[name]
				}
				d := Case{Files: files, Ops: c.Ops}
				if still(d) {
					c, lines, progress = d, nl, true
				}
			}
		}
		// smaller op fields
		for i := range c.Ops {
			for _, f := range []func(o *Op) *int{func(o *Op) *int { return &o.A }, func(o *Op) *int { return &o.B }, func(o *Op) *int { return &o.N },
				func(o *Op) *int { return &o.T }, func(o *Op) *int { return &o.V }, func(o *Op) *int { return &o.F }} {
				ops := append([]Op(nil), c.Ops...)
				if p := f(&ops[i]); *p != 0 {
					*p = 0
					if d := (Case{Files: c.Files, Ops: ops}); still(d) {
						c, progress = d, true
					}
				}
			}
		}
	}
	return c
}

var minimised = map[string]string{}

var checkers = map[string]func(x *exec) checker{
	"C36": func(x *exec) checker { return &c36{x} },
	"C37": func(x *exec) checker { return &c37{x} },
	"C38": func(x *exec) checker { return &c38{x} },
	"C39": func(x *exec) checker { return &c39{x} },
	"C40": func(x *exec) checker { return &c40{x} },
	"C41": func(x *exec) checker { return &c41{x} },
}

func sigList(r *result) string {
	var s []string
	for _, v := range r.viol {
		s = append(s, fmt.Sprintf("#%d %s", v.step, v.sig))
	}
	return strings.Join(s, " | ")
}

// checkCase runs the history for one property; a history with a violation (and every eighth
// history) is executed twice: an outcome that differs between two executions is reported as
// nondeterministic-edit instead.
func checkCase(prop string) func(h *hx.H, c Case) {
	return func(h *hx.H, c Case) {
		if len(c.Ops) == 0 {
			h.Reject("empty-history")
		}
		r := run(c, checkers[prop], prop)
		if r.rejected != "" {
			h.Reject(r.rejected)
		}
		cj, _ := json.Marshal(c)
		if len(r.viol) > 0 || hash64(cj)%8 == 0 {
			r2 := run(c, checkers[prop], prop)
			if sigList(r) != sigList(r2) || r.thash != r2.thash {
				h.FailSoft("nondeterministic-edit", "two executions of the same history differ:\nfirst:  %s (texts %s)\nsecond: %s (texts %s)\nhistory:\n  %s",
					sigList(r), r.thash, sigList(r2), r2.thash, strings.Join(r.trace, "\n  "))
				return
			}
			h.Label("executed-twice")
		}
		h.Label(r.labels...)
		for _, l := range r.labels {
			if strings.HasPrefix(l, "gray:") {
				h.Gray()
			}
		}
		h.NonTrivial(r.nt)
		if dir := os.Getenv("P_ORACLE_SURVEY"); dir != "" {
			// development aid: never fail, count every signature and keep one minimised example of each
			for _, v := range r.viol {
				h.Label("VIOL:" + v.sig)
				if _, done := minimised[v.sig]; !done {
					minimised[v.sig] = ""
					m := minimise(c, prop, v.sig)
					mj, _ := json.Marshal(m)
					msg := v.msg
					if rm := run(m, checkers[prop], prop); hasSig(rm, v.sig) {
						for _, w := range rm.viol {
							if w.sig == v.sig {
								msg = w.msg
								break
							}
						}
					}
					os.MkdirAll(dir, 0o755)
					name := strings.NewReplacer("/", "_", ":", "_", " ", "_", "*", "_").Replace(prop + "__" + v.sig)
					os.WriteFile(dir+"/"+name+".txt", []byte(fmt.Sprintf("SIG %s\nCASE {\"case\": %s}\n%s\n", v.sig, mj, msg)), 0o644)
				}
			}
			return
		}
		for _, v := range r.viol {
			if _, done := minimised[v.sig]; !isKnown(prop, v.sig) && !hx.Replaying() && !done {
				minimised[v.sig] = "" // once per signature and process: rapid's own shrinking re-enters here
				m := minimise(c, prop, v.sig)
				mj, _ := json.Marshal(m)
				if rm := run(m, checkers[prop], prop); len(mj) < len(cj) && hasSig(rm, v.sig) {
					for _, w := range rm.viol {
						if w.sig == v.sig {
							minimised[v.sig] = fmt.Sprintf("\n=== MINIMISED CASE %s\nstep #%d: %s", mj, w.step, w.msg)
							break
						}
					}
				}
			}
			h.FailSoft(v.sig, "step #%d: %s%s", v.step, v.msg, minimised[v.sig])
		}
	}
}

func spec(prop string) hx.Spec[Case] {
	return hx.Spec[Case]{Prop: prop, Core: coreCases, Gen: genCase(prop), Check: checkCase(prop), Timeout: 60 * time.Second}
}


var minimiseBudget = func() time.Duration {
	if os.Getenv("P_ORACLE_SURVEY") != "" {
		return 6 * time.Second
	}
	return 20 * time.Second
}()
