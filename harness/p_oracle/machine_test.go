// Package p_oracle holds the stateful checks of the editing API (d2oracle): one shared machine
// (this file) executes a history of abstract edits against a compiled diagram; each property
// C36..C41 runs the same machine and asserts only its own invariant (cNN_test.go; shared helpers in
// checks_test.go, start states and histories in gen_test.go, double execution / minimisation in
// run_test.go).
package p_oracle

import (
	"crypto/sha256"
	"encoding/binary"
	"fmt"
	"regexp"
	"runtime/debug"
	"sort"
	"strconv"
	"strings"
	"unicode"

	"oss.terrastruct.com/d2/d2ast"
	"oss.terrastruct.com/d2/d2compiler"
	"oss.terrastruct.com/d2/d2format"
	"oss.terrastruct.com/d2/d2graph"
	"oss.terrastruct.com/d2/d2oracle"
	"oss.terrastruct.com/d2/d2parser"
	"oss.terrastruct.com/d2/lib/memfs"

	"verif/harness/canon"
	"verif/harness/gen"
	"verif/harness/hx"
)

// ---------------------------------------------------------------------------------------
// The case value

// Op is one abstract edit. Every field is a small non-negative integer that is resolved
// against the CURRENT compiled graph when the op is executed ("object #A mod n"), so a case
// replays from its JSON alone and rapid can shrink every field towards 0.
type Op struct {
	K  int `json:"k"`            // operation kind (op* constants)
	A  int `json:"a,omitempty"`  // primary element: object #A / connection #A / element #A
	B  int `json:"b,omitempty"`  // secondary object: container (0 = board root, else object #B-1), connection end
	N  int `json:"n,omitempty"`  // fresh-name index into namePool; reconnect: new destination object
	T  int `json:"t,omitempty"`  // attribute index
	V  int `json:"v,omitempty"`  // value index
	F  int `json:"f,omitempty"`  // flags, meaning per kind (bit0: includeDescendants / missing container / md tag ...)
	Bd int `json:"bd,omitempty"` // target board index in DFS order, 0 = root board
}

const (
	opCreateObj = iota
	opCreateEdge
	opSetLabel
	opSetAttr
	opDeleteObj
	opDeleteEdge
	opDeleteAttr
	opRename
	opMove
	opReconnect
	opUpdateImport
	nOpKinds
)

var opNames = [...]string{"create-obj", "create-edge", "set-label", "set-attr", "delete-obj", "delete-edge", "delete-attr", "rename", "move", "reconnect", "update-import"}

// Case is a start state (a small file set, entry index.d2) and a history of edits.
type Case struct {
	Files map[string]string `json:"files"`
	Ops   []Op              `json:"ops"`
}

// governing property of an operation kind (panics are attributed to it)
func governs(kind int) string {
	switch kind {
	case opCreateObj, opCreateEdge, opSetLabel, opSetAttr:
		return "C37"
	case opDeleteObj, opDeleteEdge, opDeleteAttr:
		return "C38"
	case opRename, opMove:
		return "C39"
	}
	return "C36"
}

// ---------------------------------------------------------------------------------------
// Pools

var namePool []string // plain names first (shrinking target), then names needing quotes / non-ASCII
var nPlainNames int

func keywordSpelling(s string) bool {
	l := strings.ToLower(strings.TrimSpace(s))
	if _, ok := d2ast.ReservedKeywords[l]; ok {
		return true
	}
	for _, k := range gen.ValueKeywords {
		if l == k {
			return true
		}
	}
	return false
}

func init() {
	// the machine allocates many short-lived graphs; a lazier collector halves the run time
	debug.SetGCPercent(400)
	namePool = append(namePool, gen.PlainNames...)
	namePool = append(namePool, "user", "db", "api", "queue", "svc", "web")
	nPlainNames = len(namePool)
	seen := map[string]bool{}
	for _, n := range gen.HostileNames {
		if n == "" || strings.ContainsAny(n, "\n\r") || keywordSpelling(n) || seen[n] {
			continue
		}
		// letters whose case folding is not plain lower-casing make distinct names collide in the
		// compiler (EqualFold) but not in d2graph's lookups (ToLower): a naming defect of its own
		// (see C06), kept out of the editing histories
		if strings.ContainsAny(n, "ςſ\u212aıİǅǆǄ") {
			continue
		}
		seen[n] = true
		namePool = append(namePool, n)
	}
}

// label suffixes: a label value is "L<n>" + suffix; the marker stays recognisable
var labelSuffixes = []string{"", "", "", " two words", "~x: y", "~a -> b", "~#hash", "~semi;colon", "~{brace}", "~[br]", "~|pipe|", "~it's", "~say \"hi\"",
	"~$dollar ${x}", "~trailing ", "~héllo wörld", "~日本語", "~a.b", "~*", "~&amp;", "~@at", "~back\\slash", "~two\nlines", "~`tick`", "~null", "~true", "~...", "~(p)", "~<b>x</b>", "~-", "~--"}

// raw (marker-less) label values: the element is re-marked by a following automatic Set
var rawLabels = []string{"plain", "x", "A label", "null", "NULL", "true", "false", "suspend", "1", "0.5", "a: b", "#c", "", " ", "two\nlines", "shape", "label", "_", "*", "${x}", "$y", "-", "->", "|", "|md x|", "'", "\"", "\\", "a;b", "{", "}", "[x]", "@x", "...", "é"}

type attrSpec struct {
	key     string   // D2 key suffix, also the cell name
	vals    []string // in-domain values (raw strings as handed to Set)
	keyword bool     // keyword-valued: compared case-insensitively
}

var colorVals = []string{"red", "blue", "#ff00aa", "#0a0", "lightblue", "transparent", "honeydew", "PapayaWhip", "linear-gradient(#000, #fff)", "radial-gradient(red, blue 50%, #00f)"}
var boolVals = []string{"true", "false"}

func ints(lo, hi, step int) []string {
	var out []string
	for i := lo; i <= hi; i += step {
		out = append(out, strconv.Itoa(i))
	}
	return out
}

var textVals = []string{"a tip", "more info & stuff", "ünïcode tip", "x: y", "a -> b", "#hash", "semi;colon", "{b}", "[c]", "|p|", "it's", "say \"hi\"", "${x}", "$y", " lead", "trail ", "two\nlines", "null", "true", "*", "@z", "...", "back\\slash", "`t`", "1", "-", "_"}

var objAttrs = []attrSpec{
	{"shape", []string{"rectangle", "circle", "oval", "diamond", "hexagon", "cloud", "cylinder", "person", "page", "square", "Circle", "OVAL", "step", "queue", "package", "parallelogram", "document", "callout", "stored_data", "c4-person", "text"}, true},
	{"style.fill", colorVals, false},
	{"style.stroke", colorVals[:8], false},
	{"style.stroke-width", ints(0, 15, 1), false},
	{"style.opacity", []string{"0", "0.3", "0.5", "1", "0.99"}, false},
	{"style.stroke-dash", ints(0, 10, 1), false},
	{"style.border-radius", ints(0, 20, 2), false},
	{"style.font-size", ints(8, 100, 7), false},
	{"style.font-color", colorVals[:8], false},
	{"style.bold", boolVals, false},
	{"style.italic", boolVals, false},
	{"style.underline", boolVals, false},
	{"style.shadow", boolVals, false},
	{"style.multiple", boolVals, false},
	{"style.3d", boolVals, false},
	{"style.double-border", boolVals, false},
	{"style.text-transform", []string{"uppercase", "lowercase", "capitalize", "none", "Uppercase"}, true},
	{"style.font", []string{"mono", "Mono"}, true},
	{"style.fill-pattern", []string{"dots", "lines", "grain", "paper", "none", "Dots"}, true},
	{"width", ints(1, 600, 37), false},
	{"height", ints(1, 400, 29), false},
	{"near", gen.NearConstants, true},
	{"link", []string{"https://example.com/a?b=1&c=2", "https://d2lang.com", "http://x.y/\"q\"", "https://example.com/#frag"}, false},
	{"tooltip", textVals, false},
}

var arrowShapes = []string{"triangle", "arrow", "diamond", "circle", "cf-one", "cf-many", "cf-one-required", "cf-many-required", "box", "cross", "Diamond"}

var edgeAttrs = []attrSpec{
	{"style.stroke", colorVals[:8], false},
	{"style.stroke-width", ints(0, 15, 1), false},
	{"style.opacity", []string{"0", "0.3", "0.5", "1"}, false},
	{"style.stroke-dash", ints(0, 10, 1), false},
	{"style.font-size", ints(8, 100, 7), false},
	{"style.font-color", colorVals[:8], false},
	{"style.bold", boolVals, false},
	{"style.italic", boolVals, false},
	{"style.animated", boolVals, false},
	{"source-arrowhead.shape", arrowShapes, true},
	{"target-arrowhead.shape", arrowShapes, true},
	{"source-arrowhead.label", []string{"1", "*", "0..1", "ñ", "a: b", "two words"}, false},
	{"target-arrowhead.label", []string{"1", "*", "0..1", "ñ", "x -> y", "#"}, false},
	{"source-arrowhead.style.filled", boolVals, false},
	{"target-arrowhead.style.filled", boolVals, false},
}

// ---------------------------------------------------------------------------------------
// Compilation helpers

func compileText(files map[string]string, text string) (g *d2graph.Graph, err error) {
	defer func() {
		if x := recover(); x != nil {
			g, err = nil, fmt.Errorf("compiler panic: %v", x)
		}
	}()
	m := make(map[string]string, len(files)+1)
	for k, v := range files {
		m[k] = v
	}
	m["index.d2"] = text
	fs, _ := memfs.New(m)
	g, _, err = d2compiler.Compile("index.d2", strings.NewReader(text), &d2compiler.CompileOptions{FS: fs})
	return g, err
}

type panicInfo struct {
	val   string
	sig   string // hx.PanicSig of the stack
	stack string
}

// guard runs f and converts a panic into a value.
func guard(f func()) (p *panicInfo) {
	defer func() {
		if x := recover(); x != nil {
			st := debug.Stack()
			p = &panicInfo{val: fmt.Sprint(x), sig: hx.PanicSig(st), stack: shortStack(st)}
		}
	}()
	f()
	return nil
}

func shortStack(st []byte) string {
	var out []string
	for _, l := range strings.Split(string(st), "\n") {
		if strings.Contains(l, "oss.terrastruct.com/d2/") || strings.Contains(l, "/d2oracle/") || strings.Contains(l, "/d2graph/") {
			out = append(out, strings.TrimSpace(l))
		}
		if len(out) >= 10 {
			break
		}
	}
	return strings.Join(out, "\n")
}

// ---------------------------------------------------------------------------------------
// Boards

type board struct {
	path     []string
	kind     string // root | layer | scenario | step
	parent   int
	inherits int // index of the board whose content this one starts from, -1: none
	g        *d2graph.Graph
}

// listBoards enumerates the board tree in DFS order (root = 0; layers, scenarios, steps).
func listBoards(g *d2graph.Graph) []board {
	var out []board
	var rec func(g *d2graph.Graph, path []string, kind string, parent, inherits int)
	rec = func(g *d2graph.Graph, path []string, kind string, parent, inherits int) {
		me := len(out)
		out = append(out, board{path: path, kind: kind, parent: parent, inherits: inherits, g: g})
		sub := func(name string) []string { return append(append([]string(nil), path...), name) }
		for _, l := range g.Layers {
			rec(l, sub(l.Name), "layer", me, -1)
		}
		for _, l := range g.Scenarios {
			rec(l, sub(l.Name), "scenario", me, me)
		}
		prev := me
		for _, l := range g.Steps {
			idx := len(out)
			rec(l, sub(l.Name), "step", me, prev)
			prev = idx
		}
	}
	rec(g, nil, "root", -1, -1)
	return out
}

// inheritsFrom reports whether board b is a or starts (transitively) from a's content.
func inheritsFrom(bs []board, b, a int) bool {
	for x := b; x >= 0; x = bs[x].inherits {
		if x == a {
			return true
		}
	}
	return false
}

func pathKey(p []string) string { return strings.Join(p, "\x00") }

// ---------------------------------------------------------------------------------------
// Semantic state of one board: elements keyed by marker

var markerRe = regexp.MustCompile(`^L[0-9]+`)

type el struct {
	m        string // marker "L12", or "id:<absid>" for an element without a usable marker
	edge     bool
	absID    string
	id       string // objects: own ID segment
	parent   string // objects: marker of the parent ("" = board root)
	depth    int    // objects: 1 = root level
	src, dst string // connections: markers of the ends
	index    int
	arrows   string
	foreign  bool // some reference to the element lies in another file (imported)
	impValue bool // declared as `key: @file`
	dotted   bool // mentioned in a dotted key outside connections (`a.b: ...`, `a.b.style.fill: ...`), through `_`, or declared more than once
	cells    map[string]string
}

type bstate struct {
	els    map[string]*el
	order  []string // markers: objects in graph order, then connections
	objs   []string
	edges  []string
	byID   map[string]string // lower-cased AbsID -> marker
	marked bool              // every element carries a unique L-marker
}

func sc(m map[string]string, k string, s *d2graph.Scalar) {
	if s != nil {
		m[k] = s.Value
	}
}

func styleCells(m map[string]string, p string, s *d2graph.Style) {
	sc(m, p+"opacity", s.Opacity)
	sc(m, p+"stroke", s.Stroke)
	sc(m, p+"fill", s.Fill)
	sc(m, p+"fill-pattern", s.FillPattern)
	sc(m, p+"stroke-width", s.StrokeWidth)
	sc(m, p+"stroke-dash", s.StrokeDash)
	sc(m, p+"border-radius", s.BorderRadius)
	sc(m, p+"shadow", s.Shadow)
	sc(m, p+"3d", s.ThreeDee)
	sc(m, p+"multiple", s.Multiple)
	sc(m, p+"font", s.Font)
	sc(m, p+"font-size", s.FontSize)
	sc(m, p+"font-color", s.FontColor)
	sc(m, p+"animated", s.Animated)
	sc(m, p+"bold", s.Bold)
	sc(m, p+"italic", s.Italic)
	sc(m, p+"underline", s.Underline)
	sc(m, p+"filled", s.Filled)
	sc(m, p+"double-border", s.DoubleBorder)
	sc(m, p+"text-transform", s.TextTransform)
}

// attrCells flattens attributes into cells named like the D2 keys that set them.
func attrCells(m map[string]string, p string, a *d2graph.Attributes, isEdge bool) {
	if p == "" || a.Label.Value != "" {
		m[p+"label"] = a.Label.Value
	}
	if a.Language != "" {
		m[p+"language"] = a.Language
	}
	if v := a.Shape.Value; v != "" && !(strings.EqualFold(v, "rectangle") && a.Shape.MapKey == nil) {
		m[p+"shape"] = v
	}
	styleCells(m, p+"style.", &a.Style)
	styleCells(m, p+"icon.style.", &a.IconStyle)
	if a.Icon != nil {
		m[p+"icon"] = a.Icon.String()
	}
	sc(m, p+"tooltip", a.Tooltip)
	sc(m, p+"link", a.Link)
	sc(m, p+"width", a.WidthAttr)
	sc(m, p+"height", a.HeightAttr)
	sc(m, p+"top", a.Top)
	sc(m, p+"left", a.Left)
	if a.NearKey != nil {
		m[p+"near"] = d2format.Format(a.NearKey)
	}
	if a.Direction.Value != "" {
		m[p+"direction"] = a.Direction.Value
	}
	if len(a.Constraint) > 0 {
		m[p+"constraint"] = strings.Join(a.Constraint, ";")
	}
	sc(m, p+"grid-rows", a.GridRows)
	sc(m, p+"grid-columns", a.GridColumns)
	sc(m, p+"grid-gap", a.GridGap)
	sc(m, p+"vertical-gap", a.VerticalGap)
	sc(m, p+"horizontal-gap", a.HorizontalGap)
	sc(m, p+"label.near", a.LabelPosition)
	sc(m, p+"icon.near", a.IconPosition)
	sc(m, p+"tooltip.near", a.TooltipPosition)
	if len(a.Classes) > 0 {
		m[p+"class"] = strings.Join(a.Classes, ";")
	}
}

func markerOf(label string) string { return markerRe.FindString(label) }

func stateOf(g *d2graph.Graph) *bstate {
	st := &bstate{els: map[string]*el{}, byID: map[string]string{}, marked: true}
	count := map[string]int{}
	for _, o := range g.Objects {
		if m := markerOf(o.Label.Value); m != "" {
			count["o"+m]++
		}
	}
	for _, e := range g.Edges {
		if m := markerOf(e.Label.Value); m != "" {
			count["e"+m]++
		}
	}
	om := make(map[*d2graph.Object]string, len(g.Objects))
	for _, o := range g.Objects {
		m := markerOf(o.Label.Value)
		if m == "" || count["o"+m] != 1 || count["e"+m] != 0 {
			m = "id:" + o.AbsID()
			st.marked = false
		}
		om[o] = m
	}
	for _, o := range g.Objects {
		x := &el{m: om[o], absID: o.AbsID(), id: o.ID, cells: map[string]string{}}
		if o.Parent != nil && o.Parent != g.Root {
			x.parent = om[o.Parent]
		}
		for p := o.Parent; p != nil; p = p.Parent {
			x.depth++
		}
		attrCells(x.cells, "", &o.Attributes, false)
		plainRefs := 0
		for _, r := range o.References {
			if r.MapKey != nil && len(r.MapKey.Edges) == 0 {
				if plainRefs++; plainRefs > 1 {
					x.dotted = true // declared more than once
				}
			}
			if r.Key != nil && r.Key.Range.Path != "index.d2" {
				x.foreign = true
			}
			if r.Key != nil {
				segs := 0
				for _, sb := range r.Key.Path {
					v := sb.Unbox().ScalarString()
					if _, reserved := d2ast.ReservedKeywords[strings.ToLower(v)]; reserved && sb.UnquotedString != nil {
						break
					}
					if v == "_" && sb.UnquotedString != nil {
						x.dotted = true
					}
					segs++
				}
				if segs > 1 && r.MapKey != nil && len(r.MapKey.Edges) == 0 {
					x.dotted = true
				}
			}
			if r.MapKey != nil && (r.MapKey.Value.Import != nil || r.MapKey.Primary.Unbox() != nil && r.MapKey.Value.Import != nil) {
				x.impValue = true
			}
		}
		st.els[x.m] = x
		st.order = append(st.order, x.m)
		st.objs = append(st.objs, x.m)
		st.byID[strings.ToLower(x.absID)] = x.m
	}
	// children of a `key: @file` object count as import-valued too
	for _, o := range g.Objects {
		for p := o.Parent; p != nil && p != g.Root; p = p.Parent {
			if st.els[om[p]].impValue {
				st.els[om[o]].impValue = true
			}
		}
	}
	for _, e := range g.Edges {
		m := markerOf(e.Label.Value)
		if m == "" || count["e"+m] != 1 || count["o"+m] != 0 {
			m = "id:" + e.AbsID()
			st.marked = false
		}
		x := &el{m: m, edge: true, absID: e.AbsID(), index: e.Index, cells: map[string]string{}}
		x.src, x.dst = om[e.Src], om[e.Dst]
		x.arrows = e.ArrowString()
		x.impValue = st.els[x.src].impValue || st.els[x.dst].impValue
		for _, r := range e.References {
			if r.Edge != nil && r.Edge.Range.Path != "index.d2" {
				x.foreign = true
			}
		}
		attrCells(x.cells, "", &e.Attributes, true)
		if e.SrcArrowhead != nil {
			attrCells(x.cells, "source-arrowhead.", e.SrcArrowhead, true)
		}
		if e.DstArrowhead != nil {
			attrCells(x.cells, "target-arrowhead.", e.DstArrowhead, true)
		}
		st.els[m] = x
		st.order = append(st.order, m)
		st.edges = append(st.edges, m)
		st.byID[strings.ToLower(x.absID)] = m
	}
	return st
}

// bdiff is the semantic difference between two states of one board.
type bdiff struct {
	added, removed []string
	changed        map[string][]string // marker -> changed aspects: "@id" "@absid" "@parent" "@src" "@dst" "@index" "@arrows" or a cell name
}

func (d *bdiff) keys() []string {
	ks := make([]string, 0, len(d.changed))
	for k := range d.changed {
		ks = append(ks, k)
	}
	sort.Strings(ks)
	return ks
}

func (d *bdiff) empty() bool { return len(d.added) == 0 && len(d.removed) == 0 && len(d.changed) == 0 }

func (d *bdiff) String() string {
	var parts []string
	if len(d.added) > 0 {
		parts = append(parts, fmt.Sprintf("added %v", d.added))
	}
	if len(d.removed) > 0 {
		parts = append(parts, fmt.Sprintf("removed %v", d.removed))
	}
	var ks []string
	for k := range d.changed {
		ks = append(ks, k)
	}
	sort.Strings(ks)
	for _, k := range ks {
		parts = append(parts, fmt.Sprintf("%s changed %v", k, d.changed[k]))
	}
	if len(parts) == 0 {
		return "no difference"
	}
	return strings.Join(parts, "; ")
}

// diffStates compares pre and post; alias maps a post marker to the pre marker it continues
// (used when the edit itself changes the label that carries the marker).
func diffStates(pre, post *bstate, alias map[string]string) *bdiff {
	d := &bdiff{changed: map[string][]string{}}
	ren := func(m string) string {
		if a, ok := alias[m]; ok {
			return a
		}
		return m
	}
	seen := map[string]bool{}
	for _, pm := range post.order {
		m := ren(pm)
		b := post.els[pm]
		a, ok := pre.els[m]
		if !ok {
			d.added = append(d.added, pm)
			continue
		}
		seen[m] = true
		var ch []string
		if a.edge != b.edge {
			ch = append(ch, "@kind")
		}
		if a.absID != b.absID {
			ch = append(ch, "@absid")
		}
		if a.id != b.id {
			ch = append(ch, "@id")
		}
		if a.parent != ren(b.parent) {
			ch = append(ch, "@parent")
		}
		if a.src != ren(b.src) {
			ch = append(ch, "@src")
		}
		if a.dst != ren(b.dst) {
			ch = append(ch, "@dst")
		}
		if a.index != b.index {
			ch = append(ch, "@index")
		}
		if a.arrows != b.arrows {
			ch = append(ch, "@arrows")
		}
		for k, v := range a.cells {
			if w, ok := b.cells[k]; !ok || w != v {
				ch = append(ch, k)
			}
		}
		for k := range b.cells {
			if _, ok := a.cells[k]; !ok {
				ch = append(ch, k)
			}
		}
		if len(ch) > 0 {
			sort.Strings(ch)
			d.changed[m] = ch
		}
	}
	for _, m := range pre.order {
		if !seen[m] {
			d.removed = append(d.removed, m)
		}
	}
	return d
}

func only(ch []string, allowed func(string) bool) (bad []string) {
	for _, c := range ch {
		if !allowed(c) {
			bad = append(bad, c)
		}
	}
	return bad
}

// ---------------------------------------------------------------------------------------
// Resolution of an abstract op against the current state

type call struct {
	kind    int
	auto    bool // automatic re-marking Set issued by the machine
	skip    string
	bd      int
	bp      []string
	key     string
	nonRoot bool // addressed element is not at the root level of its board, or board is nested

	// target element in the pre-state of the addressed board
	elem   string // marker
	elemID string // AbsID

	attr  *attrSpec
	cell  string
	tag   *string
	value *string

	newName  string // rename: raw name
	newKey   string // move: destination key; create: requested key
	inclDesc bool
	dest     string // move: marker of the destination container ("" = board root)
	sameName bool

	srcKey, dstKey *string // reconnect
	srcM, dstM     string  // create-edge / reconnect: markers of the requested ends

	impPath string
	impNew  *string

	tForeign   bool // the target, something below it, or a connection attached to it comes from an imported file
	dForeign   bool // the destination container / a requested connection end comes from an imported file
	tInherited bool // the target is defined by a board the addressed board starts from
	tImpValue  bool // the target is declared as `key: @file`
	dImpValue  bool // the destination container / a connection end is declared as `key: @file`
	tDotted    bool // the target, something below or something above it is written with dotted keys (outside connections) or `_` references
	foldNames  bool // the source uses letters whose case folding is not plain lower-casing (ς ſ K İ ı ǅ): d2 compares names in two ways
	srcHasNull bool // the source contains `key: null` statements (left by deletions of imported / inherited elements)
}

// ctxSuffix names the construct an edit touches (exactly one, by priority); it becomes part of
// every violation signature.
func (c *call) ctxSuffix() string {
	switch {
	case c.tImpValue:
		return "@import-valued-target"
	case c.dImpValue:
		return "@import-valued-destination"
	case c.tForeign:
		return "@imported-target"
	case c.dForeign:
		return "@imported-destination"
	case c.srcHasNull:
		return "@source-has-null"
	case c.foldNames:
		return "@special-case-folding-names"
	case c.tInherited:
		return "@inherited-target"
	case c.tDotted:
		return "@dotted-keys"
	case c.bd != 0:
		return "@board"
	}
	return ""
}

// signature combines the failure kind computed by a check with the construct.
func (x *exec) signature(sig string) string {
	c := x.cur
	if c == nil {
		return sig
	}
	suf := c.ctxSuffix()
	op := opNames[c.kind]
	switch {
	case strings.HasPrefix(sig, "refused-edit-"):
		return sig // mutation in place before validation: independent of the construct
	case sig == emptyBoardSig:
		return sig // every edit re-prints the whole file
	case strings.HasPrefix(sig, "panic:"):
		return sig // a panic is identified by its site, whatever construct the edit touched
	case x.prop == "C41":
		// what matters for board scoping: does the target come from a board the addressed one starts from
		if c.tInherited {
			return sig + "@inherited-target"
		}
		return sig + "@board"
	case x.prop == "C36":
		return sig + suf
	case strings.HasPrefix(suf, "@import") || suf == "@source-has-null":
		// elements from imported files and sources with `x: null` statements are only partly
		// understood by the editing functions; the failure kinds are many: one signature per
		// operation and construct
		if x.prop == "C40" {
			return op + ":deltas-disagree" + suf
		}
		return op + ":violated" + suf
	case sig == "delete-attr:not-reset:shape" || strings.HasPrefix(sig, "delete-obj:attribute-moved-to-parent"):
		return sig // same cause whatever the context
	case strings.HasPrefix(sig, "delete-attr:not-reset:") && strings.ContainsAny(c.elemID, "\"'"):
		return "delete-attr:not-reset@quoted-name"
	case x.prop == "C40" && c.kind == opRename && quoteName(c.newName) != c.newName && strings.HasPrefix(sig, "delta-mismatch"):
		return sig + "@name-needs-quotes"
	}
	return sig + suf
}

func (c *call) String() string {
	if c.skip != "" {
		return opNames[c.kind] + " skipped:" + c.skip
	}
	s := fmt.Sprintf("%s board=%q key=%q", opNames[c.kind], strings.Join(c.bp, "/"), c.key)
	switch c.kind {
	case opSetLabel, opSetAttr:
		t := "<nil>"
		if c.tag != nil {
			t = *c.tag
		}
		v := "<nil>"
		if c.value != nil {
			v = fmt.Sprintf("%q", *c.value)
		}
		s += fmt.Sprintf(" tag=%s value=%s", t, v)
	case opRename:
		s += fmt.Sprintf(" newName=%q", c.newName)
	case opMove:
		s += fmt.Sprintf(" newKey=%q includeDescendants=%v", c.newKey, c.inclDesc)
	case opReconnect:
		s += fmt.Sprintf(" src=%s dst=%s", sp(c.srcKey), sp(c.dstKey))
	case opUpdateImport:
		s = fmt.Sprintf("update-import path=%q new=%s", c.impPath, sp(c.impNew))
	}
	if c.auto {
		s += " (auto re-mark)"
	}
	return s
}

func sp(p *string) string {
	if p == nil {
		return "<nil>"
	}
	return fmt.Sprintf("%q", *p)
}

func strp(s string) *string { return &s }

// quoteName renders a raw name as one key segment (gen.QuoteKey, but every name with a space-like
// or invisible rune is quoted).
func quoteName(s string) string {
	for _, r := range s {
		if unicode.IsSpace(r) || !unicode.IsPrint(r) || r == '\u00a0' || r == '\ufeff' || r == '\u200b' {
			return gen.QuoteValue(s)
		}
	}
	return gen.QuoteKey(s)
}

func joinKey(container, seg string) string {
	if container == "" {
		return seg
	}
	return container + "." + seg
}

// subtree reports whether x is y or a descendant of y (by parent markers).
func (st *bstate) under(x, y string) bool {
	for m := x; m != ""; m = st.els[m].parent {
		if m == y {
			return true
		}
	}
	return false
}

func (st *bstate) children(m string) []string {
	var out []string
	for _, o := range st.objs {
		if st.els[o].parent == m {
			out = append(out, o)
		}
	}
	return out
}

func (x *exec) resolve(op Op) *call {
	k := op.K % nOpKinds
	if k < 0 {
		k = -k
	}
	c := &call{kind: k}
	if k == opUpdateImport {
		return x.resolveImport(op, c)
	}
	bs := x.boards
	c.bd = abs(op.Bd) % len(bs)
	c.bp = bs[c.bd].path
	st := x.pre(c.bd)
	nobj, nedge := len(st.objs), len(st.edges)
	obj := func(i int) *el { return st.els[st.objs[abs(i)%nobj]] }
	edge := func(i int) *el { return st.els[st.edges[abs(i)%nedge]] }
	container := func(i int) *el { // 0 = root
		if nobj == 0 || abs(i)%(nobj+1) == 0 {
			return nil
		}
		return obj(abs(i)%(nobj+1) - 1)
	}
	name := namePool[abs(op.N)%len(namePool)]
	target := func(e *el) { x.setTarget(c, st, e) }
	switch k {
	case opCreateObj:
		cont := container(op.B)
		base := ""
		if cont != nil {
			base = cont.absID
			c.dest = cont.m
			c.dForeign, c.dImpValue = cont.foreign, cont.impValue
		}
		seg := quoteName(name)
		if op.F&2 != 0 && nobj > 0 { // colliding: reuse the name of an existing child of the container
			if ch := st.children(c.dest); len(ch) > 0 {
				seg = st.els[ch[abs(op.V)%len(ch)]].id
			}
		}
		if op.F&1 != 0 { // one missing container on the path
			mid := quoteName(namePool[(abs(op.N)+7)%nPlainNames] + "c")
			base = joinKey(base, mid)
		}
		c.key = joinKey(base, seg)
		c.newKey = c.key
		c.nonRoot = c.bd != 0 || base != ""
	case opCreateEdge:
		if nobj == 0 {
			c.skip = "no-objects"
			return c
		}
		s, d := obj(op.A), obj(op.B)
		arrow := []string{"->", "<-", "--", "<->"}[abs(op.V)%4]
		c.key = s.absID + " " + arrow + " " + d.absID
		c.srcM, c.dstM = s.m, d.m
		c.dForeign, c.dImpValue = s.foreign || d.foreign, s.impValue || d.impValue
		c.nonRoot = c.bd != 0 || s.depth > 1 || d.depth > 1
	case opSetLabel:
		if nobj+nedge == 0 {
			c.skip = "empty"
			return c
		}
		i := abs(op.A) % (nobj + nedge)
		var e *el
		if i < nobj {
			e = obj(i)
		} else {
			e = edge(i - nobj)
		}
		target(e)
		c.key = e.absID
		c.cell = "label"
		if op.F&2 != 0 {
			c.value = strp(rawLabels[abs(op.V)%len(rawLabels)])
		} else {
			c.value = strp(x.fresh() + labelSuffixes[abs(op.V)%len(labelSuffixes)])
		}
		if op.F&1 != 0 {
			c.tag = strp("md")
		}
	case opSetAttr, opDeleteAttr:
		if nobj+nedge == 0 {
			c.skip = "empty"
			return c
		}
		i := abs(op.A) % (nobj + nedge)
		var e *el
		var table []attrSpec
		if i < nobj {
			e, table = obj(i), objAttrs
		} else {
			e, table = edge(i-nobj), edgeAttrs
		}
		target(e)
		if k == opDeleteAttr && op.F&1 == 0 {
			// prefer an attribute the element has
			var have []int
			for j := range table {
				if _, ok := e.cells[table[j].key]; ok {
					have = append(have, j)
				}
			}
			if len(have) > 0 {
				c.attr = &table[have[abs(op.T)%len(have)]]
			}
		}
		if c.attr == nil {
			c.attr = &table[abs(op.T)%len(table)]
		}
		c.cell = c.attr.key
		c.key = e.absID + "." + c.attr.key
		if k == opSetAttr {
			c.value = strp(c.attr.vals[abs(op.V)%len(c.attr.vals)])
		}
	case opDeleteObj:
		if nobj == 0 {
			c.skip = "no-objects"
			return c
		}
		e := obj(op.A)
		target(e)
		c.key = e.absID
		c.nonRoot = c.bd != 0 || e.depth > 1 || len(st.children(e.m)) > 0
	case opDeleteEdge:
		if nedge == 0 {
			c.skip = "no-connections"
			return c
		}
		e := edge(op.A)
		target(e)
		c.key = e.absID
	case opRename:
		if nobj == 0 {
			c.skip = "no-objects"
			return c
		}
		e := obj(op.A)
		target(e)
		c.key = e.absID
		c.newName = name
		if op.F&2 != 0 { // collide with a sibling
			var sib []string
			for _, s := range st.children(e.parent) {
				if s != e.m {
					sib = append(sib, s)
				}
			}
			if len(sib) > 0 {
				id := st.els[sib[abs(op.V)%len(sib)]].id
				if kp, err := d2parser.ParseKey(id); err == nil && len(kp.Path) == 1 {
					c.newName = kp.Path[0].Unbox().ScalarString()
				}
			}
		}
	case opMove:
		if nobj == 0 {
			c.skip = "no-objects"
			return c
		}
		e := obj(op.A)
		target(e)
		c.key = e.absID
		c.inclDesc = op.F&1 != 0
		// destination container: never the object itself or one of its descendants
		var cont *el
		for try := 0; try <= nobj; try++ {
			cont = container(op.B + try)
			if cont == nil || !st.under(cont.m, e.m) {
				break
			}
			cont = nil
		}
		base := ""
		if cont != nil {
			base, c.dest = cont.absID, cont.m
			c.dForeign, c.dImpValue = cont.foreign, cont.impValue
			for _, m := range st.objs {
				if o := st.els[m]; o.dotted && (st.under(m, cont.m) || st.under(cont.m, m)) {
					c.tDotted = true // the destination (or something above / below it) is written with dotted keys
				}
				if o := st.els[m]; o.foreign && st.under(cont.m, m) {
					c.dForeign = true
				}
			}
		}
		seg := e.id
		c.sameName = true
		if op.F&2 != 0 {
			seg, c.sameName = quoteName(name), false
		}
		c.newKey = joinKey(base, seg)
		if c.dest != "" {
			c.nonRoot = true
		}
		if c.newKey == c.key {
			c.skip = "same-key"
		}
	case opReconnect:
		if nedge == 0 || nobj == 0 {
			c.skip = "no-connections"
			return c
		}
		e := edge(op.A)
		target(e)
		c.key = e.absID
		c.srcM, c.dstM = e.src, e.dst
		if op.F&1 != 0 || op.F&3 == 0 {
			o := obj(op.B)
			c.srcKey, c.srcM = strp(o.absID), o.m
			c.dForeign, c.dImpValue = c.dForeign || o.foreign, c.dImpValue || o.impValue
		}
		if op.F&2 != 0 {
			o := obj(op.N)
			c.dstKey, c.dstM = strp(o.absID), o.m
			c.dForeign, c.dImpValue = c.dForeign || o.foreign, c.dImpValue || o.impValue
		}
	}
	return c
}

// setTarget records the addressed element and the constructs it involves.
func (x *exec) setTarget(c *call, st *bstate, e *el) {
	bs := x.boards
	c.elem, c.elemID = e.m, e.absID
	c.nonRoot = c.bd != 0 || e.depth > 1 || (e.edge && strings.Contains(e.absID, ".("))
	c.tForeign = e.foreign
	c.tImpValue = e.impValue
	c.tDotted = e.dotted
	if !e.edge {
		for _, m := range st.order {
			o := st.els[m]
			if !o.edge && o.dotted && (st.under(m, e.m) || st.under(e.m, m)) {
				c.tDotted = true // below or above the target
			}
			if o.foreign && (!o.edge && (st.under(m, e.m) || st.under(e.m, m)) || o.edge && (st.under(o.src, e.m) || st.under(o.dst, e.m))) {
				c.tForeign = true // below, above or attached
			}
		}
	}
	for b := bs[c.bd].inherits; b >= 0; b = bs[b].inherits {
		if _, ok := x.pre(b).byID[strings.ToLower(e.absID)]; ok {
			c.tInherited = true
		}
	}
}

func (x *exec) resolveImport(op Op, c *call) *call {
	if _, ok := x.files["imp.d2"]; !ok || !strings.Contains(x.text, "@") {
		c.skip = "no-import"
		return c
	}
	// find the path currently imported
	cur := ""
	for _, p := range []string{"imp2", "imp"} {
		if strings.Contains(x.text, "@"+p) && (cur == "" || p == "imp2") {
			cur = p
		}
	}
	if strings.Contains(x.text, "@imp2") {
		cur = "imp2"
	} else if strings.Contains(x.text, "@imp") {
		cur = "imp"
	}
	if cur == "" {
		c.skip = "no-import"
		return c
	}
	c.impPath = cur
	switch abs(op.V) % 4 {
	case 0:
		c.impNew = nil
	default:
		n := "imp2"
		if cur == "imp2" {
			n = "imp"
		}
		c.impNew = &n
	}
	return c
}

func abs(i int) int {
	if i < 0 {
		return -i
	}
	return i
}

// ---------------------------------------------------------------------------------------
// The executor

type violation struct {
	step int
	sig  string
	msg  string
}

// stepObs is everything a property check may look at for one executed edit.
type stepObs struct {
	step  int
	c     *call
	x     *exec
	preBs []board // boards of the pre-state (graphs are the caller's graph: may have been mutated by the call)

	// outcome
	panicked *panicInfo
	err      error
	retG     *d2graph.Graph // graph returned by the API
	newKey   string         // Create / Rename result
	postText string         // Format(retG.AST) (UpdateImport: returned text)
	postG    *d2graph.Graph // compile(postText), nil if it does not compile
	postErr  error
	postBs   []board

	// C40
	deltas    map[string]string
	deltasErr error
	deltasSet bool
}

type checker interface {
	prop() string
	// wantPre: which observations of the pre-state must be taken before the call
	// check is called after every executed (not skipped) op
	check(o *stepObs)
}

type exec struct {
	prop    string
	files   map[string]string
	text    string
	g       *d2graph.Graph
	boards  []board
	states  map[int]*bstate
	canons  map[int]*canon.Board
	nextM   int
	viol    []violation
	labels  []string
	nt      bool
	okEdits int
	trace   []string // human-readable history
	thash   []byte   // hash chain over the resulting texts (determinism check)
	steps   int
	budget  int
	cur     *call // the call being executed (signature context)
}

func (x *exec) label(l string) { x.labels = append(x.labels, l) }

func (x *exec) fail(step int, sig, format string, args ...any) {
	sig = x.signature(sig)
	if len(x.viol) < 6 {
		x.viol = append(x.viol, violation{step: step, sig: sig, msg: fmt.Sprintf(format, args...)})
	}
}

func (x *exec) fresh() string {
	x.nextM++
	return "L" + strconv.Itoa(x.nextM)
}

// pre returns the semantic state of board i of the current state (cached).
func (x *exec) pre(i int) *bstate {
	if s, ok := x.states[i]; ok {
		return s
	}
	s := stateOf(x.boards[i].g)
	x.states[i] = s
	return s
}

// preCanon returns the canonical projection of board i alone (nested boards cut off).
func (x *exec) preCanon(i int) *canon.Board {
	if c, ok := x.canons[i]; ok {
		return c
	}
	c := canonAlone(x.boards[i].g)
	x.canons[i] = c
	return c
}

func canonAlone(g *d2graph.Graph) *canon.Board {
	sub := *g
	sub.Layers, sub.Scenarios, sub.Steps = nil, nil, nil
	return canon.Of(&sub).Sorted()
}

func (x *exec) setState(text string, g *d2graph.Graph) {
	x.text, x.g = text, g
	x.boards = listBoards(g)
	x.states = map[int]*bstate{}
	x.canons = map[int]*canon.Board{}
}

func (x *exec) reload() bool {
	g, err := compileText(x.files, x.text)
	if err != nil {
		return false
	}
	x.setState(x.text, g)
	return true
}

func maxMarker(g *d2graph.Graph) int {
	mx := 0
	for _, b := range listBoards(g) {
		for _, o := range b.g.Objects {
			if m := markerOf(o.Label.Value); m != "" {
				if n, _ := strconv.Atoi(m[1:]); n > mx {
					mx = n
				}
			}
		}
		for _, e := range b.g.Edges {
			if m := markerOf(e.Label.Value); m != "" {
				if n, _ := strconv.Atoi(m[1:]); n > mx {
					mx = n
				}
			}
		}
	}
	return mx
}

type result struct {
	rejected string
	viol     []violation
	labels   []string
	nt       bool
	trace    []string
	thash    string
	okEdits  int
}

// run executes the history for one property. It never touches hx (so that a failing history
// can be executed twice and compared).
func run(c Case, ck func(x *exec) checker, prop string) *result {
	x := &exec{prop: prop, files: map[string]string{}}
	for k, v := range c.Files {
		if k != "index.d2" {
			x.files[k] = v
		}
	}
	g, err := compileText(x.files, c.Files["index.d2"])
	if err != nil {
		return &result{rejected: "start-does-not-compile"}
	}
	// normalise the start text through the formatter once, as the API will do on the first edit
	x.setState(c.Files["index.d2"], g)
	x.nextM = maxMarker(g)
	if len(x.boards) > 1 {
		x.label("start:boards")
	} else {
		x.label("start:single-board")
	}
	if _, ok := x.files["imp.d2"]; ok {
		x.label("start:import")
	}
	chk := ck(x)
	x.budget = 3*len(c.Ops) + 8
	for i, op := range c.Ops {
		call := x.resolve(op)
		x.execute(i, call, chk)
		x.remark(i, chk)
	}
	x.label(fmt.Sprintf("ok-edits:%s", bucket(x.okEdits)))
	return &result{viol: x.viol, labels: x.labels, nt: x.nt, trace: x.trace, thash: fmt.Sprintf("%x", x.thash), okEdits: x.okEdits}
}

func bucket(n int) string {
	switch {
	case n == 0:
		return "0"
	case n <= 2:
		return "1-2"
	case n <= 5:
		return "3-5"
	case n <= 10:
		return "6-10"
	case n <= 20:
		return "11-20"
	}
	return "21+"
}

// remark gives fresh markers to elements that lack one (new objects, containers created on
// the way, raw label values) through ordinary, fully checked Set calls.
func (x *exec) remark(step int, chk checker) {
	for round := 0; round < 3; round++ {
		var todo *call
		for bi := range x.boards {
			st := x.pre(bi)
			if st.marked {
				continue
			}
			// only elements that this board does not inherit unmarked from its base
			for _, m := range st.order {
				if !strings.HasPrefix(m, "id:") {
					continue
				}
				e := st.els[m]
				if strings.HasPrefix(e.id, "eo") {
					// a child that exists only as the end of a connection written in its container's
					// block stays that way: a label would declare it as a key
					continue
				}
				if base := x.boards[bi].inherits; base >= 0 {
					if _, ok := x.pre(base).byID[strings.ToLower(e.absID)]; ok {
						continue
					}
				}
				if x.budget <= 0 {
					return
				}
				todo = &call{kind: opSetLabel, auto: true, bd: bi, bp: x.boards[bi].path, key: e.absID, cell: "label", value: strp(x.fresh())}
				x.setTarget(todo, st, e)
				break
			}
			if todo != nil {
				break
			}
		}
		if todo == nil {
			return
		}
		x.budget--
		if !x.execute(step, todo, chk) {
			return // refused: leave it unmarked
		}
	}
}

// execute performs one resolved call, lets the property check look at it, and advances the state.
// It reports whether the edit succeeded.
func (x *exec) execute(step int, c *call, chk checker) bool {
	name := opNames[c.kind]
	if c.skip != "" {
		x.label("skipped:" + name)
		x.trace = append(x.trace, fmt.Sprintf("#%d %s", step, c))
		return false
	}
	x.steps++
	c.srcHasNull = strings.Contains(x.text, ": null")
	x.cur = c
	defer func() { x.cur = nil }()
	x.trace = append(x.trace, fmt.Sprintf("#%d %s", step, c))
	o := &stepObs{step: step, c: c, x: x, preBs: x.boards}
	if pc, ok := chk.(interface{ before(o *stepObs) }); ok {
		pc.before(o)
	}
	g := x.g
	o.panicked = guard(func() {
		switch c.kind {
		case opCreateObj, opCreateEdge:
			o.retG, o.newKey, o.err = d2oracle.Create(g, c.bp, c.key)
		case opSetLabel, opSetAttr:
			o.retG, o.err = d2oracle.Set(g, c.bp, c.key, c.tag, c.value)
		case opDeleteObj, opDeleteEdge, opDeleteAttr:
			o.retG, o.err = d2oracle.Delete(g, c.bp, c.key)
		case opRename:
			o.retG, o.newKey, o.err = d2oracle.Rename(g, c.bp, c.key, c.newName)
		case opMove:
			o.retG, o.err = d2oracle.Move(g, c.bp, c.key, c.newKey, c.inclDesc)
		case opReconnect:
			o.retG, o.err = d2oracle.ReconnectEdge(g, c.bp, c.key, c.srcKey, c.dstKey)
		case opUpdateImport:
			o.postText, o.err = d2oracle.UpdateImport(x.text, c.impPath, c.impNew)
		}
	})
	kindLabel := name
	if c.bd != 0 {
		kindLabel += "@board"
	}
	switch {
	case o.panicked != nil:
		x.label("panic:" + name)
		x.trace = append(x.trace, "   -> PANIC "+o.panicked.val)
		if governs(c.kind) == x.prop {
			x.fail(step, panicSig(o.panicked, c), "%s panicked: %s\n%s\nsource before the call:\n%s", c, o.panicked.val, o.panicked.stack, x.text)
		}
		chk.check(o)
		x.reload()
		return false
	case o.err != nil:
		x.label("refused:" + name)
		x.trace = append(x.trace, "   -> refused: "+firstLine(o.err.Error()))
		chk.check(o)
		x.reload()
		return false
	}
	if c.kind != opUpdateImport {
		if o.retG == nil {
			x.label("nil-graph:" + name)
			if x.prop == "C36" {
				x.fail(step, "nil-graph-without-error:"+name, "%s returned neither a graph nor an error", c)
			}
			x.reload()
			return false
		}
		if p := guard(func() { o.postText = d2format.Format(o.retG.AST) }); p != nil {
			if x.prop == "C36" {
				x.fail(step, "format-panic:"+name, "formatting the returned AST panicked: %s\n%s", p.val, p.stack)
			}
			x.reload()
			return false
		}
	}
	o.postG, o.postErr = compileText(x.files, o.postText)
	if o.postG != nil {
		o.postBs = listBoards(o.postG)
	}
	x.label("ok:" + kindLabel)
	if c.auto {
		x.label("auto-remark")
	}
	x.trace = append(x.trace, "   -> ok")
	h := sha256.Sum256(append(x.thash, []byte(o.postText)...))
	x.thash = h[:8]
	chk.check(o)
	if o.postG == nil {
		x.label("post-uncompilable:" + name)
		x.reload()
		return false
	}
	x.okEdits++
	x.setState(o.postText, o.postG)
	return true
}

func firstLine(s string) string {
	if i := strings.IndexByte(s, '\n'); i >= 0 {
		return s[:i]
	}
	return s
}

// panicSig narrows the signature of a panic inside an API call: innermost d2 frame plus the
// operation kind and the panic's kind of message.
func panicSig(p *panicInfo, c *call) string {
	kind := "other"
	switch {
	case strings.Contains(p.val, "index out of range"):
		kind = "index-out-of-range"
	case strings.Contains(p.val, "slice bounds out of range"):
		kind = "slice-bounds"
	case strings.Contains(p.val, "nil pointer"):
		kind = "nil-deref"
	}
	op := opNames[c.kind]
	if c.kind == opMove {
		if c.inclDesc {
			op += "+desc"
		}
	}
	return p.sig + ":" + kind + "@" + op
}

func hash64(b []byte) uint64 {
	s := sha256.Sum256(b)
	return binary.LittleEndian.Uint64(s[:8])
}

// emptyBoardSig: the formatter prints a board whose block is empty (`s1: {}`) as a bare key, which
// compiles to a folder-only board that no longer shows what it inherits (C04
// meaning-changed:empty-board-map); every successful edit re-prints the whole file.
const emptyBoardSig = "empty-board-printed-as-folder"

func becameFolder(pre, post board) bool {
	return post.g.IsFolderOnly && !pre.g.IsFolderOnly
}

// postBoard finds the board with the same path in the post-state.
func postBoard(bs []board, path []string) int {
	k := pathKey(path)
	for i := range bs {
		if pathKey(bs[i].path) == k {
			return i
		}
	}
	return -1
}
