package p_oracle

import (
	"regexp"
	"sort"
	"fmt"
	"strings"

	"pgregory.net/rapid"

	"verif/harness/gen"
	"verif/harness/hx"
)

// ---------------------------------------------------------------------------------------
// Start states: printed structured programs in which every object and connection carries a
// unique marker label L<n>.

type startGen struct {
	t    *rapid.T
	next int
	// baseEdges: indexed IDs `(a -> b)[i]` of the connections written at the root of index.d2
	baseEdges []string
}

var rootEdgeLine = regexp.MustCompile(`^([A-Za-z0-9_.]+) (->|<-|--|<->) ([A-Za-z0-9_.]+)(:|$)`)

func rootEdges(text string) []string {
	var out []string
	count := map[string]int{}
	for _, l := range strings.Split(text, "\n") {
		if m := rootEdgeLine.FindStringSubmatch(l); m != nil {
			k := m[1] + " " + m[2] + " " + m[3]
			out = append(out, fmt.Sprintf("(%s)[%d]", k, count[k]))
			count[k]++
		}
	}
	return out
}

func (s *startGen) marker() string {
	s.next++
	return fmt.Sprintf("L%d", s.next)
}

func startOpts(maxObj, maxEdges int) gen.DiagramOpts {
	return gen.DiagramOpts{MaxObjects: maxObj, MaxDepth: 3, MaxEdges: maxEdges, Hostile: true, NoKeywordNames: true,
		Shapes: true, Styles: true, Sizes: true, Nears: true, Links: true}
}

type pnode struct {
	n      *gen.DNode
	parent *pnode
	kids   []*pnode
	flat   bool     // children printed as dotted keys next to the node instead of inside its block
	split  bool     // last child printed in a second block
	inner  []string // connection lines printed inside the block
	late   [][2]string
}

func (p *pnode) path() string {
	if p.parent == nil {
		return p.n.Key
	}
	return p.parent.path() + "." + p.n.Key
}

func (p *pnode) under(q *pnode) bool {
	for x := p; x != nil; x = x.parent {
		if x == q {
			return true
		}
	}
	return false
}

// diagram draws a diagram and prints it with a drawn mix of syntactic forms.
func (s *startGen) diagram(maxObj, maxEdges int) (text string, rootPaths []string, containerPaths []string) {
	t := s.t
	d := gen.GenDiagram(t, startOpts(maxObj, maxEdges))
	byPath := map[string]*pnode{}
	var roots []*pnode
	var build func(n *gen.DNode, parent *pnode) *pnode
	build = func(n *gen.DNode, parent *pnode) *pnode {
		p := &pnode{n: n, parent: parent}
		l := s.marker()
		if gen.Pick(t, "lsuffix", 5, 1) == 1 {
			l += rapid.SampledFrom(labelSuffixes).Draw(t, "lsuf")
		}
		n.Label, n.Block = &l, ""
		for _, c := range n.Children {
			p.kids = append(p.kids, build(c, p))
		}
		if len(p.kids) > 0 {
			p.flat = gen.Pick(t, "flat", 3, 1) == 1
			p.split = !p.flat && len(p.kids) > 1 && gen.Pick(t, "split", 3, 1) == 1
		}
		// some attributes are written later as dotted keys
		var keep [][2]string
		for _, a := range n.Attrs {
			if gen.Pick(t, "late", 3, 1) == 1 {
				p.late = append(p.late, a)
			} else {
				keep = append(keep, a)
			}
		}
		n.Attrs = keep
		byPath[p.path()] = p
		return p
	}
	for _, n := range d.Root {
		roots = append(roots, build(n, nil))
	}
	var rootLines []string
	for _, e := range d.Edges {
		a, b := byPath[e.Src], byPath[e.Dst]
		l := s.marker()
		tail := ": " + gen.QuoteValue(l)
		if len(e.Attrs) > 0 {
			tail += " {\n"
			for _, at := range e.Attrs {
				tail += "  " + at[0] + ": " + at[1] + "\n"
			}
			tail += "}"
		}
		if a == nil || b == nil {
			rootLines = append(rootLines, e.Src+" "+e.Arrow+" "+e.Dst+tail)
			continue
		}
		// deepest common container
		var common *pnode
		for x := a.parent; x != nil; x = x.parent {
			if b.under(x) && b != x {
				common = x
				break
			}
		}
		mode := gen.Pick(t, "eplace", 3, 2, 2)
		switch {
		case mode == 1 && common != nil && !common.flat:
			pre := common.path() + "."
			common.inner = append(common.inner, strings.TrimPrefix(a.path(), pre)+" "+e.Arrow+" "+strings.TrimPrefix(b.path(), pre)+tail)
		case mode == 2 && a.parent != nil && !a.parent.flat && !b.under(a.parent):
			// written inside the source's container, the destination through the parent scope
			pp := a.parent.parent
			if pp == nil {
				a.parent.inner = append(a.parent.inner, a.n.Key+" "+e.Arrow+" _."+b.path()+tail)
			} else if b.under(pp) && b != pp {
				a.parent.inner = append(a.parent.inner, a.n.Key+" "+e.Arrow+" _."+strings.TrimPrefix(b.path(), pp.path()+".")+tail)
			} else {
				rootLines = append(rootLines, a.path()+" "+e.Arrow+" "+b.path()+tail)
			}
		default:
			rootLines = append(rootLines, a.path()+" "+e.Arrow+" "+b.path()+tail)
		}
	}
	// children that exist only as the end of a connection written inside a container's block
	// (never declared as a key), named like something in the enclosing scope half of the time
	var all []*pnode
	for _, p := range byPath {
		all = append(all, p)
	}
	sort.Slice(all, func(i, j int) bool { return all[i].path() < all[j].path() })
	for _, p := range all {
		if len(p.kids) == 0 || p.flat || gen.Pick(t, "edgeonly", 5, 1) == 0 {
			continue
		}
		sibs := roots
		if p.parent != nil {
			sibs = p.parent.kids
		}
		end := fmt.Sprintf("eo%d", len(p.inner)+1)
		if rapid.Bool().Draw(t, "eocollide") {
			end = rapid.SampledFrom(sibs).Draw(t, "eosib").n.Key
		}
		p.inner = append(p.inner, fmt.Sprintf("eosrc -> %s: %s", end, gen.QuoteValue(s.marker())))
	}
	var sb strings.Builder
	for _, a := range d.RootAttrs {
		sb.WriteString(a[0] + ": " + a[1] + "\n")
	}
	var pr func(p *pnode, prefix, indent string)
	pr = func(p *pnode, prefix, indent string) {
		n := p.n
		key := prefix + n.Key
		sb.WriteString(indent + key + ": " + gen.QuoteValue(*n.Label))
		inBlock := p.kids
		if p.flat {
			inBlock = nil
		} else if p.split {
			inBlock = p.kids[:len(p.kids)-1]
		}
		body := n.Shape != "" || n.Near != "" || len(n.Attrs) > 0 || len(inBlock) > 0 || len(p.inner) > 0
		if body {
			sb.WriteString(" {\n")
			in := indent + "  "
			if n.Shape != "" {
				sb.WriteString(in + "shape: " + n.Shape + "\n")
			}
			if n.Near != "" {
				sb.WriteString(in + "near: " + n.Near + "\n")
			}
			for _, a := range n.Attrs {
				sb.WriteString(in + a[0] + ": " + a[1] + "\n")
			}
			for _, c := range inBlock {
				pr(c, "", in)
			}
			for _, l := range p.inner {
				sb.WriteString(in + strings.ReplaceAll(l, "\n", "\n"+in) + "\n")
			}
			sb.WriteString(indent + "}")
		}
		sb.WriteString("\n")
		for _, a := range p.late {
			sb.WriteString(indent + key + "." + a[0] + ": " + a[1] + "\n")
		}
		if p.flat {
			for _, c := range p.kids {
				pr(c, key+".", indent)
			}
		} else if p.split {
			sb.WriteString(indent + key + ": {\n")
			pr(p.kids[len(p.kids)-1], "", indent+"  ")
			sb.WriteString(indent + "}\n")
		}
	}
	for _, r := range roots {
		pr(r, "", "")
		rootPaths = append(rootPaths, r.path())
		if len(r.kids) > 0 {
			containerPaths = append(containerPaths, r.path())
		}
	}
	for _, l := range rootLines {
		sb.WriteString(l + "\n")
	}
	return sb.String(), rootPaths, containerPaths
}

func indentText(s, in string) string {
	ls := strings.Split(strings.TrimRight(s, "\n"), "\n")
	for i := range ls {
		if ls[i] != "" {
			ls[i] = in + ls[i]
		}
	}
	return strings.Join(ls, "\n") + "\n"
}

var boardNames = []string{"l1", "l2", "s1", "s2", "1", "2", "3", "x", "y", "b c", "inner", "alt"}

// boards prints board blocks for a board whose own root objects are base.
func (s *startGen) boards(depth int, base []string, containers []string) string {
	t := s.t
	var sb strings.Builder
	used := map[string]bool{}
	name := func() string {
		for try := 0; try < 20; try++ {
			n := rapid.SampledFrom(boardNames).Draw(t, "bname")
			if !used[n] {
				used[n] = true
				return gen.QuoteKey(n)
			}
		}
		return ""
	}
	for _, kind := range []string{"layers", "scenarios", "steps"} {
		if gen.Pick(t, "has-"+kind, 1, 1) == 0 {
			continue
		}
		nb := rapid.IntRange(1, 2).Draw(t, "nboards")
		if kind == "steps" {
			nb = rapid.IntRange(1, 3).Draw(t, "nsteps")
		}
		var body strings.Builder
		for i := 0; i < nb; i++ {
			n := name()
			if n == "" {
				continue
			}
			content, roots, conts := s.diagram(4, 3)
			if kind != "layers" {
				// statements about what the board inherits
				for j := 0; j < rapid.IntRange(0, 2).Draw(t, "noverride"); j++ {
					if len(base) == 0 {
						break
					}
					p := rapid.SampledFrom(base).Draw(t, "ovtarget")
					switch gen.Pick(t, "ovkind", 2, 2, 1, 1, 2) {
					case 4:
						// a local reference to a connection the board inherits
						if len(s.baseEdges) > 0 {
							content += rapid.SampledFrom(s.baseEdges).Draw(t, "ovedge") + rapid.SampledFrom([]string{".style.opacity: 0.4", ".style.stroke: red", ": {style.animated: true}"}).Draw(t, "ovedgeattr") + "\n"
						}
					case 0:
						content += p + ".style.opacity: 0.4\n"
					case 1:
						q := rapid.SampledFrom(base).Draw(t, "ovdst")
						content += p + " -> " + q + ": " + s.marker() + "\n"
					case 2:
						if len(containers) > 0 {
							content += rapid.SampledFrom(containers).Draw(t, "ovcont") + ".extra: " + s.marker() + "\n"
						}
					default:
						content += p + ": " + s.marker() + "\n"
					}
				}
			}
			if depth < 1 && gen.Pick(t, "nested", 3, 1) == 1 {
				sub := base
				subc := containers
				if kind == "layers" {
					sub, subc = nil, nil
				}
				content += s.boards(depth+1, append(append([]string(nil), sub...), roots...), append(append([]string(nil), subc...), conts...))
			}
			body.WriteString("  " + n + ": {\n" + indentText(content, "    ") + "  }\n")
		}
		if body.Len() > 0 {
			sb.WriteString(kind + ": {\n" + body.String() + "}\n")
		}
	}
	return sb.String()
}

func genStart(t *rapid.T, prop string) map[string]string {
	s := &startGen{t: t}
	files := map[string]string{}
	mw := []int{5, 4, 2}
	if prop == "C41" {
		mw = []int{1, 8, 2}
	}
	mode := gen.Pick(t, "startmode", mw...)
	text, roots, conts := s.diagram(rapid.IntRange(3, 9).Draw(t, "maxobj"), 6)
	if mode == 2 {
		imp, _, _ := s.diagram(4, 3)
		files["imp.d2"] = imp
		files["imp2.d2"] = imp
		switch gen.Pick(t, "impform", 2, 2, 1) {
		case 0:
			text = "...@imp\n" + text
		case 1:
			text += "...@imp\n"
		default:
			text += "imported: @imp\n"
		}
	}
	if mode == 1 || (mode == 2 && (prop == "C41" || gen.Pick(t, "imp+boards", 2, 1) == 1)) {
		s.baseEdges = rootEdges(text)
		text += s.boards(0, roots, conts)
	}
	files["index.d2"] = text
	return files
}

// ---------------------------------------------------------------------------------------
// Histories

// opWeights: relative frequency of the operation kinds; the property's own kinds get a boost.
func genOp(t *rapid.T, prop string, boardsLikely bool) Op {
	w := []int{4, 7, 6, 12, 10, 6, 6, 9, 14, 6, 2} // rapid favours the first alternative
	boost := func(ks ...int) {
		for _, k := range ks {
			w[k] *= 3
		}
	}
	switch prop {
	case "C37":
		boost(opCreateObj, opCreateEdge, opSetLabel, opSetAttr)
	case "C38":
		boost(opDeleteObj, opDeleteEdge, opDeleteAttr)
	case "C39":
		boost(opRename, opMove)
	case "C40":
		boost(opDeleteObj, opDeleteEdge, opRename, opMove, opReconnect)
	}
	op := Op{K: gen.Pick(t, "kind", w...)}
	op.A = rapid.IntRange(0, 15).Draw(t, "a")
	op.B = rapid.IntRange(0, 15).Draw(t, "b")
	if gen.Pick(t, "hostile", 7, 3) == 0 {
		op.N = rapid.IntRange(0, nPlainNames-1).Draw(t, "n")
	} else {
		op.N = rapid.IntRange(nPlainNames, len(namePool)-1).Draw(t, "nh")
	}
	op.T = rapid.IntRange(0, 24).Draw(t, "t")
	op.V = rapid.IntRange(0, 34).Draw(t, "v")
	switch op.K {
	case opSetLabel:
		op.F = gen.Pick(t, "flabel", 10, 3, 2, 1)
	case opDeleteAttr:
		op.F = gen.Pick(t, "fdelattr", 4, 1)
	case opCreateObj:
		op.F = gen.Pick(t, "fcreate", 6, 3, 2, 1)
	default:
		op.F = rapid.IntRange(0, 3).Draw(t, "f")
	}
	bw := []int{6, 4}
	if prop == "C41" {
		bw = []int{1, 6}
	}
	if gen.Pick(t, "onboard", bw...) == 1 {
		op.Bd = rapid.IntRange(1, 9).Draw(t, "bd")
	}
	return op
}

func genCase(prop string) func(t *rapid.T) Case {
	return func(t *rapid.T) Case {
		c := Case{Files: genStart(t, prop)}
		c.Ops = rapid.SliceOfN(rapid.Custom(func(t *rapid.T) Op { return genOp(t, prop, false) }), 1, hx.Pick(20, 60)).Draw(t, "ops")
		return c
	}
}

// ---------------------------------------------------------------------------------------
// Deterministic core: one short history per operation kind on fixed programs, and the probes
// of the design phase.

const coreSingle = `a: "L1" {
  b: "L2" {
    c: "L3"
    d: "L4" {shape: circle; style.fill: red}
  }
  e: "L5"
  b.c -> e: "L6"
}
f: "L7" {style.opacity: 0.5}
g: "L8"
a.b -> f: "L9"
a.b -> f: "L10"
a.b -> f: "L11" {style.stroke: blue; source-arrowhead.shape: diamond}
f -> g: "L12"
a.e -> g: "L13"
`

const coreBoards = `a: "L1" {
  b: "L2"
  c: "L3"
  b -> c: "L4"
}
d: "L5"
a -> d: "L6"
layers: {
  l1: {
    x: "L10" {
      y: "L11"
    }
    z: "L12"
    x.y -> z: "L13"
    scenarios: {
      inner: {
        w: "L14"
      }
    }
  }
  l2: {
    p: "L20"
  }
}
scenarios: {
  s1: {
    e: "L30"
    a.b.style.fill: red
    d -> e: "L31"
  }
}
steps: {
  1: {
    q: "L40"
  }
  2: {
    r: "L41"
    q -> r: "L42"
  }
}
`

// parallel connections with indexed references (renumbering after a deletion)
const coreParallel = `a: "L1"
b: "L2"
c: "L3" {
  d: "L4"
  e: "L5"
  d -> e: "L6"
  d -> e: "L7"
  d -> e: "L8"
  (d -> e)[1].style.stroke: blue
}
a -> b: "L9"
a -> b: "L10"
a -> b: "L11"
a -> b: "L12"
(a -> b)[1].style.stroke: red
(a -> b)[2].style.opacity: 0.5
a -- b: "L13"
`

func coreCases() []Case {
	var out []Case
	for a := 0; a < 8; a++ {
		out = append(out, Case{Files: map[string]string{"index.d2": coreParallel}, Ops: []Op{{K: opSetAttr, A: 0, T: 1, V: 1}, {K: opDeleteEdge, A: a}, {K: opDeleteEdge, A: a}}})
		out = append(out, Case{Files: map[string]string{"index.d2": coreParallel}, Ops: []Op{{K: opCreateEdge, A: 0, B: 1}, {K: opDeleteEdge, A: a}, {K: opReconnect, A: a, B: 2, F: 1}}})
	}
	one := func(text string, ops ...Op) {
		out = append(out, Case{Files: map[string]string{"index.d2": text}, Ops: ops})
	}
	for k := 0; k < nOpKinds; k++ {
		for a := 0; a < 6; a++ {
			for f := 0; f < 4; f++ {
				one(coreSingle, Op{K: opSetAttr, A: 1, T: 1, V: 2}, Op{K: k, A: a, B: a + 1, N: a, T: a, V: a, F: f})
			}
		}
	}
	// every board, a few kinds each
	for bd := 1; bd <= 7; bd++ {
		for k := 0; k < nOpKinds-1; k++ {
			for a := 0; a < 3; a++ {
				one(coreBoards, Op{K: opSetAttr, A: 0, T: 1, V: 1}, Op{K: k, A: a, B: a, N: a, T: a, V: a, F: a % 4, Bd: bd})
			}
		}
	}
	// design-phase probes: delete an inherited container inside a scenario; move into a freshly created nested key
	one(coreBoards, Op{K: opCreateObj, N: 2}, Op{K: opDeleteObj, A: 0, Bd: 5})
	one("a: \"L1\"\nb: \"L2\"\n", Op{K: opCreateObj, B: 1, N: 3, F: 1}, Op{K: opMove, A: 1, B: 3, F: 0}, Op{K: opMove, A: 0, B: 4, F: 1})
	imp := "m: \"L50\" {\n  n: \"L51\"\n}\no: \"L52\"\nm.n -> o: \"L53\"\n"
	for k := 0; k < nOpKinds; k++ {
		for a := 0; a < 5; a++ {
			out = append(out, Case{Files: map[string]string{"index.d2": "...@imp\nu: \"L1\" {\n  v: \"L2\"\n}\nu.v -> m: \"L3\"\n", "imp.d2": imp, "imp2.d2": imp},
				Ops: []Op{{K: opCreateObj, N: 1}, {K: k, A: a, B: a, N: a, T: a, V: a, F: a % 4}}})
		}
	}
	// children that exist only as the end of a connection written in a container's block (they
	// cannot be declared by a key without losing that property, so they carry no marker): every
	// kind of edit on the container, its children' namesakes and the connection, with and without
	// a namesake in the enclosing scope, at the root and one level down
	for _, txt := range []string{
		"a: \"L1\" {\n  eosrc -> x: \"L2\"\n}\nx: \"L3\"\nb: \"L4\" {\n  c: \"L5\"\n}\n",
		"a: \"L1\" {\n  eosrc -> eodst: \"L2\"\n  k: \"L6\"\n}\nx: \"L3\"\nb: \"L4\" {\n  c: \"L5\"\n}\n",
		"p: \"L1\" {\n  a: \"L2\" {\n    eosrc -> x: \"L3\"\n    x -> eosrc: \"L7\"\n  }\n  x: \"L4\"\n}\nb: \"L5\" {\n  c: \"L6\"\n}\n",
	} {
		for _, k := range []int{opMove, opRename, opDeleteObj, opCreateEdge, opReconnect} {
			for a := 0; a < 5; a++ {
				for b := 0; b < 7; b += 2 {
					for f := 0; f < 2; f++ {
						one(txt, Op{K: k, A: a, B: b, N: a, F: f})
					}
				}
			}
		}
	}
	return out
}
