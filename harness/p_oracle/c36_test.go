package p_oracle

import (
	"strings"
	"testing"

	"oss.terrastruct.com/d2/d2format"
	"oss.terrastruct.com/d2/d2parser"

	"verif/harness/canon"
	"verif/harness/hx"
)

// C36: every successful edit yields source that compiles to the returned diagram and that the
// formatter leaves unchanged.

type c36 struct{ x *exec }

func (k *c36) prop() string { return "C36" }

func (k *c36) check(o *stepObs) {
	x, c := o.x, o.c
	if !o.ok() {
		return
	}
	name := opNames[c.kind]
	if c.nonRoot && x.okEdits >= 1 || c.kind == opUpdateImport && x.okEdits >= 1 {
		x.nt = true
	}
	if o.postG == nil {
		sig := "edited-source-does-not-compile:" + name
		if o.postErr != nil && strings.Contains(o.postErr.Error(), "compiler panic") {
			sig = "edited-source-crashes-compiler:" + name
		}
		if c.kind == opUpdateImport {
			if c.impNew == nil {
				sig += ":remove"
			} else {
				sig += ":repath"
			}
			switch e := o.postErr.Error(); {
			case strings.Contains(e, "indexed edge does not exist"):
				sig += ":dangling-connection-reference"
			case strings.Contains(e, "near"):
				sig += ":dangling-near"
			}
		}
		x.fail(o.step, sig, "%s succeeded but the source it produced does not compile: %v\n%s", c, o.postErr, o.ctx())
		return
	}
	if o.retG != nil {
		var d string
		if p := guard(func() { d = canon.Diff(canon.Of(o.retG).Sorted(), canon.Of(o.postG).Sorted()) }); p != nil {
			x.fail(o.step, "returned-graph-unusable:"+name, "projecting the returned graph panicked: %s", p.val)
			return
		}
		if d != "" {
			x.fail(o.step, "returned-graph-differs-from-source:"+name, "%s: the returned graph is not what its source compiles to: %s\n%s", c, d, o.ctx())
		}
	}
	m, err := d2parser.Parse("index.d2", strings.NewReader(o.postText), nil)
	if err != nil {
		x.fail(o.step, "edited-source-does-not-parse:"+name, "%v", err)
		return
	}
	if t2 := d2format.Format(m); t2 != o.postText {
		x.fail(o.step, unstableSig(o.postText, t2), "%s: the formatter changes the source the edit produced\n--- produced\n%s--- formatted again\n%s%s", c, o.postText, t2, o.ctx())
	}
}

func noBlank(s string) string {
	var out []string
	for _, l := range strings.Split(s, "\n") {
		if strings.TrimSpace(l) != "" {
			out = append(out, l)
		}
	}
	return strings.Join(out, "\n")
}

func hasBoardKeyword(s string) bool {
	return strings.Contains(s, "layers") || strings.Contains(s, "scenarios") || strings.Contains(s, "steps")
}

// unstableSig classifies a formatter instability narrowly.
func unstableSig(a, b string) string {
	switch {
	case noBlank(a) == noBlank(b) && hasBoardKeyword(a):
		return "not-formatter-stable:board-blank-lines"
	case noBlank(a) == noBlank(b):
		return "not-formatter-stable:blank-lines"
	case hasBoardKeyword(a):
		return "not-formatter-stable:board"
	}
	return "not-formatter-stable"
}

func TestC36(t *testing.T) { hx.Run(t, spec("C36")) }
