package p_oracle

import (
	"strings"
	"testing"

	"verif/harness/hx"
)

// C39: Rename and Move relocate objects without losing anything.

type c39 struct{ x *exec }

func (k *c39) prop() string { return "C39" }

func (k *c39) before(o *stepObs) {
	if governs(o.c.kind) == "C39" {
		o.forceStates()
	}
}

func (k *c39) check(o *stepObs) {
	x, c := o.x, o.c
	if governs(c.kind) != "C39" || !o.ok() || o.postG == nil {
		return
	}
	name := opNames[c.kind]
	pre := x.pre(c.bd)
	if !pre.marked {
		x.label("unchecked:unmarked-state")
		// without markers (e.g. a child that exists only as the end of a connection written in a
		// container's block cannot carry one) elements cannot be followed individually; what
		// remains: a rename or move removes no object and neither adds nor removes a connection
		if pj := postBoard(o.postBs, c.bp); pj >= 0 {
			post := stateOf(o.postBs[pj].g)
			if strings.Contains(x.signature(name+":count-changed"), "@") {
				// imports, dotted keys, inherited targets, nested boards: the listed findings of this
				// property already cover lost and re-created elements there
				x.label("unchecked:unmarked-state-in-listed-construct")
			} else if len(post.objs) < len(pre.objs) || len(post.edges) != len(pre.edges) {
				x.fail(o.step, name+":count-changed", "%s: %d objects and %d connections before, %d and %d after\n%s", c, len(pre.objs), len(pre.edges), len(post.objs), len(post.edges), o.ctx())
			} else {
				x.label("checked:counts-only")
			}
		}
		return
	}
	if c.nonRoot && x.okEdits >= 1 {
		x.nt = true
	}
	pj := postBoard(o.postBs, c.bp)
	if pj < 0 {
		x.fail(o.step, "board-vanished:"+name, "%s: the addressed board no longer exists\n%s", c, o.ctx())
		return
	}
	post := stateOf(o.postBs[pj].g)
	d := diffStates(pre, post, nil)
	T := pre.els[c.elem]
	cross := c.kind == opMove && c.dest != T.parent
	if c.kind == opMove {
		switch {
		case !cross:
			x.label("move:same-scope")
			name = "move-same-scope"
		case c.inclDesc:
			name = "move+desc"
		}
		if cross && c.dest == "" {
			x.label("move:to-root")
		} else if cross && pre.under(T.m, c.dest) {
			x.label("move:outwards")
		} else if cross {
			x.label("move:into-container")
		}
		if len(pre.children(T.m)) > 0 {
			x.label(name + ":container")
		}
	}
	if len(d.removed) > 0 {
		what := "element"
		e := pre.els[d.removed[0]]
		switch {
		case e.m == T.m:
			what = "target"
		case e.edge:
			what = "connection"
		case pre.under(e.m, T.m):
			what = "descendant"
		}
		x.fail(o.step, name+":"+what+"-lost", "%s: lost %v; %s\n%s", c, idsPre(pre, d.removed), d, o.ctx())
		return
	}
	// new elements: only containers on the destination path
	if len(d.added) > 0 {
		okAdded := map[string]bool{}
		if pt, ok := post.els[T.m]; ok {
			for p := pt.parent; p != ""; p = post.els[p].parent {
				okAdded[p] = true
			}
		}
		for _, a := range d.added {
			if !okAdded[a] || post.els[a].edge {
				x.fail(o.step, name+":new-element", "%s: new element %s; %s\n%s", c, post.els[a].absID, d, o.ctx())
				return
			}
		}
		x.label("move:created-containers")
	}
	pt := post.els[T.m]
	if cross && pt.parent != c.dest {
		x.fail(o.step, name+":not-at-destination", "%s: %s now lives under %q, destination was %q (%s)\n%s", c, T.m, pt.parent, c.dest, pt.absID, o.ctx())
		return
	}
	kids := setOf(pre.children(T.m))
	for _, m := range d.keys() {
		ch := d.changed[m]
		e := pre.els[m]
		var allowed func(string) bool
		switch {
		case m == T.m:
			allowed = func(a string) bool { return a == "@id" || a == "@absid" || (cross && a == "@parent") }
		case kids[m] && cross && !c.inclDesc:
			// children that are not moved stay in the former parent; renamed only if the name is taken there
			if post.els[m].parent != T.parent {
				x.fail(o.step, name+":child-not-left-in-former-parent", "%s: child %s (%s) now lives under %q, former parent %q\n%s", c, m, e.absID, post.els[m].parent, T.parent, o.ctx())
				return
			}
			collide := false
			for _, s := range pre.children(T.parent) {
				if strings.EqualFold(pre.els[s].id, e.id) {
					collide = true
				}
			}
			if collide {
				x.label("move:child-name-taken")
			}
			allowed = func(a string) bool { return a == "@absid" || a == "@parent" || (a == "@id" && collide) }
		case !e.edge && pre.under(m, T.m):
			allowed = func(a string) bool { return a == "@absid" }
		case e.edge && (pre.under(e.src, T.m) || pre.under(e.dst, T.m)):
			// the ID of an attached connection changes with its ends; parallel ones may swap their order
			allowed = func(a string) bool { return a == "@absid" || a == "@index" }
			if post.els[m].index != e.index {
				x.label("gray:parallel-connections-reordered")
			}
		default:
			allowed = func(string) bool { return false }
		}
		if bad := only(ch, allowed); len(bad) > 0 {
			what := "other-element-changed"
			switch {
			case m == T.m:
				what = "target-changed"
			case !e.edge && pre.under(m, T.m):
				what = "descendant-changed"
			case e.edge && (bad[0] == "@src" || bad[0] == "@dst"):
				what = "connection-reattached"
			case e.edge && (pre.under(e.src, T.m) || pre.under(e.dst, T.m)):
				what = "attached-connection-changed"
			case e.edge:
				what = "other-connection-changed"
			}
			x.fail(o.step, name+":"+what+":"+strings.TrimPrefix(cellClass(bad[0]), "@"), "%s: %s (%s) changed %v; %s\n%s", c, m, e.absID, bad, d, o.ctx())
			return
		}
	}
	if cross && !c.inclDesc {
		for _, m := range sortedKeys(kids) {
			if post.els[m].parent != T.parent {
				x.fail(o.step, name+":child-moved-along", "%s: child %s still lives under %q although descendants were not included\n%s", c, m, post.els[m].parent, o.ctx())
				return
			}
		}
	}
	if cross && c.inclDesc {
		for _, m := range sortedKeys(kids) {
			if post.els[m].parent != T.m {
				x.fail(o.step, name+":child-left-behind", "%s: child %s lives under %q although descendants were included\n%s", c, m, post.els[m].parent, o.ctx())
				return
			}
		}
	}
	unrelatedBoardsSame(o, name)
}

func TestC39(t *testing.T) { hx.Run(t, spec("C39")) }
