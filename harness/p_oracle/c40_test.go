package p_oracle

import (
	"testing"

	"oss.terrastruct.com/d2/d2oracle"

	"verif/harness/hx"
)

// C40: ID-change predictions match the edits they predict.

type c40 struct{ x *exec }

func (k *c40) prop() string { return "C40" }

func hasDeltas(c *call) bool {
	switch c.kind {
	case opDeleteObj, opDeleteEdge, opDeleteAttr, opRename, opReconnect:
		return true
	case opMove:
		return c.bd == 0 // MoveIDDeltas has no board path
	}
	return false
}

func (k *c40) before(o *stepObs) {
	x, c := o.x, o.c
	if !hasDeltas(c) {
		return
	}
	x.pre(c.bd)
	o.deltasSet = true
	g := x.g
	p := guard(func() {
		switch c.kind {
		case opDeleteObj, opDeleteEdge, opDeleteAttr:
			o.deltas, o.deltasErr = d2oracle.DeleteIDDeltas(g, c.bp, c.key)
		case opRename:
			o.deltas, o.deltasErr = d2oracle.RenameIDDeltas(g, c.bp, c.key, c.newName)
		case opMove:
			o.deltas, o.deltasErr = d2oracle.MoveIDDeltas(g, c.key, c.newKey, c.inclDesc)
		case opReconnect:
			o.deltas, o.deltasErr = d2oracle.ReconnectEdgeIDDeltas(g, c.bp, c.key, c.srcKey, c.dstKey)
		}
	})
	if p != nil {
		x.label("panic:deltas:" + opNames[c.kind])
		x.fail(o.step, p.sig+"@deltas:"+opNames[c.kind], "ID deltas for %s panicked: %s\n%s\nsource:\n%s", c, p.val, p.stack, x.text)
		o.deltasSet = false
		// the graph may be half-modified: start the edit from a fresh compile
		x.reload()
		x.pre(c.bd)
	}
}

func (k *c40) check(o *stepObs) {
	x, c := o.x, o.c
	if !o.deltasSet || !o.ok() || o.postG == nil {
		return
	}
	name := opNames[c.kind]
	if c.kind == opMove {
		if t, ok := x.pre(c.bd).els[c.elem]; ok && t.parent == c.dest {
			name = "move-same-scope"
		}
		if c.inclDesc {
			name += "+desc"
		}
	}
	if o.deltasErr != nil {
		x.label("deltas-refused-edit-ok:" + name)
		return
	}
	pre := x.pre(c.bd)
	if !pre.marked {
		x.label("unchecked:unmarked-state")
		return
	}
	pj := postBoard(o.postBs, c.bp)
	if pj < 0 {
		return
	}
	post := stateOf(o.postBs[pj].g)
	if !post.marked {
		x.label("unchecked:unmarked-post-state")
		return
	}
	if c.nonRoot && x.okEdits >= 1 {
		x.nt = true
	}
	// an edit that loses elements it must keep (C38 / C39 findings) gives the prediction nothing to agree with
	expectGone := map[string]bool{}
	if c.kind == opDeleteObj || c.kind == opDeleteEdge {
		expectGone[c.elem] = true
		for _, e := range pre.edges {
			if c.kind == opDeleteObj && (pre.els[e].src == c.elem || pre.els[e].dst == c.elem) {
				expectGone[e] = true
			}
		}
	}
	for _, m := range pre.order {
		if _, survives := post.els[m]; !survives && !expectGone[m] {
			x.label("unchecked:edit-lost-elements")
			return
		}
	}
	if len(o.deltas) > 0 {
		x.label("deltas:nonempty:" + name)
	} else {
		x.label("deltas:empty:" + name)
	}
	for _, m := range pre.order {
		a := pre.els[m]
		b, survives := post.els[m]
		want, predicted := o.deltas[a.absID]
		kind := "object"
		if a.edge {
			kind = "connection"
		}
		if !survives {
			if predicted {
				x.fail(o.step, "delta-for-removed-"+kind+":"+name, "%s: %s (%s) is removed by the edit but the deltas predict %q -> %q\ndeltas: %v\n%s", c, m, a.absID, a.absID, want, o.deltas, o.ctx())
				return
			}
			continue
		}
		if !predicted {
			want = a.absID
		}
		if b.absID != want {
			what := "wrong-new-id"
			if !predicted {
				what = "unpredicted-id-change"
			} else if b.absID == a.absID {
				what = "predicted-change-did-not-happen"
			}
			x.fail(o.step, "delta-mismatch:"+what+":"+kind+":"+name, "%s: %s %s had ID %q, deltas predict %q, the edit gives %q\ndeltas: %v\n%s", c, kind, m, a.absID, want, b.absID, o.deltas, o.ctx())
			return
		}
	}
}

func TestC40(t *testing.T) { hx.Run(t, spec("C40")) }
