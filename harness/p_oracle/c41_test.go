package p_oracle

import (
	"testing"

	"oss.terrastruct.com/d2/d2format"
	"oss.terrastruct.com/d2/d2graph"

	"verif/harness/canon"
	"verif/harness/hx"
)

// C41: edits on a board stay within that board (and the boards that start from it).

type c41 struct{ x *exec }

func (k *c41) prop() string { return "C41" }

func (k *c41) before(o *stepObs) {
	x, c := o.x, o.c
	if c.bd == 0 || c.kind == opUpdateImport {
		return
	}
	for i := range x.boards {
		if !inheritsFrom(x.boards, i, c.bd) {
			x.preCanon(i)
		}
	}
}

func (k *c41) compare(o *stepObs, g *d2graph.Graph, sigPrefix string) {
	x, c := o.x, o.c
	bs := listBoards(g)
	for i := range x.boards {
		if inheritsFrom(x.boards, i, c.bd) {
			continue
		}
		rel := relation(x.boards, i, c.bd)
		j := postBoard(bs, x.boards[i].path)
		if j < 0 {
			x.fail(o.step, sigPrefix+"board-vanished:"+rel, "%s: board %v no longer exists\n%s", c, x.boards[i].path, o.ctx())
			return
		}
		if becameFolder(x.boards[i], bs[j]) {
			x.fail(o.step, emptyBoardSig, "%s: board %v had an empty block and is a folder now\n%s", c, x.boards[i].path, o.ctx())
			return
		}
		if d := canon.Diff(x.preCanon(i), canonAlone(bs[j].g)); d != "" {
			x.fail(o.step, sigPrefix+"other-board-changed:"+opNames[c.kind]+":"+rel, "%s addressed to board %v changed board %v (%s): %s\n%s", c, c.bp, x.boards[i].path, rel, d, o.ctx())
			return
		}
	}
}

func (k *c41) check(o *stepObs) {
	x, c := o.x, o.c
	if c.bd == 0 || c.kind == opUpdateImport || o.panicked != nil {
		return
	}
	if x.okEdits >= 1 {
		x.nt = true
	}
	x.label("board-edit:" + x.boards[c.bd].kind)
	if o.err != nil {
		// a refused edit must not have changed the caller's graph
		var t string
		if p := guard(func() { t = d2format.Format(x.g.AST) }); p != nil {
			x.fail(o.step, "refused-edit-left-unprintable-ast", "%s was refused (%v) and formatting the caller's AST now panics: %s", c, o.err, p.val)
			return
		}
		if t == x.text {
			x.label("refused@board:source-untouched")
			return
		}
		x.label("refused@board:source-modified")
		g, err := compileText(x.files, t)
		if err != nil {
			x.fail(o.step, "refused-edit-broke-source", "%s was refused (%v) but the caller's graph was modified and no longer compiles: %v\n--- caller's source now\n%s%s", c, firstLine(o.err.Error()), err, t, o.ctx())
			return
		}
		k.compare(o, g, "refused:")
		return
	}
	if o.postG == nil {
		return
	}
	k.compare(o, o.postG, "")
}

func TestC41(t *testing.T) { hx.Run(t, spec("C41")) }
