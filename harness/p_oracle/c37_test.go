package p_oracle

import (
	"strings"
	"testing"

	"oss.terrastruct.com/d2/d2oracle"

	"verif/harness/hx"
)

// C37: Create and Set change exactly what they name.

type c37 struct{ x *exec }

func (k *c37) prop() string { return "C37" }

func (k *c37) before(o *stepObs) {
	if governs(o.c.kind) == "C37" {
		o.forceStates()
	}
}

func allowedSetCells(cell string) func(string) bool {
	return func(ch string) bool {
		if ch == cell {
			return true
		}
		switch {
		case cell == "label":
			// a block-string label carries its language, and a markdown/code label is a text/code shape
			return ch == "language" || ch == "shape"
		case strings.HasPrefix(cell, "source-arrowhead."):
			return strings.HasPrefix(ch, "source-arrowhead.")
		case strings.HasPrefix(cell, "target-arrowhead."):
			return strings.HasPrefix(ch, "target-arrowhead.")
		}
		return false
	}
}

func (k *c37) check(o *stepObs) {
	x, c := o.x, o.c
	if governs(c.kind) != "C37" || !o.ok() || o.postG == nil {
		return
	}
	name := opNames[c.kind]
	if c.nonRoot && x.okEdits >= 1 {
		x.nt = true
	}
	pre := x.pre(c.bd)
	pj := postBoard(o.postBs, c.bp)
	if pj < 0 {
		x.fail(o.step, "board-vanished:"+name, "%s: the addressed board no longer exists\n%s", c, o.ctx())
		return
	}
	post := stateOf(o.postBs[pj].g)
	al := idAlias(pre, post)
	d := diffStates(pre, post, al)

	// the new / addressed element
	var addedOK map[string]bool // markers (post) that may be new
	switch c.kind {
	case opCreateObj:
		obj := d2oracle.GetObj(o.postG, c.bp, o.newKey)
		if obj == nil || obj == o.postBs[pj].g.Root {
			x.fail(o.step, "create:returned-key-not-found", "%s returned key %q which denotes no object afterwards\n%s", c, o.newKey, o.ctx())
			return
		}
		id := strings.ToLower(obj.AbsID())
		if m, ok := pre.byID[id]; ok {
			x.fail(o.step, "create:returned-key-existed", "%s returned key %q, an object that existed before (%s)\n%s", c, o.newKey, m, o.ctx())
			return
		}
		nm := post.byID[id]
		addedOK = map[string]bool{nm: true}
		for p := post.els[nm].parent; p != ""; p = post.els[p].parent {
			addedOK[p] = true
		}
		if !setOf(d.added)[nm] {
			x.fail(o.step, "create:new-object-not-new", "%s: %q is not among the new elements %v\n%s", c, o.newKey, d.added, o.ctx())
			return
		}
		if o.newKey != c.key {
			x.label("create:key-uniquified")
		}
		if len(d.added) > 1 {
			x.label("create:with-missing-containers")
		}
	case opCreateEdge:
		e := d2oracle.GetEdge(o.postG, c.bp, o.newKey)
		if e == nil {
			x.fail(o.step, "create:returned-key-not-found", "%s returned key %q which is the ID of no connection afterwards (connections: %v)\n%s", c, o.newKey, ids(post, post.edges), o.ctx())
			return
		}
		id := strings.ToLower(e.AbsID())
		if m, ok := pre.byID[id]; ok {
			x.fail(o.step, "create:returned-key-existed", "%s returned key %q, a connection that existed before (%s)\n%s", c, o.newKey, m, o.ctx())
			return
		}
		nm := post.byID[id]
		addedOK = map[string]bool{nm: true}
		ne := post.els[nm]
		rs, rd := al[ne.src], al[ne.dst]
		if rs != c.srcM || rd != c.dstM {
			x.fail(o.step, "create:connection-joins-other-objects", "%s: new connection %s joins %s,%s instead of %s,%s\n%s", c, ne.absID, rs, rd, c.srcM, c.dstM, o.ctx())
			return
		}
		if ne.index > 0 {
			x.label("create:parallel-connection")
		}
		for _, pm := range post.edges {
			pe := post.els[pm]
			if old, ok := pre.els[pm]; ok && !strings.HasPrefix(pm, "id:") && old.edge && old.index != pe.index && groupOf(pe.absID) == groupOf(ne.absID) {
				x.fail(o.step, "create-edge:existing-connection-renumbered", "%s: the existing parallel connection %s had index %d and has %d now (returned key %q)\n%s",
					c, pm, old.index, pe.index, o.newKey, o.ctx())
				return
			}
			if pm != nm && groupOf(pe.absID) == groupOf(ne.absID) && pe.index > ne.index {
				x.fail(o.step, "create-edge:existing-connection-renumbered", "%s: the new connection got index %d, the existing parallel connection %s now has index %d (returned key %q)\n%s",
					c, ne.index, pm, pe.index, o.newKey, o.ctx())
				return
			}
		}
	default:
		tm, ok := post.byID[strings.ToLower(c.elemID)]
		if !ok {
			x.fail(o.step, "set:target-vanished:"+c.cell, "%s: the element %s no longer exists\n%s", c, c.elemID, o.ctx())
			return
		}
		got, has := post.els[tm].cells[c.cell]
		want := *c.value
		same := has && got == want
		if !same && has && c.attr != nil && c.attr.keyword && strings.EqualFold(got, want) {
			same = true
			x.label("set:keyword-case-folded")
		}
		if !same && has && c.tag != nil && strings.TrimSpace(got) == strings.TrimSpace(want) {
			// block strings cannot carry leading / trailing white space: left open
			same = true
			x.label("gray:block-string-trims-whitespace")
		}
		if !same {
			x.fail(o.step, setValueSig(c, want, got, has), "%s: afterwards %s of %s is %q (present=%v), want %q\n%s", c, c.cell, c.elemID, got, has, want, o.ctx())
		}
		if c.tag != nil {
			if lang := post.els[tm].cells["language"]; lang != "markdown" {
				x.fail(o.step, "set:block-tag-ignored", "%s: language afterwards is %q\n%s", c, lang, o.ctx())
			}
			x.label("set:label-md")
		}
	}

	// everything else unchanged on the addressed board
	for _, a := range d.added {
		if !addedOK[a] {
			x.fail(o.step, name+":unexpected-new-element", "%s: unexpected new element %s (%s); %s\n%s", c, a, post.els[a].absID, d, o.ctx())
			return
		}
	}
	if len(d.removed) > 0 {
		x.fail(o.step, name+":element-lost", "%s: lost %v; %s\n%s", c, idsPre(pre, d.removed), d, o.ctx())
		return
	}
	for _, m := range d.keys() {
		ch := d.changed[m]
		if (c.kind == opSetLabel || c.kind == opSetAttr) && m == c.elem {
			if bad := only(ch, allowedSetCells(c.cell)); len(bad) > 0 {
				x.fail(o.step, "set:"+cellClass(c.cell)+":other-cell-of-target-changed:"+cellClass(bad[0]), "%s: also changed %v of the same element\n%s", c, bad, o.ctx())
				return
			}
			continue
		}
		what := "other-element-changed"
		if c.kind == opCreateEdge && pre.els[m].edge && len(only(ch, func(a string) bool { return a == "@absid" || a == "@index" })) == 0 {
			what = "existing-connection-renumbered"
		}
		x.fail(o.step, name+":"+what, "%s: element %s (%s) changed %v\n%s", c, m, pre.els[m].absID, ch, o.ctx())
		return
	}

	// other boards
	for i := range x.boards {
		if i == c.bd {
			continue
		}
		j := postBoard(o.postBs, x.boards[i].path)
		if j < 0 {
			x.fail(o.step, "board-vanished:"+name, "%s: board %v no longer exists\n%s", c, x.boards[i].path, o.ctx())
			return
		}
		if becameFolder(x.boards[i], o.postBs[j]) {
			x.fail(o.step, emptyBoardSig, "%s: board %v had an empty block and is a folder now\n%s", c, x.boards[i].path, o.ctx())
			return
		}
		pi, pj := x.pre(i), stateOf(o.postBs[j].g)
		inh := inheritsFrom(x.boards, i, c.bd)
		al := idAlias(pi, pj)
		if inh {
			// a connection added to the base renumbers the board's own parallel connections:
			// match connections by marker where there is one
			for _, pm := range pj.edges {
				if _, ok := pi.els[pm]; ok && !strings.HasPrefix(pm, "id:") {
					al[pm] = pm
				}
			}
		}
		di := diffStates(pi, pj, al)
		if !inh {
			if !di.empty() {
				x.fail(o.step, name+":unrelated-board-changed", "%s: board %v (%s) changed: %s\n%s", c, x.boards[i].path, relation(x.boards, i, c.bd), di, o.ctx())
				return
			}
			continue
		}
		// a board that starts from the addressed one sees the same edit, nothing else
		var lostObjs []string
		for _, m := range di.removed {
			if !pi.els[m].edge {
				lostObjs = append(lostObjs, m)
			}
		}
		if di.removed = lostObjs; len(di.removed) > 0 {
			x.fail(o.step, name+":element-lost@inheriting-board", "%s: board %v lost %v\n%s", c, x.boards[i].path, idsPre(pi, di.removed), o.ctx())
			return
		}
		for _, a := range di.added {
			if pj.els[a].edge {
				continue
			}
			if _, ok := post.byID[strings.ToLower(pj.els[a].absID)]; !ok {
				x.fail(o.step, name+":unexpected-new-element@inheriting-board", "%s: board %v got %s\n%s", c, x.boards[i].path, pj.els[a].absID, o.ctx())
				return
			}
		}
		for _, m := range di.keys() {
			ch := di.changed[m]
			if pi.els[m].edge {
				continue // connections of an inheriting board are renumbered by edits of the base: not compared
			}
			if (c.kind == opSetLabel || c.kind == opSetAttr) && strings.EqualFold(pi.els[m].absID, c.elemID) {
				if bad := only(ch, allowedSetCells(c.cell)); len(bad) == 0 {
					continue
				}
			}
			if c.kind == opCreateObj && len(only(ch, func(a string) bool { return a == "@absid" || a == "@id" })) == 0 {
				continue // the board's own object merges with a new base object whose name differs in letter case only
			}
			x.fail(o.step, name+":other-element-changed@inheriting-board", "%s: board %v element %s changed %v\n%s", c, x.boards[i].path, pi.els[m].absID, ch, o.ctx())
			return
		}
	}
}

func cellClass(cell string) string {
	if i := strings.IndexByte(cell, '.'); i > 0 && (strings.HasPrefix(cell, "style.") || strings.Contains(cell, "arrowhead")) {
		return cell[:i]
	}
	return cell
}

func setValueSig(c *call, want, got string, has bool) string {
	cls := "other"
	lw := strings.ToLower(want)
	switch {
	case !has:
		cls = "absent"
	case lw == "true" || lw == "false":
		cls = "boolean"
	case lw == "null":
		cls = "null"
	case c.tag != nil && strings.TrimSpace(got) == strings.TrimSpace(want):
		cls = "block-string-whitespace"
	case c.tag != nil:
		cls = "block-string"
	case strings.EqualFold(got, want):
		cls = "letter-case"
	case strings.TrimSpace(got) == strings.TrimSpace(want):
		cls = "whitespace"
	}
	return "set-value-differs:" + cellClass(c.cell) + ":" + cls
}

func ids(st *bstate, ms []string) []string {
	var out []string
	for _, m := range ms {
		out = append(out, st.els[m].absID)
	}
	return out
}

func idsPre(st *bstate, ms []string) []string {
	var out []string
	for _, m := range ms {
		out = append(out, m+"="+st.els[m].absID)
	}
	return out
}

func TestC37(t *testing.T) { hx.Run(t, spec("C37")) }
