package p_oracle

import (
	"strings"
	"testing"

	"verif/harness/hx"
)

// C38: Delete removes exactly the target and keeps its children.

type c38 struct{ x *exec }

func (k *c38) prop() string { return "C38" }

func (k *c38) before(o *stepObs) {
	if governs(o.c.kind) == "C38" {
		o.forceStates()
	}
}

func groupOf(absID string) string {
	if i := strings.LastIndexByte(absID, '['); i > 0 {
		return absID[:i]
	}
	return absID
}

func (k *c38) check(o *stepObs) {
	x, c := o.x, o.c
	if governs(c.kind) != "C38" || !o.ok() || o.postG == nil {
		return
	}
	name := opNames[c.kind]
	pre := x.pre(c.bd)
	if !pre.marked {
		x.label("unchecked:unmarked-state")
		return
	}
	if c.nonRoot && x.okEdits >= 1 {
		x.nt = true
	}
	pj := postBoard(o.postBs, c.bp)
	if pj < 0 {
		x.fail(o.step, "board-vanished:"+name, "%s: the addressed board no longer exists\n%s", c, o.ctx())
		return
	}
	post := stateOf(o.postBs[pj].g)
	d := diffStates(pre, post, nil)
	suffix := ""
	if c.tInherited {
		x.label(name + ":inherited-target")
	}
	if c.tForeign {
		x.label(name + ":imported-target")
	}
	if len(d.added) > 0 {
		x.fail(o.step, name+":new-element"+suffix, "%s: new elements %v; %s\n%s", c, ids(post, d.added), d, o.ctx())
		return
	}
	T := pre.els[c.elem]
	switch c.kind {
	case opDeleteObj:
		want := map[string]bool{T.m: true}
		for _, e := range pre.edges {
			if pre.els[e].src == T.m || pre.els[e].dst == T.m {
				want[e] = true
			}
		}
		kids := setOf(pre.children(T.m))
		if len(kids) > 0 {
			x.label("delete-obj:container")
		}
		rem := setOf(d.removed)
		for _, m := range sortedKeys(want) {
			if !rem[m] {
				what := "target"
				if m != T.m {
					what = "attached-connection"
				}
				x.fail(o.step, "delete-obj:"+what+"-survives"+suffix, "%s: %s (%s) still exists; %s\n%s", c, m, pre.els[m].absID, d, o.ctx())
				return
			}
		}
		for _, m := range d.removed {
			if want[m] {
				continue
			}
			what := "unrelated-object"
			e := pre.els[m]
			switch {
			case e.edge && (pre.under(e.src, T.m) || pre.under(e.dst, T.m)):
				what = "connection-of-descendant"
			case e.edge:
				what = "unrelated-connection"
			case kids[m]:
				what = "child"
			case pre.under(m, T.m):
				what = "descendant"
			}
			if o.postBs[pj].g.IsFolderOnly {
				// the board's block became empty, the formatter prints it as a bare key, which is a folder
				what = "rest-of-emptied-board"
			}
			x.fail(o.step, "delete-obj:"+what+"-lost"+suffix, "%s: %s (%s) is gone too; %s\n%s", c, m, e.absID, d, o.ctx())
			return
		}
		for _, m := range d.keys() {
		ch := d.changed[m]
			e := pre.els[m]
			var allowed func(string) bool
			switch {
			case kids[m]:
				if post.els[m].parent != T.parent {
					x.fail(o.step, "delete-obj:child-not-moved-to-parent"+suffix, "%s: child %s (%s) now lives under %q, deleted object's parent was %q\n%s", c, m, e.absID, post.els[m].parent, T.parent, o.ctx())
					return
				}
				collide := false
				for _, s := range pre.children(T.parent) {
					if s != T.m && strings.EqualFold(pre.els[s].id, e.id) {
						collide = true
					}
				}
				if collide {
					x.label("delete-obj:child-name-taken")
				}
				allowed = func(a string) bool { return a == "@absid" || a == "@parent" || (a == "@id" && collide) }
			case !e.edge && pre.under(m, T.m):
				allowed = func(a string) bool { return a == "@absid" }
			case e.edge && (pre.under(e.src, T.m) || pre.under(e.dst, T.m)):
				allowed = func(a string) bool { return a == "@absid" || a == "@index" }
			default:
				allowed = func(string) bool { return false }
			}
			if bad := only(ch, allowed); len(bad) > 0 {
				what := "other-element-changed"
				if m == T.parent && !strings.HasPrefix(bad[0], "@") {
					what = "attribute-moved-to-parent"
				} else if kids[m] && bad[0] == "@id" {
					what = "child-renamed-without-collision"
				} else if pre.under(m, T.m) || e.edge && (pre.under(e.src, T.m) || pre.under(e.dst, T.m)) {
					what = "descendant-changed:" + strings.TrimPrefix(cellClass(bad[0]), "@")
				}
				x.fail(o.step, "delete-obj:"+what+suffix, "%s: %s (%s) changed %v\n%s", c, m, e.absID, bad, o.ctx())
				return
			}
		}
		// every kept child is a child of the former parent
		for _, m := range sortedKeys(kids) {
			if pe, ok := post.els[m]; ok && pe.parent != T.parent {
				x.fail(o.step, "delete-obj:child-not-moved-to-parent"+suffix, "%s: child %s now lives under %q\n%s", c, m, pe.parent, o.ctx())
				return
			}
		}
	case opDeleteEdge:
		if len(d.removed) != 1 || d.removed[0] != T.m {
			sig := "delete-edge:removed-other"
			if len(d.removed) == 0 {
				sig = "delete-edge:target-survives"
			}
			x.fail(o.step, sig+suffix, "%s: removed %v, want exactly %s; %s\n%s", c, idsPre(pre, d.removed), T.m, d, o.ctx())
			return
		}
		for _, m := range d.keys() {
		ch := d.changed[m]
			e := pre.els[m]
			later := e.edge && groupOf(e.absID) == groupOf(T.absID) && e.index > T.index
			if later {
				x.label("delete-edge:renumbered-parallel")
				if post.els[m].index != e.index-1 {
					x.fail(o.step, "delete-edge:parallel-not-renumbered"+suffix, "%s: parallel connection %s (%s) has index %d afterwards\n%s", c, m, e.absID, post.els[m].index, o.ctx())
					return
				}
			}
			if bad := only(ch, func(a string) bool { return later && (a == "@index" || a == "@absid") }); len(bad) > 0 {
				x.fail(o.step, "delete-edge:other-element-changed"+suffix, "%s: %s (%s) changed %v\n%s", c, m, e.absID, bad, o.ctx())
				return
			}
		}
		for _, m := range pre.edges {
			e := pre.els[m]
			if m != T.m && groupOf(e.absID) == groupOf(T.absID) && e.index > T.index {
				if pe, ok := post.els[m]; ok && pe.index != e.index-1 {
					x.fail(o.step, "delete-edge:parallel-not-renumbered"+suffix, "%s: parallel connection %s (%s) has index %d afterwards\n%s", c, m, e.absID, pe.index, o.ctx())
					return
				}
			}
		}
	case opDeleteAttr:
		if len(d.removed) > 0 {
			x.fail(o.step, "delete-attr:element-lost"+suffix, "%s: lost %v\n%s", c, idsPre(pre, d.removed), o.ctx())
			return
		}
		_, had := T.cells[c.cell]
		if had {
			x.label("delete-attr:was-set")
			if v, still := post.els[T.m].cells[c.cell]; still && c.cell == "shape" && v == "text" {
				// a block-string label (|md ...|) makes the object a text shape by itself: there is no
				// shape attribute to remove and the shape stays
				x.label("gray:shape-implied-by-block-label")
			} else if still {
				x.fail(o.step, "delete-attr:not-reset:"+cellClass(c.cell)+suffix, "%s: %s is still %q\n%s", c, c.cell, v, o.ctx())
				return
			}
		}
		for _, m := range d.keys() {
		ch := d.changed[m]
			if bad := only(ch, func(a string) bool { return m == T.m && a == c.cell }); len(bad) > 0 {
				what := "other-element-changed"
				if m == T.m {
					what = cellClass(c.cell) + ":other-cell-of-target-changed:" + cellClass(bad[0])
				} else if bad[0] == c.cell && !T.edge && pre.under(m, T.m) {
					what = "same-attribute-of-descendant-reset"
				} else if bad[0] == c.cell && T.edge {
					what = "same-attribute-of-other-connection-reset"
				}
				x.fail(o.step, "delete-attr:"+what+suffix, "%s: %s (%s) changed %v\n%s", c, m, pre.els[m].absID, bad, o.ctx())
				return
			}
		}
	}
	k.otherBoards(o, name)
}

// otherBoards: boards that do not start from the addressed one are untouched (by markers / IDs).
func (k *c38) otherBoards(o *stepObs, name string) { unrelatedBoardsSame(o, name) }

func unrelatedBoardsSame(o *stepObs, name string) {
	x, c := o.x, o.c
	for i := range x.boards {
		if i == c.bd || inheritsFrom(x.boards, i, c.bd) {
			continue
		}
		j := postBoard(o.postBs, x.boards[i].path)
		if j < 0 {
			x.fail(o.step, "board-vanished:"+name, "%s: board %v no longer exists\n%s", c, x.boards[i].path, o.ctx())
			return
		}
		if becameFolder(x.boards[i], o.postBs[j]) {
			x.fail(o.step, emptyBoardSig, "%s: board %v had an empty block and is a folder now\n%s", c, x.boards[i].path, o.ctx())
			return
		}
		pi, pj := x.pre(i), stateOf(o.postBs[j].g)
		if di := diffStates(pi, pj, idAlias(pi, pj)); !di.empty() {
			x.fail(o.step, name+":unrelated-board-changed", "%s: board %v (%s) changed: %s\n%s", c, x.boards[i].path, relation(x.boards, i, c.bd), di, o.ctx())
			return
		}
	}
}

func TestC38(t *testing.T) { hx.Run(t, spec("C38")) }
