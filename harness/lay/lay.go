// Package lay runs the public compile -> layout -> export pipeline for the layout and
// rendering engines of the harness.
package lay

import (
	"context"
	"sync"

	"oss.terrastruct.com/d2/d2graph"
	"oss.terrastruct.com/d2/d2layouts/d2dagrelayout"
	"oss.terrastruct.com/d2/d2layouts/d2elklayout"
	"oss.terrastruct.com/d2/d2lib"
	"oss.terrastruct.com/d2/d2renderers/d2svg"
	"oss.terrastruct.com/d2/d2target"
	dlog "oss.terrastruct.com/d2/lib/log"
	"oss.terrastruct.com/d2/lib/textmeasure"
)

var (
	rulerOnce sync.Once
	ruler     *textmeasure.Ruler
)

// Ruler returns a shared text ruler (measuring is read-only after construction; a mutex
// guards it because Ruler caches internally).
func Ruler() *textmeasure.Ruler {
	rulerOnce.Do(func() {
		r, err := textmeasure.NewRuler()
		if err != nil {
			panic(err)
		}
		ruler = r
	})
	return ruler
}

func NewRuler() *textmeasure.Ruler {
	r, err := textmeasure.NewRuler()
	if err != nil {
		panic(err)
	}
	return r
}

func Ctx() context.Context { return dlog.WithDefault(context.Background()) }

func Resolver(engine string) func(string) (d2graph.LayoutGraph, error) {
	return func(string) (d2graph.LayoutGraph, error) {
		if engine == "elk" {
			return d2elklayout.DefaultLayout, nil
		}
		return d2dagrelayout.DefaultLayout, nil
	}
}

// Run compiles, lays out (dagre or elk) and exports text. ro may be nil.
func Run(text, engine string, ro *d2svg.RenderOpts) (*d2target.Diagram, *d2graph.Graph, error) {
	return RunWith(text, engine, ro, NewRuler())
}

func RunWith(text, engine string, ro *d2svg.RenderOpts, r *textmeasure.Ruler) (*d2target.Diagram, *d2graph.Graph, error) {
	eng := engine
	return d2lib.Compile(Ctx(), text, &d2lib.CompileOptions{Ruler: r, LayoutResolver: Resolver(engine), Layout: &eng}, ro)
}
