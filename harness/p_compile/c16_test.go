package p_compile

import (
	"errors"
	"fmt"
	"strings"
	"testing"
	"time"

	"oss.terrastruct.com/d2/d2graph"
	"oss.terrastruct.com/d2/d2parser"
	"oss.terrastruct.com/d2/d2target"
	"pgregory.net/rapid"

	"verif/harness/gen"
	"verif/harness/hx"
)

// C16: attribute validation matches the documented value domains.
//
// The domain table below is written from the property statement and the user-facing error
// texts ("a number between 0.0 and 1.0", "between 0 and 15", ...), not from the validation code.
// Every value is classified valid / invalid / gray (lexical variants the documentation is
// silent about: "+1", "1.0" for an integer, "1e0", leading zeros, surrounding blanks...).
type c16Case struct {
	Attr    string `json:"attr"`    // e.g. style.opacity, width, grid-rows, shape, theme-id
	Context string `json:"context"` // object | connection | arrowhead | config
	Value   string `json:"value"`   // raw value (written double-quoted unless Bare)
	Bare    bool   `json:"bare"`    // write unquoted
}

type verdict int

const (
	vValid verdict = iota
	vInvalid
	vGray
)

func isCanonInt(s string) (int64, bool) {
	if s == "" || len(s) > 18 {
		return 0, false
	}
	neg := false
	t := s
	if t[0] == '-' {
		neg = true
		t = t[1:]
	}
	if t == "" || (len(t) > 1 && t[0] == '0') {
		return 0, false
	}
	var n int64
	for _, r := range t {
		if r < '0' || r > '9' {
			return 0, false
		}
		n = n*10 + int64(r-'0')
	}
	if neg {
		if n == 0 {
			return 0, false // "-0" is a lexical variant
		}
		n = -n
	}
	return n, true
}

// looksNumericish: strings a lenient number parser might accept; gray unless canonical.
func looksNumericish(s string) bool {
	t := strings.TrimSpace(s)
	if t == "" {
		return false
	}
	for _, r := range t {
		if !(r >= '0' && r <= '9' || strings.ContainsRune("+-.eExX_abcdefABCDEFinfNaIty", r)) {
			return false
		}
	}
	return t[0] >= '0' && t[0] <= '9' || t[0] == '+' || t[0] == '-' || t[0] == '.' || strings.EqualFold(t, "nan") || strings.EqualFold(t, "inf") || strings.EqualFold(t, "infinity")
}

func intDomain(s string, lo, hi int64) verdict {
	if n, ok := isCanonInt(s); ok {
		if n >= lo && n <= hi {
			return vValid
		}
		return vInvalid
	}
	low := strings.ToLower(strings.TrimSpace(s))
	if low == "nan" || strings.Contains(low, "inf") {
		return vInvalid
	}
	if looksNumericish(s) {
		return vGray
	}
	return vInvalid
}

func floatDomain01(s string) verdict {
	switch s {
	case "0", "1", "0.0", "1.0", "0.5", "0.25", "0.99", "0.01", "0.3", "0.75":
		return vValid
	}
	low := strings.ToLower(strings.TrimSpace(s))
	if low == "nan" || strings.Contains(low, "inf") {
		return vInvalid // not "a number between 0.0 and 1.0"
	}
	if n, ok := isCanonInt(s); ok {
		if n == 0 || n == 1 {
			return vValid
		}
		return vInvalid
	}
	// canonical decimals d.ddd
	if len(s) >= 3 && len(s) < 12 && (s[0] == '0' || s[0] == '1' || s[0] == '-' || (s[0] >= '2' && s[0] <= '9')) {
		dot := strings.IndexByte(s, '.')
		if dot > 0 && dot < len(s)-1 && strings.Trim(s[dot+1:], "0123456789") == "" {
			if ip, ok := isCanonInt(s[:dot]); ok || s[:dot] == "-0" {
				if s[:dot] == "-0" {
					if strings.Trim(s[dot+1:], "0") == "" {
						return vGray
					}
					return vInvalid
				}
				if ip < 0 || ip > 1 {
					return vInvalid
				}
				if ip == 1 && strings.Trim(s[dot+1:], "0") != "" {
					return vInvalid
				}
				return vValid
			}
		}
	}
	if looksNumericish(s) {
		return vGray
	}
	return vInvalid
}

func boolDomain(s string) verdict {
	switch s {
	case "true", "false":
		return vValid
	}
	switch strings.ToLower(s) {
	case "true", "false", "t", "f", "1", "0":
		return vGray // spellings strconv.ParseBool-style parsers accept; documentation says "true or false"
	}
	return vInvalid
}

func enumDomain(s string, set []string) verdict {
	if s == "" {
		return vGray // "unset": the documentation does not say whether an empty value is an error
	}
	for _, x := range set {
		if s == x {
			return vValid
		}
	}
	for _, x := range set {
		if strings.EqualFold(s, x) {
			return vValid // keyword-valued attributes are case-insensitive per the statement
		}
	}
	if strings.TrimSpace(s) != s {
		for _, x := range set {
			if strings.EqualFold(strings.TrimSpace(s), x) {
				return vGray
			}
		}
	}
	return vInvalid
}

var namedColorsSample = []string{"red", "blue", "orange", "aliceblue", "rebeccapurple", "transparent", "PapayaWhip", "RED", "lightGoldenRodYellow"}

func colorDomain(s string) verdict {
	for _, c := range namedColorsSample {
		if strings.EqualFold(s, c) {
			return vValid
		}
	}
	if strings.HasPrefix(s, "#") {
		hex := s[1:]
		okHex := strings.Trim(strings.ToLower(hex), "0123456789abcdef") == "" && hex != ""
		switch {
		case okHex && (len(hex) == 3 || len(hex) == 6):
			return vValid
		case okHex && (len(hex) == 4 || len(hex) == 8):
			return vGray // with alpha: CSS allows it, the documentation shows #rgb / #rrggbb
		default:
			return vInvalid
		}
	}
	l := strings.ToLower(s)
	if strings.HasPrefix(l, "linear-gradient(") || strings.HasPrefix(l, "radial-gradient(") {
		switch s {
		case "linear-gradient(red, blue)", "linear-gradient(#000, #fff)", "radial-gradient(red, blue)", "linear-gradient(45deg, red, blue)", "linear-gradient(to right, red 0%, blue 100%)", "radial-gradient(circle, #fff 10%, #000)":
			return vValid
		}
		// a gradient is made of colour stops (`<colour> [<n>%]`), optionally after a direction
		// (linear: `to <side>`, `<n>deg`; radial: `circle`, `ellipse`): one whose stop colour is not
		// a colour is not a valid value, whatever the rest looks like
		if !strings.HasSuffix(s, ")") {
			return vGray
		}
		body := s[strings.IndexByte(s, '(')+1 : len(s)-1]
		if strings.ContainsAny(body, "()") {
			return vGray
		}
		parts := strings.Split(body, ",")
		first := strings.TrimSpace(parts[0])
		linear := strings.HasPrefix(l, "linear")
		if (linear && (strings.HasPrefix(first, "to ") || strings.HasSuffix(first, "deg"))) || (!linear && (first == "circle" || first == "ellipse")) {
			parts = parts[1:]
		}
		if len(parts) < 2 {
			return vGray
		}
		allValid := true
		for _, st := range parts {
			f := strings.Fields(st)
			if len(f) == 0 || len(f) > 2 {
				return vGray
			}
			switch colorDomain(f[0]) {
			case vInvalid:
				return vInvalid
			case vGray:
				allValid = false
			}
			if len(f) == 2 {
				if n, ok := isCanonInt(strings.TrimSuffix(f[1], "%")); !ok || !strings.HasSuffix(f[1], "%") || n < 0 || n > 100 {
					allValid = false
				}
			}
		}
		if allValid {
			return vValid
		}
		return vGray // the rest of the gradient grammar is not specified precisely
	}
	switch s {
	case "", "notacolor", "12345", "rgb(1,2,3)", "#", "red;", "re d", "<red>", "\"red\"":
		return vInvalid
	}
	return vGray
}

var fillPatterns = []string{"none", "dots", "lines", "grain", "paper"}
var textTransforms = []string{"none", "uppercase", "lowercase", "capitalize"}
var directions = []string{"up", "down", "left", "right"}
var fonts = []string{"default", "mono"}
var arrowheads = []string{"none", "arrow", "triangle", "diamond", "circle", "box", "cf-one", "cf-many", "cf-one-required", "cf-many-required", "cross"}
var lightThemeIDs = []string{"0", "1", "3", "4", "5", "6", "7", "8", "100", "101", "102", "103", "104", "105", "300", "301", "302", "303"}
var darkThemeIDs = []string{"200", "201"}

type attrSpec struct {
	attr     string
	contexts []string
	domain   func(string) verdict
	keyword  bool // keyword-valued: accepted value compared case-insensitively
	field    func(a *d2graph.Attributes) *string
}

func sv(p *d2graph.Scalar) *string {
	if p == nil {
		return nil
	}
	return &p.Value
}

var attrSpecs = []attrSpec{
	{"style.opacity", []string{"object", "connection"}, floatDomain01, false, func(a *d2graph.Attributes) *string { return sv(a.Style.Opacity) }},
	{"style.stroke-width", []string{"object", "connection"}, func(s string) verdict { return intDomain(s, 0, 15) }, false, func(a *d2graph.Attributes) *string { return sv(a.Style.StrokeWidth) }},
	{"style.stroke-dash", []string{"object", "connection"}, func(s string) verdict { return intDomain(s, 0, 10) }, false, func(a *d2graph.Attributes) *string { return sv(a.Style.StrokeDash) }},
	{"style.border-radius", []string{"object"}, func(s string) verdict { return intDomain(s, 0, 1<<40) }, false, func(a *d2graph.Attributes) *string { return sv(a.Style.BorderRadius) }},
	{"style.font-size", []string{"object", "connection"}, func(s string) verdict { return intDomain(s, 8, 100) }, false, func(a *d2graph.Attributes) *string { return sv(a.Style.FontSize) }},
	{"style.stroke", []string{"object", "connection"}, colorDomain, false, func(a *d2graph.Attributes) *string { return sv(a.Style.Stroke) }},
	{"style.fill", []string{"object"}, colorDomain, false, func(a *d2graph.Attributes) *string { return sv(a.Style.Fill) }},
	{"style.font-color", []string{"object", "connection"}, colorDomain, false, func(a *d2graph.Attributes) *string { return sv(a.Style.FontColor) }},
	{"style.fill-pattern", []string{"object"}, func(s string) verdict { return enumDomain(s, fillPatterns) }, true, func(a *d2graph.Attributes) *string { return sv(a.Style.FillPattern) }},
	{"style.text-transform", []string{"object"}, func(s string) verdict { return enumDomain(s, textTransforms) }, true, func(a *d2graph.Attributes) *string { return sv(a.Style.TextTransform) }},
	{"style.font", []string{"object", "connection"}, func(s string) verdict { return enumDomain(s, fonts) }, true, func(a *d2graph.Attributes) *string { return sv(a.Style.Font) }},
	{"style.bold", []string{"object", "connection"}, boolDomain, false, func(a *d2graph.Attributes) *string { return sv(a.Style.Bold) }},
	{"style.italic", []string{"object", "connection"}, boolDomain, false, func(a *d2graph.Attributes) *string { return sv(a.Style.Italic) }},
	{"style.underline", []string{"object"}, boolDomain, false, func(a *d2graph.Attributes) *string { return sv(a.Style.Underline) }},
	{"style.shadow", []string{"object"}, boolDomain, false, func(a *d2graph.Attributes) *string { return sv(a.Style.Shadow) }},
	{"style.multiple", []string{"object"}, boolDomain, false, func(a *d2graph.Attributes) *string { return sv(a.Style.Multiple) }},
	{"style.3d", []string{"object"}, boolDomain, false, func(a *d2graph.Attributes) *string { return sv(a.Style.ThreeDee) }},
	{"style.double-border", []string{"object"}, boolDomain, false, func(a *d2graph.Attributes) *string { return sv(a.Style.DoubleBorder) }},
	{"style.animated", []string{"connection"}, boolDomain, false, func(a *d2graph.Attributes) *string { return sv(a.Style.Animated) }},
	{"style.filled", []string{"arrowhead"}, boolDomain, false, func(a *d2graph.Attributes) *string { return sv(a.Style.Filled) }},
	{"width", []string{"object"}, func(s string) verdict { return intDomain(s, 0, 1<<40) }, false, func(a *d2graph.Attributes) *string { return sv(a.WidthAttr) }},
	{"height", []string{"object"}, func(s string) verdict { return intDomain(s, 0, 1<<40) }, false, func(a *d2graph.Attributes) *string { return sv(a.HeightAttr) }},
	{"top", []string{"object"}, func(s string) verdict { return intDomain(s, 0, 1<<40) }, false, func(a *d2graph.Attributes) *string { return sv(a.Top) }},
	{"left", []string{"object"}, func(s string) verdict { return intDomain(s, 0, 1<<40) }, false, func(a *d2graph.Attributes) *string { return sv(a.Left) }},
	{"grid-rows", []string{"object"}, func(s string) verdict { return intDomain(s, 1, 1<<40) }, false, func(a *d2graph.Attributes) *string { return sv(a.GridRows) }},
	{"grid-columns", []string{"object"}, func(s string) verdict { return intDomain(s, 1, 1<<40) }, false, func(a *d2graph.Attributes) *string { return sv(a.GridColumns) }},
	{"grid-gap", []string{"object"}, func(s string) verdict { return intDomain(s, 0, 1<<40) }, false, func(a *d2graph.Attributes) *string { return sv(a.GridGap) }},
	{"vertical-gap", []string{"object"}, func(s string) verdict { return intDomain(s, 0, 1<<40) }, false, func(a *d2graph.Attributes) *string { return sv(a.VerticalGap) }},
	{"horizontal-gap", []string{"object"}, func(s string) verdict { return intDomain(s, 0, 1<<40) }, false, func(a *d2graph.Attributes) *string { return sv(a.HorizontalGap) }},
	{"shape", []string{"object"}, func(s string) verdict {
		if strings.EqualFold(s, "image") {
			return vGray // needs an icon
		}
		return enumDomain(s, d2targetShapes)
	}, true, func(a *d2graph.Attributes) *string { return &a.Shape.Value }},
	{"shape", []string{"arrowhead"}, func(s string) verdict {
		if v := enumDomain(s, arrowheads); v != vInvalid {
			return v
		}
		if enumDomain(s, d2targetShapes) == vValid || strings.EqualFold(s, "image") {
			return vGray // object shapes on an arrowhead: the statement only speaks of "known shapes"
		}
		return vInvalid
	}, true, func(a *d2graph.Attributes) *string { return &a.Shape.Value }},
	{"direction", []string{"object"}, func(s string) verdict { return enumDomain(s, directions) }, true, func(a *d2graph.Attributes) *string { return &a.Direction.Value }},
	{"theme-id", []string{"config"}, func(s string) verdict {
		return enumDomainExact(s, append(append([]string{}, lightThemeIDs...), darkThemeIDs...))
	}, false, nil},
	{"dark-theme-id", []string{"config"}, func(s string) verdict {
		return enumDomainExact(s, append(append([]string{}, lightThemeIDs...), darkThemeIDs...))
	}, false, nil},
}

func enumDomainExact(s string, set []string) verdict {
	for _, x := range set {
		if s == x {
			return vValid
		}
	}
	if _, ok := isCanonInt(s); ok {
		return vInvalid
	}
	if looksNumericish(s) {
		return vGray
	}
	return vInvalid
}

var d2targetShapes = []string{"rectangle", "square", "page", "parallelogram", "document", "cylinder", "queue", "package", "step", "callout", "stored_data", "person", "c4-person", "diamond", "oval", "circle", "hexagon", "cloud", "text", "code", "class", "sql_table", "sequence_diagram", "hierarchy"}

func specFor(attr, ctx string) *attrSpec {
	for i := range attrSpecs {
		if attrSpecs[i].attr == attr {
			for _, c := range attrSpecs[i].contexts {
				if c == ctx {
					return &attrSpecs[i]
				}
			}
		}
	}
	return nil
}

func (c c16Case) program() (text string, valueLine int) {
	v := c.Value
	if !c.Bare {
		v = gen.QuoteValue(c.Value)
	}
	switch c.Context {
	case "object":
		pre := ""
		switch c.Attr {
		case "style.3d", "style.double-border":
			pre = ""
		case "top", "left":
			pre = ""
		}
		return pre + "x: {\n  y\n}\nx." + c.Attr + ": " + v + "\n", 3
	case "connection":
		return "a -> b\n(a -> b)[0]." + c.Attr + ": " + v + "\n", 1
	case "arrowhead":
		return "a -> b\n(a -> b)[0].target-arrowhead." + c.Attr + ": " + v + "\n", 1
	default:
		return "x\nvars: {\n  d2-config: {\n    " + c.Attr + ": " + v + "\n  }\n}\n", 3
	}
}

func checkC16(h *hx.H, c c16Case) {
	spec := specFor(c.Attr, c.Context)
	if spec == nil {
		h.Reject("no-spec")
	}
	if strings.ContainsAny(c.Value, "\x00") {
		h.Reject("nul")
	}
	if c.Bare {
		// a bare value must be a single unquoted scalar that parses back to itself
		v, err := d2parser.ParseValue(c.Value)
		if err != nil {
			h.Reject("bare-not-a-value")
		}
		sc, ok := v.(interface{ ScalarString() string })
		if !ok || sc.ScalarString() != c.Value {
			h.Reject("bare-not-scalar")
		}
		switch strings.ToLower(c.Value) {
		case "null", "suspend", "unsuspend":
			h.Reject("bare-keyword")
		}
	}
	want := spec.domain(c.Value)
	h.Label("attr:"+c.Attr, "ctx:"+c.Context, [...]string{"class:valid", "class:invalid", "class:gray"}[want])
	text, line := c.program()
	g, cfg, err := compileCase(single(text, "c16"))
	if want == vGray {
		h.Gray()
		h.NonTrivial(true)
		return
	}
	if want == vValid {
		if err != nil {
			h.Failf("valid-rejected:"+c.Attr, "%s=%q in %s context lies in the documented domain but is rejected: %v", c.Attr, c.Value, c.Context, err)
		}
		// the accepted value reaches the compiled diagram unchanged (letter case for keyword-valued ones)
		var got *string
		switch c.Context {
		case "object":
			for _, o := range g.Objects {
				if o.ID == "x" {
					got = spec.field(&o.Attributes)
				}
			}
		case "connection":
			if len(g.Edges) == 1 {
				got = spec.field(&g.Edges[0].Attributes)
			}
		case "arrowhead":
			if len(g.Edges) == 1 && g.Edges[0].DstArrowhead != nil {
				got = spec.field(g.Edges[0].DstArrowhead)
			}
		case "config":
			if cfg == nil {
				h.Failf("config-missing", "%s=%q accepted but no configuration was produced", c.Attr, c.Value)
			}
			var id *int64
			if c.Attr == "theme-id" {
				id = cfg.ThemeID
			} else {
				id = cfg.DarkThemeID
			}
			if id != nil {
				s := fmt.Sprint(*id)
				got = &s
			}
		}
		if got == nil {
			h.Failf("valid-dropped:"+c.Attr, "%s=%q in %s context was accepted but did not reach the compiled diagram\n%s", c.Attr, c.Value, c.Context, text)
		}
		if *got != c.Value && !(spec.keyword && strings.EqualFold(*got, c.Value)) {
			h.Failf("valid-altered:"+c.Attr, "%s=%q in %s context reached the compiled diagram as %q", c.Attr, c.Value, c.Context, *got)
		}
	} else {
		if err == nil {
			h.Failf("invalid-accepted:"+c.Attr, "%s=%q in %s context lies outside the documented domain but compiles\n%s", c.Attr, c.Value, c.Context, text)
		}
		var pe *d2parser.ParseError
		if !errors.As(err, &pe) || len(pe.Errors) == 0 {
			h.Failf("err-type", "unexpected error type %T", err)
		}
		onLine := false
		for _, e := range pe.Errors {
			if e.Range.Start.Line == line {
				onLine = true
			}
		}
		if !onLine {
			h.Failf("error-not-at-value:"+c.Attr, "%s=%q rejected, but no error is positioned on the line of the value (line %d): %v", c.Attr, c.Value, line+1, err)
		}
	}
	_ = d2target.ShapeRectangle
	h.NonTrivial(true)
}

var numericProbes = []string{"-1", "0", "1", "2", "7", "8", "9", "10", "11", "15", "16", "99", "100", "101", "1000", "-0", "+1", "1.0", "0.5", "1.5", "01", "1e0", "1e2", "0x1", "0x10", " 1", "1 ", "NaN", "nan", "Inf", "-Inf", "infinity", "", "abc", "1a", "١", "１", "9223372036854775808", "999999999999", "-999", "0.0", "1.00", "0.99", "1.01", "-0.5", "2.5", ".5", "5.", "1_000", "true", "red"}
var boolProbes = []string{"true", "false", "TRUE", "False", "t", "f", "1", "0", "yes", "no", "on", "", "2", "truee", "null"}
var colorProbes = []string{"red", "RED", "Red", "blue", "rebeccapurple", "transparent", "PapayaWhip", "#fff", "#FFF", "#ffffff", "#f0ff3a", "#ffff", "#fffff", "#fffffff", "#ffffffff", "#ggg", "#", "fff", "notacolor", "", "12345", "rgb(1,2,3)", "linear-gradient(red, blue)", "linear-gradient(#000, #fff)", "radial-gradient(red, blue)", "linear-gradient(45deg, red, blue)", "linear-gradient(red)", "linear-gradient()", "linear-gradient(red, blue", "linear-gradient(to right, red 0%, blue 100%)", "radial-gradient(circle, #fff 10%, #000)", "conic-gradient(red, blue)", "re d", "red;", "<red>"}

// gradientProbes: both gradient kinds, with and without a direction, two or three stops, with
// a stop that is not a colour in every position (and in none).
var gradientProbes = func() []string {
	var out []string
	bad := []string{"notacolor", "#ggg", "#12345"}
	for _, kind := range []string{"linear", "radial"} {
		dirs := []string{"", "to right, ", "45deg, ", "to bottom left, "}
		if kind == "radial" {
			dirs = []string{"", "circle, ", "ellipse, "}
		}
		for di, d := range dirs {
			out = append(out, kind+"-gradient("+d+"red, blue)", kind+"-gradient("+d+"#fff 10%, #000 90%, orange)")
			for pos := 0; pos < 3; pos++ {
				stops := []string{"red", "#00f 50%", "orange"}
				stops[pos] = bad[(pos+di)%len(bad)]
				out = append(out, kind+"-gradient("+d+strings.Join(stops, ", ")+")")
				if pos < 2 {
					out = append(out, kind+"-gradient("+d+strings.Join([]string{stops[0], stops[1]}, ", ")+")")
				}
			}
		}
	}
	return out
}()

func probesFor(spec *attrSpec) []string {
	var out []string
	switch {
	case strings.Contains(spec.attr, "color") || spec.attr == "style.fill" || spec.attr == "style.stroke":
		out = append(out, colorProbes...)
		out = append(out, gradientProbes...)
	case spec.attr == "style.fill-pattern":
		out = append(out, fillPatterns...)
		out = append(out, "DOTS", "Lines", "stripes", "", "dot", "none ")
	case spec.attr == "style.text-transform":
		out = append(out, textTransforms...)
		out = append(out, "UPPERCASE", "Capitalize", "title", "", "upper")
	case spec.attr == "style.font":
		out = append(out, fonts...)
		out = append(out, "MONO", "Default", "serif", "", "arial")
	case spec.attr == "shape":
		if spec.contexts[0] == "arrowhead" {
			out = append(out, arrowheads...)
			out = append(out, "TRIANGLE", "Diamond", "rectangle", "", "arrow2", "cf-one ")
		} else {
			out = append(out, d2targetShapes...)
			out = append(out, "CIRCLE", "Sql_Table", "rect", "", "triangle", "circle ", "image")
		}
	case spec.attr == "direction":
		out = append(out, directions...)
		out = append(out, "UP", "Down", "north", "", "upward")
	case strings.HasSuffix(spec.attr, "theme-id"):
		out = append(out, lightThemeIDs...)
		out = append(out, darkThemeIDs...)
		out = append(out, "2", "9", "99", "199", "202", "304", "-1", "1000", "abc", "", "1.0", "+1", "01")
	default:
		if spec.domain("true") == vValid {
			out = append(out, boolProbes...)
		} else {
			out = append(out, numericProbes...)
		}
	}
	return out
}

func coreC16() []c16Case {
	var out []c16Case
	for i := range attrSpecs {
		spec := &attrSpecs[i]
		for _, ctx := range spec.contexts {
			for _, v := range probesFor(spec) {
				out = append(out, c16Case{Attr: spec.attr, Context: ctx, Value: v})
				out = append(out, c16Case{Attr: spec.attr, Context: ctx, Value: v, Bare: true})
			}
		}
	}
	return out
}

func genC16(t *rapid.T) c16Case {
	spec := &attrSpecs[rapid.IntRange(0, len(attrSpecs)-1).Draw(t, "spec")]
	c := c16Case{Attr: spec.attr, Context: rapid.SampledFrom(spec.contexts).Draw(t, "ctx"), Bare: rapid.Bool().Draw(t, "bare")}
	switch gen.Pick(t, "vk", 4, 3, 2, 1) {
	case 0:
		c.Value = rapid.SampledFrom(probesFor(spec)).Draw(t, "probe")
	case 1:
		c.Value = fmt.Sprint(rapid.IntRange(-20, 120).Draw(t, "int"))
	case 2:
		c.Value = fmt.Sprintf("%d.%d", rapid.IntRange(-2, 3).Draw(t, "ip"), rapid.IntRange(0, 999).Draw(t, "fp"))
	default:
		c.Value = strings.ToValidUTF8(gen.RuneString(t, 6, "rs"), "?")
	}
	return c
}

func TestC16(t *testing.T) {
	hx.Run(t, hx.Spec[c16Case]{Prop: "C16", Core: coreC16, Gen: genC16, Check: checkC16, Timeout: 30 * time.Second})
}
