package p_compile

import (
	"crypto/sha256"
	"fmt"
	"sync"
	"testing"
	"time"

	"pgregory.net/rapid"

	"verif/harness/canon"
	"verif/harness/gen"
	"verif/harness/hx"
	"verif/harness/seeds"
)

// C08: compilation is deterministic (sequentially and concurrently in one process).
type c08Case struct {
	Prog   progCase `json:"prog"`
	Others []int    `json:"others"` // indices into the fixed pool compiled concurrently
	N      int      `json:"n"`      // goroutines
}

// outcome is the ordered canonical form of a compile result: graph, config and errors.
func outcome(c progCase) string {
	g, cfg, err := compileCase(c)
	if err != nil {
		return "ERR " + canon.Errors(err)
	}
	return "OK " + canon.Of(g).JSON() + " CFG " + fmt.Sprintf("%+v", jsonOf(cfg))
}

func digest(s string) string {
	h := sha256.Sum256([]byte(s))
	return fmt.Sprintf("%x", h[:8])
}

var (
	poolOnce sync.Once
	pool     []progCase
	poolWant []string
)

func c08Pool() {
	poolOnce.Do(func() {
		for i, b := range seeds.Files() {
			if i%3 == 0 && len(b) < 6000 {
				c := progCase{Files: map[string][]byte{"index.d2": b}, Kind: "pool"}
				if hangProne(c) {
					continue
				}
				pool = append(pool, c)
			}
		}
		for _, c := range pool {
			poolWant = append(poolWant, outcome(c))
		}
	})
}

func firstDiff(a, b string) string {
	n := len(a)
	if len(b) < n {
		n = len(b)
	}
	i := 0
	for i < n && a[i] == b[i] {
		i++
	}
	lo := i - 80
	if lo < 0 {
		lo = 0
	}
	hiA, hiB := i+120, i+120
	if hiA > len(a) {
		hiA = len(a)
	}
	if hiB > len(b) {
		hiB = len(b)
	}
	return fmt.Sprintf("at byte %d:\n  A: …%s\n  B: …%s", i, a[lo:hiA], b[lo:hiB])
}

func checkC08(h *hx.H, c c08Case) {
	c08Pool()
	if hangProne(c.Prog) {
		h.Reject("diverging-construct")
	}
	h.Label("kind:" + c.Prog.Kind)
	all := ""
	for _, n := range c.Prog.names() {
		all += string(c.Prog.Files[n]) + "\n"
	}
	h.Label(textLabels(all)...)
	want := outcome(c.Prog)
	for i := 0; i < 2; i++ {
		if got := outcome(c.Prog); got != want {
			h.Failf("sequential-differs", "compiling the same input again gives a different result, %s", firstDiff(want, got))
		}
	}
	n := c.N
	if n < 2 {
		n = 2
	}
	results := make([]string, n)
	otherRes := make([]string, len(c.Others))
	var wg sync.WaitGroup
	for i := 0; i < n; i++ {
		wg.Add(1)
		go func(i int) {
			defer wg.Done()
			defer func() {
				if r := recover(); r != nil {
					results[i] = fmt.Sprintf("PANIC %v", r)
				}
			}()
			results[i] = outcome(c.Prog)
		}(i)
	}
	for j, idx := range c.Others {
		wg.Add(1)
		go func(j, idx int) {
			defer wg.Done()
			defer func() {
				if r := recover(); r != nil {
					otherRes[j] = fmt.Sprintf("PANIC %v", r)
				}
			}()
			otherRes[j] = outcome(pool[idx%len(pool)])
		}(j, idx)
	}
	wg.Wait()
	for i, got := range results {
		if got != want {
			h.Failf("concurrent-differs", "goroutine %d of %d compiling the same input concurrently got a different result, %s", i, n, firstDiff(want, got))
		}
	}
	for j, idx := range c.Others {
		if otherRes[j] != poolWant[idx%len(pool)] {
			h.Failf("concurrent-differs-other", "pool program %d compiled concurrently differs from its sequential result, %s", idx%len(pool), firstDiff(poolWant[idx%len(pool)], otherRes[j]))
		}
	}
	if want[:2] == "OK" {
		h.Label("compiled")
	} else {
		h.Label("compile_error")
	}
	rich := 0
	for _, l := range textLabels(all) {
		switch l {
		case "has_glob", "has_class", "has_import", "has_vars", "has_board":
			rich++
		}
	}
	h.NonTrivial(countStatements(c.Prog.entry()) >= 4 && rich >= 1)
}

func coreC08() []c08Case {
	var out []c08Case
	for i, p := range coreC07() {
		out = append(out, c08Case{Prog: p, Others: []int{i, i + 1, i + 2}, N: 4})
	}
	return out
}

func genC08(t *rapid.T) c08Case {
	c := c08Case{N: rapid.IntRange(2, hx.Pick(8, 32)).Draw(t, "n")}
	if gen.Pick(t, "soup", 2, 1) == 1 {
		c.Prog = genSoup(t)
	} else {
		c.Prog = genFileSet(t, gen.Pick(t, "mut", 3, 1) == 1)
	}
	k := rapid.IntRange(0, 6).Draw(t, "nothers")
	for i := 0; i < k; i++ {
		c.Others = append(c.Others, rapid.IntRange(0, 1000).Draw(t, "other"))
	}
	return c
}

func TestC08(t *testing.T) {
	hx.Run(t, hx.Spec[c08Case]{Prop: "C08", ClassifyPanic: func(sig string, c c08Case) string { return classifyCompilePanic(sig, c.Prog) }, Core: coreC08, Gen: genC08, Check: checkC08, Timeout: 60 * time.Second})
}
