package p_compile

import (
	"bytes"
	"encoding/json"
	"sort"
	"strings"

	"oss.terrastruct.com/d2/d2ast"
	"oss.terrastruct.com/d2/d2compiler"
	"oss.terrastruct.com/d2/d2graph"
	"oss.terrastruct.com/d2/d2parser"
	"oss.terrastruct.com/d2/d2target"
	"oss.terrastruct.com/d2/lib/memfs"
	"pgregory.net/rapid"

	"verif/harness/gen"
)

// progCase is a file set compiled from index.d2.
type progCase struct {
	Files map[string][]byte `json:"files"`
	UTF16 bool              `json:"utf16"`
	Kind  string            `json:"kind"`
}

func single(s string, kind string) progCase {
	return progCase{Files: map[string][]byte{"index.d2": []byte(s)}, Kind: kind}
}

func (c progCase) entry() []byte { return c.Files["index.d2"] }

func (c progCase) names() []string {
	var out []string
	for k := range c.Files {
		out = append(out, k)
	}
	sort.Strings(out)
	return out
}

func compileCase(c progCase) (*d2graph.Graph, *d2target.Config, error) {
	m := map[string]string{}
	for k, v := range c.Files {
		m[k] = string(v)
	}
	fs, _ := memfs.New(m)
	return d2compiler.Compile("index.d2", bytes.NewReader(c.entry()), &d2compiler.CompileOptions{UTF16Pos: c.UTF16, FS: fs})
}

// importNames are the spellings the text generator may use for imports in a 3-file set.
var importNames = []string{"x", "x.d2", "y", "sub/z", "\"y\"", "./x", "index", "x.a", "y.b.c", "../index", "sub/../x", "nope"}

// genFileSet draws 1-4 files of grammar text; imported files may import each other (cycles possible).
func genFileSet(t *rapid.T, mutate bool) progCase {
	o := gen.DefaultTextOpts()
	c := progCase{Files: map[string][]byte{}, UTF16: gen.Pick(t, "utf16", 4, 1) == 1}
	nfiles := gen.Pick(t, "nfiles", 5, 2, 2, 1) + 1
	if nfiles > 1 {
		o.Imports = true
		o.ImportNames = importNames
		c.Kind = "fileset"
	} else {
		c.Kind = "single"
	}
	names := []string{"index.d2", "x.d2", "y.d2", "sub/z.d2"}[:nfiles]
	for _, n := range names {
		s := gen.Text(t, o)
		if mutate && gen.Pick(t, "mut", 2, 1) == 1 {
			s = gen.Mutate(t, s, 3)
			c.Kind += "-mutated"
		}
		c.Files[n] = []byte(s)
	}
	return c
}

// soupLines are small statements that each use one language feature on the same handful of
// names (a, b, x, y, c1, c2, v, w, q): drawn together they make the features meet each other -
// variables spread into maps that then null a field, imports inside arrays, classes on
// connections that use themselves, filters over maps holding a spread import, ...
var soupLines = []string{
	"a", "b", "a -> b", "a -> b: {class: c1}", "x -> y: {class: [c1; c2]}", "a.class: c1", "a.class: [c1; c2]", "b.class: c2",
	"classes: {c1: {class: c1}}", "classes: {c1: {class: c2}; c2: {class: c1}}", "classes: {c1: {style.fill: red}; c2: {shape: circle}}", "classes: {c1: {style.stroke: blue; target-arrowhead.shape: diamond}}",
	"classes: {c1: ${v}}", "classes: {...${v}}", "classes.c1.label: ${a}",
	"vars: {v: {q}}", "vars: {a: 1}", "vars: {v: {q: {r: 1}}; w: ${v}}", "vars: {v: [1; 2]}", "vars: {a: null}", "vars: {v: {q: ${a}}}", "vars: {a: ${a}}", "vars: {w: {...${v}}}",
	"x: ${a.b}", "x: ${v.q.r}", "x: ${v.q}", "x: ${v}", "x: {...${v}}", "x: {...${v}; style.fill: red; style.fill: null}", "x: {...${w}; q: null}", "x: {...${a}}", "...${v}", "...${w}",
	"x.label: \"pre ${a} post\"", "x: |md ${a} and ${v.q} |", "x: 'single ${a}'", "x: ${a} ${v}", "x.style.fill: ${a}", "x.width: ${a}",
	"y: [@x.a]", "y: [...@x]", "y: [@x]", "y: [${a}; ...${v}]", "y: [...${a}]", "y.class: [...${v}]",
	"a: {...@x}", "...@x", "k: @x", "k: @x.a", "k: @x.a.b", "k: {...@y; z}", "...@y", "layers: {l: {...@x}}", "layers: {l: @x}", "scenarios: {s: {...@x; a.class: c1}}", "steps: {1: {a}; 2: {...@y}}",
	"* -> b", "a -> *", "* -> *", "*.class: c1", "*: {&leaf: true; style.fill: red}", "*: {&connected: true; shape: circle}", "*: {&shape: circle; style.opacity: 0.4}", "*: {!&label: a; style.fill: blue}",
	"(* -> *)[*]: {&src.shape: circle; style.stroke: red}", "(* -> *)[*]: {&dst.class: c1; class: c2}", "(a -> *)[*].class: c1", "*.style.fill: ${a}", "*: {...${v}}", "*: @x",
	"a: null", "a.style.fill: null", "x.style: null", "style.fill: null", "(a -> b)[0]: null", "a.class: null", "classes: null", "vars: null", "classes.c1: null", "vars.v: null", "k: null",
	"a.b.c", "_.z", "a: {_.z -> b}", "a: {b -> _.b}", "label: ${a}", "a: {vars: {a: 2}; b: ${a}}", "a: {classes: {c1: {style.fill: green}}; b.class: c1}", "a.style: {...${v}}", "a: {shape: sql_table; ...${v}}",
	"vars: {a: '${b}'; b: hello}", "vars: {a: '${b}'; b: '${a}'}", "vars: {q: '${v}'; a: \"${q}\"}", "x: |md ${a} |", "x: |md ${b} ${a} ${q} |", "x.tooltip: |md ${a} |",
	"x.class: [c1; c2; c1]", "a -> b: {class: [c2; c1; c2]}", "classes: {c1: {shape: hexagon; style.fill: red}; c2: {shape: circle; style.fill: blue}}",
	"a: {shape: class; ...@x}", "near: ${a}", "a.near: ${a}", "a.link: ${a}", "a.icon: ${a}", "direction: ${a}", "vars: {d2-config: {sketch: true}}", "vars: {d2-config: ${v}}", "vars: {d2-legend: {...${v}}}",
}

// genSoup draws a small file set whose files are made of soupLines.
func genSoup(t *rapid.T) progCase {
	c := progCase{Files: map[string][]byte{}, Kind: "soup"}
	file := func(label string, lo, hi int) []byte {
		n := rapid.IntRange(lo, hi).Draw(t, label)
		var sb strings.Builder
		for i := 0; i < n; i++ {
			sb.WriteString(rapid.SampledFrom(soupLines).Draw(t, label+"l"))
			sb.WriteByte('\n')
		}
		return []byte(sb.String())
	}
	c.Files["index.d2"] = file("idx", 2, 9)
	if rapid.IntRange(0, 3).Draw(t, "hasx") > 0 {
		c.Files["x.d2"] = file("x", 0, 6)
	}
	if rapid.IntRange(0, 2).Draw(t, "hasy") == 0 {
		c.Files["y.d2"] = file("y", 0, 4)
	}
	return c
}

func countStatements(s []byte) int {
	return bytes.Count(s, []byte("\n")) + bytes.Count(s, []byte(";")) + 1
}

func textLabels(s string) []string {
	var l []string
	add := func(cond bool, name string) {
		if cond {
			l = append(l, name)
		}
	}
	add(strings.Contains(s, "*"), "has_glob")
	add(strings.Contains(s, "&"), "has_filter")
	add(strings.Contains(s, "${"), "has_subst")
	add(strings.Contains(s, "@"), "has_import")
	add(strings.Contains(s, "layers") || strings.Contains(s, "scenarios") || strings.Contains(s, "steps"), "has_board")
	add(strings.Contains(s, "classes") || strings.Contains(s, "class:"), "has_class")
	add(strings.Contains(s, "vars"), "has_vars")
	add(strings.Contains(s, "null"), "has_null")
	add(strings.Contains(s, "->") || strings.Contains(s, "<-") || strings.Contains(s, "--"), "has_edge")
	add(strings.Contains(s, ")["), "has_edge_index")
	add(strings.Contains(s, "d2-config"), "has_config")
	return l
}

// hangProne recognises the one construct known to make compilation diverge (KNOWN_FINDINGS
// C07 hang:recursive-globs-creating-objects): a recursive glob (** or ***) whose body declares
// objects or connections, so that applying it creates new matches for itself or for another
// such glob (a single simple one terminates thanks to a loop breaker, combinations do not). Such inputs are
// excluded by construction (and counted); the committed reproducer is run by the driver in an
// isolated process under a timeout.
func hangProne(c progCase) bool {
	n := 0
	hasImport := false
	recursive := func(kp *d2ast.KeyPath) (isRec bool, createsAfter bool) {
		if kp == nil {
			return false, false
		}
		for i, sb := range kp.Path {
			if u := sb.UnquotedString; u != nil && u.Pattern != nil && strings.Contains(u.ScalarString(), "**") {
				isRec = true
				if i+1 < len(kp.Path) {
					next := strings.ToLower(kp.Path[i+1].Unbox().ScalarString())
					if _, reserved := d2ast.ReservedKeywords[next]; !reserved {
						createsAfter = true // `**.d` declares d inside every match
					}
				}
			}
		}
		return
	}
	recEdge := 0
	for _, src := range c.Files {
		m, _ := d2parser.Parse("f.d2", bytes.NewReader(src), nil)
		if m == nil {
			continue
		}
		d2ast.Walk(m, func(nd d2ast.Node) bool {
			if _, ok := nd.(*d2ast.Import); ok {
				hasImport = true
			}
			k, ok := nd.(*d2ast.Key)
			if !ok || k == nil {
				return true
			}
			for _, e := range k.Edges {
				if e == nil {
					continue
				}
				if r, _ := recursive(e.Src); r {
					recEdge++
				}
				if r, _ := recursive(e.Dst); r {
					recEdge++
				}
			}
			rec, creates := recursive(k.Key)
			if creates {
				n++
			}
			if rec && k.Value.Import != nil {
				n++ // `***: @x` brings a whole file into every match
			}
			if !rec || k.Value.Map == nil {
				return true
			}
			for _, nb := range k.Value.Map.Nodes {
				mk := nb.MapKey
				if mk == nil || mk.Ampersand || mk.NotAmpersand {
					continue
				}
				if len(mk.Edges) > 0 {
					n++
					return true
				}
				if mk.Key != nil && len(mk.Key.Path) > 0 {
					first := strings.ToLower(mk.Key.Path[0].Unbox().ScalarString())
					if _, reserved := d2ast.ReservedKeywords[first]; !reserved {
						n++
						return true
					}
				}
			}
			return true
		})
	}
	return n >= 1 || (recEdge > 0 && hasImport)
}

func jsonOf(v any) string {
	b, err := json.Marshal(v)
	if err != nil {
		return "marshal error: " + err.Error()
	}
	return string(b)
}

// hasQuotedKeywordName reports whether some key segment is a quoted reserved keyword, i.e. an
// ordinary object that happens to be called "style", "shape", "label", ...
func hasQuotedKeywordName(c progCase) bool {
	found := false
	for _, src := range c.Files {
		m, _ := d2parser.Parse("f.d2", bytes.NewReader(src), nil)
		if m == nil {
			continue
		}
		d2ast.Walk(m, func(nd d2ast.Node) bool {
			kp, ok := nd.(*d2ast.KeyPath)
			if !ok || kp == nil {
				return true
			}
			for _, sb := range kp.Path {
				if sb.UnquotedString != nil || sb.Unbox() == nil {
					continue
				}
				if _, ok := d2ast.ReservedKeywords[strings.ToLower(sb.Unbox().ScalarString())]; ok {
					found = true
				}
			}
			return true
		})
	}
	return found
}

// classifyCompilePanic narrows panic signatures by the construct that is known to trigger them.
func classifyCompilePanic(sig string, c progCase) string {
	if strings.HasPrefix(sig, "panic:") && hasQuotedKeywordName(c) {
		return "panic@quoted-keyword-name"
	}
	return sig
}
