package p_compile

import (
	"bytes"
	"testing"
	"time"

	"verif/harness/hx"
	"verif/harness/seeds"
)

// Coverage-guided stage of the thorough tier for C07 (compilation is total). The input is
// split at 0x00 bytes into index.d2, x.d2, y.d2, sub/z.d2.
func FuzzC07(f *testing.F) {
	var sd [][]byte
	for _, b := range seeds.All() {
		if len(b) < 3000 && !bytes.Contains(b, []byte{0}) {
			sd = append(sd, b)
		}
	}
	sd = append(sd, []byte("x: @x\n...@y\nz -> a\x00a -> b: hi\x00a; q\x00k"), []byte("vars: {x: {a: 1}}\nb: ${x}\nc: {...${x}}"), []byte("*.c: {...@x}\nb\x00layers: {l: {w}}"))
	names := []string{"index.d2", "x.d2", "y.d2", "sub/z.d2"}
	hx.Fuzz(f, hx.Spec[progCase]{Prop: "C07", ClassifyPanic: func(sig string, c progCase) string { return classifyCompilePanic(sig, c) }, Check: checkC07, Timeout: 20 * time.Second}, sd, func(b []byte) (progCase, bool) {
		parts := bytes.SplitN(b, []byte{0}, len(names))
		c := progCase{Files: map[string][]byte{}, Kind: "fuzz"}
		for i, p := range parts {
			c.Files[names[i]] = p
		}
		return c, true
	})
}
