package p_compile

import (
	"bytes"
	"strings"
	"testing"
	"time"

	"oss.terrastruct.com/d2/d2ast"
	"oss.terrastruct.com/d2/d2format"
	"oss.terrastruct.com/d2/d2parser"
	"pgregory.net/rapid"

	"verif/harness/canon"
	"verif/harness/gen"
	"verif/harness/hx"
	"verif/harness/seeds"
)

// C04: formatting preserves the diagram's meaning. Only the entry file is formatted;
// imported files are left untouched.
func checkC04(h *hx.H, c progCase) {
	if hangProne(c) {
		h.Reject("diverging-construct")
	}
	h.Label("kind:" + c.Kind)
	g1, cfg1, err := compileCase(c)
	if err != nil {
		h.Reject("does-not-compile")
	}
	m, perr := d2parser.Parse("index.d2", bytes.NewReader(c.entry()), nil)
	if perr != nil {
		h.Reject("parse-errors")
	}
	formatted := d2format.Format(m)
	c2 := progCase{Files: map[string][]byte{}, UTF16: c.UTF16}
	for k, v := range c.Files {
		c2.Files[k] = v
	}
	c2.Files["index.d2"] = []byte(formatted)
	g2, cfg2, err := compileCase(c2)
	if err != nil {
		h.Failf(classifyC04(c, m, "formatted-does-not-compile", err.Error()), "the formatted text does not compile: %v\n--- input\n%s\n--- formatted\n%s", err, c.entry(), formatted)
	}
	b1, b2 := canon.Of(g1).Sorted(), canon.Of(g2).Sorted()
	if d := canon.Diff(b1, b2); d != "" {
		h.Failf(classifyC04(c, m, "meaning-changed", ""), "the formatted text compiles to a different diagram: %s\n--- input\n%s\n--- formatted\n%s", d, c.entry(), formatted)
	}
	if jsonOf(cfg1) != jsonOf(cfg2) {
		h.Failf(classifyC04(c, m, "config-changed", ""), "the formatted text compiles to a different configuration: %s vs %s", jsonOf(cfg1), jsonOf(cfg2))
	}
	all := string(c.entry())
	h.Label(textLabels(all)...)
	changed := formatted != string(c.entry())
	if changed {
		h.Label("format_changed_text")
	}
	h.NonTrivial(changed && (len(g1.Objects) >= 3 || len(g1.Layers)+len(g1.Scenarios)+len(g1.Steps) > 0 || strings.Contains(all, "*")))
}

// classifyC04 attributes a difference to one of the listed formatter behaviours, by the
// construct present in the input.
func classifyC04(c progCase, m *d2ast.Map, base string, errMsg string) string {
	// (d) an empty map value is dropped by the formatter (`a.label: {}` -> `a.label`), which a
	//     reserved field rejects, and which lets an earlier array value of the same key stand
	emptyOnKeyword, emptyMap, bareBoard := false, false, false
	d2ast.Walk(m, func(n d2ast.Node) bool {
		k, ok := n.(*d2ast.Key)
		if !ok || k == nil {
			return true
		}
		if k.Key != nil && len(k.Key.Path) == 1 && len(k.Edges) == 0 && k.Value.Map == nil {
			switch strings.ToLower(k.Key.Path[0].Unbox().ScalarString()) {
			case "layers", "scenarios", "steps":
				bareBoard = true
			}
		}
		if k.Value.Map == nil || len(k.Value.Map.Nodes) != 0 {
			return true
		}
		emptyMap = true
		kp := k.Key
		if k.EdgeKey != nil {
			kp = k.EdgeKey
		}
		if kp != nil && len(kp.Path) > 0 {
			if _, ok := d2ast.ReservedKeywords[strings.ToLower(kp.Path[len(kp.Path)-1].Unbox().ScalarString())]; ok {
				emptyOnKeyword = true
			}
		}
		return true
	})
	if base == "formatted-does-not-compile" && emptyOnKeyword && strings.Contains(errMsg, "must have a value") {
		return base + ":empty-map-on-keyword"
	}
	if base == "formatted-does-not-compile" && emptyMap && strings.Contains(errMsg, "could not resolve variable") {
		return base + ":empty-map-dropped-after-array"
	}
	// (a) the formatter moves board blocks behind all other content of their map, which
	//     changes what scenarios/steps inherit ("as declared before the scenario")
	notLast, layersNotLast, upperKey, emptyBoard := false, false, false, false
	d2ast.Walk(m, func(n d2ast.Node) bool {
		k, ok := n.(*d2ast.Key)
		if !ok || k == nil || k.Key == nil || len(k.Key.Path) != 1 || k.Value.Map == nil {
			return true
		}
		switch strings.ToLower(k.Key.Path[0].Unbox().ScalarString()) {
		case "layers", "scenarios", "steps":
			for _, nb := range k.Value.Map.Nodes {
				if nb.MapKey != nil && nb.MapKey.Value.Map != nil && len(nb.MapKey.Value.Map.Nodes) == 0 {
					emptyBoard = true // `s: {}` is printed as `s`
				}
			}
		}
		return true
	})
	d2ast.Walk(m, func(n d2ast.Node) bool {
		switch n := n.(type) {
		case *d2ast.Map:
			sawBoard, sawLayers := false, false
			for _, nb := range n.Nodes {
				if nb.MapKey == nil {
					continue
				}
				isBoard, isLayers := false, false
				if k := nb.MapKey.Key; k != nil && len(k.Path) > 0 && len(nb.MapKey.Edges) == 0 {
					switch strings.ToLower(k.Path[0].Unbox().ScalarString()) {
					case "scenarios", "steps":
						// (only these inherit what precedes them: moving a layers block is harmless)
						isBoard = true
					case "layers":
						isLayers = true
					}
				}
				if isLayers {
					sawLayers = true
				} else if sawLayers {
					layersNotLast = true
				}
				if isBoard {
					sawBoard = true
				} else if sawBoard {
					notLast = true
				}
			}
		case *d2ast.KeyPath:
			// (b) a reserved keyword written in another letter case as an unquoted key is ignored
			//     by the compiler but lower-cased (and thereby activated) by the formatter
			for _, sb := range n.Path {
				if u := sb.UnquotedString; u != nil {
					s := u.ScalarString()
					if s != strings.ToLower(s) {
						if _, ok := d2ast.ReservedKeywords[strings.ToLower(s)]; ok {
							upperKey = true
						}
					}
				}
			}
		}
		return true
	})
	if upperKey {
		return base + ":keyword-key-case"
	}
	if notLast {
		return base + ":board-not-last"
	}
	if layersNotLast && strings.Contains(string(c.entry()), "*") {
		// a connection glob that creates its own target (`* -> a.a`) is applied again to the new
		// object only when something after it changes the field count: a layers block standing
		// before or after it makes the difference
		return base + ":layers-not-last-and-glob"
	}
	if emptyBoard {
		return base + ":empty-board-map"
	}
	if emptyOnKeyword {
		return base + ":empty-map-on-keyword"
	}
	// (e) a board keyword without a map is dropped by the formatter; the compiler counts the
	//     bare key as a field that globs match
	if bareBoard && strings.Contains(string(c.entry()), "*") {
		return base + ":bare-board-keyword-and-glob"
	}
	return base
}

func coreC04() []progCase {
	var out []progCase
	for _, b := range seeds.All() {
		out = append(out, progCase{Files: map[string][]byte{"index.d2": b}, Kind: "seed"})
	}
	for _, s := range []string{
		"x: Shape", "x: TOP", "a.b: Style", "x.shape: Circle", "x.SHAPE: circle", "b.Style.Fill: red", "c.direction: UP", "c.DIRECTION: up", "Label: x",
		"a\nscenarios: {s: {b}}\nc", "a\nlayers: {l: {b}}\nc", "steps: {1: {a}; 2: {b}}\nz", "x: {a; scenarios: {s: {b}}; c}",
		"a <- b", "a <-> b", "a -- b", "a -> b -> c <- d", "a -> b: {source-arrowhead: 1}", "(a -> b)[0].style.stroke: red\na -> b",
		"a: {b.c: d}\na.b.c.style.fill: red", "a;b;c", "a: b {c}", "'a.b'.c", "\"a.b\".c", "a: |md # x |", "a: |||md | |||", "vars: {x: 1}\na: ${x}", "vars: {x: 1}\na: \"${x}\"", "vars: {x: 1}\na: '${x}'",
		"*.style.fill: red\na\nb", "a\n**.style.fill: red", "a -> b\n(* -> *)[*].style.stroke: red", "*: {&shape: circle; style.fill: red}\na.shape: circle", "classes: {c: {style.fill: red}}\na.class: c",
		"a: [1; 2]", "a.class: [x; y]\nclasses: {x: {shape: circle}; y: {style.fill: red}}", "x: null", "a\na: null", "a -> b\n(a -> b)[0]: null",
		"a: \"b\\nc\"", "a: 'b''c'", "a\\.b", "a: b\\#c", "a: \\#c", "a: x # comment", "a: \"x # not\"", "-a-: -b-", "a.\"\": x", "\"\": x",
	} {
		out = append(out, single(s, "snippet"))
	}
	out = append(out,
		progCase{Kind: "import", Files: map[string][]byte{"index.d2": []byte("x: @x\n...@y\nz -> a"), "x.d2": []byte("a -> b: hi\nstyle.fill: red"), "y.d2": []byte("a; q")}},
		progCase{Kind: "import", Files: map[string][]byte{"index.d2": []byte("x: {...@\"x\"; c}\nlayers: {l: @y}"), "x.d2": []byte("a -> b"), "y.d2": []byte("k.link: layers.m\nlayers: {m: {n}}")}},
	)
	return out
}

func genC04(t *rapid.T) progCase {
	switch gen.Pick(t, "src", 4, 4, 2) {
	case 0:
		d := gen.GenDiagram(t, gen.FullDiagramOpts())
		txt := d.Text()
		// perturb the surface syntax: keyword case, separators, indentation
		if gen.Pick(t, "kwcase", 3, 1) == 1 {
			for _, kw := range []string{"shape", "style", "label", "width", "near", "direction"} {
				if rapid.Bool().Draw(t, "up_"+kw) {
					txt = strings.ReplaceAll(txt, "  "+kw+":", "  "+strings.ToUpper(kw)+":")
				}
			}
		}
		return single(commentLines(t, txt), "diagram")
	case 1:
		if gen.Pick(t, "soup", 2, 1) == 1 {
			return genSoup(t)
		}
		return genFileSet(t, false)
	default:
		// diagram with a board block placed before / between / after other content
		d := gen.GenDiagram(t, gen.DiagramOpts{MaxObjects: 6, MaxDepth: 2, MaxEdges: 4, Shapes: true, Styles: true, Labels: true})
		parts := strings.SplitAfter(d.Text(), "\n}\n")
		pos := rapid.IntRange(0, len(parts)).Draw(t, "boardpos")
		kw := rapid.SampledFrom([]string{"layers", "scenarios", "steps"}).Draw(t, "bkw")
		board := kw + ": {\n  b1: {\n    extra -> " + rapid.SampledFrom([]string{"a", "b", "x", "extra2"}).Draw(t, "bend") + "\n    a.style.fill: blue\n  }\n  b2: {\n    other\n  }\n}\n"
		var sb strings.Builder
		for i, p := range parts {
			if i == pos {
				sb.WriteString(board)
			}
			sb.WriteString(p)
		}
		if pos == len(parts) {
			sb.WriteString(board)
		}
		return single(commentLines(t, sb.String()), "diagram-with-board")
	}
}

// commentLines appends a line comment to some lines (after a closing brace, after a
// statement): comment placement is the formatter's business, the diagram must not change.
func commentLines(t *rapid.T, txt string) string {
	if gen.Pick(t, "comments", 1, 1) == 0 {
		return txt
	}
	lines := strings.Split(txt, "\n")
	for i, l := range lines {
		if strings.TrimSpace(l) == "" || strings.Contains(l, "|") || strings.Contains(l, "\"") || strings.Contains(l, "'") || strings.HasSuffix(l, "\\") {
			continue
		}
		if rapid.IntRange(0, 3).Draw(t, "cmt") == 0 {
			lines[i] = l + " # note " + string(rune('a'+i%26))
		}
	}
	return strings.Join(lines, "\n")
}

func TestC04(t *testing.T) {
	hx.Run(t, hx.Spec[progCase]{Prop: "C04", ClassifyPanic: classifyCompilePanic, Core: coreC04, Gen: genC04, Check: checkC04, Timeout: 30 * time.Second})
}
