package p_compile

import (
	"strings"
	"testing"
	"time"

	"oss.terrastruct.com/d2/d2ast"
	"oss.terrastruct.com/d2/d2graph"
	"oss.terrastruct.com/d2/d2oracle"
	"oss.terrastruct.com/d2/d2parser"
	"pgregory.net/rapid"

	"verif/harness/gen"
	"verif/harness/hx"
	"verif/harness/seeds"
)

// C06: object and connection IDs are valid, unambiguous D2 key paths.
func checkC06(h *hx.H, c progCase) {
	if hangProne(c) {
		h.Reject("diverging-construct")
	}
	h.Label("kind:" + c.Kind)
	g, _, err := compileCase(c)
	if err != nil {
		h.Reject("does-not-compile")
	}
	hostile, nobj := 0, 0
	boards(g, "root", func(bp string, b *d2graph.Graph) {
		abs := map[string]*d2graph.Object{}
		for _, o := range b.Objects {
			nobj++
			// ID parses back to exactly one segment naming the object
			kp, err := d2parser.ParseKey(o.ID)
			if err != nil {
				h.FailSoft("id-unparsable", "%s: object ID %q (name %q) is not valid key syntax: %v", bp, o.ID, o.IDVal, err)
				continue
			}
			if len(kp.Path) != 1 {
				h.FailSoft("id-splits", "%s: object ID %q (name %q) parses into %d segments", bp, o.ID, o.IDVal, len(kp.Path))
				continue
			}
			if got := kp.Path[0].Unbox().ScalarString(); got != o.IDVal {
				h.FailSoft("id-differs", "%s: object ID %q parses back to %q, the object's name is %q", bp, o.ID, got, o.IDVal)
			}
			if o.ID != o.IDVal || strings.ContainsAny(o.IDVal, " .") {
				hostile++
			}
			for _, r := range o.IDVal {
				if r > 0x7f {
					hostile++
					break
				}
			}
			// AbsID parses back to the name path
			var want []string
			for p := o; p != nil && p.Parent != nil; p = p.Parent {
				want = append([]string{p.IDVal}, want...)
			}
			akp, err := d2parser.ParseKey(o.AbsID())
			if err != nil {
				h.FailSoft("absid-unparsable", "%s: absolute ID %q is not valid key syntax: %v", bp, o.AbsID(), err)
				continue
			}
			var got []string
			for _, s := range akp.Path {
				got = append(got, s.Unbox().ScalarString())
			}
			if strings.Join(got, "\x1f") != strings.Join(want, "\x1f") {
				h.FailSoft("absid-differs", "%s: absolute ID %q parses back to %q, the name path is %q", bp, o.AbsID(), got, want)
			}
			// distinct objects have distinct absolute IDs, ignoring case
			fk := gen.FoldKey(o.AbsID())
			if prev, dup := abs[fk]; dup && prev != o {
				h.FailSoft("absid-ambiguous", "%s: two distinct objects have absolute IDs %q and %q", bp, prev.AbsID(), o.AbsID())
			}
			abs[fk] = o
			// IDs are used as map keys (editing API, source text): they must parse as one
			if omk, err := d2parser.ParseMapKey(o.AbsID()); err != nil || omk.Key == nil || len(omk.Edges) > 0 {
				sig := "absid-not-a-map-key"
				if o.IDVal == "!" {
					sig = "absid-not-a-map-key:bang"
				}
				h.FailSoft(sig, "%s: absolute ID %q does not parse as a map key: %v", bp, o.AbsID(), err)
				continue
			}
			// the ID leads back to this object through the lookup API
			if back := d2oracle.GetObj(b, nil, o.AbsID()); back != o {
				sig := "absid-lookup"
				if _, reserved := reservedLower[strings.ToLower(o.IDVal)]; reserved {
					sig = "absid-lookup:keyword-name"
				}
				h.FailSoft(sig, "%s: looking up absolute ID %q does not return the object", bp, o.AbsID())
			}
		}
		eids := map[string]*d2graph.Edge{}
		for _, e := range b.Edges {
			id := e.AbsID()
			if prev, dup := eids[id]; dup && prev != e {
				h.FailSoft("edge-id-duplicate", "%s: two connections share the ID %q", bp, id)
			}
			eids[id] = e
			mk, err := d2parser.ParseMapKey(id)
			if err != nil {
				h.FailSoft("edge-id-unparsable", "%s: connection ID %q is not valid map key syntax: %v", bp, id, err)
				continue
			}
			if len(mk.Edges) != 1 || mk.EdgeIndex == nil || mk.EdgeIndex.Int == nil {
				h.FailSoft("edge-id-shape", "%s: connection ID %q does not parse to one connection with an index", bp, id)
				continue
			}
			if *mk.EdgeIndex.Int != e.Index {
				h.FailSoft("edge-id-index", "%s: connection ID %q carries index %d, the connection has %d", bp, id, *mk.EdgeIndex.Int, e.Index)
			}
			if back := d2oracle.GetEdge(b, nil, id); back != e {
				h.FailSoft("edge-id-lookup", "%s: looking up connection ID %q does not return the connection", bp, id)
			}
			// resolving the parsed ID from the root finds exactly this connection
			scope := b.Root
			if mk.Key != nil {
				if so, ok := b.Root.HasChild(d2graph.Key(mk.Key)); ok && so != nil {
					scope = so
				} else {
					h.FailSoft("edge-id-scope", "%s: the container prefix of connection ID %q does not resolve to an object", bp, id)
					continue
				}
			}
			if found, ok := scope.HasEdge(mk); !ok || found != e {
				sig := "edge-id-resolve"
				if hasKeywordSegment(mk) {
					sig = "edge-id-resolve:keyword-name"
				}
				h.FailSoft(sig, "%s: resolving connection ID %q in its container gives another connection or none", bp, id)
			}
		}
	})
	h.NonTrivial(hostile >= 1 && nobj >= 2)
}

func hasKeywordSegment(mk *d2ast.Key) bool {
	found := false
	d2ast.Walk(mk, func(n d2ast.Node) bool {
		if kp, ok := n.(*d2ast.KeyPath); ok && kp != nil {
			for _, sb := range kp.Path {
				if sb.Unbox() != nil && reservedLower[strings.ToLower(sb.Unbox().ScalarString())] {
					found = true
				}
			}
		}
		return true
	})
	return found
}

var reservedLower = func() map[string]bool {
	m := map[string]bool{}
	for _, l := range [][]string{gen.ReservedKeywords, gen.StyleKeywords} {
		for _, w := range l {
			m[w] = true
		}
	}
	m["_"] = true // a quoted "_" is an ordinary name, the bare one means "parent"
	return m
}()

func coreC06() []progCase {
	var out []progCase
	for _, b := range seeds.Files() {
		out = append(out, progCase{Files: map[string][]byte{"index.d2": b}, Kind: "seed"})
	}
	// every hostile name as a root object, a child and a connection end
	for _, n := range gen.AllNames {
		if strings.ContainsRune(n, 0) || n == "" {
			continue
		}
		k := gen.QuoteKey(strings.ToValidUTF8(n, "?"))
		out = append(out, single(k+"\nbox."+k+" -> box.b\n"+k+" -> "+k+"\n", "names"))
	}
	out = append(out,
		single("A\na\nÉ\né\nσ\nς\nΣ\nİ\ni\nK\nk\nſ\ns", "fold"),
		single("a -> b\na -> b\nA -> B\nx: {a -> b; _.a -> _.b}\nx.a -> x.b\n", "edges"),
		single("a <- b\nb -> a\na -- b\nb -- a\na <-> b", "edges"),
		single("\"a.b\".c -> \"a.b\".\"c.d\"\n'a.b'.c -> 'a.b'.'c.d'", "edges"),
	)
	return out
}

func genC06(t *rapid.T) progCase {
	switch gen.Pick(t, "src", 5, 3, 2) {
	case 0:
		o := gen.FullDiagramOpts()
		o.Labels, o.Styles, o.Icons, o.Positions, o.Sizes, o.Links = false, false, false, false, false, false
		d := gen.GenDiagram(t, o)
		return single(d.Text(), "diagram")
	case 1:
		// names from the full hostile pool in nested positions and as connection ends
		var sb strings.Builder
		n := rapid.IntRange(1, 6).Draw(t, "n")
		var keys []string
		for i := 0; i < n; i++ {
			nm := strings.ToValidUTF8(gen.Name(t, "nm"), "?")
			if nm == "" || strings.ContainsRune(nm, 0) {
				nm = "e"
			}
			k := gen.QuoteKey(nm)
			if rapid.Bool().Draw(t, "nest") && len(keys) > 0 {
				k = keys[rapid.IntRange(0, len(keys)-1).Draw(t, "par")] + "." + k
			}
			keys = append(keys, k)
			sb.WriteString(k + "\n")
		}
		m := rapid.IntRange(0, 5).Draw(t, "m")
		for i := 0; i < m; i++ {
			a := keys[rapid.IntRange(0, len(keys)-1).Draw(t, "a")]
			b := keys[rapid.IntRange(0, len(keys)-1).Draw(t, "b")]
			sb.WriteString(a + " " + rapid.SampledFrom([]string{"->", "<-", "--", "<->"}).Draw(t, "arr") + " " + b + "\n")
		}
		return single(sb.String(), "names")
	default:
		if gen.Pick(t, "soup", 2, 1) == 1 {
			return genSoup(t)
		}
		return genFileSet(t, false)
	}
}

func TestC06(t *testing.T) {
	hx.Run(t, hx.Spec[progCase]{Prop: "C06", ClassifyPanic: classifyCompilePanic, Core: coreC06, Gen: genC06, Check: checkC06, Timeout: 30 * time.Second})
}
