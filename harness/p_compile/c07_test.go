package p_compile

import (
	"errors"
	"regexp"
	"strings"
	"testing"
	"time"
	"unicode/utf8"

	"oss.terrastruct.com/d2/d2parser"
	"pgregory.net/rapid"

	"verif/harness/gen"
	"verif/harness/hx"
	"verif/harness/seeds"
)

// C07: compilation is total.
func checkC07(h *hx.H, c progCase) {
	h.Label("kind:" + c.Kind)
	all := ""
	for _, n := range c.names() {
		all += string(c.Files[n]) + "\n"
	}
	h.Label(textLabels(all)...)
	if !hx.Replaying() && hangProne(c) {
		h.Reject("diverging-construct")
	}
	_, perr := d2parser.Parse("index.d2", strings.NewReader(string(c.entry())), nil)
	g, _, err := compileCase(c)
	if (g == nil) == (err == nil) {
		h.Failf("graph-and-error", "Compile returned graph=%v err=%v", g != nil, err)
	}
	if err != nil {
		h.Label("compile_error")
		var pe *d2parser.ParseError
		if !errors.As(err, &pe) {
			h.Failf("err-type", "Compile returned %T, not a positioned error list: %v", err, err)
		}
		if len(pe.Errors) == 0 {
			h.Failf("empty-error", "Compile returned an error with an empty list")
		}
		for _, e := range pe.Errors {
			if strings.TrimSpace(e.Message) == "" {
				h.Failf("empty-message", "error with empty message at %v", e.Range)
			}
			src, ok := c.Files[e.Range.Path]
			if !ok {
				// imports are reported with the path as written by the importer (with .d2)
				ok2 := false
				for n := range c.Files {
					if strings.TrimSuffix(n, ".d2") == strings.TrimSuffix(e.Range.Path, ".d2") {
						src, ok2 = c.Files[n], true
					}
				}
				if !ok2 && e.Range.Path == "" && e.Range.Start.Byte == 0 && e.Range.End.Byte == 0 {
					// an error without any position; classified by its text
					msg := e.Message
					if i := strings.LastIndex(msg, ": "); i >= 0 && i < 12 {
						msg = msg[i+2:]
					}
					msg = strings.TrimPrefix(msg, "1:1: ")
					h.FailSoft("err-unpositioned:"+unquoteNames(msg), "error %q carries no source position (empty path, range 0-0)", e.Message)
					continue
				}
				if !ok2 {
					h.FailSoft("err-unknown-file", "error %q is positioned in %q, which is not one of the supplied files %v", e.Message, e.Range.Path, c.names())
					continue
				}
			}
			if !utf8.Valid(src) {
				continue // offsets drift after invalid bytes (C02 finding)
			}
			if e.Range.Start.Byte < 0 || e.Range.End.Byte > len(src) || e.Range.Start.Line < 0 || e.Range.Start.Column < 0 {
				sig := "err-outside-file"
				if strings.HasSuffix(e.Message, "missing value after colon") && e.Range.Start.Column < 0 && e.Range.End.Byte <= len(src) {
					// the start is computed as "end minus one colon" while the end is wherever value
					// parsing stopped (C02 err-range:missing-value-start): at the start of a line the
					// column goes negative
					sig = "err-outside-file:missing-value-start"
				}
				h.FailSoft(sig, "error %q has range %s-%s outside %q (%d bytes)", e.Message, e.Range.Start.Debug(), e.Range.End.Debug(), e.Range.Path, len(src))
			}
		}
	} else {
		h.Label("compiled")
	}
	h.NonTrivial(perr == nil && countStatements(c.entry()) >= 3)
}

func coreC07() []progCase {
	var out []progCase
	for _, b := range seeds.All() {
		out = append(out, progCase{Files: map[string][]byte{"index.d2": b}, Kind: "seed"})
	}
	for _, s := range []string{
		"x.class: [a; \"\"\"c\"\"\"; b]", "vars: {d2-config: {theme-overrides: {N1: {a: b}}}}", "vars: {d2-config: {theme-overrides: {N1: [a]}}}",
		"ȺȺȺb\n*b.style.fill: red", "İ\n*i.shape: circle", "*: {*: {*: {*}}}", "**.**.**: x", "***: {***: {a}}", "a: {...${a}}", "vars: {x: ${x}}", "vars: {x: ${y}; y: ${x}}\na: ${x}",
		"a -> b\n(a -> b)[9999999999999999999]: x", "(* -> *)[*]: {(* -> *)[*]: x}", "*.*.*.*.*.*.*.*: y", "x: {&x: y}", "&&: 1", "a: @index", "...@index",
		"classes: {c: {class: c}}\na.class: c", "a.class: [[b]]", "a.near: a", "a.near: b\nb.near: a", "a: {near: a.b; b}", "layers: {x: {layers: {x: {link: _._.layers.x}}}}",
		"a.shape: sql_table\na.b: {c: {d}}", "a: {shape: class; +f(): {x}}", "vars: {d2-legend: {a; b; a -> b}}", "vars: {d2-legend: x}", "vars: {d2-config: x}", "vars: x", "vars: [1]",
		"style: x", "style.fill: red", "label: {x}", "shape: [circle]", "a.style: null", "a.style.fill: [red]", "a.width: {x}", "grid-rows: 0", "a.grid-rows: -1", "a.grid-gap: x",
		"a.top: 1\na.near: top-left", "(a -> b)[0].source-arrowhead: {shape: [x]}", "a -> b: {source-arrowhead: {source-arrowhead: x}}", "a.icon: ::", "a.icon: %zz", "a.link: %zz",
		"scenarios: {s: {scenarios: {s: {scenarios: {s: null}}}}}", "steps: {1: null}", "layers: null", "layers: x", "layers: [a]", "layers.x: y", "layers: {x}", "layers: {x: y}",
		"a: null\na.b", "a.b: null\na: null\na.b.c", "*: null", "**: null", "***: null", "a -> b\n(a -> b)[*]: null\n(a -> b)[0]: x", "a: suspend", "**: suspend\na: unsuspend", "a -> b: suspend",
		"_.a", "a: {_._._.b}", "_", "_._: x", "a._.b", "a -> _.b", "(_ -> _)[0]: x",
	} {
		out = append(out, single(s, "snippet"))
	}
	// import cycles of every length through different spellings
	out = append(out,
		progCase{Kind: "cycle", Files: map[string][]byte{"index.d2": []byte("x: @index")}},
		progCase{Kind: "cycle", Files: map[string][]byte{"index.d2": []byte("...@./index.d2")}},
		progCase{Kind: "cycle", Files: map[string][]byte{"index.d2": []byte("x: @x"), "x.d2": []byte("y: @sub/z"), "sub/z.d2": []byte("z: @../index")}},
		progCase{Kind: "cycle", Files: map[string][]byte{"index.d2": []byte("...@x"), "x.d2": []byte("...@y"), "y.d2": []byte("...@sub/z"), "sub/z.d2": []byte("...@../x.d2")}},
		progCase{Kind: "cycle", Files: map[string][]byte{"index.d2": []byte("a: @sub/../x"), "x.d2": []byte("b: @\"index\"")}},
		progCase{Kind: "diamond", Files: map[string][]byte{"index.d2": []byte("x: @x\ny: @y"), "x.d2": []byte("p: @sub/z"), "y.d2": []byte("q: @sub/z"), "sub/z.d2": []byte("leaf")}},
	)
	return out
}

func genC07(t *rapid.T) progCase {
	switch gen.Pick(t, "src", 6, 2, 1, 4) {
	case 3:
		return genSoup(t)
	case 0:
		return genFileSet(t, true)
	case 1:
		seedsAll := seeds.All()
		s := seedsAll[rapid.IntRange(0, len(seedsAll)-1).Draw(t, "seed")]
		return single(gen.Mutate(t, string(s), 3), "seed-mutated")
	default:
		return progCase{Files: map[string][]byte{"index.d2": gen.Bytes(t, 2048, seeds.Files())}, Kind: "bytes"}
	}
}

func TestC07(t *testing.T) {
	hx.Run(t, hx.Spec[progCase]{Prop: "C07", ClassifyPanic: func(sig string, c progCase) string { return classifyCompilePanic(sig, c) }, Core: coreC07, Gen: genC07, Check: checkC07, Timeout: 20 * time.Second})
}

var quotedName = regexp.MustCompile(`"[^"]*"`)

// unquoteNames replaces quoted user names in a message by "…" so that signatures do not
// depend on the names the generator happened to draw.
func unquoteNames(s string) string {
	s = quotedName.ReplaceAllString(s, `"…"`)
	for _, b := range []string{"layers", "scenarios", "steps"} {
		s = strings.ReplaceAll(s, b+" must be declared", "<board> must be declared")
	}
	return s
}
