package p_compile

import (
	"fmt"
	"strings"
	"testing"
	"time"

	"oss.terrastruct.com/d2/d2graph"
	"oss.terrastruct.com/d2/d2target"
	"pgregory.net/rapid"

	"verif/harness/gen"
	"verif/harness/hx"
	"verif/harness/seeds"
)

// C09: compiled graphs are well-formed trees with consistent connection endpoints.
type c09Case struct {
	Prog progCase `json:"prog"`
	// Order is the expected AbsID order of objects (first textual appearance) when known
	// (single-file, glob-free generated diagrams); empty otherwise.
	Order []string `json:"order,omitempty"`
}

func boards(g *d2graph.Graph, path string, f func(path string, g *d2graph.Graph)) {
	f(path, g)
	for _, b := range g.Layers {
		boards(b, path+".layers."+b.Name, f)
	}
	for _, b := range g.Scenarios {
		boards(b, path+".scenarios."+b.Name, f)
	}
	for _, b := range g.Steps {
		boards(b, path+".steps."+b.Name, f)
	}
}

func checkWellFormed(h *hx.H, bp string, g *d2graph.Graph) (containers, edges int) {
	seen := map[*d2graph.Object]bool{}
	for _, o := range g.Objects {
		if seen[o] {
			h.Failf("object-listed-twice", "%s: object %s is listed twice in Objects", bp, o.AbsID())
		}
		seen[o] = true
	}
	if g.Root == nil {
		h.Failf("no-root", "%s: board has no root", bp)
	}
	for _, o := range g.Objects {
		if o == g.Root {
			h.Failf("root-in-objects", "%s: the root is listed among the objects", bp)
		}
		// parent chain ends at this board's root
		steps := 0
		p := o
		for p != nil && p != g.Root {
			if p != o && !seen[p] {
				h.Failf("ancestor-not-listed", "%s: ancestor %s of %s is not among the board's objects", bp, p.AbsID(), o.AbsID())
			}
			p = p.Parent
			steps++
			if steps > 10000 {
				h.Failf("parent-cycle", "%s: parent chain of %s does not end", bp, o.AbsID())
			}
		}
		if p != g.Root {
			h.Failf("not-reachable-from-root", "%s: parent chain of %s does not end at the board's root", bp, o.AbsID())
		}
		if o.Graph != g {
			h.Failf("wrong-graph-pointer", "%s: object %s belongs to another graph", bp, o.AbsID())
		}
		par := o.Parent
		cnt := 0
		for _, ch := range par.ChildrenArray {
			if ch == o {
				cnt++
			}
		}
		if cnt != 1 {
			h.Failf("children-array-count", "%s: parent of %s lists it %d times among its children", bp, o.AbsID(), cnt)
		}
		if got := par.Children[strings.ToLower(o.ID)]; got != o {
			h.Failf("children-map-entry", "%s: parent of %s does not have it under its lower-cased ID %q in the children map", bp, o.AbsID(), strings.ToLower(o.ID))
		}
	}
	check := func(o *d2graph.Object) {
		if len(o.Children) != len(o.ChildrenArray) {
			h.Failf("children-map-array-size", "%s: %s has %d children in the map and %d in the array", bp, o.AbsID(), len(o.Children), len(o.ChildrenArray))
		}
		for _, ch := range o.ChildrenArray {
			if !seen[ch] {
				h.Failf("child-not-listed", "%s: child %s of %s is not among the board's objects", bp, ch.AbsID(), o.AbsID())
			}
			if ch.Parent != o {
				h.Failf("child-parent-mismatch", "%s: child %s of %s has another parent", bp, ch.AbsID(), o.AbsID())
			}
		}
		if len(o.ChildrenArray) > 0 && o != g.Root {
			containers++
		}
		if o != g.Root && (o.Shape.Value == d2target.ShapeClass || o.Shape.Value == d2target.ShapeSQLTable) && len(o.ChildrenArray) > 0 {
			h.Failf("table-has-children", "%s: %s shape %s still has child objects %d", bp, o.Shape.Value, o.AbsID(), len(o.ChildrenArray))
		}
	}
	check(g.Root)
	for _, o := range g.Objects {
		check(o)
	}
	eseen := map[*d2graph.Edge]bool{}
	for _, e := range g.Edges {
		if eseen[e] {
			h.Failf("edge-listed-twice", "%s: edge %s listed twice", bp, e.AbsID())
		}
		eseen[e] = true
		if e.Src == nil || e.Dst == nil || !seen[e.Src] || !seen[e.Dst] {
			h.Failf("edge-endpoint-foreign", "%s: an endpoint of edge %s is not an object of this board", bp, e.AbsID())
		}
		edges++
	}
	return
}

func checkC09(h *hx.H, c c09Case) {
	if hangProne(c.Prog) {
		h.Reject("diverging-construct")
	}
	h.Label("kind:" + c.Prog.Kind)
	g, _, err := compileCase(c.Prog)
	if err != nil {
		h.Reject("does-not-compile")
	}
	containers, edges, nboards := 0, 0, 0
	boards(g, "root", func(bp string, b *d2graph.Graph) {
		nboards++
		c1, e1 := checkWellFormed(h, bp, b)
		containers += c1
		edges += e1
	})
	if len(c.Order) > 0 {
		var got []string
		for _, o := range g.Objects {
			got = append(got, namePath(o))
		}
		if gen.FoldKey(fmt.Sprint(got)) != gen.FoldKey(fmt.Sprint(c.Order)) {
			h.Failf("object-order", "objects are not listed in order of first appearance:\n got  %q\n want %q\n%s", got, c.Order, c.Prog.entry())
		}
		h.Label("order_checked")
	}
	all := string(c.Prog.entry())
	h.Label(textLabels(all)...)
	if nboards > 1 {
		h.Label("multi_board")
	}
	h.NonTrivial(containers >= 1 && edges >= 1)
}

// diagramOrder computes the expected AbsID order for a generated diagram: declaration
// order; objects inside class / sql_table bodies are fields, not objects.
func diagramCase(t *rapid.T, o gen.DiagramOpts, kind string) c09Case {
	d := gen.GenDiagram(t, o)
	c := c09Case{Prog: single(d.Text(), kind)}
	for _, n := range d.AllNodes() {
		c.Order = append(c.Order, strings.Join(n.NamePath(), "\x1f"))
	}
	// edges declared after all objects never introduce new objects; sequence messages and
	// notes/spans only reference declared actors except ".note"/".span" children
	for _, n := range d.AllNodes() {
		for _, l := range n.Lines {
			if n.Special == "sequence" && (strings.Contains(l, ".note") || strings.Contains(l, ".span")) {
				c.Order = nil // these create extra objects; order not predicted
				return c
			}
		}
	}
	return c
}

func coreC09() []c09Case {
	var out []c09Case
	for _, b := range seeds.All() {
		out = append(out, c09Case{Prog: progCase{Files: map[string][]byte{"index.d2": b}, Kind: "seed"}})
	}
	for _, s := range []string{
		"a: {shape: class; +f: int; g(): void}\nb: {shape: sql_table; id: int {constraint: primary_key}; x: int}\na -> b.id",
		"t: {shape: sql_table; a: int; b: int}\nu: {shape: sql_table; c: int}\nt.a -> u.c",
		"x: {shape: sequence_diagram; a; b; a -> b: hi; a.s1 -> b.s2; g: {a -> b}}",
		"g: {grid-rows: 2; a; b; c: {d; e}; d}", "a: {b: {c: {d}}}\na.b.c.d -> a\n_: x", "a: {_.b -> c}", "A; a: {B; b}", "layers: {l: {a -> b}}\nscenarios: {s: {c}}\nsteps: {1: {d}; 2: {e}}",
		"c: {shape: class; x: {y}}", "a.b.c\na: {shape: sql_table}",
	} {
		out = append(out, c09Case{Prog: single(s, "snippet")})
	}
	return out
}

func genC09(t *rapid.T) c09Case {
	switch gen.Pick(t, "src", 6, 3) {
	case 0:
		o := gen.FullDiagramOpts()
		return diagramCase(t, o, "diagram")
	default:
		if gen.Pick(t, "soup", 2, 1) == 1 {
			return c09Case{Prog: genSoup(t)}
		}
		return c09Case{Prog: genFileSet(t, false)}
	}
}

func TestC09(t *testing.T) {
	hx.Run(t, hx.Spec[c09Case]{Prop: "C09", ClassifyPanic: func(sig string, c c09Case) string { return classifyCompilePanic(sig, c.Prog) }, Core: coreC09, Gen: genC09, Check: checkC09, Timeout: 30 * time.Second})
}

// namePath is the chain of raw names (IDVal) from the root, joined by U+001F.
func namePath(o *d2graph.Object) string {
	var parts []string
	for p := o; p != nil && p.Parent != nil; p = p.Parent {
		parts = append([]string{p.IDVal}, parts...)
	}
	return strings.Join(parts, "\x1f")
}
