// Package canon projects compiled graphs onto a canonical, position-free form so that two
// graphs can be compared as "the same diagram".
package canon

import (
	"encoding/json"
	"fmt"
	"sort"
	"strings"

	"oss.terrastruct.com/d2/d2format"
	"oss.terrastruct.com/d2/d2graph"
	"oss.terrastruct.com/d2/d2target"
)

type Obj struct {
	AbsID    string             `json:"abs_id"`
	ID       string             `json:"id"`
	IDVal    string             `json:"id_val"`
	Parent   string             `json:"parent"`
	Attrs    map[string]any     `json:"attrs"`
	Class    *d2target.Class    `json:"class,omitempty"`
	SQLTable *d2target.SQLTable `json:"sql_table,omitempty"`
	Children []string           `json:"children,omitempty"`
}

type Edge struct {
	AbsID        string         `json:"abs_id"`
	Src          string         `json:"src"`
	Dst          string         `json:"dst"`
	SrcArrow     bool           `json:"src_arrow"`
	DstArrow     bool           `json:"dst_arrow"`
	Index        int            `json:"index"`
	Attrs        map[string]any `json:"attrs"`
	SrcArrowhead map[string]any `json:"src_arrowhead,omitempty"`
	DstArrowhead map[string]any `json:"dst_arrowhead,omitempty"`
}

type Board struct {
	Name         string         `json:"name"`
	IsFolderOnly bool           `json:"is_folder_only"`
	RootAttrs    map[string]any `json:"root_attrs"`
	Objects      []Obj          `json:"objects"`
	Edges        []Edge         `json:"edges"`
	LegendLabel  string         `json:"legend_label,omitempty"`
	LegendObjs   []Obj          `json:"legend_objects,omitempty"`
	LegendEdges  []Edge         `json:"legend_edges,omitempty"`
	Data         map[string]any `json:"data,omitempty"`
	Layers       []*Board       `json:"layers,omitempty"`
	Scenarios    []*Board       `json:"scenarios,omitempty"`
	Steps        []*Board       `json:"steps,omitempty"`
}

func attrs(a *d2graph.Attributes) map[string]any {
	if a == nil {
		return nil
	}
	b, err := json.Marshal(a)
	if err != nil {
		return map[string]any{"marshal_error": err.Error()}
	}
	var m map[string]any
	json.Unmarshal(b, &m)
	delete(m, "labelDimensions")
	delete(m, "near_key")
	if a.NearKey != nil {
		m["near_key"] = d2format.Format(a.NearKey)
	}
	// drop empty containers for stability
	for k, v := range m {
		switch x := v.(type) {
		case nil:
			delete(m, k)
		case map[string]any:
			if len(x) == 0 {
				delete(m, k)
			}
		case []any:
			if len(x) == 0 {
				delete(m, k)
			}
		}
	}
	return m
}

func obj(o *d2graph.Object) Obj {
	c := Obj{AbsID: o.AbsID(), ID: o.ID, IDVal: o.IDVal, Attrs: attrs(&o.Attributes), Class: o.Class, SQLTable: o.SQLTable}
	if o.Parent != nil {
		c.Parent = o.Parent.AbsID()
	}
	for _, ch := range o.ChildrenArray {
		c.Children = append(c.Children, ch.AbsID())
	}
	return c
}

func edge(e *d2graph.Edge) Edge {
	c := Edge{AbsID: e.AbsID(), SrcArrow: e.SrcArrow, DstArrow: e.DstArrow, Index: e.Index, Attrs: attrs(&e.Attributes),
		SrcArrowhead: attrs(e.SrcArrowhead), DstArrowhead: attrs(e.DstArrowhead)}
	if e.Src != nil {
		c.Src = e.Src.AbsID()
	}
	if e.Dst != nil {
		c.Dst = e.Dst.AbsID()
	}
	return c
}

// Of projects g and its nested boards.
func Of(g *d2graph.Graph) *Board {
	if g == nil {
		return nil
	}
	b := &Board{Name: g.Name, IsFolderOnly: g.IsFolderOnly, Data: g.Data}
	if g.Root != nil {
		b.RootAttrs = attrs(&g.Root.Attributes)
	}
	for _, o := range g.Objects {
		b.Objects = append(b.Objects, obj(o))
	}
	for _, e := range g.Edges {
		b.Edges = append(b.Edges, edge(e))
	}
	if g.Legend != nil {
		b.LegendLabel = g.Legend.Label
		for _, o := range g.Legend.Objects {
			b.LegendObjs = append(b.LegendObjs, obj(o))
		}
		for _, e := range g.Legend.Edges {
			b.LegendEdges = append(b.LegendEdges, edge(e))
		}
	}
	for _, l := range g.Layers {
		b.Layers = append(b.Layers, Of(l))
	}
	for _, l := range g.Scenarios {
		b.Scenarios = append(b.Scenarios, Of(l))
	}
	for _, l := range g.Steps {
		b.Steps = append(b.Steps, Of(l))
	}
	return b
}

// Sorted returns a deep copy with objects, edges and children sorted by ID (order-free comparison).
func (b *Board) Sorted() *Board {
	if b == nil {
		return nil
	}
	c := *b
	c.Objects = append([]Obj(nil), b.Objects...)
	for i := range c.Objects {
		ch := append([]string(nil), c.Objects[i].Children...)
		sort.Strings(ch)
		c.Objects[i].Children = ch
	}
	sort.SliceStable(c.Objects, func(i, j int) bool { return c.Objects[i].AbsID < c.Objects[j].AbsID })
	c.Edges = append([]Edge(nil), b.Edges...)
	sort.SliceStable(c.Edges, func(i, j int) bool { return c.Edges[i].AbsID < c.Edges[j].AbsID })
	c.Layers, c.Scenarios, c.Steps = nil, nil, nil
	for _, l := range b.Layers {
		c.Layers = append(c.Layers, l.Sorted())
	}
	for _, l := range b.Scenarios {
		c.Scenarios = append(c.Scenarios, l.Sorted())
	}
	for _, l := range b.Steps {
		c.Steps = append(c.Steps, l.Sorted())
	}
	return &c
}

func (b *Board) JSON() string {
	x, err := json.Marshal(b)
	if err != nil {
		return "marshal error: " + err.Error()
	}
	return string(x)
}

// Diff returns "" when a and b are equal, otherwise a short description of the first difference.
func Diff(a, b *Board) string {
	return diffBoard("root", a, b)
}

func js(v any) string {
	x, _ := json.Marshal(v)
	return string(x)
}

func diffBoard(path string, a, b *Board) string {
	if a == nil || b == nil {
		if a == b {
			return ""
		}
		return fmt.Sprintf("%s: board present on one side only", path)
	}
	if a.Name != b.Name || a.IsFolderOnly != b.IsFolderOnly {
		return fmt.Sprintf("%s: board name/folder flag differ: %q/%v vs %q/%v", path, a.Name, a.IsFolderOnly, b.Name, b.IsFolderOnly)
	}
	if js(a.RootAttrs) != js(b.RootAttrs) {
		return fmt.Sprintf("%s: root attributes differ: %s vs %s", path, js(a.RootAttrs), js(b.RootAttrs))
	}
	if len(a.Objects) != len(b.Objects) {
		return fmt.Sprintf("%s: %d objects %v vs %d objects %v", path, len(a.Objects), ids(a.Objects), len(b.Objects), ids(b.Objects))
	}
	for i := range a.Objects {
		if js(a.Objects[i]) != js(b.Objects[i]) {
			return fmt.Sprintf("%s: object #%d differs:\n   %s\nvs %s", path, i, js(a.Objects[i]), js(b.Objects[i]))
		}
	}
	if len(a.Edges) != len(b.Edges) {
		return fmt.Sprintf("%s: %d edges %v vs %d edges %v", path, len(a.Edges), eids(a.Edges), len(b.Edges), eids(b.Edges))
	}
	for i := range a.Edges {
		if js(a.Edges[i]) != js(b.Edges[i]) {
			return fmt.Sprintf("%s: edge #%d differs:\n   %s\nvs %s", path, i, js(a.Edges[i]), js(b.Edges[i]))
		}
	}
	if a.LegendLabel != b.LegendLabel || js(a.LegendObjs) != js(b.LegendObjs) || js(a.LegendEdges) != js(b.LegendEdges) {
		return fmt.Sprintf("%s: legends differ", path)
	}
	if js(a.Data) != js(b.Data) {
		return fmt.Sprintf("%s: data differ: %s vs %s", path, js(a.Data), js(b.Data))
	}
	for _, k := range []struct {
		n    string
		x, y []*Board
	}{{"layers", a.Layers, b.Layers}, {"scenarios", a.Scenarios, b.Scenarios}, {"steps", a.Steps, b.Steps}} {
		if len(k.x) != len(k.y) {
			return fmt.Sprintf("%s: %d %s vs %d", path, len(k.x), k.n, len(k.y))
		}
		for i := range k.x {
			if d := diffBoard(path+"."+k.n+"."+k.x[i].Name, k.x[i], k.y[i]); d != "" {
				return d
			}
		}
	}
	return ""
}

func ids(os []Obj) []string {
	var out []string
	for _, o := range os {
		out = append(out, o.AbsID)
	}
	return out
}

func eids(es []Edge) []string {
	var out []string
	for _, e := range es {
		out = append(out, e.AbsID)
	}
	return out
}

// Errors canonicalises an error value to its message lines.
func Errors(err error) string {
	if err == nil {
		return ""
	}
	return strings.TrimSpace(err.Error())
}
