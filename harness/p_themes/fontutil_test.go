package p_themes

import (
	"bytes"
	"compress/zlib"
	"crypto/sha256"
	"encoding/base64"
	"encoding/binary"
	"fmt"
	"io"
	"strings"
	"sync"

	"golang.org/x/image/font/sfnt"
	"golang.org/x/image/math/fixed"
	"oss.terrastruct.com/d2/d2renderers/d2fonts"
)

// woffToSfnt rebuilds an sfnt (TrueType/OpenType) file from a WOFF 1.0 container.
func woffToSfnt(w []byte) ([]byte, error) {
	if len(w) < 44 || string(w[0:4]) != "wOFF" {
		return nil, fmt.Errorf("not a WOFF file")
	}
	flavor := w[4:8]
	numTables := int(binary.BigEndian.Uint16(w[12:14]))
	if len(w) < 44+20*numTables {
		return nil, fmt.Errorf("truncated table directory")
	}
	type tbl struct {
		tag                  []byte
		off, comp, orig, sum uint32
	}
	var tbls []tbl
	for i := 0; i < numTables; i++ {
		e := w[44+20*i:]
		tbls = append(tbls, tbl{e[0:4], binary.BigEndian.Uint32(e[4:8]), binary.BigEndian.Uint32(e[8:12]), binary.BigEndian.Uint32(e[12:16]), binary.BigEndian.Uint32(e[16:20])})
	}
	var out bytes.Buffer
	out.Write(flavor)
	hdr := make([]byte, 8)
	binary.BigEndian.PutUint16(hdr[0:], uint16(numTables))
	es, sr := 0, 1
	for sr*2 <= numTables {
		sr *= 2
		es++
	}
	binary.BigEndian.PutUint16(hdr[2:], uint16(sr*16))
	binary.BigEndian.PutUint16(hdr[4:], uint16(es))
	binary.BigEndian.PutUint16(hdr[6:], uint16(numTables*16-sr*16))
	out.Write(hdr)
	offset := uint32(12 + 16*numTables)
	var datas [][]byte
	for _, t := range tbls {
		if uint64(t.off)+uint64(t.comp) > uint64(len(w)) {
			return nil, fmt.Errorf("table %q out of range", t.tag)
		}
		raw := w[t.off : t.off+t.comp]
		if t.comp < t.orig {
			zr, err := zlib.NewReader(bytes.NewReader(raw))
			if err != nil {
				return nil, fmt.Errorf("table %q: %v", t.tag, err)
			}
			b, err := io.ReadAll(zr)
			if err != nil {
				return nil, fmt.Errorf("table %q: %v", t.tag, err)
			}
			raw = b
		}
		if uint32(len(raw)) != t.orig {
			return nil, fmt.Errorf("table %q: %d bytes, directory says %d", t.tag, len(raw), t.orig)
		}
		datas = append(datas, raw)
		rec := make([]byte, 16)
		copy(rec, t.tag)
		binary.BigEndian.PutUint32(rec[4:], t.sum)
		binary.BigEndian.PutUint32(rec[8:], offset)
		binary.BigEndian.PutUint32(rec[12:], uint32(len(raw)))
		out.Write(rec)
		offset += uint32((len(raw) + 3) &^ 3)
	}
	for _, d := range datas {
		out.Write(d)
		for out.Len()%4 != 0 {
			out.WriteByte(0)
		}
	}
	return out.Bytes(), nil
}

// face wraps a parsed font. sfnt.Font methods need a caller-owned buffer.
type face struct {
	f   *sfnt.Font
	buf sfnt.Buffer
	mu  sync.Mutex
}

// has reports whether the font maps r to a glyph; loadErr is the error of loading it.
func (fc *face) has(r rune) (ok bool, loadErr error) {
	fc.mu.Lock()
	defer fc.mu.Unlock()
	gi, err := fc.f.GlyphIndex(&fc.buf, r)
	if err != nil || gi == 0 {
		return false, nil
	}
	if _, err := fc.f.LoadGlyph(&fc.buf, gi, fixed.I(16), nil); err != nil {
		return true, err
	}
	return true, nil
}

var (
	faceCacheMu sync.Mutex
	faceCache   = map[[32]byte]*face{}
)

const woffPrefix = "data:application/font-woff;base64,"

// faceFromDataURI decodes a data:application/font-woff;base64 URI (cached: the appendix embeds
// full fonts, which are large).
func faceFromDataURI(uri string) (*face, error) {
	if !strings.HasPrefix(uri, woffPrefix) {
		return nil, fmt.Errorf("not a font-woff data URI")
	}
	key := sha256.Sum256([]byte(uri))
	faceCacheMu.Lock()
	fc := faceCache[key]
	faceCacheMu.Unlock()
	if fc != nil {
		return fc, nil
	}
	w, err := base64.StdEncoding.DecodeString(uri[len(woffPrefix):])
	if err != nil {
		return nil, fmt.Errorf("base64: %v", err)
	}
	s := w
	if len(w) >= 4 && (string(w[:4]) == "\x00\x01\x00\x00" || string(w[:4]) == "OTTO" || string(w[:4]) == "true") {
		// the appendix embeds d2's complete fonts: plain sfnt data under the font-woff media type
	} else if s, err = woffToSfnt(w); err != nil {
		return nil, fmt.Errorf("woff: %v", err)
	}
	f, err := sfnt.Parse(s)
	if err != nil {
		return nil, fmt.Errorf("sfnt: %v", err)
	}
	fc = &face{f: f}
	if len(uri) > 200000 {
		faceCacheMu.Lock()
		if len(faceCache) > 64 {
			faceCache = map[[32]byte]*face{}
		}
		faceCache[key] = fc
		faceCacheMu.Unlock()
	}
	return fc, nil
}

var (
	fullMu    sync.Mutex
	fullFaces = map[d2fonts.Font]*face{}
)

// fullFace parses the complete face d2 ships for a family and style.
func fullFace(fam d2fonts.FontFamily, style d2fonts.FontStyle) (*face, error) {
	key := fam.Font(0, style)
	fullMu.Lock()
	defer fullMu.Unlock()
	if fc, ok := fullFaces[key]; ok {
		return fc, nil
	}
	d2fonts.FontFamiliesMu.Lock()
	b := d2fonts.FontFaces.Get(key)
	d2fonts.FontFamiliesMu.Unlock()
	if len(b) == 0 {
		return nil, fmt.Errorf("no face for %v", key)
	}
	f, err := sfnt.Parse(b)
	if err != nil {
		return nil, err
	}
	fc := &face{f: f}
	fullFaces[key] = fc
	return fc, nil
}
