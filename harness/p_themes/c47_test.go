package p_themes

import (
	"encoding/xml"
	"fmt"
	"sort"
	"strings"
	"testing"
	"time"
	"unicode"

	"oss.terrastruct.com/d2/d2renderers/d2fonts"
	"oss.terrastruct.com/d2/d2renderers/d2svg"
	"oss.terrastruct.com/d2/d2renderers/d2svg/appendix"
	"oss.terrastruct.com/d2/d2target"
	"pgregory.net/rapid"

	"verif/harness/gen"
	"verif/harness/hx"
	"verif/harness/lay"
)

// C47: embedded fonts cover every character drawn with them.
type c47Case struct {
	Text     string `json:"text"`
	Theme    int64  `json:"theme"`
	Appendix bool   `json:"appendix,omitempty"` // run appendix.Append over the SVG (what the CLI does for PDF/PNG and --force-appendix)
}

// ---------------------------------------------------------------------------------------
// CSS: which font family does an element get?
// ---------------------------------------------------------------------------------------

type compound struct {
	tag     string
	classes []string
}

type fontRule struct {
	chain    []compound // descendant chain, outermost first
	families []string   // values of font-family, unquoted
	order    int
	spec     [2]int // (#classes, #tags)
}

// parseSelector parses one selector without commas: compounds of tag and .class joined by
// white space or '>' (treated as descendant). ok=false for anything else (pseudo classes,
// attributes, ids, universal).
func parseSelector(sel string) (chain []compound, ok bool) {
	sel = strings.ReplaceAll(sel, ">", " ")
	for _, part := range strings.Fields(sel) {
		if strings.ContainsAny(part, ":[#*+~()") {
			return nil, false
		}
		var c compound
		bits := strings.Split(part, ".")
		c.tag = strings.ToLower(bits[0])
		for _, b := range bits[1:] {
			if b == "" {
				return nil, false
			}
			c.classes = append(c.classes, b)
		}
		chain = append(chain, c)
	}
	return chain, len(chain) > 0
}

type elemInfo struct {
	tag     string
	space   string
	classes []string
}

func (c compound) matches(e elemInfo) bool {
	if c.tag != "" && c.tag != strings.ToLower(e.tag) {
		return false
	}
	for _, cl := range c.classes {
		found := false
		for _, ec := range e.classes {
			if ec == cl {
				found = true
				break
			}
		}
		if !found {
			return false
		}
	}
	return true
}

// ruleMatches: does the chain match the element at the end of stack (descendant semantics)?
func ruleMatches(chain []compound, stack []elemInfo) bool {
	if len(stack) == 0 || !chain[len(chain)-1].matches(stack[len(stack)-1]) {
		return false
	}
	ci := len(chain) - 2
	for si := len(stack) - 2; si >= 0 && ci >= 0; si-- {
		if chain[ci].matches(stack[si]) {
			ci--
		}
	}
	return ci < 0
}

type fontCSS struct {
	rules      []fontRule
	unparsed   [][]string          // families of font-family rules whose selector was not understood
	faces      map[string]string   // @font-face family -> data URI
	faceOrder  []string            // families in order of appearance
	duplicates map[string][]string // family declared more than once
}

func unquoteCSS(s string) string {
	s = strings.TrimSpace(s)
	s = strings.Trim(s, `"'`)
	return s
}

func readFontCSS(svg []byte) (*fontCSS, error) {
	fc := &fontCSS{faces: map[string]string{}, duplicates: map[string][]string{}}
	order := 0
	for _, sheet := range styleSheets(svg) {
		if !strings.Contains(sheet, "font-family") {
			continue
		}
		rules, err := parseCSS(sheet)
		if err != nil {
			return nil, err
		}
		for _, r := range rules {
			var fam, src string
			for _, d := range r.Decls {
				switch d[0] {
				case "font-family":
					fam = d[1]
				case "src":
					src = d[1]
				}
			}
			if fam == "" {
				continue
			}
			if r.Selector == "@font-face" {
				name := unquoteCSS(fam)
				uri := src
				if i := strings.Index(uri, "url("); i >= 0 {
					uri = uri[i+4:]
					if j := strings.LastIndex(uri, ")"); j >= 0 {
						uri = uri[:j]
					}
				}
				uri = unquoteCSS(uri)
				if old, dup := fc.faces[name]; dup && old != uri {
					fc.duplicates[name] = append(fc.duplicates[name], uri)
				} else if !dup {
					fc.faceOrder = append(fc.faceOrder, name)
				}
				// the last @font-face of a family wins in browsers
				fc.faces[name] = uri
				continue
			}
			var fams []string
			for _, f := range strings.Split(fam, ",") {
				fams = append(fams, unquoteCSS(f))
			}
			for _, sel := range strings.Split(r.Selector, ",") {
				order++
				chain, ok := parseSelector(sel)
				if !ok {
					fc.unparsed = append(fc.unparsed, fams)
					continue
				}
				fr := fontRule{chain: chain, families: fams, order: order}
				for _, c := range chain {
					fr.spec[0] += len(c.classes)
					if c.tag != "" {
						fr.spec[1]++
					}
				}
				fc.rules = append(fc.rules, fr)
			}
		}
	}
	return fc, nil
}

// familiesFor resolves font-family for the innermost element of stack: the cascade winner
// among the matching rules of the nearest ancestor-or-self that has one (font-family
// inherits).
func (fc *fontCSS) familiesFor(stack []elemInfo) []string {
	for n := len(stack); n > 0; n-- {
		var best *fontRule
		for i := range fc.rules {
			r := &fc.rules[i]
			if !ruleMatches(r.chain, stack[:n]) {
				continue
			}
			if best == nil || r.spec[0] > best.spec[0] || r.spec[0] == best.spec[0] && (r.spec[1] > best.spec[1] || r.spec[1] == best.spec[1] && r.order > best.order) {
				best = r
			}
		}
		if best != nil {
			if len(best.families) == 1 && best.families[0] == "inherit" {
				continue
			}
			return best.families
		}
	}
	return nil
}

// styleOfFamily maps an embedded family name ("<hash>-font-mono-bold", "font-regular") to the
// d2 face it is cut from.
func styleOfFamily(name string, d *d2target.Diagram) (d2fonts.FontFamily, d2fonts.FontStyle, bool) {
	i := strings.LastIndex(name, "font-")
	if i < 0 {
		return "", "", false
	}
	main, mono := d2fonts.SourceSansPro, d2fonts.SourceCodePro
	if d.FontFamily != nil {
		main = *d.FontFamily
	}
	if d.MonoFontFamily != nil {
		mono = *d.MonoFontFamily
	}
	hashed := i > 0 // the appendix adds unhashed families cut from SourceSansPro
	if !hashed {
		main = d2fonts.SourceSansPro
	}
	switch name[i+5:] {
	case "regular":
		return main, d2fonts.FONT_STYLE_REGULAR, true
	case "bold":
		return main, d2fonts.FONT_STYLE_BOLD, true
	case "italic":
		return main, d2fonts.FONT_STYLE_ITALIC, true
	case "semibold":
		return main, d2fonts.FONT_STYLE_SEMIBOLD, true
	case "mono":
		return mono, d2fonts.FONT_STYLE_REGULAR, true
	case "mono-bold":
		return mono, d2fonts.FONT_STYLE_BOLD, true
	case "mono-italic":
		return mono, d2fonts.FONT_STYLE_ITALIC, true
	}
	return "", "", false
}

// ---------------------------------------------------------------------------------------
// drawn text
// ---------------------------------------------------------------------------------------

type drawnText struct {
	text     string
	where    string   // e.g. text.text-bold, md/strong
	families []string // candidate families
}

// drawnTexts walks the SVG and returns every piece of character data that is drawn as text:
// inside <text> (SVG) or inside a <foreignObject> (HTML), outside style/title/desc/script.
func drawnTexts(svg []byte, fc *fontCSS) ([]drawnText, error) {
	dec := newDecoder(svg)
	var stack []elemInfo
	var out []drawnText
	for {
		tok, err := dec.Token()
		if err != nil {
			if err.Error() == "EOF" {
				return out, nil
			}
			return out, err
		}
		switch t := tok.(type) {
		case xml.StartElement:
			e := elemInfo{tag: t.Name.Local, space: t.Name.Space}
			for _, a := range t.Attr {
				if a.Name.Local == "class" {
					e.classes = strings.Fields(a.Value)
				}
			}
			stack = append(stack, e)
		case xml.EndElement:
			if len(stack) > 0 {
				stack = stack[:len(stack)-1]
			}
		case xml.CharData:
			s := string(t)
			if strings.TrimSpace(s) == "" {
				continue
			}
			inText, inHTML, skip := -1, -1, false
			for i, e := range stack {
				switch strings.ToLower(e.tag) {
				case "style", "title", "desc", "script", "metadata":
					skip = true
				case "text":
					if inText < 0 {
						inText = i
					}
				case "foreignobject":
					if inHTML < 0 {
						inHTML = i
					}
				}
			}
			if skip || inText < 0 && inHTML < 0 {
				continue
			}
			dt := drawnText{text: s, families: fc.familiesFor(stack)}
			if inText >= 0 {
				dt.where = "text." + strings.Join(stack[inText].classes, ".")
			} else {
				var tags []string
				for _, e := range stack[inHTML+1:] {
					tags = append(tags, strings.ToLower(e.tag))
				}
				if len(tags) > 3 {
					tags = tags[len(tags)-3:]
				}
				dt.where = "md/" + strings.Join(tags, "/")
				// rules the selector reader did not understand may also apply to HTML content
				for _, u := range fc.unparsed {
					dt.families = append(dt.families, u...)
				}
			}
			out = append(out, dt)
		}
	}
}

func skipRune(r rune) bool {
	// not drawn as glyphs: controls (line breaks, tabs in code) and the byte-order mark
	return unicode.IsControl(r) || r == 0xFEFF
}

func checkC47(h *hx.H, c c47Case) {
	h.Label(fmt.Sprintf("theme:%d", c.Theme))
	tid := c.Theme
	sketch := false
	ro := &d2svg.RenderOpts{ThemeID: &tid, Sketch: &sketch}
	ruler := lay.NewRuler()
	d, _, err := lay.RunWith(c.Text, "dagre", ro, ruler)
	if err != nil {
		h.Reject("layout-or-compile-error")
	}
	svg, err := d2svg.Render(d, ro)
	if err != nil {
		h.Reject("render-error")
	}
	if c.Appendix {
		svg = appendix.Append(d, ro, ruler, svg)
		h.Label("with-appendix")
	}
	fc, err := readFontCSS(svg)
	if err != nil {
		h.Failf("stylesheet-unparseable", "%v\n%s", err, c.Text)
	}
	type embedded struct {
		sub  *face
		full *face
		name string
	}
	emb := map[string]*embedded{}
	for _, name := range fc.faceOrder {
		uri := fc.faces[name]
		if !strings.HasPrefix(uri, woffPrefix) {
			h.Label("font-face-not-woff-data-uri")
			continue
		}
		sub, err := faceFromDataURI(uri)
		if err != nil {
			h.Failf("embedded-font-undecodable:"+name[strings.LastIndex(name, "font-")+5:], "@font-face %s: %v\n%s", name, err, c.Text)
		}
		fam, style, ok := styleOfFamily(name, d)
		if !ok {
			h.Label("font-face-with-unknown-name")
			continue
		}
		full, err := fullFace(fam, style)
		if err != nil {
			h.Reject("no-full-face")
		}
		emb[name] = &embedded{sub: sub, full: full, name: name}
		h.Label("embedded:" + name[strings.LastIndex(name, "font-")+5:])
	}
	if len(fc.duplicates) > 0 {
		h.Label("font-face-declared-twice")
	}
	texts, err := drawnTexts(svg, fc)
	if err != nil {
		h.Failf("svg-unparseable", "%v\n%s", err, c.Text)
	}
	nonASCII := map[rune]bool{}
	checked := int64(0)
	type miss struct {
		r     rune
		where string
		fams  []string
		load  error
	}
	var misses []miss
	seen := map[string]bool{}
	for _, dt := range texts {
		where := dt.where
		h.Label("drawn:" + c47Where(where))
		if len(dt.families) == 0 {
			h.Label("text-without-font-family:" + c47Where(where))
			continue
		}
		var cands []*embedded
		for _, f := range dt.families {
			if e := emb[f]; e != nil {
				cands = append(cands, e)
			}
		}
		if len(cands) == 0 {
			// the CSS names a family for which no font is embedded: the statement is about embedded subsets
			h.Label("family-not-embedded:" + c47Where(where))
			continue
		}
		for _, r := range dt.text {
			if skipRune(r) {
				continue
			}
			if r >= 0x80 {
				nonASCII[r] = true
			}
			key := fmt.Sprintf("%d|%s", r, strings.Join(dt.families, ","))
			if seen[key] {
				continue
			}
			seen[key] = true
			needed, ok := false, false
			var loadErr error
			for _, e := range cands {
				if has, _ := e.full.has(r); has {
					needed = true
				}
				if has, lerr := e.sub.has(r); has {
					if lerr != nil {
						loadErr = lerr
					} else {
						ok = true
					}
				}
			}
			checked++
			if needed && !ok {
				misses = append(misses, miss{r, where, dt.families, loadErr})
			}
		}
	}
	h.AddExtra("runes_checked", checked)
	if len(misses) > 0 {
		sort.Slice(misses, func(i, j int) bool { return misses[i].where < misses[j].where || misses[i].where == misses[j].where && misses[i].r < misses[j].r })
		bySig := map[string][]miss{}
		var sigs []string
		for _, m := range misses {
			kind := "missing-glyph"
			if m.load != nil {
				kind = "glyph-does-not-load"
			}
			var sig string
			switch origin := c47Origin(c.Text, m.r, m.where); origin {
			case "generated-nbsp", "generated-from-html-entity":
				// one construct each, whatever face it lands in
				sig = kind + ":" + origin + ":" + strings.SplitN(c47Where(m.where), ".", 2)[0]
				sig = strings.SplitN(sig, "/", 2)[0]
			default:
				style := "?"
				if len(m.fams) > 0 {
					if i := strings.LastIndex(m.fams[0], "font-"); i >= 0 {
						style = m.fams[0][i+5:]
					}
				}
				sig = kind + ":" + origin + ":" + c47Where(m.where) + ":" + style
			}
			if _, ok := bySig[sig]; !ok {
				sigs = append(sigs, sig)
			}
			bySig[sig] = append(bySig[sig], m)
		}
		for _, sig := range sigs {
			ms := bySig[sig]
			var sb strings.Builder
			for i, m := range ms {
				if i >= 12 {
					fmt.Fprintf(&sb, " … (%d more)", len(ms)-i)
					break
				}
				fmt.Fprintf(&sb, " %q U+%04X", m.r, m.r)
				if m.load != nil {
					fmt.Fprintf(&sb, " (%v)", m.load)
				}
			}
			h.FailSoft(sig, "theme %d: drawn in %s with font-family %v: the full face has a glyph, the embedded subset has none for:%s\n%s", c.Theme, ms[0].where, ms[0].fams, sb.String(), c.Text)
		}
	}
	h.NonTrivial(len(nonASCII) >= 10)
	if len(nonASCII) >= 10 {
		h.Label("non-ascii-runes:10+")
	}
}

// c47Origin says where a drawn rune comes from: literally from the source, or produced on the
// way to the SVG (code blocks draw blanks as U+00A0, markdown decodes HTML entities, text
// transforms change letters).
func c47Origin(src string, r rune, where string) string {
	switch {
	case strings.ContainsRune(src, r):
		return "in-source"
	case r == 0xA0 && (strings.HasPrefix(where, "text") || !strings.Contains(src, "&nbsp;")):
		return "generated-nbsp"
	case strings.HasPrefix(where, "md") && strings.Contains(src, "&") && strings.Contains(src, ";"):
		return "generated-from-html-entity"
	default:
		return "generated"
	}
}

// c47Where reduces the place of a fragment to its kind for the signature.
func c47Where(where string) string {
	if strings.HasPrefix(where, "md/") {
		p := strings.Split(where, "/")
		return "md/" + p[len(p)-1]
	}
	// text.<font class>[.other classes]
	p := strings.Split(where, ".")
	if len(p) > 1 {
		return "text." + p[1]
	}
	return where
}

// ---------------------------------------------------------------------------------------
// generation
// ---------------------------------------------------------------------------------------

type runeRange struct {
	name   string
	lo, hi rune
}

var c47Ranges = []runeRange{
	{"latin1", 0xA1, 0xFF}, {"latin-ext-a", 0x100, 0x17F}, {"latin-ext-b", 0x180, 0x24F}, {"ipa", 0x250, 0x2AF},
	{"spacing-modifiers", 0x2B0, 0x2FF}, {"combining", 0x300, 0x36F}, {"greek", 0x370, 0x3FF}, {"cyrillic", 0x400, 0x4FF},
	{"cyrillic-supplement", 0x500, 0x52F}, {"latin-ext-additional", 0x1E00, 0x1EFF}, {"greek-extended", 0x1F00, 0x1FFF},
	{"general-punctuation", 0x2010, 0x2027}, {"general-punctuation-2", 0x2030, 0x205E}, {"super-subscripts", 0x2070, 0x209F},
	{"currency", 0x20A0, 0x20BF}, {"letterlike", 0x2100, 0x214F}, {"number-forms", 0x2150, 0x218F}, {"arrows", 0x2190, 0x21FF},
	{"math", 0x2200, 0x22FF}, {"technical", 0x2300, 0x23FF}, {"box-drawing", 0x2500, 0x257F}, {"geometric", 0x2580, 0x25FF},
	{"misc-symbols", 0x2600, 0x26FF}, {"dingbats", 0x2700, 0x27BF}, {"presentation-forms", 0xFB00, 0xFB06},
	{"cjk", 0x4E00, 0x4E7F}, {"kana", 0x3041, 0x30FF}, {"emoji", 0x1F600, 0x1F64F}, {"math-alnum", 0x1D400, 0x1D4FF}, {"specials", 0xFFFC, 0xFFFD},
	{"ascii-punct", 0x21, 0x2F}, {"ascii-punct-2", 0x3A, 0x40}, {"ascii-punct-3", 0x5B, 0x60}, {"ascii-punct-4", 0x7B, 0x7E},
}

// c47Word draws 1-8 runes from one range (weighted towards the ranges the fonts cover) or
// an ASCII word. md: leave out characters that are mark-up in markdown / block strings.
func c47Word(t *rapid.T, md bool) string {
	if gen.Pick(t, "wordkind", 3, 1) == 1 {
		return rapid.SampledFrom([]string{"Hello", "label", "Service", "x", "42", "OK", "user", "v1", "Zz", "fi", "AVA"}).Draw(t, "asciiword")
	}
	var rr runeRange
	switch gen.Pick(t, "rangekind", 5, 2) {
	case 0:
		rr = c47Ranges[rapid.IntRange(0, 19).Draw(t, "rangeA")]
	default:
		rr = c47Ranges[rapid.IntRange(0, len(c47Ranges)-1).Draw(t, "rangeB")]
	}
	n := rapid.IntRange(1, 8).Draw(t, "wlen")
	var sb strings.Builder
	for i := 0; i < n; i++ {
		r := rune(rapid.IntRange(int(rr.lo), int(rr.hi)).Draw(t, "r"))
		if md && strings.ContainsRune("|`*_[]<>&#\\!()~-+.:\"'$={}/", r) {
			r = 'q'
		}
		if !md && (r == '|' || r == '`') {
			r = 'q'
		}
		if rr.name == "combining" && i == 0 {
			sb.WriteByte('a')
		}
		sb.WriteRune(r)
	}
	return sb.String()
}

func c47Words(t *rapid.T, md bool, max int) string {
	n := rapid.IntRange(1, max).Draw(t, "nwords")
	var ws []string
	for i := 0; i < n; i++ {
		ws = append(ws, c47Word(t, md))
	}
	return strings.Join(ws, " ")
}

func c47Styles(t *rapid.T, edge bool) []string {
	var out []string
	if gen.Pick(t, "bold", 3, 1) == 1 {
		out = append(out, "style.bold: "+rapid.SampledFrom([]string{"true", "false"}).Draw(t, "boldv"))
	}
	if gen.Pick(t, "italic", 3, 1) == 1 {
		out = append(out, "style.italic: true")
	}
	if gen.Pick(t, "mono", 3, 1) == 1 {
		out = append(out, "style.font: mono")
	}
	if gen.Pick(t, "underline", 6, 1) == 1 {
		out = append(out, "style.underline: true")
	}
	if gen.Pick(t, "tt", 2, 1) == 1 {
		out = append(out, "style.text-transform: "+rapid.SampledFrom([]string{"uppercase", "lowercase", "capitalize", "none"}).Draw(t, "ttv"))
	}
	return out
}

func c47Markdown(t *rapid.T) string {
	var lines []string
	n := rapid.IntRange(1, 4).Draw(t, "mdlines")
	for i := 0; i < n; i++ {
		w := func() string { return c47Words(t, true, 3) }
		switch gen.Pick(t, "mdkind", 4, 3, 2, 2, 2, 1, 1, 1, 1, 1) {
		case 0:
			lines = append(lines, w())
		case 1:
			lines = append(lines, strings.Repeat("#", rapid.IntRange(1, 6).Draw(t, "hlevel"))+" "+w())
		case 2:
			lines = append(lines, "**"+w()+"** and *"+w()+"*")
		case 3:
			lines = append(lines, "`"+w()+"` "+w())
		case 4:
			lines = append(lines, "- "+w(), "- "+w())
		case 5:
			lines = append(lines, "> "+w())
		case 6:
			lines = append(lines, "| "+w()+" | "+w()+" |", "|---|---|", "| "+w()+" | "+w()+" |")
		case 7:
			lines = append(lines, "~~"+w()+"~~ ["+w()+"](https://example.com)")
		case 8:
			lines = append(lines, "***"+w()+"*** <kbd>"+c47Word(t, true)+"</kbd>")
		default:
			lines = append(lines, w()+" "+rapid.SampledFrom([]string{"&copy;", "&amp;", "&#937;", "&euro;", "&nbsp;x", "&hellip;", "&mdash;"}).Draw(t, "entity"))
		}
		lines = append(lines, "")
	}
	return strings.Join(lines, "\n")
}

func c47Block(tag, body, indent string) string {
	var sb strings.Builder
	sb.WriteString("|||" + tag + "\n")
	for _, l := range strings.Split(body, "\n") {
		sb.WriteString(indent + "  " + l + "\n")
	}
	sb.WriteString(indent + "|||")
	return sb.String()
}

func genC47(t *rapid.T) c47Case {
	c := c47Case{}
	c.Theme = []int64{0, 300, 0, 301, 1, 3, 200, 303, 302, 0}[rapid.IntRange(0, 9).Draw(t, "theme")]
	c.Appendix = gen.Pick(t, "appendix", 3, 1) == 1
	var sb strings.Builder
	if gen.Pick(t, "legend", 4, 1) == 1 {
		sb.WriteString("vars: {\n  d2-legend: " + gen.QuoteValue(c47Words(t, false, 2)) + " {\n")
		sb.WriteString("    la: " + gen.QuoteValue(c47Words(t, false, 2)) + "\n    lb: " + gen.QuoteValue(c47Words(t, false, 2)) + " {shape: cylinder}\n")
		sb.WriteString("    la -> lb: " + gen.QuoteValue(c47Words(t, false, 2)) + "\n  }\n}\n")
	}
	n := rapid.IntRange(2, 5).Draw(t, "nshapes")
	for i := 0; i < n; i++ {
		key := fmt.Sprintf("s%d", i)
		switch gen.Pick(t, "shapekind", 5, 2, 2, 2, 2, 1, 1) {
		case 0: // plain / styled shape
			fmt.Fprintf(&sb, "%s: %s {\n", key, gen.QuoteValue(c47Words(t, false, 4)))
			if gen.Pick(t, "hasshape", 1, 1) == 1 {
				fmt.Fprintf(&sb, "  shape: %s\n", rapid.SampledFrom(gen.SimpleShapes).Draw(t, "shape"))
			}
			for _, s := range c47Styles(t, false) {
				sb.WriteString("  " + s + "\n")
			}
			if gen.Pick(t, "tip", 2, 1) == 1 {
				fmt.Fprintf(&sb, "  tooltip: %s\n", gen.QuoteValue(c47Words(t, false, 4)))
				if gen.Pick(t, "tipnear", 3, 1) == 1 {
					fmt.Fprintf(&sb, "  tooltip.near: %s\n", rapid.SampledFrom([]string{"top-center", "bottom-right", "center-left"}).Draw(t, "tipnearv"))
				}
			}
			if gen.Pick(t, "link", 3, 1) == 1 {
				fmt.Fprintf(&sb, "  link: %s\n", gen.QuoteValue("https://example.com/"+c47Word(t, false)))
			}
			sb.WriteString("}\n")
		case 1: // class
			fmt.Fprintf(&sb, "%s: %s {\n  shape: class\n", key, gen.QuoteValue(c47Words(t, false, 2)))
			k := rapid.IntRange(1, 3).Draw(t, "nfields")
			for j := 0; j < k; j++ {
				vis := rapid.SampledFrom([]string{"", "+", "-", "\\#"}).Draw(t, "vis")
				name := c47Word(t, false) + fmt.Sprint(j)
				if rapid.Bool().Draw(t, "method") {
					fmt.Fprintf(&sb, "  %s: %s\n", gen.QuoteValue(strings.ReplaceAll(vis, "\\", "")+name+"("+c47Word(t, false)+")"), gen.QuoteValue(c47Word(t, false)))
				} else {
					fmt.Fprintf(&sb, "  %s: %s\n", gen.QuoteValue(strings.ReplaceAll(vis, "\\", "")+name), gen.QuoteValue(c47Word(t, false)))
				}
			}
			sb.WriteString("}\n")
		case 2: // sql_table
			fmt.Fprintf(&sb, "%s: %s {\n  shape: sql_table\n", key, gen.QuoteValue(c47Words(t, false, 2)))
			k := rapid.IntRange(1, 3).Draw(t, "ncols")
			for j := 0; j < k; j++ {
				fmt.Fprintf(&sb, "  %s: %s", gen.QuoteValue(c47Word(t, false)+fmt.Sprint(j)), gen.QuoteValue(c47Word(t, false)))
				switch gen.Pick(t, "constraint", 2, 1, 1, 1) {
				case 1:
					sb.WriteString(" {constraint: primary_key}")
				case 2:
					sb.WriteString(" {constraint: [foreign_key; unique]}")
				case 3:
					sb.WriteString(" {constraint: " + gen.QuoteValue(c47Word(t, false)) + "}")
				}
				sb.WriteString("\n")
			}
			sb.WriteString("}\n")
		case 3: // code
			var ls []string
			for j, k := 0, rapid.IntRange(1, 3).Draw(t, "ncode"); j < k; j++ {
				ls = append(ls, rapid.SampledFrom([]string{"x := ", "// ", "s = \"", "print(", ""}).Draw(t, "codepre")+c47Words(t, true, 3))
			}
			fmt.Fprintf(&sb, "%s: %s\n", key, c47Block(rapid.SampledFrom([]string{"go", "js", "txt", "python"}).Draw(t, "lang"), strings.Join(ls, "\n"), ""))
		case 4: // markdown
			fmt.Fprintf(&sb, "%s: %s\n", key, c47Block("md", c47Markdown(t), ""))
		case 5: // text shape
			fmt.Fprintf(&sb, "%s: %s {\n  shape: text\n", key, gen.QuoteValue(c47Words(t, false, 4)))
			for _, s := range c47Styles(t, false) {
				sb.WriteString("  " + s + "\n")
			}
			sb.WriteString("}\n")
		default: // container with a child
			fmt.Fprintf(&sb, "%s: %s {\n  c: %s\n", key, gen.QuoteValue(c47Words(t, false, 3)), gen.QuoteValue(c47Words(t, false, 3)))
			for _, s := range c47Styles(t, false) {
				sb.WriteString("  " + s + "\n")
			}
			sb.WriteString("}\n")
		}
	}
	m := rapid.IntRange(1, 3).Draw(t, "nedges")
	for i := 0; i < m; i++ {
		a, b := rapid.IntRange(0, n-1).Draw(t, "ea"), rapid.IntRange(0, n-1).Draw(t, "eb")
		fmt.Fprintf(&sb, "s%d %s s%d: %s {\n", a, rapid.SampledFrom([]string{"->", "<->", "--", "<-"}).Draw(t, "arrow"), b, gen.QuoteValue(c47Words(t, false, 3)))
		for _, s := range c47Styles(t, true) {
			sb.WriteString("  " + s + "\n")
		}
		if gen.Pick(t, "srclabel", 2, 1) == 1 {
			fmt.Fprintf(&sb, "  source-arrowhead.label: %s\n", gen.QuoteValue(c47Word(t, false)))
		}
		if gen.Pick(t, "dstlabel", 1, 1) == 1 {
			fmt.Fprintf(&sb, "  target-arrowhead.label: %s\n", gen.QuoteValue(c47Word(t, false)))
		}
		sb.WriteString("}\n")
	}
	c.Text = sb.String()
	return c
}

var c47Snippets = []string{
	"a: Ünïcödé Ω λ ж ✓ → 漢\nb: |md **bold ß** *ital ç* `code é` |\na -> b: édge {source-arrowhead.label: ñ; target-arrowhead.label: ø}\nc: {\n  shape: class\n  \"+fé()\": ü\n  \"-ğ\": Ş\n}\n",
	"t: Tàblé {\n  shape: sql_table\n  \"íd\": \"ïnt\" {constraint: primary_key}\n  \"nömbre\": \"várchar\" {constraint: [foreign_key; unique]}\n}\nc: |||go\n  s := \"Größe → Ελλάδα\" // Кириллица\n|||\nt -> c: ŧēxt\n",
	"a: straße {style.text-transform: uppercase}\nb: ÉCOLE ΑΘΉΝΑ {style.text-transform: lowercase}\nc: ǆungla ﬁn ǳ {style.text-transform: capitalize}\na -> b: ǰ ŉ ΐ {style.text-transform: uppercase}\nb -> c: İstanbul {style.text-transform: lowercase}\n",
	"a: Bøld {style.bold: true}\nb: Ítalic {style.italic: true}\nc: Mönø {style.font: mono}\nd: Mönø bøld {style.font: mono; style.bold: true}\ne: Mönø ítalic {style.font: mono; style.italic: true}\na -> b: ünderlined {style.underline: true}\nc -> d: ŵ {style.font: mono; style.italic: true}\n",
	"a: Tööltip {tooltip: Ťhe tîp ½; link: \"https://example.com/ünï\"}\nb: Nëar {tooltip: \"**bøld** tïp ¾\"; tooltip.near: top-center}\nc: x {link: \"https://d2lang.com/ſ\"}\na -> b: ¹²³\n",
	"vars: {\n  d2-legend: \"Légende §\" {\n    la: Mícroservice\n    lb: Dàtabase {shape: cylinder}\n    la -> lb: Gööd ↔\n  }\n}\nx: ẍ\ny: ÿ\nx -> y: ŷ\n",
	"m: |||md\n  # Héading Ω\n  ## Sécond ж\n  text *ïtalic* **bøld** ***bóth*** `cödé` ~~strück~~\n\n  - îtem ①\n  > qüote ‰\n\n  | cöl | ÿ |\n  |---|---|\n  | á | ß |\n\n  &copy; &euro; &#937;\n|||\nn: ñ\nm -> n: |md **cønn** *ë* |\n",
	"a: á ê ö ﬁ ﬂ ǅ ẞ ſ ŀ ĳ\nb: ← ↑ → ↓ ↔ ⇒ ∀ ∂ ∑ √ ∞ ≈ ≠ ≤ ≥\nc: ─ │ ┌ ┐ └ ┘ ■ □ ▲ ● ◆ ★ ☆ ♠ ♥ ✓ ✗\na -> b: € £ ¥ ₹ ₽ ₿ № ™ ℃ Ω\nb -> c: ⅓ ⅔ ⅛ Ⅳ ⁰ ⁴ ₂ ‰ † ‡ • … ‹ › “ ”\n",
}

func coreC47() []c47Case {
	var out []c47Case
	for i, s := range c47Snippets {
		for j, th := range []int64{0, 300, 301, 200} {
			out = append(out, c47Case{Text: s, Theme: th, Appendix: (i+j)%2 == 0})
		}
	}
	return out
}

func TestC47(t *testing.T) {
	hx.Run(t, hx.Spec[c47Case]{Prop: "C47", Core: coreC47, Gen: genC47, Check: checkC47, Timeout: 300 * time.Second})
}
