package p_themes

import (
	"bytes"
	"encoding/xml"
	"fmt"
	"os"
	"path/filepath"
	"regexp"
	"strings"

	"oss.terrastruct.com/d2/d2themes"
)

// ---------------------------------------------------------------------------------------
// Theme data: the 18 colour codes and the catalog colour behind each code (plain data access,
// written independently of d2themes.ResolveThemeColor / Theme.ApplyOverrides).
// ---------------------------------------------------------------------------------------

var themeCodes = []string{"N1", "N2", "N3", "N4", "N5", "N6", "N7", "B1", "B2", "B3", "B4", "B5", "B6", "AA2", "AA4", "AA5", "AB4", "AB5"}

var themeProps = []string{"fill", "stroke", "background-color", "color"}

func catalogColor(th d2themes.Theme, code string) string {
	c, n := th.Colors, th.Colors.Neutrals
	switch code {
	case "N1":
		return n.N1
	case "N2":
		return n.N2
	case "N3":
		return n.N3
	case "N4":
		return n.N4
	case "N5":
		return n.N5
	case "N6":
		return n.N6
	case "N7":
		return n.N7
	case "B1":
		return c.B1
	case "B2":
		return c.B2
	case "B3":
		return c.B3
	case "B4":
		return c.B4
	case "B5":
		return c.B5
	case "B6":
		return c.B6
	case "AA2":
		return c.AA2
	case "AA4":
		return c.AA4
	case "AA5":
		return c.AA5
	case "AB4":
		return c.AB4
	case "AB5":
		return c.AB5
	}
	panic("unknown theme code " + code)
}

// ---------------------------------------------------------------------------------------
// A small CSS reader: rules with their enclosing @media query ("" at top level).
// ---------------------------------------------------------------------------------------

type cssRule struct {
	Media    string
	Selector string
	Decls    [][2]string
}

func normSpace(s string) string { return strings.Join(strings.Fields(s), " ") }

// parseCSS reads a stylesheet made of plain rules, @font-face and (possibly nested) @media /
// @keyframes / @supports blocks. Comments are removed first.
func parseCSS(s string) ([]cssRule, error) {
	for {
		i := strings.Index(s, "/*")
		if i < 0 {
			break
		}
		j := strings.Index(s[i+2:], "*/")
		if j < 0 {
			s = s[:i]
			break
		}
		s = s[:i] + " " + s[i+2+j+2:]
	}
	var out []cssRule
	var media []string
	pos := 0
	for pos < len(s) {
		// skip white space
		for pos < len(s) && (s[pos] == ' ' || s[pos] == '\n' || s[pos] == '\t' || s[pos] == '\r') {
			pos++
		}
		if pos >= len(s) {
			break
		}
		if s[pos] == '}' {
			if len(media) == 0 {
				return nil, fmt.Errorf("unbalanced } at %d", pos)
			}
			media = media[:len(media)-1]
			pos++
			continue
		}
		open := strings.IndexByte(s[pos:], '{')
		if open < 0 {
			if strings.TrimSpace(s[pos:]) == "" {
				break
			}
			return nil, fmt.Errorf("trailing text %q", s[pos:min(len(s), pos+40)])
		}
		prelude := normSpace(s[pos : pos+open])
		pos += open + 1
		if strings.HasPrefix(prelude, "@media") || strings.HasPrefix(prelude, "@keyframes") || strings.HasPrefix(prelude, "@supports") {
			media = append(media, prelude)
			continue
		}
		cl := strings.IndexByte(s[pos:], '}')
		if cl < 0 {
			return nil, fmt.Errorf("unterminated rule %q", prelude)
		}
		body := s[pos : pos+cl]
		pos += cl + 1
		r := cssRule{Media: strings.Join(media, " / "), Selector: prelude}
		for _, d := range splitDecls(body) {
			k, v, ok := strings.Cut(d, ":")
			if !ok {
				continue
			}
			r.Decls = append(r.Decls, [2]string{strings.TrimSpace(k), strings.TrimSpace(v)})
		}
		out = append(out, r)
	}
	if len(media) != 0 {
		return nil, fmt.Errorf("unterminated block %q", media[len(media)-1])
	}
	return out, nil
}

// splitDecls splits on ';' outside quotes and parentheses (data: URIs contain ';').
func splitDecls(body string) []string {
	var out []string
	depth, quote, start := 0, byte(0), 0
	for i := 0; i < len(body); i++ {
		ch := body[i]
		switch {
		case quote != 0:
			if ch == quote {
				quote = 0
			}
		case ch == '"' || ch == '\'':
			quote = ch
		case ch == '(':
			depth++
		case ch == ')':
			if depth > 0 {
				depth--
			}
		case ch == ';' && depth == 0:
			if t := strings.TrimSpace(body[start:i]); t != "" {
				out = append(out, t)
			}
			start = i + 1
		}
	}
	if t := strings.TrimSpace(body[start:]); t != "" {
		out = append(out, t)
	}
	return out
}

var styleElemRe = regexp.MustCompile(`(?s)<style[^>]*>(.*?)</style>`)

// styleSheets returns the text of every <style> element (CDATA wrapper removed).
func styleSheets(svg []byte) []string {
	var out []string
	for _, m := range styleElemRe.FindAllSubmatch(svg, -1) {
		s := string(m[1])
		s = strings.TrimSpace(s)
		s = strings.TrimPrefix(s, "<![CDATA[")
		s = strings.TrimSuffix(s, "]]>")
		out = append(out, s)
	}
	return out
}

// ---------------------------------------------------------------------------------------
// SVG walking
// ---------------------------------------------------------------------------------------

type svgElem struct {
	Name    string
	Space   string
	Attr    map[string]string
	Classes []string
	// Ancestors' names, outermost first
	Path []string
}

func newDecoder(svg []byte) *xml.Decoder {
	dec := xml.NewDecoder(bytes.NewReader(svg))
	dec.Strict = false
	dec.AutoClose = xml.HTMLAutoClose
	dec.Entity = xml.HTMLEntity
	return dec
}

// walkSVG calls f for every start element.
func walkSVG(svg []byte, f func(e *svgElem)) error {
	dec := newDecoder(svg)
	var path []string
	for {
		tok, err := dec.Token()
		if err != nil {
			if err.Error() == "EOF" {
				return nil
			}
			return err
		}
		switch t := tok.(type) {
		case xml.StartElement:
			e := &svgElem{Name: t.Name.Local, Space: t.Name.Space, Attr: map[string]string{}, Path: append([]string(nil), path...)}
			for _, a := range t.Attr {
				if a.Name.Space == "" || a.Name.Space == t.Name.Space {
					e.Attr[a.Name.Local] = a.Value
				}
			}
			e.Classes = strings.Fields(e.Attr["class"])
			f(e)
			path = append(path, t.Name.Local)
		case xml.EndElement:
			if len(path) > 0 {
				path = path[:len(path)-1]
			}
		}
	}
}

// ---------------------------------------------------------------------------------------
// Locations
// ---------------------------------------------------------------------------------------

func cliPath() string {
	b := os.Getenv("VERIF_BIN")
	if b == "" {
		root := os.Getenv("VERIF_ROOT")
		if root == "" {
			root = "/verif"
		}
		b = filepath.Join(root, "work", "bin")
	}
	return filepath.Join(b, "d2")
}

func workDir() (string, error) {
	w := os.Getenv("VERIF_WORK")
	if w == "" || !filepath.IsAbs(w) {
		return os.MkdirTemp("", "p_themes-work-")
	}
	if err := os.MkdirAll(w, 0o755); err != nil {
		return "", err
	}
	return os.MkdirTemp(w, "c-")
}
