package p_themes

import (
	"fmt"
	"runtime/debug"
	"sort"
	"strings"
	"testing"
	"time"
	"unicode/utf8"

	"oss.terrastruct.com/d2/d2renderers/d2ascii"
	"oss.terrastruct.com/d2/d2renderers/d2ascii/charset"
	"oss.terrastruct.com/d2/d2target"
	"pgregory.net/rapid"

	"verif/harness/gen"
	"verif/harness/hx"
	"verif/harness/lay"
)

// C32: ASCII rendering is total and keeps labels visible.
type c32Case struct {
	Text string `json:"text"`
	// Class "ascii": the whole source is 7-bit ASCII, so every byte of the standard-charset
	// output must be 7-bit. Class "unicode": labels may be anything; totality only (plus the
	// label clause, which the statement does not restrict to ASCII labels).
	Class  string    `json:"class"`
	Scales []float64 `json:"scales,omitempty"` // 0 = no Scale option
}

func isASCII(s string) bool {
	for i := 0; i < len(s); i++ {
		if s[i] >= 0x80 {
			return false
		}
	}
	return true
}

func printableASCII(s string) bool {
	for i := 0; i < len(s); i++ {
		if s[i] < 0x20 || s[i] > 0x7e {
			return false
		}
	}
	return true
}

// renderASCII calls the renderer the way d2cli's _render does and converts a panic into a
// signature (so the remaining variants of the case are still checked for known findings).
func renderASCII(d *d2target.Diagram, cs charset.Type, scale float64) (out []byte, err error, panicSig, panicMsg string) {
	defer func() {
		if x := recover(); x != nil {
			st := debug.Stack()
			panicSig = hx.PanicSig(st)
			panicMsg = fmt.Sprintf("%v\n%s", x, firstFrames(st, 14))
		}
	}()
	opts := &d2ascii.RenderOpts{Charset: cs}
	if scale != 0 {
		opts.Scale = &scale
	}
	out, err = d2ascii.NewASCIIartist().Render(lay.Ctx(), d, opts)
	return
}

func firstFrames(st []byte, n int) string {
	var out []string
	for _, l := range strings.Split(string(st), "\n") {
		if strings.Contains(l, "oss.terrastruct.com/d2/") || strings.Contains(l, "/d2renderers/") {
			out = append(out, l)
			if len(out) >= n {
				break
			}
		}
	}
	return strings.Join(out, "\n")
}

// plainLabelled returns the shapes of the label clause: childless rectangles/squares whose
// single-line label is drawn inside (the default position), without an icon.
func plainLabelled(d *d2target.Diagram) []d2target.Shape {
	var out []d2target.Shape
	for _, s := range d.Shapes {
		if s.Type != d2target.ShapeRectangle && s.Type != d2target.ShapeSquare {
			continue
		}
		if strings.TrimSpace(s.Label) == "" || strings.Contains(s.Label, "\n") || s.Icon != nil || s.LabelPosition != "INSIDE_MIDDLE_CENTER" {
			continue
		}
		if s.Language != "" {
			continue
		}
		child := false
		for _, o := range d.Shapes {
			if strings.HasPrefix(o.ID, s.ID+".") {
				child = true
				break
			}
		}
		if child {
			continue
		}
		out = append(out, s)
	}
	return out
}

// c32Classify says why the label lbl (carried by the plain shapes ss) is missing from the
// output; it decides the signature. The culprit is found by experiment: the same diagram is
// rendered again without connection labels, then without connections.
//
//	overlap                         the LAYOUT puts an unrelated shape over the box (not asserted)
//	non-ascii-label                 multi-byte characters
//	overwritten-by-connection-label the label is back when connection/arrowhead labels are blanked
//	overwritten-by-route            the label is back when the connections are removed
//	label-wider-than-box            some label has more characters than its box has columns (the renderer widens
//	                                the box or lets the label overflow) and the label is back when the other
//	                                shapes' labels are blanked, or it is the lost label itself
//	overwritten-by-other-shape-label the label is back when the other shapes' labels are blanked (none too wide)
//	in-sequence / multiple / 3d / plain
func c32Classify(d *d2target.Diagram, lbl string, ss []d2target.Shape, need int, cs charset.Type, scale float64) string {
	// (multi-byte labels used to be placed by byte offsets - repaired in d2 470f81540; they are
	// classified like any other label now)
	for _, s := range ss {
		x0, y0, x1, y1 := float64(s.Pos.X), float64(s.Pos.Y), float64(s.Pos.X+s.Width), float64(s.Pos.Y+s.Height)
		for _, o := range d.Shapes {
			if o.ID == s.ID || strings.HasPrefix(s.ID, o.ID+".") || strings.HasPrefix(o.ID, s.ID+".") {
				continue
			}
			ox0, oy0, ox1, oy1 := float64(o.Pos.X), float64(o.Pos.Y), float64(o.Pos.X+o.Width), float64(o.Pos.Y+o.Height)
			if ox0 < x1-1 && x0 < ox1-1 && oy0 < y1-1 && y0 < oy1-1 {
				return "overlap"
			}
		}
	}
	found := func(d2 *d2target.Diagram) bool {
		out, err, psig, _ := renderASCII(d2, cs, scale)
		return psig == "" && err == nil && strings.Count(string(out), lbl) >= need
	}
	noLabels := *d
	noLabels.Connections = append([]d2target.Connection(nil), d.Connections...)
	for i := range noLabels.Connections {
		noLabels.Connections[i].Label = ""
		noLabels.Connections[i].SrcLabel = nil
		noLabels.Connections[i].DstLabel = nil
	}
	if found(&noLabels) {
		return "overwritten-by-connection-label"
	}
	noConns := *d
	noConns.Connections = nil
	if found(&noConns) {
		return "overwritten-by-route"
	}
	// another shape's label: a label with more characters than its box has columns makes the
	// renderer widen that box (rectangles) or simply overflows it (package, document, ...)
	wider := func(o d2target.Shape) bool {
		for _, line := range strings.Split(o.Label, "\n") {
			if len(line)+2 > int(float64(o.Width)/9.75+0.5) {
				return true
			}
		}
		return false
	}
	mine := map[string]bool{}
	for _, s := range ss {
		mine[s.ID] = true
	}
	noOthers := *d
	noOthers.Shapes = append([]d2target.Shape(nil), d.Shapes...)
	otherWider := false
	for i := range noOthers.Shapes {
		if !mine[noOthers.Shapes[i].ID] {
			if noOthers.Shapes[i].Label != "" && wider(noOthers.Shapes[i]) {
				otherWider = true
			}
			noOthers.Shapes[i].Label = ""
		}
	}
	if found(&noOthers) {
		if otherWider {
			return "label-wider-than-box"
		}
		return "overwritten-by-other-shape-label"
	}
	var tags []string
	tag := func(t string) {
		for _, x := range tags {
			if x == t {
				return
			}
		}
		tags = append(tags, t)
	}
	for _, s := range ss {
		if wider(s) {
			return "label-wider-than-box"
		}
		parent := s.ID
		for {
			i := strings.LastIndex(parent, ".")
			if i < 0 {
				break
			}
			parent = parent[:i]
			for _, o := range d.Shapes {
				if o.ID == parent && o.Type == d2target.ShapeSequenceDiagram {
					tag("in-sequence")
				}
			}
		}
		if s.Multiple {
			tag("multiple")
		}
		if s.ThreeDee {
			tag("3d")
		}
	}
	if len(tags) == 0 {
		return "plain"
	}
	sort.Strings(tags)
	return strings.Join(tags, "+")
}

func checkC32(h *hx.H, c c32Case) {
	h.Label("class:" + c.Class)
	if c.Class == "ascii" && !isASCII(c.Text) {
		h.Reject("ascii-class-with-non-ascii-source")
	}
	d, _, err := lay.Run(c.Text, "elk", nil)
	if err != nil {
		h.Reject("layout-or-compile-error")
	}
	labelled := 0
	for _, cn := range d.Connections {
		if cn.Label != "" {
			labelled++
		}
		if cn.SrcLabel != nil || cn.DstLabel != nil {
			h.Label("has:arrowhead-label")
		}
	}
	types := map[string]bool{}
	for _, s := range d.Shapes {
		types[s.Type] = true
	}
	for ty := range types {
		h.Label("shape:" + ty)
	}
	plain := plainLabelled(d)
	if len(plain) > 0 {
		h.Label("has:plain-labelled-shape")
	}
	scales := c.Scales
	if len(scales) == 0 {
		scales = []float64{0}
	}
	for _, cs := range []charset.Type{charset.ASCII, charset.Unicode} {
		csName := "unicode"
		if cs == charset.ASCII {
			csName = "ascii"
		}
		for _, sc := range scales {
			out, err, psig, pmsg := renderASCII(d, cs, sc)
			if psig != "" {
				if tl, br := d.BoundingBox(); tl.X < -1<<40 || tl.Y < -1<<40 || br.X > 1<<40 || br.Y > 1<<40 {
					// the layout produced a NaN (see C29 bounding-box-overflow): Diagram.BoundingBox() is garbage
					psig += ":bounding-box-overflow"
				}
				h.FailSoft(psig, "d2ascii Render (charset %s, scale %v) panics: %s\n%s", csName, sc, pmsg, c.Text)
				continue
			}
			if err != nil {
				h.Failf("render-error", "d2ascii Render (charset %s, scale %v): %v\n%s", csName, sc, err, c.Text)
			}
			h.AddExtra("renders", 1)
			if cs == charset.ASCII && c.Class == "ascii" {
				if !utf8.Valid(out) {
					h.Failf("ascii-charset-emits:invalid-utf8", "output is not valid UTF-8\n%s", c.Text)
				}
				seen := map[rune]bool{}
				for _, r := range string(out) {
					if r >= 0x80 && !seen[r] {
						seen[r] = true
						line := ""
						for _, l := range strings.Split(string(out), "\n") {
							if strings.ContainsRune(l, r) {
								line = l
								break
							}
						}
						sig := fmt.Sprintf("ascii-charset-emits:U+%04X", r)
						if types[d2target.ShapeDocument] && r == 0xE2 {
							sig += ":document-curve"
						}
						h.FailSoft(sig, "standard charset, all-ASCII source: the output contains %q (U+%04X), e.g. in line %q\n%s\n--- output ---\n%s", r, r, line, c.Text, out)
					}
				}
				h.AddExtra("ascii_outputs_checked", 1)
			}
			// label clause
			text := string(out)
			mult := map[string]int{}
			for _, s := range plain {
				mult[strings.TrimSpace(s.Label)]++
			}
			done := map[string]bool{}
			for _, s := range plain {
				lbl := strings.TrimSpace(s.Label)
				if done[lbl] {
					continue
				}
				done[lbl] = true
				if c.Class == "unicode" && !printableASCII(lbl) {
					h.Label("plain-label:non-ascii")
				}
				if n := strings.Count(text, lbl); n < mult[lbl] {
					var same []d2target.Shape
					for _, o := range plain {
						if strings.TrimSpace(o.Label) == lbl {
							same = append(same, o)
						}
					}
					kind := c32Classify(d, lbl, same, mult[lbl], cs, sc)
					if kind == "overlap" {
						h.Gray()
						h.Label("gray:label-lost-under-overlapping-shape")
						continue
					}
					h.FailSoft("label-missing:"+kind, "charset %s scale %v: the label %q of %d plain shape(s) (e.g. %s, %s %dx%d at %d,%d) appears %d time(s) in the output\n%s\n--- output ---\n%s",
						csName, sc, lbl, mult[lbl], s.ID, s.Type, s.Width, s.Height, s.Pos.X, s.Pos.Y, n, c.Text, out)
				}
				h.AddExtra("labels_checked", 1)
			}
		}
	}
	h.NonTrivial(len(d.Shapes) >= 3 && labelled >= 1)
}

func c32Opts(ascii bool) gen.DiagramOpts {
	o := gen.LayoutDiagramOpts()
	o.Sizes = false     // a shape smaller than its label may legitimately clip it
	o.Positions = false // label.near / icon.near: the renderer's handling of explicit positions is not documented
	o.ASCIIOnly = ascii
	if ascii {
		o.Hostile = false
	}
	return o
}

// toASCII replaces what the ASCIIOnly switch of the generator leaves (table columns,
// connection and arrowhead labels, tooltips).
func toASCII(s string) string {
	var sb strings.Builder
	for _, r := range s {
		if r >= 0x80 {
			sb.WriteByte('u')
		} else {
			sb.WriteRune(r)
		}
	}
	return sb.String()
}

func genC32(t *rapid.T) c32Case {
	c := c32Case{Class: "ascii"}
	if gen.Pick(t, "class", 3, 1) == 1 {
		c.Class = "unicode"
	}
	d := gen.GenDiagram(t, c32Opts(c.Class == "ascii"))
	c.Text = d.Text()
	if c.Class == "ascii" {
		c.Text = toASCII(c.Text)
	}
	switch gen.Pick(t, "scales", 3, 1, 1) {
	case 1:
		c.Scales = []float64{0, 0.5, 2}
	case 2:
		c.Scales = []float64{rapid.SampledFrom([]float64{0.25, 0.75, 1, 1.5, 3}).Draw(t, "scale")}
	}
	return c
}

var c32Snippets = []string{
	"a: Hello\nb: World\nc: third one\na -> b: calls\nb -> c\n",
	"a: Hello {shape: document}\nb: World {shape: page}\nc: x {shape: cloud}\na -> b: calls {target-arrowhead.label: 1}\nb <-> c: both {source-arrowhead.label: src}\n",
	"user: User {shape: person}\ndb: Database {shape: cylinder}\nq: Queue {shape: queue}\ns: Step {shape: step}\nuser -> db: query\ndb -> q: enqueue\nq -- s\n",
	"outer: Outer {\n  inner: Inner label\n  other: Other {\n    deep: Deep\n  }\n  inner -> other.deep: into\n}\nside: Side\nouter.inner -> side: out\n",
	"k: Klass {\n  shape: class\n  +id: int\n  -name(): string\n}\nt: tbl {\n  shape: sql_table\n  id: int {constraint: primary_key}\n  name: varchar(255)\n}\nx: plain\nk -> t: maps\nt -> x\n",
	"d: Decision {shape: diamond}\nh: Hex {shape: hexagon}\no: Oval {shape: oval}\nc: Circle {shape: circle}\np: Para {shape: parallelogram}\ns: Stored {shape: stored_data}\nco: Call {shape: callout}\npk: Pack {shape: package}\nsq: Square {shape: square}\nd -> h: yes\nd -> o: no\nc -> p\ns -> co: x\npk -> sq\n",
	"direction: right\na: Alpha\nb: Beta\nc: Gamma\na -> b: one\nb -> c: two\nc -> a: back\n",
	"a: A {style.multiple: true}\nb: B {style.3d: true}\nc: C\na -> b: m\nb -> c\n",
	"s: {\n  shape: sequence_diagram\n  alice: Alice\n  bob: Bob\n  alice -> bob: hello\n  bob -> alice: hi\n}\nx: X\ny: Y\nx -> y: after\n",
	"g: {\n  grid-rows: 2\n  a: one\n  b: two\n  c: three\n  d: four\n}\nz: Zed\nw: W\nz -> w: conn\n",
	"a: \"two\\nlines\"\nb: \"\"\nc: \" \"\nd\na -> b: \"multi\\nline\"\nc -> d: x\n",
	"a -> a: self\nb: Bee\nc: Cee\nb -> c: 1\nb -> c: 2\nc -> b: 3\n",
	"a: a considerably longer label that should make the shape wider than usual\nb: x\nc: y\na -> b: a much longer connection label here\nb -> c\n",
}

var c32UnicodeSnippets = []string{
	"a: héllo wörld\nb: 日本語のラベル\nc: Ελληνικά\na -> b: ünï\nb -> c: Кириллица {target-arrowhead.label: ñ}\n",
	"é: emoji 😀 ok\n\"日本語\": 𝒳 math\nc: naïve café\né -> \"日本語\": a→b\n\"日本語\" -> c\n",
	"k: {\n  shape: class\n  ünï: Ø\n}\nt: {\n  shape: sql_table\n  ñ: int\n}\nx: ½ ¼ © ®\nk -> t: “quoted”\nt -> x\n",
}

func coreC32() []c32Case {
	var out []c32Case
	for i, s := range c32Snippets {
		c := c32Case{Text: s, Class: "ascii"}
		if i%3 == 0 {
			c.Scales = []float64{0, 0.5, 2}
		}
		out = append(out, c)
	}
	for _, s := range c32UnicodeSnippets {
		out = append(out, c32Case{Text: s, Class: "unicode"})
	}
	return out
}

func TestC32(t *testing.T) {
	hx.Run(t, hx.Spec[c32Case]{Prop: "C32", Core: coreC32, Gen: genC32, Check: checkC32, Timeout: 300 * time.Second})
}
