package p_themes

import (
	"bytes"
	"fmt"
	"os"
	"os/exec"
	"path/filepath"
	"regexp"
	"strings"
	"testing"
	"time"

	"oss.terrastruct.com/d2/d2renderers/d2svg"
	"oss.terrastruct.com/d2/d2target"
	"oss.terrastruct.com/d2/d2themes"
	"oss.terrastruct.com/d2/d2themes/d2themescatalog"
	"oss.terrastruct.com/d2/lib/color"
	"pgregory.net/rapid"

	"verif/harness/gen"
	"verif/harness/hx"
	"verif/harness/lay"
)

// C31: themes and theme overrides are applied consistently.
//
// A "render" case compiles one diagram under one light theme (given through RenderOpts or
// through the in-source d2-config) and renders it once per entry of Darks (-1 = no dark
// theme). A "reject" case passes an unknown theme ID through one of the three channels.
type c31Case struct {
	Kind    string      `json:"kind"` // render | reject
	Text    string      `json:"text"` // diagram source without the d2-config block
	Theme   int64       `json:"theme"`
	Darks   []int64     `json:"darks,omitempty"`
	Ov      [][2]string `json:"ov,omitempty"`      // code (any letter case), colour
	DarkOv  [][2]string `json:"dark_ov,omitempty"` // code (any letter case), colour
	Channel string      `json:"channel"`           // opts | config | cli | cli-env
	BadID   int64       `json:"bad_id,omitempty"`
	BadSide string      `json:"bad_side,omitempty"` // light | dark
}

func findTheme(id int64) (d2themes.Theme, bool) {
	for _, t := range d2themescatalog.LightCatalog {
		if t.ID == id {
			return t, true
		}
	}
	for _, t := range d2themescatalog.DarkCatalog {
		if t.ID == id {
			return t, true
		}
	}
	return d2themes.Theme{}, false
}

func allThemeIDs() []int64 {
	var ids []int64
	for _, t := range d2themescatalog.LightCatalog {
		ids = append(ids, t.ID)
	}
	for _, t := range d2themescatalog.DarkCatalog {
		ids = append(ids, t.ID)
	}
	return ids
}

// resolveCode is the reference resolution: an override given for the code wins, otherwise the
// catalog colour of the theme.
func resolveCode(th d2themes.Theme, ov [][2]string, code string) (string, bool) {
	for _, kv := range ov {
		if strings.EqualFold(kv[0], code) {
			return kv[1], true
		}
	}
	return catalogColor(th, code), false
}

func sameColor(a, b string) bool {
	return strings.EqualFold(strings.TrimSpace(a), strings.TrimSpace(b))
}

func toOverrides(ov [][2]string) *d2target.ThemeOverrides {
	if len(ov) == 0 {
		return nil
	}
	o := &d2target.ThemeOverrides{}
	for _, kv := range ov {
		v := kv[1]
		switch strings.ToUpper(kv[0]) {
		case "N1":
			o.N1 = &v
		case "N2":
			o.N2 = &v
		case "N3":
			o.N3 = &v
		case "N4":
			o.N4 = &v
		case "N5":
			o.N5 = &v
		case "N6":
			o.N6 = &v
		case "N7":
			o.N7 = &v
		case "B1":
			o.B1 = &v
		case "B2":
			o.B2 = &v
		case "B3":
			o.B3 = &v
		case "B4":
			o.B4 = &v
		case "B5":
			o.B5 = &v
		case "B6":
			o.B6 = &v
		case "AA2":
			o.AA2 = &v
		case "AA4":
			o.AA4 = &v
		case "AA5":
			o.AA5 = &v
		case "AB4":
			o.AB4 = &v
		case "AB5":
			o.AB5 = &v
		default:
			panic("bad code " + kv[0])
		}
	}
	return o
}

func ovBlock(key string, ov [][2]string) string {
	if len(ov) == 0 {
		return ""
	}
	var sb strings.Builder
	sb.WriteString("    " + key + ": {\n")
	for _, kv := range ov {
		fmt.Fprintf(&sb, "      %s: %s\n", kv[0], gen.QuoteValue(kv[1]))
	}
	sb.WriteString("    }\n")
	return sb.String()
}

func (c c31Case) configSource(theme *int64, dark *int64) string {
	var sb strings.Builder
	sb.WriteString("vars: {\n  d2-config: {\n")
	if theme != nil {
		fmt.Fprintf(&sb, "    theme-id: %d\n", *theme)
	}
	if dark != nil {
		fmt.Fprintf(&sb, "    dark-theme-id: %d\n", *dark)
	}
	sb.WriteString(ovBlock("theme-overrides", c.Ov))
	sb.WriteString(ovBlock("dark-theme-overrides", c.DarkOv))
	sb.WriteString("  }\n}\n")
	sb.WriteString(c.Text)
	return sb.String()
}

var (
	themeRuleRe  = regexp.MustCompile(`^\.(d2-\d+) \.(fill|stroke|background-color|color)-(N[1-7]|B[1-6]|AA[245]|AB[45])$`)
	themeClassRe = regexp.MustCompile(`^(fill|stroke|background-color|color)-(N[1-7]|B[1-6]|AA[245]|AB[45])$`)
	rootClassRe  = regexp.MustCompile(`<svg class="(d2-\d+) d2-svg"`)
)

const darkMedia = "@media screen and (prefers-color-scheme:dark)"

func hasCurrentColor(ov [][2]string) bool {
	for _, kv := range ov {
		if strings.EqualFold(kv[1], "currentcolor") {
			return true
		}
	}
	return false
}

// checkThemeSVG is the oracle for one rendered SVG.
func checkThemeSVG(h *hx.H, c c31Case, svg []byte, light d2themes.Theme, dark *d2themes.Theme, ov, dov [][2]string, ctx string) {
	fail := func(sig, format string, args ...any) {
		h.Failf(sig, "%s: %s\nsource:\n%s", ctx, fmt.Sprintf(format, args...), c.Text)
	}
	m := rootClassRe.FindSubmatch(svg)
	if m == nil {
		fail("no-root-class", "no <svg class=\"d2-… d2-svg\"> element")
	}
	rootHash := string(m[1])

	type key struct{ block, prop, code string }
	found := map[key][]string{}
	palette := map[string]map[string]bool{"base": {}, "dark": {}}
	for _, code := range themeCodes {
		v, _ := resolveCode(light, ov, code)
		palette["base"][strings.ToLower(v)] = true
		if dark != nil {
			v, _ := resolveCode(*dark, dov, code)
			palette["dark"][strings.ToLower(v)] = true
		}
	}
	nThemeSheets := 0
	for _, sheet := range styleSheets(svg) {
		if !strings.Contains(sheet, ".fill-N1{") {
			continue
		}
		nThemeSheets++
		rules, err := parseCSS(sheet)
		if err != nil {
			fail("stylesheet-unparseable", "%v", err)
		}
		for _, r := range rules {
			block := ""
			switch r.Media {
			case "":
				block = "base"
			case darkMedia:
				block = "dark"
			}
			if rm := themeRuleRe.FindStringSubmatch(r.Selector); rm != nil {
				if block == "" {
					fail("theme-rule-in-unexpected-block", "rule %q inside %q", r.Selector, r.Media)
				}
				if rm[1] != rootHash {
					fail("theme-rule-other-hash", "rule %q does not target the root class %s", r.Selector, rootHash)
				}
				if len(r.Decls) != 1 || r.Decls[0][0] != rm[2] {
					fail("theme-rule-shape", "rule %q declares %v, expected exactly the property %s", r.Selector, r.Decls, rm[2])
				}
				k := key{block, rm[2], rm[3]}
				found[k] = append(found[k], r.Decls[0][1])
				continue
			}
			if block == "" {
				continue
			}
			// other colour-bearing rules of the theme stylesheet: every colour is one of the resolved colours
			if r.Selector == ".appendix text.text" || r.Selector == ".md" {
				for _, d := range r.Decls {
					if d[0] != "fill" && !strings.HasPrefix(d[0], "--color-") {
						continue
					}
					if block == "dark" && dark == nil {
						fail("dark-block-without-dark-theme", "rule %q in the dark block although no dark theme was requested", r.Selector)
					}
					if !palette[block][strings.ToLower(d[1])] && !strings.EqualFold(d[1], "red") {
						fail("css-colour-not-in-palette:"+block+":"+r.Selector, "%s{%s:%s} in the %s block is none of the resolved theme colours", r.Selector, d[0], d[1], block)
					}
					h.AddExtra("aux_css_colours_checked", 1)
				}
			}
		}
	}
	if nThemeSheets != 1 {
		fail("theme-stylesheet-count", "%d stylesheets carry theme rules", nThemeSheets)
	}
	for _, block := range []string{"base", "dark"} {
		th, o := light, ov
		if block == "dark" {
			if dark == nil {
				for k := range found {
					if k.block == "dark" {
						fail("dark-block-without-dark-theme", "theme rules inside %s although no dark theme was requested", darkMedia)
					}
				}
				continue
			}
			th, o = *dark, dov
		}
		for _, prop := range themeProps {
			for _, code := range themeCodes {
				want, overridden := resolveCode(th, o, code)
				got := found[key{block, prop, code}]
				src := "theme"
				if overridden {
					src = "override"
				}
				if len(got) == 0 {
					fail(fmt.Sprintf("css-rule-missing:%s:%s-%s", block, prop, code), "no rule .%s-%s in the %s block", prop, code, block)
				}
				for _, g := range got {
					if !sameColor(g, want) {
						fail(fmt.Sprintf("css-wrong:%s:%s:%s", block, src, code), "theme %d (%s block): .%s-%s declares %q, expected %q (%s)", th.ID, block, prop, code, g, want, src)
					}
				}
				h.AddExtra("css_rules_checked", int64(len(got)))
			}
		}
	}

	// inline colours
	used := map[string]bool{}
	htmlNoInline := 0
	var inlineErr func()
	werr := walkSVG(svg, func(e *svgElem) {
		if inlineErr != nil {
			return
		}
		for _, cl := range e.Classes {
			cm := themeClassRe.FindStringSubmatch(cl)
			if cm == nil {
				continue
			}
			prop, code := cm[1], cm[2]
			used[code] = true
			if dark != nil {
				// the renderer promises inline colours only when no dark theme is requested
				continue
			}
			want, _ := resolveCode(light, ov, code)
			got, ok := e.Attr[prop]
			if !ok {
				if e.Space == "http://www.w3.org/1999/xhtml" {
					// HTML inside <foreignObject> (markdown): an XML attribute would mean nothing there; left open
					htmlNoInline++
					continue
				}
				tag, p, cd := e.Name, prop, code
				inlineErr = func() {
					h.FailSoft(fmt.Sprintf("inline-missing:%s:%s", tag, p), "%s: <%s class=%q> carries class %s-%s but no inline %s attribute (no dark theme requested)\nsource:\n%s", ctx, tag, e.Attr["class"], p, cd, p, c.Text)
				}
				return
			}
			if !sameColor(got, want) {
				tag, p, cd := e.Name, prop, code
				inlineErr = func() {
					h.Failf(fmt.Sprintf("inline-wrong:%s:%s", p, cd), "%s: <%s class=%q> has inline %s=%q, expected %q\nsource:\n%s", ctx, tag, e.Attr["class"], p, got, want, c.Text)
				}
				return
			}
			h.AddExtra("inline_colours_checked", 1)
		}
	})
	if werr != nil {
		fail("svg-unparseable", "%v", werr)
	}
	if inlineErr != nil {
		inlineErr()
	}
	if htmlNoInline > 0 {
		h.Gray()
		h.Label("gray:html-element-without-inline-colour")
	}
	for code := range used {
		h.Label("code-used:" + code)
	}
	if len(used) == 0 {
		h.Label("no-theme-class-in-drawing")
	}
}

func (c c31Case) themes(h *hx.H) d2themes.Theme {
	light, ok := findTheme(c.Theme)
	if !ok {
		h.Reject("case-with-unknown-light-theme")
	}
	return light
}

func checkC31(h *hx.H, c c31Case) {
	h.Label("kind:"+c.Kind, "channel:"+c.Channel)
	if c.Kind == "reject" {
		checkC31Reject(h, c)
		return
	}
	light := c.themes(h)
	h.Label(fmt.Sprintf("theme:%d", c.Theme))
	if len(c.Darks) == 0 {
		h.Reject("no-variants")
	}
	if c.Channel == "cli" {
		checkC31CLIRender(h, c, light)
		return
	}
	var d *d2target.Diagram
	var ro *d2svg.RenderOpts
	var err error
	tid := c.Theme
	switch c.Channel {
	case "opts":
		ro = &d2svg.RenderOpts{ThemeID: &tid}
		d, _, err = lay.Run(c.Text, "dagre", ro)
	case "config":
		ro = &d2svg.RenderOpts{}
		var dk *int64
		if c.Darks[0] >= 0 {
			v := c.Darks[0]
			dk = &v
		}
		src := c.configSource(&tid, dk)
		d, _, err = lay.Run(src, "dagre", ro)
		if err == nil {
			// the compiled configuration must have reached the render options
			if ro.ThemeID == nil || *ro.ThemeID != tid {
				h.Failf("config-theme-not-applied", "theme-id %d in d2-config, RenderOpts.ThemeID = %v\n%s", tid, ro.ThemeID, src)
			}
			if (dk == nil) != (ro.DarkThemeID == nil) || dk != nil && *ro.DarkThemeID != *dk {
				h.Failf("config-dark-theme-not-applied", "dark-theme-id %v in d2-config, RenderOpts.DarkThemeID = %v\n%s", dk, ro.DarkThemeID, src)
			}
		}
	default:
		h.Reject("unknown-channel")
	}
	if err != nil {
		if c.Channel == "config" && (strings.Contains(err.Error(), "valid named color") || strings.Contains(err.Error(), "not a valid theme")) {
			h.Failf("valid-config-rejected", "compile error: %v\n%s", err, c.configSource(&tid, nil))
		}
		h.Reject("layout-or-compile-error")
	}
	for i, dkID := range c.Darks {
		var dark *d2themes.Theme
		r := *ro
		r.DarkThemeID = nil
		if dkID >= 0 {
			t, ok := findTheme(dkID)
			if !ok {
				h.Reject("case-with-unknown-dark-theme")
			}
			dark = &t
			v := dkID
			r.DarkThemeID = &v
			h.Label(fmt.Sprintf("dark:%d", dkID))
		} else {
			h.Label("dark:none")
		}
		if c.Channel == "opts" || i > 0 {
			r.ThemeOverrides = toOverrides(c.Ov)
			r.DarkThemeOverrides = toOverrides(c.DarkOv)
		}
		ctx := fmt.Sprintf("theme %d dark %d channel %s ov %v dark-ov %v", c.Theme, dkID, c.Channel, c.Ov, c.DarkOv)
		svg, err := d2svg.Render(d, &r)
		if err != nil {
			if strings.Contains(strings.ToLower(err.Error()), "invalid color format, currentcolor") && (hasCurrentColor(c.Ov) || dark != nil && hasCurrentColor(c.DarkOv)) {
				h.FailSoft("override-currentcolor:render-error", "%s: d2svg.Render fails with %q: the named colour currentcolor is accepted as an override by the compiler\n%s", ctx, err, c.Text)
				h.Label("known:currentcolor")
				continue
			}
			h.Failf("render-error", "%s: d2svg.Render: %v\n%s", ctx, err, c.Text)
		}
		checkThemeSVG(h, c, svg, light, dark, c.Ov, c.DarkOv, ctx)
	}
	n := len(c.Ov) + len(c.DarkOv)
	switch {
	case n == 0:
		h.Label("overrides:0")
	case n < 3:
		h.Label("overrides:1-2")
	case n < 10:
		h.Label("overrides:3-9")
	default:
		h.Label("overrides:10+")
	}
	for _, kv := range append(append([][2]string{}, c.Ov...), c.DarkOv...) {
		switch {
		case strings.HasPrefix(kv[1], "#") && len(kv[1]) == 4:
			h.Label("value:#rgb")
		case strings.HasPrefix(kv[1], "#"):
			h.Label("value:#rrggbb")
		case kv[1] == strings.ToLower(kv[1]):
			h.Label("value:named-lower")
		default:
			h.Label("value:named-mixed-case")
		}
		if kv[0] != strings.ToUpper(kv[0]) {
			h.Label("code:lower-case-key")
		}
	}
	h.NonTrivial(n >= 3)
}

// ---------------------------------------------------------------------------------------
// unknown theme IDs
// ---------------------------------------------------------------------------------------

func checkC31Reject(h *hx.H, c c31Case) {
	h.Label("bad-side:" + c.BadSide)
	if _, ok := findTheme(c.BadID); ok {
		h.Reject("bad-id-is-a-catalog-theme")
	}
	bad := c.BadID
	good := c.Theme
	if _, ok := findTheme(good); !ok {
		h.Reject("case-with-unknown-light-theme")
	}
	text := c.Text
	if text == "" {
		text = "a -> b\n"
	}
	switch c.Channel {
	case "opts", "config":
		ro := &d2svg.RenderOpts{}
		src := text
		if c.Channel == "opts" {
			if c.BadSide == "light" {
				ro.ThemeID = &bad
			} else {
				ro.ThemeID = &good
				ro.DarkThemeID = &bad
			}
		} else {
			cc := c
			cc.Text = text
			if c.BadSide == "light" {
				src = cc.configSource(&bad, nil)
			} else {
				src = cc.configSource(&good, &bad)
			}
		}
		d, _, err := lay.Run(src, "dagre", ro)
		if err != nil {
			h.Label("rejected-by:compile")
			h.NonTrivial(true)
			return
		}
		_, err = d2svg.Render(d, ro)
		if err != nil {
			h.Label("rejected-by:render")
			h.NonTrivial(true)
			return
		}
		h.Failf("unknown-theme-accepted:"+c.Channel+":"+c.BadSide, "unknown %s theme ID %d given through %s: d2lib.Compile and d2svg.Render both succeed\n%s", c.BadSide, bad, c.Channel, src)
	case "cli", "cli-env":
		flag := "--theme"
		env := "D2_THEME"
		if c.BadSide == "dark" {
			flag, env = "--dark-theme", "D2_DARK_THEME"
			if bad < 0 {
				h.Reject("negative-dark-theme-means-unset-on-the-cli")
			}
		}
		var args, envs []string
		if c.Channel == "cli" {
			args = []string{flag, fmt.Sprint(bad)}
		} else {
			envs = []string{env + "=" + fmt.Sprint(bad)}
		}
		rc, out, svg := runCLI(h, text, args, envs)
		if rc == 0 {
			h.Failf("unknown-theme-accepted:"+c.Channel+":"+c.BadSide, "d2 %v %v exits 0 (wrote %d bytes)\n%s", args, envs, len(svg), out)
		}
		h.Label("rejected-by:cli")
		h.NonTrivial(true)
	default:
		h.Reject("unknown-channel")
	}
}

// runCLI runs `d2 <args> in.d2 out.svg` in a fresh directory; returns the exit code, the
// combined output and the SVG written (nil if none).
func runCLI(h *hx.H, text string, args, envs []string) (int, string, []byte) {
	bin := cliPath()
	if _, err := os.Stat(bin); err != nil {
		h.Reject("no-cli-binary")
	}
	dir, err := workDir()
	if err != nil {
		h.Reject("no-work-dir")
	}
	defer os.RemoveAll(dir)
	for _, sub := range []string{"home", "tmp"} {
		os.MkdirAll(filepath.Join(dir, sub), 0o755)
	}
	if err := os.WriteFile(filepath.Join(dir, "in.d2"), []byte(text), 0o644); err != nil {
		h.Reject("no-work-dir")
	}
	cmd := exec.Command(bin, append(append([]string{"--layout", "dagre"}, args...), "in.d2", "out.svg")...)
	cmd.Dir = dir
	cmd.Env = append([]string{"PATH=/usr/bin:/bin", "HOME=" + filepath.Join(dir, "home"), "TMPDIR=" + filepath.Join(dir, "tmp"), "LANG=C.UTF-8", "NO_COLOR=1", "GOMAXPROCS=1", "GOGC=400"}, envs...)
	var buf bytes.Buffer
	cmd.Stdout, cmd.Stderr = &buf, &buf
	done := make(chan error, 1)
	if err := cmd.Start(); err != nil {
		h.Reject("cli-start-failed")
	}
	go func() { done <- cmd.Wait() }()
	select {
	case err = <-done:
	case <-time.After(120 * time.Second):
		cmd.Process.Kill()
		<-done
		h.Reject("cli-timeout")
	}
	rc := 0
	if err != nil {
		if ee, ok := err.(*exec.ExitError); ok {
			rc = ee.ExitCode()
		} else {
			h.Reject("cli-wait-failed")
		}
	}
	svg, _ := os.ReadFile(filepath.Join(dir, "out.svg"))
	return rc, buf.String(), svg
}

// checkC31CLIRender: positive control for the CLI channel (valid IDs given by flags, the
// overrides through the in-source config) checked by the same oracle.
func checkC31CLIRender(h *hx.H, c c31Case, light d2themes.Theme) {
	dkID := c.Darks[0]
	args := []string{"--theme", fmt.Sprint(c.Theme)}
	var dark *d2themes.Theme
	if dkID >= 0 {
		t, ok := findTheme(dkID)
		if !ok {
			h.Reject("case-with-unknown-dark-theme")
		}
		dark = &t
		args = append(args, "--dark-theme", fmt.Sprint(dkID))
	}
	src := c.Text
	if len(c.Ov)+len(c.DarkOv) > 0 {
		src = c.configSource(nil, nil)
	}
	rc, out, svg := runCLI(h, src, args, nil)
	if rc != 0 || len(svg) == 0 {
		h.Failf("cli-valid-theme-rejected", "d2 %v exits %d\n%s\n%s", args, rc, out, src)
	}
	checkThemeSVG(h, c, svg, light, dark, c.Ov, c.DarkOv, fmt.Sprintf("cli %v ov %v dark-ov %v", args, c.Ov, c.DarkOv))
	h.NonTrivial(len(c.Ov)+len(c.DarkOv) >= 3)
}

// ---------------------------------------------------------------------------------------
// generation
// ---------------------------------------------------------------------------------------

func c31DiagramOpts() gen.DiagramOpts {
	return gen.DiagramOpts{MaxObjects: 6, MaxDepth: 2, MaxEdges: 4, Shapes: true, Styles: true, Labels: true, Tables: true,
		Links: true, Sequences: true, Grids: true, NoKeywordNames: true}
}

func c31Text(t *rapid.T) string {
	d := gen.GenDiagram(t, c31DiagramOpts())
	for _, n := range d.AllNodes() {
		if n.Block == "latex" {
			// MathJax start-up costs more than the rest of the case
			n.Block = "md"
		}
	}
	return d.Text()
}

func genColor(t *rapid.T) string {
	switch gen.Pick(t, "colkind", 4, 3, 3, 1) {
	case 0:
		names := color.NamedColors[1:] // [0] is currentcolor: drawn separately
		n := names[rapid.IntRange(0, len(names)-1).Draw(t, "named")]
		switch gen.Pick(t, "case", 2, 1, 1, 1) {
		case 1:
			n = strings.ToUpper(n)
		case 2:
			n = strings.ToUpper(n[:1]) + n[1:]
		case 3:
			b := []byte(n)
			for i := range b {
				if rapid.Bool().Draw(t, "up") {
					b[i] = strings.ToUpper(string(b[i]))[0]
				}
			}
			n = string(b)
		}
		return n
	case 1:
		return "#" + rapid.StringMatching(`[0-9a-fA-F]{3}`).Draw(t, "rgb")
	case 2:
		return "#" + rapid.StringMatching(`[0-9a-fA-F]{6}`).Draw(t, "rrggbb")
	default:
		return rapid.SampledFrom([]string{"transparent", "#000", "#FFFFFF", "white", "Black", "#000000"}).Draw(t, "edgecol")
	}
}

func genOverrides(t *rapid.T, lowerKeys bool) [][2]string {
	var n int
	switch gen.Pick(t, "novk", 2, 5, 3, 1) {
	case 0:
		n = 0
	case 1:
		n = rapid.IntRange(1, 5).Draw(t, "nov")
	case 2:
		n = rapid.IntRange(6, 17).Draw(t, "nov2")
	default:
		n = 18
	}
	perm := rapid.Permutation(themeCodes).Draw(t, "codes")
	var out [][2]string
	for _, code := range perm[:n] {
		if lowerKeys && gen.Pick(t, "lowerkey", 3, 1) == 1 {
			code = strings.ToLower(code)
		}
		out = append(out, [2]string{code, genColor(t)})
	}
	return out
}

func genC31(t *rapid.T) c31Case {
	ids := allThemeIDs()
	if gen.Pick(t, "kind", 24, 1) == 1 {
		c := c31Case{Kind: "reject", Text: "a -> b\n", Theme: ids[rapid.IntRange(0, len(ids)-1).Draw(t, "good")]}
		c.Channel = rapid.SampledFrom([]string{"opts", "config"}).Draw(t, "rchannel")
		c.BadSide = rapid.SampledFrom([]string{"light", "dark"}).Draw(t, "side")
		c.BadID = rapid.OneOf(rapid.Int64Range(-3, 400), rapid.SampledFrom([]int64{9999, 2, 9, 99, 106, 199, 202, 299, 304, 1 << 40, -1 << 40, 1<<63 - 1})).Filter(func(v int64) bool {
			_, ok := findTheme(v)
			return !ok
		}).Draw(t, "bad")
		if gen.Pick(t, "withov", 1, 1) == 1 && c.Channel == "config" {
			c.Ov = genOverrides(t, true)
		}
		return c
	}
	c := c31Case{Kind: "render"}
	// rapid favours the ends of a range; the shard index rotates that bias over the catalog so
	// that every theme gets its share (the case itself stays replayable: it stores the ID)
	c.Theme = ids[(rapid.IntRange(0, len(ids)-1).Draw(t, "theme")+7*hx.Shard())%len(ids)]
	c.Channel = rapid.SampledFrom([]string{"opts", "config"}).Draw(t, "channel")
	// every case renders without a dark theme, with both dark-catalog themes and with one
	// light-catalog theme as dark theme; the order decides which one the d2-config carries
	variants := []int64{-1, d2themescatalog.DarkCatalog[0].ID, d2themescatalog.DarkCatalog[1].ID, d2themescatalog.LightCatalog[rapid.IntRange(0, len(d2themescatalog.LightCatalog)-1).Draw(t, "lightasdark")].ID}
	c.Darks = rapid.Permutation(variants).Draw(t, "darks")
	c.Text = c31Text(t)
	c.Ov = genOverrides(t, c.Channel == "config")
	c.DarkOv = genOverrides(t, c.Channel == "config")
	if gen.Pick(t, "cc1", 7, 1) == 1 && gen.Pick(t, "cc2", 7, 1) == 1 && len(c.Ov) > 0 {
		c.Ov[0][1] = rapid.SampledFrom([]string{"currentcolor", "currentColor"}).Draw(t, "cc")
	}
	return c
}

const c31CoreText = `title: |md # Themes |
user: User {shape: person}
api: API {
  tooltip: the api
  link: https://example.com
  auth: Auth
  db: DB {shape: cylinder}
  deep: {inner: {core}}
  auth -> db: reads
}
q: Queue {shape: queue; style.multiple: true}
k: Klass {
  shape: class
  +id: int
  -name(): string
}
t: {
  shape: sql_table
  id: int {constraint: primary_key}
}
code: |go
  x := 1
|
user -> api.auth: login {target-arrowhead.label: 1}
api.db <-> q: events {style.animated: true}
k -- t
`

func coreC31() []c31Case {
	var out []c31Case
	ov := [][2]string{{"B1", "#123456"}, {"B5", "ReD"}, {"B6", "#abc"}, {"N1", "MidnightBlue"}, {"N7", "#FEFEFE"}, {"AA4", "teal"}, {"AB5", "#0F0"}}
	dov := [][2]string{{"B1", "#654321"}, {"B5", "LIME"}, {"B6", "#cba"}, {"N1", "Snow"}, {"N7", "#010101"}, {"AA2", "orange"}, {"AB4", "#F0F"}}
	all := func(val func(i int) string) [][2]string {
		var o [][2]string
		for i, code := range themeCodes {
			o = append(o, [2]string{code, val(i)})
		}
		return o
	}
	ids := allThemeIDs()
	for i, id := range ids {
		ch := "opts"
		if i%2 == 1 {
			ch = "config"
		}
		darks := []int64{-1, 200, 201, ids[(i+7)%len(ids)]}
		// rotate so that the config channel sees each kind of dark choice in the source
		r := i % 4
		darks = append(darks[r:], darks[:r]...)
		out = append(out, c31Case{Kind: "render", Text: c31CoreText, Theme: id, Darks: darks, Ov: ov, DarkOv: dov, Channel: ch})
	}
	// every code overridden, light and dark, distinct values; no overrides at all; lower-case keys
	out = append(out,
		c31Case{Kind: "render", Text: c31CoreText, Theme: 0, Darks: []int64{200, -1}, Channel: "config",
			Ov:     all(func(i int) string { return fmt.Sprintf("#%02x%02x%02x", 10+i, 20+i, 30+i) }),
			DarkOv: all(func(i int) string { return fmt.Sprintf("#%02X%02X%02X", 200-i, 180-i, 160-i) })},
		c31Case{Kind: "render", Text: c31CoreText, Theme: 300, Darks: []int64{-1, 201}, Channel: "opts",
			Ov:     all(func(i int) string { return color.NamedColors[2+i*7] }),
			DarkOv: all(func(i int) string { return strings.ToUpper(color.NamedColors[3+i*7]) })},
		c31Case{Kind: "render", Text: c31CoreText, Theme: 4, Darks: []int64{-1, 200, 201, 8}, Channel: "opts"},
		c31Case{Kind: "render", Text: c31CoreText, Theme: 303, Darks: []int64{201, -1}, Channel: "config",
			Ov: [][2]string{{"b5", "#111"}, {"b6", "#222"}, {"aa2", "Red"}}, DarkOv: [][2]string{{"n1", "#eee"}, {"ab5", "blue"}, {"B5", "#333"}}},
		// only a dark override / only a light override
		c31Case{Kind: "render", Text: "a -> b: x\nc: {d}\n", Theme: 1, Darks: []int64{200, -1}, Channel: "config", DarkOv: [][2]string{{"B1", "#f00"}, {"B2", "#0f0"}, {"N7", "#00f"}}},
		c31Case{Kind: "render", Text: "a -> b: x\nc: {d}\n", Theme: 1, Darks: []int64{200, -1}, Channel: "config", Ov: [][2]string{{"B1", "#f00"}, {"B2", "#0f0"}, {"N7", "#00f"}}},
		// the accepted named colour the renderer cannot digest
		c31Case{Kind: "render", Text: "a -> b\n", Theme: 0, Darks: []int64{-1}, Channel: "config", Ov: [][2]string{{"B1", "currentcolor"}, {"B2", "#0f0"}, {"N7", "#00f"}}},
		// CLI positive controls
		c31Case{Kind: "render", Text: c31CoreText, Theme: 3, Darks: []int64{200}, Channel: "cli", Ov: ov, DarkOv: dov},
		c31Case{Kind: "render", Text: c31CoreText, Theme: 301, Darks: []int64{-1}, Channel: "cli", Ov: ov},
	)
	// unknown IDs through every channel
	for _, bad := range []int64{9999, 2, 202, -1, 1 << 40} {
		for _, side := range []string{"light", "dark"} {
			for _, ch := range []string{"opts", "config"} {
				out = append(out, c31Case{Kind: "reject", Text: "a -> b\n", Theme: 0, Channel: ch, BadID: bad, BadSide: side})
			}
		}
	}
	for _, side := range []string{"light", "dark"} {
		out = append(out,
			c31Case{Kind: "reject", Text: "a -> b\n", Theme: 0, Channel: "cli", BadID: 9999, BadSide: side},
			c31Case{Kind: "reject", Text: "a -> b\n", Theme: 0, Channel: "cli", BadID: 202, BadSide: side},
			c31Case{Kind: "reject", Text: "a -> b\n", Theme: 0, Channel: "cli-env", BadID: 9999, BadSide: side})
	}
	return out
}

func TestC31(t *testing.T) {
	hx.Run(t, hx.Spec[c31Case]{Prop: "C31", Core: coreC31, Gen: genC31, Check: checkC31, Timeout: 300 * time.Second})
}
