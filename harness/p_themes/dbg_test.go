package p_themes

import (
	"fmt"
	"os"
	"testing"

	"oss.terrastruct.com/d2/d2renderers/d2ascii/charset"
	"verif/harness/lay"
)

func TestDbg32(t *testing.T) {
	b, _ := os.ReadFile(os.Getenv("DBG_TEXT"))
	d, _, err := lay.Run(string(b), "elk", nil)
	if err != nil {
		t.Fatal(err)
	}
	for _, s := range d.Shapes {
		fmt.Println(s.ID, s.Type, s.LabelPosition, s.Pos, s.Width, s.Height, s.Label)
	}
	for _, cs := range []charset.Type{charset.ASCII, charset.Unicode} {
		out, _, _, _ := renderASCII(d, cs, 0)
		fmt.Println(string(out))
	}
}
