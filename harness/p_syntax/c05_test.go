package p_syntax

import (
	"strings"
	"testing"
	"time"

	"oss.terrastruct.com/d2/d2ast"
	"oss.terrastruct.com/d2/d2compiler"
	"oss.terrastruct.com/d2/d2format"
	"oss.terrastruct.com/d2/d2graph"
	"oss.terrastruct.com/d2/d2oracle"
	"oss.terrastruct.com/d2/d2parser"
	"pgregory.net/rapid"

	"verif/harness/gen"
	"verif/harness/hx"
)

// C05: strings survive quoting.
type c05Case struct {
	S string `json:"s"` // always valid UTF-8 (JSON-safe)
}

var foldKeywords = func() map[string]bool {
	m := map[string]bool{}
	for _, l := range [][]string{gen.ReservedKeywords, gen.StyleKeywords} {
		for _, w := range l {
			m[w] = true
		}
	}
	return m
}()

func compileText(s string) (*d2graph.Graph, error) {
	g, _, err := d2compiler.Compile("x.d2", strings.NewReader(s), nil)
	return g, err
}

func checkC05(h *hx.H, c c05Case) {
	s := c.S
	lower := strings.ToLower(s)
	isValueKW := lower == "null" || lower == "true" || lower == "false" || lower == "suspend" || lower == "unsuspend"
	if isValueKW {
		h.Label("value_keyword")
	}
	if foldKeywords[lower] {
		h.Label("reserved_keyword")
	}
	needsQuote := strings.ContainsAny(s, d2ast.UnquotedKeySpecials+" \t$") || s == ""
	if needsQuote {
		h.Label("needs_quoting")
	}

	// (1) as a key segment
	ktxt := d2format.Format(&d2ast.KeyPath{Path: []*d2ast.StringBox{d2ast.RawStringBox(s, true)}})
	kp, err := d2parser.ParseKey(ktxt)
	if err != nil {
		h.FailSoft("key-unparsable", "key syntax %q generated for %q does not parse: %v", ktxt, s, err)
	} else if len(kp.Path) != 1 {
		h.FailSoft("key-splits", "key syntax %q generated for %q parses into %d segments", ktxt, s, len(kp.Path))
	} else if got := kp.Path[0].Unbox().ScalarString(); got != s {
		sig := "key-differs"
		if strings.EqualFold(got, s) && foldKeywords[lower] {
			sig = "key-case-folded:reserved-keyword"
		}
		h.FailSoft(sig, "key syntax %q generated for %q parses back to %q", ktxt, s, got)
	}

	// (2) as a value
	vtxt := d2format.Format(d2ast.RawString(s, false))
	v, err := d2parser.ParseValue(vtxt)
	if err != nil {
		h.FailSoft("value-unparsable", "value syntax %q generated for %q does not parse: %v", vtxt, s, err)
	} else {
		switch n := v.(type) {
		case *d2ast.Null:
			h.FailSoft("value-became:null", "value syntax %q generated for %q parses back as null", vtxt, s)
		case *d2ast.Boolean:
			h.FailSoft("value-became:boolean", "value syntax %q generated for %q parses back as a boolean", vtxt, s)
		case *d2ast.Suspension:
			h.FailSoft("value-became:suspension", "value syntax %q generated for %q parses back as a suspension marker", vtxt, s)
		case d2ast.Scalar:
			if got := n.ScalarString(); got != s {
				sig := "value-differs"
				if strings.EqualFold(got, s) && foldKeywords[lower] {
					sig = "value-case-folded:reserved-keyword"
				}
				h.FailSoft(sig, "value syntax %q generated for %q parses back to %q", vtxt, s, got)
			}
		default:
			h.FailSoft("value-not-scalar", "value syntax %q generated for %q parses back as %s", vtxt, s, v.Type())
		}
	}

	// (3) written by the editing API as a label value
	g, err := compileText("x\n")
	if err != nil {
		panic(err)
	}
	g2, err := d2oracle.Set(g, nil, "x", nil, &c.S)
	if err != nil {
		h.Label("set_refused")
	} else {
		txt := d2format.Format(g2.AST)
		g3, err := compileText(txt)
		if err != nil {
			h.FailSoft("set-uncompilable", "Set(x, %q) wrote %q which does not compile: %v", s, txt, err)
		} else {
			var lbl *string
			for _, o := range g3.Objects {
				if o.ID == "x" {
					l := o.Label.Value
					lbl = &l
				}
			}
			if lbl == nil {
				h.FailSoft("set-lost-object", "Set(x, %q) wrote %q: object x is gone", s, txt)
			} else if *lbl != s {
				sig := "set-label-differs"
				if lower == "true" || lower == "false" {
					sig = "set-label-differs:boolean"
				}
				if s == "" {
					sig = "set-label-differs:empty"
				}
				h.FailSoft(sig, "Set(x, %q) wrote %q, which compiles to label %q", s, txt, *lbl)
			}
		}
	}

	// (4) written by the editing API as a key (rename)
	g, _ = compileText("x\n")
	g4, newName, err := d2oracle.Rename(g, nil, "x", c.S)
	if err != nil {
		h.Label("rename_refused")
	} else {
		txt := d2format.Format(g4.AST)
		g5, err := compileText(txt)
		if err != nil {
			h.FailSoft("rename-uncompilable", "Rename(x, %q) wrote %q which does not compile: %v", s, txt, err)
		} else {
			found := false
			var ids []string
			for _, o := range g5.Objects {
				ids = append(ids, o.IDVal)
				if o.IDVal == newName {
					found = true
				} else if rest, ok := strings.CutPrefix(o.IDVal, newName+" "); ok && rest != "" && strings.Trim(rest, "0123456789") == "" {
					// the API made the name unique ("X 2"): not a quoting matter (see C39)
					found = true
					h.Label("rename_uniquified")
				}
			}
			if !found || len(g5.Objects) != 1 {
				h.FailSoft("rename-differs", "Rename(x, %q) returned name %q and wrote %q, which compiles to objects %q", s, newName, txt, ids)
			}
			if newName != s {
				h.Label("rename_adjusted_name")
			}
		}
	}
	h.NonTrivial(needsQuote || isValueKW || foldKeywords[lower] || looksNumeric(s))
}

func looksNumeric(s string) bool {
	if s == "" {
		return false
	}
	c := s[0]
	return c >= '0' && c <= '9' || c == '-' || c == '+' || c == '.'
}

func coreC05() []c05Case {
	var out []c05Case
	for _, n := range gen.AllNames {
		out = append(out, c05Case{S: strings.ToValidUTF8(n, "?")})
	}
	return out
}

func genC05(t *rapid.T) c05Case {
	return c05Case{S: strings.ToValidUTF8(gen.AnyString(t, 24, "s"), "?")}
}

func TestC05(t *testing.T) {
	hx.Run(t, hx.Spec[c05Case]{Prop: "C05", Core: coreC05, Gen: genC05, Check: checkC05, Timeout: 20 * time.Second})
}
