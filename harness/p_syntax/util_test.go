package p_syntax

import "unicode/utf8"

func isValidUTF8(b []byte) bool { return utf8.Valid(b) }
