package p_syntax

import (
	"testing"
	"time"
	"unicode/utf8"

	"verif/harness/hx"
	"verif/harness/seeds"
)

// Coverage-guided stage of the thorough tier (byte-level properties). The first byte selects
// the option bits, the rest is the document.

func fuzzSeeds() [][]byte {
	var out [][]byte
	for _, b := range seeds.All() {
		if len(b) < 4000 {
			out = append(out, append([]byte{0}, b...))
		}
	}
	for _, s := range []string{"a: b*${x}c*", "a\\ : 1", "x: \"${x}a\\\"b\"", "a: []; \"\"\" c \"\"\"", "a: |:| x :||", "...@..\\/z", "a; # c\n; # d\n", "a: |\n b\n|", "(a -> b)[0].style.opacity: 0.4", "*.x: {&y: z}", "a: [1; 2; ...${x}]"} {
		out = append(out, append([]byte{0}, s...), append([]byte{1}, s...))
	}
	return out
}

func FuzzC01(f *testing.F) {
	hx.Fuzz(f, hx.Spec[c01Case]{Prop: "C01", Check: checkC01, Timeout: 20 * time.Second}, fuzzSeeds(), func(b []byte) (c01Case, bool) {
		if len(b) == 0 {
			return c01Case{}, false
		}
		return c01Case{Data: b[1:], UTF16: b[0]&1 == 1, Kind: "fuzz"}, true
	})
}

func FuzzC02(f *testing.F) {
	hx.Fuzz(f, hx.Spec[c02Case]{Prop: "C02", Check: checkC02, Timeout: 20 * time.Second}, fuzzSeeds(), func(b []byte) (c02Case, bool) {
		if len(b) == 0 {
			return c02Case{}, false
		}
		enc := b[0]&2 == 2 && utf8.Valid(b[1:])
		return c02Case{Text: b[1:], UTF16: b[0]&1 == 1, Encode: enc, Kind: "fuzz"}, true
	})
}

func FuzzC03(f *testing.F) {
	hx.Fuzz(f, hx.Spec[c03Case]{Prop: "C03", Check: checkC03, Timeout: 20 * time.Second}, fuzzSeeds(), func(b []byte) (c03Case, bool) {
		if len(b) == 0 {
			return c03Case{}, false
		}
		return c03Case{Text: b[1:], Kind: "fuzz"}, true
	})
}
