package p_syntax

import (
	"bytes"
	"fmt"
	"strings"
	"testing"
	"time"
	"unicode"
	"unicode/utf16"
	"unicode/utf8"

	"oss.terrastruct.com/d2/d2ast"
	"oss.terrastruct.com/d2/d2parser"
	"pgregory.net/rapid"

	"verif/harness/gen"
	"verif/harness/hx"
	"verif/harness/seeds"
)

// C02: source positions are exact in UTF-8 and UTF-16 modes.
//
// The oracle is an offset table computed from the raw input alone: for every rune boundary
// the (line, column) in UTF-8 bytes or UTF-16 code units, newline = '\n' only.
type c02Case struct {
	Text   []byte `json:"text"`   // base64 in JSON; valid UTF-8 unless Kind says otherwise
	UTF16  bool   `json:"utf16"`  // UTF16Pos option
	Encode bool   `json:"encode"` // feed the parser the UTF-16LE+BOM encoding of Text
	Kind   string `json:"kind"`
}

type posTab struct {
	lc  map[int][2]int // offset (in units) -> line, col
	b   map[int]int    // offset (in units) -> byte offset in text
	end int
}

func mkTab(s string, u16 bool) *posTab {
	t := &posTab{lc: map[int][2]int{0: {0, 0}}, b: map[int]int{0: 0}}
	line, col, off := 0, 0, 0
	for i, r := range s {
		size := utf8.RuneLen(r)
		if r == utf8.RuneError {
			_, w := utf8.DecodeRuneInString(s[i:])
			size = w // a real U+FFFD is 3 bytes, an invalid byte is 1
		}
		if u16 {
			size = 1
			if r1, r2 := utf16.EncodeRune(r); r1 != 0xFFFD && r2 != 0xFFFD {
				size = 2
			}
		}
		if r == '\n' {
			line++
			col = 0
		} else {
			col += size
		}
		off += size
		_, w := utf8.DecodeRuneInString(s[i:])
		t.lc[off] = [2]int{line, col}
		t.b[off] = i + w
	}
	t.end = off
	return t
}

func (t *posTab) ok(p d2ast.Position) bool {
	lc, ok := t.lc[p.Byte]
	return ok && lc[0] == p.Line && lc[1] == p.Column
}

func checkC02(h *hx.H, c c02Case) {
	h.Label("kind:" + c.Kind)
	valid := utf8.Valid(c.Text)
	if !valid {
		h.Label("invalid_utf8")
	}
	var data []byte
	u16 := c.UTF16
	text := string(c.Text)
	if c.Encode {
		data = gen.UTF16LE(text)
		u16 = true
		h.Label("utf16_encoded")
	} else {
		data = c.Text
		if len(data) >= 2 && data[0] == 0xFF && data[1] == 0xFE {
			h.Reject("raw-bom") // would switch the decoder; covered by Encode
		}
	}
	if u16 {
		h.Label("utf16pos")
	} else {
		h.Label("utf8pos")
	}
	// In UTF-8 mode an invalid byte is read as U+FFFD and counted as 3 bytes, so every later
	// position drifts: one root cause, one signature.
	sg := func(base string) string {
		if !valid && !u16 {
			return "position-drift@invalid-utf8"
		}
		return base
	}
	m, err := d2parser.Parse("f.d2", bytes.NewReader(data), &d2parser.ParseOptions{UTF16Pos: c.UTF16})
	tab := mkTab(text, u16)

	var errRanges []d2ast.Range
	var errMsgs []string
	if pe, ok := err.(*d2parser.ParseError); ok {
		for _, e := range pe.Errors {
			errRanges = append(errRanges, e.Range)
			errMsgs = append(errMsgs, e.Message)
		}
	}
	descr := func(n d2ast.Node) string {
		r := n.GetRange()
		return fmt.Sprintf("%T[%s-%s]", n, r.Start.Debug(), r.End.Debug())
	}
	nodes := 0
	var walk func(n, parent d2ast.Node)
	walk = func(n, parent d2ast.Node) {
		nodes++
		r := n.GetRange()
		if r.Start.Byte < 0 || r.End.Byte < 0 || r.Start.Byte > tab.end || r.End.Byte > tab.end {
			h.FailSoft(sg("outside-input"), "%s lies outside the input (0..%d)", descr(n), tab.end)
		}
		if r.End.Byte < r.Start.Byte {
			h.FailSoft(sg("end-before-start"), "%s ends before it starts", descr(n))
		}
		if !tab.ok(r.Start) || !tab.ok(r.End) {
			h.FailSoft(sg("line-col-offset"), "%s: line/column/offset disagree with the input (start should be %v, end %v)", descr(n), tab.lc[r.Start.Byte], tab.lc[r.End.Byte])
		}
		if parent != nil {
			pr := parent.GetRange()
			if r.Start.Byte < pr.Start.Byte || r.End.Byte > pr.End.Byte {
				sig := "not-nested"
				if _, ok := n.(*d2ast.Substitution); ok {
					if _, ok2 := parent.(*d2ast.UnquotedString); ok2 && r.Start.Byte >= pr.Start.Byte {
						sig = "not-nested:substitution-in-unquoted"
					}
				}
				if _, ok := n.(*d2ast.Array); ok && r.Start.Byte >= pr.Start.Byte && r.End.Byte > pr.End.Byte {
					sig = "not-nested:array-end-overshoots"
				}
				h.FailSoft(sg(sig), "%s is not inside its parent %s", descr(n), descr(parent))
			}
		}
		for _, ch := range n.Children() {
			walk(ch, n)
		}
	}
	walk(m, nil)
	for i, r := range errRanges {
		if strings.HasSuffix(errMsgs[i], "missing value after colon") && tab.ok(r.End) && !tab.ok(r.Start) {
			// the start is "end minus one colon", but the end is wherever value parsing stopped
			h.FailSoft(sg("err-range:missing-value-start"), "error %q has range %s-%s whose start is not a position of the input", errMsgs[i], r.Start.Debug(), r.End.Debug())
			continue
		}
		if r.Start.Byte < 0 || r.End.Byte > tab.end || r.Start.Byte > tab.end {
			h.FailSoft(sg("err-outside-input"), "error range %s-%s lies outside the input (0..%d)", r.Start.Debug(), r.End.Debug(), tab.end)
		}
		if r.End.Byte < r.Start.Byte {
			h.FailSoft(sg("err-end-before-start"), "error range %s-%s ends before it starts", r.Start.Debug(), r.End.Debug())
		}
		if !tab.ok(r.Start) || !tab.ok(r.End) {
			h.FailSoft(sg("err-line-col-offset"), "error %q: range %s-%s: line/column/offset disagree with the input", errMsgs[i], r.Start.Debug(), r.End.Debug())
		}
	}
	// key segments parse back
	segs := 0
	checkPath := func(kp *d2ast.KeyPath) {
		if kp == nil {
			return
		}
		for _, sbx := range kp.Path {
			sn := sbx.Unbox()
			if sn == nil {
				continue
			}
			r := sn.GetRange()
			hit := false
			for _, er := range errRanges {
				if er.Start.Byte <= r.End.Byte && r.Start.Byte <= er.End.Byte {
					hit = true
				}
			}
			if hit {
				continue
			}
			bs, ok1 := tab.b[r.Start.Byte]
			be, ok2 := tab.b[r.End.Byte]
			if !ok1 || !ok2 || be < bs {
				continue // reported above
			}
			src := text[bs:be]
			segs++
			kp2, err := d2parser.ParseKey(src)
			if _, unq := sn.(*d2ast.UnquotedString); unq && (err != nil || len(kp2.Path) != 1 || kp2.Path[0].Unbox().ScalarString() != sn.ScalarString()) {
				// classify the two pinned range-end defects of unquoted strings
				if be > bs && text[be-1] == '\\' && be < len(text) {
					h.FailSoft(sg("segment-range-short:trailing-escape"), "segment %q: range covers %q, the escaped character after it is left out", sn.ScalarString(), src)
					continue
				}
				if rest := strings.TrimLeftFunc(text[be:], func(r rune) bool { return r != '\n' && unicode.IsSpace(r) }); strings.HasPrefix(rest, "-") && strings.HasSuffix(sn.ScalarString(), "-") {
					h.FailSoft(sg("segment-range-short:trailing-dash"), "segment %q: range covers %q, the trailing dash is left out", sn.ScalarString(), src)
					continue
				}
			}
			if err != nil {
				h.FailSoft(sg("segment-reparse-error"), "segment %q: covered source %q does not parse as a key: %v", sn.ScalarString(), src, err)
				continue
			}
			same := len(kp2.Path) == 1 && kp2.Path[0].Unbox().ScalarString() == sn.ScalarString()
			if _, blk := sn.(*d2ast.BlockString); blk && len(kp2.Path) == 1 && !same {
				// text on the opening line of a block string is given an implicit indent of two
				// spaces per nesting level (parseBlockString: getIndent), so the value of a
				// multi-line block string depends on how deeply it is nested, which the covered
				// source alone does not carry: compare modulo that leading indent
				// (and the common-indent trimming that follows sees a different first line)
				unindent := func(v string) string {
					ls := strings.Split(v, "\n")
					for i := range ls {
						ls[i] = strings.TrimLeft(ls[i], " \t")
					}
					return strings.Join(ls, "\n")
				}
				same = unindent(kp2.Path[0].Unbox().ScalarString()) == unindent(sn.ScalarString())
			}
			if !same {
				var got []string
				for _, x := range kp2.Path {
					got = append(got, x.Unbox().ScalarString())
				}
				h.FailSoft(sg("segment-reparse-differs"), "segment %q: covered source %q parses back to %q", sn.ScalarString(), src, got)
			}
		}
	}
	d2ast.Walk(m, func(n d2ast.Node) bool {
		if k, ok := n.(*d2ast.Key); ok && k != nil {
			checkPath(k.Key)
			for _, e := range k.Edges {
				if e != nil {
					checkPath(e.Src)
					checkPath(e.Dst)
				}
			}
			checkPath(k.EdgeKey)
		}
		return true
	})
	nonASCII := false
	for i := 0; i < len(text); i++ {
		if text[i] >= 0x80 {
			nonASCII = true
			break
		}
	}
	if nonASCII {
		h.Label("non_ascii")
	}
	if strings.ContainsRune(text, '𝒳') || strings.ContainsRune(text, '😀') {
		h.Label("astral")
	}
	if len(errRanges) > 0 {
		h.Label("has_errors")
	}
	h.NonTrivial(nodes >= 5 && (nonASCII || len(errRanges) > 0))
}

func coreC02() []c02Case {
	var out []c02Case
	add := func(s, kind string) {
		out = append(out, c02Case{Text: []byte(s), Kind: kind}, c02Case{Text: []byte(s), UTF16: true, Kind: kind})
		if utf8.ValidString(s) {
			out = append(out, c02Case{Text: []byte(s), Encode: true, Kind: kind})
		}
	}
	for _, s := range []string{"a -> b: {x: 1}", "𝒳.é: \"ü\" {k: |md 𝒳 |}\n(a -> b)[0].style.fill: red", "a: [1; 2\n", "x: {", "\"abc",
		"# c\n\"\"\" bc \"\"\"\na", "-> b", "a <- b <-> c -- d", "x: @f.d2\n...@g", "a: 'x''y'\\\n  b", "é😀: ß\r\n𝒳 -> 日本語: \"q\\\"\"\n",
		"a.b: ${x} y ${z}", "a: ${x}", "a: pre ${x}", "a: ${x} post", "vars: {x: 1}\na: \"${x} 𝒳\"", "a: |md\n  # 𝒳\n|\n", "a\\\n  b: c", "x: [é; 𝒳; {y: z}]",
		"'é'.\"𝒳\": 1", "a\tb: c", "é -> 𝒳 -> é: {style.stroke: red}", "(é -> 𝒳)[0]: x", "*.é: 𝒳", "&é: 𝒳", "...${é}", "é: {\n  𝒳\n}\n"} {
		add(s, "snippet")
	}
	for _, b := range seeds.Files() {
		add(string(b), "seed")
	}
	for _, b := range gen.HostileConstants(300) {
		if len(b) >= 2 && b[0] == 0xFF && b[1] == 0xFE {
			continue
		}
		out = append(out, c02Case{Text: b, Kind: "hostile"}, c02Case{Text: b, UTF16: true, Kind: "hostile"})
	}
	return out
}

var unicodeSplice = []string{"é", "𝒳", "😀", "日本", "ß", "́", "\t", "\r\n", " ", "İ"}

func genC02(t *rapid.T) c02Case {
	c := c02Case{UTF16: rapid.Bool().Draw(t, "utf16")}
	s := gen.Text(t, gen.DefaultTextOpts())
	// splice multi-byte and astral runes into identifiers and values
	n := rapid.IntRange(0, 4).Draw(t, "nsplice")
	for i := 0; i < n; i++ {
		pos := rapid.IntRange(0, len(s)).Draw(t, "spos")
		for pos < len(s) && !utf8.RuneStart(s[pos]) {
			pos++
		}
		s = s[:pos] + rapid.SampledFrom(unicodeSplice).Draw(t, "spl") + s[pos:]
	}
	switch gen.Pick(t, "kind", 5, 3, 1, 1) {
	case 0:
		c.Kind = "text"
	case 1:
		c.Kind = "text-mutated"
		s = strings.ToValidUTF8(gen.Mutate(t, s, 3), "?")
	case 2:
		c.Kind = "text-invalid-utf8"
		s = gen.Mutate(t, s, 3)
	default:
		c.Kind = "names"
		s = gen.Name(t, "n1") + "." + gen.Name(t, "n2") + ": " + gen.Name(t, "v")
	}
	if len(s) >= 2 && s[0] == 0xFF && s[1] == 0xFE {
		s = "x" + s
	}
	c.Text = []byte(s)
	if utf8.ValidString(s) && gen.Pick(t, "enc", 5, 1) == 1 {
		c.Encode = true
	}
	return c
}

func TestC02(t *testing.T) {
	hx.Run(t, hx.Spec[c02Case]{Prop: "C02", Core: coreC02, Gen: genC02, Check: checkC02, Timeout: 20 * time.Second})
}
