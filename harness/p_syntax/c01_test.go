package p_syntax

import (
	"bytes"
	"strings"
	"testing"
	"time"

	"oss.terrastruct.com/d2/d2ast"
	"oss.terrastruct.com/d2/d2parser"
	"pgregory.net/rapid"

	"verif/harness/gen"
	"verif/harness/hx"
	"verif/harness/seeds"
)

// C01: parsing is total.
type c01Case struct {
	Data  []byte `json:"data"`
	UTF16 bool   `json:"utf16"`
	Kind  string `json:"kind"`
}

func countNodes(n d2ast.Node) int {
	c := 0
	d2ast.Walk(n, func(d2ast.Node) bool { c++; return true })
	return c
}

func checkC01(h *hx.H, c c01Case) {
	h.Label("kind:" + c.Kind)
	m, err := d2parser.Parse("f.d2", bytes.NewReader(c.Data), &d2parser.ParseOptions{UTF16Pos: c.UTF16})
	if m == nil {
		h.Failf("nil-map", "Parse returned a nil map (err=%v)", err)
	}
	nerrs := 0
	if err != nil {
		pe, ok := err.(*d2parser.ParseError)
		if !ok {
			h.Failf("err-type", "Parse returned %T, not *ParseError: %v", err, err)
		}
		if len(pe.Errors) == 0 {
			h.Failf("empty-error", "Parse returned a non-nil error with an empty error list")
		}
		nerrs = len(pe.Errors)
		for _, e := range pe.Errors {
			if e.Message == "" {
				h.Failf("empty-message", "error with empty message at %v", e.Range)
			}
		}
	}
	nodes := countNodes(m)
	s := string(c.Data)
	k, kerr := d2parser.ParseKey(s)
	if (k == nil) == (kerr == nil) {
		h.Failf("parsekey-both", "ParseKey(%q) returned key=%v err=%v", s, k, kerr)
	}
	mk, mkerr := d2parser.ParseMapKey(s)
	if (mk == nil) == (mkerr == nil) {
		h.Failf("parsemapkey-both", "ParseMapKey(%q) returned key=%v err=%v", s, mk, mkerr)
	}
	v, verr := d2parser.ParseValue(s)
	if (v == nil) == (verr == nil) {
		h.Failf("parsevalue-both", "ParseValue(%q) returned value=%v err=%v", s, v, verr)
	}
	if nerrs > 0 {
		h.Label("has_errors")
	} else {
		h.Label("clean")
	}
	if len(c.Data) >= 2 && c.Data[0] == 0xFF && c.Data[1] == 0xFE {
		h.Label("utf16_bom")
	}
	if !strings.Contains(s, "\x00") && !isValidUTF8(c.Data) {
		h.Label("invalid_utf8")
	}
	h.NonTrivial(nodes > 1 || nerrs > 0)
}

func coreC01() []c01Case {
	var out []c01Case
	for _, b := range gen.HostileConstants(hx.Pick(3000, 20000)) {
		out = append(out, c01Case{Data: b, Kind: "hostile"})
		out = append(out, c01Case{Data: b, UTF16: true, Kind: "hostile"})
	}
	for _, b := range seeds.All() {
		out = append(out, c01Case{Data: b, Kind: "seed"})
	}
	for _, b := range seeds.Files() {
		out = append(out, c01Case{Data: gen.UTF16LE(string(b)), Kind: "seed16"})
	}
	return out
}

func genC01(t *rapid.T) c01Case {
	c := c01Case{UTF16: rapid.Bool().Draw(t, "utf16")}
	switch gen.Pick(t, "src", 4, 3, 3) {
	case 0:
		c.Kind = "bytes"
		c.Data = gen.Bytes(t, hx.Pick(4096, 65536), seeds.All())
	case 1:
		c.Kind = "text"
		c.Data = []byte(gen.Text(t, gen.DefaultTextOpts()))
	default:
		c.Kind = "text-mutated"
		c.Data = []byte(gen.Mutate(t, gen.Text(t, gen.DefaultTextOpts()), 4))
	}
	return c
}

func TestC01(t *testing.T) {
	hx.Run(t, hx.Spec[c01Case]{Prop: "C01", Core: coreC01, Gen: genC01, Check: checkC01, Timeout: 20 * time.Second})
}
