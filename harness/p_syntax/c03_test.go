package p_syntax

import (
	"bytes"
	"regexp"
	"strings"
	"testing"
	"time"
	"unicode/utf8"

	"oss.terrastruct.com/d2/d2ast"
	"oss.terrastruct.com/d2/d2format"
	"oss.terrastruct.com/d2/d2parser"
	"pgregory.net/rapid"

	"verif/harness/gen"
	"verif/harness/hx"
	"verif/harness/seeds"
)

// C03: formatting is idempotent.
type c03Case struct {
	Text []byte `json:"text"`
	Kind string `json:"kind"`
}

func constructKinds(m *d2ast.Map) map[string]bool {
	k := map[string]bool{}
	d2ast.Walk(m, func(n d2ast.Node) bool {
		switch n := n.(type) {
		case *d2ast.Comment:
			k["comment"] = true
		case *d2ast.BlockComment:
			k["block_comment"] = true
		case *d2ast.BlockString:
			k["block_string"] = true
		case *d2ast.Substitution:
			k["substitution"] = true
		case *d2ast.Import:
			k["import"] = true
		case *d2ast.Array:
			k["array"] = true
		case *d2ast.Edge:
			k["edge"] = true
		case *d2ast.EdgeIndex:
			k["edge_index"] = true
		case *d2ast.DoubleQuotedString:
			k["dq"] = true
		case *d2ast.SingleQuotedString:
			k["sq"] = true
		case *d2ast.Key:
			if n != nil {
				if n.Ampersand || n.NotAmpersand {
					k["filter"] = true
				}
				if n.Primary.Unbox() != nil {
					k["primary"] = true
				}
				if n.Key != nil {
					for _, s := range n.Key.Path {
						if u := s.UnquotedString; u != nil && u.Pattern != nil {
							k["glob"] = true
						}
						if s.Unbox() != nil {
							switch s.Unbox().ScalarString() {
							case "layers", "scenarios", "steps":
								k["board"] = true
							case "vars":
								k["vars"] = true
							case "classes":
								k["classes"] = true
							}
						}
					}
				}
			}
		case *d2ast.Map:
			k["map"] = true
		}
		return true
	})
	return k
}

func checkC03(h *hx.H, c c03Case) {
	h.Label("kind:" + c.Kind)
	m, err := d2parser.Parse("f.d2", bytes.NewReader(c.Text), nil)
	if err != nil {
		h.Reject("parse-errors")
	}
	kinds := constructKinds(m)
	for k := range kinds {
		h.Label("has:" + k)
	}
	f1 := d2format.Format(m)
	m2, err := d2parser.Parse("f.d2", strings.NewReader(f1), nil)
	if err != nil {
		h.Failf(classifyC03(c.Text, f1, "formatted-unparsable"), "formatted text does not parse: %v\n--- input\n%s\n--- formatted\n%s", err, c.Text, f1)
	}
	f2 := d2format.Format(m2)
	if f2 != f1 {
		sig := classifyC03(c.Text, f1, "not-idempotent")
		h.Failf(sig, "formatting again changes the text\n--- input\n%q\n--- formatted once\n%q\n--- formatted twice\n%q", c.Text, f1, f2)
	}
	h.NonTrivial(f1 != string(c.Text) || len(kinds) >= 3)
	if f1 != string(c.Text) {
		h.Label("format_changed_text")
	}
}

// classifyC03 refines the signature with the construct involved (used for known findings).
func classifyC03(in []byte, f1 string, base string) string {
	if base != "not-idempotent" {
		if !utf8.Valid(in) {
			return base + "@invalid-utf8"
		}
		return base
	}
	if sig := classifyC03Text(in, base); sig != base {
		return sig
	}
	// the first formatting may itself create the construct (LAYERS -> layers)
	if sig := classifyC03Text([]byte(f1), base); sig != base {
		return sig
	}
	if !utf8.Valid(in) {
		return base + "@invalid-utf8"
	}
	return base
}

func classifyC03Text(in []byte, base string) string {
	m, _ := d2parser.Parse("f.d2", bytes.NewReader(in), nil)
	// (a) a file written on a single line without a final newline is printed as `a; b`,
	//     which then ends in a newline and is re-printed on separate lines
	if m != nil && m.Range.OneLine() && len(m.Nodes) >= 2 {
		return "not-idempotent:one-line-file"
	}
	// (b) an array printed on one line: its range overshoots the closing bracket (C02), so
	//     at a line end it looks multi-line to the next formatting
	oneLineArray := false
	if m != nil {
		d2ast.Walk(m, func(n d2ast.Node) bool {
			if a, ok := n.(*d2ast.Array); ok && a.Range.OneLine() {
				oneLineArray = true
			}
			return true
		})
	}
	if oneLineArray {
		return "not-idempotent:one-line-array"
	}
	// (c) board blocks are held back and printed last; the blank lines around them are
	//     decided from the line the block stood on before the move, and a board keyword
	//     without a non-empty map is dropped altogether.
	commentInArray := false
	if m != nil {
		d2ast.Walk(m, func(n d2ast.Node) bool {
			if a, ok := n.(*d2ast.Array); ok {
				for _, nb := range a.Nodes {
					if nb.Comment != nil || nb.BlockComment != nil {
						commentInArray = true
					}
				}
			}
			return true
		})
	}
	_ = commentInArray // (was a known finding, repaired)
	hasBoard := false
	if m != nil {
		d2ast.Walk(m, func(n d2ast.Node) bool {
			k, ok := n.(*d2ast.Key)
			if !ok || k == nil || k.Key == nil || len(k.Key.Path) == 0 {
				return true
			}
			switch strings.ToLower(k.Key.Path[0].Unbox().ScalarString()) {
			case "layers", "scenarios", "steps":
				hasBoard = true
			}
			return true
		})
	}
	if hasBoard {
		return "not-idempotent:board"
	}
	return base
}

func coreC03() []c03Case {
	var out []c03Case
	for _, b := range seeds.All() {
		out = append(out, c03Case{Text: b, Kind: "seed"})
	}
	for _, s := range []string{"a", "a: b", "a -> b", "a: {b; c}", "a: |md x |", "x: [1; 2]", "a: b {c}", "# c\na", "\"\"\"x\"\"\"\na", "...@x", "a: @x", "...${x}", "a: ${x}",
		"(a -> b)[0].style.fill: red", "*.a: b", "&a: b", "!&a: b", "a\\\n  b", "a;b;c", "a: {b}; c", "'a'.\"b\": c", "layers: {x: {a}}\nb", "a: |`go x`|", "a: ||md | ||", "x: |md\n  a\n    b\n|",
		"a <- b <-> c -- d", "a -> b -> c: {style.stroke: red}", "a: null", "a: TRUE", "A.SHAPE: Circle", "a: [b; {c: d}; [e]]", "a: [\n# c\nb\n]", "x: {\n\n\n y\n\n\n}", "a: \"b\\nc\"", "a: 'it''s'", "a:   b   ", " a ", "a.  b", "a -> b:   ", "vars: {x: 1}\ny: \"${x}\"", "x: \\$", "a--b", "a\\-\\-b", "-a-", "a: -", "x: 1e3"} {
		out = append(out, c03Case{Text: []byte(s), Kind: "snippet"})
	}
	return out
}

func genC03(t *rapid.T) c03Case {
	o := gen.DefaultTextOpts()
	o.Imports = true
	o.ImportNames = []string{"x", "y.d2", "\"a b\"", "../z", "x.k"}
	switch gen.Pick(t, "src", 6, 2, 2) {
	case 0:
		return c03Case{Kind: "text", Text: []byte(gen.Text(t, o))}
	case 1:
		return c03Case{Kind: "text-mutated", Text: []byte(gen.Mutate(t, gen.Text(t, o), 2))}
	default:
		return c03Case{Kind: "names", Text: []byte(gen.Name(t, "a") + rapid.SampledFrom([]string{": ", ".", " -> ", ": {", "\n"}).Draw(t, "j") + gen.Name(t, "b"))}
	}
}

func TestC03(t *testing.T) {
	hx.Run(t, hx.Spec[c03Case]{Prop: "C03", Core: coreC03, Gen: genC03, Check: checkC03, Timeout: 20 * time.Second})
}

var nlRun = regexp.MustCompile(`\n\s*\n`)

// collapseNL removes blank lines.
func collapseNL(s string) string {
	return strings.TrimSpace(nlRun.ReplaceAllString(s, "\n"))
}
