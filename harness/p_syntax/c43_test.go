package p_syntax

import (
	"bytes"
	"net/url"
	"regexp"
	"testing"
	"time"

	"oss.terrastruct.com/d2/lib/urlenc"
	"pgregory.net/rapid"

	"verif/harness/gen"
	"verif/harness/hx"
	"verif/harness/seeds"
)

// C43: playground URL encoding round-trips every script.
type c43Case struct {
	Data []byte `json:"data"`
	Kind string `json:"kind"`
}

var urlSafe = regexp.MustCompile(`^[A-Za-z0-9_=-]*$`)

func checkC43(h *hx.H, c c43Case) {
	h.Label("kind:" + c.Kind)
	s := string(c.Data)
	enc, err := urlenc.Encode(s)
	if err != nil {
		h.Failf("encode-error", "Encode failed: %v", err)
	}
	if !urlSafe.MatchString(enc) {
		h.Failf("not-url-safe", "encoded form contains characters outside [A-Za-z0-9_=-]: %q", enc)
	}
	u, err := url.Parse("https://play.d2lang.com/?script=" + enc + "&layout=elk")
	if err != nil || u.Query().Get("script") != enc {
		h.Failf("query-mangled", "encoded form does not survive as a raw query value: %q (err=%v)", enc, err)
	}
	dec, err := urlenc.Decode(enc)
	if err != nil {
		h.Failf("decode-error", "Decode(Encode(s)) failed: %v", err)
	}
	if dec != s {
		h.Failf("round-trip-differs", "Decode(Encode(s)) differs: %d bytes in, %d bytes out", len(s), len(dec))
	}
	if len(enc) < len(s) {
		h.Label("compressed")
	} else {
		h.Label("expanded")
	}
	h.NonTrivial(len(s) >= 1)
}

func coreC43() []c43Case {
	var out []c43Case
	out = append(out, c43Case{Data: nil, Kind: "empty"})
	for _, b := range seeds.Files() {
		out = append(out, c43Case{Data: b, Kind: "seed"})
	}
	for _, b := range gen.HostileConstants(5000) {
		out = append(out, c43Case{Data: b, Kind: "hostile"})
	}
	for _, n := range []int{1, 2, 3, 255, 256, 257, 65535, 65536, 65537} {
		out = append(out, c43Case{Data: bytes.Repeat([]byte{'a'}, n), Kind: "run"})
		b := make([]byte, n)
		x := uint32(12345)
		for i := range b {
			x = x*1664525 + 1013904223
			b[i] = byte(x >> 24)
		}
		out = append(out, c43Case{Data: b, Kind: "lcg"})
	}
	for i := 0; i < 256; i++ {
		out = append(out, c43Case{Data: []byte{byte(i)}, Kind: "byte"}, c43Case{Data: []byte{byte(i), byte(255 - i), byte(i)}, Kind: "byte"})
	}
	return out
}

func genC43(t *rapid.T) c43Case {
	switch gen.Pick(t, "src", 3, 3, 2, 2) {
	case 0:
		return c43Case{Kind: "raw", Data: rapid.SliceOfN(rapid.Byte(), 0, hx.Pick(2048, 65536)).Draw(t, "raw")}
	case 1:
		return c43Case{Kind: "bytes", Data: gen.Bytes(t, 4096, seeds.Files())}
	case 2:
		// compressible: dictionary words of the preset dictionary repeated
		w := rapid.SampledFrom([]string{"->", "<-", "--", "shape", "style", "label", "sql_table", "a", "\n", " ", "{", "}"}).Draw(t, "w")
		n := rapid.IntRange(1, 400).Draw(t, "n")
		return c43Case{Kind: "repeat", Data: bytes.Repeat([]byte(w), n)}
	default:
		return c43Case{Kind: "text", Data: []byte(gen.Text(t, gen.DefaultTextOpts()))}
	}
}

func TestC43(t *testing.T) {
	hx.Run(t, hx.Spec[c43Case]{Prop: "C43", Core: coreC43, Gen: genC43, Check: checkC43, Timeout: 20 * time.Second})
}
