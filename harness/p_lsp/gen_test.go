package p_lsp

import (
	"pgregory.net/rapid"

	"verif/harness/gen"
)

// identities: each row is one key name in several spellings (letter case, quoting). D2 keys
// are case-insensitive and quoting does not change the name, so all spellings of a row
// denote the same key.
var identities = [][]seg{
	{{"a", "a"}, {"A", "A"}, {`"a"`, "a"}, {"'A'", "A"}},
	{{"b", "b"}, {"B", "B"}, {`"b"`, "b"}},
	{{"c", "c"}, {"C", "C"}},
	{{"x", "x"}, {"X", "X"}},
	{{"y", "y"}, {"Y", "Y"}},
	{{"foo", "foo"}, {"Foo", "Foo"}, {"FOO", "FOO"}, {`"foo"`, "foo"}},
	{{"ab", "ab"}, {"aB", "aB"}, {"AB", "AB"}},
	{{`"a b"`, "a b"}, {"'A b'", "A b"}, {"a b", "a b"}},
	{{`"a.b"`, "a.b"}, {"'A.B'", "A.B"}, {`a\.b`, "a.b"}},
	{{"é", "é"}, {"É", "É"}},
	{{`"n-1"`, "n-1"}, {"n-1", "n-1"}, {"N-1", "N-1"}},
	{{"日本", "日本"}, {`"日本"`, "日本"}},
	{{"q_1", "q_1"}, {"Q_1", "Q_1"}},
	// objects whose quoted name spells a board keyword (quoted keywords are ordinary names)
	{{`"layers"`, "layers"}, {`'layers'`, "layers"}},
	{{`"steps"`, "steps"}, {`"scenarios"`, "scenarios"}},
}

const nOrdinaryIdentities = 13

var identityOf = func() map[string]int {
	m := map[string]int{}
	for i, row := range identities {
		for _, s := range row {
			m[fold(s.N)] = i
		}
	}
	return m
}()

var boardNames = map[string][]seg{
	"index": {{"l1", "l1"}, {"l2", "l2"}, {"s1", "s1"}, {`"my board"`, "my board"}, {"B", "B"}, {"x", "x"}, {"日本", "日本"}, {"'b.2'", "b.2"}},
	"x":     {{"xl", "xl"}, {"xs", "xs"}, {`"x b"`, "x b"}},
	"y":     {{"yl", "yl"}, {"ys", "ys"}},
	"other": {{"l1", "l1"}, {"o2", "o2"}},
}

type attrT struct{ tail, val string }

var objAttrs = []attrT{
	{"shape", "circle"}, {"shape", "square"}, {"shape", "oval"}, {"shape", "hexagon"}, {"shape", "diamond"},
	{"style.fill", "red"}, {"style.fill", `"#ff0"`}, {"style.stroke", "green"}, {"style.opacity", "0.4"},
	{"label", "hello"}, {"tooltip", "tip"}, {"style.bold", "true"}, {"style.font-size", "14"},
}

var edgeAttrs = []attrT{
	{"style.stroke", "red"}, {"style.stroke-width", "2"}, {"style.animated", "true"}, {"label", "lbl"},
	{"source-arrowhead.shape", "diamond"}, {"target-arrowhead.label", "1"}, {"style.opacity", "0.5"},
}

var labels = []string{"hi", "Label 1", `"quoted: label"`, "x y", "a -> b", "'single'", "42", "|md **hi** |", "|md\n  # layers: {\n  x\n|", `"{"`, "é→ü"}

var arrowPool = []string{"->", "->", "->", "<-", "<->", "--"}

type edgeT struct {
	a, b  []seg
	arrow string
}

type gstate struct {
	t       *rapid.T
	pool    []int // indices into identities
	budget  int
	class   string
	file    string
	targets []impTarget // files this file may import
	bnUsed  map[string]bool
	nImp    int
	nGlob   int
}

type impTarget struct {
	name  string
	rooty bool // has boards: only usable at a board root
}

func (g *gstate) segOf(id int) seg {
	row := identities[id]
	// the first spelling most of the time
	w := make([]int, len(row))
	for i := range w {
		w[i] = 2
	}
	w[0] = 5
	return row[gen.Pick(g.t, "variant", w...)]
}

func (g *gstate) seg() seg {
	return g.segOf(g.pool[rapid.IntRange(0, len(g.pool)-1).Draw(g.t, "ident")])
}

func (g *gstate) path(w ...int) []seg {
	n := gen.Pick(g.t, "pathlen", w...) + 1
	out := make([]seg, n)
	for i := range out {
		out[i] = g.seg()
	}
	return out
}

func (g *gstate) respell(p []seg) []seg {
	out := make([]seg, len(p))
	for i, s := range p {
		out[i] = g.segOf(identityOf[fold(s.N)])
	}
	return out
}

func (g *gstate) selfAttrs(pool []attrT, max int) []stmt {
	n := rapid.IntRange(1, max).Draw(g.t, "nattr")
	var out []stmt
	seen := map[string]bool{}
	for i := 0; i < n; i++ {
		a := rapid.SampledFrom(pool).Draw(g.t, "attr")
		if seen[a.tail] {
			continue
		}
		seen[a.tail] = true
		out = append(out, stmt{K: "attr", Tail: a.tail, Val: a.val})
	}
	return out
}

func (g *gstate) boardName() (seg, bool) {
	names := boardNames[g.file]
	for try := 0; try < 4; try++ {
		s := rapid.SampledFrom(names).Draw(g.t, "bname")
		if !g.bnUsed[fold(s.N)] {
			g.bnUsed[fold(s.N)] = true
			return s, true
		}
	}
	return seg{}, false
}

var globTexts = []string{
	"*.style.fill: red", "*.shape: circle", "**.style.stroke: blue", "*.style.opacity: 0.4", "*: {style.bold: true}",
	"(* -> *)[*].style.stroke: red", "*.*.style.fill: green", "***.style.font-size: 14",
}

// body draws the statements of one map. atRoot: the map is a board root (boards and
// root-only imports allowed); inObj: the map belongs to an object (self attributes allowed);
// inherited: connections visible from the board this one starts from.
func (g *gstate) body(depth, boardDepth int, atRoot, inObj bool, inherited []edgeT, maxStmts int) []stmt {
	t := g.t
	n := rapid.IntRange(1, maxStmts).Draw(t, "nstmt")
	var out []stmt
	edges := append([]edgeT(nil), inherited...)
	nBoards := 0
	for i := 0; i < n && g.budget > 0; i++ {
		g.budget--
		w := []int{30, 10, 22, 0, 0, 2, 0, 0, 0, 0}
		if len(edges) > 0 {
			w[3] = 16
		}
		// 0 decl 1 attr 2 edge 3 eref 4 boards 5 comment 6 self attr 7 spread 8 vimport 9 glob
		if atRoot && boardDepth < 3 && nBoards < 2 {
			w[4] = 14
			if boardDepth > 0 {
				w[4] = 22 // once inside a board, nest
			}
		}
		if inObj {
			w[6] = 5
		}
		if g.class == "imports" && len(g.targets) > 0 {
			w[7], w[8] = 5, 4
		}
		if g.class == "globs" {
			w[9] = 7
		}
		switch gen.Pick(t, "stmt", w...) {
		case 0:
			st := stmt{K: "decl", Path: g.path(6, 3, 1)}
			switch gen.Pick(t, "declval", 4, 3, 4, 2) {
			case 1:
				st.Val = rapid.SampledFrom(labels).Draw(t, "label")
			case 2:
				st.HasBody = true
			case 3:
				st.Val = rapid.SampledFrom(labels).Draw(t, "label")
				st.HasBody = true
			}
			if st.HasBody {
				st.Inline = gen.Pick(t, "inline", 2, 1) == 1
				if depth < 3 && gen.Pick(t, "emptybody", 6, 1) == 0 {
					st.Body = g.body(depth+1, boardDepth, false, true, nil, 3)
				}
			}
			out = append(out, st)
		case 1:
			a := rapid.SampledFrom(objAttrs).Draw(t, "attr")
			out = append(out, stmt{K: "attr", Path: g.path(6, 3), Tail: a.tail, Val: a.val})
		case 2:
			ne := gen.Pick(t, "chain", 7, 2, 1) + 2
			st := stmt{K: "edge"}
			for j := 0; j < ne; j++ {
				st.Ends = append(st.Ends, g.path(6, 3))
				if j > 0 {
					st.Arrows = append(st.Arrows, rapid.SampledFrom(arrowPool).Draw(t, "arrow"))
				}
			}
			// a common leading container now and then: a.b -> a.c
			if ne == 2 && gen.Pick(t, "common", 5, 1) == 1 {
				pre := g.seg()
				st.Ends[0] = append([]seg{pre}, st.Ends[0]...)
				st.Ends[1] = append([]seg{g.segOf(identityOf[fold(pre.N)])}, st.Ends[1]...)
			}
			switch gen.Pick(t, "edgeval", 5, 3, 2) {
			case 1:
				st.Val = rapid.SampledFrom(labels).Draw(t, "label")
			case 2:
				st.HasBody = true
				st.Inline = gen.Pick(t, "inline", 1, 2) == 1
				st.Body = g.selfAttrs(edgeAttrs, 2)
			}
			for j := 0; j+1 < ne; j++ {
				edges = append(edges, edgeT{st.Ends[j], st.Ends[j+1], st.Arrows[j]})
			}
			out = append(out, st)
		case 3:
			if len(edges) == 0 {
				// nothing to refer to yet: declare something instead
				out = append(out, stmt{K: "decl", Path: g.path(6, 3, 1)})
				continue
			}
			e := rapid.SampledFrom(edges).Draw(t, "eref")
			st := stmt{K: "eref", Ends: [][]seg{g.respell(e.a), g.respell(e.b)}, Arrows: []string{e.arrow}, Idx: rapid.IntRange(0, 5).Draw(t, "idx")}
			switch gen.Pick(t, "erefval", 4, 2, 2) {
			case 0:
				a := rapid.SampledFrom(edgeAttrs).Draw(t, "attr")
				st.Tail, st.Val = a.tail, a.val
			case 1:
				st.Val = rapid.SampledFrom(labels).Draw(t, "label")
			default:
				st.HasBody = true
				st.Inline = gen.Pick(t, "inline", 1, 2) == 1
				st.Body = g.selfAttrs(edgeAttrs, 2)
			}
			out = append(out, st)
		case 4:
			nBoards++
			st := stmt{K: "boards", BKind: rapid.SampledFrom(gen.BoardKeywords).Draw(t, "bkind"), Inline: gen.Pick(t, "binline", 4, 1) == 1, Dotted: gen.Pick(t, "bdotted", 9, 1) == 1}
			nb := gen.Pick(t, "nboards", 5, 4, 1) + 1
			for j := 0; j < nb; j++ {
				name, ok := g.boardName()
				if !ok {
					break
				}
				bm := boardM{Name: name, Inline: gen.Pick(t, "inline", 3, 1) == 1}
				if gen.Pick(t, "blabel", 6, 1) == 1 {
					bm.Label = rapid.SampledFrom([]string{"Title", `"a title"`}).Draw(t, "btitle")
				}
				if tg, ok := g.importTarget(true); ok && gen.Pick(t, "bimport", 5, 1) == 1 {
					bm.Import = tg
					g.nImp++
				} else if gen.Pick(t, "emptyboard", 8, 1) == 0 {
					var inh []edgeT
					if st.BKind != "layers" {
						inh = edges
					}
					bm.Body = g.body(0, boardDepth+1, true, false, inh, 4)
				}
				st.Boards = append(st.Boards, bm)
			}
			out = append(out, st)
		case 5:
			out = append(out, stmt{K: "comment", Text: rapid.SampledFrom([]string{"a -> b", "note", "layers: { x: {", "a.b.c", "}"}).Draw(t, "cmt")})
		case 6:
			out = append(out, g.selfAttrs(objAttrs, 1)...)
		case 7:
			if tg, ok := g.importTarget(atRoot); ok {
				out = append(out, stmt{K: "spread", File: tg})
				g.nImp++
			}
		case 8:
			if tg, ok := g.importTarget(false); ok {
				out = append(out, stmt{K: "vimport", Path: []seg{g.seg()}, File: tg})
				g.nImp++
			}
		case 9:
			g.nGlob++
			switch gen.Pick(t, "globkind", 6, 2, 2, 2) {
			case 0:
				out = append(out, stmt{K: "glob", Text: rapid.SampledFrom(globTexts).Draw(t, "glob")})
			case 1:
				out = append(out, stmt{K: "glob", Text: g.seg().R + ".*.style.opacity: 0.4"})
			case 2:
				out = append(out, stmt{K: "glob", Text: "* -> " + g.seg().R})
			default:
				out = append(out, stmt{K: "glob", Text: g.seg().R + " -> *: {style.stroke: red}"})
			}
		}
	}
	return out
}

func (g *gstate) importTarget(atRoot bool) (string, bool) {
	var ok []string
	for _, tg := range g.targets {
		if !tg.rooty || atRoot {
			ok = append(ok, tg.name)
		}
	}
	if len(ok) == 0 {
		return "", false
	}
	return rapid.SampledFrom(ok).Draw(g.t, "target"), true
}

func drawPool(t *rapid.T) []int {
	n := rapid.IntRange(2, 6).Draw(t, "npool")
	seen := map[int]bool{}
	var pool []int
	for len(pool) < n {
		// the first six identities are plain, the rest quoted / dotted / non-ASCII
		var id int
		if gen.Pick(t, "poolkind", 3, 2) == 0 {
			id = rapid.IntRange(0, 6).Draw(t, "pid")
		} else {
			id = rapid.IntRange(7, nOrdinaryIdentities-1).Draw(t, "qid")
			if gen.Pick(t, "kwname", 12, 1) == 1 {
				id = rapid.IntRange(nOrdinaryIdentities, len(identities)-1).Draw(t, "kwid")
			}
		}
		if !seen[id] {
			seen[id] = true
			pool = append(pool, id)
		}
	}
	return pool
}

func genFile(t *rapid.T, pool []int, class, name string, budget int, targets []impTarget, boards bool) (fileM, *gstate) {
	g := &gstate{t: t, pool: pool, budget: budget, class: class, file: name, targets: targets, bnUsed: map[string]bool{}}
	bd := 0
	if !boards {
		bd = 3 // no boards in this file
	}
	f := fileM{Name: name, Tab: gen.Pick(t, "tab", 5, 1) == 1, CRLF: gen.Pick(t, "crlf", 9, 1) == 1}
	f.Body = g.body(0, bd, true, false, nil, 9)
	// boards are the point of a third of the checks: make sure there is a block to stand in
	if boards && name == "index" && g.budget > 0 && !hasBoards(f.Body) && gen.Pick(t, "forceboards", 1, 1) == 1 {
		g.budget += 4
		kind := rapid.SampledFrom(gen.BoardKeywords).Draw(t, "bkind")
		st := stmt{K: "boards", BKind: kind}
		nb := gen.Pick(t, "nboards", 4, 4, 1) + 1
		for j := 0; j < nb; j++ {
			bn, ok := g.boardName()
			if !ok {
				break
			}
			st.Boards = append(st.Boards, boardM{Name: bn, Body: g.body(0, 1, true, false, nil, 4)})
		}
		pos := rapid.IntRange(0, len(f.Body)).Draw(t, "bpos")
		f.Body = append(f.Body[:pos:pos], append([]stmt{st}, f.Body[pos:]...)...)
	}
	return f, g
}

func genC42(t *rapid.T) c42Case {
	c := c42Case{QSeed: rapid.IntRange(0, 1<<30).Draw(t, "qseed")}
	switch gen.Pick(t, "class", 12, 4, 3) {
	case 0:
		c.Class = "core"
	case 1:
		c.Class = "imports"
	default:
		c.Class = "globs"
	}
	pool := drawPool(t)
	budget := hx16(t)
	switch c.Class {
	case "imports":
		var targets []impTarget
		var others []fileM
		if rapid.Bool().Draw(t, "has_y") {
			rooty := rapid.Bool().Draw(t, "y_rooty")
			f, _ := genFile(t, pool, "core", "y", 5, nil, rooty)
			others = append(others, f)
			targets = append(targets, impTarget{"y", rooty})
		}
		{
			rooty := rapid.Bool().Draw(t, "x_rooty")
			// x may itself import y
			var xt []impTarget
			for _, tg := range targets {
				if rooty || !tg.rooty {
					xt = append(xt, tg)
				}
			}
			f, _ := genFile(t, pool, "imports", "x", 6, xt, rooty)
			others = append([]fileM{f}, others...)
			targets = append(targets, impTarget{"x", rooty})
		}
		idx, g := genFile(t, pool, "imports", "index", budget, targets, true)
		if g.nImp == 0 {
			idx.Body = append([]stmt{{K: "spread", File: "x"}}, idx.Body...)
		}
		c.Files = append([]fileM{idx}, others...)
	default:
		idx, g := genFile(t, pool, c.Class, "index", budget, nil, true)
		if c.Class == "globs" && g.nGlob == 0 {
			idx.Body = append(idx.Body, stmt{K: "glob", Text: rapid.SampledFrom(globTexts).Draw(t, "glob")})
		}
		c.Files = []fileM{idx}
		if gen.Pick(t, "decoy", 3, 1) == 1 {
			f, _ := genFile(t, pool, "core", "other", 4, nil, true)
			c.Files = append(c.Files, f)
		}
	}
	// broken texts for the completion oracle: mutations of the printed text and raw grammar text
	rec := printSet(c.Files)
	switch gen.Pick(t, "broken", 3, 4, 2, 1) {
	case 1:
		c.Broken = append(c.Broken, []byte(gen.Mutate(t, rec.files[0].text, 3)))
	case 2:
		o := gen.DefaultTextOpts()
		o.MaxNodes = 4
		c.Broken = append(c.Broken, []byte(gen.Text(t, o)))
	case 3:
		o := gen.DefaultTextOpts()
		o.MaxNodes = 3
		c.Broken = append(c.Broken, []byte(gen.Mutate(t, gen.Text(t, o), 2)))
	}
	return c
}

func hasBoards(ss []stmt) bool {
	for _, st := range ss {
		if st.K == "boards" {
			return true
		}
	}
	return false
}

func hx16(t *rapid.T) int { return rapid.IntRange(3, 20).Draw(t, "budget") }
