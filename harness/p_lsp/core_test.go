package p_lsp

import "strings"

// helpers to write models by hand

// sg derives the denoted name from a token: quotes stripped, \. unescaped.
func sg(r string) seg {
	n := r
	if len(n) >= 2 && (n[0] == '"' || n[0] == '\'') && n[len(n)-1] == n[0] {
		n = n[1 : len(n)-1]
	} else {
		n = strings.ReplaceAll(n, `\.`, ".")
	}
	return seg{R: r, N: n}
}

func pth(tokens ...string) []seg {
	out := make([]seg, len(tokens))
	for i, t := range tokens {
		out[i] = sg(t)
	}
	return out
}

func decl(p []seg) stmt             { return stmt{K: "decl", Path: p} }
func declV(p []seg, v string) stmt  { return stmt{K: "decl", Path: p, Val: v} }
func declB(p []seg, b ...stmt) stmt { return stmt{K: "decl", Path: p, HasBody: true, Body: b} }
func declI(p []seg, b ...stmt) stmt {
	return stmt{K: "decl", Path: p, HasBody: true, Body: b, Inline: true}
}
func attr(p []seg, t, v string) stmt { return stmt{K: "attr", Path: p, Tail: t, Val: v} }
func edge(arrow string, ends ...[]seg) stmt {
	st := stmt{K: "edge", Ends: ends}
	for i := 1; i < len(ends); i++ {
		st.Arrows = append(st.Arrows, arrow)
	}
	return st
}
func eref(a []seg, arrow string, b []seg, idx int, tail, val string) stmt {
	return stmt{K: "eref", Ends: [][]seg{a, b}, Arrows: []string{arrow}, Idx: idx, Tail: tail, Val: val}
}
func brd(name string, b ...stmt) boardM     { return boardM{Name: sg(name), Body: b} }
func brdI(name string, b ...stmt) boardM    { return boardM{Name: sg(name), Body: b, Inline: true} }
func boards(kind string, bs ...boardM) stmt { return stmt{K: "boards", BKind: kind, Boards: bs} }
func boardsI(kind string, bs ...boardM) stmt {
	return stmt{K: "boards", BKind: kind, Boards: bs, Inline: true}
}
func one(class string, body ...stmt) c42Case {
	return c42Case{Class: class, Kind: "core", Files: []fileM{{Name: "index", Body: body}}}
}

func coreC42() []c42Case {
	var out []c42Case
	add := func(c c42Case) {
		for _, q := range []int{1, 7, 12345} {
			c.QSeed = q
			out = append(out, c)
		}
	}
	// the repo's own examples
	add(one("core", decl(pth("x")), decl(pth("x", "a")), decl(pth("a", "x")), edge("->", pth("x"), pth("y"))))
	add(one("core", decl(pth("x")), decl(pth("x", "a")), decl(pth("a", "x")), edge("->", pth("x"), pth("y")), edge("->", pth("y"), pth("z")),
		edge("->", pth("x"), pth("z")), declB(pth("b"), edge("->", pth("x"), pth("y")))))
	add(one("core", decl(pth("hi")), boards("layers", brd("x", decl(pth("hello")), boards("layers", brd("y", decl(pth("qwer"))))))))
	add(one("core", boards("layers", brd("outer", boards("layers", brd("first", edge("->", pth("a"), pth("b"))), brd("second", edge("->", pth("x"), pth("y"))))))))
	add(one("core", boards("layers", brd("x", declB(pth("wumbo"), decl(pth("car")))))))
	add(one("core", boards("scenarios", brd("happy", edge("->", pth("x"), pth("y")))), boards("steps", brd("first", edge("->", pth("x"), pth("y"))), brd("basic"))))
	// spellings of one key
	add(one("core", decl(pth("a")), declV(pth("A", "b"), "hi"), attr(pth(`"a"`, "B"), "style.fill", "red"), declB(pth("'A'"), decl(pth(`"b"`, "c")), attr(nil, "shape", "circle")),
		edge("->", pth("a", "b"), pth("A", "C")), eref(pth("A", "B"), "->", pth("a", "c"), 0, "style.stroke", "red")))
	add(one("core", decl(pth(`"a.b"`)), decl(pth(`a\.b`, "x")), decl(pth("a", "b")), edge("--", pth("'A.B'"), pth("a b")), decl(pth(`"a b"`, `"a.b"`))))
	// common leading containers, chains, every arrow, indexed references
	add(one("core", edge("->", pth("a", "b"), pth("a", "c")), declB(pth("a"), edge("->", pth("b"), pth("c")), eref(pth("b"), "->", pth("c"), 1, "", "second")),
		eref(pth("a", "b"), "->", pth("a", "c"), 1, "style.stroke", "red"), edge("<-", pth("x"), pth("y")), edge("->", pth("x"), pth("y"), pth("z")),
		edge("<->", pth("x"), pth("y")), edge("--", pth("x"), pth("y")), edge("->", pth("x"), pth("y")), eref(pth("X"), "->", pth("Y"), 1, "style.animated", "true")))
	// inheritance: scenario block not last, steps chain, layer inside scenario
	add(one("core", decl(pth("a")), decl(pth("b")), boards("scenarios", brd("s", decl(pth("a", "x")), decl(pth("c")), edge("->", pth("a"), pth("b")))),
		decl(pth("d")), edge("->", pth("a"), pth("b")),
		boards("layers", brd("l", decl(pth("a")), boards("steps", brd("s1", decl(pth("q"))), brd("s2", decl(pth("r")), decl(pth("q", "z"))), brd("s3", eref(pth("q"), "->", pth("r"), 0, "", "x"), edge("->", pth("q"), pth("r")), eref(pth("q"), "->", pth("r"), 0, "", "x")))))))
	// all on one line
	add(one("core", declI(pth("a"), decl(pth("b")), declI(pth("c"), decl(pth("d")))), boardsI("layers", brdI("x", decl(pth("a")), boardsI("scenarios", brdI("y", decl(pth("b"))), brdI("z"))), brdI("w"))))
	// the gap between the boards of a nested board
	add(one("core", boards("layers", brd("x", decl(pth("a")), boards("layers", brd("y", decl(pth("b"))), brd("z", decl(pth("c"))))))))
	// imports: the repo's example, board import, nested import
	out = append(out, c42Case{Class: "imports", Kind: "core", QSeed: 3, Files: []fileM{
		{Name: "index", Body: []stmt{{K: "spread", File: "ok"}, decl(pth("hi")), {K: "vimport", Path: pth("hey"), File: "ok"}}},
		{Name: "ok", Body: []stmt{decl(pth("what")), decl(pth("lala")), decl(pth("okay"))}}}})
	out = append(out, c42Case{Class: "imports", Kind: "core", QSeed: 5, Files: []fileM{
		{Name: "index", Body: []stmt{decl(pth("what")), {K: "boards", BKind: "layers", Boards: []boardM{{Name: sg("l"), Import: "x"}, brd("m", stmt{K: "spread", File: "x"}, decl(pth("what", "z")))}}, declB(pth("k"), stmt{K: "spread", File: "y"})}},
		{Name: "x", Body: []stmt{decl(pth("what")), edge("->", pth("what"), pth("lala")), boards("layers", brd("zz", decl(pth("what")))), {K: "spread", File: "y"}}},
		{Name: "y", Body: []stmt{decl(pth("deep", "what")), edge("->", pth("deep"), pth("lala"))}}}})
	// globs
	out = append(out, c42Case{Class: "globs", Kind: "core", QSeed: 9, Files: []fileM{{Name: "index", Body: []stmt{
		decl(pth("a")), declB(pth("b"), decl(pth("c"))), {K: "glob", Text: "*.style.fill: red"}, {K: "glob", Text: "b.*.shape: circle"}, {K: "glob", Text: "* -> a"},
		edge("->", pth("b"), pth("a")), eref(pth("b"), "->", pth("a"), 0, "style.stroke", "red"), {K: "glob", Text: "(* -> *)[*].style.opacity: 0.5"}, {K: "glob", Text: "**.style.stroke: blue"}}}}})
	// broken texts for the completion oracle
	for _, s := range []string{"a.style.", "a: {\n  style.\n}\n", "a.shape:", "a: {shape:", "x -> y: {source-arrowhead.shape:", "a.style.fill: \"", "layers: {x: {a.style.", "a.\n.b", "(a -> b)[0].style.", "\xff\xfea\x00.\x00", "a.style.\r\nb.", "a: |md\n  x.\n|\nb.style.", "", "\n", ".", ":", "a.b.\n\n\n"} {
		out = append(out, c42Case{Class: "core", Kind: "core-broken", Files: []fileM{{Name: "index", Body: []stmt{decl(pth("a"))}}}, Broken: [][]byte{[]byte(s)}})
	}
	return out
}
