package p_lsp

import (
	"fmt"
	"runtime/debug"
	"sort"
	"strings"
	"testing"
	"time"

	"oss.terrastruct.com/d2/d2ast"
	"oss.terrastruct.com/d2/d2compiler"
	"oss.terrastruct.com/d2/d2lsp"
	"oss.terrastruct.com/d2/d2parser"
	"oss.terrastruct.com/d2/lib/memfs"

	"verif/harness/hx"
)

// C42: editor support returns exact reference ranges and board positions.
//
// Classes: "core" (one file, no globs, no imports: soundness AND completeness of reference
// ranges), "imports" / "globs" (indirect references: soundness only). Board positions and
// completion requests are checked on every position of every text in all classes.
type c42Case struct {
	Class  string   `json:"class"`
	Files  []fileM  `json:"files"` // Files[0] is index
	QSeed  int      `json:"qseed"`
	Broken [][]byte `json:"broken,omitempty"` // texts for the completion oracle only
	Kind   string   `json:"kind,omitempty"`
}

const maxQueries = 36

type lcg struct{ x uint64 }

func (l *lcg) next(n int) int {
	l.x = l.x*6364136223846793005 + 1442695040888963407
	if n <= 0 {
		return 0
	}
	return int((l.x >> 33) % uint64(n))
}

type c42run struct {
	h     *hx.H
	c     c42Case
	rec   *record
	fs    map[string]string
	rnd   *lcg
	soft  map[string]bool // signatures already reported in this case
	multi bool            // some queried key has >= 3 mentions across >= 2 forms
}

// fail reports one violation per signature and case (known signatures: counted, case continues).
func (r *c42run) fail(sig, format string, args ...any) {
	if r.soft[sig] {
		return
	}
	r.soft[sig] = true
	r.h.FailSoft(sig, format, args...)
}

func (r *c42run) dump() string {
	var sb strings.Builder
	for _, f := range r.rec.files {
		fmt.Fprintf(&sb, "--- %s ---\n%s", f.name, f.text)
	}
	return sb.String()
}

// sliceOf cuts a returned range out of the right file using its line/column positions and
// checks that its byte offsets agree.
func (r *c42run) sliceOf(rg d2ast.Range, what string) (f *fileRec, start, end int, ok bool) {
	f = r.rec.byName[rg.Path]
	if f == nil {
		r.fail("range:unknown-file", "%s: returned range %s names file %q which is not in the file set\n%s", what, rg.String(), rg.Path, r.dump())
		return nil, 0, 0, false
	}
	s, ok1 := f.offset(rg.Start.Line, rg.Start.Column)
	e, ok2 := f.offset(rg.End.Line, rg.End.Column)
	if !ok1 || !ok2 || e < s {
		r.fail("range:not-a-position", "%s: returned range %s is not a pair of positions of %s\n%s", what, rg.String(), rg.Path, r.dump())
		return nil, 0, 0, false
	}
	if (rg.Start.Byte >= 0 && rg.Start.Byte != s) || (rg.End.Byte >= 0 && rg.End.Byte != e) {
		r.fail("range:byte-disagrees", "%s: returned range %s: byte offsets %d-%d disagree with line/column (%d-%d)\n%s", what, rg.String(), rg.Start.Byte, rg.End.Byte, s, e, r.dump())
		return nil, 0, 0, false
	}
	return f, s, e, true
}

func hasSuffix(key, suffix []string) bool {
	if len(suffix) > len(key) {
		return false
	}
	off := len(key) - len(suffix)
	for i := range suffix {
		if key[off+i] != suffix[i] {
			return false
		}
	}
	return true
}

func (r *c42run) inGlob(file string, s, e int) bool {
	for _, g := range r.rec.globs {
		if g.file == file && g.start <= s && e <= g.end {
			return true
		}
	}
	return false
}

func (r *c42run) renderPath(path []string) string {
	parts := make([]string, len(path))
	for i, f := range path {
		raws := r.rec.raws[f]
		if len(raws) == 0 {
			parts[i] = f
			continue
		}
		parts[i] = raws[r.rnd.next(len(raws))]
	}
	return strings.Join(parts, ".")
}

type objQuery struct {
	board  int
	key    []string
	linked bool // key reached through an import: soundness only
}

// inheritedBefore: the mention m of a board on b's inheritance chain is written before the
// block of the next board down the chain opens. D2 copies the base board when it meets the
// block, so exactly these mentions are part of b.
func (r *c42run) inheritedBefore(chain []int, file string, mboard, mstart int) bool {
	for j := 1; j < len(chain); j++ {
		if chain[j] == mboard {
			nb := r.rec.boards[chain[j-1]]
			return nb.file == file && nb.open >= 0 && mstart < nb.open
		}
	}
	return false
}

// ksig narrows a signature when the queried key involves an object whose (quoted) name
// spells a board keyword. Quoted keywords are ordinary names, but d2ir looks at the bare name
// in places (NodeBoardKind, CopyBase): children of such objects are overlaid like scenario/step
// boards, and the object and its connections are dropped from the base board when a
// scenario/step is copied. One root cause, one signature per failure kind.
func ksig(sig string, segs ...[]string) string {
	for _, key := range segs {
		for _, k := range key {
			switch k {
			case "scenarios", "steps", "layers":
				if i := strings.IndexByte(sig, ':'); i >= 0 {
					sig = sig[:i]
				}
				return "object-named-like-board-keyword:" + sig
			}
		}
	}
	return sig
}

type edgeQuery struct {
	board int
	em    edgeMention
}

func inList(l []int, x int) bool {
	for _, y := range l {
		if x == y {
			return true
		}
	}
	return false
}

// ---------- oracle 1 + 2: reference ranges ----------

func (r *c42run) objectQuery(path string, q objQuery) {
	h := r.h
	rec := r.rec
	b := rec.boards[q.board]
	k := keyOf(q.key)
	last := q.key[len(q.key)-1]
	keyStr := r.renderPath(q.key)
	what := fmt.Sprintf("GetRefRanges(%q, board %q, key %q)", path, b.names, keyStr)
	cl := rec.closure(q.board)
	var own, reach []mention
	forms := map[string]bool{}
	present := q.linked
	for _, m := range rec.mentions {
		if m.key != k {
			continue
		}
		if m.board == q.board {
			own = append(own, m)
			present = true
		}
		if inList(cl, m.board) {
			reach = append(reach, m)
			forms[m.form] = true
			// (objects named like a board keyword are dropped from the copy a scenario/step starts
			// from, see ksig: inherited keys through them may be absent)
			// (with imports the board a step starts from may be an imported one: core class only)
			if r.c.Class == "core" && r.inheritedBefore(cl, m.file, m.board, m.start) && ksig("", q.key) == "" {
				present = true
			}
		}
	}
	var ranges, imps []d2ast.Range
	var err error
	if present {
		ranges, imps, err = d2lsp.GetRefRanges(path, r.fs, b.names, keyStr)
	} else {
		// written only after the block of a scenario/step that starts from this board: D2 does not
		// copy it, so it may not be a key of the queried board at all (see absentQueries)
		crashed := false
		func() {
			defer func() {
				if x := recover(); x != nil {
					crashed = true
				}
			}()
			ranges, imps, err = d2lsp.GetRefRanges(path, r.fs, b.names, keyStr)
		}()
		h.AddExtra("absent_queries", 1)
		if crashed {
			h.AddExtra("absent_key_panics", 1)
			h.Label("absent-key:panic")
			return
		}
	}
	if err != nil {
		r.fail(ksig("ref-error", q.key), "%s: error for a declared key: %v\n%s", what, err, r.dump())
		return
	}
	if len(reach) >= 3 && len(forms) >= 2 {
		r.multi = true
	}
	h.AddExtra("object_queries", 1)
	h.AddExtra("ranges_returned", int64(len(ranges)))
	// soundness
	for _, rg := range ranges {
		f, s, e, ok := r.sliceOf(rg, what)
		if !ok {
			continue
		}
		src := f.text[s:e]
		if r.c.Class == "globs" && r.inGlob(f.name, s, e) {
			h.AddExtra("glob_induced_ranges", 1)
			continue // a glob pattern that matched the key: indirect reference, not asserted
		}
		kp, perr := d2parser.ParseKey(src)
		if perr != nil || kp == nil || len(kp.Path) == 0 {
			r.fail("ref-range:not-a-key", "%s: returned range %s covers %q, which is not a key\n%s", what, rg.String(), src, r.dump())
			continue
		}
		// the covered text names the key: its last segment is the key's last segment, and if it
		// covers more segments they are the key's trailing segments
		var got []string
		for _, sb := range kp.Path {
			got = append(got, fold(sb.Unbox().ScalarString()))
		}
		if !strings.EqualFold(kp.Path[len(kp.Path)-1].Unbox().ScalarString(), last) || !hasSuffix(q.key, got) {
			r.fail(ksig("ref-range:names-other-key", q.key), "%s: returned range %s covers %q, which does not name the key\n%s", what, rg.String(), src, r.dump())
			continue
		}
		// ... and it is one of the places where this key (of this board or of a board it inherits from) is written
		found, exact := false, false
		if f.name == path || r.c.Class != "imports" {
			for _, m := range reach {
				if m.file == f.name && s <= m.start && m.end <= e {
					found = true
					exact = exact || (s == m.start && e == m.end)
				}
			}
			if !found && r.c.Class != "core" {
				// second class: an unrecorded indirect mention (written inside a glob statement, or reached through an import)
				for _, m := range rec.mentions {
					if m.file == f.name && s <= m.start && m.end <= e && hasSuffix(q.key, strings.Split(m.key, ksep)) {
						found = true
					}
				}
			}
		} else {
			for _, m := range rec.mentions {
				if m.file == f.name && s <= m.start && m.end <= e && hasSuffix(q.key, strings.Split(m.key, ksep)) {
					found = true
					exact = exact || (s == m.start && e == m.end)
				}
			}
		}
		if !found {
			r.fail(ksig("ref-range:not-a-mention", q.key), "%s: returned range %s (%q) is not a place where this key is written (it is another key or another board's key with the same last name)\n%s", what, rg.String(), src, r.dump())
			continue
		}
		if exact {
			h.AddExtra("ranges_exact_segment", 1)
		}
	}
	for _, rg := range imps {
		f, s, e, ok := r.sliceOf(rg, what+" import range")
		if !ok {
			continue
		}
		if !strings.Contains(f.text[s:e], "@") {
			r.fail("import-range:not-an-import", "%s: import range %s covers %q\n%s", what, rg.String(), f.text[s:e], r.dump())
		}
	}
	// completeness (core class, and files without imports/globs)
	if q.linked {
		return
	}
	// mentions a scenario/step inherits from text before its block: accepted, not required; measured
	for _, m := range reach {
		if m.board == q.board || !r.inheritedBefore(cl, m.file, m.board, m.start) {
			continue
		}
		got := false
		for _, rg := range ranges {
			if rg.Path == m.file {
				f := rec.byName[rg.Path]
				s, ok1 := f.offset(rg.Start.Line, rg.Start.Column)
				e, ok2 := f.offset(rg.End.Line, rg.End.Column)
				if ok1 && ok2 && s <= m.start && m.end <= e {
					got = true
				}
			}
		}
		if got {
			h.AddExtra("inherited_mentions_returned", 1)
		} else {
			h.AddExtra("inherited_mentions_not_returned", 1)
		}
	}
	for _, m := range own {
		covered := false
		for _, rg := range ranges {
			if rg.Path != m.file {
				continue
			}
			f := rec.byName[rg.Path]
			s, ok1 := f.offset(rg.Start.Line, rg.Start.Column)
			e, ok2 := f.offset(rg.End.Line, rg.End.Column)
			if ok1 && ok2 && s <= m.start && m.end <= e {
				covered = true
			}
		}
		if covered {
			continue
		}
		if r.c.Class != "core" {
			h.AddExtra("second_class_unreturned_mentions", 1)
			continue
		}
		fr := rec.byName[m.file]
		l, c := fr.lineCol(m.start)
		r.fail(ksig("ref-missing:"+m.form, q.key), "%s: the %s mention %q at %s:%d:%d is not covered by any returned range (%d returned)\n%s", what, m.form, fr.text[m.start:m.end], m.file, l+1, c+1, len(ranges), r.dump())
	}
}

func arrowOf(e *d2ast.Edge) string {
	switch {
	case e.SrcArrow == "<" && e.DstArrow == ">":
		return "<->"
	case e.SrcArrow == "<":
		return "<-"
	case e.DstArrow == ">":
		return "->"
	}
	return "--"
}

func (r *c42run) edgeQuery(path string, q edgeQuery) {
	h := r.h
	rec := r.rec
	b := rec.boards[q.board]
	em := q.em
	variant := r.rnd.next(4)
	indexed := true
	var keyStr string
	switch {
	case variant == 0 && len(em.cont) > 0:
		// endpoints written from the board root
		keyStr = fmt.Sprintf("(%s %s %s)[%d]", r.renderPath(append(append([]string(nil), em.cont...), em.src...)), em.arrow, r.renderPath(append(append([]string(nil), em.cont...), em.dst...)), em.idx)
	case variant == 1:
		indexed = false
		keyStr = fmt.Sprintf("%s %s %s", r.renderPath(em.src), em.arrow, r.renderPath(em.dst))
		if len(em.cont) > 0 {
			keyStr = r.renderPath(em.cont) + ".(" + keyStr + ")"
		}
	default:
		keyStr = fmt.Sprintf("(%s %s %s)[%d]", r.renderPath(em.src), em.arrow, r.renderPath(em.dst), em.idx)
		if len(em.cont) > 0 {
			keyStr = r.renderPath(em.cont) + "." + keyStr
		}
	}
	what := fmt.Sprintf("GetRefRanges(%q, board %q, key %q)", path, b.names, keyStr)
	cl := rec.closure(q.board)
	present := false
	for _, m := range rec.edges {
		if m.id == em.id && m.idx == em.idx && (m.board == q.board || (r.c.Class == "core" && inList(cl, m.board) && r.inheritedBefore(cl, m.file, m.board, m.start) && ksig("", em.cont, em.src, em.dst) == "")) {
			present = true
		}
	}
	var ranges []d2ast.Range
	var err error
	if present {
		ranges, _, err = d2lsp.GetRefRanges(path, r.fs, b.names, keyStr)
	} else {
		crashed := false
		func() {
			defer func() {
				if x := recover(); x != nil {
					crashed = true
				}
			}()
			ranges, _, err = d2lsp.GetRefRanges(path, r.fs, b.names, keyStr)
		}()
		h.AddExtra("absent_queries", 1)
		if crashed {
			h.AddExtra("absent_key_panics", 1)
			h.Label("absent-key:panic")
			return
		}
	}
	if err != nil {
		r.fail(ksig("edge-ref-error", em.cont, em.src, em.dst), "%s: error for a declared connection: %v\n%s", what, err, r.dump())
		return
	}
	h.AddExtra("edge_queries", 1)
	h.AddExtra("ranges_returned", int64(len(ranges)))
	strictIdx := indexed && r.c.Class == "core"
	lastS, lastD := em.src[len(em.src)-1], em.dst[len(em.dst)-1]
	for _, rg := range ranges {
		f, s, e, ok := r.sliceOf(rg, what)
		if !ok {
			continue
		}
		src := f.text[s:e]
		if r.c.Class == "globs" && r.inGlob(f.name, s, e) {
			h.AddExtra("glob_induced_ranges", 1)
			continue
		}
		mk, perr := d2parser.ParseMapKey(src)
		if perr != nil || mk == nil || len(mk.Edges) == 0 {
			r.fail("edge-range:not-a-connection", "%s: returned range %s covers %q, which is not a connection\n%s", what, rg.String(), src, r.dump())
			continue
		}
		named := false
		for _, pe := range mk.Edges {
			if pe.Src == nil || pe.Dst == nil || len(pe.Src.Path) == 0 || len(pe.Dst.Path) == 0 {
				continue
			}
			ps := pe.Src.Path[len(pe.Src.Path)-1].Unbox().ScalarString()
			pd := pe.Dst.Path[len(pe.Dst.Path)-1].Unbox().ScalarString()
			if arrowOf(pe) == em.arrow && strings.EqualFold(ps, lastS) && strings.EqualFold(pd, lastD) {
				named = true
			}
		}
		if !named {
			r.fail(ksig("edge-range:names-other-connection", em.cont, em.src, em.dst), "%s: returned range %s covers %q, which does not name the connection\n%s", what, rg.String(), src, r.dump())
			continue
		}
		found, exact := false, false
		for _, m := range rec.edges {
			if m.file != f.name || !(s <= m.start && m.end <= e) {
				continue
			}
			sameBoard := inList(cl, m.board) || r.c.Class == "imports"
			if r.c.Class == "imports" && f.name != path {
				// reached through an import: the container prefix differs, compare endpoints
				if m.arrow == em.arrow && m.src[len(m.src)-1] == lastS && m.dst[len(m.dst)-1] == lastD {
					found = true
				}
				continue
			}
			if sameBoard && m.id == em.id && (!strictIdx || m.idx == em.idx) {
				found = true
				exact = exact || (s == m.start && e == m.end)
			}
		}
		if !found {
			r.fail(ksig("edge-range:not-a-mention", em.cont, em.src, em.dst), "%s: returned range %s (%q) is not a place where this connection is written\n%s", what, rg.String(), src, r.dump())
			continue
		}
		if exact {
			h.AddExtra("ranges_exact_segment", 1)
		}
	}
	for _, m := range rec.edges {
		if m.board != q.board || m.id != em.id || (indexed && m.idx != em.idx) {
			continue
		}
		covered := false
		for _, rg := range ranges {
			if rg.Path != m.file {
				continue
			}
			f := rec.byName[rg.Path]
			s, ok1 := f.offset(rg.Start.Line, rg.Start.Column)
			e, ok2 := f.offset(rg.End.Line, rg.End.Column)
			if ok1 && ok2 && s <= m.start && m.end <= e {
				covered = true
			}
		}
		if covered {
			continue
		}
		if r.c.Class != "core" {
			h.AddExtra("second_class_unreturned_mentions", 1)
			continue
		}
		fr := rec.byName[m.file]
		l, c := fr.lineCol(m.start)
		r.fail(ksig("edge-ref-missing:"+m.form, em.cont, em.src, em.dst), "%s: the %s mention %q at %s:%d:%d is not covered by any returned range (%d returned)\n%s", what, m.form, fr.text[m.start:m.end], m.file, l+1, c+1, len(ranges), r.dump())
	}
}

// absentQueries: keys that are not declared. The statement quantifies over keys of the file
// set, so nothing is asserted about the outcome except that any range that does come back
// still has to be a range of the file set; crashes are counted, not asserted.
func (r *c42run) absentQueries(path string) {
	h := r.h
	keys := []string{"zz9", "(zz9 -> zz8)[0]", "zz9.(a -> b)[0]"}
	// a child of a leaf object, an index beyond the declared connections
	for _, m := range r.rec.mentions {
		if m.board == 0 && m.file == path {
			keys = append(keys, r.renderPath(strings.Split(m.key, ksep))+".zz9")
			break
		}
	}
	for _, em := range r.rec.edges {
		if em.board == 0 && em.file == path && len(em.cont) == 0 {
			keys = append(keys, fmt.Sprintf("(%s %s %s)[77]", r.renderPath(em.src), em.arrow, r.renderPath(em.dst)))
			break
		}
	}
	for _, k := range keys {
		func() {
			defer func() {
				if x := recover(); x != nil {
					h.AddExtra("absent_key_panics", 1)
					h.Label("absent-key:panic")
				}
			}()
			ranges, _, err := d2lsp.GetRefRanges(path, r.fs, nil, k)
			h.AddExtra("absent_queries", 1)
			if err == nil && len(ranges) > 0 && strings.Contains(k, "zz9") {
				r.fail("ref-range:absent-key-has-ranges", "GetRefRanges(%q, key %q): %d ranges for a key that is written nowhere\n%s", path, k, len(ranges), r.dump())
			}
		}()
	}
}

func (r *c42run) refOracle(path string) {
	rec := r.rec
	var oq []objQuery
	var eq []edgeQuery
	for _, b := range rec.boards {
		if b.file != path {
			continue
		}
		if b.parent >= 0 && b.open < 0 {
			continue // imported board: queried through its link below
		}
		cl := rec.closure(b.id)
		seen := map[string]bool{}
		var keys []string
		for _, m := range rec.mentions {
			if inList(cl, m.board) && !seen[m.key] {
				seen[m.key] = true
				keys = append(keys, m.key)
			}
		}
		sort.Strings(keys)
		for _, k := range keys {
			oq = append(oq, objQuery{board: b.id, key: strings.Split(k, ksep)})
		}
		seenE := map[string]bool{}
		for _, em := range rec.edges {
			k := fmt.Sprintf("%s#%d", em.id, em.idx)
			if inList(cl, em.board) && !seenE[k] {
				seenE[k] = true
				eq = append(eq, edgeQuery{board: b.id, em: em})
			}
		}
	}
	// keys that exist through an import (one level): soundness only
	for _, l := range rec.links {
		if l.file != path {
			continue
		}
		var troot = -1
		for _, b := range rec.boards {
			if b.file == l.to && b.parent < 0 {
				troot = b.id
			}
		}
		if troot < 0 {
			continue
		}
		seen := map[string]bool{}
		for _, m := range rec.mentions {
			if m.board == troot && !seen[m.key] {
				seen[m.key] = true
				oq = append(oq, objQuery{board: l.board, key: append(append([]string(nil), l.cont...), strings.Split(m.key, ksep)...), linked: true})
			}
		}
	}
	// deterministic selection when there are too many
	pick := func(n int) []int {
		idx := make([]int, n)
		for i := range idx {
			idx[i] = i
		}
		for i := n - 1; i > 0; i-- {
			j := r.rnd.next(i + 1)
			idx[i], idx[j] = idx[j], idx[i]
		}
		return idx
	}
	no, ne := len(oq), len(eq)
	capO, capE := maxQueries*2/3, maxQueries/3
	for i, j := range pick(no) {
		if i >= capO {
			break
		}
		r.objectQuery(path, oq[j])
	}
	for i, j := range pick(ne) {
		if i >= capE {
			break
		}
		r.edgeQuery(path, eq[j])
	}
	r.absentQueries(path)
}

// ---------- oracle 3: board at position ----------

func sameStrings(a, b []string) bool {
	if len(a) != len(b) {
		return false
	}
	for i := range a {
		if a[i] != b[i] {
			return false
		}
	}
	return true
}

func (r *c42run) boardOracle(f *fileRec) (nested bool) {
	h := r.h
	var blocks []*boardRec
	for _, b := range r.rec.boards {
		if b.file == f.name && b.open >= 0 {
			blocks = append(blocks, b)
			if b.depth >= 2 && b.close > b.open+1 {
				nested = true
			}
		}
	}
	var npos, ngray int64
	for o := 0; o <= len(f.text); o++ {
		line, col := f.lineCol(o)
		var want *boardRec
		gray := false
		for _, b := range blocks {
			if o == b.open || o == b.close {
				gray = true // the brace characters themselves: the statement does not say
			}
			if b.open < o && o < b.close && (want == nil || b.depth > want.depth) {
				want = b
			}
		}
		got, err := d2lsp.GetBoardAtPosition(f.text, d2ast.Position{Line: line, Column: col, Byte: o})
		npos++
		if err != nil {
			r.fail("board-at-pos:error", "GetBoardAtPosition(%s, %d:%d): error on a compilable text: %v\n%s", f.name, line, col, err, r.dump())
			continue
		}
		if gray {
			ngray++
			continue
		}
		var wantPath []string
		if want != nil {
			wantPath = want.kinds
		}
		if sameStrings(got, wantPath) {
			continue
		}
		sig := "board-at-pos:wrong-board"
		inKw := false
		for _, kb := range r.rec.kwBlocks {
			if kb.file == f.name && kb.start <= o && o < kb.end {
				inKw = true
			}
		}
		switch {
		case r.dottedChain(want):
			// the board (or one around it) is declared as `layers.x: {...}`: its block is not seen as a
			// board block and maps inside it are taken for boards
			sig = "board-at-pos:dotted-board-declaration-missed"
		case inKw && len(got) > len(wantPath):
			// inside the map of an object named "layers"/"scenarios"/"steps" (quoted: not a keyword)
			sig = "board-at-pos:quoted-keyword-object-taken-for-boards"
		case len(got) == 0 && want != nil && r.betweenBoards(f, want, o):
			// inside `layers: {` of a nested board, outside every child block
			sig = "board-at-pos:between-boards-of-nested-board"
		case len(got) > len(wantPath):
			sig = "board-at-pos:outside-block-reported-inside"
		case len(got) < len(wantPath):
			sig = "board-at-pos:inside-block-reported-outside"
		}
		r.fail(sig, "GetBoardAtPosition(%s, line %d column %d) = %q, the innermost board block containing the position is %q\n%s", f.name, line, col, got, wantPath, r.dump())
	}
	h.AddExtra("board_positions", npos)
	h.AddExtra("board_positions_on_brace_gray", ngray)
	return nested
}

func (r *c42run) dottedChain(b *boardRec) bool {
	for b != nil {
		if b.dotted {
			return true
		}
		if b.parent < 0 {
			break
		}
		b = r.rec.boards[b.parent]
	}
	return false
}

// betweenBoards: o lies in board `in`, inside the braces of one of its layers/scenarios/steps
// maps. Decided from the text: scanning back from o, the nearest unmatched '{' is preceded by
// a board keyword.
func (r *c42run) betweenBoards(f *fileRec, in *boardRec, o int) bool {
	depth := 0
	for i := o - 1; i > in.open; i-- {
		switch f.text[i] {
		case '}':
			depth++
		case '{':
			if depth == 0 {
				head := strings.TrimRight(f.text[:i], " ")
				for _, kw := range []string{"layers:", "scenarios:", "steps:"} {
					if strings.HasSuffix(head, kw) {
						return true
					}
				}
				return false
			}
			depth--
		}
	}
	return false
}

// ---------- oracle 4: completion never crashes ----------

func (r *c42run) completionOracle(text string, kind string) {
	h := r.h
	lines := strings.Split(text, "\n")
	var n int64
	try := func(line, col int) {
		defer func() {
			if x := recover(); x != nil {
				sig := "completion-" + hx.PanicSig(debug.Stack())
				r.fail(sig, "GetCompletionItems(text, %d, %d) panicked on %s text: %v\n--- text ---\n%s", line, col, kind, x, text)
			}
		}()
		d2lsp.GetCompletionItems(text, line, col)
		n++
	}
	for li, l := range lines {
		for col := 0; col <= len(l); col++ {
			try(li, col)
		}
		// just past the end of the line (a client that counts the newline)
		try(li, len(l)+1)
	}
	try(len(lines), 0)
	h.AddExtra("completion_calls", n)
}

func (r *c42run) boardNoOracle(text string) {
	// broken texts: no expected board; count crashes only
	lines := strings.Split(text, "\n")
	for li, l := range lines {
		for col := 0; col <= len(l); col += 3 {
			func() {
				defer func() {
					if x := recover(); x != nil {
						r.h.AddExtra("board_at_pos_panics_on_broken_text", 1)
						r.h.Label("broken:board-at-pos-panic")
					}
				}()
				d2lsp.GetBoardAtPosition(text, d2ast.Position{Line: li, Column: col})
			}()
		}
	}
}

// ---------- the check ----------

func checkC42(h *hx.H, c c42Case) {
	if len(c.Files) == 0 {
		h.Reject("empty")
	}
	h.Label("class:" + c.Class)
	if c.Kind != "" {
		h.Label("kind:" + c.Kind)
	}
	rec := printSet(c.Files)
	r := &c42run{h: h, c: c, rec: rec, fs: map[string]string{}, rnd: &lcg{x: uint64(c.QSeed)*2 + 1}, soft: map[string]bool{}}
	for _, f := range rec.files {
		r.fs[f.name] = f.text
	}
	index := rec.files[0]
	mfs, err := memfs.New(r.fs)
	if err != nil {
		h.Reject("memfs")
	}
	if _, _, err := d2compiler.Compile(index.name, strings.NewReader(index.text), &d2compiler.CompileOptions{FS: mfs}); err != nil {
		h.Extra("last_not_compilable", firstLine(err.Error())+" | "+index.text)
		h.Reject("not-compilable")
	}
	h.Label(fmt.Sprintf("files:%d", len(rec.files)))
	maxDepth := 0
	kinds := map[string]bool{}
	for _, b := range rec.boards {
		if b.file == index.name && b.depth > maxDepth {
			maxDepth = b.depth
		}
		if b.kind != "" {
			kinds[b.kind] = true
		}
	}
	h.Label(fmt.Sprintf("board-depth:%d", maxDepth))
	for _, k := range []string{"layers", "scenarios", "steps"} {
		if kinds[k] {
			h.Label("boards:" + k)
		}
	}
	for _, form := range []string{"decl", "prefix", "attr", "edge-end", "eref-end", "edge", "eref"} {
		if rec.forms[form] > 0 {
			h.Label("form:" + form)
		}
	}
	quoted, cased := false, false
	for f, raws := range rec.raws {
		for _, x := range raws {
			if strings.ContainsAny(x, "\"'\\") {
				quoted = true
			}
			if x != f && !strings.ContainsAny(x, "\"'\\") {
				cased = true
			}
		}
		if len(raws) >= 2 {
			h.Label("key-spelled-several-ways")
		}
	}
	if quoted {
		h.Label("names:quoted")
	}
	if cased {
		h.Label("names:letter-case-variant")
	}
	if len(rec.globs) > 0 {
		h.Label("has-globs")
	}
	if len(rec.kwBlocks) > 0 {
		h.Label("object-named-like-board-keyword")
	}
	for _, b := range rec.boards {
		if b.dotted {
			h.Label("board-declared-dotted")
			break
		}
	}
	if len(rec.links) > 0 {
		h.Label("has-imports")
	}

	// oracle 1 + 2
	r.refOracle(index.name)
	// a file without imports is also a compilable file set on its own
	if c.Class == "imports" {
		for _, f := range rec.files[1:] {
			alone := true
			for _, l := range rec.links {
				if l.file == f.name {
					alone = false
				}
			}
			if !alone {
				continue
			}
			if _, _, err := d2compiler.Compile(f.name, strings.NewReader(f.text), &d2compiler.CompileOptions{FS: mfs}); err != nil {
				continue
			}
			save := r.c.Class
			r.c.Class = "core"
			r.refOracle(f.name)
			r.c.Class = save
			h.Label("imported-file-queried-alone")
		}
	}
	// oracle 3
	nested := false
	for _, f := range rec.files {
		if r.boardOracle(f) {
			nested = true
		}
	}
	// oracle 4
	for _, f := range rec.files {
		r.completionOracle(f.text, "valid")
	}
	for _, b := range c.Broken {
		h.Label("broken-text")
		r.completionOracle(string(b), "broken")
		r.boardNoOracle(string(b))
	}
	if r.multi {
		h.Label("nt:key>=3-mentions-2-forms")
	}
	if nested {
		h.Label("nt:nested-board-positions")
	}
	h.NonTrivial(r.multi || nested)
}

func firstLine(s string) string {
	if i := strings.IndexByte(s, '\n'); i >= 0 {
		return s[:i]
	}
	return s
}

func TestC42(t *testing.T) {
	// every position is parsed again by the code under test: garbage-heavy, tiny live heap
	debug.SetGCPercent(800)
	hx.Run(t, hx.Spec[c42Case]{Prop: "C42", Core: coreC42, Gen: genC42, Check: checkC42, Timeout: 60 * time.Second})
}
