package p_lsp

import (
	"sort"
	"strconv"
	"strings"
)

// The G-model of C42: a small abstract syntax of D2 file sets whose printer records, per
// file, the byte span of every mention of every object key and connection it writes and of
// every board block. The record is the oracle; the printed text is the input of d2lsp.

// seg is one key segment: R is the token as written (plain, quoted, other letter case),
// N the name it denotes.
type seg struct {
	R string `json:"r"`
	N string `json:"n"`
}

// stmt kinds:
//
//	decl     Path [: Val] [{Body}]                       a, a.b.c: label, a: {b}
//	attr     [Path.]Tail: Val                            a.style.fill: red, shape: circle (Path empty: the enclosing map itself)
//	edge     Ends[0] Arrows[0] Ends[1] ... [: Val] [{Body}]
//	eref     (Ends[0] Arrows[0] Ends[1])[i][.Tail]: Val  i = Idx modulo the number of such connections declared so far (statement dropped if none)
//	boards   BKind: { name: {Body} ... }
//	spread   ...@File
//	vimport  Path[0]: @File
//	glob     Text verbatim (second class only)
//	comment  # Text
type stmt struct {
	K       string   `json:"k"`
	Path    []seg    `json:"p,omitempty"`
	Tail    string   `json:"t,omitempty"`
	Val     string   `json:"v,omitempty"`
	HasBody bool     `json:"hb,omitempty"`
	Body    []stmt   `json:"b,omitempty"`
	Inline  bool     `json:"in,omitempty"`
	Ends    [][]seg  `json:"e,omitempty"`
	Arrows  []string `json:"a,omitempty"`
	Idx     int      `json:"i,omitempty"`
	BKind   string   `json:"bk,omitempty"`
	Boards  []boardM `json:"bs,omitempty"`
	File    string   `json:"f,omitempty"`
	Text    string   `json:"x,omitempty"`
	Dotted  bool     `json:"dot,omitempty"` // boards: one statement per board, `layers.x: {...}`
}

type boardM struct {
	Name   seg    `json:"n"`
	Label  string `json:"l,omitempty"`
	Body   []stmt `json:"b,omitempty"`
	Inline bool   `json:"in,omitempty"`
	Import string `json:"imp,omitempty"` // name: @file instead of a block
}

type fileM struct {
	Name string `json:"name"` // without .d2
	Body []stmt `json:"body"`
	Tab  bool   `json:"tab,omitempty"`  // indent with tabs
	CRLF bool   `json:"crlf,omitempty"` // line ends are \r\n
}

func fold(s string) string { return strings.ToLower(s) }

const ksep = "\x1f"

func keyOf(path []string) string { return strings.Join(path, ksep) }

// ---------- record ----------

type mention struct {
	file       string
	board      int
	key        string // folded path from the board root, joined by ksep
	start, end int
	form       string // decl | prefix | attr | edge-end | eref-end
}

type edgeMention struct {
	file       string
	board      int
	id         string // canonical id (container, src, arrow, dst), folded, no index
	idx        int
	cont       []string
	src, dst   []string
	arrow      string
	start, end int
	form       string // edge | eref
}

type boardRec struct {
	id      int
	file    string
	kinds   []string // layers, x, scenarios, y ... (what GetBoardAtPosition reports)
	names   []string // x, y ... (what GetRefRanges takes)
	parent  int      // -1: root of the file
	inherit int      // board whose content this one starts from (-1: none)
	kind    string
	depth   int
	open    int  // offset of '{' (-1: file root or imported board)
	close   int  // offset of '}'
	dotted  bool // declared as `layers.x: {`
	// printer state
	edgeCount map[string]int
	lastStep  int
}

type span struct {
	file       string
	start, end int
}

type link struct {
	file  string
	board int
	cont  []string
	to    string
}

type fileRec struct {
	name       string // with .d2
	text       string
	lineStarts []int
}

type record struct {
	files    []*fileRec
	byName   map[string]*fileRec
	boards   []*boardRec
	mentions []mention
	edges    []edgeMention
	globs    []span
	keySpans []span // whole key paths / edge expressions as written (for the loose second-class check)
	kwBlocks []span // blocks of objects whose (quoted) name spells a board keyword
	links    []link
	raws     map[string][]string
	dropped  int
	forms    map[string]int
}

func (r *record) addRaw(s seg) {
	f := fold(s.N)
	for _, x := range r.raws[f] {
		if x == s.R {
			return
		}
	}
	r.raws[f] = append(r.raws[f], s.R)
}

// closure lists the board and every board it inherits from (scenario: its parent board;
// first step: the parent board, later steps: the previous step).
func (r *record) closure(b int) []int {
	var out []int
	for b >= 0 {
		out = append(out, b)
		b = r.boards[b].inherit
	}
	return out
}

func (f *fileRec) index() {
	f.lineStarts = []int{0}
	for i := 0; i < len(f.text); i++ {
		if f.text[i] == '\n' {
			f.lineStarts = append(f.lineStarts, i+1)
		}
	}
}

func (f *fileRec) lineCol(off int) (int, int) {
	i := sort.Search(len(f.lineStarts), func(i int) bool { return f.lineStarts[i] > off }) - 1
	return i, off - f.lineStarts[i]
}

// offset of (line, col); ok=false if the position does not exist in the text.
func (f *fileRec) offset(line, col int) (int, bool) {
	if line < 0 || line >= len(f.lineStarts) || col < 0 {
		return 0, false
	}
	end := len(f.text)
	if line+1 < len(f.lineStarts) {
		end = f.lineStarts[line+1] - 1
	}
	o := f.lineStarts[line] + col
	if o > end {
		return 0, false
	}
	return o, true
}

// ---------- printer ----------

type printer struct {
	rec  *record
	sb   strings.Builder
	file string
	unit string // one indentation unit
	crlf bool
}

type pctx struct {
	b      *boardRec
	cont   []string
	indent string
	inline bool
}

func (p *printer) off() int { return p.sb.Len() }
func (p *printer) w(s string) {
	if p.crlf {
		s = strings.ReplaceAll(s, "\n", "\r\n")
	}
	p.sb.WriteString(s)
}

func printSet(files []fileM) *record {
	rec := &record{byName: map[string]*fileRec{}, raws: map[string][]string{}, forms: map[string]int{}}
	for _, f := range files {
		p := &printer{rec: rec, file: f.Name + ".d2", unit: "  ", crlf: f.CRLF}
		if f.Tab {
			p.unit = "\t"
		}
		root := &boardRec{id: len(rec.boards), file: p.file, parent: -1, inherit: -1, open: -1, close: -1, edgeCount: map[string]int{}, lastStep: -1}
		rec.boards = append(rec.boards, root)
		p.body(f.Body, pctx{b: root})
		fr := &fileRec{name: p.file, text: p.sb.String()}
		fr.index()
		rec.files = append(rec.files, fr)
		rec.byName[fr.name] = fr
	}
	return rec
}

// willPrint: an indexed reference to a connection that does not exist (yet) is dropped.
func (p *printer) willPrint(st *stmt, c pctx) bool {
	if st.K == "eref" {
		if len(st.Ends) != 2 || len(st.Arrows) != 1 {
			return false
		}
		id, _, _, _ := canonEdge(c.cont, st.Ends[0], st.Ends[1], st.Arrows[0])
		return c.b.edgeCount[id] > 0
	}
	if st.K == "edge" {
		return len(st.Ends) >= 2 && len(st.Arrows) == len(st.Ends)-1
	}
	if st.K == "decl" || st.K == "vimport" {
		return len(st.Path) > 0
	}
	return true
}

func (p *printer) body(ss []stmt, c pctx) {
	first := true
	for i := range ss {
		st := &ss[i]
		if !p.willPrint(st, c) {
			p.rec.dropped++
			continue
		}
		if c.inline {
			if st.K == "comment" {
				continue
			}
			if !first {
				p.w("; ")
			}
		} else {
			p.w(c.indent)
		}
		first = false
		p.stmt(st, c)
		if !c.inline {
			p.w("\n")
		}
	}
}

func (p *printer) block(ss []stmt, c pctx, inline bool) {
	if len(ss) == 0 {
		p.w("{}")
		return
	}
	if inline || c.inline {
		c.inline = true
		p.w("{")
		p.body(ss, c)
		p.w("}")
		return
	}
	p.w("{\n")
	outer := c.indent
	c.indent += p.unit
	p.body(ss, c)
	p.w(outer + "}")
}

func (p *printer) path(segs []seg, c pctx, lastForm string) []string {
	key := append([]string(nil), c.cont...)
	st := p.off()
	for i, s := range segs {
		if i > 0 {
			p.w(".")
		}
		o := p.off()
		p.w(s.R)
		key = append(key, fold(s.N))
		form := "prefix"
		if i == len(segs)-1 {
			form = lastForm
		}
		p.rec.mentions = append(p.rec.mentions, mention{file: p.file, board: c.b.id, key: keyOf(key), start: o, end: p.off(), form: form})
		p.rec.forms[form]++
		p.rec.addRaw(s)
	}
	p.rec.keySpans = append(p.rec.keySpans, span{p.file, st, p.off()})
	return key
}

func foldSegs(segs []seg) []string {
	out := make([]string, len(segs))
	for i, s := range segs {
		out[i] = fold(s.N)
	}
	return out
}

// canonEdge mirrors how d2 files a connection: the endpoints' common leading containers
// (while both still have more than one segment) become part of the container.
func canonEdge(cont []string, src, dst []seg, arrow string) (id string, c, s, d []string) {
	s = append(append([]string(nil), cont...), foldSegs(src)...)
	d = append(append([]string(nil), cont...), foldSegs(dst)...)
	for len(s) > 1 && len(d) > 1 && s[0] == d[0] {
		c = append(c, s[0])
		s, d = s[1:], d[1:]
	}
	id = keyOf(c) + "\x1e" + keyOf(s) + "\x1e" + arrow + "\x1e" + keyOf(d)
	return
}

func (p *printer) stmt(st *stmt, c pctx) {
	switch st.K {
	case "comment":
		p.w("# " + st.Text)
	case "glob":
		o := p.off()
		p.w(st.Text)
		p.rec.globs = append(p.rec.globs, span{p.file, o, p.off()})
	case "spread":
		p.w("...@" + st.File)
		p.rec.links = append(p.rec.links, link{p.file, c.b.id, append([]string(nil), c.cont...), st.File + ".d2"})
	case "vimport":
		key := p.path(st.Path[:1], c, "decl")
		p.w(": @" + st.File)
		p.rec.links = append(p.rec.links, link{p.file, c.b.id, key, st.File + ".d2"})
	case "decl":
		key := p.path(st.Path, c, "decl")
		if st.Val != "" {
			p.w(": " + st.Val)
			if st.HasBody {
				p.w(" ")
			}
		} else if st.HasBody {
			p.w(": ")
		}
		if st.HasBody {
			c2 := c
			c2.cont = key
			o := p.off()
			p.block(st.Body, c2, st.Inline)
			switch fold(st.Path[0].N) {
			case "layers", "scenarios", "steps":
				p.rec.kwBlocks = append(p.rec.kwBlocks, span{p.file, o, p.off()})
			}
		}
	case "attr":
		if len(st.Path) > 0 {
			p.path(st.Path, c, "attr")
			p.w(".")
		}
		p.w(st.Tail + ": " + st.Val)
	case "edge":
		n := len(st.Ends)
		starts := make([]int, n)
		ends := make([]int, n)
		for i, e := range st.Ends {
			if i > 0 {
				p.w(" " + st.Arrows[i-1] + " ")
			}
			starts[i] = p.off()
			p.path(e, c, "edge-end")
			ends[i] = p.off()
		}
		for i := 0; i+1 < n; i++ {
			id, cc, s, d := canonEdge(c.cont, st.Ends[i], st.Ends[i+1], st.Arrows[i])
			idx := c.b.edgeCount[id]
			c.b.edgeCount[id]++
			p.rec.edges = append(p.rec.edges, edgeMention{file: p.file, board: c.b.id, id: id, idx: idx, cont: cc, src: s, dst: d, arrow: st.Arrows[i], start: starts[i], end: ends[i+1], form: "edge"})
			p.rec.forms["edge"]++
		}
		p.rec.keySpans = append(p.rec.keySpans, span{p.file, starts[0], ends[n-1]})
		if st.Val != "" {
			p.w(": " + st.Val)
			if st.HasBody {
				p.w(" ")
			}
		} else if st.HasBody {
			p.w(": ")
		}
		if st.HasBody {
			p.block(st.Body, pctx{b: c.b, cont: nil, indent: c.indent, inline: c.inline}, st.Inline)
		}
	case "eref":
		id, cc, s, d := canonEdge(c.cont, st.Ends[0], st.Ends[1], st.Arrows[0])
		idx := st.Idx % c.b.edgeCount[id]
		if idx < 0 {
			idx = -idx
		}
		p.w("(")
		o := p.off()
		p.path(st.Ends[0], c, "eref-end")
		p.w(" " + st.Arrows[0] + " ")
		p.path(st.Ends[1], c, "eref-end")
		e := p.off()
		p.w(")[" + strconv.Itoa(idx) + "]")
		p.rec.edges = append(p.rec.edges, edgeMention{file: p.file, board: c.b.id, id: id, idx: idx, cont: cc, src: s, dst: d, arrow: st.Arrows[0], start: o, end: e, form: "eref"})
		p.rec.forms["eref"]++
		p.rec.keySpans = append(p.rec.keySpans, span{p.file, o, e})
		if st.Tail != "" {
			p.w("." + st.Tail)
		}
		if st.HasBody {
			p.w(": ")
			p.block(st.Body, pctx{b: c.b, cont: nil, indent: c.indent, inline: c.inline}, st.Inline)
		} else {
			p.w(": " + st.Val)
		}
	case "boards":
		dotted := st.Dotted && len(st.Boards) > 0
		inl := c.inline || st.Inline
		if !dotted {
			p.w(st.BKind + ": ")
			if len(st.Boards) == 0 {
				p.w("{}")
				return
			}
			if inl {
				p.w("{")
			} else {
				p.w("{\n")
			}
		}
		for i := range st.Boards {
			bm := &st.Boards[i]
			switch {
			case dotted:
				if i > 0 {
					if c.inline {
						p.w("; ")
					} else {
						p.w("\n" + c.indent)
					}
				}
				p.w(st.BKind + ".")
			case inl:
				if i > 0 {
					p.w("; ")
				}
			default:
				p.w(c.indent + p.unit)
			}
			p.w(bm.Name.R)
			nb := &boardRec{id: len(p.rec.boards), file: p.file, parent: c.b.id, inherit: -1, kind: st.BKind, depth: c.b.depth + 1, open: -1, close: -1, edgeCount: map[string]int{}, lastStep: -1, dotted: dotted}
			nb.kinds = append(append([]string(nil), c.b.kinds...), st.BKind, bm.Name.N)
			nb.names = append(append([]string(nil), c.b.names...), bm.Name.N)
			switch st.BKind {
			case "scenarios":
				nb.inherit = c.b.id
			case "steps":
				if c.b.lastStep >= 0 {
					nb.inherit = c.b.lastStep
				} else {
					nb.inherit = c.b.id
				}
				c.b.lastStep = nb.id
			}
			if nb.inherit >= 0 {
				for k, v := range p.rec.boards[nb.inherit].edgeCount {
					nb.edgeCount[k] = v
				}
			}
			p.rec.boards = append(p.rec.boards, nb)
			if bm.Import != "" {
				p.w(": @" + bm.Import)
				p.rec.links = append(p.rec.links, link{p.file, nb.id, nil, bm.Import + ".d2"})
			} else {
				p.w(": ")
				if bm.Label != "" {
					p.w(bm.Label + " ")
				}
				// the block, always with braces so that it has a span
				nb.open = p.off()
				c2 := pctx{b: nb, indent: c.indent + p.unit + p.unit, inline: inl || bm.Inline}
				closeIndent := c.indent + p.unit
				if dotted {
					c2.indent = c.indent + p.unit
					c2.inline = c.inline || bm.Inline
					closeIndent = c.indent
				}
				if len(bm.Body) == 0 {
					p.w("{")
				} else if c2.inline {
					p.w("{")
					p.body(bm.Body, c2)
				} else {
					p.w("{\n")
					p.body(bm.Body, c2)
					p.w(closeIndent)
				}
				nb.close = p.off()
				p.w("}")
			}
			if !inl && !dotted {
				p.w("\n")
			}
		}
		if dotted {
			return
		}
		if inl {
			p.w("}")
		} else {
			p.w(c.indent + "}")
		}
	}
}
