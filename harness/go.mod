module verif/harness

go 1.25

toolchain go1.25.0

require (
	oss.terrastruct.com/d2 v0.0.0
	pgregory.net/rapid v1.3.0
)

require (
	golang.org/x/exp v0.0.0-20240909161429-701f63a606c0 // indirect
	golang.org/x/text v0.22.0 // indirect
	golang.org/x/xerrors v0.0.0-20240903120638-7835f813f4da // indirect
	oss.terrastruct.com/util-go v0.0.0-20250213174338-243d8661088a // indirect
)

replace oss.terrastruct.com/d2 => /repo
