package main

import (
	"fmt"
	"os"
	"strings"

	"verif/harness/lay"
)

func main() {
	engines := []string{"dagre", "elk"}
	for _, s := range os.Args[1:] {
		if b, err := os.ReadFile(s); err == nil {
			s = string(b)
		} else {
			s = strings.ReplaceAll(s, `\n`, "\n")
		}
		for _, e := range engines {
			d, g, err := lay.Run(s, e, nil)
			if err == nil && os.Getenv("BB") != "" {
				bbProbe(d)
			}
			if err != nil {
				fmt.Printf("%s ERR %v\n", e, err)
				continue
			}
			for _, o := range g.Objects {
				fmt.Printf("%s obj %-30s [%.0f,%.0f %.0fx%.0f]\n", e, o.AbsID(), o.TopLeft.X, o.TopLeft.Y, o.Width, o.Height)
			}
			for _, ed := range g.Edges {
				fmt.Printf("%s edge %s route %v..%v (%d)\n", e, ed.AbsID(), ed.Route[0], ed.Route[len(ed.Route)-1], len(ed.Route))
			}
		}
	}
}
