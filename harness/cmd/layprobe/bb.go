package main

import (
	"fmt"

	"oss.terrastruct.com/d2/d2target"
)

func bbProbe(d *d2target.Diagram) {
	tl, br := d.BoundingBox()
	fmt.Println("bbox", tl, br)
	for _, s := range d.Shapes {
		one := *d
		one.Shapes = []d2target.Shape{s}
		one.Connections = nil
		a, b := one.BoundingBox()
		if a.X < -1e9 || b.X > 1e9 || a.Y < -1e9 || b.Y > 1e9 {
			fmt.Printf("BAD shape %s type=%s pos=%v %dx%d label=%q lpos=%s tooltip=%q tpos=%s icon=%v ipos=%s -> %v %v\n", s.ID, s.Type, s.Pos, s.Width, s.Height, s.Label, s.LabelPosition, s.Tooltip, s.TooltipPosition, s.Icon, s.IconPosition, a, b)
		}
	}
	for _, c := range d.Connections {
		one := *d
		one.Shapes = d.Shapes[:1]
		one.Connections = []d2target.Connection{c}
		a, b := one.BoundingBox()
		if a.X < -1e9 || b.X > 1e9 || a.Y < -1e9 || b.Y > 1e9 {
			fmt.Printf("BAD conn %s label=%q lpos=%s pct=%v route=%v\n", c.ID, c.Label, c.LabelPosition, c.LabelPercentage, len(c.Route))
		}
	}
}
