package main

import (
	"fmt"
	"os"
	"strings"

	"oss.terrastruct.com/d2/d2format"
	"oss.terrastruct.com/d2/d2parser"
)

func main() {
	for _, a := range os.Args[1:] {
		func() {
			defer func() {
				if r := recover(); r != nil {
					fmt.Printf("%q: PANIC %v\n", a, r)
				}
			}()
			cur := a
			fmt.Printf("in   %q\n", cur)
			for i := 0; i < 3; i++ {
				m, err := d2parser.Parse("x.d2", strings.NewReader(cur), nil)
				if err != nil {
					fmt.Printf("  err=%v\n", err)
					return
				}
				cur = d2format.Format(m)
				fmt.Printf("fmt%d %q\n", i+1, cur)
			}
		}()
	}
}
