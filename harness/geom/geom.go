// Package geom is a small, self-contained 2-D geometry helper for the checks: it parses
// SVG path data (M L H V C S Q T A Z, absolute and relative, implicit repeats) and flattens
// it into polylines with a stated chord tolerance, and answers distance / containment /
// ray-crossing questions on those polylines. It deliberately shares no code with
// oss.terrastruct.com/d2/lib/geo or lib/svg so that it can serve as an independent oracle.
package geom

import (
	"fmt"
	"math"
	"sort"
	"strconv"
)

type Pt struct{ X, Y float64 }

func (a Pt) Sub(b Pt) Pt         { return Pt{a.X - b.X, a.Y - b.Y} }
func (a Pt) Add(b Pt) Pt         { return Pt{a.X + b.X, a.Y + b.Y} }
func (a Pt) Mul(k float64) Pt    { return Pt{a.X * k, a.Y * k} }
func (a Pt) Len() float64        { return math.Hypot(a.X, a.Y) }
func Dist(a, b Pt) float64       { return math.Hypot(a.X-b.X, a.Y-b.Y) }
func cross(a, b Pt) float64      { return a.X*b.Y - a.Y*b.X }
func lerp(a, b Pt, t float64) Pt { return Pt{a.X + (b.X-a.X)*t, a.Y + (b.Y-a.Y)*t} }
func finite(v ...float64) bool {
	for _, x := range v {
		if math.IsNaN(x) || math.IsInf(x, 0) {
			return false
		}
	}
	return true
}

// Poly is one flattened sub-path.
type Poly struct {
	Pts    []Pt
	Closed bool // ended with Z, or its last point coincides with its first
}

// ---------------------------------------------------------------- path parsing

type lexer struct {
	s string
	i int
}

func (l *lexer) skip() {
	for l.i < len(l.s) {
		c := l.s[l.i]
		if c == ' ' || c == '\t' || c == '\n' || c == '\r' || c == '\f' || c == ',' {
			l.i++
		} else {
			break
		}
	}
}

func isCmd(c byte) bool {
	switch c {
	case 'M', 'm', 'L', 'l', 'H', 'h', 'V', 'v', 'C', 'c', 'S', 's', 'Q', 'q', 'T', 't', 'A', 'a', 'Z', 'z':
		return true
	}
	return false
}

// number reads one SVG number (sign, digits, fraction, exponent).
func (l *lexer) number() (float64, error) {
	l.skip()
	st := l.i
	if l.i < len(l.s) && (l.s[l.i] == '+' || l.s[l.i] == '-') {
		l.i++
	}
	digits := 0
	for l.i < len(l.s) && l.s[l.i] >= '0' && l.s[l.i] <= '9' {
		l.i++
		digits++
	}
	if l.i < len(l.s) && l.s[l.i] == '.' {
		l.i++
		for l.i < len(l.s) && l.s[l.i] >= '0' && l.s[l.i] <= '9' {
			l.i++
			digits++
		}
	}
	if digits == 0 {
		// Go prints non-finite floats as NaN/+Inf/-Inf with %v: report them clearly
		return 0, fmt.Errorf("expected a number at offset %d: %.20q", st, l.s[st:])
	}
	if l.i < len(l.s) && (l.s[l.i] == 'e' || l.s[l.i] == 'E') {
		j := l.i + 1
		if j < len(l.s) && (l.s[j] == '+' || l.s[j] == '-') {
			j++
		}
		if j < len(l.s) && l.s[j] >= '0' && l.s[j] <= '9' {
			for j < len(l.s) && l.s[j] >= '0' && l.s[j] <= '9' {
				j++
			}
			l.i = j
		}
	}
	return strconv.ParseFloat(l.s[st:l.i], 64)
}

func (l *lexer) flag() (bool, error) {
	l.skip()
	if l.i < len(l.s) && (l.s[l.i] == '0' || l.s[l.i] == '1') {
		l.i++
		return l.s[l.i-1] == '1', nil
	}
	return false, fmt.Errorf("expected an arc flag at offset %d", l.i)
}

func (l *lexer) moreArgs() bool {
	l.skip()
	if l.i >= len(l.s) {
		return false
	}
	c := l.s[l.i]
	return c == '+' || c == '-' || c == '.' || (c >= '0' && c <= '9')
}

// FlattenPath parses SVG path data and returns its sub-paths as polylines whose distance
// to the true curve is at most tol.
func FlattenPath(d string, tol float64) ([]Poly, error) {
	if tol <= 0 {
		tol = 0.01
	}
	l := &lexer{s: d}
	var out []Poly
	var cur *Poly
	var pos, start Pt
	var lastCtl Pt    // last control point, for S/T reflection
	var lastKind byte // 'C' after C/S, 'Q' after Q/T, 0 otherwise
	flush := func() {
		if cur != nil && len(cur.Pts) > 0 {
			if !cur.Closed && len(cur.Pts) > 2 && Dist(cur.Pts[0], cur.Pts[len(cur.Pts)-1]) < 1e-9 {
				cur.Closed = true
			}
			out = append(out, *cur)
		}
		cur = nil
	}
	ensure := func() {
		if cur == nil {
			cur = &Poly{Pts: []Pt{pos}}
			start = pos
		}
	}
	lineTo := func(p Pt) {
		ensure()
		cur.Pts = append(cur.Pts, p)
		pos = p
	}
	num := func() (float64, error) { return l.number() }
	pt := func(rel bool) (Pt, error) {
		x, err := num()
		if err != nil {
			return Pt{}, err
		}
		y, err := num()
		if err != nil {
			return Pt{}, err
		}
		if rel {
			return Pt{pos.X + x, pos.Y + y}, nil
		}
		return Pt{x, y}, nil
	}
	l.skip()
	first := true
	for l.i < len(l.s) {
		l.skip()
		if l.i >= len(l.s) {
			break
		}
		c := l.s[l.i]
		if !isCmd(c) {
			return nil, fmt.Errorf("unexpected %q at offset %d", c, l.i)
		}
		l.i++
		if first && c != 'M' && c != 'm' {
			return nil, fmt.Errorf("path does not start with a moveto")
		}
		first = false
		rel := c >= 'a'
		up := c
		if rel {
			up = c - 32
		}
		if up == 'Z' {
			if cur != nil {
				if Dist(pos, start) > 0 {
					cur.Pts = append(cur.Pts, start)
				}
				cur.Closed = true
				pos = start
				flush()
			}
			lastKind = 0
			continue
		}
		n := 0
		for n == 0 || l.moreArgs() {
			n++
			switch up {
			case 'M':
				p, err := pt(rel)
				if err != nil {
					return nil, err
				}
				if n == 1 {
					flush()
					pos, start = p, p
					cur = &Poly{Pts: []Pt{p}}
				} else {
					lineTo(p) // implicit lineto
				}
				lastKind = 0
			case 'L':
				p, err := pt(rel)
				if err != nil {
					return nil, err
				}
				lineTo(p)
				lastKind = 0
			case 'H':
				x, err := num()
				if err != nil {
					return nil, err
				}
				if rel {
					x += pos.X
				}
				lineTo(Pt{x, pos.Y})
				lastKind = 0
			case 'V':
				y, err := num()
				if err != nil {
					return nil, err
				}
				if rel {
					y += pos.Y
				}
				lineTo(Pt{pos.X, y})
				lastKind = 0
			case 'C', 'S':
				var c1 Pt
				var err error
				if up == 'C' {
					if c1, err = pt(rel); err != nil {
						return nil, err
					}
				} else if lastKind == 'C' {
					c1 = Pt{2*pos.X - lastCtl.X, 2*pos.Y - lastCtl.Y}
				} else {
					c1 = pos
				}
				// NB relative coordinates of one command are all relative to the command's start point
				p0 := pos
				c2, err := pt(rel)
				if err != nil {
					return nil, err
				}
				e, err := pt(rel)
				if err != nil {
					return nil, err
				}
				ensure()
				cur.Pts = appendCubic(cur.Pts, p0, c1, c2, e, tol)
				pos = e
				lastCtl, lastKind = c2, 'C'
			case 'Q', 'T':
				var c1 Pt
				var err error
				if up == 'Q' {
					if c1, err = pt(rel); err != nil {
						return nil, err
					}
				} else if lastKind == 'Q' {
					c1 = Pt{2*pos.X - lastCtl.X, 2*pos.Y - lastCtl.Y}
				} else {
					c1 = pos
				}
				p0 := pos
				e, err := pt(rel)
				if err != nil {
					return nil, err
				}
				ensure()
				cur.Pts = appendQuad(cur.Pts, p0, c1, e, tol)
				pos = e
				lastCtl, lastKind = c1, 'Q'
			case 'A':
				rx, err := num()
				if err != nil {
					return nil, err
				}
				ry, err := num()
				if err != nil {
					return nil, err
				}
				rot, err := num()
				if err != nil {
					return nil, err
				}
				large, err := l.flag()
				if err != nil {
					return nil, err
				}
				sweep, err := l.flag()
				if err != nil {
					return nil, err
				}
				e, err := pt(rel)
				if err != nil {
					return nil, err
				}
				ensure()
				cur.Pts = appendArc(cur.Pts, pos, e, rx, ry, rot, large, sweep, tol)
				pos = e
				lastKind = 0
			}
		}
	}
	flush()
	for _, p := range out {
		for _, q := range p.Pts {
			if !finite(q.X, q.Y) {
				return nil, fmt.Errorf("non-finite coordinate in path")
			}
		}
	}
	return out, nil
}

// segments needed so that a degree-n Bezier stays within tol of its chords (Wang's bound):
// N >= sqrt(n(n-1)/8 * max|second difference| / tol).
func segCount(k, m, tol float64) int {
	n := int(math.Ceil(math.Sqrt(k * m / tol)))
	if n < 1 {
		n = 1
	}
	if n > 20000 {
		n = 20000
	}
	return n
}

func appendCubic(dst []Pt, p0, p1, p2, p3 Pt, tol float64) []Pt {
	d1 := Pt{p2.X - 2*p1.X + p0.X, p2.Y - 2*p1.Y + p0.Y}.Len()
	d2 := Pt{p3.X - 2*p2.X + p1.X, p3.Y - 2*p2.Y + p1.Y}.Len()
	n := segCount(0.75, math.Max(d1, d2), tol)
	for i := 1; i <= n; i++ {
		t := float64(i) / float64(n)
		if i == n {
			dst = append(dst, p3)
			break
		}
		// de Casteljau
		a, b, c := lerp(p0, p1, t), lerp(p1, p2, t), lerp(p2, p3, t)
		d, e := lerp(a, b, t), lerp(b, c, t)
		dst = append(dst, lerp(d, e, t))
	}
	return dst
}

func appendQuad(dst []Pt, p0, p1, p2 Pt, tol float64) []Pt {
	d := Pt{p2.X - 2*p1.X + p0.X, p2.Y - 2*p1.Y + p0.Y}.Len()
	n := segCount(0.25, d, tol)
	for i := 1; i <= n; i++ {
		t := float64(i) / float64(n)
		if i == n {
			dst = append(dst, p2)
			break
		}
		a, b := lerp(p0, p1, t), lerp(p1, p2, t)
		dst = append(dst, lerp(a, b, t))
	}
	return dst
}

// appendArc flattens an SVG elliptical arc (endpoint parameterisation, SVG 1.1 F.6).
func appendArc(dst []Pt, p0, p1 Pt, rx, ry, rotDeg float64, large, sweep bool, tol float64) []Pt {
	if p0 == p1 {
		return dst
	}
	rx, ry = math.Abs(rx), math.Abs(ry)
	if rx == 0 || ry == 0 {
		return append(dst, p1)
	}
	phi := rotDeg * math.Pi / 180
	cp, sp := math.Cos(phi), math.Sin(phi)
	dx, dy := (p0.X-p1.X)/2, (p0.Y-p1.Y)/2
	x1 := cp*dx + sp*dy
	y1 := -sp*dx + cp*dy
	lam := x1*x1/(rx*rx) + y1*y1/(ry*ry)
	if lam > 1 {
		s := math.Sqrt(lam)
		rx *= s
		ry *= s
	}
	num := rx*rx*ry*ry - rx*rx*y1*y1 - ry*ry*x1*x1
	den := rx*rx*y1*y1 + ry*ry*x1*x1
	co := 0.0
	if den != 0 && num > 0 {
		co = math.Sqrt(num / den)
	}
	if large == sweep {
		co = -co
	}
	cxp := co * rx * y1 / ry
	cyp := -co * ry * x1 / rx
	cx := cp*cxp - sp*cyp + (p0.X+p1.X)/2
	cy := sp*cxp + cp*cyp + (p0.Y+p1.Y)/2
	ang := func(ux, uy, vx, vy float64) float64 {
		a := math.Atan2(ux*vy-uy*vx, ux*vx+uy*vy)
		return a
	}
	th1 := ang(1, 0, (x1-cxp)/rx, (y1-cyp)/ry)
	dth := ang((x1-cxp)/rx, (y1-cyp)/ry, (-x1-cxp)/rx, (-y1-cyp)/ry)
	if !sweep && dth > 0 {
		dth -= 2 * math.Pi
	} else if sweep && dth < 0 {
		dth += 2 * math.Pi
	}
	r := math.Max(rx, ry)
	step := math.Pi / 8
	if tol < r {
		step = math.Min(step, 2*math.Acos(1-tol/r))
	}
	n := int(math.Ceil(math.Abs(dth) / step))
	if n < 1 {
		n = 1
	}
	if n > 200000 {
		n = 200000
	}
	for i := 1; i <= n; i++ {
		if i == n {
			dst = append(dst, p1)
			break
		}
		th := th1 + dth*float64(i)/float64(n)
		ex, ey := rx*math.Cos(th), ry*math.Sin(th)
		dst = append(dst, Pt{cx + cp*ex - sp*ey, cy + sp*ex + cp*ey})
	}
	return dst
}

// Ellipse returns a closed polyline within tol of the axis-parallel ellipse.
func Ellipse(c Pt, rx, ry, tol float64) Poly {
	r := math.Max(rx, ry)
	step := math.Pi / 16
	if tol < r {
		step = math.Min(step, 2*math.Acos(1-tol/r))
	}
	n := int(math.Ceil(2 * math.Pi / step))
	if n < 8 {
		n = 8
	}
	if n > 400000 {
		n = 400000
	}
	p := Poly{Closed: true, Pts: make([]Pt, 0, n+1)}
	for i := 0; i < n; i++ {
		th := 2 * math.Pi * float64(i) / float64(n)
		p.Pts = append(p.Pts, Pt{c.X + rx*math.Cos(th), c.Y + ry*math.Sin(th)})
	}
	p.Pts = append(p.Pts, p.Pts[0])
	return p
}

// Rect returns the closed rectangle polyline.
func Rect(x, y, w, h float64) Poly {
	return Poly{Closed: true, Pts: []Pt{{x, y}, {x + w, y}, {x + w, y + h}, {x, y + h}, {x, y}}}
}

// ---------------------------------------------------------------- queries

func distSeg(p, a, b Pt) float64 {
	ab := b.Sub(a)
	l2 := ab.X*ab.X + ab.Y*ab.Y
	if l2 == 0 {
		return Dist(p, a)
	}
	t := ((p.X-a.X)*ab.X + (p.Y-a.Y)*ab.Y) / l2
	if t < 0 {
		t = 0
	} else if t > 1 {
		t = 1
	}
	return Dist(p, Pt{a.X + ab.X*t, a.Y + ab.Y*t})
}

// DistTo is the distance from p to the nearest point of any of the polylines (+Inf if none).
func DistTo(p Pt, polys []Poly) float64 {
	best := math.Inf(1)
	for _, pl := range polys {
		if len(pl.Pts) == 1 {
			best = math.Min(best, Dist(p, pl.Pts[0]))
		}
		for i := 0; i+1 < len(pl.Pts); i++ {
			if d := distSeg(p, pl.Pts[i], pl.Pts[i+1]); d < best {
				best = d
			}
		}
	}
	return best
}

// InsidePoly: even-odd containment in one closed polyline (false for open ones).
func InsidePoly(p Pt, pl Poly) bool {
	if !pl.Closed {
		return false
	}
	in := false
	for i := 0; i+1 < len(pl.Pts); i++ {
		a, b := pl.Pts[i], pl.Pts[i+1]
		if (a.Y > p.Y) != (b.Y > p.Y) {
			x := a.X + (p.Y-a.Y)/(b.Y-a.Y)*(b.X-a.X)
			if p.X < x {
				in = !in
			}
		}
	}
	return in
}

// InsideAny: p lies inside at least one closed sub-path (the filled silhouette of a shape
// drawn as several filled paths).
func InsideAny(p Pt, polys []Poly) bool {
	for _, pl := range polys {
		if InsidePoly(p, pl) {
			return true
		}
	}
	return false
}

// RayHits returns, sorted ascending, the parameters t >= 0 at which the ray o + t*u
// (u a unit vector) crosses the polylines. Hits closer than 1e-9 to each other (shared
// vertices of consecutive segments) are merged.
func RayHits(o, u Pt, polys []Poly) []float64 {
	var ts []float64
	for _, pl := range polys {
		for i := 0; i+1 < len(pl.Pts); i++ {
			a, b := pl.Pts[i], pl.Pts[i+1]
			e := b.Sub(a)
			den := cross(u, e)
			if den == 0 {
				continue
			}
			ao := a.Sub(o)
			t := cross(ao, e) / den
			s := cross(ao, u) / den
			if t >= 0 && s >= 0 && s <= 1 {
				ts = append(ts, t)
			}
		}
	}
	sort.Float64s(ts)
	out := ts[:0]
	for _, t := range ts {
		if len(out) == 0 || t-out[len(out)-1] > 1e-9 {
			out = append(out, t)
		}
	}
	return out
}

// BBox of the polylines.
func BBox(polys []Poly) (minX, minY, maxX, maxY float64) {
	minX, minY, maxX, maxY = math.Inf(1), math.Inf(1), math.Inf(-1), math.Inf(-1)
	for _, pl := range polys {
		for _, p := range pl.Pts {
			minX, maxX = math.Min(minX, p.X), math.Max(maxX, p.X)
			minY, maxY = math.Min(minY, p.Y), math.Max(maxY, p.Y)
		}
	}
	return
}
