package geom

import (
	"math"
	"strconv"
	"testing"
)

// Self-checks of the flattener against closed forms, so that the C27 oracle does not rest
// on an untested helper.
func TestFlattenBasics(t *testing.T) {
	// a full circle drawn with two arcs
	ps, err := FlattenPath("M 100 0 A 100 100 0 1 1 -100 0 A 100 100 0 1 1 100 0 Z", 0.01)
	if err != nil || len(ps) != 1 || !ps[0].Closed {
		t.Fatalf("arc circle: %v %v", err, ps)
	}
	for _, p := range ps[0].Pts {
		if math.Abs(math.Hypot(p.X, p.Y)-100) > 1e-9 {
			t.Fatalf("arc point off the circle: %v", p)
		}
	}
	for i := 0; i < 360; i++ {
		th := float64(i) * math.Pi / 180
		if d := DistTo(Pt{100 * math.Cos(th), 100 * math.Sin(th)}, ps); d > 0.01 {
			t.Fatalf("circle chord error %v at %d", d, i)
		}
	}
	if !InsideAny(Pt{0, 0}, ps) || InsideAny(Pt{101, 0}, ps) {
		t.Fatalf("containment wrong")
	}
	// the classic 4-cubic circle approximation stays within 0.03% of the radius
	k := 0.5522847498 * 100
	d := "M 100 0 C 100 " + f(k) + " " + f(k) + " 100 0 100 S -100 " + f(k) + " -100 0 S " + f(-k) + " -100 0 -100 S 100 " + f(-k) + " 100 0 Z"
	ps, err = FlattenPath(d, 0.005)
	if err != nil {
		t.Fatal(err)
	}
	for _, p := range ps[0].Pts {
		if math.Abs(math.Hypot(p.X, p.Y)-100) > 0.03 {
			t.Fatalf("S-reflected cubic circle off: %v r=%v", p, math.Hypot(p.X, p.Y))
		}
	}
	// relative commands, implicit repeats, H/V, Q/T
	ps, err = FlattenPath("m10,10 l10,0 0,10h-10v-10z M0 0 q 10 20 20 0 t 20 0", 0.01)
	if err != nil || len(ps) != 2 {
		t.Fatalf("rel: %v %v", err, ps)
	}
	want := []Pt{{10, 10}, {20, 10}, {20, 20}, {10, 20}, {10, 10}}
	for i, p := range want {
		if ps[0].Pts[i] != p {
			t.Fatalf("rel square %d: %v", i, ps[0].Pts)
		}
	}
	// quadratic 0,0 -> (10,20) -> 20,0 peaks at y=10 for x=10; reflected one dips to y=-10 at x=30
	if d := DistTo(Pt{10, 10}, ps[1:]); d > 0.01 {
		t.Fatalf("Q apex %v", d)
	}
	if d := DistTo(Pt{30, -10}, ps[1:]); d > 0.01 {
		t.Fatalf("T apex %v", d)
	}
	// ray hits
	sq := []Poly{Rect(0, 0, 10, 10)}
	hs := RayHits(Pt{-5, 5}, Pt{1, 0}, sq)
	if len(hs) != 2 || math.Abs(hs[0]-5) > 1e-12 || math.Abs(hs[1]-15) > 1e-12 {
		t.Fatalf("ray hits %v", hs)
	}
	if _, err := FlattenPath("M 0 0 L NaN 3", 0.01); err == nil {
		t.Fatalf("NaN accepted")
	}
}

func f(v float64) string { return strconv.FormatFloat(v, 'f', -1, 64) }
