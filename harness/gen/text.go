package gen

import (
	"fmt"
	"strings"

	"pgregory.net/rapid"
)

// TextOpts steers the grammar-directed text generator.
type TextOpts struct {
	MaxDepth    int
	MaxNodes    int  // per map
	Imports     bool // emit @imports (only sensible with a file set)
	ImportNames []string
	Hostile     bool // draw names from the hostile pool too
	Boards      bool
	NoGlobs     bool
	NoVars      bool
	NoNull      bool
}

func DefaultTextOpts() TextOpts {
	return TextOpts{MaxDepth: 3, MaxNodes: 6, Hostile: true, Boards: true}
}

// Pick draws an index with the given relative weights.
func Pick(t *rapid.T, label string, weights ...int) int {
	sum := 0
	for _, w := range weights {
		sum += w
	}
	x := rapid.IntRange(0, sum-1).Draw(t, label)
	for i, w := range weights {
		if x < w {
			return i
		}
		x -= w
	}
	return len(weights) - 1
}

type tg struct {
	t     *rapid.T
	o     TextOpts
	nodes int
}

// Text draws one D2 source text from the grammar (mostly valid, not necessarily compilable).
func Text(t *rapid.T, o TextOpts) string {
	g := &tg{t: t, o: o}
	var sb strings.Builder
	g.mapBody(&sb, 0, "")
	return sb.String()
}

func (g *tg) ident() string {
	t := g.t
	switch Pick(t, "idk", 10, 2, 2, 1, 1) {
	case 0:
		return rapid.SampledFrom(PlainNames).Draw(t, "id")
	case 1:
		if g.o.Hostile {
			return quoteAny(t, rapid.SampledFrom(HostileNames).Draw(t, "hid"))
		}
		return rapid.SampledFrom(PlainNames).Draw(t, "id")
	case 2:
		if g.o.Hostile {
			return rapid.SampledFrom([]string{"é", "日本語", "a b", "foo bar", "a-b", "İ", "ß", "𝒳", "Ⱥ", "1", "x y z", "\"a.b\"", "'c d'", "\"q\\\"r\"", "a\\.b", "\\#", "'it''s'"}).Draw(t, "uid")
		}
		return rapid.SampledFrom(PlainNames).Draw(t, "id")
	case 3:
		return rapid.SampledFrom(KeywordNames).Draw(t, "kwid")
	default:
		return "_"
	}
}

// quoteAny renders s as some D2 key token that denotes s (single or double quoted).
func quoteAny(t *rapid.T, s string) string {
	if rapid.Bool().Draw(t, "dq") || strings.ContainsAny(s, "\n") {
		var sb strings.Builder
		sb.WriteByte('"')
		for _, r := range s {
			switch r {
			case '"':
				sb.WriteString(`\"`)
			case '\\':
				sb.WriteString(`\\`)
			case '\n':
				sb.WriteString(`\n`)
			case '$':
				sb.WriteString(`\$`)
			default:
				sb.WriteRune(r)
			}
		}
		sb.WriteByte('"')
		return sb.String()
	}
	return "'" + strings.ReplaceAll(s, "'", "''") + "'"
}

func (g *tg) globSeg() string {
	return rapid.SampledFrom([]string{"*", "**", "***", "a*", "*a", "a*b", "*a*", "f*", "*r", "x*"}).Draw(g.t, "glob")
}

func (g *tg) keyPath(allowGlob bool) string {
	t := g.t
	n := Pick(t, "kpn", 6, 3, 1) + 1
	var parts []string
	for i := 0; i < n; i++ {
		if allowGlob && !g.o.NoGlobs && Pick(t, "isglob", 8, 1) == 1 {
			parts = append(parts, g.globSeg())
		} else {
			parts = append(parts, g.ident())
		}
	}
	// reserved tail
	switch Pick(t, "tail", 8, 2, 2, 1) {
	case 1:
		parts = append(parts, rapid.SampledFrom(ReservedKeywords).Draw(t, "rk"))
	case 2:
		parts = append(parts, "style", rapid.SampledFrom(StyleKeywords).Draw(t, "sk"))
	case 3:
		parts = append(parts, rapid.SampledFrom([]string{"source-arrowhead", "target-arrowhead"}).Draw(t, "ah"), rapid.SampledFrom([]string{"shape", "label", "style.filled"}).Draw(t, "ahk"))
	}
	sep := "."
	if Pick(t, "kpsp", 12, 1) == 1 {
		sep = " . "
	}
	return strings.Join(parts, sep)
}

var arrows = []string{"->", "<-", "<->", "--", "-->", "<--", "->", "- >"}

func (g *tg) edgeExpr() string {
	t := g.t
	n := Pick(t, "chain", 6, 2, 1) + 1
	var sb strings.Builder
	sb.WriteString(g.edgeEnd())
	for i := 0; i < n; i++ {
		sp := rapid.SampledFrom([]string{" ", " ", "", "  "}).Draw(t, "asp")
		sb.WriteString(sp)
		sb.WriteString(rapid.SampledFrom(arrows[:6]).Draw(t, "arrow"))
		sb.WriteString(sp)
		sb.WriteString(g.edgeEnd())
	}
	return sb.String()
}

func (g *tg) edgeEnd() string {
	t := g.t
	n := Pick(t, "een", 7, 2, 1) + 1
	var parts []string
	for i := 0; i < n; i++ {
		if !g.o.NoGlobs && Pick(t, "eeglob", 10, 1) == 1 {
			parts = append(parts, g.globSeg())
		} else {
			parts = append(parts, g.ident())
		}
	}
	return strings.Join(parts, ".")
}

func (g *tg) scalar(depth int) string {
	t := g.t
	switch Pick(t, "sck", 8, 3, 2, 2, 2, 1, 1, 1, 1, 2) {
	case 0:
		return rapid.SampledFrom([]string{"hello", "red", "circle", "a label", "x y z", "square", "#fff", "blue", "top-left", "4", "hi there", "oval", "sql_table", "class", "sequence_diagram", "é→ü", "text 𝒳", "with\\nescape", "semi\\;colon", "a\\#b", "dots...", "https://example.com/x?y=1&z=2", "a->b", "it's", "100%"}).Draw(t, "uq")
	case 1:
		return fmt.Sprintf("%q", rapid.SampledFrom([]string{"hello", "a\nb", "q\"uote", "tab\t", "${x}", "$", "#not comment", "semi;colon", "é", "{brace}", "", " "}).Draw(t, "dq"))
	case 2:
		return "'" + rapid.SampledFrom([]string{"single", "it''s", "${x}", "#x", "a;b", "", "new\nline"}).Draw(t, "sq") + "'"
	case 3:
		return rapid.SampledFrom([]string{"1", "0", "-1", "0.5", "1e3", "15", "100", "8", "0x10", "1_000", ".5", "007"}).Draw(t, "num")
	case 4:
		return rapid.SampledFrom(append(ValueKeywords, "NULL", "True", "FALSE", "Suspend")).Draw(t, "vk")
	case 5:
		if g.o.NoVars {
			return "plain"
		}
		return rapid.SampledFrom([]string{"${x}", "${a.b}", "pre ${x} post", "${x}${y}", "${ x }", "\"in ${x} dq\"", "${missing}"}).Draw(t, "subst")
	case 6:
		return g.blockString()
	case 7:
		return rapid.SampledFrom(KeywordNames).Draw(t, "kwv")
	case 8:
		if g.o.Imports && len(g.o.ImportNames) > 0 {
			return "@" + rapid.SampledFrom(g.o.ImportNames).Draw(t, "imp")
		}
		return "v"
	default:
		return rapid.SampledFrom(PlainNames).Draw(t, "pv")
	}
}

func (g *tg) blockString() string {
	t := g.t
	tag := rapid.SampledFrom([]string{"", "md", "latex", "go", "txt", "js"}).Draw(t, "tag")
	body := rapid.SampledFrom([]string{"# Title", "x | y", "a || b", "`code`", "line1\nline2", "  indented\n    more", "\\frac{a}{b}", "func main() {}", "|", "", " ", "a |` b", "<b>bold</b>"}).Draw(t, "body")
	q := rapid.SampledFrom([]string{"|", "||", "|||", "|`", "|'", "|%"}).Draw(t, "bq")
	cq := q
	if len(q) == 2 && q[1] != '|' {
		cq = string(q[1]) + "|"
	}
	sp := " "
	if strings.Contains(body, "\n") && rapid.Bool().Draw(t, "bnl") {
		sp = "\n"
	}
	return q + tag + sp + body + sp + cq
}

func (g *tg) array(depth int) string {
	t := g.t
	n := rapid.IntRange(0, 4).Draw(t, "arrn")
	var items []string
	for i := 0; i < n; i++ {
		switch Pick(t, "arrk", 8, 1, 1, 1, 1) {
		case 0:
			items = append(items, g.scalar(depth))
		case 1:
			if depth < g.o.MaxDepth {
				items = append(items, g.array(depth+1))
			} else {
				items = append(items, "z")
			}
		case 2:
			items = append(items, "# comment\n")
		case 3:
			if depth < g.o.MaxDepth {
				var sb strings.Builder
				sb.WriteString("{")
				g.mapBody(&sb, depth+1, "")
				sb.WriteString("}")
				items = append(items, sb.String())
			} else {
				items = append(items, "{}")
			}
		default:
			items = append(items, "...${x}")
		}
	}
	sep := rapid.SampledFrom([]string{"; ", ";", "\n", " ;\n"}).Draw(t, "arrsep")
	return "[" + strings.Join(items, sep) + "]"
}

func (g *tg) value(sb *strings.Builder, depth int, indent string) {
	t := g.t
	switch Pick(t, "valk", 10, 4, 1, 2) {
	case 0:
		sb.WriteString(g.scalar(depth))
	case 1:
		if depth >= g.o.MaxDepth {
			sb.WriteString("{}")
			return
		}
		sb.WriteString("{")
		g.mapBody(sb, depth+1, indent+"  ")
		sb.WriteString(indent + "}")
	case 2:
		sb.WriteString(g.array(depth))
	default:
		// primary value plus map
		if depth >= g.o.MaxDepth {
			sb.WriteString(g.scalar(depth))
			return
		}
		sb.WriteString(g.scalar(depth))
		sb.WriteString(" {")
		g.mapBody(sb, depth+1, indent+"  ")
		sb.WriteString(indent + "}")
	}
}

func (g *tg) mapBody(sb *strings.Builder, depth int, indent string) {
	t := g.t
	n := rapid.IntRange(0, g.o.MaxNodes).Draw(t, "mapn")
	oneLine := depth > 0 && Pick(t, "oneline", 3, 1) == 1
	if !oneLine && depth > 0 {
		sb.WriteString("\n")
	}
	for i := 0; i < n; i++ {
		g.nodes++
		if g.nodes > 60 {
			break
		}
		if !oneLine {
			sb.WriteString(indent)
		}
		g.mapNode(sb, depth, indent, oneLine)
		if oneLine {
			if i+1 < n {
				sb.WriteString("; ")
			}
		} else {
			sb.WriteString(rapid.SampledFrom([]string{"\n", "\n", "\n", "\n\n", ";\n", " \n", "\r\n"}).Draw(t, "nl"))
		}
	}
}

func (g *tg) mapNode(sb *strings.Builder, depth int, indent string, oneLine bool) {
	t := g.t
	w := []int{30, 20, 3, 2, 3, 3, 3, 2, 3, 4, 2}
	if oneLine {
		w[2], w[3] = 0, 0
	}
	if g.o.NoVars {
		w[4], w[7] = 0, 0
	}
	if !g.o.Boards {
		w[5] = 0
	}
	if g.o.NoGlobs {
		w[9] = 0
	}
	if !g.o.Imports || len(g.o.ImportNames) == 0 {
		w[8] = 0
	}
	switch Pick(t, "mnk", w...) {
	case 0: // key declaration
		sb.WriteString(g.keyPath(true))
		switch Pick(t, "kv", 3, 8) {
		case 0:
		default:
			sb.WriteString(rapid.SampledFrom([]string{": ", ": ", ":", " : "}).Draw(t, "colon"))
			g.value(sb, depth, indent)
		}
	case 1: // edge
		g.edgeDecl(sb, depth, indent)
	case 2:
		sb.WriteString("# " + rapid.SampledFrom([]string{"comment", "a -> b", "{", "\"", "é", ""}).Draw(t, "cmt"))
	case 3:
		sb.WriteString("\"\"\"" + rapid.SampledFrom([]string{" block comment ", "\nmulti\nline\n", "x", ""}).Draw(t, "bcmt") + "\"\"\"")
	case 4: // vars
		if depth >= g.o.MaxDepth {
			sb.WriteString("vars: {x: 1}")
			return
		}
		sb.WriteString("vars: {")
		sb.WriteString(rapid.SampledFrom([]string{"x: 1", "x: hello; y: world", "a: {b: nested}", "x: \"quoted val\"", "d2-config: {sketch: true}", "d2-config: {theme-id: 3; layout-engine: elk}", "x: [1; 2]", "y: ${x}", "d2-config: {theme-overrides: {B1: \"#fff\"}}", "d2-config: {pad: 10; center: true; dark-theme-id: 200}", "d2-config: {data: {k: v; arr: [1;2]}}"}).Draw(t, "varsbody"))
		sb.WriteString("}")
	case 5: // board
		if depth >= g.o.MaxDepth {
			sb.WriteString("layers: {l: {q}}")
			return
		}
		kw := rapid.SampledFrom(BoardKeywords).Draw(t, "bkw")
		sb.WriteString(kw + ": {\n")
		nb := rapid.IntRange(1, 3).Draw(t, "nb")
		for i := 0; i < nb; i++ {
			sb.WriteString(indent + "  " + rapid.SampledFrom([]string{"l1", "l2", "s1", "x", "1", "\"a b\""}).Draw(t, "bname") + ": {")
			g.mapBody(sb, depth+2, indent+"    ")
			sb.WriteString(indent + "  }\n")
		}
		sb.WriteString(indent + "}")
	case 6: // classes
		sb.WriteString("classes: {" + rapid.SampledFrom([]string{"c1: {style.fill: red}", "c1: {shape: circle}; c2: {style: {stroke: blue}}", "c1.label: L", "c1: {width: 100}"}).Draw(t, "clsbody") + "}")
	case 7: // spread substitution
		sb.WriteString(rapid.SampledFrom([]string{"...${x}", "...${a}", "...${a.b}"}).Draw(t, "spread"))
	case 8: // import spread
		sb.WriteString("...@" + rapid.SampledFrom(g.o.ImportNames).Draw(t, "impsp"))
	case 9: // glob with filter body
		sb.WriteString(g.globSeg())
		if rapid.Bool().Draw(t, "gp") {
			sb.WriteString("." + g.globSeg())
		}
		sb.WriteString(": {")
		sb.WriteString(rapid.SampledFrom([]string{"&shape: circle; style.fill: red", "!&shape: square; style.stroke: blue", "style.opacity: 0.5", "&label: a; shape: oval", "&connected: true; style.bold: true", "&leaf: true", "&level: 1; style.fill: green", "c", "shape: circle", "&class: c1", "& shape: [circle; square]"}).Draw(t, "globbody"))
		sb.WriteString("}")
	default: // class use / misc reserved
		sb.WriteString(g.ident() + rapid.SampledFrom([]string{".class: c1", ".class: [c1; c2]", ".near: top-center", ".link: layers.l1", ".icon: https://icons.terrastruct.com/x.svg", ".width: 100", ".grid-rows: 2", ".shape: sequence_diagram", ".direction: right", ".label.near: top-left", ".icon.near: outside-top-left", ".tooltip: tip", ".style.fill: \"linear-gradient(#000, #fff)\""}).Draw(t, "misc"))
	}
}

func (g *tg) edgeDecl(sb *strings.Builder, depth int, indent string) {
	t := g.t
	switch Pick(t, "edk", 10, 3, 2, 1) {
	case 0:
		sb.WriteString(g.edgeExpr())
		switch Pick(t, "edv", 4, 4, 2) {
		case 1:
			sb.WriteString(": " + g.scalar(depth))
		case 2:
			if depth < g.o.MaxDepth {
				sb.WriteString(": {")
				sb.WriteString(rapid.SampledFrom([]string{"style.stroke: red", "label: lbl", "source-arrowhead: 1", "target-arrowhead: {shape: diamond; style.filled: true}", "style.animated: true", "class: c1", "target-arrowhead.label: *"}).Draw(t, "edbody"))
				sb.WriteString("}")
			}
		}
	case 1: // edge group with index
		sb.WriteString("(" + g.edgeExpr() + ")")
		sb.WriteString(rapid.SampledFrom([]string{"[0]", "[1]", "[2]", "[*]", "", "[10]"}).Draw(t, "eidx"))
		switch Pick(t, "egk", 3, 3, 2) {
		case 0:
			sb.WriteString(".style." + rapid.SampledFrom(StyleKeywords).Draw(t, "esk") + ": " + g.scalar(depth))
		case 1:
			sb.WriteString(": " + g.scalar(depth))
		default:
			sb.WriteString("." + rapid.SampledFrom([]string{"label", "source-arrowhead.shape", "target-arrowhead.label", "class", "style.stroke-dash"}).Draw(t, "erk") + ": " + g.scalar(depth))
		}
	case 2: // scoped edge group
		sb.WriteString(g.ident() + ".(" + g.edgeExpr() + ")" + rapid.SampledFrom([]string{"[0]", "[*]", ""}).Draw(t, "sidx") + ": " + g.scalar(depth))
	default: // null edge
		sb.WriteString("(" + g.edgeExpr() + ")[" + rapid.SampledFrom([]string{"0", "1", "*"}).Draw(t, "nidx") + "]: null")
	}
}

// Mutate applies up to n small byte/token mutations to s.
func Mutate(t *rapid.T, s string, n int) string {
	b := []byte(s)
	k := rapid.IntRange(1, n).Draw(t, "mutn")
	toks := []string{"{", "}", "[", "]", "(", ")", "|", "||", "\"", "'", "\"\"\"", "->", "<-", "--", ":", ";", ".", "*", "&", "!&", "...", "@", "${", "$", "\\", "\n", "#", "|md", "null", "_", "[0]", "[*]", "\r\n", "\x00", "\xff", "\xc3", "é", "𝒳", "layers", "vars", "style"}
	for i := 0; i < k; i++ {
		pos := 0
		if len(b) > 0 {
			pos = rapid.IntRange(0, len(b)).Draw(t, "mpos")
		}
		switch Pick(t, "mop", 3, 3, 2, 1, 1) {
		case 0: // delete a few bytes
			if len(b) == 0 {
				continue
			}
			l := rapid.IntRange(1, 4).Draw(t, "mlen")
			end := pos + l
			if end > len(b) {
				end = len(b)
			}
			b = append(b[:pos:pos], b[end:]...)
		case 1: // insert token
			tok := rapid.SampledFrom(toks).Draw(t, "mtok")
			b = append(b[:pos:pos], append([]byte(tok), b[pos:]...)...)
		case 2: // duplicate a span
			if len(b) == 0 {
				continue
			}
			l := rapid.IntRange(1, 12).Draw(t, "dlen")
			end := pos + l
			if end > len(b) {
				end = len(b)
			}
			span := append([]byte(nil), b[pos:end]...)
			b = append(b[:end:end], append(span, b[end:]...)...)
		case 3: // flip a byte
			if pos < len(b) {
				b[pos] = rapid.Byte().Draw(t, "mbyte")
			}
		default: // truncate
			b = b[:pos]
		}
	}
	return string(b)
}
