package gen

import (
	"bytes"
	"encoding/binary"
	"strings"
	"unicode/utf16"

	"pgregory.net/rapid"
)

// UTF16LE encodes s as UTF-16LE with a BOM (the encoding d2parser auto-detects).
func UTF16LE(s string) []byte {
	u := utf16.Encode([]rune(s))
	b := make([]byte, 2+2*len(u))
	b[0], b[1] = 0xFF, 0xFE
	for i, c := range u {
		binary.LittleEndian.PutUint16(b[2+2*i:], c)
	}
	return b
}

// HostileConstants are byte strings aimed at parser edge cases.
func HostileConstants(maxNest int) [][]byte {
	var out [][]byte
	add := func(s string) { out = append(out, []byte(s)) }
	for _, op := range []string{"\"", "'", "|", "|||", "\"\"\"", "${", "(", "[", "{", "|md", "|`", "...@", "...$", "...${", "@", "$", "\\", "a\\", "\"\\", "'\\", "a: \\", "a: |md \\", "-", "--", "->", "<-", "*-", "a -", "a --", "a -> ", "a <- ", "(a -> b)[", "(a -> b)[0", "(a -> b)[0]", "(a -> b)[*].", "a.", "a..b", ".", "a:", "a: {", "a: [", "a: [ {", "a: [ [", "x: ${", "x: ${a", "x: ${a.", "&", "!&", "&a", "!&a:", "a: |", "a: ||", "a: |||x", "a: |`x", "a: |`x `", "\r", "\r\n", "a\r\nb", "\x00", "a\x00b", "\xef\xbb\xbf", "\xef\xbb\xbfa -> b", "\xff", "\xff\xfe", "\xff\xfea", "\xfe\xff", "\xc3", "\xe2\x82", "\xf0\x9f\x98", "\xed\xa0\x80", "\xc0\xaf", "\xf4\x90\x80\x80", " ", " ", "a b", "\u0085"} {
		add(op)
		add("a: " + op)
		add(op + "\nb")
	}
	for _, n := range []int{1, 2, 10, 100, maxNest} {
		for _, op := range []string{"{", "[", "(", "|", "a: {", "a: [", "a.", "a -> ", "\"", "${", "...", "*", "-", "\\", "'", "#", "\n", ";", "a;", "(a -> b)[0].", "x: |`", "[{", "\"\"\""} {
			add(strings.Repeat(op, n))
			add("x: " + strings.Repeat(op, n))
		}
	}
	// keys around the length limit
	for _, n := range []int{517, 518, 519, 600, 2000} {
		add(strings.Repeat("k", n))
		add(strings.Repeat("k", n) + ": v")
		add("\"" + strings.Repeat("k", n) + "\"")
		add("a -> " + strings.Repeat("é", n))
	}
	// UTF-16 payloads, even and odd lengths
	out = append(out, UTF16LE("a -> b: é 𝒳\nc: {d}\n"))
	out = append(out, append(UTF16LE("a -> b"), 0x41))
	out = append(out, []byte{0xFF, 0xFE})
	out = append(out, []byte{0xFF, 0xFE, 0x00})
	out = append(out, []byte{0xFF, 0xFE, 0x00, 0xD8}) // lone surrogate
	out = append(out, []byte{0xFF, 0xFE, 0x00, 0xDC, 0x41, 0x00})
	out = append(out, append([]byte{0xFF, 0xFE}, bytes.Repeat([]byte{'{', 0}, 200)...))
	return out
}

// Bytes draws a raw byte string up to max bytes.
func Bytes(t *rapid.T, max int, seeds [][]byte) []byte {
	switch Pick(t, "bk", 3, 3, 3, 2, 1, 2) {
	case 0:
		return rapid.SliceOfN(rapid.Byte(), 0, max).Draw(t, "raw")
	case 1:
		// syntax-biased runes
		return []byte(RuneString(t, 64, "rs"))
	case 2:
		hs := HostileConstants(64)
		b := append([]byte(nil), hs[rapid.IntRange(0, len(hs)-1).Draw(t, "hc")]...)
		if rapid.Bool().Draw(t, "hc+") {
			b = append(b, hs[rapid.IntRange(0, len(hs)-1).Draw(t, "hc2")]...)
		}
		return b
	case 3:
		if len(seeds) == 0 {
			return []byte("a -> b")
		}
		s := seeds[rapid.IntRange(0, len(seeds)-1).Draw(t, "seed")]
		if len(s) > max {
			s = s[:max]
		}
		return []byte(Mutate(t, string(s), 4))
	case 4:
		// UTF-16 of a grammar text, possibly mutated
		b := UTF16LE(Text(t, DefaultTextOpts()))
		if rapid.Bool().Draw(t, "u16m") {
			b = []byte(Mutate(t, string(b), 3))
			if len(b) < 2 || b[0] != 0xFF || b[1] != 0xFE {
				b = append([]byte{0xFF, 0xFE}, b...)
			}
		}
		return b
	default:
		// nest runs of drawn size
		n := rapid.IntRange(1, max/4+1).Draw(t, "nest")
		op := rapid.SampledFrom([]string{"{", "[", "(", "a: {", "a: [", "|", "a.", "a->", "x: [{"}).Draw(t, "nop")
		s := strings.Repeat(op, n)
		if len(s) > max {
			s = s[:max]
		}
		return []byte(s)
	}
}
