package gen

import (
	"fmt"
	"strings"

	"pgregory.net/rapid"
)

// DiagramOpts steers the layout-oriented, compilable-by-construction diagram generator.
type DiagramOpts struct {
	MaxObjects  int
	MaxDepth    int
	MaxEdges    int
	Hostile     bool // names that need quoting / non-ASCII
	Shapes      bool // all shapes (otherwise rectangles)
	Styles      bool
	Sizes       bool // explicit width/height
	Labels      bool // explicit labels (long, multi-line, markdown, code, latex)
	Icons       bool
	Positions   bool // label.near / icon.near
	Nears       bool // constant nears on root shapes
	Grids       bool
	Sequences   bool
	Tables      bool // class / sql_table
	Links       bool // tooltip / link
	Directions  bool
	ObjectNears bool // near: <other object>
	ASCIIOnly   bool
	// Tame restricts the diagram to the class on which the geometric properties are asserted
	// strictly: rectangular undecorated containers, no self-loops, no connections ending at a
	// container, no label/icon positions, no nested direction.
	Tame           bool
	NoKeywordNames bool                      // leave out object names that spell reserved keywords (compiler crash findings, C07)
	Canary         func(field string) string // if set, appended to every user string (C30)
}

func FullDiagramOpts() DiagramOpts {
	return DiagramOpts{MaxObjects: 14, MaxDepth: 3, MaxEdges: 12, Hostile: true, Shapes: true, Styles: true, Sizes: true, Labels: true,
		Icons: true, Positions: true, Nears: true, Grids: true, Sequences: true, Tables: true, Links: true, Directions: true}
}

// TameDiagramOpts: see DiagramOpts.Tame.
func TameDiagramOpts() DiagramOpts {
	o := FullDiagramOpts()
	o.NoKeywordNames = true
	o.Tame = true
	o.Positions = false
	o.Sizes = false
	o.Links = false
	return o
}

// LayoutDiagramOpts is FullDiagramOpts without the names known to crash the compiler.
func LayoutDiagramOpts() DiagramOpts {
	o := FullDiagramOpts()
	o.NoKeywordNames = true
	return o
}

// DNode is one declared object.
type DNode struct {
	Name     string      `json:"name"`
	Key      string      `json:"key"`
	Label    *string     `json:"label,omitempty"`
	Block    string      `json:"block,omitempty"` // md | latex | code tag
	Shape    string      `json:"shape,omitempty"`
	Attrs    [][2]string `json:"attrs,omitempty"`
	Lines    []string    `json:"lines,omitempty"` // raw body lines (class fields, table columns)
	Special  string      `json:"special,omitempty"`
	Children []*DNode    `json:"children,omitempty"`
	Near     string      `json:"near,omitempty"`
	parent   *DNode
}

type DEdge struct {
	Src   string      `json:"src"`
	Dst   string      `json:"dst"`
	Arrow string      `json:"arrow"`
	Label *string     `json:"label,omitempty"`
	Attrs [][2]string `json:"attrs,omitempty"`
}

// Diagram is the structured value; Text() prints it.
type Diagram struct {
	Root      []*DNode    `json:"root"`
	Edges     []DEdge     `json:"edges"`
	RootAttrs [][2]string `json:"root_attrs,omitempty"`
	// Inner holds edges declared inside a container (key = container path), relative keys.
	Features map[string]int `json:"features"`
}

func (n *DNode) Path() string {
	if n.parent == nil {
		return n.Key
	}
	return n.parent.Path() + "." + n.Key
}

// NamePath is the chain of raw names from the root.
func (n *DNode) NamePath() []string {
	if n.parent == nil {
		return []string{n.Name}
	}
	return append(n.parent.NamePath(), n.Name)
}

func (n *DNode) depth() int {
	d := 0
	for p := n.parent; p != nil; p = p.parent {
		d++
	}
	return d
}

// QuoteKey renders a raw name as a D2 key segment.
func QuoteKey(s string) string {
	plain := s != ""
	for i, r := range s {
		if !(r >= 'a' && r <= 'z' || r >= 'A' && r <= 'Z' || r >= '0' && r <= '9' && i > 0 || r == '_' && len(s) > 1 || r > 0x7f && r != ' ' && r != ' ' && r != '\ufeff' && r != '\u0085') {
			plain = false
		}
	}
	if plain {
		l := strings.ToLower(s)
		for _, k := range ReservedKeywords {
			if l == k {
				plain = false
			}
		}
		for _, k := range StyleKeywords {
			if l == k {
				plain = false
			}
		}
		for _, k := range ValueKeywords {
			if l == k {
				plain = false
			}
		}
	}
	if plain {
		return s
	}
	return QuoteValue(s)
}

// QuoteValue renders s as a double-quoted D2 string.
func QuoteValue(s string) string {
	var sb strings.Builder
	sb.WriteByte('"')
	for _, r := range s {
		switch r {
		case '"':
			sb.WriteString(`\"`)
		case '\\':
			sb.WriteString(`\\`)
		case '\n':
			sb.WriteString(`\n`)
		case '$':
			sb.WriteString(`\$`)
		default:
			sb.WriteRune(r)
		}
	}
	sb.WriteByte('"')
	return sb.String()
}

var diagramPlain = []string{"a", "b", "c", "d", "e", "f", "g", "h", "user", "db", "api", "web", "queue", "svc", "n1", "n2", "n3", "x", "y", "z", "Alpha", "Beta"}
var diagramHostile = []string{"a b", "my db", "a.b", "a-b", "a->b", "x:y", "q#r", "it's", "say \"hi\"", "é", "日本語", "Ⱥ", "ß", "𝒳", "😀", "1", "007", "null", "true", "label", "shape", "style", "a`b", "${x}", "$y", "a*", "a;b", "{a}", "[b]", "(c)", "a|b", "&d", "@e", "a\\b", "<f>", "a&b", "-", "_x", "a  b", "tab\there", "LAYERS", "Top", "É", "σ", "İ"}

var SimpleShapes = []string{"rectangle", "square", "page", "parallelogram", "document", "cylinder", "queue", "package", "step", "callout", "stored_data", "person", "c4-person", "diamond", "oval", "circle", "hexagon", "cloud"}

var colors = []string{"red", "blue", "\"#ff00aa\"", "\"#0a0\"", "lightblue", "transparent", "honeydew", "\"linear-gradient(#000, #fff)\"", "\"radial-gradient(red, blue 50%, #00f)\"", "PapayaWhip"}

type dg struct {
	t     *rapid.T
	o     DiagramOpts
	d     *Diagram
	all   []*DNode
	names map[string]bool // lower-cased sibling keys per parent path
}

func (g *dg) feat(f string) { g.d.Features[f]++ }

func (g *dg) user(field, s string) string {
	if g.o.Canary != nil {
		return s + g.o.Canary(field)
	}
	return s
}

func (g *dg) name(parent *DNode) (string, bool) {
	t := g.t
	for try := 0; try < 8; try++ {
		var n string
		if g.o.Hostile && !g.o.ASCIIOnly && Pick(t, "hostile", 3, 1) == 1 {
			n = rapid.SampledFrom(diagramHostile).Draw(t, "hname")
			if g.o.NoKeywordNames {
				switch strings.ToLower(n) {
				case "label", "shape", "style", "layers", "top", "null", "true":
					n = "kw " + n
				}
			}
			g.feat("hostile_name")
		} else {
			n = rapid.SampledFrom(diagramPlain).Draw(t, "pname")
		}
		if g.o.Canary != nil && Pick(t, "canaryname", 2, 1) == 1 {
			n = n + g.o.Canary("id")
		}
		pp := ""
		if parent != nil {
			pp = parent.Path()
		}
		k := pp + "\x00" + strings.ToLower(n)
		// sibling names must differ case-insensitively (Unicode simple folding): use a conservative key
		if g.names[k] || g.names[pp+"\x00"+strings.ToUpper(n)] {
			continue
		}
		g.names[k] = true
		g.names[pp+"\x00"+strings.ToUpper(n)] = true
		return n, true
	}
	return "", false
}

func (g *dg) label() (string, string) {
	t := g.t
	switch Pick(t, "lblk", 6, 3, 2, 2, 1, 1, 1) {
	case 0:
		return rapid.SampledFrom([]string{"Hello", "A label", "Service", "x", "42", "OK?", "North America", "user-service", "v1.2.3"}).Draw(t, "lbl"), ""
	case 1:
		return rapid.SampledFrom([]string{"a considerably longer label that should make the shape wider than usual", "two\nlines", "three\nseparate\nlines", "", " "}).Draw(t, "lbl2"), ""
	case 2:
		if g.o.ASCIIOnly {
			return "plain ascii", ""
		}
		return rapid.SampledFrom([]string{"héllo wörld", "日本語のラベル", "Ελληνικά", "Кириллица", "emoji 😀 ok", "𝒳 math", "naïve café", "ÅÄÖ åäö", "ſtraße", "a→b", "“quoted”", "½ ¼ © ®"}).Draw(t, "lblu"), ""
	case 3:
		return rapid.SampledFrom([]string{"# Title\n\nsome *markdown* text", "- item 1\n- item 2", "**bold** and `code`", "plain md", "| a | b |\n|---|---|\n| 1 | 2 |"}).Draw(t, "md"), "md"
	case 4:
		return rapid.SampledFrom([]string{"func main() {\n  fmt.Println(1)\n}", "x := 1", "SELECT * FROM t;"}).Draw(t, "code"), rapid.SampledFrom([]string{"go", "sql", "js", "txt"}).Draw(t, "lang")
	case 5:
		return rapid.SampledFrom([]string{`\frac{a}{b}`, `x^2 + y^2 = z^2`, `\sum_{i=0}^n i`}).Draw(t, "tex"), "latex"
	default:
		return rapid.SampledFrom([]string{"<b>html</b>", "a & b", "x < y > z", "'single' \"double\"", "back\\slash", "semi;colon", "hash # tag", "brace { }", "pipe | bar", "dollar $x ${y}"}).Draw(t, "lblx"), ""
	}
}

func (g *dg) styles(n *DNode, isEdge bool) [][2]string {
	t := g.t
	var out [][2]string
	k := rapid.IntRange(0, 4).Draw(t, "nstyle")
	seen := map[string]bool{}
	for i := 0; i < k; i++ {
		var kv [2]string
		switch Pick(t, "stk", 3, 3, 2, 2, 2, 2, 2, 1, 1, 1, 1, 1, 1, 1, 1) {
		case 0:
			kv = [2]string{"style.fill", rapid.SampledFrom(colors).Draw(t, "fill")}
			if isEdge {
				kv = [2]string{"style.stroke", rapid.SampledFrom(colors[:7]).Draw(t, "estroke")}
			}
		case 1:
			kv = [2]string{"style.stroke", rapid.SampledFrom(colors[:7]).Draw(t, "stroke")}
		case 2:
			kv = [2]string{"style.stroke-width", fmt.Sprint(rapid.IntRange(0, 15).Draw(t, "sw"))}
		case 3:
			kv = [2]string{"style.opacity", rapid.SampledFrom([]string{"0", "0.3", "0.5", "1", "0.99"}).Draw(t, "op")}
		case 4:
			kv = [2]string{"style.stroke-dash", fmt.Sprint(rapid.IntRange(0, 10).Draw(t, "sd"))}
		case 5:
			kv = [2]string{"style.font-size", fmt.Sprint(rapid.IntRange(8, 100).Draw(t, "fs"))}
		case 6:
			kv = [2]string{"style.font-color", rapid.SampledFrom(colors[:6]).Draw(t, "fc")}
		case 7:
			kv = [2]string{"style.bold", rapid.SampledFrom([]string{"true", "false"}).Draw(t, "bold")}
		case 8:
			kv = [2]string{"style.italic", rapid.SampledFrom([]string{"true", "false"}).Draw(t, "it")}
		case 9:
			kv = [2]string{"style.underline", "true"}
		case 10:
			if isEdge {
				kv = [2]string{"style.animated", "true"}
			} else {
				kv = [2]string{"style.shadow", "true"}
			}
		case 11:
			if isEdge || n == nil {
				continue
			}
			if n.Shape == "" || n.Shape == "rectangle" || n.Shape == "square" || n.Shape == "hexagon" {
				kv = [2]string{"style.3d", "true"}
			} else {
				continue
			}
		case 12:
			if isEdge {
				continue
			}
			kv = [2]string{"style.multiple", "true"}
		case 13:
			if isEdge || n == nil {
				continue
			}
			if n.Shape == "" || n.Shape == "rectangle" || n.Shape == "square" || n.Shape == "oval" || n.Shape == "circle" {
				kv = [2]string{"style.double-border", "true"}
			} else {
				kv = [2]string{"style.border-radius", fmt.Sprint(rapid.IntRange(0, 20).Draw(t, "br"))}
			}
		default:
			kv = [2]string{"style.text-transform", rapid.SampledFrom([]string{"uppercase", "lowercase", "capitalize", "none"}).Draw(t, "tt")}
			if Pick(t, "font", 2, 1) == 1 {
				kv = [2]string{"style.font", "mono"}
			}
		}
		if kv[0] == "" || seen[kv[0]] {
			continue
		}
		seen[kv[0]] = true
		out = append(out, kv)
	}
	if len(out) > 0 {
		g.feat("styled")
	}
	return out
}

func (g *dg) node(parent *DNode, depth int, inSpecial string) *DNode {
	t := g.t
	nm, ok := g.name(parent)
	if !ok {
		return nil
	}
	n := &DNode{Name: nm, Key: QuoteKey(nm), parent: parent}
	g.all = append(g.all, n)
	if g.o.Shapes && Pick(t, "hasshape", 1, 2) == 1 {
		n.Shape = rapid.SampledFrom(SimpleShapes).Draw(t, "shape")
		g.feat("shape:" + n.Shape)
	}
	if g.o.Labels && Pick(t, "haslabel", 1, 1) == 1 {
		l, blk := g.label()
		if g.o.ASCIIOnly && blk != "" {
			blk = ""
			l = "ascii label"
		}
		if blk == "" {
			l = g.user("label", l)
		}
		n.Label, n.Block = &l, blk
		if blk != "" {
			g.feat("block:" + blk)
			n.Shape = ""
		}
	}
	if g.o.Styles && n.Block == "" {
		n.Attrs = append(n.Attrs, g.styles(n, false)...)
	}
	if g.o.Sizes && Pick(t, "sized", 3, 1) == 1 && inSpecial != "sequence" {
		w, h := rapid.IntRange(1, 600).Draw(t, "w"), rapid.IntRange(1, 400).Draw(t, "h")
		if n.Shape == "square" || n.Shape == "circle" {
			h = w
		}
		switch Pick(t, "whichsize", 2, 1, 1) {
		case 0:
			n.Attrs = append(n.Attrs, [2]string{"width", fmt.Sprint(w)}, [2]string{"height", fmt.Sprint(h)})
		case 1:
			n.Attrs = append(n.Attrs, [2]string{"width", fmt.Sprint(w)})
		default:
			n.Attrs = append(n.Attrs, [2]string{"height", fmt.Sprint(h)})
		}
		g.feat("explicit_size")
	}
	if g.o.Icons && n.Block == "" && Pick(t, "icon", 5, 1) == 1 {
		n.Attrs = append(n.Attrs, [2]string{"icon", "https://icons.terrastruct.com/essentials/" + rapid.SampledFrom([]string{"004-picture.svg", "112-server.svg", "a b.svg"}).Draw(t, "iconf")})
		g.feat("icon")
		if g.o.Positions && Pick(t, "iconnear", 1, 1) == 1 {
			n.Attrs = append(n.Attrs, [2]string{"icon.near", rapid.SampledFrom(positions).Draw(t, "ipos")})
			g.feat("icon_near")
		}
	}
	if g.o.Positions && n.Block == "" && Pick(t, "lblnear", 4, 1) == 1 {
		n.Attrs = append(n.Attrs, [2]string{"label.near", rapid.SampledFrom(positions).Draw(t, "lpos")})
		g.feat("label_near")
	}
	if g.o.Links && Pick(t, "tip", 6, 1) == 1 {
		n.Attrs = append(n.Attrs, [2]string{"tooltip", QuoteValue(g.user("tooltip", rapid.SampledFrom([]string{"a tip", "more info & stuff", "ünïcode tip"}).Draw(t, "tipv")))})
		g.feat("tooltip")
	}
	if g.o.Links && Pick(t, "link", 8, 1) == 1 {
		n.Attrs = append(n.Attrs, [2]string{"link", QuoteValue(g.user("link", rapid.SampledFrom([]string{"https://example.com/a?b=1&c=2", "https://d2lang.com", "http://x.y/\"q\""}).Draw(t, "linkv")))})
		g.feat("link")
	}
	// children / special kinds
	if n.Block == "" && depth < g.o.MaxDepth && len(g.all) < g.o.MaxObjects {
		switch {
		case g.o.Tables && inSpecial == "" && Pick(t, "table", 10, 1) == 1:
			g.table(n)
		case g.o.Grids && inSpecial != "sequence" && Pick(t, "grid", 10, 1) == 1:
			g.grid(n, depth)
		case g.o.Sequences && inSpecial == "" && Pick(t, "seq", 12, 1) == 1:
			g.sequence(n)
		case Pick(t, "container", 1, 1) == 1:
			k := rapid.IntRange(1, 4).Draw(t, "nchildren")
			for i := 0; i < k && len(g.all) < g.o.MaxObjects; i++ {
				if c := g.node(n, depth+1, inSpecial); c != nil {
					n.Children = append(n.Children, c)
				}
			}
			if len(n.Children) > 0 {
				g.feat("container")
				if g.o.Directions && Pick(t, "cdir", 6, 1) == 1 {
					n.Attrs = append(n.Attrs, [2]string{"direction", rapid.SampledFrom([]string{"up", "down", "left", "right"}).Draw(t, "cdirv")})
				}
				// containers cannot carry some leaf-only shapes
				switch n.Shape {
				case "circle", "oval", "square", "diamond", "hexagon", "cloud", "person", "c4-person", "step", "callout", "stored_data", "cylinder", "queue", "package", "page", "parallelogram", "document":
					// allowed by the compiler for containers; keep
				}
			}
		}
	}
	if len(n.Children) > 0 && g.o.Tame && n.Special != "sequence" {
		n.Shape = ""
		var keep [][2]string
		for _, a := range n.Attrs {
			switch a[0] {
			case "icon", "icon.near", "label.near", "direction", "style.stroke-width", "style.multiple", "style.3d", "style.shadow", "style.font-size", "tooltip", "link":
			default:
				keep = append(keep, a)
			}
		}
		n.Attrs = keep
	}
	if len(n.Children) > 0 {
		// an explicit size on a container competes with the size its content needs; the
		// properties about sizes and containment speak of leaf shapes only
		var keep [][2]string
		for _, a := range n.Attrs {
			if a[0] != "width" && a[0] != "height" {
				keep = append(keep, a)
			}
		}
		n.Attrs = keep
	}
	return n
}

var positions = []string{"top-left", "top-center", "top-right", "center-left", "center-center", "center-right", "bottom-left", "bottom-center", "bottom-right",
	"outside-top-left", "outside-top-center", "outside-top-right", "outside-left-top", "outside-left-center", "outside-left-bottom",
	"outside-right-top", "outside-right-center", "outside-right-bottom", "outside-bottom-left", "outside-bottom-center", "outside-bottom-right", "border-top-left", "border-bottom-center", "border-right-center"}

var NearConstants = []string{"top-left", "top-center", "top-right", "center-left", "center-right", "bottom-left", "bottom-center", "bottom-right"}

func (g *dg) table(n *DNode) {
	t := g.t
	n.Attrs = nil
	if n.Label != nil && strings.Contains(*n.Label, "\n") {
		n.Label = nil
	}
	if rapid.Bool().Draw(t, "isclass") {
		n.Shape = "class"
		g.feat("class")
		k := rapid.IntRange(0, 4).Draw(t, "nfields")
		for i := 0; i < k; i++ {
			n.Lines = append(n.Lines, rapid.SampledFrom([]string{"+id: int", "-name: string", "\\#count: uint64", "+getName(): string", "setName(n string): void", "field with space: T", "ünï: Ø"}).Draw(t, "cf"))
		}
	} else {
		n.Shape = "sql_table"
		g.feat("sql_table")
		k := rapid.IntRange(0, 4).Draw(t, "ncols")
		used := map[string]bool{}
		for i := 0; i < k; i++ {
			col := rapid.SampledFrom([]string{"id", "name", "user_id", "created_at", "\"a b\"", "ñ"}).Draw(t, "col")
			if used[col] {
				continue
			}
			used[col] = true
			n.Lines = append(n.Lines, col+": "+rapid.SampledFrom([]string{"int", "varchar(255)", "timestamp {constraint: primary_key}", "int {constraint: [foreign_key; unique]}", "uuid {constraint: unique}"}).Draw(t, "ct"))
		}
	}
	// duplicates make the later line override: dedupe class lines by key
	seen := map[string]bool{}
	var lines []string
	for _, l := range n.Lines {
		k := strings.ToLower(strings.SplitN(l, ":", 2)[0])
		if seen[k] {
			continue
		}
		seen[k] = true
		lines = append(lines, l)
	}
	n.Lines = lines
}

func (g *dg) grid(n *DNode, depth int) {
	t := g.t
	n.Special = "grid"
	g.feat("grid")
	switch Pick(t, "gridk", 2, 2, 2) {
	case 0:
		n.Attrs = append(n.Attrs, [2]string{"grid-rows", fmt.Sprint(rapid.IntRange(1, 4).Draw(t, "gr"))})
	case 1:
		n.Attrs = append(n.Attrs, [2]string{"grid-columns", fmt.Sprint(rapid.IntRange(1, 4).Draw(t, "gc"))})
	default:
		a := [2]string{"grid-rows", fmt.Sprint(rapid.IntRange(1, 3).Draw(t, "gr2"))}
		b := [2]string{"grid-columns", fmt.Sprint(rapid.IntRange(1, 3).Draw(t, "gc2"))}
		if rapid.Bool().Draw(t, "colsfirst") {
			a, b = b, a
		}
		n.Attrs = append(n.Attrs, a, b)
	}
	if Pick(t, "gap", 2, 1) == 1 {
		n.Attrs = append(n.Attrs, [2]string{rapid.SampledFrom([]string{"grid-gap", "vertical-gap", "horizontal-gap"}).Draw(t, "gapk"), fmt.Sprint(rapid.IntRange(0, 60).Draw(t, "gapv"))})
	}
	k := rapid.IntRange(1, 7).Draw(t, "ncells")
	for i := 0; i < k && len(g.all) < g.o.MaxObjects+4; i++ {
		if c := g.node(n, depth+1, "grid"); c != nil {
			n.Children = append(n.Children, c)
		}
	}
}

func (g *dg) sequence(n *DNode) {
	t := g.t
	n.Special = "sequence"
	n.Shape = "sequence_diagram"
	n.Attrs = nil
	g.feat("sequence")
	k := rapid.IntRange(1, 4).Draw(t, "nactors")
	for i := 0; i < k; i++ {
		nm, ok := g.name(n)
		if !ok {
			continue
		}
		a := &DNode{Name: nm, Key: QuoteKey(nm), parent: n}
		if g.o.Shapes && Pick(t, "actorshape", 3, 1) == 1 {
			a.Shape = rapid.SampledFrom([]string{"person", "cylinder", "oval", "queue"}).Draw(t, "ashape")
		}
		n.Children = append(n.Children, a)
		g.all = append(g.all, a)
	}
	if len(n.Children) == 0 {
		return
	}
	m := rapid.IntRange(0, 6).Draw(t, "nmsgs")
	for i := 0; i < m; i++ {
		a := n.Children[rapid.IntRange(0, len(n.Children)-1).Draw(t, "ma")]
		b := n.Children[rapid.IntRange(0, len(n.Children)-1).Draw(t, "mb")]
		line := a.Key + " " + rapid.SampledFrom([]string{"->", "<-", "--", "<->"}).Draw(t, "marrow") + " " + b.Key
		if rapid.Bool().Draw(t, "mlabel") {
			line += ": " + QuoteValue(g.user("label", rapid.SampledFrom([]string{"request", "response", "ping", "ünï msg"}).Draw(t, "mlbl")))
		}
		n.Lines = append(n.Lines, line)
	}
	if Pick(t, "note", 3, 1) == 1 {
		a := n.Children[0]
		n.Lines = append(n.Lines, a.Key+".note: "+QuoteValue(g.user("label", "a note")))
		g.feat("seq_note")
	}
	if Pick(t, "span", 3, 1) == 1 && len(n.Children) > 1 {
		a, b := n.Children[0], n.Children[1]
		n.Lines = append(n.Lines, a.Key+".span -> "+b.Key)
		g.feat("seq_span")
	}
}

// GenDiagram draws a compilable diagram.
func GenDiagram(t *rapid.T, o DiagramOpts) *Diagram {
	g := &dg{t: t, o: o, d: &Diagram{Features: map[string]int{}}, names: map[string]bool{}}
	if o.Directions && Pick(t, "rootdir", 4, 1) == 1 {
		g.d.RootAttrs = append(g.d.RootAttrs, [2]string{"direction", rapid.SampledFrom([]string{"up", "down", "left", "right"}).Draw(t, "dir")})
	}
	nroot := rapid.IntRange(1, 6).Draw(t, "nroot")
	if nroot == 1 && Pick(t, "morenroot", 1, 2) == 1 {
		nroot = 3
	}
	for i := 0; i < nroot && len(g.all) < o.MaxObjects; i++ {
		if n := g.node(nil, 0, ""); n != nil {
			g.d.Root = append(g.d.Root, n)
		}
	}
	// constant nears: root-level, not connected (decided below by skipping them as edge ends)
	nearSet := map[*DNode]bool{}
	if o.Nears {
		for _, n := range g.d.Root {
			if len(g.d.Root) > 1 && n.Special == "" && Pick(t, "near", 6, 1) == 1 {
				n.Near = rapid.SampledFrom(NearConstants).Draw(t, "nearv")
				nearSet[n] = true
				g.feat("near_const")
			}
		}
	}
	// edges between nodes that are not inside sequence diagrams / tables and not (inside) near objects
	var ends []*DNode
	for _, n := range g.all {
		ok := true
		for p := n; p != nil; p = p.parent {
			if nearSet[p] {
				ok = false
			}
			if p != n && (p.Special == "sequence") {
				ok = false
			}
		}
		if ok {
			ends = append(ends, n)
		}
	}
	if len(ends) > 0 && o.MaxEdges > 0 {
		lo := 0
		if Pick(t, "someedges", 1, 3) == 1 {
			lo = 1
		}
		ne := rapid.IntRange(lo, o.MaxEdges).Draw(t, "nedges")
		for i := 0; i < ne; i++ {
			a := ends[rapid.IntRange(0, len(ends)-1).Draw(t, "ea")]
			b := ends[rapid.IntRange(0, len(ends)-1).Draw(t, "eb")]
			// no edge between an object and its own ancestor/descendant
			if a != b && (strings.HasPrefix(a.Path()+".", b.Path()+".") || strings.HasPrefix(b.Path()+".", a.Path()+".")) {
				continue
			}
			if a == b && (a.Special != "" || gridOf(a) != nil) {
				continue
			}
			if g.o.Tame && (a == b || len(a.Children) > 0 || len(b.Children) > 0 || a.Special != "" || b.Special != "") {
				continue
			}
			// grid cells: edges across grid boundaries are restricted; keep edges within the same grid or fully outside
			if gridOf(a) != gridOf(b) {
				continue
			}
			e := DEdge{Src: a.Path(), Dst: b.Path(), Arrow: rapid.SampledFrom([]string{"->", "->", "<-", "<->", "--"}).Draw(t, "earrow")}
			if a == b {
				g.feat("self_loop")
			}
			if len(a.Children) > 0 || len(b.Children) > 0 {
				g.feat("container_edge")
			}
			if Pick(t, "elabel", 1, 1) == 1 {
				l := g.user("label", rapid.SampledFrom([]string{"calls", "reads from", "1..*", "a much longer connection label here", "ünï", "x"}).Draw(t, "elbl"))
				e.Label = &l
				g.feat("edge_label")
			}
			if o.Styles {
				e.Attrs = append(e.Attrs, g.styles(nil, true)...)
			}
			if Pick(t, "ahead", 4, 1) == 1 {
				side := rapid.SampledFrom([]string{"source-arrowhead", "target-arrowhead"}).Draw(t, "aside")
				e.Attrs = append(e.Attrs, [2]string{side + ".shape", rapid.SampledFrom([]string{"triangle", "arrow", "diamond", "circle", "cf-one", "cf-many", "cf-one-required", "cf-many-required", "box", "cross"}).Draw(t, "ashape")})
				if rapid.Bool().Draw(t, "alabel") {
					e.Attrs = append(e.Attrs, [2]string{side + ".label", QuoteValue(g.user("label", rapid.SampledFrom([]string{"1", "*", "0..1", "ñ"}).Draw(t, "albl")))})
					g.feat("arrowhead_label")
				}
			}
			g.d.Edges = append(g.d.Edges, e)
		}
	}
	g.d.Features["objects"] = len(g.all)
	g.d.Features["edges"] = len(g.d.Edges)
	return g.d
}

func gridOf(n *DNode) *DNode {
	for p := n.parent; p != nil; p = p.parent {
		if p.Special == "grid" {
			return p
		}
	}
	return nil
}

func (n *DNode) print(sb *strings.Builder, indent string) {
	sb.WriteString(indent + n.Key)
	body := len(n.Attrs) > 0 || len(n.Children) > 0 || len(n.Lines) > 0 || n.Shape != "" || n.Near != ""
	if n.Label != nil {
		if n.Block != "" {
			q := "|"
			if strings.Contains(*n.Label, "|") {
				q = "|||"
			}
			sb.WriteString(": " + q + n.Block + "\n" + indentLines(*n.Label, indent+"  ") + "\n" + indent + reversePipe(q))
		} else {
			sb.WriteString(": " + QuoteValue(*n.Label))
		}
	}
	if !body {
		sb.WriteString("\n")
		return
	}
	if n.Label == nil {
		sb.WriteString(":")
	}
	sb.WriteString(" {\n")
	in := indent + "  "
	if n.Shape != "" {
		sb.WriteString(in + "shape: " + n.Shape + "\n")
	}
	if n.Near != "" {
		sb.WriteString(in + "near: " + n.Near + "\n")
	}
	for _, a := range n.Attrs {
		sb.WriteString(in + a[0] + ": " + a[1] + "\n")
	}
	for _, c := range n.Children {
		c.print(sb, in)
	}
	for _, l := range n.Lines {
		sb.WriteString(in + l + "\n")
	}
	sb.WriteString(indent + "}\n")
}

func reversePipe(q string) string { return q }

func indentLines(s, indent string) string {
	ls := strings.Split(s, "\n")
	for i := range ls {
		ls[i] = indent + ls[i]
	}
	return strings.Join(ls, "\n")
}

// Text prints the diagram as D2 source.
func (d *Diagram) Text() string {
	var sb strings.Builder
	for _, a := range d.RootAttrs {
		sb.WriteString(a[0] + ": " + a[1] + "\n")
	}
	for _, n := range d.Root {
		n.print(&sb, "")
	}
	for _, e := range d.Edges {
		sb.WriteString(e.Src + " " + e.Arrow + " " + e.Dst)
		if e.Label != nil {
			sb.WriteString(": " + QuoteValue(*e.Label))
		}
		if len(e.Attrs) > 0 {
			if e.Label == nil {
				sb.WriteString(":")
			}
			sb.WriteString(" {\n")
			for _, a := range e.Attrs {
				sb.WriteString("  " + a[0] + ": " + a[1] + "\n")
			}
			sb.WriteString("}")
		}
		sb.WriteString("\n")
	}
	return sb.String()
}

// AllNodes returns the declared objects in declaration (print) order.
func (d *Diagram) AllNodes() []*DNode {
	var out []*DNode
	var rec func(n *DNode)
	rec = func(n *DNode) {
		out = append(out, n)
		for _, c := range n.Children {
			rec(c)
		}
	}
	for _, n := range d.Root {
		rec(n)
	}
	return out
}
