// Package gen holds the rapid generators shared by all engines.
package gen

import (
	"strings"
	"unicode"

	"pgregory.net/rapid"
)

// ReservedKeywords mirrors the user-facing keyword list of the language (attribute names,
// style names, board keywords). It is written out here on purpose (not imported from d2graph)
// so that a change to d2's tables cannot silently change what the generators cover.
var ReservedKeywords = []string{
	"label", "shape", "icon", "constraint", "tooltip", "link", "near", "width", "height",
	"direction", "top", "left", "grid-rows", "grid-columns", "grid-gap", "vertical-gap",
	"horizontal-gap", "class", "vars", "classes", "style", "desc",
	"source-arrowhead", "target-arrowhead",
	"layers", "scenarios", "steps",
}

var StyleKeywords = []string{
	"opacity", "stroke", "fill", "fill-pattern", "stroke-width", "stroke-dash", "border-radius",
	"font", "font-size", "font-color", "animated", "bold", "italic", "underline", "shadow",
	"multiple", "double-border", "3d", "text-transform",
}

var BoardKeywords = []string{"layers", "scenarios", "steps"}

var ValueKeywords = []string{"null", "true", "false", "suspend", "unsuspend", "_"}

// PlainNames are identifiers that never need quoting.
var PlainNames = []string{"a", "b", "c", "d", "x", "y", "z", "foo", "bar", "ab", "abc", "n1", "n2", "q", "w", "A", "B", "Foo", "aB"}

// HostileNames need quoting/escaping somewhere, or stress case folding.
var HostileNames = []string{
	"a b", " a", "a ", "a.b", "a:b", "a;b", "a#b", "a-b", "a--b", "a->b", "a<-b", "a - b", "-", "--", "->", "<-",
	"a<b", "a>b", "<a>", "*", "a*", "*a", "**", "&", "&a", "!&a", "(", ")", "(a)", "(a -> b)[0]", "@", "@a", "$", "${a}", "$a",
	"{", "}", "{a}", "[", "]", "[a]", "[0]", "'", "\"", "`", "a'b", "a\"b", "a`b", "'a'", "\"a\"", "|", "||", "|a|", "|md a|", "\\", "a\\b", "\\n",
	"a\nb", "a\tb", "\n", "\t", "", " ", "  ", "a  b", "#", "#a", "a #b", "...", "...a", ".", "..", "a.", ".a",
	"1", "1e3", "0x10", "-0", "1.5", "007", "+1", ".5",
	"é", "É", "ß", "σ", "ς", "Σ", "İ", "ı", "K", "Ⱥ", "ⱥ", "ǅ", "ǆ", "Ǆ", "日本語", "한글", "é", "á", "עברית", "𝒳", "😀", "ＡＢ", "ſ", "s",
	"a&b", "a<b>c", "&lt;", "&amp;", "]]>", "<!--", "-->", "<script>", "a=\"b\"", " ", " ", "\ufeff", "a​b",
	"ȺȺȺb", "ΑΒΓ", "straße", "STRASSE",
}

func caseVariants(w string) []string {
	if w == "" {
		return []string{w}
	}
	title := strings.ToUpper(w[:1]) + w[1:]
	mixed := []byte(w)
	for i := range mixed {
		if i%2 == 1 && mixed[i] >= 'a' && mixed[i] <= 'z' {
			mixed[i] -= 32
		}
	}
	return []string{w, strings.ToUpper(w), title, string(mixed)}
}

// KeywordNames: every keyword in lower/UPPER/Title/mIxEd case.
var KeywordNames = func() []string {
	var out []string
	for _, l := range [][]string{ReservedKeywords, StyleKeywords, ValueKeywords} {
		for _, w := range l {
			out = append(out, caseVariants(w)...)
		}
	}
	return out
}()

// AllNames is the union used for exhaustive core enumeration.
var AllNames = func() []string {
	var out []string
	out = append(out, PlainNames...)
	out = append(out, HostileNames...)
	out = append(out, KeywordNames...)
	return out
}()

var hostileRunes = []rune{
	' ', '\t', '\n', '\r', '.', ':', ';', '#', '-', '>', '<', '*', '&', '!', '(', ')', '@', '$', '{', '}', '[', ']',
	'\'', '"', '`', '|', '\\', '_', '0', '1', 'e', 'a', 'b', 'A', 'n', 'u', 'l', 't', 'r', 'x',
	'é', 'ß', 'σ', 'ς', 'İ', 'ı', 'K', 'Ⱥ', 'ⱥ', '日', '́', '𝒳', '😀', ' ', ' ', '\ufeff', 0, 0x7f, '\u0085',
}

// RuneString draws a string of up to max runes biased to syntax-significant runes.
func RuneString(t *rapid.T, max int, label string) string {
	n := rapid.IntRange(0, max).Draw(t, label+"_n")
	var sb strings.Builder
	for i := 0; i < n; i++ {
		switch rapid.IntRange(0, 9).Draw(t, label+"_k") {
		case 0, 1, 2, 3, 4:
			sb.WriteRune(rapid.SampledFrom(hostileRunes).Draw(t, label+"_h"))
		case 5, 6:
			sb.WriteRune(rune(rapid.IntRange('a', 'z').Draw(t, label+"_a")))
		case 7:
			sb.WriteRune(rune(rapid.IntRange(0x20, 0x7e).Draw(t, label+"_p")))
		case 8:
			sb.WriteRune(rapid.Rune().Draw(t, label+"_r"))
		default:
			sb.WriteString(rapid.SampledFrom(KeywordNames).Draw(t, label+"_kw"))
		}
	}
	return sb.String()
}

// Name draws an arbitrary (valid UTF-8) object/board/variable name, never empty unless allowEmpty.
func Name(t *rapid.T, label string) string {
	switch rapid.IntRange(0, 9).Draw(t, label+"_c") {
	case 0, 1, 2:
		return rapid.SampledFrom(PlainNames).Draw(t, label)
	case 3, 4, 5:
		return rapid.SampledFrom(HostileNames).Draw(t, label)
	case 6:
		return rapid.SampledFrom(KeywordNames).Draw(t, label)
	case 7:
		return rapid.SampledFrom(PlainNames).Draw(t, label) + rapid.SampledFrom(HostileNames).Draw(t, label+"2")
	default:
		return RuneString(t, 12, label)
	}
}

// AnyString draws any valid-UTF-8 string for C05-style round trips.
func AnyString(t *rapid.T, max int, label string) string {
	switch rapid.IntRange(0, 9).Draw(t, label+"_c") {
	case 0:
		return rapid.SampledFrom(KeywordNames).Draw(t, label)
	case 1:
		return rapid.SampledFrom(HostileNames).Draw(t, label)
	case 2:
		return rapid.SampledFrom(HostileNames).Draw(t, label) + rapid.SampledFrom(KeywordNames).Draw(t, label+"2")
	case 3:
		return strings.ToValidUTF8(rapid.String().Draw(t, label), "�")
	default:
		return RuneString(t, max, label)
	}
}

// FoldKey maps s to a canonical representative of its simple-case-folding class, so that
// FoldKey(a) == FoldKey(b) exactly when strings.EqualFold(a, b).
func FoldKey(s string) string {
	var sb strings.Builder
	for _, r := range s {
		m := r
		for x := unicode.SimpleFold(r); x != r; x = unicode.SimpleFold(x) {
			if x < m {
				m = x
			}
		}
		sb.WriteRune(m)
	}
	return sb.String()
}
