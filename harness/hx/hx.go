// Package hx is the shared runner of the verification harness: it drives a property
// (enumerated core cases + a seeded rapid campaign), journals the case in flight, counts
// evaluations / distinct non-trivial cases / labels, classifies failures against
// KNOWN_FINDINGS.json, and writes one JSON summary per shard for the python driver.
package hx

import (
	"crypto/sha256"
	"encoding/binary"
	"encoding/json"
	"flag"
	"fmt"
	"os"
	"path/filepath"
	"runtime"
	"runtime/debug"
	"sort"
	"strings"
	"sync"
	"sync/atomic"
	"testing"
	"time"

	"pgregory.net/rapid"
)

var (
	flagTier    = flag.String("verif.tier", "quick", "quick|thorough")
	flagOut     = flag.String("verif.out", "", "directory for shard output (empty: none)")
	flagShard   = flag.Int("verif.shard", 0, "shard index")
	flagNShards = flag.Int("verif.nshards", 1, "number of shards")
	flagReplay  = flag.String("verif.replay", "", "replay one saved case (JSON file)")
	flagKnown   = flag.String("verif.known", "", "path to KNOWN_FINDINGS.json")
	flagSeed    = flag.Int64("verif.seed", 1, "VERIF_SEED (informational; rapid gets its own flag)")
	flagNoRapid = flag.Bool("verif.norapid", false, "core cases only")
	flagCaseTO  = flag.Duration("verif.casetimeout", 0, "override per-case watchdog")
)

// Thorough reports whether the thorough tier was requested.
func Thorough() bool { return *flagTier == "thorough" }

// Pick returns q in the quick tier and th in the thorough tier.
func Pick[T any](q, th T) T {
	if Thorough() {
		return th
	}
	return q
}

// Replaying reports whether a single saved case is being replayed.
func Replaying() bool { return *flagReplay != "" }

func Shard() int   { return *flagShard }
func NShards() int { return *flagNShards }
func Seed() int64  { return *flagSeed }

// Failure is one property violation (or known finding) with the case that produced it.
type Failure struct {
	Sig   string          `json:"sig"`
	Msg   string          `json:"msg"`
	Phase string          `json:"phase"` // core | rapid | replay
	Case  json.RawMessage `json:"case"`
}

type summary struct {
	Prop        string            `json:"prop"`
	Shard       int               `json:"shard"`
	Evaluations int64             `json:"evaluations"`
	CoreCases   int64             `json:"core_cases"`
	NonTrivial  int64             `json:"nontrivial"`
	Labels      map[string]int64  `json:"labels"`
	Rejected    int64             `json:"rejected"`
	Gray        int64             `json:"gray"`
	Excluded    map[string]int64  `json:"excluded_known"`
	KnownSeen   map[string]string `json:"known_seen"` // sig -> first message (from core reproducers)
	Samples     []json.RawMessage `json:"samples"`
	Failures    []Failure         `json:"failures"`
	Extra       map[string]any    `json:"extra,omitempty"`
	RapidDone   bool              `json:"rapid_done"`
	WallS       float64           `json:"wall_s"`
}

// Rec accumulates what a run covered.
type Rec struct {
	mu       sync.Mutex
	s        summary
	hashes   map[uint64]struct{}
	known    map[string]bool // open signatures for this property
	start    time.Time
	journal  *os.File
	caseBeg  atomic.Int64 // unix nanos of case in flight, 0 = none
	timeout  time.Duration
	lastRap  *Failure
	nsamples int
	phase    string
	fuzz     bool // coverage-guided mode: no per-case bookkeeping that grows without bound
}

type knownFile struct {
	Findings []struct {
		Property string `json:"property"`
		Sig      string `json:"sig"`
		Status   string `json:"status"`
	} `json:"findings"`
}

func newRec(prop string, timeout time.Duration) *Rec {
	r := &Rec{hashes: map[uint64]struct{}{}, known: map[string]bool{}, start: time.Now(), timeout: timeout}
	r.s.Prop = prop
	r.s.Shard = *flagShard
	r.s.Labels = map[string]int64{}
	r.s.Excluded = map[string]int64{}
	r.s.KnownSeen = map[string]string{}
	r.s.Extra = map[string]any{}
	if *flagCaseTO > 0 {
		r.timeout = *flagCaseTO
	}
	if *flagKnown != "" {
		b, err := os.ReadFile(*flagKnown)
		if err == nil {
			var kf knownFile
			if json.Unmarshal(b, &kf) == nil {
				for _, f := range kf.Findings {
					if f.Property == prop && f.Status == "open" {
						r.known[f.Sig] = true
					}
				}
			}
		}
	}
	if *flagOut != "" {
		os.MkdirAll(*flagOut, 0o755)
		f, err := os.Create(filepath.Join(*flagOut, fmt.Sprintf("shard%d.current", *flagShard)))
		if err == nil {
			r.journal = f
		}
	}
	if r.timeout > 0 {
		go r.watchdog()
	}
	return r
}

func (r *Rec) watchdog() {
	for {
		time.Sleep(500 * time.Millisecond)
		b := r.caseBeg.Load()
		if b != 0 && time.Since(time.Unix(0, b)) > r.timeout {
			// The case in flight is in the journal; tell the driver it hung.
			if *flagOut != "" {
				os.WriteFile(filepath.Join(*flagOut, fmt.Sprintf("shard%d.hang", *flagShard)), []byte(r.timeout.String()), 0o644)
			}
			fmt.Fprintf(os.Stderr, "hx: watchdog: case exceeded %s\n", r.timeout)
			os.Exit(3)
		}
	}
}

func (r *Rec) begin(caseJSON []byte) {
	if r.journal != nil {
		r.journal.Truncate(0)
		r.journal.WriteAt(caseJSON, 0)
	}
	r.caseBeg.Store(time.Now().UnixNano())
}

func (r *Rec) end() { r.caseBeg.Store(0) }

func (r *Rec) flush() {
	r.mu.Lock()
	defer r.mu.Unlock()
	if r.lastRap != nil {
		r.s.Failures = append(r.s.Failures, *r.lastRap)
		r.lastRap = nil
	}
	r.s.NonTrivial = int64(len(r.hashes))
	r.s.WallS = time.Since(r.start).Seconds()
	if *flagOut == "" {
		return
	}
	b, _ := json.Marshal(&r.s)
	os.WriteFile(filepath.Join(*flagOut, fmt.Sprintf("shard%d.json", *flagShard)), b, 0o644)
	hs := make([]uint64, 0, len(r.hashes))
	for h := range r.hashes {
		hs = append(hs, h)
	}
	sort.Slice(hs, func(i, j int) bool { return hs[i] < hs[j] })
	buf := make([]byte, 8*len(hs))
	for i, h := range hs {
		binary.LittleEndian.PutUint64(buf[8*i:], h)
	}
	os.WriteFile(filepath.Join(*flagOut, fmt.Sprintf("shard%d.hashes", *flagShard)), buf, 0o644)
	if r.journal != nil {
		r.journal.Close()
		os.Remove(r.journal.Name())
	}
}

// H is handed to a property for one case.
type H struct {
	r        *Rec
	rt       *rapid.T // nil outside the rapid phase
	caseJSON []byte
	failed   bool
	nt       bool
	labels   []string
	skipped  bool
	knownHit bool
}

type skipSignal struct{}

// Label adds distribution labels for this case.
func (h *H) Label(ls ...string) { h.labels = append(h.labels, ls...) }

// NonTrivial marks this case as non-trivial by the property's stated rule.
func (h *H) NonTrivial(b bool) {
	if b {
		h.nt = true
	}
}

// Gray counts an outcome the statement leaves open (accepted, not asserted).
func (h *H) Gray() {
	h.r.mu.Lock()
	h.r.s.Gray++
	h.r.mu.Unlock()
}

// Reject discards the case as outside the property's domain (counted).
func (h *H) Reject(why string) {
	h.r.mu.Lock()
	h.r.s.Rejected++
	h.r.s.Labels["rejected:"+why]++
	h.r.mu.Unlock()
	h.skipped = true
	panic(skipSignal{})
}

// Extra stores a per-check extra value into the evidence (last write wins per key).
func (h *H) Extra(k string, v any) {
	h.r.mu.Lock()
	h.r.s.Extra[k] = v
	h.r.mu.Unlock()
}

// AddExtra adds n to a numeric extra counter.
func (h *H) AddExtra(k string, n int64) {
	h.r.mu.Lock()
	cur, _ := h.r.s.Extra[k].(int64)
	h.r.s.Extra[k] = cur + n
	h.r.mu.Unlock()
}

type failSignal struct{}

// FailSoft is Failf, except that for a listed open known finding it returns (so the rest
// of the case is still checked) instead of abandoning the case.
func (h *H) FailSoft(sig string, format string, args ...any) {
	r := h.r
	r.mu.Lock()
	if r.known[sig] {
		r.s.Excluded[sig]++
		if _, ok := r.s.KnownSeen[sig]; !ok && r.phase == "core" {
			r.s.KnownSeen[sig] = fmt.Sprintf(format, args...)
		}
		r.mu.Unlock()
		h.knownHit = true
		return
	}
	r.mu.Unlock()
	h.Failf(sig, format, args...)
}

// Failf reports a violation of the property with a classification signature. If the
// signature is listed as an open known finding the case is counted as excluded and
// execution of the case stops quietly; otherwise the case fails.
func (h *H) Failf(sig string, format string, args ...any) {
	msg := fmt.Sprintf(format, args...)
	r := h.r
	r.mu.Lock()
	if r.known[sig] {
		r.s.Excluded[sig]++
		if _, ok := r.s.KnownSeen[sig]; !ok && r.phase == "core" {
			r.s.KnownSeen[sig] = msg
		}
		r.mu.Unlock()
		h.skipped = true
		panic(skipSignal{})
	}
	f := Failure{Sig: sig, Msg: msg, Phase: r.phase, Case: append(json.RawMessage(nil), h.caseJSON...)}
	if h.rt != nil {
		r.lastRap = &f
	} else {
		r.s.Failures = append(r.s.Failures, f)
	}
	r.mu.Unlock()
	h.failed = true
	panic(failSignal{})
}

// PanicSig derives a signature from a recovered panic: "panic:<innermost d2 frame>".
func PanicSig(stack []byte) string {
	lines := strings.Split(string(stack), "\n")
	for _, l := range lines {
		l = strings.TrimSpace(l)
		if strings.HasPrefix(l, "oss.terrastruct.com/d2/") {
			if i := strings.LastIndex(l, "("); i > 0 {
				l = l[:i]
			}
			l = strings.TrimPrefix(l, "oss.terrastruct.com/d2/")
			return "panic:" + l
		}
	}
	return "panic:unknown"
}

// Spec describes one property check over cases of type C (JSON-serialisable).
type Spec[C any] struct {
	Prop    string
	Core    func() []C
	Gen     func(t *rapid.T) C
	Check   func(h *H, c C)
	Timeout time.Duration // per-case watchdog (0: none)
	// ClassifyPanic may refine the signature of a recovered panic using the case.
	ClassifyPanic func(sig string, c C) string
	// SampleEvery keeps roughly this many samples (default 6).
}

func hashOf(b []byte) uint64 {
	s := sha256.Sum256(b)
	return binary.LittleEndian.Uint64(s[:8])
}

func runCase[C any](r *Rec, rt *rapid.T, s *Spec[C], c C) (failed bool, msg string) {
	cj, err := json.Marshal(c)
	if err != nil {
		panic("hx: case not serialisable: " + err.Error())
	}
	h := &H{r: r, rt: rt, caseJSON: cj}
	r.begin(cj)
	func() {
		defer func() {
			if x := recover(); x != nil {
				switch x.(type) {
				case skipSignal:
				case failSignal:
				default:
					st := debug.Stack()
					sig := PanicSig(st)
					if s.ClassifyPanic != nil {
						sig = s.ClassifyPanic(sig, c)
					}
					func() {
						defer func() {
							if y := recover(); y != nil {
								if _, ok := y.(failSignal); !ok {
									if _, ok2 := y.(skipSignal); !ok2 {
										panic(y)
									}
								}
							}
						}()
						h.Failf(sig, "panic: %v\n%s", x, trimStack(st))
					}()
				}
			}
		}()
		s.Check(h, c)
	}()
	r.end()
	r.mu.Lock()
	r.s.Evaluations++
	if !h.failed && !h.skipped {
		for _, l := range h.labels {
			r.s.Labels[l]++
		}
		if h.nt && r.fuzz {
			r.s.NonTrivial++
		} else if h.nt {
			hv := hashOf(cj)
			if _, ok := r.hashes[hv]; !ok {
				r.hashes[hv] = struct{}{}
				// keep the first, then a thinning sample
				n := len(r.hashes)
				if len(r.s.Samples) < 3 || (len(r.s.Samples) < 8 && n&(n-1) == 0) {
					if len(cj) < 6000 {
						r.s.Samples = append(r.s.Samples, append(json.RawMessage(nil), cj...))
					}
				}
			}
		}
	}
	var m string
	if h.failed {
		if rt != nil && r.lastRap != nil {
			m = r.lastRap.Sig + ": " + r.lastRap.Msg
		} else if n := len(r.s.Failures); n > 0 {
			m = r.s.Failures[n-1].Sig + ": " + r.s.Failures[n-1].Msg
		}
	}
	r.mu.Unlock()
	return h.failed, m
}

func trimStack(st []byte) string {
	lines := strings.Split(string(st), "\n")
	var out []string
	for i := 0; i < len(lines); i++ {
		if strings.Contains(lines[i], "oss.terrastruct.com/d2/") || strings.Contains(lines[i], "/repo/") {
			out = append(out, lines[i])
		}
		if len(out) > 16 {
			break
		}
	}
	return strings.Join(out, "\n")
}

// loadCases reads the committed reproducers of a property: $VERIF_ROOT/findings/<prop>/*.json
// and $VERIF_ROOT/corpus/<prop>/*.json, each {"case": ...}.
func loadCases[C any](prop string) []C {
	root := os.Getenv("VERIF_ROOT")
	if root == "" {
		root = "/verif"
	}
	var out []C
	for _, dir := range []string{"findings", "corpus"} {
		files, _ := filepath.Glob(filepath.Join(root, dir, prop, "*.json"))
		sort.Strings(files)
		for _, f := range files {
			b, err := os.ReadFile(f)
			if err != nil {
				continue
			}
			var env struct {
				Case json.RawMessage `json:"case"`
			}
			if json.Unmarshal(b, &env) != nil || env.Case == nil {
				continue
			}
			var c C
			if json.Unmarshal(env.Case, &c) == nil {
				out = append(out, c)
			}
		}
	}
	return out
}

// Run executes the spec: replay mode, or core cases followed by the rapid campaign.
// Fuzz drives the same Check with Go's coverage-guided fuzzer (thorough tier only; a campaign
// cannot be pinned to a seed, the saved failing input is the reproducible unit). decode maps
// raw bytes to a case; a failing case is written as a replay file into $VERIF_FUZZ_OUT before
// the fuzz worker reports it, so it replays through `./check <ID> --replay` like any other.
func Fuzz[C any](f *testing.F, s Spec[C], seeds [][]byte, decode func([]byte) (C, bool)) {
	r := newRec(s.Prop, s.Timeout)
	r.fuzz = true
	r.phase = "fuzz"
	if r.journal != nil && *flagOut != "" {
		// one journal per fuzz worker process
		r.journal.Close()
		os.Remove(r.journal.Name())
		if jf, err := os.Create(filepath.Join(*flagOut, fmt.Sprintf("fuzz-%d.current", os.Getpid()))); err == nil {
			r.journal = jf
		} else {
			r.journal = nil
		}
	}
	for _, sd := range seeds {
		f.Add(sd)
	}
	out := os.Getenv("VERIF_FUZZ_OUT")
	f.Fuzz(func(t *testing.T, data []byte) {
		c, ok := decode(data)
		if !ok {
			return
		}
		failed, msg := runCase(r, nil, &s, c)
		if !failed {
			return
		}
		r.mu.Lock()
		var fl Failure
		if n := len(r.s.Failures); n > 0 {
			fl = r.s.Failures[n-1]
			r.s.Failures = r.s.Failures[:0]
		}
		r.mu.Unlock()
		if out != "" {
			os.MkdirAll(out, 0o755)
			b, _ := json.Marshal(map[string]any{"property": s.Prop, "sig": fl.Sig, "msg": fl.Msg, "phase": "fuzz", "case": fl.Case})
			os.WriteFile(filepath.Join(out, fmt.Sprintf("%s-fuzz-%016x.json", s.Prop, hashOf(fl.Case))), b, 0o644)
		}
		t.Fatalf("%s", firstLine(msg))
	})
}

func Run[C any](t *testing.T, s Spec[C]) {
	r := newRec(s.Prop, s.Timeout)
	defer r.flush()
	if *flagReplay != "" {
		r.phase = "replay"
		b, err := os.ReadFile(*flagReplay)
		if err != nil {
			t.Fatalf("replay: %v", err)
		}
		var env struct {
			Case json.RawMessage `json:"case"`
		}
		if err := json.Unmarshal(b, &env); err != nil || env.Case == nil {
			t.Fatalf("replay: bad file: %v", err)
		}
		var c C
		if err := json.Unmarshal(env.Case, &c); err != nil {
			t.Fatalf("replay: bad case: %v", err)
		}
		if failed, msg := runCase(r, nil, &s, c); failed {
			t.Errorf("REPLAY-FAIL %s", msg)
		} else {
			r.mu.Lock()
			for sig, n := range r.s.Excluded {
				if n > 0 {
					fmt.Printf("REPLAY-KNOWN %s\n", sig)
				}
			}
			r.mu.Unlock()
			fmt.Println("REPLAY-PASS")
		}
		return
	}
	r.phase = "core"
	{
		var cs []C
		cs = append(cs, loadCases[C](s.Prop)...)
		if s.Core != nil {
			cs = append(cs, s.Core()...)
		}
		for i, c := range cs {
			if i%*flagNShards != *flagShard {
				continue
			}
			r.s.CoreCases++
			if failed, msg := runCase(r, nil, &s, c); failed {
				t.Errorf("core case %d: %s", i, firstLine(msg))
			}
		}
	}
	if *flagNoRapid || s.Gen == nil {
		r.s.RapidDone = true
		return
	}
	r.phase = "rapid"
	runtime.GC()
	// a sub-test: rapid refuses to start on a *testing.T that a core case already failed
	t.Run("rapid", func(t *testing.T) {
		rapid.Check(t, func(rt *rapid.T) {
			c := s.Gen(rt)
			if failed, msg := runCase(r, rt, &s, c); failed {
				rt.Fatalf("%s", firstLine(msg))
			}
		})
		r.s.RapidDone = true
	})
}

func firstLine(s string) string {
	if i := strings.IndexByte(s, '\n'); i >= 0 {
		return s[:i]
	}
	return s
}
