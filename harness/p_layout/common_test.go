package p_layout

import (
	"fmt"
	"math"
	"strings"

	"oss.terrastruct.com/d2/d2compiler"
	"oss.terrastruct.com/d2/d2graph"
	"oss.terrastruct.com/d2/d2layouts/d2sequence"
	"oss.terrastruct.com/d2/d2renderers/d2svg"
	"oss.terrastruct.com/d2/d2target"
	"oss.terrastruct.com/d2/lib/geo"
	"pgregory.net/rapid"

	"verif/harness/gen"
	"verif/harness/hx"
	"verif/harness/lay"
)

// layCase is one diagram laid out with one engine.
type layCase struct {
	Text   string `json:"text"`
	Engine string `json:"engine"`
	Kind   string `json:"kind"`
	Pad    int64  `json:"pad,omitempty"`
}

func engineOf(t *rapid.T) string {
	// ELK costs ~5x dagre: draw it less often
	if gen.Pick(t, "engine", 3, 1) == 1 {
		return "elk"
	}
	return "dagre"
}

func bothEngines(texts []string, kind string) []layCase {
	var out []layCase
	for _, s := range texts {
		out = append(out, layCase{Text: s, Engine: "dagre", Kind: kind}, layCase{Text: s, Engine: "elk", Kind: kind})
	}
	return out
}

// jsHostile: names that the dagre layout pastes into a JavaScript template literal.
func jsHostile(text string) bool {
	return strings.Contains(text, "`") || strings.Contains(text, "${")
}

// runLayout lays the case out; on failure the case is rejected (C17 owns layout failures)
// unless strict is set.
func runLayout(h *hx.H, c layCase) (*d2target.Diagram, *d2graph.Graph) {
	var ro *d2svg.RenderOpts
	if c.Pad != 0 {
		ro = &d2svg.RenderOpts{Pad: &c.Pad}
	}
	d, g, err := lay.Run(c.Text, c.Engine, ro)
	if err != nil {
		h.Reject("layout-or-compile-error")
	}
	return d, g
}

func eachBoard(d *d2target.Diagram, g *d2graph.Graph, path string, f func(path string, d *d2target.Diagram, g *d2graph.Graph)) {
	f(path, d, g)
	for i, l := range d.Layers {
		if i < len(g.Layers) {
			eachBoard(l, g.Layers[i], path+".layers."+l.Name, f)
		}
	}
	for i, l := range d.Scenarios {
		if i < len(g.Scenarios) {
			eachBoard(l, g.Scenarios[i], path+".scenarios."+l.Name, f)
		}
	}
	for i, l := range d.Steps {
		if i < len(g.Steps) {
			eachBoard(l, g.Steps[i], path+".steps."+l.Name, f)
		}
	}
}

func finite(xs ...float64) bool {
	for _, x := range xs {
		if math.IsNaN(x) || math.IsInf(x, 0) {
			return false
		}
	}
	return true
}

func inSequence(o *d2graph.Object) bool { return o.OuterSequenceDiagram() != nil }

func isLifelineEdge(e *d2graph.Edge) bool {
	return e.Dst != nil && d2sequence.IsLifelineEnd(e.Dst)
}

func featLabels(h *hx.H, d *gen.Diagram) {
	for k, v := range d.Features {
		if v > 0 && !strings.HasPrefix(k, "shape:") && k != "objects" && k != "edges" {
			h.Label("has:" + k)
		}
	}
}

// diagramFeatureLabels derives distribution labels from the text (replayable).
func textFeatureLabels(h *hx.H, text string) {
	add := func(cond bool, l string) {
		if cond {
			h.Label(l)
		}
	}
	add(strings.Contains(text, "grid-rows") || strings.Contains(text, "grid-columns"), "has:grid")
	add(strings.Contains(text, "sequence_diagram"), "has:sequence")
	add(strings.Contains(text, "near: top-") || strings.Contains(text, "near: bottom-") || strings.Contains(text, "near: center-"), "has:near_const")
	add(strings.Contains(text, "label.near"), "has:label_near")
	add(strings.Contains(text, "icon:"), "has:icon")
	add(strings.Contains(text, "sql_table") || strings.Contains(text, "shape: class"), "has:table")
	add(strings.Contains(text, "style.multiple") || strings.Contains(text, "style.3d"), "has:3d_multiple")
	add(strings.Contains(text, "|md") || strings.Contains(text, "|latex") || strings.Contains(text, "|go"), "has:block_label")
	add(strings.Contains(text, "direction:"), "has:direction")
	add(strings.Contains(text, "width:") || strings.Contains(text, "height:"), "has:explicit_size")
	nonASCII := false
	for i := 0; i < len(text); i++ {
		if text[i] >= 0x80 {
			nonASCII = true
		}
	}
	add(nonASCII, "has:non_ascii")
	add(strings.Contains(text, "\""), "has:quoted")
}

func genLayCase(t *rapid.T, o gen.DiagramOpts, kind string) layCase {
	d := gen.GenDiagram(t, o)
	return layCase{Text: d.Text(), Engine: engineOf(t), Kind: kind}
}

// layoutSnippets exercise each special construct at least once per property.
var layoutSnippets = []string{
	"a -> b -> c\nb -> a",
	"a: {b: {c: {d}}}\na.b.c.d -> e\ne -> a",
	"x: {a; b; c}\ny: {d; e}\nx.a -> y.d\nx -> y: between containers\nx.b -> x.b: self",
	"g: {grid-rows: 2; a; b; c; d: {e; f}}\ng.a -> g.b\nh -> g",
	"g: {grid-columns: 3; grid-gap: 10; a: {width: 100; height: 50}; b; c; d; e}",
	"s: {shape: sequence_diagram; alice; bob; alice -> bob: hi; bob -> alice: yo; alice.t -> bob.t2; bob -> bob: self}\nq -> s",
	"shape: sequence_diagram\na; b; c\na -> b: 1\nb -> c: 2\nc -> a: 3\na.note: hello",
	"main: {a -> b}\nt: title {near: top-center}\nl: legend {near: bottom-right; x; y}\nk: {near: center-left}",
	"direction: right\na: {shape: circle}\nb: {shape: diamond}\nc: {shape: cloud}\nd: {shape: cylinder}\na -> b -> c -> d -> a",
	"c: {shape: class; +f: int; g(): void}\nt: {shape: sql_table; id: int {constraint: primary_key}; v: text}\nc -> t\nt.id -> c",
	"a: {style.multiple: true}\nb: {style.3d: true}\nc: {shape: hexagon; style.3d: true}\na -> b -> c -> a",
	"a: {label.near: outside-top-center; icon: https://icons.terrastruct.com/essentials/004-picture.svg; icon.near: outside-left-center}\nb: {label.near: bottom-right}\na -> b",
	"a: |md # Title\n\ntext |\nb: |go\nfunc main() {}\n|\nc: |latex \\frac{a}{b} |\na -> b -> c",
	"a -> b: {source-arrowhead: {shape: diamond; label: 1}; target-arrowhead: {shape: cf-many; label: N}}",
	"layers: {l1: {a -> b}; l2: {c: {d}}}\nscenarios: {s: {x -> y}}\nroot1 -> root2",
	"a: {width: 300; height: 20}\nb: {width: 10; height: 400}\nc: {shape: circle; width: 77}\na -> b -> c",
	"a: {near: b}\nb\nc -> b",
	"x: {shape: image; icon: https://icons.terrastruct.com/essentials/004-picture.svg}\ny: {shape: text}\nz: {shape: code}\nx -> y -> z",
	"\"a b\" -> \"c.d\" -> é -> 日本語 -> \"q\\\"r\"",
}

func compileOnly(text string) (*d2graph.Graph, *d2target.Config, error) {
	return d2compiler.Compile("index.d2", strings.NewReader(text), nil)
}

var _ = fmt.Sprint

type geoPoint = geo.Point
