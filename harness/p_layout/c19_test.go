package p_layout

import (
	"math"
	"strings"
	"testing"
	"time"

	"oss.terrastruct.com/d2/d2graph"
	"oss.terrastruct.com/d2/d2target"
	"pgregory.net/rapid"

	"verif/harness/gen"
	"verif/harness/hx"
)

// C19: containers enclose their children and siblings do not overlap (1 px tolerance).
const tolC19 = 1.0

func checkC19(h *hx.H, c layCase) {
	h.Label("engine:"+c.Engine, "kind:"+c.Kind)
	textFeatureLabels(h, c.Text)
	d, g := runLayout(h, c)
	rich := false
	eachBoard(d, g, "root", func(bp string, bd *d2target.Diagram, bg *d2graph.Graph) {
		if bg.Root.IsSequenceDiagram() {
			return
		}
		check := func(parent *d2graph.Object) {
			kids := parent.ChildrenArray
			if parent.IsSequenceDiagram() {
				return // drawn along lifelines: covered by C23
			}
			if parent != bg.Root {
				for _, k := range kids {
					if k.TopLeft.X < parent.TopLeft.X-tolC19 || k.TopLeft.Y < parent.TopLeft.Y-tolC19 ||
						k.TopLeft.X+k.Width > parent.TopLeft.X+parent.Width+tolC19 || k.TopLeft.Y+k.Height > parent.TopLeft.Y+parent.Height+tolC19 {
						h.FailSoft(c19sig(c, "child-outside-container", kindOfPair(parent, k)), "%s (%s): %s [%.1f,%.1f %.1fx%.1f] is not inside its container %s [%.1f,%.1f %.1fx%.1f]\n%s", bp, c.Engine,
							k.AbsID(), k.TopLeft.X, k.TopLeft.Y, k.Width, k.Height, parent.AbsID(), parent.TopLeft.X, parent.TopLeft.Y, parent.Width, parent.Height, c.Text)
					}
				}
			}
			for i := range kids {
				for j := i + 1; j < len(kids); j++ {
					a, b := kids[i], kids[j]
					ox := math.Min(a.TopLeft.X+a.Width, b.TopLeft.X+b.Width) - math.Max(a.TopLeft.X, b.TopLeft.X)
					oy := math.Min(a.TopLeft.Y+a.Height, b.TopLeft.Y+b.Height) - math.Max(a.TopLeft.Y, b.TopLeft.Y)
					if a.NearKey != nil || b.NearKey != nil {
						continue // placement of near shapes (also several at one position) is C24's subject
					}
					if ox > tolC19 && oy > tolC19 {
						sig := "siblings-overlap"
						kind := kindOfPair(a, b)
						if kind == "plain" {
							kind = kindOfPair(b, a)
						}
						if parent != bg.Root && kind == "plain" {
							kind = parentKind(parent)
						}
						h.FailSoft(c19sig(c, sig, kind), "%s (%s): siblings %s [%.1f,%.1f %.1fx%.1f] and %s [%.1f,%.1f %.1fx%.1f] overlap by %.1f x %.1f\n%s", bp, c.Engine,
							a.AbsID(), a.TopLeft.X, a.TopLeft.Y, a.Width, a.Height, b.AbsID(), b.TopLeft.X, b.TopLeft.Y, b.Width, b.Height, ox, oy, c.Text)
					}
				}
			}
			if (parent != bg.Root && len(kids) >= 2) || (parent == bg.Root && len(kids) >= 4) {
				rich = true
			}
		}
		check(bg.Root)
		for _, o := range bg.Objects {
			if len(o.ChildrenArray) > 0 && !inSequence(o) {
				check(o)
			}
		}
	})
	h.NonTrivial(rich)
}

// genLeafStack: root-level leaves (optionally inside one plain container), most of them not
// connected, with tall labels (3-4 lines) or icons placed outside / at the top or bottom, any
// root direction, both engines: the space such labels need is added by shifting shapes after
// the engine ran, and everything stacked next to a shifted shape has to move along.
func genLeafStack(t *rapid.T) layCase {
	var sb strings.Builder
	if d := rapid.SampledFrom([]string{"", "up", "down", "left", "right", "right"}).Draw(t, "dir"); d != "" {
		sb.WriteString("direction: " + d + "\n")
	}
	n := rapid.IntRange(3, 6).Draw(t, "n")
	pre, ind := "", ""
	if rapid.IntRange(0, 3).Draw(t, "boxed") == 0 {
		sb.WriteString("box: {\n")
		pre, ind = "box.", "  "
	}
	pos := []string{"outside-top-center", "outside-top-left", "outside-bottom-center", "outside-bottom-right", "top-center", "bottom-center", "outside-left-center", "outside-right-center"}
	for i := 0; i < n; i++ {
		lbl := rapid.SampledFrom([]string{"x", "node", "l1\\nl2\\nl3", "l1\\nl2\\nl3\\nl4", "a longer label\\nsecond line\\nthird"}).Draw(t, "lbl")
		sb.WriteString(ind + "n" + string(rune('0'+i)) + ": \"" + lbl + "\" {\n")
		switch rapid.IntRange(0, 4).Draw(t, "deco") {
		case 0, 1:
			sb.WriteString(ind + "  label.near: " + rapid.SampledFrom(pos).Draw(t, "lnear") + "\n")
		case 2:
			sb.WriteString(ind + "  icon: https://icons.terrastruct.com/essentials/004-picture.svg\n" + ind + "  icon.near: " + rapid.SampledFrom(pos[:4]).Draw(t, "inear") + "\n")
		}
		sb.WriteString(ind + "}\n")
	}
	if pre != "" {
		sb.WriteString("}\n")
	}
	ne := rapid.IntRange(0, 2).Draw(t, "ne")
	for i := 0; i < ne; i++ {
		a, b := rapid.IntRange(0, n-1).Draw(t, "ea"), rapid.IntRange(0, n-1).Draw(t, "eb")
		if a != b {
			sb.WriteString(pre + "n" + string(rune('0'+a)) + " -> " + pre + "n" + string(rune('0'+b)) + "\n")
		}
	}
	return layCase{Text: sb.String(), Engine: rapid.SampledFrom([]string{"dagre", "dagre", "elk"}).Draw(t, "eng"), Kind: "leafstack"}
}

func genC19(t *rapid.T) layCase {
	if gen.Pick(t, "leafstack", 3, 1) == 1 {
		return genLeafStack(t)
	}
	if gen.Pick(t, "tame", 3, 1) == 0 {
		return genLayCase(t, gen.TameDiagramOpts(), "tame")
	}
	o := gen.LayoutDiagramOpts()
	o.Links = false
	return genLayCase(t, o, "diagram")
}

func TestC19(t *testing.T) {
	hx.Run(t, hx.Spec[layCase]{Prop: "C19", Core: func() []layCase { return bothEngines(layoutSnippets, "snippet") }, Gen: genC19, Check: checkC19, Timeout: 180 * time.Second})
}

// parentKind names the first "exotic" trait of the container (or of one of its ancestors)
// in whose coordinate space the failure occurs. Plain rectangular containers give "plain".
func parentKind(p *d2graph.Object) string {
	if p.Parent == nil {
		// root level: look at the two siblings' own traits instead (done by the caller's message)
		return "root"
	}
	for q := p; q != nil && q.Parent != nil; q = q.Parent {
		switch {
		case q.Shape.Value != "" && q.Shape.Value != "rectangle":
			return "nonrect-container"
		case q.IsGridDiagram():
			return "grid"
		case q.Parent.IsGridDiagram():
			return "gridcell"
		case q.NearKey != nil:
			return "near"
		case q.LabelPosition != nil && q.Attributes.LabelPosition != nil:
			return "label-positioned-container"
		case q.Icon != nil:
			return "icon-container"
		}
		if q.Direction.Value != "" {
			return "nested-direction"
		}
		for _, e := range q.Graph.Edges {
			if e.Src == q && e.Dst == q {
				return "self-loop-container"
			}
		}
		for _, e := range q.Graph.Edges {
			if (e.Src == q || e.Dst == q) && len(q.ChildrenArray) > 0 {
				return "container-edge-endpoint"
			}
		}
	}
	return "plain"
}

// kindOfPair combines the traits of a container and the child (or of two siblings) involved.
func kindOfPair(a, b *d2graph.Object) string {
	ka, kb := parentKind(a), "plain"
	if b != nil {
		if len(b.ChildrenArray) > 0 {
			kb = parentKind(b)
		} else if b.Parent != nil {
			kb = "plain"
		}
	}
	if ka != "plain" && ka != "root" {
		return ka
	}
	if kb != "plain" && kb != "root" {
		return kb
	}
	return "plain"
}

// c19sig: failures on tame diagrams (and on the hand-written core) keep their precise kind and
// are violations; on the unrestricted generator they are attributed to the known weakness of
// the layout engines with decorated / non-rectangular / connected containers.
func c19sig(c layCase, base, kind string) string {
	if c.Kind == "leafstack" {
		return base + ":leafstack:" + kind
	}
	if c.Kind == "tame" || c.Kind == "snippet" {
		if c.Engine == "dagre" && (strings.HasPrefix(c.Text, "direction: right") || strings.HasPrefix(c.Text, "direction: left")) && strings.Contains(c.Text, "\n    ") {
			// dagre, horizontal root direction, containers nested >= 2 deep: the growth of nested
			// containers is not propagated to the placement of their siblings
			return base + ":horizontal-direction-nesting"
		}
		return base + ":" + kind
	}
	return base + "@unrestricted-diagram"
}
