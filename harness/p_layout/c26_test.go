package p_layout

import (
	"bytes"
	"regexp"
	"context"
	"encoding/json"
	"fmt"
	"testing"
	"time"

	"oss.terrastruct.com/d2/d2graph"
	"oss.terrastruct.com/d2/d2layouts/d2dagrelayout"
	"oss.terrastruct.com/d2/d2layouts/d2elklayout"
	"oss.terrastruct.com/d2/d2lib"
	"oss.terrastruct.com/d2/d2renderers/d2svg"
	"pgregory.net/rapid"

	"verif/harness/canon"
	"verif/harness/gen"
	"verif/harness/hx"
	"verif/harness/lay"
)

// C26: the layout-plugin wire format round-trips graphs exactly.
type geoSnap struct {
	Objects []string `json:"objects"`
	Edges   []string `json:"edges"`
}

func fp(f *float64) string {
	if f == nil {
		return "nil"
	}
	return fmt.Sprintf("%v", *f)
}

func sp(s *string) string {
	if s == nil {
		return "nil"
	}
	return *s
}

func geometry(g *d2graph.Graph) geoSnap {
	var s geoSnap
	for _, o := range g.Objects {
		box := "nobox"
		if o.Box != nil && o.TopLeft != nil {
			box = fmt.Sprintf("%v,%v %vx%v", o.TopLeft.X, o.TopLeft.Y, o.Width, o.Height)
		}
		s.Objects = append(s.Objects, fmt.Sprintf("%s|%s|lp=%s|ip=%s|ld=%dx%d|car=%s|z=%d", o.AbsID(), box, sp(o.LabelPosition), sp(o.IconPosition), o.LabelDimensions.Width, o.LabelDimensions.Height, fp(o.ContentAspectRatio), o.ZIndex))
	}
	for _, e := range g.Edges {
		r := ""
		for _, p := range e.Route {
			r += fmt.Sprintf("(%v,%v)", p.X, p.Y)
		}
		s.Edges = append(s.Edges, fmt.Sprintf("%s|curve=%v|route=%s|lp=%s|lpct=%s|ld=%dx%d|sci=%v|dci=%v|z=%d", e.AbsID(), e.IsCurve, r, sp(e.LabelPosition), fp(e.LabelPercentage), e.LabelDimensions.Width, e.LabelDimensions.Height, ip(e.SrcTableColumnIndex), ip(e.DstTableColumnIndex), e.ZIndex))
	}
	return s
}

func ip(i *int) string {
	if i == nil {
		return "nil"
	}
	return fmt.Sprint(*i)
}

func roundTrip(g *d2graph.Graph) (*d2graph.Graph, error) {
	b, err := d2graph.SerializeGraph(g)
	if err != nil {
		return nil, fmt.Errorf("serialize: %w", err)
	}
	var g2 d2graph.Graph
	if err := d2graph.DeserializeGraph(b, &g2); err != nil {
		return nil, fmt.Errorf("deserialize: %w", err)
	}
	return &g2, nil
}

func compareGraphs(h *hx.H, stage string, a, b *d2graph.Graph, text string) {
	ca, cb := canon.Of(a), canon.Of(b)
	// boards are not part of the wire format (each board is laid out separately)
	ca.Layers, ca.Scenarios, ca.Steps, cb.Layers, cb.Scenarios, cb.Steps = nil, nil, nil, nil, nil, nil
	ca.Name, cb.Name, ca.IsFolderOnly, cb.IsFolderOnly = "", "", false, false
	ca.LegendLabel, ca.LegendObjs, ca.LegendEdges, cb.LegendLabel, cb.LegendObjs, cb.LegendEdges = "", nil, nil, "", nil, nil
	if d := canon.Diff(ca, cb); d != "" {
		h.Failf("roundtrip-differs:"+stage, "Deserialize(Serialize(g)) differs from g %s layout: %s\n%s", stage, d, text)
	}
	ga, gb := geometry(a), geometry(b)
	ja, _ := json.Marshal(ga)
	jb, _ := json.Marshal(gb)
	if !bytes.Equal(ja, jb) {
		for i := range ga.Objects {
			if i < len(gb.Objects) && ga.Objects[i] != gb.Objects[i] {
				h.Failf("roundtrip-geometry:"+stage, "geometry of an object changed in the round trip %s layout:\n  %s\n  %s\n%s", stage, ga.Objects[i], gb.Objects[i], text)
			}
		}
		for i := range ga.Edges {
			if i < len(gb.Edges) && ga.Edges[i] != gb.Edges[i] {
				h.Failf("roundtrip-geometry:"+stage, "geometry of a connection changed in the round trip %s layout:\n  %s\n  %s\n%s", stage, ga.Edges[i], gb.Edges[i], text)
			}
		}
		h.Failf("roundtrip-geometry:"+stage, "geometry lists differ in length %s layout\n%s", stage, text)
	}
}

var hashRe = regexp.MustCompile(`d2-\d+`)

// wire wraps a layout engine into exactly what exec.go / serve.go do around a plugin.
func wire(inner d2graph.LayoutGraph) d2graph.LayoutGraph {
	return func(ctx context.Context, g *d2graph.Graph) error {
		b, err := d2graph.SerializeGraph(g)
		if err != nil {
			return err
		}
		var g2 d2graph.Graph
		if err := d2graph.DeserializeGraph(b, &g2); err != nil {
			return err
		}
		if err := inner(ctx, &g2); err != nil {
			return err
		}
		b2, err := d2graph.SerializeGraph(&g2)
		if err != nil {
			return err
		}
		return d2graph.DeserializeGraph(b2, g)
	}
}

func renderVia(text, engine string, lg d2graph.LayoutGraph) ([]byte, *d2graph.Graph, error) {
	eng := engine
	ro := &d2svg.RenderOpts{}
	d, g, err := d2lib.Compile(lay.Ctx(), text, &d2lib.CompileOptions{Ruler: lay.NewRuler(), Layout: &eng,
		LayoutResolver: func(string) (d2graph.LayoutGraph, error) { return lg, nil }}, ro)
	if err != nil {
		return nil, nil, err
	}
	svg, err := d2svg.Render(d, ro)
	return svg, g, err
}

func checkC26(h *hx.H, c layCase) {
	h.Label("engine:"+c.Engine, "kind:"+c.Kind)
	textFeatureLabels(h, c.Text)
	g0, _, err := compileOnly(c.Text)
	if err != nil {
		h.Reject("does-not-compile")
	}
	// (A) before layout
	g0b, err := roundTrip(g0)
	if err != nil {
		h.Failf("roundtrip-error:before", "%v\n%s", err, c.Text)
	}
	compareGraphs(h, "before", g0, g0b, c.Text)
	inner := d2dagrelayout.DefaultLayout
	if c.Engine == "elk" {
		inner = d2elklayout.DefaultLayout
	}
	svgA, gA, err := renderVia(c.Text, c.Engine, inner)
	if err != nil {
		h.Reject("layout-or-compile-error")
	}
	// (A) after layout. Lifeline edges of sequence diagrams end at pseudo objects that are not
	// part of the graph (and never cross the wire: sequence diagrams are laid out by d2 itself).
	{
		cp := *gA
		cp.Edges = nil
		for _, e := range gA.Edges {
			if !isLifelineEdge(e) {
				cp.Edges = append(cp.Edges, e)
			}
		}
		gA = &cp
	}
	gAb, err := roundTrip(gA)
	if err != nil {
		h.Failf("roundtrip-error:after", "%v\n%s", err, c.Text)
	}
	compareGraphs(h, "after", gA, gAb, c.Text)
	// (B) laying out through the wire gives the same rendering
	svgB, _, err := renderVia(c.Text, c.Engine, wire(inner))
	if err != nil {
		h.Failf("wire-layout-error", "layout through the plugin wire format fails where in-process layout succeeds: %v\n%s", err, c.Text)
	}
	if !bytes.Equal(svgA, svgB) {
		// Rule out run-to-run nondeterminism of the layout itself (C25's subject): only a wire
		// result that none of several in-process runs reproduces is a wire-format difference.
		for try := 0; try < 4; try++ {
			a2, _, errA := renderVia(c.Text, c.Engine, inner)
			b2, _, errB := renderVia(c.Text, c.Engine, wire(inner))
			if errA == nil && errB == nil && (bytes.Equal(a2, svgB) || bytes.Equal(b2, svgA) || (bytes.Equal(a2, b2) && !bytes.Equal(a2, svgA))) {
				h.Label("layout-nondeterminism-seen")
				h.Gray()
				h.NonTrivial(false)
				return
			}
		}
		// show the first difference other than the content hash used in class names
		nA, nB := hashRe.ReplaceAll(svgA, []byte("d2-H")), hashRe.ReplaceAll(svgB, []byte("d2-H"))
		if !bytes.Equal(nA, nB) {
			svgA, svgB = nA, nB
		}
		i := 0
		for i < len(svgA) && i < len(svgB) && svgA[i] == svgB[i] {
			i++
		}
		lo := i - 100
		if lo < 0 {
			lo = 0
		}
		hiA, hiB := i+150, i+150
		if hiA > len(svgA) {
			hiA = len(svgA)
		}
		if hiB > len(svgB) {
			hiB = len(svgB)
		}
		h.Failf("wire-render-differs", "rendering differs between in-process layout and layout through the wire format at byte %d:\n  in-process: …%s\n  wire:       …%s\n%s", i, svgA[lo:hiA], svgB[lo:hiB], c.Text)
	}
	rich := false
	for _, o := range g0.Objects {
		if o.ID != o.IDVal || o.Class != nil || o.SQLTable != nil || (o.Parent != g0.Root && len(o.ChildrenArray) > 0) {
			rich = true
		}
	}
	h.NonTrivial(rich)
}

func genC26(t *rapid.T) layCase {
	o := gen.LayoutDiagramOpts()
	c := genLayCase(t, o, "diagram")
	if gen.Pick(t, "elk", 5, 1) == 0 {
		c.Engine = "dagre"
	}
	return c
}

func TestC26(t *testing.T) {
	hx.Run(t, hx.Spec[layCase]{Prop: "C26", Core: func() []layCase { return bothEngines(layoutSnippets, "snippet") }, Gen: genC26, Check: checkC26, Timeout: 180 * time.Second})
}
