package p_layout

import (
	"bytes"
	"encoding/xml"
	"fmt"
	"math"
	"regexp"
	"strconv"
	"strings"
	"testing"
	"time"

	"oss.terrastruct.com/d2/d2graph"
	"oss.terrastruct.com/d2/d2renderers/d2svg"
	"oss.terrastruct.com/d2/d2target"
	"oss.terrastruct.com/d2/lib/geo"
	"oss.terrastruct.com/d2/lib/label"
	"oss.terrastruct.com/d2/lib/shape"
	"pgregory.net/rapid"

	"verif/harness/gen"
	"verif/harness/geom"
	"verif/harness/hx"
)

// C29: bounding box and SVG viewport enclose everything drawn.
var viewBoxRe = regexp.MustCompile(`<svg class="[^"]*d2-svg[^"]*" width="-?\d+" height="-?\d+" viewBox="(-?\d+) (-?\d+) (-?\d+) (-?\d+)"`)
var translateRe = regexp.MustCompile(`translate\(\s*(-?[\d.]+)[ ,]+(-?[\d.]+)\s*\)`)

func attr(se xml.StartElement, name string) (string, bool) {
	for _, a := range se.Attr {
		if a.Name.Local == name {
			return a.Value, true
		}
	}
	return "", false
}

func fattr(se xml.StartElement, name string) (float64, bool) {
	v, ok := attr(se, name)
	if !ok {
		return 0, false
	}
	f, err := strconv.ParseFloat(strings.TrimSuffix(v, "px"), 64)
	return f, err == nil
}

// svgExtent walks the SVG and returns the extent of the drawn primitives (rect, ellipse,
// circle, image, foreignObject, line, path) outside defs/mask/marker/pattern/style,
// applying enclosing translate() transforms. Elements with other transforms are skipped.
func svgExtent(svg []byte) (x0, y0, x1, y1 float64, n int, who [4]string, err error) {
	x0, y0, x1, y1 = math.Inf(1), math.Inf(1), math.Inf(-1), math.Inf(-1)
	dec := xml.NewDecoder(bytes.NewReader(svg))
	type frame struct {
		dx, dy float64
		skip   bool
	}
	stack := []frame{{}}
	cur := ""
	add := func(x, y float64) {
		if x < x0 {
			x0, who[0] = x, cur
		}
		if y < y0 {
			y0, who[1] = y, cur
		}
		if x > x1 {
			x1, who[2] = x, cur
		}
		if y > y1 {
			y1, who[3] = y, cur
		}
		n++
	}
	depthSVG := 0
	for {
		tok, e := dec.Token()
		if e != nil {
			break
		}
		switch t := tok.(type) {
		case xml.StartElement:
			top := stack[len(stack)-1]
			f := frame{dx: top.dx, dy: top.dy, skip: top.skip}
			switch t.Name.Local {
			case "defs", "mask", "marker", "pattern", "style", "clipPath", "filter", "linearGradient", "radialGradient":
				f.skip = true
			case "svg":
				depthSVG++
			}
			if tr, ok := attr(t, "transform"); ok {
				if m := translateRe.FindStringSubmatch(tr); m != nil && !strings.Contains(tr, "rotate") && !strings.Contains(tr, "scale") && !strings.Contains(tr, "matrix") {
					ax, _ := strconv.ParseFloat(m[1], 64)
					ay, _ := strconv.ParseFloat(m[2], 64)
					f.dx += ax
					f.dy += ay
				} else {
					f.skip = true
				}
			}
			stack = append(stack, f)
			if f.skip || depthSVG < 2 {
				continue
			}
			cur = t.Name.Local
			if cl, ok := attr(t, "class"); ok {
				cur += "." + cl
			}
			if hr, ok := attr(t, "href"); ok {
				cur += " href=" + hr
			}
			switch t.Name.Local {
			case "rect", "image", "foreignObject":
				x, okx := fattr(t, "x")
				y, oky := fattr(t, "y")
				w, okw := fattr(t, "width")
				hh, okh := fattr(t, "height")
				if okx && oky && okw && okh {
					add(x+f.dx, y+f.dy)
					add(x+w+f.dx, y+hh+f.dy)
				}
			case "ellipse", "circle":
				cx, _ := fattr(t, "cx")
				cy, _ := fattr(t, "cy")
				rx, okx := fattr(t, "rx")
				ry, oky := fattr(t, "ry")
				if r, ok := fattr(t, "r"); ok {
					rx, ry, okx, oky = r, r, true, true
				}
				if okx && oky {
					add(cx-rx+f.dx, cy-ry+f.dy)
					add(cx+rx+f.dx, cy+ry+f.dy)
				}
			case "line":
				xa, _ := fattr(t, "x1")
				ya, _ := fattr(t, "y1")
				xb, _ := fattr(t, "x2")
				yb, _ := fattr(t, "y2")
				add(xa+f.dx, ya+f.dy)
				add(xb+f.dx, yb+f.dy)
			case "path":
				if d, ok := attr(t, "d"); ok {
					polys, perr := geom.FlattenPath(d, 0.5)
					if perr == nil && len(polys) > 0 {
						a, b, c2, d2 := geom.BBox(polys)
						if !math.IsInf(a, 0) {
							add(a+f.dx, b+f.dy)
							add(c2+f.dx, d2+f.dy)
						}
					}
				}
			}
		case xml.EndElement:
			if t.Name.Local == "svg" {
				depthSVG--
			}
			if len(stack) > 1 {
				stack = stack[:len(stack)-1]
			}
		}
	}
	return
}

func checkC29(h *hx.H, c layCase) {
	h.Label("engine:"+c.Engine, "kind:"+c.Kind)
	textFeatureLabels(h, c.Text)
	d, g := runLayout(h, c)
	rich := false
	eachBoard(d, g, "root", func(bp string, bd *d2target.Diagram, bg *d2graph.Graph) {
		if len(bd.Shapes) == 0 {
			return
		}
		tl, br := bd.BoundingBox()
		if tl.X < -1<<40 || tl.Y < -1<<40 || br.X > 1<<40 || br.Y > 1<<40 {
			// a NaN/Inf went through an int conversion
			culprit := ""
			for _, cn := range bd.Connections {
				if p := cn.GetLabelTopLeft(); cn.Label != "" && p != nil && (math.IsNaN(p.X) || math.IsNaN(p.Y) || math.IsInf(p.X, 0) || math.IsInf(p.Y, 0)) {
					culprit = ":connection-label-position-nan"
				}
				// the same degenerate route (all points equal) with an arrowhead label instead of a label
				if (cn.SrcLabel != nil || cn.DstLabel != nil) && len(cn.Route) >= 2 {
					zero := true
					for _, q := range cn.Route[1:] {
						if q.X != cn.Route[0].X || q.Y != cn.Route[0].Y {
							zero = false
						}
					}
					if zero {
						culprit = ":connection-label-position-nan"
					}
				}
			}
			h.FailSoft("bounding-box-overflow"+culprit, "%s (%s): BoundingBox() returns (%d,%d)-(%d,%d)\n%s", bp, c.Engine, tl.X, tl.Y, br.X, br.Y, c.Text)
			return
		}
		in := func(x, y float64, what string) {
			if x < float64(tl.X)-1 || x > float64(br.X)+1 || y < float64(tl.Y)-1 || y > float64(br.Y)+1 {
				over := math.Max(math.Max(float64(tl.X)-x, x-float64(br.X)), math.Max(float64(tl.Y)-y, y-float64(br.Y)))
				kind := strings.SplitN(what, " ", 2)[0]
				if kind == "outside-icon" && over > label.PADDING+1.5 {
					// the listed finding is the label padding (5 px) missing on one axis; an icon
					// further out than that is something else
					kind = "outside-icon-far"
				}
				h.FailSoft(c29sig(c, "outside-bounding-box:"+kind), "%s (%s): %s at (%.1f,%.1f) lies outside the reported bounding box (%d,%d)-(%d,%d)\n%s", bp, c.Engine, what, x, y, tl.X, tl.Y, br.X, br.Y, c.Text)
			}
		}
		for _, s := range bd.Shapes {
			sw := math.Ceil(float64(s.StrokeWidth) / 2)
			in(float64(s.Pos.X)-sw, float64(s.Pos.Y)-sw, "shape-box top-left of "+s.ID)
			in(float64(s.Pos.X+s.Width)+sw, float64(s.Pos.Y+s.Height)+sw, "shape-box bottom-right of "+s.ID)
			if s.ThreeDee {
				rich = true
				off := float64(d2target.THREE_DEE_OFFSET)
				oy := off
				if s.Type == d2target.ShapeHexagon {
					oy = off / 2
				}
				in(float64(s.Pos.X+s.Width)+off, float64(s.Pos.Y)-oy, "3d-offset corner of "+s.ID)
			}
			if s.Multiple {
				rich = true
				off := float64(d2target.MULTIPLE_OFFSET)
				in(float64(s.Pos.X+s.Width)+off, float64(s.Pos.Y)-off, "multiple-offset corner of "+s.ID)
			}
			if s.Shadow {
				rich = true
				in(float64(s.Pos.X+s.Width)+float64(d2target.SHADOW_SIZE_X), float64(s.Pos.Y+s.Height)+float64(d2target.SHADOW_SIZE_Y), "shadow corner of "+s.ID)
			}
			st := d2target.DSL_SHAPE_TO_SHAPE_TYPE[s.Type]
			sh := shape.NewShape(st, geo.NewBox(geo.NewPoint(float64(s.Pos.X), float64(s.Pos.Y)), float64(s.Width), float64(s.Height)))
			if s.Label != "" && s.LabelPosition != "" {
				lp := label.FromString(s.LabelPosition)
				if lp.IsOutside() {
					rich = true
					p := lp.GetPointOnBox(sh.GetBox(), label.PADDING, float64(s.LabelWidth), float64(s.LabelHeight))
					in(p.X, p.Y, "outside-label top-left of "+s.ID)
					in(p.X+float64(s.LabelWidth), p.Y+float64(s.LabelHeight), "outside-label bottom-right of "+s.ID)
				}
			}
			if s.Icon != nil && s.IconPosition != "" {
				ipos := label.FromString(s.IconPosition)
				if ipos.IsOutside() && (s.Width < 12 || s.Height < 12) {
					// a shape of a few pixels (explicit width/height of 1 or 2): the icon size derived
					// from its inner box degenerates, where the renderer draws it is not reconstructed here
					h.Label("gray:outside-icon-on-tiny-shape")
				} else if ipos.IsOutside() {
					rich = true
					size := float64(d2target.GetIconSize(sh.GetInnerBox(), s.IconPosition))
					p := ipos.GetPointOnBox(sh.GetBox(), label.PADDING, size, size)
					in(p.X, p.Y, "outside-icon top-left of "+s.ID)
					in(p.X+size, p.Y+size, "outside-icon bottom-right of "+s.ID)
				}
			}
		}
		for _, cn := range bd.Connections {
			for _, p := range cn.Route {
				in(p.X, p.Y, "route-point of "+cn.ID)
			}
			if cn.Label != "" {
				if p := cn.GetLabelTopLeft(); p != nil {
					in(p.X, p.Y, "connection-label top-left of "+cn.ID)
					in(p.X+float64(cn.LabelWidth), p.Y+float64(cn.LabelHeight), "connection-label bottom-right of "+cn.ID)
				}
			}
			if cn.SrcLabel != nil || cn.DstLabel != nil {
				rich = true
			}
		}
		// viewport
		pad := c.Pad
		ro := &d2svg.RenderOpts{Pad: &pad}
		svg, err := d2svg.Render(bd, ro)
		if err != nil {
			h.Reject("render-error")
		}
		m := viewBoxRe.FindSubmatch(svg)
		if m == nil {
			h.Failf("no-viewbox", "%s: no inner viewBox found in the SVG: %.400s", bp, svg)
		}
		l, _ := strconv.Atoi(string(m[1]))
		tp, _ := strconv.Atoi(string(m[2]))
		w, _ := strconv.Atoi(string(m[3]))
		ht, _ := strconv.Atoi(string(m[4]))
		if l > tl.X-int(pad) || tp > tl.Y-int(pad) || l+w < br.X+int(pad) || tp+ht < br.Y+int(pad) {
			h.Failf("viewbox-too-small", "%s: viewBox %d %d %d %d does not contain the bounding box (%d,%d)-(%d,%d) plus padding %d\n%s", bp, l, tp, w, ht, tl.X, tl.Y, br.X, br.Y, pad, c.Text)
		}
		ex0, ey0, ex1, ey1, n, who, _ := svgExtent(svg)
		if n > 0 {
			h.AddExtra("svg_primitives_checked", int64(n))
			over := [4]bool{ex0 < float64(l)-1, ey0 < float64(tp)-1, ex1 > float64(l+w)+1, ey1 > float64(tp+ht)+1}
			for k, ov := range over {
				if !ov {
					continue
				}
				kind := who[k]
				switch {
				case strings.HasPrefix(kind, "image"):
					kind = "image"
				case strings.HasPrefix(kind, "path") && strings.Contains(kind, "connection"):
					kind = "path-connection"
				case strings.HasPrefix(kind, "path") && strings.Contains(kind, "fill-"):
					kind = "path-shape"
				case strings.HasPrefix(kind, "path"):
					kind = "path-plain"
				default:
					kind = strings.SplitN(kind, ".", 2)[0]
				}
				h.FailSoft("drawn-outside-viewbox:"+kind, "%s (%s): drawn primitives extend over (%.1f,%.1f)-(%.1f,%.1f) [extremes: %q], the viewBox is %d %d %d %d (pad %d)\n%s", bp, c.Engine, ex0, ey0, ex1, ey1, who, l, tp, w, ht, pad, c.Text)
			}
		}
	})
	h.NonTrivial(rich)
}

func c29sig(c layCase, base string) string {
	return base
}

func genC29(t *rapid.T) layCase {
	o := gen.LayoutDiagramOpts()
	c := genLayCase(t, o, "diagram")
	c.Pad = int64(rapid.IntRange(0, 200).Draw(t, "pad"))
	return c
}

func coreC29() []layCase {
	out := bothEngines(layoutSnippets, "snippet")
	for i := range out {
		out[i].Pad = int64((i * 37) % 150)
	}
	return out
}

func TestC29(t *testing.T) {
	hx.Run(t, hx.Spec[layCase]{Prop: "C29", Core: coreC29, Gen: genC29, Check: checkC29, Timeout: 180 * time.Second})
}

var _ = fmt.Sprint
