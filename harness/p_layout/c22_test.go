package p_layout

import (
	"fmt"
	"math"
	"strings"
	"testing"
	"time"

	"oss.terrastruct.com/d2/d2graph"
	"pgregory.net/rapid"

	"verif/harness/gen"
	"verif/harness/hx"
)

// C22: grid cells follow declaration order, align, keep gaps and never overlap.
type c22Case struct {
	Rows, Cols   int    `json:"-"`
	Settings     []string `json:"settings"` // e.g. "grid-rows: 2", in source order
	Cells        []string `json:"cells"`    // body of each cell: `width: 10; height: 20` or a nested container body
	Engine       string `json:"engine"`
}

func (c c22Case) text() string {
	var sb strings.Builder
	sb.WriteString("g: {\n")
	for _, s := range c.Settings {
		sb.WriteString("  " + s + "\n")
	}
	for i, b := range c.Cells {
		fmt.Fprintf(&sb, "  c%02d: \"\" {%s}\n", i, b)
	}
	sb.WriteString("}\n")
	return sb.String()
}

func settingInt(settings []string, key string) (int, int, bool) {
	for i, s := range settings {
		if strings.HasPrefix(s, key+":") {
			var v int
			fmt.Sscanf(strings.TrimSpace(strings.TrimPrefix(s, key+":")), "%d", &v)
			return v, i, true
		}
	}
	return 0, -1, false
}

func checkC22(h *hx.H, c c22Case) {
	h.Label("engine:" + c.Engine)
	text := c.text()
	_, g := runLayout(h, layCase{Text: text, Engine: c.Engine})
	var grid *d2graph.Object
	for _, o := range g.Objects {
		if o.AbsID() == "g" {
			grid = o
		}
	}
	if grid == nil {
		h.Failf("grid-missing", "grid object missing after layout")
	}
	cells := grid.ChildrenArray
	if len(cells) != len(c.Cells) {
		h.Failf("cell-count", "declared %d cells, the grid has %d children", len(c.Cells), len(cells))
	}
	rows, ri, hasRows := settingInt(c.Settings, "grid-rows")
	cols, ci, hasCols := settingInt(c.Settings, "grid-columns")
	hg, vg := 40, 40 // documented default gap
	if v, _, ok := settingInt(c.Settings, "grid-gap"); ok {
		hg, vg = v, v
	}
	// a specific gap given after/before grid-gap overrides it for its axis
	if v, _, ok := settingInt(c.Settings, "horizontal-gap"); ok {
		hg = v
	}
	if v, _, ok := settingInt(c.Settings, "vertical-gap"); ok {
		vg = v
	}
	rowDirected := (hasRows && !hasCols) || (hasRows && hasCols && ri < ci)
	switch {
	case hasRows && hasCols:
		h.Label("rows+columns")
	case hasRows:
		h.Label("rows-only")
	default:
		h.Label("columns-only")
	}
	const tol = 1.0
	type bx struct{ x0, y0, x1, y1 float64 }
	B := func(o *d2graph.Object) bx {
		return bx{o.TopLeft.X, o.TopLeft.Y, o.TopLeft.X + o.Width, o.TopLeft.Y + o.Height}
	}
	gb := B(grid)
	desc := func() string { return fmt.Sprintf("(%s)\n%s", c.Engine, text) }
	for i, a := range cells {
		ab := B(a)
		if a.AbsID() != fmt.Sprintf("g.c%02d", i) {
			h.Failf("cell-order-list", "cell #%d of the grid is %s %s", i, a.AbsID(), desc())
		}
		if ab.x0 < gb.x0-tol || ab.y0 < gb.y0-tol || ab.x1 > gb.x1+tol || ab.y1 > gb.y1+tol {
			h.Failf("cell-outside-grid", "cell %s [%.1f,%.1f-%.1f,%.1f] is not inside the grid container [%.1f,%.1f-%.1f,%.1f] %s", a.AbsID(), ab.x0, ab.y0, ab.x1, ab.y1, gb.x0, gb.y0, gb.x1, gb.y1, desc())
		}
		for j := i + 1; j < len(cells); j++ {
			bb := B(cells[j])
			ox := math.Min(ab.x1, bb.x1) - math.Max(ab.x0, bb.x0)
			oy := math.Min(ab.y1, bb.y1) - math.Max(ab.y0, bb.y0)
			if ox > tol && oy > tol {
				h.Failf("cells-overlap", "cells %s and %s overlap by %.1f x %.1f %s", a.AbsID(), cells[j].AbsID(), ox, oy, desc())
			}
		}
		if i+1 < len(cells) {
			b := cells[i+1]
			bb := B(b)
			if rowDirected {
				sameRow := bb.y0 < ab.y1-tol && ab.y0 < bb.y1-tol
				if sameRow {
					if bb.x0 < ab.x1+float64(hg)-tol {
						h.Failf("horizontal-gap", "cells %s and %s in one row are %.1f apart, the horizontal gap is %d %s", a.AbsID(), b.AbsID(), bb.x0-ab.x1, hg, desc())
					}
				} else if bb.y0 < ab.y1+float64(vg)-tol {
					h.Failf("row-order", "cell %s should start a new row below %s (vertical gap %d): %.1f vs bottom %.1f %s", b.AbsID(), a.AbsID(), vg, bb.y0, ab.y1, desc())
				}
			} else {
				sameCol := bb.x0 < ab.x1-tol && ab.x0 < bb.x1-tol
				if sameCol {
					if bb.y0 < ab.y1+float64(vg)-tol {
						h.Failf("vertical-gap", "cells %s and %s in one column are %.1f apart, the vertical gap is %d %s", a.AbsID(), b.AbsID(), bb.y0-ab.y1, vg, desc())
					}
				} else if bb.x0 < ab.x1+float64(hg)-tol {
					h.Failf("column-order", "cell %s should start a new column right of %s (horizontal gap %d): %.1f vs right %.1f %s", b.AbsID(), a.AbsID(), hg, bb.x0, ab.x1, desc())
				}
			}
		}
	}
	// rows x columns: a table. Cell k sits in row k/cols (row-directed) resp. column k/rows.
	if hasRows && hasCols && len(cells) > 0 {
		for i, a := range cells {
			for j, b := range cells {
				if j <= i {
					continue
				}
				var ra, ca, rb, cb int
				if rowDirected {
					ra, ca, rb, cb = i/cols, i%cols, j/cols, j%cols
				} else {
					ca, ra, cb, rb = i/rows, i%rows, j/rows, j%rows
				}
				if len(cells) > rows*cols {
					continue // more cells than the table holds: placement of the overflow is not specified
				}
				if ra == rb && math.Abs(a.Height-b.Height) > tol {
					h.Failf("row-height", "cells %s and %s share row %d but have heights %.1f and %.1f %s", a.AbsID(), b.AbsID(), ra, a.Height, b.Height, desc())
				}
				if ca == cb && math.Abs(a.Width-b.Width) > tol {
					h.Failf("column-width", "cells %s and %s share column %d but have widths %.1f and %.1f %s", a.AbsID(), b.AbsID(), ca, a.Width, b.Width, desc())
				}
				if ra == rb && cb == ca+1 && math.Abs(B(b).x0-B(a).x1-float64(hg)) > tol {
					h.Failf("table-horizontal-gap", "neighbouring cells %s and %s are %.1f apart, the horizontal gap is %d %s", a.AbsID(), b.AbsID(), B(b).x0-B(a).x1, hg, desc())
				}
				if ca == cb && rb == ra+1 && math.Abs(B(b).y0-B(a).y1-float64(vg)) > tol {
					h.Failf("table-vertical-gap", "neighbouring cells %s and %s are %.1f apart, the vertical gap is %d %s", a.AbsID(), b.AbsID(), B(b).y0-B(a).y1, vg, desc())
				}
			}
		}
	}
	sizes := map[string]bool{}
	for _, b := range c.Cells {
		sizes[b] = true
	}
	h.NonTrivial(len(cells) >= 5 && len(sizes) >= 3)
}

func genC22(t *rapid.T) c22Case {
	c := c22Case{Engine: "dagre"}
	if gen.Pick(t, "elk", 6, 1) == 1 {
		c.Engine = "elk"
	}
	var s []string
	switch gen.Pick(t, "dims", 2, 2, 3) {
	case 0:
		s = append(s, fmt.Sprintf("grid-rows: %d", rapid.IntRange(1, 5).Draw(t, "rows")))
	case 1:
		s = append(s, fmt.Sprintf("grid-columns: %d", rapid.IntRange(1, 5).Draw(t, "cols")))
	default:
		a := fmt.Sprintf("grid-rows: %d", rapid.IntRange(1, 5).Draw(t, "rows2"))
		b := fmt.Sprintf("grid-columns: %d", rapid.IntRange(1, 5).Draw(t, "cols2"))
		if rapid.Bool().Draw(t, "colsfirst") {
			a, b = b, a
		}
		s = append(s, a, b)
	}
	if rapid.Bool().Draw(t, "gg") {
		s = append(s, fmt.Sprintf("grid-gap: %d", rapid.IntRange(0, 60).Draw(t, "ggv")))
	}
	if rapid.Bool().Draw(t, "hg") {
		s = append(s, fmt.Sprintf("horizontal-gap: %d", rapid.IntRange(0, 60).Draw(t, "hgv")))
	}
	if rapid.Bool().Draw(t, "vg") {
		s = append(s, fmt.Sprintf("vertical-gap: %d", rapid.IntRange(0, 60).Draw(t, "vgv")))
	}
	// any order of the settings
	perm := rapid.Permutation(s).Draw(t, "order")
	c.Settings = perm
	n := rapid.IntRange(0, 30).Draw(t, "ncells")
	for i := 0; i < n; i++ {
		switch gen.Pick(t, "cellkind", 6, 1, 1) {
		case 0:
			c.Cells = append(c.Cells, fmt.Sprintf("width: %d; height: %d", rapid.IntRange(20, 220).Draw(t, "w"), rapid.IntRange(20, 220).Draw(t, "h")))
		case 1:
			c.Cells = append(c.Cells, "x; y: {z}")
		default:
			c.Cells = append(c.Cells, "")
		}
	}
	return c
}

func coreC22() []c22Case {
	var out []c22Case
	cells := func(n int) []string {
		var cs []string
		for i := 0; i < n; i++ {
			cs = append(cs, fmt.Sprintf("width: %d; height: %d", 20+(i*37)%180, 20+(i*53)%160))
		}
		return cs
	}
	for _, n := range []int{0, 1, 2, 5, 6, 7, 12, 30} {
		for _, s := range [][]string{{"grid-rows: 2"}, {"grid-columns: 3"}, {"grid-rows: 2", "grid-columns: 3"}, {"grid-columns: 3", "grid-rows: 2"},
			{"grid-rows: 3", "grid-gap: 0"}, {"vertical-gap: 7", "grid-columns: 2", "horizontal-gap: 55"}, {"grid-gap: 10", "grid-rows: 4", "grid-columns: 3", "vertical-gap: 30"}, {"grid-rows: 1"}, {"grid-columns: 1"}} {
			out = append(out, c22Case{Settings: s, Cells: cells(n), Engine: "dagre"})
		}
	}
	out = append(out, c22Case{Settings: []string{"grid-rows: 2", "grid-columns: 2"}, Cells: []string{"a; b", "x: {y: {z}}", "", "width: 300; height: 20"}, Engine: "elk"})
	return out
}

func TestC22(t *testing.T) {
	hx.Run(t, hx.Spec[c22Case]{Prop: "C22", Core: coreC22, Gen: genC22, Check: checkC22, Timeout: 180 * time.Second})
}
