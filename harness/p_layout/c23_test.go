package p_layout

import (
	"fmt"
	"math"
	"strings"
	"testing"
	"time"

	"oss.terrastruct.com/d2/d2target"
	"pgregory.net/rapid"

	"verif/harness/gen"
	"verif/harness/hx"
)

// C23: sequence diagrams keep actor and message order.
type c23Msg struct {
	Src   string `json:"src"` // a0 or a0.sp
	Dst   string `json:"dst"`
	Arrow string `json:"arrow"`
	Label string `json:"label,omitempty"`
	Group int    `json:"group"` // 0 = none, else group id (consecutive messages share it)
	Note  string `json:"note,omitempty"` // actor on which a note is declared before this message
}

type c23Case struct {
	Actors []string `json:"actors"` // shapes ("" default)
	Msgs   []c23Msg `json:"msgs"`
	Nested bool     `json:"nested"` // the sequence diagram is a container "s" instead of the root
}

func (c c23Case) text() string {
	var sb strings.Builder
	ind := ""
	if c.Nested {
		sb.WriteString("s: {\n")
		ind = "  "
	}
	sb.WriteString(ind + "shape: sequence_diagram\n")
	for i, sh := range c.Actors {
		if sh == "" {
			fmt.Fprintf(&sb, "%sa%d\n", ind, i)
		} else {
			fmt.Fprintf(&sb, "%sa%d: {shape: %s}\n", ind, i, sh)
		}
	}
	cur := 0
	for i, m := range c.Msgs {
		if m.Group != cur {
			if cur != 0 {
				sb.WriteString(ind + "}\n")
			}
			if m.Group != 0 {
				fmt.Fprintf(&sb, "%sgrp%d: {\n", ind, m.Group)
			}
			cur = m.Group
		}
		in := ind
		if cur != 0 {
			in += "  "
		}
		if m.Note != "" {
			fmt.Fprintf(&sb, "%s%s.note%d: a note\n", in, m.Note, i)
		}
		l := ""
		if m.Label != "" {
			l = ": " + m.Label
		}
		fmt.Fprintf(&sb, "%s%s %s %s%s\n", in, m.Src, m.Arrow, m.Dst, l)
	}
	if cur != 0 {
		sb.WriteString(ind + "}\n")
	}
	if c.Nested {
		sb.WriteString("}\nother -> s\n")
	}
	return sb.String()
}

func checkC23(h *hx.H, c c23Case) {
	text := c.text()
	d, _ := runLayout(h, layCase{Text: text, Engine: "dagre"})
	pre := ""
	if c.Nested {
		pre = "s."
		h.Label("nested")
	}
	shapes := map[string]d2target.Shape{}
	for _, s := range d.Shapes {
		shapes[s.ID] = s
	}
	// actors: strictly increasing centres, default-shape actors share a bottom edge
	prev := math.Inf(-1)
	bottom := math.NaN()
	for i, sh := range c.Actors {
		s, ok := shapes[fmt.Sprintf("%sa%d", pre, i)]
		if !ok {
			h.Failf("actor-missing", "actor a%d missing from the export\n%s", i, text)
		}
		cx := float64(s.Pos.X) + float64(s.Width)/2
		if cx <= prev {
			h.Failf("actor-order", "actor a%d (centre %.1f) is not right of the previous actor (centre %.1f)\n%s", i, cx, prev, text)
		}
		prev = cx
		if sh == "" {
			b := float64(s.Pos.Y + s.Height)
			if math.IsNaN(bottom) {
				bottom = b
			} else if math.Abs(b-bottom) > 1 {
				h.Failf("actor-baseline", "actor a%d has its bottom edge at %.1f, earlier default-shape actors at %.1f\n%s", i, b, bottom, text)
			}
		}
	}
	// messages: connections whose both ends are exported shapes, excluding the "other -> s" one
	var conns []d2target.Connection
	for _, cn := range d.Connections {
		_, okS := shapes[cn.Src]
		_, okD := shapes[cn.Dst]
		if okS && okD && cn.Src != "other" && strings.HasPrefix(cn.Src, pre+"a") {
			conns = append(conns, cn)
		}
	}
	if len(conns) != len(c.Msgs) {
		h.Failf("message-count", "declared %d messages, exported %d\n%s", len(c.Msgs), len(conns), text)
	}
	py := math.Inf(-1)
	spans, selfs := 0, 0
	for i, cn := range conns {
		m := c.Msgs[i]
		if cn.Src != pre+m.Src || cn.Dst != pre+m.Dst {
			h.Failf("message-list-order", "exported message #%d is %s -> %s, declared %s -> %s\n%s", i, cn.Src, cn.Dst, m.Src, m.Dst, text)
		}
		if len(cn.Route) < 2 {
			h.Failf("message-route", "message #%d has %d route points", i, len(cn.Route))
		}
		y0 := cn.Route[0].Y
		if y0 <= py {
			h.Failf("message-order", "message #%d (%s %s %s) starts at y=%.1f, not below the previous one at %.1f\n%s", i, m.Src, m.Arrow, m.Dst, y0, py, text)
		}
		py = y0
		sa, da := strings.Split(m.Src, ".")[0], strings.Split(m.Dst, ".")[0]
		if sa != da {
			if len(cn.Route) != 2 || math.Abs(cn.Route[0].Y-cn.Route[1].Y) > 0.5 {
				h.Failf("message-not-horizontal", "message #%d between %s and %s is not one horizontal segment: %v\n%s", i, m.Src, m.Dst, fmtRoute(cn.Route), text)
			}
		} else {
			selfs++
		}
		for k, id := range []string{m.Src, m.Dst} {
			p := cn.Route[0]
			if k == 1 {
				p = cn.Route[len(cn.Route)-1]
			}
			s := shapes[pre+id]
			cx := float64(s.Pos.X) + float64(s.Width)/2
			if !strings.Contains(id, ".") {
				if math.Abs(p.X-cx) > 1 && sa != da {
					h.Failf("end-off-lifeline", "message #%d: end %d at x=%.1f is not on the lifeline of %s (x=%.1f)\n%s", i, k, p.X, id, cx, text)
				}
			} else {
				spans++
				onBorder := math.Abs(p.X-float64(s.Pos.X)) <= 1 || math.Abs(p.X-float64(s.Pos.X+s.Width)) <= 1
				if !onBorder && sa != da {
					h.Failf("end-off-span", "message #%d: end %d at x=%.1f is not on the border of span %s [%d..%d]\n%s", i, k, p.X, id, s.Pos.X, s.Pos.X+s.Width, text)
				}
				if sa != da && (p.Y < float64(s.Pos.Y)-1 || p.Y > float64(s.Pos.Y+s.Height)+1) {
					h.Failf("end-outside-span-height", "message #%d: end %d at y=%.1f lies outside span %s [%d..%d]\n%s", i, k, p.Y, id, s.Pos.Y, s.Pos.Y+s.Height, text)
				}
			}
		}
	}
	h.NonTrivial(len(c.Actors) >= 3 && len(c.Msgs) >= 5 && (spans > 0 || selfs > 0))
}

func fmtRoute(r []*geoPoint) string {
	var parts []string
	for _, p := range r {
		parts = append(parts, fmt.Sprintf("(%.1f,%.1f)", p.X, p.Y))
	}
	return strings.Join(parts, " ")
}

func genC23(t *rapid.T) c23Case {
	c := c23Case{Nested: gen.Pick(t, "nested", 4, 1) == 1}
	na := rapid.IntRange(1, 8).Draw(t, "nactors")
	for i := 0; i < na; i++ {
		sh := ""
		if gen.Pick(t, "ashape", 3, 1) == 1 {
			sh = rapid.SampledFrom([]string{"person", "cylinder", "oval", "queue", "diamond", "cloud"}).Draw(t, "shape")
		}
		c.Actors = append(c.Actors, sh)
	}
	nm := rapid.IntRange(0, 30).Draw(t, "nmsgs")
	group, gid := 0, 0
	for i := 0; i < nm; i++ {
		if gen.Pick(t, "grp", 6, 1) == 1 {
			if group == 0 {
				gid++
				group = gid
			} else {
				group = 0
			}
		}
		m := c23Msg{Group: group, Arrow: rapid.SampledFrom([]string{"->", "->", "<-", "--", "<->"}).Draw(t, "arrow")}
		a := rapid.IntRange(0, na-1).Draw(t, "src")
		b := rapid.IntRange(0, na-1).Draw(t, "dst")
		m.Src, m.Dst = fmt.Sprintf("a%d", a), fmt.Sprintf("a%d", b)
		if gen.Pick(t, "sspan", 3, 1) == 1 {
			m.Src += ".sp"
		}
		if gen.Pick(t, "dspan", 3, 1) == 1 {
			m.Dst += ".sp"
		}
		if rapid.Bool().Draw(t, "lbl") {
			m.Label = fmt.Sprintf("m%d %s", i, strings.Repeat("x", rapid.IntRange(0, 30).Draw(t, "ll")))
		}
		if gen.Pick(t, "note", 8, 1) == 1 {
			m.Note = fmt.Sprintf("a%d", rapid.IntRange(0, na-1).Draw(t, "noteactor"))
		}
		c.Msgs = append(c.Msgs, m)
	}
	return c
}

func coreC23() []c23Case {
	return []c23Case{
		{Actors: []string{"", "", ""}, Msgs: []c23Msg{{Src: "a0", Dst: "a1", Arrow: "->", Label: "hi"}, {Src: "a1", Dst: "a2", Arrow: "->"}, {Src: "a2", Dst: "a0", Arrow: "<-"}, {Src: "a0.sp", Dst: "a1.sp", Arrow: "->"}, {Src: "a1", Dst: "a1", Arrow: "->", Label: "self"}, {Src: "a2", Dst: "a1.sp", Arrow: "--"}}},
		{Actors: []string{"person", "", "cylinder", ""}, Nested: true, Msgs: []c23Msg{{Src: "a0", Dst: "a3", Arrow: "->", Group: 1}, {Src: "a3", Dst: "a1", Arrow: "->", Group: 1, Note: "a2"}, {Src: "a1", Dst: "a2", Arrow: "<->"}, {Src: "a2.sp", Dst: "a0", Arrow: "->", Group: 2}, {Src: "a0", Dst: "a0.sp", Arrow: "->"}}},
		{Actors: []string{""}, Msgs: []c23Msg{{Src: "a0", Dst: "a0", Arrow: "->"}, {Src: "a0", Dst: "a0", Arrow: "->"}}},
		{Actors: []string{"", ""}},
	}
}

func TestC23(t *testing.T) {
	hx.Run(t, hx.Spec[c23Case]{Prop: "C23", Core: coreC23, Gen: genC23, Check: checkC23, Timeout: 180 * time.Second})
}
