package p_layout

import (
	"fmt"
	"strings"
	"testing"
	"time"

	"oss.terrastruct.com/d2/d2graph"
	"oss.terrastruct.com/d2/d2renderers/d2svg"
	"oss.terrastruct.com/d2/d2target"
	"pgregory.net/rapid"

	"verif/harness/gen"
	"verif/harness/hx"
	"verif/harness/lay"
)

// C17: layout succeeds with finite geometry for every compilable diagram.
func checkC17(h *hx.H, c layCase) {
	h.Label("engine:"+c.Engine, "kind:"+c.Kind)
	textFeatureLabels(h, c.Text)
	if _, _, err := compileOnly(c.Text); err != nil {
		h.Reject("does-not-compile")
	}
	d, g, err := lay.Run(c.Text, c.Engine, nil)
	if err != nil {
		sig := "layout-error"
		msg := err.Error()
		switch {
		case c.Engine == "dagre" && jsHostile(c.Text):
			sig = "layout-error:dagre-js-template-literal"
		case strings.Contains(msg, "cannot themselves be sequence diagrams"):
			sig = "layout-error:nested-sequence-actor"
		}
		h.Failf(sig, "layout with %s failed on a diagram that compiles: %v\n%s", c.Engine, firstLineOf(msg), c.Text)
	}
	nobj, ncont, nedge := 0, 0, 0
	eachBoard(d, g, "root", func(bp string, bd *d2target.Diagram, bg *d2graph.Graph) {
		for _, o := range bg.Objects {
			nobj++
			if len(o.ChildrenArray) > 0 {
				ncont++
			}
			if o.Box == nil || o.TopLeft == nil {
				h.Failf("no-position", "%s: object %s has no position after layout", bp, o.AbsID())
			}
			if !finite(o.TopLeft.X, o.TopLeft.Y, o.Width, o.Height) {
				h.Failf("non-finite-shape", "%s: object %s has non-finite geometry %v %vx%v", bp, o.AbsID(), o.TopLeft, o.Width, o.Height)
			}
			if o.Width < 0 || o.Height < 0 {
				h.Failf("negative-size", "%s: object %s has negative size %vx%v", bp, o.AbsID(), o.Width, o.Height)
			}
		}
		for _, e := range bg.Edges {
			if isLifelineEdge(e) {
				continue
			}
			nedge++
			if len(e.Route) < 2 {
				h.Failf("short-route", "%s: connection %s has a route of %d points", bp, e.AbsID(), len(e.Route))
			}
			for _, p := range e.Route {
				if p == nil || !finite(p.X, p.Y) {
					h.Failf("non-finite-route", "%s: connection %s has a non-finite route point", bp, e.AbsID())
				}
			}
		}
		for _, s := range bd.Shapes {
			if s.Width < 0 || s.Height < 0 {
				h.Failf("negative-size-export", "%s: exported shape %s has negative size %dx%d", bp, s.ID, s.Width, s.Height)
			}
		}
		for _, cn := range bd.Connections {
			if len(cn.Route) < 2 {
				h.Failf("short-route-export", "%s: exported connection %s has %d route points", bp, cn.ID, len(cn.Route))
			}
		}
		svg, err := d2svg.Render(bd, &d2svg.RenderOpts{})
		if err != nil {
			h.Failf("render-error", "%s: the laid-out diagram cannot be rendered: %v", bp, err)
		}
		if len(svg) == 0 || !strings.Contains(string(svg), "<svg") {
			h.Failf("render-empty", "%s: rendering produced no SVG", bp)
		}
	})
	h.NonTrivial(nobj >= 4 && ncont >= 1 && nedge >= 1)
}

func firstLineOf(s string) string {
	if i := strings.IndexByte(s, '\n'); i >= 0 {
		return s[:i]
	}
	if len(s) > 500 {
		return s[:500]
	}
	return s
}

func coreC17() []layCase {
	out := bothEngines(layoutSnippets, "snippet")
	// each hostile name once per engine, as node, container and connection end
	var names []string
	for _, n := range gen.HostileNames {
		if n == "" || strings.ContainsRune(n, 0) {
			continue
		}
		names = append(names, n)
	}
	for i := 0; i < len(names); i += 3 {
		var sb strings.Builder
		var keys []string
		for j := i; j < i+3 && j < len(names); j++ {
			keys = append(keys, gen.QuoteKey(strings.ToValidUTF8(names[j], "?")))
		}
		seen := map[string]bool{}
		var uniq []string
		for _, k := range keys {
			if !seen[gen.FoldKey(k)] {
				seen[gen.FoldKey(k)] = true
				uniq = append(uniq, k)
			}
		}
		for _, k := range uniq {
			fmt.Fprintf(&sb, "%s: {%s}\n", k, "inner")
		}
		for j := 0; j+1 < len(uniq); j++ {
			fmt.Fprintf(&sb, "%s -> %s.inner\n", uniq[j], uniq[j+1])
		}
		out = append(out, layCase{Text: sb.String(), Engine: "dagre", Kind: "names"})
		if i%9 == 0 {
			out = append(out, layCase{Text: sb.String(), Engine: "elk", Kind: "names"})
		}
	}
	out = append(out, nearOnlyCases()...)
	return out
}

// nearOnlyCases: diagrams in which every root shape sits at a near constant (no ordinary
// content to anchor them): all singles and unordered pairs of constants, some triples, with
// and without a container - on both engines.
func nearOnlyCases() []layCase {
	var out []layCase
	add := func(text string) {
		out = append(out, layCase{Text: text, Engine: "dagre", Kind: "near-only"}, layCase{Text: text, Engine: "elk", Kind: "near-only"})
	}
	nc := gen.NearConstants
	for i, a := range nc {
		add(fmt.Sprintf("a: {near: %s}\n", a))
		for j := i + 1; j < len(nc); j++ {
			add(fmt.Sprintf("a: {near: %s}\nb: {near: %s}\n", a, nc[j]))
			if (i+j)%3 == 0 {
				k := (i + 2*j + 1) % len(nc)
				if k != i && k != j {
					add(fmt.Sprintf("a: {near: %s; x -> y}\nb: {near: %s}\nc: long label here {near: %s}\n", a, nc[j], nc[k]))
				}
			}
		}
	}
	return out
}

func genC17(t *rapid.T) layCase {
	if gen.Pick(t, "nearonly", 12, 1) == 1 {
		// every root shape at a near constant
		n := rapid.IntRange(1, 4).Draw(t, "nn")
		var sb strings.Builder
		for i := 0; i < n; i++ {
			body := ""
			if rapid.IntRange(0, 3).Draw(t, "cont") == 0 {
				body = "; p -> q"
			}
			fmt.Fprintf(&sb, "n%d: {near: %s%s}\n", i, rapid.SampledFrom(gen.NearConstants).Draw(t, "nc"), body)
		}
		return layCase{Text: sb.String(), Engine: rapid.SampledFrom([]string{"dagre", "elk"}).Draw(t, "eng"), Kind: "near-only"}
	}
	return genLayCase(t, gen.LayoutDiagramOpts(), "diagram")
}

func TestC17(t *testing.T) {
	hx.Run(t, hx.Spec[layCase]{Prop: "C17", Core: coreC17, Gen: genC17, Check: checkC17, Timeout: 180 * time.Second})
}
