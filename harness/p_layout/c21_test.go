package p_layout

import (
	"fmt"
	"math"
	"strings"
	"testing"
	"time"

	"oss.terrastruct.com/d2/d2graph"
	"oss.terrastruct.com/d2/d2target"
	"oss.terrastruct.com/d2/lib/geo"
	"oss.terrastruct.com/d2/lib/label"
	"oss.terrastruct.com/d2/lib/shape"
	"pgregory.net/rapid"

	"verif/harness/gen"
	"verif/harness/hx"
)

// C21: explicit sizes are honoured and automatic sizes fit the label.
type c21Shape struct {
	Shape  string `json:"shape"`
	Label  string `json:"label"`
	Style  string `json:"style,omitempty"` // extra attribute lines
	W      int    `json:"w,omitempty"` // 0 = not given
	HExpl  int    `json:"h,omitempty"`
	Body   string `json:"body,omitempty"` // class/sql_table fields
	Block  string `json:"block,omitempty"`
}

type c21Case struct {
	Shapes []c21Shape `json:"shapes"`
	Engine string     `json:"engine"`
}

func (c c21Case) text() string {
	var sb strings.Builder
	for i, s := range c.Shapes {
		if s.Block != "" {
			fmt.Fprintf(&sb, "n%d: |%s\n  %s\n| {\n", i, s.Block, strings.ReplaceAll(s.Label, "\n", "\n  "))
		} else {
			fmt.Fprintf(&sb, "n%d: %s {\n", i, gen.QuoteValue(s.Label))
			if s.Shape != "" {
				fmt.Fprintf(&sb, "  shape: %s\n", s.Shape)
			}
		}
		if s.W > 0 {
			fmt.Fprintf(&sb, "  width: %d\n", s.W)
		}
		if s.HExpl > 0 {
			fmt.Fprintf(&sb, "  height: %d\n", s.HExpl)
		}
		if s.Style != "" {
			sb.WriteString("  " + s.Style + "\n")
		}
		if s.Body != "" {
			sb.WriteString("  " + s.Body + "\n")
		}
		sb.WriteString("}\n")
	}
	if len(c.Shapes) > 1 {
		sb.WriteString("n0 -> n1\n")
	}
	return sb.String()
}

func checkC21(h *hx.H, c c21Case) {
	h.Label("engine:" + c.Engine)
	text := c.text()
	_, g := runLayout(h, layCase{Text: text, Engine: c.Engine})
	rich := false
	for i, s := range c.Shapes {
		var o *d2graph.Object
		for _, x := range g.Objects {
			if x.AbsID() == fmt.Sprintf("n%d", i) {
				o = x
			}
		}
		if o == nil {
			h.Failf("object-missing", "n%d missing", i)
		}
		sh := strings.ToLower(o.Shape.Value)
		h.Label("shape:" + sh)
		desc := fmt.Sprintf("n%d (shape %s, label %q, %s) laid out %.1fx%.1f (%s)\n%s", i, sh, s.Label, s.Style, o.Width, o.Height, c.Engine, text)
		contentBound := sh == "class" || sh == "sql_table" || sh == "code" || o.Language != ""
		sfx := ""
		if c.Engine == "elk" && o.Icon != nil {
			sfx = "@elk-icon" // ELK reserves room for the icon next to the label and grows the node
		}
		if s.W > 0 && s.HExpl > 0 {
			h.Label("explicit_both")
			w, ht := float64(s.W), float64(s.HExpl)
			switch {
			case sh == "square" || sh == "circle":
				m := math.Max(w, ht)
				if math.Abs(o.Width-m) > 0.5 || math.Abs(o.Height-m) > 0.5 {
					h.FailSoft("explicit-not-honoured"+sfx+func() string { if sfx == "" { return ":square-" + sh }; return "" }(), "requested %dx%d, a %s must be %.0fx%.0f: %s", s.W, s.HExpl, sh, m, m, desc)
				}
			case contentBound:
				if o.Width < w-0.5 || o.Height < ht-0.5 {
					h.FailSoft("explicit-shrunk:"+sh+sfx, "requested %dx%d but laid out smaller: %s", s.W, s.HExpl, desc)
				}
			default:
				if math.Abs(o.Width-w) > 0.5 || math.Abs(o.Height-ht) > 0.5 {
					h.FailSoft("explicit-not-honoured"+sfx+func() string { if sfx == "" { return ":" + sh }; return "" }(), "requested exactly %dx%d: %s", s.W, s.HExpl, desc)
				}
			}
		}
		if contentBound && (s.W > 0 || s.HExpl > 0) {
			// tables, classes and code never shrink below their content: the automatic size of the
			// same shape (the same diagram without this shape's explicit size), less its padding, is a lower bound
			h.Label("explicit_on_content_bound")
			twin := c
			twin.Shapes = append([]c21Shape{}, c.Shapes...)
			twin.Shapes[i].W, twin.Shapes[i].HExpl = 0, 0
			_, g2 := runLayout(h, layCase{Text: twin.text(), Engine: c.Engine})
			for _, x := range g2.Objects {
				if x.AbsID() == fmt.Sprintf("n%d", i) {
					// (the automatic size includes up to 10 px of padding that an explicit size may take away)
					// and rows lose their 5 px of padding each: 80 % of the automatic size less 10 px is below any content
					if o.Width < 0.8*x.Width-10.5 || o.Height < 0.8*x.Height-10.5 {
						h.FailSoft("shrunk-below-content:"+sh+sfx, "with explicit size %dx%d the shape is %.1fx%.1f, smaller than its automatic size %.1fx%.1f: %s", s.W, s.HExpl, o.Width, o.Height, x.Width, x.Height, desc)
					}
				}
			}
		}
		if s.W == 0 && s.HExpl == 0 && o.HasLabel() && o.LabelPosition != nil && !label.FromString(*o.LabelPosition).IsOutside() && !label.FromString(*o.LabelPosition).IsBorder() && !contentBound && o.Icon == nil {
			h.Label("automatic")
			st := d2target.DSL_SHAPE_TO_SHAPE_TYPE[sh]
			sp := shape.NewShape(st, geo.NewBox(geo.NewPoint(o.TopLeft.X, o.TopLeft.Y), o.Width, o.Height))
			if o.ContentAspectRatio != nil {
				sp.SetInnerBoxAspectRatio(*o.ContentAspectRatio)
			}
			ib := sp.GetInnerBox()
			lw, lh := float64(o.LabelDimensions.Width), float64(o.LabelDimensions.Height)
			if ib.Width < lw-2 || ib.Height < lh-2 { // 2 px: integer rounding of the box and of the text area
				sig := "auto-size-too-small:" + sh
				h.FailSoft(sig, "label %dx%d does not fit the text area %.1fx%.1f of the automatically sized shape: %s", o.LabelDimensions.Width, o.LabelDimensions.Height, ib.Width, ib.Height, desc)
			}
			if ib.TopLeft.X < o.TopLeft.X-1 || ib.TopLeft.Y < o.TopLeft.Y-1 || ib.TopLeft.X+ib.Width > o.TopLeft.X+o.Width+1 || ib.TopLeft.Y+ib.Height > o.TopLeft.Y+o.Height+1 {
				h.FailSoft("text-area-outside-shape:"+sh, "text area [%.1f,%.1f %.1fx%.1f] leaves the shape's box: %s", ib.TopLeft.X, ib.TopLeft.Y, ib.Width, ib.Height, desc)
			}
		}
		if (sh != "rectangle" && sh != "") || len([]rune(s.Label)) > 20 {
			rich = true
		}
	}
	h.NonTrivial(rich)
}

var c21Shapes = append(append([]string{}, gen.SimpleShapes...), "text", "code", "class", "sql_table")

func genC21Shape(t *rapid.T) c21Shape {
	s := c21Shape{Shape: rapid.SampledFrom(c21Shapes).Draw(t, "shape")}
	switch gen.Pick(t, "lbl", 3, 2, 2, 1, 1) {
	case 0:
		s.Label = rapid.SampledFrom([]string{"x", "Hello", "A label", "user-service"}).Draw(t, "l")
	case 1:
		s.Label = strings.TrimSpace(strings.Repeat("word ", rapid.IntRange(1, 25).Draw(t, "words")))
	case 2:
		s.Label = rapid.SampledFrom([]string{"two\nlines", "three\nseparate\nlines", "a\n\nb", "wide line here\nx"}).Draw(t, "ml")
	case 3:
		s.Label = rapid.SampledFrom([]string{"héllo wörld", "日本語のラベル", "Ελληνικά", "WWWWWWWWWW", "iiiiiiiiii"}).Draw(t, "ul")
	default:
		s.Label = ""
	}
	var st []string
	if rapid.Bool().Draw(t, "fs") {
		st = append(st, fmt.Sprintf("style.font-size: %d", rapid.IntRange(8, 100).Draw(t, "fsv")))
	}
	if gen.Pick(t, "bold", 3, 1) == 1 {
		st = append(st, "style.bold: "+rapid.SampledFrom([]string{"true", "false"}).Draw(t, "b"))
	}
	if gen.Pick(t, "italic", 3, 1) == 1 {
		st = append(st, "style.italic: true")
	}
	if gen.Pick(t, "mono", 5, 1) == 1 {
		st = append(st, "style.font: mono")
	}
	if gen.Pick(t, "icon", 5, 1) == 1 {
		st = append(st, "icon: https://icons.terrastruct.com/essentials/004-picture.svg")
	}
	s.Style = strings.Join(st, "\n  ")
	switch gen.Pick(t, "dims", 3, 3, 1, 1) {
	case 1:
		s.W, s.HExpl = rapid.IntRange(1, 800).Draw(t, "w"), rapid.IntRange(1, 600).Draw(t, "h")
		if s.Shape == "square" || s.Shape == "circle" {
			s.HExpl = s.W // the compiler rejects unequal explicit sides for these
		}
	case 2:
		s.W = rapid.IntRange(1, 800).Draw(t, "w1")
	case 3:
		s.HExpl = rapid.IntRange(1, 600).Draw(t, "h1")
	}
	switch s.Shape {
	case "class":
		s.Body = rapid.SampledFrom([]string{"+id: int", "+id: int\n  -name: string\n  getName(): string", ""}).Draw(t, "cb")
		if strings.Contains(s.Label, "\n") {
			s.Label = "C"
		}
	case "sql_table":
		s.Body = rapid.SampledFrom([]string{"id: int", "id: int {constraint: primary_key}\n  a_rather_long_column_name: varchar(255)", ""}).Draw(t, "tb")
		if strings.Contains(s.Label, "\n") {
			s.Label = "T"
		}
	case "code":
		s.Shape, s.Block, s.Label, s.Style = "", rapid.SampledFrom([]string{"go", "sql", "txt"}).Draw(t, "lang"), rapid.SampledFrom([]string{"x := 1", "func main() {\n  fmt.Println(\"hello world\")\n}"}).Draw(t, "code"), ""
	}
	return s
}

func genC21(t *rapid.T) c21Case {
	c := c21Case{Engine: engineOf(t)}
	n := rapid.IntRange(2, 5).Draw(t, "n")
	for i := 0; i < n; i++ {
		c.Shapes = append(c.Shapes, genC21Shape(t))
	}
	return c
}

func coreC21() []c21Case {
	var out []c21Case
	for _, e := range []string{"dagre", "elk"} {
		var all, sized []c21Shape
		for _, sh := range c21Shapes {
			if sh == "code" {
				continue
			}
			all = append(all, c21Shape{Shape: sh, Label: "A fairly long label for " + sh})
			sized = append(sized, c21Shape{Shape: sh, Label: "x", W: 123, HExpl: 123})
		}
		for i := 0; i+3 <= len(all); i += 3 {
			out = append(out, c21Case{Shapes: all[i : i+3], Engine: e}, c21Case{Shapes: sized[i : i+3], Engine: e})
		}
		out = append(out, c21Case{Engine: e, Shapes: []c21Shape{{Shape: "rectangle", Label: "x", W: 300, HExpl: 20}, {Shape: "oval", Label: "x", W: 10, HExpl: 400}, {Shape: "person", Label: "x", W: 500, HExpl: 30}, {Shape: "cloud", Label: "lots of text in a cloud", W: 40, HExpl: 40}}})
	}
	return out
}

func TestC21(t *testing.T) {
	hx.Run(t, hx.Spec[c21Case]{Prop: "C21", Core: coreC21, Gen: genC21, Check: checkC21, Timeout: 180 * time.Second})
}
