package p_layout

import (
	"fmt"
	"math"
	"strings"
	"testing"
	"time"

	"oss.terrastruct.com/d2/d2graph"
	"oss.terrastruct.com/d2/d2target"
	"oss.terrastruct.com/d2/lib/geo"
	"oss.terrastruct.com/d2/lib/label"
	"oss.terrastruct.com/d2/lib/shape"
	"pgregory.net/rapid"

	"verif/harness/gen"
	"verif/harness/geom"
	"verif/harness/hx"
)

// C20: connections start at their source and end at their destination.
//
// Visual extent of an endpoint, built independently of Shape.Perimeter(): the outline obtained by
// flattening the shape's SVG path data (ellipse for oval/circle, the box when there is no
// path), the same outline shifted by the 3D/multiple offset, and the borders of the padded
// outside-label box and of the outside-icon box.
const tolC20 = 3.0

func outlineOf(o *d2graph.Object) []geom.Poly {
	box := geo.NewBox(geo.NewPoint(o.TopLeft.X, o.TopLeft.Y), o.Width, o.Height)
	st := d2target.DSL_SHAPE_TO_SHAPE_TYPE[strings.ToLower(o.Shape.Value)]
	var polys []geom.Poly
	switch st {
	case shape.OVAL_TYPE, shape.CIRCLE_TYPE:
		polys = append(polys, geom.Ellipse(geom.Pt{X: o.TopLeft.X + o.Width/2, Y: o.TopLeft.Y + o.Height/2}, o.Width/2, o.Height/2, 0.05))
	default:
		s := shape.NewShape(st, box)
		for _, d := range s.GetSVGPathData() {
			ps, err := geom.FlattenPath(d, 0.05)
			if err == nil {
				polys = append(polys, ps...)
			}
		}
	}
	// the box border is always part of the extent ("the shape's box extended by ...")
	polys = append(polys, geom.Rect(o.TopLeft.X, o.TopLeft.Y, o.Width, o.Height))
	dx, dy := o.GetModifierElementAdjustments()
	if dx != 0 || dy != 0 {
		n := len(polys)
		for i := 0; i < n; i++ {
			var q geom.Poly
			q = polys[i]
			pts := make([]geom.Pt, len(q.Pts))
			for j, p := range q.Pts {
				pts[j] = geom.Pt{X: p.X + dx, Y: p.Y - dy}
			}
			q.Pts = pts
			polys = append(polys, q)
		}
	}
	if o.HasLabel() && o.LabelPosition != nil {
		lp := label.FromString(*o.LabelPosition)
		if lp.IsOutside() {
			lw, lh := float64(o.LabelDimensions.Width), float64(o.LabelDimensions.Height)
			tl := lp.GetPointOnBox(box, label.PADDING, lw, lh)
			polys = append(polys, geom.Rect(tl.X-label.PADDING, tl.Y, lw+2*label.PADDING, lh), geom.Rect(tl.X, tl.Y, lw, lh))
		}
	}
	if o.HasIcon() && o.IconPosition != nil {
		ip := label.FromString(*o.IconPosition)
		if ip.IsOutside() {
			tl := ip.GetPointOnBox(box, label.PADDING, d2target.MAX_ICON_SIZE, d2target.MAX_ICON_SIZE)
			polys = append(polys, geom.Rect(tl.X, tl.Y, d2target.MAX_ICON_SIZE, d2target.MAX_ICON_SIZE))
		}
	}
	// "the shape's box extended by its outside label and icon": the border of the box grown to
	// cover them (the margin the layout engines reserve) is part of the extent as well
	x1, y1, x2, y2 := o.TopLeft.X, o.TopLeft.Y, o.TopLeft.X+o.Width, o.TopLeft.Y+o.Height
	grown := false
	for _, q := range polys {
		for _, p := range q.Pts {
			if p.X < x1-0.01 || p.Y < y1-0.01 || p.X > x2+0.01 || p.Y > y2+0.01 {
				grown = true
			}
			x1, y1, x2, y2 = math.Min(x1, p.X), math.Min(y1, p.Y), math.Max(x2, p.X), math.Max(y2, p.Y)
		}
	}
	if grown {
		polys = append(polys, geom.Rect(x1, y1, x2-x1, y2-y1))
	}
	return polys
}

func endKind(o *d2graph.Object) string {
	switch {
	case o.Is3D() || o.IsMultiple():
		return "3d-multiple"
	case len(o.ChildrenArray) > 0:
		return "container"
	case o.Shape.Value == "" || o.Shape.Value == "rectangle" || o.Shape.Value == "square" || o.Shape.Value == "text" || o.Shape.Value == "code" || o.Shape.Value == "class" || o.Shape.Value == "sql_table" || o.Shape.Value == "image":
		return "rect"
	default:
		return o.Shape.Value
	}
}

func checkC20(h *hx.H, c layCase) {
	h.Label("engine:"+c.Engine, "kind:"+c.Kind)
	textFeatureLabels(h, c.Text)
	d, g := runLayout(h, c)
	rich := false
	hist := map[string]int64{}
	eachBoard(d, g, "root", func(bp string, bd *d2target.Diagram, bg *d2graph.Graph) {
		for _, e := range bg.Edges {
			if isLifelineEdge(e) || inSequence(e.Src) || inSequence(e.Dst) || e.Src.IsSequenceDiagram() && e.Dst.IsSequenceDiagram() && e.Src == e.Dst {
				continue
			}
			if len(e.Route) < 2 {
				continue // C17
			}
			for k, o := range []*d2graph.Object{e.Src, e.Dst} {
				p := e.Route[0]
				if k == 1 {
					p = e.Route[len(e.Route)-1]
				}
				dist := geom.DistTo(geom.Pt{X: p.X, Y: p.Y}, outlineOf(o))
				b := int(math.Min(dist, 9))
				hist[fmt.Sprintf("%d", b)]++
				kind := endKind(o)
				if kind != "rect" {
					rich = true
				}
				if endKind(e.Src) == "3d-multiple" || endKind(e.Dst) == "3d-multiple" {
					kind = "3d-multiple" // the route of such a connection is shifted as a whole
				}
				if dist > tolC20 {
					end := "source"
					if k == 1 {
						end = "destination"
					}
					h.FailSoft(c20sig(c, kind), "%s (%s): the %s end (%.1f,%.1f) of %s is %.1f px away from the visual extent of %s [%.1f,%.1f %.1fx%.1f shape %s]\n%s", bp, c.Engine, end, p.X, p.Y, e.AbsID(), dist, o.AbsID(), o.TopLeft.X, o.TopLeft.Y, o.Width, o.Height, o.Shape.Value, c.Text)
				}
			}
		}
	})
	h.Extra("deviation_px_histogram", hist)
	h.NonTrivial(rich)
}

func c20sig(c layCase, kind string) string {
	if kind == "3d-multiple" {
		return "end-off-extent:3d-multiple"
	}
	if c.Kind == "tame" || c.Kind == "snippet" || c.Kind == "leafdeco" {
		return "end-off-extent:" + kind
	}
	return "end-off-extent@unrestricted-diagram"
}

// genLeafDeco: root-level leaves only (no containers, no 3d/multiple), some with an outside
// label or icon, long or multi-line labels, any root direction, both engines: the margins that
// outside labels and icons need are added before layout and taken away after it, and every
// connection end has to be moved along. Asserted strictly (kind "leafdeco").
func genLeafDeco(t *rapid.T) layCase {
	var sb strings.Builder
	if d := rapid.SampledFrom([]string{"", "up", "up", "down", "left", "right"}).Draw(t, "dir"); d != "" {
		fmt.Fprintf(&sb, "direction: %s\n", d)
	}
	n := rapid.IntRange(2, 6).Draw(t, "n")
	outside := []string{"outside-top-left", "outside-top-center", "outside-top-right", "outside-bottom-left", "outside-bottom-center", "outside-bottom-right", "outside-left-center", "outside-right-center"}
	for i := 0; i < n; i++ {
		lbl := rapid.SampledFrom([]string{"x", "node", "a longer label here", "two\\nlines", "three\\nline\\nlabel"}).Draw(t, "lbl")
		fmt.Fprintf(&sb, "n%d: \"%s\" {\n", i, lbl)
		switch rapid.IntRange(0, 5).Draw(t, "deco") {
		case 0, 1:
			fmt.Fprintf(&sb, "  label.near: %s\n", rapid.SampledFrom(outside).Draw(t, "lnear"))
		case 2:
			fmt.Fprintf(&sb, "  icon: https://icons.terrastruct.com/essentials/004-picture.svg\n  icon.near: %s\n", rapid.SampledFrom(outside).Draw(t, "inear"))
		case 3:
			fmt.Fprintf(&sb, "  label.near: %s\n", rapid.SampledFrom([]string{"top-center", "bottom-center", "top-left", "bottom-right", "center-left"}).Draw(t, "lin"))
		}
		sb.WriteString("}\n")
	}
	ne := rapid.IntRange(1, 6).Draw(t, "ne")
	for i := 0; i < ne; i++ {
		a, b := rapid.IntRange(0, n-1).Draw(t, "ea"), rapid.IntRange(0, n-1).Draw(t, "eb")
		if a == b {
			continue
		}
		fmt.Fprintf(&sb, "n%d -> n%d\n", a, b)
	}
	// strict only where d2 is clean: ELK without outside icons. With dagre (root direction
	// left/right) and with outside icons ends float 4-30 px off also on the unchanged tree; those
	// diagrams count as unrestricted (known finding)
	eng := rapid.SampledFrom([]string{"elk", "elk", "dagre"}).Draw(t, "eng")
	kind := "leafdeco"
	if eng == "dagre" || strings.Contains(sb.String(), "icon.near") {
		kind = "leafdeco-open"
	}
	return layCase{Text: sb.String(), Engine: eng, Kind: kind}
}

func genC20(t *rapid.T) layCase {
	if gen.Pick(t, "leafdeco", 2, 1) == 1 {
		return genLeafDeco(t)
	}
	if gen.Pick(t, "tame", 2, 1) == 0 {
		o := gen.TameDiagramOpts()
		o.Grids, o.Sequences = true, true
		o.MaxEdges = 16
		return genLayCase(t, o, "tame")
	}
	o := gen.LayoutDiagramOpts()
	o.MaxEdges = 16
	return genLayCase(t, o, "diagram")
}

func TestC20(t *testing.T) {
	hx.Run(t, hx.Spec[layCase]{Prop: "C20", Core: func() []layCase { return bothEngines(layoutSnippets, "snippet") }, Gen: genC20, Check: checkC20, Timeout: 180 * time.Second})
}
