package p_layout

import (
	"fmt"
	"math"
	"strings"
	"testing"
	"time"

	"oss.terrastruct.com/d2/d2graph"
	"pgregory.net/rapid"

	"verif/harness/gen"
	"verif/harness/hx"
)

// C24: constant-near shapes are placed outside the main diagram on the requested side.
type c24Case struct {
	Lay layCase `json:"lay"`
}

func checkC24(h *hx.H, c c24Case) {
	h.Label("engine:" + c.Lay.Engine)
	d, g := runLayout(h, c.Lay)
	if g.Root.IsSequenceDiagram() || g.Root.IsGridDiagram() {
		h.Reject("root-is-special")
	}
	// main diagram = root-level objects without a constant near, with everything inside them
	isNear := func(o *d2graph.Object) bool {
		if o.NearKey == nil || len(o.NearKey.Path) != 1 {
			return false
		}
		for _, k := range gen.NearConstants {
			if o.NearKey.Path[0].Unbox().ScalarString() == k {
				return true
			}
		}
		return false
	}
	x0, y0, x1, y1 := math.Inf(1), math.Inf(1), math.Inf(-1), math.Inf(-1)
	nmain := 0
	for _, o := range g.Root.ChildrenArray {
		if isNear(o) {
			continue
		}
		nmain++
		x0, y0 = math.Min(x0, o.TopLeft.X), math.Min(y0, o.TopLeft.Y)
		x1, y1 = math.Max(x1, o.TopLeft.X+o.Width), math.Max(y1, o.TopLeft.Y+o.Height)
	}
	if nmain == 0 {
		h.Reject("no-main-content")
	}
	// the alternative reading of "bounding box of the main diagram": shapes plus outside labels and routes
	ex0, ey0, ex1, ey1 := x0, y0, x1, y1
	for _, e := range g.Edges {
		if isNear(rootAncestor(e.Src)) || isNear(rootAncestor(e.Dst)) {
			continue
		}
		for _, p := range e.Route {
			ex0, ey0, ex1, ey1 = math.Min(ex0, p.X), math.Min(ey0, p.Y), math.Max(ex1, p.X), math.Max(ey1, p.Y)
		}
	}
	// widest plausible reading: everything d2 itself counts into a bounding box (labels,
	// strokes, shadows, icons...) for the main content alone
	main := *d
	main.Shapes, main.Connections = nil, nil
	nearIDs := map[string]bool{}
	for _, o := range g.Root.ChildrenArray {
		if isNear(o) {
			nearIDs[o.AbsID()] = true
		}
	}
	under := func(id string) bool {
		for n := range nearIDs {
			if id == n || strings.HasPrefix(id, n+".") {
				return true
			}
		}
		return false
	}
	for _, sh := range d.Shapes {
		if !under(sh.ID) {
			main.Shapes = append(main.Shapes, sh)
		}
	}
	for _, cn := range d.Connections {
		if !under(cn.Src) && !under(cn.Dst) {
			main.Connections = append(main.Connections, cn)
		}
	}
	btl, bbr := main.BoundingBox()
	ex0, ey0 = math.Min(ex0, float64(btl.X)), math.Min(ey0, float64(btl.Y))
	ex1, ey1 = math.Max(ex1, float64(bbr.X)), math.Max(ey1, float64(bbr.Y))
	within := func(v, a, b float64) bool { return v >= math.Min(a, b)-1.5 && v <= math.Max(a, b)+1.5 }
	// d2 counts the labels of the main diagram's connections into the box it centres on, at
	// positions it computes itself at that stage (not the exported ones): with labelled
	// connections the centre it aims at cannot be reconstructed from outside (found by the
	// thorough tier: centres 5-19 px off both candidate boxes, only in such diagrams)
	labelledConn := false
	for _, cn := range main.Connections {
		if cn.Label != "" {
			labelledConn = true
		}
	}
	nn := 0
	for _, o := range g.Root.ChildrenArray {
		if !isNear(o) {
			continue
		}
		nn++
		pos := o.NearKey.Path[0].Unbox().ScalarString()
		h.Label("pos:" + pos)
		l, tp, rt, b := o.TopLeft.X, o.TopLeft.Y, o.TopLeft.X+o.Width, o.TopLeft.Y+o.Height
		desc := fmt.Sprintf("near shape %s at %s [%.1f,%.1f - %.1f,%.1f], main shapes box [%.1f,%.1f - %.1f,%.1f] (%s)\n%s", o.AbsID(), pos, l, tp, rt, b, x0, y0, x1, y1, c.Lay.Engine, c.Lay.Text)
		const tol = 1.0
		if strings.HasPrefix(pos, "top") && b > y0+tol {
			h.Failf("not-above", "not entirely above the main diagram: %s", desc)
		}
		if strings.HasPrefix(pos, "bottom") && tp < y1-tol {
			h.Failf("not-below", "not entirely below the main diagram: %s", desc)
		}
		if strings.HasSuffix(pos, "left") && rt > x0+tol {
			h.Failf("not-left", "not entirely left of the main diagram: %s", desc)
		}
		if strings.HasSuffix(pos, "right") && l < x1-tol {
			h.Failf("not-right", "not entirely right of the main diagram: %s", desc)
		}
		if pos == "top-center" || pos == "bottom-center" {
			cx := (l + rt) / 2
			if !within(cx, (x0+x1)/2, (ex0+ex1)/2) && (labelledConn || math.Abs((x0+x1)/2-(ex0+ex1)/2) > 1.5) {
				h.Gray() // labels/routes stick out of the shapes: which box is meant is not stated
			} else if !within(cx, (x0+x1)/2, (ex0+ex1)/2) {
				h.Failf("not-h-centered", "not centred horizontally (centre %.1f, shapes box centre %.1f, extended box centre %.1f): %s", cx, (x0+x1)/2, (ex0+ex1)/2, desc)
			}
		}
		if pos == "center-left" || pos == "center-right" {
			cy := (tp + b) / 2
			if !within(cy, (y0+y1)/2, (ey0+ey1)/2) && (labelledConn || math.Abs((y0+y1)/2-(ey0+ey1)/2) > 1.5) {
				h.Gray()
			} else if !within(cy, (y0+y1)/2, (ey0+ey1)/2) {
				h.Failf("not-v-centered", "not centred vertically (centre %.1f, shapes box centre %.1f, extended box centre %.1f): %s", cy, (y0+y1)/2, (ey0+ey1)/2, desc)
			}
		}
	}
	if nn == 0 {
		h.Reject("no-near")
	}
	h.NonTrivial(nmain >= 3 && nn >= 2)
}

func rootAncestor(o *d2graph.Object) *d2graph.Object {
	for o.Parent != nil && o.Parent.Parent != nil {
		o = o.Parent
	}
	return o
}

func genC24(t *rapid.T) c24Case {
	o := gen.DiagramOpts{MaxObjects: 10, MaxDepth: 2, MaxEdges: 8, Shapes: true, Labels: true, Sizes: true, Directions: true, Positions: true}
	d := gen.GenDiagram(t, o)
	var sb strings.Builder
	sb.WriteString(d.Text())
	k := rapid.IntRange(1, 8).Draw(t, "nnear")
	for i := 0; i < k; i++ {
		pos := rapid.SampledFrom(gen.NearConstants).Draw(t, "pos")
		switch gen.Pick(t, "nk", 2, 1, 1) {
		case 0:
			fmt.Fprintf(&sb, "near%d: %s {near: %s}\n", i, gen.QuoteValue(strings.Repeat("t", rapid.IntRange(1, 40).Draw(t, "len"))), pos)
		case 1:
			fmt.Fprintf(&sb, "near%d: {near: %s; p; q; p -> q}\n", i, pos)
		default:
			fmt.Fprintf(&sb, "near%d: {near: %s; shape: %s; width: %d; height: %d}\n", i, pos, rapid.SampledFrom([]string{"rectangle", "oval", "text", "person"}).Draw(t, "nshape"), rapid.IntRange(10, 400).Draw(t, "nw"), rapid.IntRange(10, 300).Draw(t, "nh"))
		}
	}
	return c24Case{Lay: layCase{Text: sb.String(), Engine: engineOf(t), Kind: "near"}}
}

func coreC24() []c24Case {
	var out []c24Case
	for _, pos := range gen.NearConstants {
		for _, e := range []string{"dagre", "elk"} {
			out = append(out, c24Case{Lay: layCase{Text: "a -> b -> c\nb -> d: a long label to widen things\nn: Title {near: " + pos + "}\nm: {near: " + pos + "; x -> y}\n", Engine: e, Kind: "core"}})
		}
	}
	return out
}

func TestC24(t *testing.T) {
	hx.Run(t, hx.Spec[c24Case]{Prop: "C24", Core: coreC24, Gen: genC24, Check: checkC24, Timeout: 180 * time.Second})
}
