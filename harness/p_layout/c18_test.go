package p_layout

import (
	"fmt"
	"sort"
	"strings"
	"testing"
	"time"

	"oss.terrastruct.com/d2/d2graph"
	"oss.terrastruct.com/d2/d2target"
	"pgregory.net/rapid"

	"verif/harness/gen"
	"verif/harness/hx"
)

// C18: layout preserves the diagram's structure.
type structSnap struct {
	Objects  []string            // AbsIDs in order
	Parent   map[string]string   // AbsID -> parent AbsID
	Children map[string][]string // AbsID ("" = root) -> children in order
	InSeq    map[string]bool     // container is (inside) a sequence diagram: children compared as a set
	Edges    []string            // "AbsID|src|dst" in order
}

func snapshot(g *d2graph.Graph) structSnap {
	s := structSnap{Parent: map[string]string{}, Children: map[string][]string{}, InSeq: map[string]bool{}}
	for _, o := range g.Objects {
		id := o.AbsID()
		s.Objects = append(s.Objects, id)
		if o.Parent != nil {
			s.Parent[id] = o.Parent.AbsID()
		}
		var ch []string
		for _, c := range o.ChildrenArray {
			ch = append(ch, c.AbsID())
		}
		s.Children[id] = ch
		if o.IsSequenceDiagram() || o.OuterSequenceDiagram() != nil {
			s.InSeq[id] = true
		}
	}
	var rc []string
	for _, c := range g.Root.ChildrenArray {
		rc = append(rc, c.AbsID())
	}
	s.Children[""] = rc
	if g.Root.IsSequenceDiagram() {
		s.InSeq[""] = true
	}
	for _, e := range g.Edges {
		if isLifelineEdge(e) {
			continue
		}
		s.Edges = append(s.Edges, e.AbsID()+"|"+e.Src.AbsID()+"|"+e.Dst.AbsID())
	}
	return s
}

func checkC18(h *hx.H, c layCase) {
	h.Label("engine:"+c.Engine, "kind:"+c.Kind)
	textFeatureLabels(h, c.Text)
	g0, _, err := compileOnly(c.Text)
	if err != nil {
		h.Reject("does-not-compile")
	}
	_, g1 := runLayout(h, c)
	specials := 0
	var cmp func(bp string, a, b *d2graph.Graph)
	cmp = func(bp string, a, b *d2graph.Graph) {
		sa, sb := snapshot(a), snapshot(b)
		if fmt.Sprint(sa.Objects) != fmt.Sprint(sb.Objects) {
			x, y := append([]string(nil), sa.Objects...), append([]string(nil), sb.Objects...)
			sort.Strings(x)
			sort.Strings(y)
			if fmt.Sprint(x) != fmt.Sprint(y) {
				h.Failf("objects-differ", "%s: layout changed the set of objects:\n before %q\n after  %q", bp, sa.Objects, sb.Objects)
			}
			h.Failf("object-order", "%s: layout changed the order of objects:\n before %q\n after  %q", bp, sa.Objects, sb.Objects)
		}
		for id, p := range sa.Parent {
			if sb.Parent[id] != p {
				h.Failf("reparented", "%s: object %s had parent %q, after layout %q", bp, id, p, sb.Parent[id])
			}
		}
		for id, ch := range sa.Children {
			ch2 := sb.Children[id]
			if sa.InSeq[id] {
				x, y := append([]string(nil), ch...), append([]string(nil), ch2...)
				sort.Strings(x)
				sort.Strings(y)
				ch, ch2 = x, y
			}
			if fmt.Sprint(ch) != fmt.Sprint(ch2) {
				h.Failf("children-differ", "%s: children of %q changed:\n before %q\n after  %q", bp, id, ch, ch2)
			}
		}
		if fmt.Sprint(sa.Edges) != fmt.Sprint(sb.Edges) {
			h.Failf("edges-differ", "%s: layout changed the connections or their order:\n before %q\n after  %q", bp, sa.Edges, sb.Edges)
		}
		for _, o := range a.Objects {
			if o.IsSequenceDiagram() || o.IsGridDiagram() || (o.NearKey != nil && o.Parent == a.Root) {
				specials++
			}
		}
		if a.Root.IsSequenceDiagram() || a.Root.IsGridDiagram() {
			specials++
		}
		pairs := [][2][]*d2graph.Graph{{a.Layers, b.Layers}, {a.Scenarios, b.Scenarios}, {a.Steps, b.Steps}}
		for _, p := range pairs {
			if len(p[0]) != len(p[1]) {
				h.Failf("boards-differ", "%s: layout changed the number of boards", bp)
			}
			for i := range p[0] {
				cmp(bp+"."+p[0][i].Name, p[0][i], p[1][i])
			}
		}
	}
	cmp("root", g0, g1)
	_ = d2target.ShapeRectangle
	h.NonTrivial(specials >= 2 || (specials >= 1 && strings.Contains(c.Text, "->")))
}

func genC18(t *rapid.T) layCase {
	o := gen.LayoutDiagramOpts()
	o.Styles, o.Icons, o.Links, o.Positions = false, false, false, false
	if gen.Pick(t, "nested", 1, 1) == 1 {
		// nest special diagrams: grid in container, sequence in grid cell's sibling, near groups with children
		d1 := gen.GenDiagram(t, o)
		inner := strings.ReplaceAll(d1.Text(), "\n", "\n  ")
		txt := "outer: {\n  " + inner + "\n}\nnr: {near: " + rapid.SampledFrom(gen.NearConstants).Draw(t, "nr") + "; k1; k2; k1 -> k2}\nouter -> plain\n"
		if strings.Contains(inner, "near: ") {
			return layCase{Text: d1.Text(), Engine: engineOf(t), Kind: "diagram"}
		}
		return layCase{Text: txt, Engine: engineOf(t), Kind: "nested"}
	}
	return genLayCase(t, o, "diagram")
}

func TestC18(t *testing.T) {
	hx.Run(t, hx.Spec[layCase]{Prop: "C18", Core: func() []layCase { return bothEngines(layoutSnippets, "snippet") }, Gen: genC18, Check: checkC18, Timeout: 180 * time.Second})
}
