package p_layout

import (
	"context"
	"fmt"
	"strconv"
	"strings"
	"testing"
	"time"

	"oss.terrastruct.com/d2/d2graph"
	"oss.terrastruct.com/d2/d2lib"
	"oss.terrastruct.com/d2/d2renderers/d2svg"
	"oss.terrastruct.com/d2/d2target"
	"oss.terrastruct.com/d2/d2themes/d2themescatalog"
	"oss.terrastruct.com/d2/lib/geo"
	"pgregory.net/rapid"

	"verif/harness/gen"
	"verif/harness/hx"
	"verif/harness/lay"
)

// C28: export is one-to-one and user styles override theme defaults.
type c28Elem struct {
	Styles [][2]string `json:"styles"` // style keyword -> value
	Shape  string      `json:"shape,omitempty"`
	Label  string      `json:"label,omitempty"`
}

type c28Case struct {
	Objs     []c28Elem `json:"objs"`
	Edges    []c28Elem `json:"edges"`
	Themes   []int64   `json:"themes"` // empty = all
	RealLayout bool    `json:"real_layout"`
}

func (c c28Case) text() string {
	var sb strings.Builder
	for i, o := range c.Objs {
		fmt.Fprintf(&sb, "o%d: %s {\n", i, gen.QuoteValue(o.Label))
		if o.Shape != "" {
			fmt.Fprintf(&sb, "  shape: %s\n", o.Shape)
		}
		for _, kv := range o.Styles {
			fmt.Fprintf(&sb, "  style.%s: %s\n", kv[0], kv[1])
		}
		if i%4 == 3 {
			sb.WriteString("  child\n")
		}
		sb.WriteString("}\n")
	}
	for i, e := range c.Edges {
		a, b := i%len(c.Objs), (i*3+1)%len(c.Objs)
		fmt.Fprintf(&sb, "o%d -> o%d: %s {\n", a, b, gen.QuoteValue(e.Label))
		for _, kv := range e.Styles {
			fmt.Fprintf(&sb, "  style.%s: %s\n", kv[0], kv[1])
		}
		sb.WriteString("}\n")
	}
	return sb.String()
}

// stubLayout places objects on a diagonal and routes connections centre to centre: positions
// are irrelevant for this property.
func stubLayout(ctx context.Context, g *d2graph.Graph) error {
	for i, o := range g.Objects {
		o.TopLeft = geo.NewPoint(float64(i*40), float64(i*30))
		if o.Width == 0 {
			o.Width, o.Height = 100, 60
		}
	}
	for _, e := range g.Edges {
		e.Route = []*geo.Point{e.Src.Center(), e.Dst.Center()}
		if e.Src == e.Dst {
			e.Route = []*geo.Point{e.Src.Center(), geo.NewPoint(e.Src.Center().X+50, e.Src.Center().Y)}
		}
	}
	return nil
}

func unq(s string) string {
	if len(s) >= 2 && s[0] == '"' {
		if u, err := strconv.Unquote(s); err == nil {
			return u
		}
	}
	return s
}

func allThemeIDs() []int64 {
	var ids []int64
	for _, t := range d2themescatalog.LightCatalog {
		ids = append(ids, t.ID)
	}
	for _, t := range d2themescatalog.DarkCatalog {
		ids = append(ids, t.ID)
	}
	return ids
}

func checkC28(h *hx.H, c c28Case) {
	text := c.text()
	themes := c.Themes
	if len(themes) == 0 {
		themes = allThemeIDs()
	}
	g0, _, err := compileOnly(text)
	if err != nil {
		h.Reject("does-not-compile")
	}
	styled := 0
	for _, tid := range themes {
		tid := tid
		eng := "dagre"
		resolver := func(string) (d2graph.LayoutGraph, error) { return stubLayout, nil }
		if c.RealLayout {
			resolver = lay.Resolver("dagre")
		}
		ro := &d2svg.RenderOpts{ThemeID: &tid}
		d, g, err := d2lib.Compile(lay.Ctx(), text, &d2lib.CompileOptions{Ruler: lay.NewRuler(), Layout: &eng, LayoutResolver: resolver}, ro)
		if err != nil {
			h.Failf("pipeline-error", "theme %d: %v\n%s", tid, err, text)
		}
		h.Label(fmt.Sprintf("theme:%d", tid))
		if len(d.Shapes) != len(g.Objects) || len(g.Objects) != len(g0.Objects) {
			h.Failf("shape-count", "theme %d: %d objects compiled, %d after layout, %d shapes exported\n%s", tid, len(g0.Objects), len(g.Objects), len(d.Shapes), text)
		}
		for i, o := range g.Objects {
			if d.Shapes[i].ID != o.AbsID() {
				h.Failf("shape-id", "theme %d: shape #%d has ID %q, object %q\n%s", tid, i, d.Shapes[i].ID, o.AbsID(), text)
			}
		}
		if len(d.Connections) != len(g.Edges) {
			h.Failf("connection-count", "theme %d: %d connections, %d exported\n%s", tid, len(g.Edges), len(d.Connections), text)
		}
		for i, e := range g.Edges {
			cn := d.Connections[i]
			if cn.ID != e.AbsID() || cn.Src != e.Src.AbsID() || cn.Dst != e.Dst.AbsID() {
				h.Failf("connection-id", "theme %d: connection #%d exported as %q (%q -> %q), graph has %q (%q -> %q)\n%s", tid, i, cn.ID, cn.Src, cn.Dst, e.AbsID(), e.Src.AbsID(), e.Dst.AbsID(), text)
			}
		}
		byID := map[string]d2target.Shape{}
		for _, s := range d.Shapes {
			byID[s.ID] = s
		}
		for i, o := range c.Objs {
			s := byID[fmt.Sprintf("o%d", i)]
			for _, kv := range o.Styles {
				styled++
				want := unq(kv[1])
				var got string
				switch kv[0] {
				case "fill":
					got = s.Fill
				case "stroke":
					got = s.Stroke
				case "stroke-width":
					got = fmt.Sprint(s.StrokeWidth)
				case "stroke-dash":
					got = fmt.Sprint(s.StrokeDash)
				case "opacity":
					got = fmt.Sprint(s.Opacity)
					want = fmt.Sprint(mustFloat(want))
				case "font-color":
					got = s.Color
				case "bold":
					got = fmt.Sprint(s.Bold)
				case "italic":
					got = fmt.Sprint(s.Italic)
				case "underline":
					got = fmt.Sprint(s.Underline)
				case "shadow":
					got = fmt.Sprint(s.Shadow)
				case "3d":
					got = fmt.Sprint(s.ThreeDee)
				case "multiple":
					got = fmt.Sprint(s.Multiple)
				case "double-border":
					got = fmt.Sprint(s.DoubleBorder)
				case "border-radius":
					got = fmt.Sprint(s.BorderRadius)
				case "font":
					got = s.FontFamily
				case "font-size":
					got = fmt.Sprint(s.FontSize)
				case "fill-pattern":
					got = s.FillPattern
				case "text-transform":
					switch want {
					case "uppercase":
						want, got = strings.ToUpper(o.Label), s.Label
					case "lowercase":
						want, got = strings.ToLower(o.Label), s.Label
					case "none":
						want, got = o.Label, s.Label
					default:
						continue
					}
				default:
					continue
				}
				if got != want {
					h.Failf("user-style-lost:"+kv[0], "theme %d: o%d has style.%s: %s but the export carries %q\n%s", tid, i, kv[0], kv[1], got, text)
				}
			}
		}
		for i, e := range c.Edges {
			cn := d.Connections[i]
			for _, kv := range e.Styles {
				styled++
				want := unq(kv[1])
				var got string
				switch kv[0] {
				case "stroke":
					got = cn.Stroke
				case "stroke-width":
					got = fmt.Sprint(cn.StrokeWidth)
				case "stroke-dash":
					got = fmt.Sprint(cn.StrokeDash)
				case "opacity":
					got = fmt.Sprint(cn.Opacity)
					want = fmt.Sprint(mustFloat(want))
				case "font-color":
					got = cn.Color
				case "bold":
					got = fmt.Sprint(cn.Bold)
				case "italic":
					got = fmt.Sprint(cn.Italic)
				case "animated":
					got = fmt.Sprint(cn.Animated)
				case "font-size":
					got = fmt.Sprint(cn.FontSize)
				case "font":
					got = cn.FontFamily
				default:
					continue
				}
				if got != want {
					h.Failf("user-style-lost:edge-"+kv[0], "theme %d: connection #%d has style.%s: %s but the export carries %q\n%s", tid, i, kv[0], kv[1], got, text)
				}
			}
		}
	}
	h.NonTrivial(styled >= 3*len(themes))
}

func mustFloat(s string) float64 {
	f, _ := strconv.ParseFloat(s, 64)
	return f
}

var c28Colors = []string{"red", "blue", "\"#ff00aa\"", "\"#0a0\"", "lightblue", "transparent", "PapayaWhip", "\"#FFFFFF\"", "\"#000000\"", "\"linear-gradient(#000, #fff)\""}

func genC28Styles(t *rapid.T, edge bool, shape string) [][2]string {
	var out [][2]string
	seen := map[string]bool{}
	n := rapid.IntRange(1, 6).Draw(t, "ns")
	for i := 0; i < n; i++ {
		var kv [2]string
		keys := []string{"fill", "stroke", "stroke-width", "stroke-dash", "opacity", "font-color", "bold", "italic", "underline", "shadow", "3d", "multiple", "double-border", "border-radius", "font", "font-size", "fill-pattern", "text-transform"}
		if edge {
			keys = []string{"stroke", "stroke-width", "stroke-dash", "opacity", "font-color", "bold", "italic", "animated", "font-size", "font"}
		}
		k := rapid.SampledFrom(keys).Draw(t, "k")
		if seen[k] {
			continue
		}
		switch k {
		case "fill", "stroke", "font-color":
			kv = [2]string{k, rapid.SampledFrom(c28Colors[:9]).Draw(t, "c")}
			if k == "fill" && !edge && rapid.Bool().Draw(t, "grad") {
				kv[1] = c28Colors[9]
			}
		case "stroke-width":
			kv = [2]string{k, fmt.Sprint(rapid.IntRange(0, 15).Draw(t, "sw"))}
		case "stroke-dash":
			kv = [2]string{k, fmt.Sprint(rapid.IntRange(0, 10).Draw(t, "sd"))}
		case "opacity":
			kv = [2]string{k, rapid.SampledFrom([]string{"0", "0.1", "0.5", "0.75", "1"}).Draw(t, "op")}
		case "bold", "italic", "underline", "shadow", "multiple", "animated":
			kv = [2]string{k, rapid.SampledFrom([]string{"true", "false"}).Draw(t, "b")}
		case "3d":
			if shape != "" && shape != "rectangle" && shape != "square" && shape != "hexagon" {
				continue
			}
			kv = [2]string{k, rapid.SampledFrom([]string{"true", "false"}).Draw(t, "b3")}
		case "double-border":
			if shape != "" && shape != "rectangle" && shape != "square" && shape != "oval" && shape != "circle" {
				continue
			}
			kv = [2]string{k, rapid.SampledFrom([]string{"true", "false"}).Draw(t, "bd")}
		case "border-radius":
			kv = [2]string{k, fmt.Sprint(rapid.IntRange(0, 30).Draw(t, "br"))}
		case "font":
			kv = [2]string{k, "mono"}
		case "font-size":
			kv = [2]string{k, fmt.Sprint(rapid.IntRange(8, 100).Draw(t, "fs"))}
		case "fill-pattern":
			kv = [2]string{k, rapid.SampledFrom([]string{"dots", "lines", "grain", "paper", "none"}).Draw(t, "fp")}
		case "text-transform":
			kv = [2]string{k, rapid.SampledFrom([]string{"uppercase", "lowercase", "none", "capitalize"}).Draw(t, "tt")}
		}
		seen[k] = true
		out = append(out, kv)
	}
	return out
}

func genC28(t *rapid.T) c28Case {
	c := c28Case{RealLayout: gen.Pick(t, "real", 8, 1) == 1}
	n := rapid.IntRange(1, 6).Draw(t, "nobj")
	for i := 0; i < n; i++ {
		sh := ""
		if rapid.Bool().Draw(t, "hasshape") {
			sh = rapid.SampledFrom(append(append([]string{}, gen.SimpleShapes...), "class", "sql_table", "text")).Draw(t, "shape")
		}
		c.Objs = append(c.Objs, c28Elem{Shape: sh, Label: rapid.SampledFrom([]string{"Mixed Case label", "x", "UPPER lower", "ünï Çödé"}).Draw(t, "lbl"), Styles: genC28Styles(t, false, sh)})
	}
	m := rapid.IntRange(0, 5).Draw(t, "nedge")
	for i := 0; i < m; i++ {
		c.Edges = append(c.Edges, c28Elem{Label: rapid.SampledFrom([]string{"", "Edge Label"}).Draw(t, "el"), Styles: genC28Styles(t, true, "")})
	}
	if c.RealLayout {
		ids := allThemeIDs()
		c.Themes = []int64{ids[rapid.IntRange(0, len(ids)-1).Draw(t, "theme")]}
	}
	return c
}

func coreC28() []c28Case {
	full := [][2]string{{"fill", "red"}, {"stroke", "blue"}, {"stroke-width", "7"}, {"stroke-dash", "3"}, {"opacity", "0.5"}, {"font-color", "\"#0a0\""}, {"bold", "false"}, {"italic", "true"}, {"underline", "true"},
		{"shadow", "true"}, {"multiple", "true"}, {"border-radius", "9"}, {"font", "mono"}, {"font-size", "33"}, {"fill-pattern", "dots"}, {"text-transform", "uppercase"}}
	efull := [][2]string{{"stroke", "red"}, {"stroke-width", "9"}, {"stroke-dash", "4"}, {"opacity", "0.1"}, {"font-color", "blue"}, {"bold", "true"}, {"italic", "true"}, {"animated", "true"}, {"font-size", "44"}}
	var out []c28Case
	for _, sh := range []string{"", "rectangle", "circle", "class", "sql_table", "text", "person", "c4-person", "cloud", "hexagon"} {
		out = append(out, c28Case{Objs: []c28Elem{{Shape: sh, Label: "Mixed Case", Styles: full}, {Label: "plain"}, {Shape: sh, Label: "x", Styles: [][2]string{{"fill", "transparent"}, {"stroke", "\"#FFFFFF\""}, {"text-transform", "none"}, {"bold", "true"}}}}, Edges: []c28Elem{{Label: "Lbl", Styles: efull}, {}}})
	}
	out = append(out, c28Case{RealLayout: true, Themes: allThemeIDs()[:3], Objs: []c28Elem{{Label: "a", Styles: full}, {Label: "b"}}, Edges: []c28Elem{{Label: "e", Styles: efull}}})
	return out
}

func TestC28(t *testing.T) {
	hx.Run(t, hx.Spec[c28Case]{Prop: "C28", Core: coreC28, Gen: genC28, Check: checkC28, Timeout: 300 * time.Second})
}
