package p_cli

import (
	"encoding/json"
	"fmt"
	"os"
	"strings"
	"testing"

	"oss.terrastruct.com/d2/d2compiler"
	"oss.terrastruct.com/d2/lib/memfs"
)

func TestZZDebug(t *testing.T) {
	f := os.Getenv("ZZ_CASE")
	if f == "" {
		t.Skip()
	}
	b, _ := os.ReadFile(f)
	var env struct{ Case c35Case }
	json.Unmarshal(b, &env)
	files, _ := env.Case.sources(env.Case.Mode == "cli")
	for k, v := range files {
		fmt.Printf("--- %s\n%s", k, v)
	}
	mfs, _ := memfs.New(files)
	g, _, err := d2compiler.Compile("index.d2", strings.NewReader(files["index.d2"]), &d2compiler.CompileOptions{FS: mfs})
	if err != nil {
		t.Fatal(err)
	}
	var bs []compiledBoard
	flattenGraph(g, nil, &bs)
	for _, cb := range bs {
		for _, o := range cb.g.Objects {
			if o.Link != nil {
				fmt.Printf("%v %s -> %q\n", cb.path, o.AbsID(), o.Link.Value)
			}
		}
	}
}
