// killat: run a command under ptrace, number (globally, across all threads) the system calls
// that touch a path starting with PREFIX, log them, and SIGKILL the whole process on entry to
// call number N (before the kernel executes it).
//
//   killat -o LOG -p PREFIX [-k N] -- cmd args...
//
// Exit status: 0 command exited 0; 137 killed at point N; 3 command ended otherwise; 2 usage or
// ptrace failure. strace's `inject=...:when=` counts per thread and cannot filter on a path
// that is not known before the run (os.CreateTemp names), hence this helper.
#define _GNU_SOURCE
#include <errno.h>
#include <fcntl.h>
#include <limits.h>
#include <signal.h>
#include <stdio.h>
#include <stdlib.h>
#include <string.h>
#include <sys/ptrace.h>
#include <linux/ptrace.h>
#include <linux/filter.h>
#include <linux/seccomp.h>
#include <stddef.h>
#include <sys/prctl.h>
#include <sys/syscall.h>
#include <sys/types.h>
#include <sys/wait.h>
#include <unistd.h>

static const char *prefix;
static size_t prefix_len;
static FILE *logf;

static int read_str(pid_t tid, unsigned long addr, char *buf, size_t n) {
	char p[64];
	snprintf(p, sizeof p, "/proc/%d/mem", tid);
	int fd = open(p, O_RDONLY);
	if (fd < 0) return -1;
	ssize_t r = pread(fd, buf, n - 1, (off_t)addr);
	close(fd);
	if (r <= 0) {
		// the string may end right before an unmapped page: read byte-wise
		size_t i = 0;
		fd = open(p, O_RDONLY);
		if (fd < 0) return -1;
		for (; i < n - 1; i++) {
			if (pread(fd, buf + i, 1, (off_t)(addr + i)) != 1) break;
			if (!buf[i]) break;
		}
		close(fd);
		buf[i] = 0;
		return i ? 0 : -1;
	}
	buf[r] = 0;
	buf[n - 1] = 0;
	return 0;
}

static void abs_path(pid_t tid, long dirfd, const char *path, char *out, size_t n) {
	if (path[0] == '/') {
		snprintf(out, n, "%s", path);
		return;
	}
	char link[64], base[PATH_MAX];
	if (dirfd == AT_FDCWD)
		snprintf(link, sizeof link, "/proc/%d/cwd", tid);
	else
		snprintf(link, sizeof link, "/proc/%d/fd/%ld", tid, dirfd);
	ssize_t r = readlink(link, base, sizeof base - 1);
	if (r < 0) r = 0;
	base[r] = 0;
	snprintf(out, n, "%s/%s", base, path);
}

static int fd_path(pid_t tid, long fd, char *out, size_t n) {
	char link[64];
	snprintf(link, sizeof link, "/proc/%d/fd/%ld", tid, fd);
	ssize_t r = readlink(link, out, n - 1);
	if (r < 0) return -1;
	out[r] = 0;
	return 0;
}

static int match(const char *p) { return strncmp(p, prefix, prefix_len) == 0; }

struct sc {
	long nr;
	const char *name;
	int kind; // 1: path at arg0; 2: dirfd arg0 + path arg1; 3: fd at arg0; 4: two paths arg0,arg1; 5: dfd,path,dfd,path; 6: epoll_ctl fd at arg2
};

static const struct sc table[] = {
	{SYS_open, "open", 1}, {SYS_creat, "creat", 1}, {SYS_unlink, "unlink", 1}, {SYS_truncate, "truncate", 1}, {SYS_chmod, "chmod", 1},
	{SYS_mkdir, "mkdir", 1}, {SYS_rmdir, "rmdir", 1}, {SYS_stat, "stat", 1}, {SYS_lstat, "lstat", 1}, {SYS_access, "access", 1},
	{SYS_openat, "openat", 2}, {SYS_unlinkat, "unlinkat", 2}, {SYS_newfstatat, "newfstatat", 2}, {SYS_mkdirat, "mkdirat", 2},
	{SYS_fchmodat, "fchmodat", 2}, {SYS_faccessat, "faccessat", 2},
	{SYS_read, "read", 3}, {SYS_write, "write", 3}, {SYS_pwrite64, "pwrite64", 3}, {SYS_writev, "writev", 3}, {SYS_close, "close", 3},
	{SYS_fsync, "fsync", 3}, {SYS_fdatasync, "fdatasync", 3}, {SYS_ftruncate, "ftruncate", 3}, {SYS_fchmod, "fchmod", 3},
	{SYS_fcntl, "fcntl", 3}, {SYS_fstat, "fstat", 3}, {SYS_lseek, "lseek", 3},
	{SYS_rename, "rename", 4}, {SYS_renameat, "renameat", 5}, {SYS_renameat2, "renameat2", 5},
	{SYS_epoll_ctl, "epoll_ctl", 6},
};

// Only the listed calls stop the tracee (seccomp RET_TRACE); everything else runs at full speed.
static int install_filter(void) {
	enum { N = sizeof table / sizeof table[0] };
	static struct sock_filter f[N + 3];
	int n = 0;
	f[n++] = (struct sock_filter)BPF_STMT(BPF_LD | BPF_W | BPF_ABS, offsetof(struct seccomp_data, nr));
	for (int t = 0; t < N; t++)
		f[n++] = (struct sock_filter)BPF_JUMP(BPF_JMP | BPF_JEQ | BPF_K, (unsigned)table[t].nr, (unsigned char)(N - t), 0);
	f[n++] = (struct sock_filter)BPF_STMT(BPF_RET | BPF_K, SECCOMP_RET_ALLOW);
	f[n++] = (struct sock_filter)BPF_STMT(BPF_RET | BPF_K, SECCOMP_RET_TRACE);
	struct sock_fprog prog = {.len = (unsigned short)n, .filter = f};
	if (prctl(PR_SET_NO_NEW_PRIVS, 1, 0, 0, 0) < 0) return -1;
	return prctl(PR_SET_SECCOMP, SECCOMP_MODE_FILTER, &prog);
}

int main(int argc, char **argv) {
	const char *logpath = NULL;
	long killn = -1;
	int i = 1;
	for (; i < argc; i++) {
		if (!strcmp(argv[i], "--")) { i++; break; }
		if (!strcmp(argv[i], "-o") && i + 1 < argc) logpath = argv[++i];
		else if (!strcmp(argv[i], "-p") && i + 1 < argc) prefix = argv[++i];
		else if (!strcmp(argv[i], "-k") && i + 1 < argc) killn = atol(argv[++i]);
		else { fprintf(stderr, "killat: bad argument %s\n", argv[i]); return 2; }
	}
	if (!logpath || !prefix || i >= argc) { fprintf(stderr, "usage: killat -o LOG -p PREFIX [-k N] -- cmd...\n"); return 2; }
	prefix_len = strlen(prefix);
	logf = fopen(logpath, "w");
	if (!logf) { perror("killat: log"); return 2; }

	pid_t child = fork();
	if (child < 0) { perror("fork"); return 2; }
	if (child == 0) {
		if (ptrace(PTRACE_TRACEME, 0, 0, 0) < 0) _exit(126);
		raise(SIGSTOP);
		if (install_filter() < 0) _exit(125);
		execvp(argv[i], argv + i);
		_exit(127);
	}
	int st;
	if (waitpid(child, &st, 0) < 0 || !WIFSTOPPED(st)) { fprintf(stderr, "killat: child did not stop\n"); return 2; }
	long opts = PTRACE_O_TRACESYSGOOD | PTRACE_O_TRACECLONE | PTRACE_O_TRACEFORK | PTRACE_O_TRACEVFORK | PTRACE_O_TRACEEXEC | PTRACE_O_EXITKILL | PTRACE_O_TRACESECCOMP;
	if (ptrace(PTRACE_SETOPTIONS, child, 0, opts) < 0) { perror("killat: setoptions"); kill(child, SIGKILL); return 2; }
	ptrace(PTRACE_CONT, child, 0, 0);

	long idx = 0;
	int exit_code = 3, killed = 0;
	for (;;) {
		pid_t tid = waitpid(-1, &st, __WALL);
		if (tid < 0) {
			if (errno == EINTR) continue;
			break; // no tracees left
		}
		if (WIFEXITED(st) || WIFSIGNALED(st)) {
			if (tid == child) exit_code = WIFEXITED(st) ? (WEXITSTATUS(st) == 0 ? 0 : 3) : 3;
			continue;
		}
		if (!WIFSTOPPED(st)) continue;
		int sig = WSTOPSIG(st);
		int ev = st >> 16;
		if (sig == SIGTRAP && ev == PTRACE_EVENT_SECCOMP) {
			struct ptrace_syscall_info si;
			memset(&si, 0, sizeof si);
			if (ptrace(PTRACE_GET_SYSCALL_INFO, tid, (void *)sizeof si, &si) > 0 && si.op == PTRACE_SYSCALL_INFO_SECCOMP && !killed) {
				long nr = (long)si.seccomp.nr;
				for (size_t t = 0; t < sizeof table / sizeof table[0]; t++) {
					if (table[t].nr != nr) continue;
					char p1[PATH_MAX * 2] = "", p2[PATH_MAX * 2] = "", raw[PATH_MAX];
					__u64 *a = si.seccomp.args;
					switch (table[t].kind) {
					case 1: if (!read_str(tid, a[0], raw, sizeof raw)) abs_path(tid, AT_FDCWD, raw, p1, sizeof p1); break;
					case 2: if (!read_str(tid, a[1], raw, sizeof raw)) abs_path(tid, (long)(int)a[0], raw, p1, sizeof p1); break;
					case 3: fd_path(tid, (long)(int)a[0], p1, sizeof p1); break;
					case 4:
						if (!read_str(tid, a[0], raw, sizeof raw)) abs_path(tid, AT_FDCWD, raw, p1, sizeof p1);
						if (!read_str(tid, a[1], raw, sizeof raw)) abs_path(tid, AT_FDCWD, raw, p2, sizeof p2);
						break;
					case 5:
						if (!read_str(tid, a[1], raw, sizeof raw)) abs_path(tid, (long)(int)a[0], raw, p1, sizeof p1);
						if (!read_str(tid, a[3], raw, sizeof raw)) abs_path(tid, (long)(int)a[2], raw, p2, sizeof p2);
						break;
					case 6: fd_path(tid, (long)(int)a[2], p1, sizeof p1); break;
					}
					if (match(p1) || (p2[0] && match(p2))) {
						idx++;
						long flags = table[t].kind == 2 && nr == SYS_openat ? (long)a[2] : 0;
						fprintf(logf, "%ld %s %s%s%s flags=0x%lx\n", idx, table[t].name, p1, p2[0] ? " -> " : "", p2, flags);
						fflush(logf);
						if (idx == killn) {
							fprintf(logf, "KILLED %ld\n", idx);
							fflush(logf);
							kill(child, SIGKILL); // the whole thread group dies before the call runs
							killed = 1;
						}
					}
					break;
				}
			}
			ptrace(PTRACE_CONT, tid, 0, 0);
			continue;
		}
		if (sig == SIGTRAP && ev != 0) { // clone/fork/exec events
			ptrace(PTRACE_CONT, tid, 0, 0);
			continue;
		}
		if (sig == SIGSTOP && tid != child) { // initial stop of a new thread (may also be a real SIGSTOP: harmless to swallow)
			ptrace(PTRACE_CONT, tid, 0, 0);
			continue;
		}
		ptrace(PTRACE_CONT, tid, 0, sig); // deliver the signal (SIGURG pre-emption etc.)
	}
	fclose(logf);
	return killed ? 137 : exit_code;
}
