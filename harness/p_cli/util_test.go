package p_cli

import (
	"bytes"
	"context"
	"crypto/sha256"
	"errors"
	"fmt"
	"io/fs"
	"os"
	"os/exec"
	"path/filepath"
	"sort"
	"strings"
	"sync/atomic"
	"syscall"
	"testing"
	"time"

	"verif/harness/hx"
)

// ---------------------------------------------------------------------------------------
// Harness errors (time-outs, strace failures, sandbox set-up problems) are never property
// violations. They are counted, the case is rejected, and the test function fails at the
// end WITHOUT a recorded failure, which the driver reports as INCONCLUSIVE.
// ---------------------------------------------------------------------------------------

var harnessErrs atomic.Int64
var harnessErrFirst atomic.Value // string

func harnessError(h *hx.H, why string, format string, args ...any) {
	harnessErrs.Add(1)
	msg := why + ": " + fmt.Sprintf(format, args...)
	harnessErrFirst.CompareAndSwap(nil, msg)
	fmt.Fprintf(os.Stderr, "HARNESS-ERROR %s\n", msg)
	h.AddExtra("harness_errors", 1)
	h.Reject("harness-error:" + why)
}

func reportHarnessErrors(t *testing.T) {
	if n := harnessErrs.Load(); n > 0 {
		first, _ := harnessErrFirst.Load().(string)
		t.Errorf("inconclusive: %d harness error(s), first: %s", n, first)
	}
}

// ---------------------------------------------------------------------------------------
// Locations
// ---------------------------------------------------------------------------------------

var workRoot = func() string {
	w := os.Getenv("VERIF_WORK")
	if w == "" || !filepath.IsAbs(w) {
		d, err := os.MkdirTemp("", "p_cli-work-")
		if err != nil {
			panic(err)
		}
		w = d
	}
	w = filepath.Clean(w)
	if err := os.MkdirAll(w, 0o755); err != nil {
		panic(err)
	}
	// a real path: the CLI prints paths relative to its working directory
	if r, err := filepath.EvalSymlinks(w); err == nil {
		w = r
	}
	return w
}()

func cliPath() string {
	b := os.Getenv("VERIF_BIN")
	if b == "" {
		root := os.Getenv("VERIF_ROOT")
		if root == "" {
			root = "/verif"
		}
		b = filepath.Join(root, "work", "bin")
	}
	return filepath.Join(b, "d2")
}

// ---------------------------------------------------------------------------------------
// Sandbox: <work>/sb/<pid>-<n>/l1/l2/l3/l4/l5/ with a sentinel file at every level. The CLI
// calls os.RemoveAll on paths derived from board names; each ".." in a board name climbs at
// most one directory from <deep>/out/o, so with at most maxDotDot (2) of them per board path
// nothing above l4 can be reached.
// ---------------------------------------------------------------------------------------

const maxDotDot = 2

var sbCounter atomic.Int64

type sandbox struct {
	Root string   // <work>/sb/<pid>-<n>
	Deep string   // Root/l1/l2/l3/l4/l5
	Env  []string // environment for the CLI
}

func newSandbox() (*sandbox, error) {
	n := sbCounter.Add(1)
	root := filepath.Join(workRoot, "sb", fmt.Sprintf("%d-%d", os.Getpid(), n))
	if !strings.HasPrefix(root, workRoot+string(filepath.Separator)) {
		return nil, fmt.Errorf("sandbox root %q not under work root %q", root, workRoot)
	}
	os.RemoveAll(root)
	sb := &sandbox{Root: root}
	dir := root
	levels := []string{"", "l1", "l2", "l3", "l4", "l5"}
	for i, l := range levels {
		dir = filepath.Join(dir, l)
		if err := os.MkdirAll(dir, 0o755); err != nil {
			return nil, err
		}
		if err := os.WriteFile(filepath.Join(dir, "sentinel"), []byte(fmt.Sprintf("sentinel level %d\n", i)), 0o644); err != nil {
			return nil, err
		}
	}
	sb.Deep = dir
	env := filepath.Join(root, "env")
	for _, d := range []string{"home", "tmp", "xdg/config", "xdg/cache", "xdg/data", "xdg/state"} {
		if err := os.MkdirAll(filepath.Join(env, d), 0o755); err != nil {
			return nil, err
		}
	}
	sb.Env = []string{
		"PATH=/usr/bin:/bin",
		"HOME=" + filepath.Join(env, "home"),
		"TMPDIR=" + filepath.Join(env, "tmp"),
		"XDG_CONFIG_HOME=" + filepath.Join(env, "xdg/config"),
		"XDG_CACHE_HOME=" + filepath.Join(env, "xdg/cache"),
		"XDG_DATA_HOME=" + filepath.Join(env, "xdg/data"),
		"XDG_STATE_HOME=" + filepath.Join(env, "xdg/state"),
		"LANG=C.UTF-8",
		"NO_COLOR=1",
		"GOMAXPROCS=1", "GOGC=400", // the shards already use every core; fewer runtime threads = far less futex contention
		"PWD=" + sb.Deep,
	}
	return sb, nil
}

func (sb *sandbox) cleanup() {
	if sb != nil && strings.HasPrefix(sb.Root, workRoot+string(filepath.Separator)+"sb"+string(filepath.Separator)) {
		os.RemoveAll(sb.Root)
	}
}

// inside reports whether p (absolute, cleaned) is dir itself or lies under it.
func inside(p, dir string) bool {
	return p == dir || strings.HasPrefix(p, dir+string(filepath.Separator))
}

// ---------------------------------------------------------------------------------------
// Running a command
// ---------------------------------------------------------------------------------------

type runResult struct {
	Stdout, Stderr []byte
	Exit           int // exit status; -1 if killed by a signal
	Signal         syscall.Signal
	TimedOut       bool
	Err            error // failure to start
	Dur            time.Duration
}

func runCmd(dir string, env []string, timeout time.Duration, name string, args ...string) runResult {
	ctx, cancel := context.WithTimeout(context.Background(), timeout)
	defer cancel()
	cmd := exec.CommandContext(ctx, name, args...)
	cmd.Dir = dir
	cmd.Env = env
	cmd.SysProcAttr = &syscall.SysProcAttr{Setpgid: true}
	cmd.Cancel = func() error {
		if cmd.Process != nil {
			return syscall.Kill(-cmd.Process.Pid, syscall.SIGKILL)
		}
		return nil
	}
	cmd.WaitDelay = 5 * time.Second
	var so, se bytes.Buffer
	cmd.Stdout, cmd.Stderr = &so, &se
	t0 := time.Now()
	err := cmd.Run()
	r := runResult{Stdout: so.Bytes(), Stderr: se.Bytes(), Dur: time.Since(t0)}
	if ctx.Err() != nil {
		r.TimedOut = true
	}
	var ee *exec.ExitError
	switch {
	case err == nil:
	case errors.As(err, &ee):
		r.Exit = ee.ExitCode()
		if ws, ok := ee.Sys().(syscall.WaitStatus); ok && ws.Signaled() {
			r.Signal = ws.Signal()
		}
	default:
		r.Err = err
	}
	return r
}

// ---------------------------------------------------------------------------------------
// File-tree snapshots
// ---------------------------------------------------------------------------------------

type snapEntry struct {
	Dir  bool
	Mode fs.FileMode
	Size int64
	Sum  [32]byte
	Ino  uint64
}

func snapshot(root string) (map[string]snapEntry, error) {
	out := map[string]snapEntry{}
	err := filepath.WalkDir(root, func(p string, d fs.DirEntry, err error) error {
		if err != nil {
			return err
		}
		rel, _ := filepath.Rel(root, p)
		fi, err := os.Lstat(p)
		if err != nil {
			return err
		}
		e := snapEntry{Dir: fi.IsDir(), Mode: fi.Mode(), Size: fi.Size()}
		if st, ok := fi.Sys().(*syscall.Stat_t); ok {
			e.Ino = st.Ino
		}
		if fi.Mode().IsRegular() {
			b, err := os.ReadFile(p)
			if err != nil {
				return err
			}
			e.Sum = sha256.Sum256(b)
		} else if fi.Mode()&fs.ModeSymlink != 0 {
			l, _ := os.Readlink(p)
			e.Sum = sha256.Sum256([]byte(l))
		}
		out[rel] = e
		return nil
	})
	return out, err
}

func sortedKeys[V any](m map[string]V) []string {
	ks := make([]string, 0, len(m))
	for k := range m {
		ks = append(ks, k)
	}
	sort.Strings(ks)
	return ks
}

// d2Quote renders s as a double-quoted D2 string token denoting exactly s.
func d2Quote(s string) string {
	var sb strings.Builder
	sb.WriteByte('"')
	for _, r := range s {
		switch r {
		case '"':
			sb.WriteString(`\"`)
		case '\\':
			sb.WriteString(`\\`)
		case '\n':
			sb.WriteString(`\n`)
		case '$':
			sb.WriteString(`\$`)
		default:
			sb.WriteRune(r)
		}
	}
	sb.WriteByte('"')
	return sb.String()
}

func clip(s string, n int) string {
	if len(s) > n {
		return s[:n] + "…"
	}
	return s
}

func writeFile(p string, b []byte) error { return os.WriteFile(p, b, 0o644) }
func mkdirAll(p string) error            { return os.MkdirAll(p, 0o755) }

func readFile(p string) ([]byte, error) { return os.ReadFile(p) }
