package p_cli

import (
	"fmt"
	"html"
	"net/url"
	"path/filepath"
	"regexp"
	"sort"
	"strings"
	"testing"
	"time"

	"oss.terrastruct.com/d2/d2ast"
	"oss.terrastruct.com/d2/d2compiler"
	"oss.terrastruct.com/d2/d2format"
	"oss.terrastruct.com/d2/d2graph"
	"oss.terrastruct.com/d2/d2parser"
	"oss.terrastruct.com/d2/lib/memfs"
	"pgregory.net/rapid"

	"verif/harness/gen"
	"verif/harness/hx"
)

// C35: board links resolve to existing boards and are rewritten to the right files.
//
// A case is a board tree whose bodies may come from imported files, with objects carrying
// links given as key segments (or verbatim text for URLs). Mode "compile" checks the compiled
// graphs against a reference resolver written from the statement; mode "cli" additionally runs
// the real CLI and compares every <a href> of every written SVG with the relative path between
// the two boards' actual output files.
type c35Link struct {
	Segs []string `json:"segs,omitempty"` // key segments; names are quoted when written, keywords/`_`/`root` are not
	Raw  string   `json:"raw,omitempty"`  // written verbatim instead of Segs (URLs, other text)
}

type c35Obj struct {
	ID    string   `json:"id"`           // unique in the case, [a-z][a-z0-9]*
	In    string   `json:"in,omitempty"` // container id: the object is written as <In>.<ID>
	Style int      `json:"style"`        // 0: `id.link: v`   1: `id: {link: v}`   2: `id` first, then `id.link: v`
	Link  *c35Link `json:"link,omitempty"`
}

type c35Body struct {
	Objs []c35Obj   `json:"objs,omitempty"`
	Kids []c35Board `json:"kids,omitempty"`
}

type c35Board struct {
	Kind string   `json:"kind,omitempty"`
	Name string   `json:"name"`
	Body c35Body  `json:"body"`
	Imp  int      `json:"imp,omitempty"`  // 0 none; 1 `name: @file` (Body must be empty); 2 `...@file` first in the body; 3 `...@file` last
	File *c35Body `json:"file,omitempty"` // content of the imported file
}

type c35Case struct {
	Mode string   `json:"mode"` // compile | cli
	Root c35Board `json:"root"`
}

func isKindWord(s string) bool { return s == "layers" || s == "scenarios" || s == "steps" }

// ---- writing the source files ----------------------------------------------------------

type c35Writer struct {
	files   map[string]string
	nfile   int
	mark    bool // add a marker shape per board (cli mode)
	uid     int
	markers map[string]string // board path key -> text that only this board's own body contains
}

func pathKey(p []string) string { return strings.Join(p, "\x00") }

// seg renders one link segment: structural words stay bare, everything else is quoted.
func c35Seg(s string, pos int) string {
	if s == "_" || isKindWord(s) || (pos == 0 && s == "root") {
		return s
	}
	if plainIdent.MatchString(s) && !isKindWord(strings.ToLower(s)) {
		return s
	}
	return d2Quote(s)
}

var plainIdent = regexp.MustCompile(`^[A-Za-z][A-Za-z0-9]*$`)

// text is the link as a key path: structural words bare, names quoted where needed.
func (l *c35Link) text() string {
	if l.Raw != "" || len(l.Segs) == 0 {
		return l.Raw
	}
	parts := make([]string, len(l.Segs))
	for i, s := range l.Segs {
		parts[i] = c35Seg(s, i)
	}
	return strings.Join(parts, ".")
}

var bareValue = regexp.MustCompile(`^[A-Za-z0-9_.]+$`)

// source is the D2 token for the link value: the value is a string that the compiler parses
// as a key path, so anything beyond letters, digits, `_` and `.` is wrapped in a double-quoted
// string (whose escapes are undone once before the key path is parsed).
func (l *c35Link) source() string {
	if l.Raw != "" || len(l.Segs) == 0 {
		return l.Raw
	}
	v := l.text()
	if bareValue.MatchString(v) {
		return v
	}
	return d2Quote(v)
}

func (w *c35Writer) body(sb *strings.Builder, b *c35Body, indent string, path []string) {
	for _, o := range b.Objs {
		id := o.ID
		if o.In != "" {
			id = o.In + "." + o.ID
		}
		if o.Link == nil {
			fmt.Fprintf(sb, "%s%s\n", indent, id)
			continue
		}
		v := o.Link.source()
		switch o.Style {
		case 1:
			fmt.Fprintf(sb, "%s%s: {\n%s  link: %s\n%s}\n", indent, id, indent, v, indent)
		case 2:
			fmt.Fprintf(sb, "%s%s\n%s%s.link: %s\n", indent, id, indent, id, v)
		default:
			fmt.Fprintf(sb, "%s%s.link: %s\n", indent, id, v)
		}
	}
	for _, k := range boardKinds {
		open := false
		for i := range b.Kids {
			kid := &b.Kids[i]
			if kid.Kind != k {
				continue
			}
			if !open {
				fmt.Fprintf(sb, "%s%s: {\n", indent, k)
				open = true
			}
			kp := append(append([]string(nil), path...), kid.Kind, kid.Name)
			if kid.Imp == 1 && kid.File != nil {
				name, n := w.file(kid.File, kp)
				w.markers[pathKey(kp)] = fmt.Sprintf("MKF%dKM", n)
				fmt.Fprintf(sb, "%s  %s: @%s\n", indent, d2Quote(kid.Name), name)
				continue
			}
			fmt.Fprintf(sb, "%s  %s: {\n", indent, d2Quote(kid.Name))
			w.board(sb, kid, indent+"    ", kp)
			fmt.Fprintf(sb, "%s  }\n", indent)
		}
		if open {
			fmt.Fprintf(sb, "%s}\n", indent)
		}
	}
}

// board writes the inside of a board block (own body plus a spread import).
func (w *c35Writer) board(sb *strings.Builder, b *c35Board, indent string, path []string) {
	if w.mark {
		fmt.Fprintf(sb, "%smk%d: MK%dKM\n", indent, w.uid, w.uid)
		w.markers[pathKey(path)] = fmt.Sprintf("MK%dKM", w.uid)
	}
	w.uid++
	if b.Imp == 2 && b.File != nil {
		name, _ := w.file(b.File, path)
		fmt.Fprintf(sb, "%s...@%s\n", indent, name)
	}
	w.body(sb, &b.Body, indent, path)
	if b.Imp == 3 && b.File != nil {
		name, _ := w.file(b.File, path)
		fmt.Fprintf(sb, "%s...@%s\n", indent, name)
	}
}

// file writes an imported file whose content becomes (part of) the board at path.
func (w *c35Writer) file(b *c35Body, path []string) (string, int) {
	w.nfile++
	n := w.nfile
	name := fmt.Sprintf("f%d", n)
	var sb strings.Builder
	if w.mark {
		fmt.Fprintf(&sb, "mkf%d: MKF%dKM\n", n, n)
	}
	w.body(&sb, b, "", path)
	w.files[name+".d2"] = sb.String()
	return name, n
}

func (c *c35Case) sources(mark bool) (map[string]string, map[string]string) {
	w := &c35Writer{files: map[string]string{}, mark: mark, markers: map[string]string{}}
	var sb strings.Builder
	w.board(&sb, &c.Root, "", []string{"root"})
	w.files["index.d2"] = sb.String()
	return w.files, w.markers
}

// ---- the logical tree (what the sources mean according to the statement) -----------------

type lboard struct {
	kind, name string
	parent     *lboard
	kids       []*lboard
	fileRoot   *lboard // the board that `root` denotes for text written in this board's defining file
	depth      int
}

func (b *lboard) path() []string { // root, kind, name, kind, name...
	if b.parent == nil {
		return []string{"root"}
	}
	return append(b.parent.path(), b.kind, b.name)
}

func (b *lboard) kid(kind, name string) *lboard {
	for _, k := range b.kids {
		if k.kind == kind && k.name == name {
			return k
		}
	}
	return nil
}

type lobj struct {
	spec     *c35Obj
	board    *lboard // defining board
	fileRoot *lboard // what `root` means where the link was written
	imported bool
	spreadAt int // 0: n/a; 2/3: the defining board also has a spread import (first/last)
	inFile   bool
	// beforeSpread: the text stands in the own body of a board (this one or an enclosing one) that
	// ends with a spread import, i.e. it is compiled before that import is processed
	beforeSpread bool
}

type ltree struct {
	root   *lboard
	boards []*lboard
	objs   map[string]*lobj
	dupObj bool
	dupKid bool
}

func (t *ltree) addBody(b *lboard, body *c35Body, fileRoot *lboard, imported bool, spreadAt int, before bool) {
	for i := range body.Objs {
		o := &body.Objs[i]
		if _, ok := t.objs[o.ID]; ok {
			t.dupObj = true
		}
		t.objs[o.ID] = &lobj{spec: o, board: b, fileRoot: fileRoot, imported: imported, spreadAt: spreadAt, inFile: imported, beforeSpread: before}
	}
	for i := range body.Kids {
		t.addBoard(b, &body.Kids[i], fileRoot, imported, before)
	}
}

func (t *ltree) addBoard(parent *lboard, sb *c35Board, fileRoot *lboard, imported bool, before bool) {
	b := &lboard{kind: sb.Kind, name: sb.Name, parent: parent}
	if parent != nil {
		b.depth = parent.depth + 1
		for _, k := range parent.kids {
			if k.name == sb.Name {
				t.dupKid = true
			}
		}
		parent.kids = append(parent.kids, b)
	} else {
		t.root = b
		fileRoot = b
	}
	b.fileRoot = fileRoot
	t.boards = append(t.boards, b)
	spread := 0
	if sb.File != nil && (sb.Imp == 2 || sb.Imp == 3) {
		spread = sb.Imp
	}
	if sb.Imp == 1 && sb.File != nil {
		t.addBody(b, sb.File, b, true, 0, before) // the file's root is this board
		return
	}
	t.addBody(b, &sb.Body, fileRoot, imported, spread, before || spread == 3)
	if spread != 0 {
		t.addBody(b, sb.File, b, true, spread, before)
	}
}

func buildTree(c *c35Case) *ltree {
	t := &ltree{objs: map[string]*lobj{}}
	t.addBoard(nil, &c.Root, nil, false, false)
	return t
}

// ---- reference resolver ----------------------------------------------------------------

type refKind int

const (
	refBoard refKind = iota
	refMissing
	refURL
	refGray
)

type refResult struct {
	kind   refKind
	target *lboard
	why    string
}

// resolve is the reference: what a link written in board `from` (whose file's root is fileRoot)
// denotes. `_` is the parent board, `root` the root of the file the text stands in (= the
// importing board for imported files), `layers|scenarios|steps . name` descend from the
// current board.
func resolveLink(l *c35Link, from, fileRoot *lboard) refResult {
	if l.Raw != "" || len(l.Segs) == 0 {
		v := l.Raw
		u, err := url.Parse(html.UnescapeString(v))
		if err == nil && (u.Scheme != "" || strings.HasPrefix(u.Path, "/")) {
			return refResult{kind: refURL}
		}
		return refResult{kind: refGray, why: "non-board-text"}
	}
	segs := l.Segs
	cur := from
	switch {
	case segs[0] == "root":
		cur = fileRoot
		segs = segs[1:]
	case segs[0] == "_":
		for len(segs) > 0 && segs[0] == "_" {
			if cur.parent == nil {
				return refResult{kind: refMissing, why: "underscore-above-root"}
			}
			cur = cur.parent
			segs = segs[1:]
		}
	case isKindWord(segs[0]):
	case isKindWord(strings.ToLower(segs[0])):
		return refResult{kind: refGray, why: "keyword-letter-case"}
	default:
		return refResult{kind: refGray, why: "non-board-text"}
	}
	if len(segs) > 0 && segs[0] == "root" {
		return refResult{kind: refMissing, why: "root-repeated"}
	}
	if len(segs)%2 != 0 {
		// is everything before the dangling segment a board, and the dangling segment its name?
		c2 := cur
		for i := 0; i+1 < len(segs) && c2 != nil; i += 2 {
			if !isKindWord(segs[i]) {
				c2 = nil
				break
			}
			c2 = c2.kid(segs[i], segs[i+1])
		}
		if c2 != nil && c2.parent != nil && c2.name == segs[len(segs)-1] {
			return refResult{kind: refMissing, why: "trailing-board-name"}
		}
		return refResult{kind: refMissing, why: "odd-segments"}
	}
	for i := 0; i < len(segs); i += 2 {
		if !isKindWord(segs[i]) {
			if isKindWord(strings.ToLower(segs[i])) {
				return refResult{kind: refGray, why: "keyword-letter-case"}
			}
			return refResult{kind: refMissing, why: "not-a-kind-word"}
		}
		k := cur.kid(segs[i], segs[i+1])
		if k == nil {
			if segs[i+1] == "_" {
				return refResult{kind: refGray, why: "underscore-as-name"}
			}
			return refResult{kind: refMissing, why: "no-such-board"}
		}
		cur = k
	}
	return refResult{kind: refBoard, target: cur}
}

func sameStrings(a, b []string) bool {
	if len(a) != len(b) {
		return false
	}
	for i := range a {
		if a[i] != b[i] {
			return false
		}
	}
	return true
}

// needsQuotes: the formatter would not print this name bare, so `root.layers.<name>` built by
// naive joining differs from the compiled (key-formatted) link.
func needsQuotes(name string) bool {
	kp := d2ast.MakeKeyPathString([]d2ast.String{d2ast.FlatUnquotedString("root"), d2ast.FlatUnquotedString("layers"), d2ast.FlatUnquotedString(name)})
	return d2format.Format(kp) != "root.layers."+name
}

// keywordLike: the name spells a reserved keyword in another letter case; the key formatter
// lower-cases such segments (C05 finding key-case-folded:reserved-keyword).
func keywordLike(name string) bool {
	l := strings.ToLower(name)
	if l == name {
		return false
	}
	for _, list := range [][]string{gen.ReservedKeywords, gen.StyleKeywords} {
		for _, k := range list {
			if k == l {
				return true
			}
		}
	}
	return false
}

// ---- the check ---------------------------------------------------------------------------

func findGraph(g *d2graph.Graph, b *lboard) *d2graph.Graph {
	if b.parent == nil {
		return g
	}
	pg := findGraph(g, b.parent)
	if pg == nil {
		return nil
	}
	var l []*d2graph.Graph
	switch b.kind {
	case "layers":
		l = pg.Layers
	case "scenarios":
		l = pg.Scenarios
	case "steps":
		l = pg.Steps
	}
	for _, k := range l {
		if k.Name == b.name {
			return k
		}
	}
	return nil
}

func countGraphs(g *d2graph.Graph) int {
	n := 1
	for _, l := range [][]*d2graph.Graph{g.Layers, g.Scenarios, g.Steps} {
		for _, k := range l {
			n += countGraphs(k)
		}
	}
	return n
}

type c35Actual struct {
	board  *lboard
	target *lboard // nil unless a board link
	url    string  // non-board link value kept
	raw    string  // the stored link text
}

func checkC35(h *hx.H, c c35Case) {
	if c.Mode != "compile" && c.Mode != "cli" {
		h.Reject("bad-mode")
	}
	t := buildTree(&c)
	if t.dupObj || t.dupKid || len(t.boards) > 24 {
		h.Reject("duplicate-names-or-oversized")
	}
	for id, o := range t.objs {
		if !plainIdent.MatchString(id) || (o.spec.In != "" && !plainIdent.MatchString(o.spec.In)) {
			h.Reject("bad-object-id")
		}
	}
	cli := c.Mode == "cli"
	if cli {
		// C34's subject (names that are path constructs) is kept out of the CLI half, and the
		// sandbox rule (no climbing) is enforced here as well.
		for _, b := range t.boards {
			if b.parent == nil {
				continue
			}
			n := b.name
			if n == "" || n == "index" || strings.ContainsAny(n, "/\n\r\x00") || strings.Contains(n, "..") || filepath.Clean(n) != n || len(n) > 100 ||
				strings.HasSuffix(n, ".svg") || strings.Contains(n, " in ") {
				h.Reject("cli-name-outside-domain")
			}
		}
	}
	files, markers := c.sources(cli)
	mfs, err := memfs.New(files)
	if err != nil {
		harnessError(h, "memfs", "%v", err)
	}
	g, _, err := d2compiler.Compile("index.d2", strings.NewReader(files["index.d2"]), &d2compiler.CompileOptions{FS: mfs})
	if err != nil {
		h.Label("compile-error")
		h.Extra("compile_error_sample", clip(err.Error(), 300))
		h.Reject("compile-error")
	}
	if countGraphs(g) != len(t.boards) {
		h.Extra("tree_differs_sample", fmt.Sprintf("%d boards compiled, %d written\n%s", countGraphs(g), len(t.boards), c35Dump(files)))
		h.Reject("board-tree-differs")
	}
	byPath := map[string]*lboard{}
	for _, b := range t.boards {
		byPath[strings.Join(b.path(), "\x00")] = b
	}

	nBoardLinks, nDropped, nCross, nURL := 0, 0, 0, 0
	var actuals []c35Actual
	for _, b := range t.boards {
		bg := findGraph(g, b)
		if bg == nil {
			h.Reject("board-tree-differs")
		}
		for _, obj := range bg.Objects {
			lo := t.objs[obj.ID]
			if lo == nil {
				lo = t.objs[obj.IDVal]
			}
			if lo == nil || lo.spec.Link == nil {
				if obj.Link != nil && lo != nil {
					h.Failf("link-from-nowhere", "object %s in board %v has link %q but none was written", obj.AbsID(), b.path(), obj.Link.Value)
				}
				continue
			}
			own := lo.board == b
			ref := resolveLink(lo.spec.Link, lo.board, lo.fileRoot)
			actual := ""
			if obj.Link != nil {
				actual = obj.Link.Value
			}
			written := lo.spec.Link.text()
			where := fmt.Sprintf("object %s in board %s (link written %q in board %s%s)", obj.AbsID(), strings.Join(b.path(), "."), written,
				strings.Join(lo.board.path(), "."), map[bool]string{true: ", imported file", false: ""}[lo.inFile])
			ctx := func() string { return "\nsources:\n" + c35Dump(files) }

			// classification words for signatures
			form := "rel"
			if len(lo.spec.Link.Segs) > 0 {
				switch lo.spec.Link.Segs[0] {
				case "root":
					form = "abs"
				case "_":
					form = "underscore"
				}
			}
			place := "plain"
			switch {
			case lo.beforeSpread:
				place = "own-before-spread"
			case lo.inFile && lo.spreadAt != 0:
				place = "spread-imported"
			case lo.inFile:
				place = "value-imported"
			case lo.spreadAt == 2:
				place = "before-own-after-spread" // own text that follows a spread import
			}
			if !own {
				place += "+inherited"
			}

			// what did the compiler store?
			var actTarget *lboard
			actIsBoardPath := false
			if actual != "" {
				if k, err := d2parser.ParseKey(actual); err == nil {
					ida := k.StringIDA()
					if len(ida) > 0 && ida[0] == "root" {
						actIsBoardPath = true
						actTarget = byPath[strings.Join(ida, "\x00")]
					}
				}
			}

			// oracle B works on whatever is stored, however this oracle judges it
			switch {
			case actual == "":
			case actTarget != nil:
				actuals = append(actuals, c35Actual{board: b, target: actTarget, raw: actual})
			default:
				actuals = append(actuals, c35Actual{board: b, url: actual})
			}

			switch ref.kind {
			case refGray:
				h.Gray()
				h.Label("gray:" + ref.why)
				continue
			case refURL:
				nURL++
				if actual != lo.spec.Link.Raw {
					h.FailSoft("url-changed:"+place, "%s: URL link stored as %q%s", where, actual, ctx())
				}
				continue
			}
			h.Label("form:"+form, "place:"+place)
			// the universal part of the statement: whatever is stored is an existing board other
			// than the current one
			if actual != "" {
				if !actIsBoardPath {
					h.FailSoft(c35Sig("stored-not-absolute", place, form+":"+place), "%s: stored %q is not an absolute board path%s", where, actual, ctx())
					continue
				}
				if actTarget == nil {
					sub := "no-such-board"
					if ref.kind == refMissing {
						sub = ref.why
					}
					h.FailSoft(c35Sig("kept-missing", place, c35Why(sub, place)), "%s: stored %q names no existing board%s", where, actual, ctx())
					continue
				}
				if actTarget == b {
					d := "depth1"
					if b.depth >= 2 {
						d = "depth>=2"
					} else if b.depth == 0 {
						d = "root"
					}
					h.FailSoft("kept-self:"+d, "%s: stored %q is the board itself (must be dropped)%s", where, actual, ctx())
					continue
				}
			}
			if !own {
				// inherited through a scenario/step: the statement does not say against which board the
				// text is resolved; only the universal part above is asserted
				h.Label("inherited-link")
				if actual == "" {
					nDropped++
				} else {
					nBoardLinks++
				}
				continue
			}
			switch ref.kind {
			case refMissing:
				nDropped++
				h.Label("expect:dropped:" + ref.why)
				if actual != "" {
					h.FailSoft(c35Sig("kept-missing", place, c35Why(ref.why, place)), "%s: the link names no board (%s) but %q was stored%s", where, ref.why, actual, ctx())
				}
			case refBoard:
				if ref.target == b {
					nDropped++
					h.Label("expect:dropped:self")
					if actual != "" { // stored something else than the board itself
						h.FailSoft(c35Sig("kept-self", place, place), "%s: self link stored as %q%s", where, actual, ctx())
					}
					continue
				}
				nBoardLinks++
				if ref.target.depth != b.depth {
					nCross++
				}
				h.Label("expect:board")
				q := "plain-name"
				for p := ref.target; p.parent != nil; p = p.parent {
					if needsQuotes(p.name) {
						q = "quoted-name"
					}
				}
				for p := ref.target; p.parent != nil; p = p.parent {
					if keywordLike(p.name) {
						q = "keyword-like-name"
					}
				}
				if actual == "" {
					h.FailSoft(c35Sig("dropped-existing", place, c35Where(place, form, q)), "%s: denotes existing board %s but the link was dropped%s", where, strings.Join(ref.target.path(), "."), ctx())
				} else if actTarget != ref.target {
					h.FailSoft(c35Sig("wrong-target", place, c35Where(place, form, q)), "%s: denotes board %s but %q was stored%s", where, strings.Join(ref.target.path(), "."), actual, ctx())
				}
			}
		}
	}
	h.Label(fmt.Sprintf("boards:%d", min(len(t.boards), 9)))
	if len(files) > 1 {
		h.Label("has-imports")
	}
	h.NonTrivial(nCross >= 1 && nDropped >= 1)
	if !cli {
		return
	}
	checkC35CLI(h, t, files, markers, actuals)
}

// c35Where names the construct for a signature: where the link text stands if that is special
// (imports), otherwise how it is written.
func c35Where(place, form, q string) string {
	if q == "keyword-like-name" {
		return q
	}
	if place != "plain" {
		return place
	}
	return form + ":" + q
}

func c35Why(why, place string) string {
	if why == "trailing-board-name" || why == "root-repeated" {
		return why
	}
	return why + ":" + place
}

// c35Sig: every disagreement about a link whose text is compiled before a spread import of an
// enclosing board has one root cause (the import rebases the whole map a second time).
func c35Sig(kind, place, rest string) string {
	if strings.HasPrefix(place, "own-before-spread") {
		return "rebased-twice:own-before-spread"
	}
	return kind + ":" + rest
}

func c35Dump(files map[string]string) string {
	var sb strings.Builder
	for _, k := range sortedKeys(files) {
		fmt.Fprintf(&sb, "--- %s\n%s", k, files[k])
	}
	return clip(sb.String(), 3000)
}

var hrefRe = regexp.MustCompile(`<a href="([^"]*)"`)

// checkC35CLI: oracle B. Every board of a cli-mode case has its own marker shape, so every
// board has content and its SVG contains "MK<uid>KM" (uid = pre-order index of the board;
// a value-imported board's marker comes from the file: "MKF<n>KM").
func checkC35CLI(h *hx.H, t *ltree, files, markers map[string]string, actuals []c35Actual) {
	sb, err := newSandbox()
	if err != nil {
		harnessError(h, "sandbox", "%v", err)
	}
	defer sb.cleanup()
	for name, body := range files {
		if err := writeFile(filepath.Join(sb.Deep, name), []byte(body)); err != nil {
			harnessError(h, "sandbox", "%v", err)
		}
	}
	if err := mkdirAll(filepath.Join(sb.Deep, "out")); err != nil {
		harnessError(h, "sandbox", "%v", err)
	}
	res := runCmd(sb.Deep, sb.Env, 90*time.Second, cliPath(), "--layout", "dagre", "index.d2", "out/o.svg")
	if res.Err != nil || res.TimedOut || res.Signal != 0 {
		harnessError(h, "cli-run", "err=%v timeout=%v signal=%v", res.Err, res.TimedOut, res.Signal)
	}
	if res.Exit != 0 {
		h.Label("cli-error")
		h.Extra("cli_error_sample", clip(string(res.Stderr), 300))
		h.Reject("cli-error")
	}
	// board -> file, from the run's own report: render() reports children first (layers,
	// scenarios, steps in source order), then the board itself.
	var order []*lboard
	var post func(b *lboard)
	post = func(b *lboard) {
		for _, k := range boardKinds {
			for _, kid := range b.kids {
				if kid.kind == k {
					post(kid)
				}
			}
		}
		order = append(order, b)
	}
	post(t.root)
	ms := successLine.FindAllStringSubmatch(string(res.Stderr), -1)
	if len(ms) != len(order) {
		h.Reject("cli-report-count-differs") // C34's subject
	}
	marker := map[*lboard]string{}
	for _, b := range t.boards {
		m := markers[pathKey(b.path())]
		if m == "" {
			harnessError(h, "marker", "no marker for board %v", b.path())
		}
		marker[b] = m
	}
	fileOf := map[*lboard]string{}
	svgOf := map[*lboard]string{}
	for i, b := range order {
		p := filepath.Join(sb.Deep, ms[i][2])
		if !inside(p, filepath.Join(sb.Deep, "out")) {
			h.Reject("cli-wrote-outside") // C34's subject
		}
		data, err := readFile(p)
		if err != nil {
			h.Reject("cli-reported-file-missing")
		}
		if !strings.Contains(string(data), marker[b]) {
			h.Reject("cli-file-is-another-board") // overwritten / order differs: not this oracle's business
		}
		fileOf[b] = p
		svgOf[b] = string(data)
	}
	// expected hrefs per board: one per stored link (compiled above, in process, from the same sources)
	want := map[*lboard][]string{}
	wantWhy := map[*lboard][]string{}
	quoted := map[*lboard]bool{}
	for _, a := range actuals {
		if a.target == nil {
			want[a.board] = append(want[a.board], a.url)
			continue
		}
		rel, err := filepath.Rel(filepath.Dir(fileOf[a.board]), fileOf[a.target])
		if err != nil {
			harnessError(h, "rel", "%v", err)
		}
		want[a.board] = append(want[a.board], rel)
		wantWhy[a.board] = append(wantWhy[a.board], strings.Join(a.target.path(), "."))
		// relink() looks the stored text up among keys built by joining raw names with dots: a
		// stored text that is not that naive join (quoted segments) is the construct of the known finding
		if a.raw != strings.Join(a.target.path(), ".") {
			quoted[a.board] = true
		}
	}
	nHref := 0
	for _, b := range order {
		var got []string
		for _, m := range hrefRe.FindAllStringSubmatch(svgOf[b], -1) {
			got = append(got, html.UnescapeString(m[1]))
		}
		w := append([]string(nil), want[b]...)
		sort.Strings(got)
		sort.Strings(w)
		nHref += len(got)
		if !sameStrings(got, w) {
			q := "plain-name"
			if quoted[b] {
				q = "quoted-name"
			}
			kind := "href-wrong"
			for _, x := range got {
				if strings.HasPrefix(x, "root") {
					kind = "href-not-rewritten"
				}
			}
			rel, _ := filepath.Rel(sb.Deep, fileOf[b])
			h.FailSoft(kind+":"+q, "board %s written to %s: hrefs %q, want %q (links to %v)\nsources:\n%s", strings.Join(b.path(), "."), rel, got, w, wantWhy[b], c35Dump(files))
		}
	}
	h.Label("cli-checked")
	h.AddExtra("cli_hrefs_compared", int64(nHref))
	h.AddExtra("cli_runs", 1)
}

// ---------------------------------------------------------------------------------------
// generator
// ---------------------------------------------------------------------------------------

var c35Names = []string{"a", "b", "c", "x", "y", "foo", "Bar", "n1", "a b", "a.b", "x.y.z", "a-b", "a:b", "a'b", "a\"b", "a#b", "日本語", "é", "_", "root",
	"Layers", "1", "true", "null", "a->b", "*", "(a)", "a;b", "$x", "[0]", "a\\b", "|", "&", "@f", " a", "q "}

var c35CLINames = []string{"a", "b", "c", "x", "y", "foo", "Bar", "n1", "a b", "a.b", "x.y.z", "a-b", "a:b", "a'b", "a\"b", "a#b", "日本語", "é", "_", "root", "1", "a;b", "(a)", "a\\b", "&"}

type c35Gen struct {
	t    *rapid.T
	cli  bool
	nobj int
	nb   int
	max  int
}

func (g *c35Gen) name(used map[string]bool) string {
	pool := c35Names
	if g.cli {
		pool = c35CLINames
	}
	for i := 0; i < 8; i++ {
		var n string
		if gen.Pick(g.t, "nameKind", 3, 2) == 0 {
			n = rapid.SampledFrom(gen.PlainNames).Draw(g.t, "plainName")
		} else {
			n = rapid.SampledFrom(pool).Draw(g.t, "name")
		}
		if !used[n] {
			used[n] = true
			return n
		}
	}
	n := fmt.Sprintf("u%d", len(used))
	used[n] = true
	return n
}

// skeleton draws boards without links; links are filled in afterwards, when every board is known.
func (g *c35Gen) board(kind, name string, level int, allowImp bool) c35Board {
	b := c35Board{Kind: kind, Name: name}
	g.nb++
	used := map[string]bool{}
	fill := func(body *c35Body, lvl int, allowImpKids bool) {
		no := rapid.IntRange(0, 3).Draw(g.t, "nobjs")
		var cont string
		for i := 0; i < no; i++ {
			g.nobj++
			o := c35Obj{ID: fmt.Sprintf("o%d", g.nobj), Style: rapid.IntRange(0, 2).Draw(g.t, "style")}
			if cont != "" && rapid.IntRange(0, 3).Draw(g.t, "nest") == 0 {
				o.In = cont
			} else if rapid.IntRange(0, 4).Draw(g.t, "mkcont") == 0 {
				cont = fmt.Sprintf("k%d", g.nobj)
				o.In = cont
			}
			body.Objs = append(body.Objs, o)
		}
		if lvl >= 3 {
			return
		}
		nk := rapid.IntRange(0, []int{3, 2, 2}[lvl]).Draw(g.t, "nkids")
		for i := 0; i < nk && g.nb < g.max; i++ {
			k := rapid.SampledFrom(boardKinds).Draw(g.t, "kind")
			body.Kids = append(body.Kids, g.board(k, g.name(used), lvl+1, allowImpKids))
		}
	}
	imp := 0
	if allowImp {
		imp = gen.Pick(g.t, "imp", 6, 1, 1, 1)
		if level == 0 && imp == 1 {
			imp = 2
		}
	}
	b.Imp = imp
	switch imp {
	case 0:
		fill(&b.Body, level, allowImp)
	case 1:
		b.File = &c35Body{}
		fill(b.File, level, false)
	default:
		fill(&b.Body, level, allowImp)
		b.File = &c35Body{}
		fill(b.File, level, false)
	}
	return b
}

// link draws a link for an object written in board `from`.
func (g *c35Gen) link(t *ltree, from, fileRoot *lboard) *c35Link {
	tr := g.t
	pickBoard := func() *lboard { return t.boards[rapid.IntRange(0, len(t.boards)-1).Draw(tr, "target")] }
	relSegs := func(anc, b *lboard) []string { // segments from ancestor anc down to b
		var s []string
		for p := b; p != anc; p = p.parent {
			s = append([]string{p.kind, p.name}, s...)
		}
		return s
	}
	isAnc := func(a, b *lboard) bool {
		for p := b; p != nil; p = p.parent {
			if p == a {
				return true
			}
		}
		return false
	}
	var segs []string
	switch gen.Pick(tr, "form", 4, 4, 4, 2, 1, 1) {
	case 0: // relative to the current board: a descendant
		var desc []*lboard
		for _, b := range t.boards {
			if b != from && isAnc(from, b) {
				desc = append(desc, b)
			}
		}
		if len(desc) == 0 {
			segs = []string{rapid.SampledFrom(boardKinds).Draw(tr, "k"), "nowhere"}
		} else {
			segs = relSegs(from, desc[rapid.IntRange(0, len(desc)-1).Draw(tr, "desc")])
		}
	case 1: // absolute: `root` is the root of the file the text stands in
		b := pickBoard()
		if isAnc(fileRoot, b) {
			segs = append([]string{"root"}, relSegs(fileRoot, b)...)
		} else {
			segs = b.path()
		}
	case 2: // underscores up to a common ancestor, then down
		b := pickBoard()
		anc := from
		ups := 0
		for !isAnc(anc, b) {
			anc = anc.parent
			ups++
		}
		if ups == 0 && from.parent != nil {
			anc = from.parent
			ups = 1
			if !isAnc(anc, b) {
				b = anc
			}
		}
		for i := 0; i < ups; i++ {
			segs = append(segs, "_")
		}
		if ups == 0 {
			segs = []string{"_"}
		} else {
			segs = append(segs, relSegs(anc, b)...)
		}
		if rapid.IntRange(0, 9).Draw(tr, "extraUp") == 0 {
			segs = append([]string{"_"}, segs...)
		}
	case 3: // self
		if rapid.Bool().Draw(tr, "selfAbs") || from.parent == nil {
			if isAnc(fileRoot, from) {
				segs = append([]string{"root"}, relSegs(fileRoot, from)...)
			} else {
				segs = from.path()
			}
		} else {
			segs = []string{"_", from.kind, from.name}
		}
	case 4: // URL or other text
		return &c35Link{Raw: rapid.SampledFrom([]string{"https://example.com/a?b=c&d=e", "http://x.y", "/abs/path.html", "mailto:a@b.c", "file.html", "x", "example.com", "layers", "_"}).Draw(tr, "raw")}
	default: // keyword in another letter case (gray)
		segs = []string{rapid.SampledFrom([]string{"Layers", "SCENARIOS", "Steps"}).Draw(tr, "kw"), "x"}
	}
	// mutations that make the target missing
	switch gen.Pick(tr, "mut", 12, 1, 1, 1, 1, 1) {
	case 1: // trailing extra name (odd number of segments)
		last := segs[len(segs)-1]
		segs = append(segs, rapid.SampledFrom([]string{last, "zz", "layers"}).Draw(tr, "extra"))
	case 2: // wrong kind word
		for i := range segs {
			if isKindWord(segs[i]) && (i == 0 || segs[i-1] == "_" || i%2 == 1 || true) {
				alt := rapid.SampledFrom(boardKinds).Draw(tr, "altKind")
				segs = append(append(append([]string(nil), segs[:i]...), alt), segs[i+1:]...)
				break
			}
		}
	case 3: // unknown name at the end
		segs = append(append([]string(nil), segs[:len(segs)-1]...), "nowhere")
	case 4: // one more level that does not exist
		segs = append(segs, "layers", "nowhere")
	case 5: // drop the last segment
		if len(segs) > 1 {
			segs = segs[:len(segs)-1]
		}
	}
	return &c35Link{Segs: segs}
}

func (g *c35Gen) fillLinks(c *c35Case) {
	t := buildTree(c)
	// visit objects in a deterministic order (by numeric id)
	ids := sortedKeys(t.objs)
	sort.Slice(ids, func(i, j int) bool {
		if len(ids[i]) != len(ids[j]) {
			return len(ids[i]) < len(ids[j])
		}
		return ids[i] < ids[j]
	})
	for _, id := range ids {
		o := t.objs[id]
		if rapid.IntRange(0, 9).Draw(g.t, "hasLink") < 8 {
			o.spec.Link = g.link(t, o.board, o.fileRoot)
		}
	}
}

func genC35Mode(t *rapid.T, cli bool) c35Case {
	g := &c35Gen{t: t, cli: cli, max: 8}
	if cli {
		g.max = 5
	}
	c := c35Case{Mode: "compile"}
	if cli {
		c.Mode = "cli"
	}
	c.Root = g.board("", "", 0, true)
	g.fillLinks(&c)
	return c
}

func genC35(t *rapid.T) c35Case {
	// the CLI half costs ~0.5 s per case, the compile half ~0.3 ms
	// rapid favours the ends of an integer range (the top of 0..149 comes up in ~2.5 % of the
	// draws), hence two draws; a case shrinks towards the cheap compile mode
	cli := rapid.IntRange(0, 149).Draw(t, "cli") == 149 && rapid.IntRange(0, hx.Pick(3, 5)).Draw(t, "cli2") >= 3
	return genC35Mode(t, cli)
}

func coreC35() []c35Case {
	L := func(segs ...string) *c35Link { return &c35Link{Segs: segs} }
	obj := func(id string, l *c35Link) c35Obj { return c35Obj{ID: id, Link: l} }
	brd := func(kind, name string, objs []c35Obj, kids ...c35Board) c35Board {
		return c35Board{Kind: kind, Name: name, Body: c35Body{Objs: objs, Kids: kids}}
	}
	var out []c35Case
	add := func(r c35Board) {
		out = append(out, c35Case{Mode: "compile", Root: r}, c35Case{Mode: "cli", Root: r})
	}
	// the facts of DESIGN appendix A in one tree
	add(brd("", "", []c35Obj{
		obj("o1", L("layers", "x")), obj("o2", L("layers", "x", "layers", "q")), obj("o3", L("root")), obj("o4", L("layers", "nowhere")),
		obj("o5", &c35Link{Raw: "https://example.com/a?b=c&d=e"}), obj("o6", L("_")),
	},
		brd("layers", "x", []c35Obj{obj("o7", L("_")), obj("o8", L("_", "layers", "y")), obj("o9", L("layers", "x")), obj("o10", L("root", "layers", "x")), obj("o11", L("layers", "q"))},
			brd("layers", "q", []c35Obj{obj("o12", L("_", "_", "layers", "y")), obj("o13", L("_")), obj("o14", L("root", "layers", "x", "layers", "q")), obj("o15", L("_", "layers", "q"))})),
		brd("layers", "y", []c35Obj{obj("o16", L("_", "layers", "x", "layers", "q"))}),
	))
	// hasBoard() quirks: trailing segments
	add(brd("", "", []c35Obj{obj("o1", L("layers", "x", "x")), obj("o2", L("layers", "x", "layers")), obj("o3", L("root", "x")), obj("o4", L("layers", "x", "layers", "q", "q")), obj("o5", L("layers"))},
		brd("layers", "x", []c35Obj{obj("o6", L("_", "x")), obj("o7", L("layers", "q", "q"))}, brd("layers", "q", []c35Obj{obj("o8", L("_", "_", "layers", "x", "x"))}))))
	// names that need quotes
	for _, n := range []string{"a b", "a.b", "a:b", "a\"b", "a'b", "日本語", "1", "a-b", "x.y.z"} {
		add(brd("", "", []c35Obj{obj("o1", L("layers", n)), obj("o2", L("root", "layers", n, "layers", "k"))},
			brd("layers", n, []c35Obj{obj("o3", L("_")), obj("o4", L("layers", "k"))}, brd("layers", "k", []c35Obj{obj("o5", L("_")), obj("o6", L("_", "_"))}))))
	}
	// scenarios and steps inherit objects with their links
	add(brd("", "", []c35Obj{obj("o1", L("scenarios", "s")), obj("o2", L("layers", "l"))},
		brd("scenarios", "s", []c35Obj{obj("o3", L("_"))}, brd("steps", "t1", []c35Obj{obj("o4", L("_", "steps", "t2"))}), brd("steps", "t2", []c35Obj{obj("o5", L("_", "steps", "t1"))})),
		brd("layers", "l", []c35Obj{obj("o6", L("_", "scenarios", "s", "steps", "t2"))})))
	// imports: a board whose value is a file, spread imports before/after own text
	file := &c35Body{Objs: []c35Obj{obj("o20", L("layers", "fq")), obj("o21", L("_")), obj("o22", L("root")), obj("o23", L("root", "layers", "fq")), obj("o24", L("_", "layers", "w"))},
		Kids: []c35Board{brd("layers", "fq", []c35Obj{obj("o25", L("_")), obj("o26", L("_", "_")), obj("o27", L("_", "_", "layers", "w"))})}}
	for imp := 1; imp <= 3; imp++ {
		b := c35Board{Kind: "layers", Name: "v", Imp: imp, File: file}
		if imp != 1 {
			b.Body = c35Body{Objs: []c35Obj{obj("o30", L("layers", "fq")), obj("o31", L("_")), obj("o32", L("_", "layers", "w"))}}
		}
		add(brd("", "", []c35Obj{obj("o1", L("layers", "v", "layers", "fq"))}, b, brd("layers", "w", []c35Obj{obj("o2", L("_", "layers", "v"))})))
	}
	rootSpread := brd("", "", []c35Obj{obj("o1", L("layers", "fq")), obj("o2", L("layers", "w"))}, brd("layers", "w", []c35Obj{obj("o3", L("_", "layers", "fq"))}))
	rootSpread.Imp = 3
	rootSpread.File = &c35Body{Objs: []c35Obj{obj("o20", L("layers", "fq")), obj("o21", L("root", "layers", "w"))}, Kids: []c35Board{brd("layers", "fq", []c35Obj{obj("o25", L("_"))})}}
	add(rootSpread)
	return out
}

func TestC35(t *testing.T) {
	hx.Run(t, hx.Spec[c35Case]{Prop: "C35", Core: coreC35, Gen: genC35, Check: checkC35, Timeout: 150 * time.Second})
	reportHarnessErrors(t)
}
