package p_cli

import (
	"bytes"
	"fmt"
	"os"
	"os/exec"
	"path/filepath"
	"regexp"
	"strconv"
	"strings"
	"sync"
	"syscall"
	"testing"
	"time"

	"pgregory.net/rapid"

	"verif/harness/hx"
)

// C48: files rewritten in place are never left partially written (fault enumeration).
//
// One case = one command on one input. The check first runs the command uninjected under a
// tracer on a fresh copy (this yields the "new" bytes and the list of system calls that touch
// the target), then once per listed call with the whole process SIGKILLed on entry to exactly
// that call, and compares the target with its old and new bytes.
//
// Tracers: "strace": `strace -f -P <target> -e inject=<call>:signal=SIGKILL:when=<n>`; calls
// are numbered per call name among the calls touching the target path. "killat": the ptrace
// helper testdata/killat.c numbers all calls touching any path under a prefix globally; it is
// needed for the temp-file + rename path of render, whose temp name is not known beforehand.
type c48Case struct {
	Cmd     string `json:"cmd"`     // fmt | render
	Tracer  string `json:"tracer"`  // strace | killat
	Size    int    `json:"size"`    // fmt: source size in bytes; render: number of shapes
	Old     int    `json:"old"`     // render: size of the existing output file
	Variant int    `json:"variant"` // content variation
	Link    bool   `json:"link,omitempty"` // the target path is a symbolic link to a regular file next to it (killat tracer only)
}

// c48Source builds an unformatted D2 source of exactly size bytes (size >= 1).
func c48Source(size, variant int) []byte {
	if size <= 0 {
		size = 1
	}
	switch size {
	case 1:
		return []byte("a")
	case 2:
		return []byte("a;")
	case 3:
		return []byte("a ;")
	}
	if size <= 40 {
		return []byte("a:" + strings.Repeat(" ", size-3) + "b")
	}
	var sb bytes.Buffer
	for i := 0; sb.Len() < size; i++ {
		// superfluous blanks, `;` separators and unquoted-able quotes: all rewritten by the formatter
		switch (i + variant) % 4 {
		case 0:
			fmt.Fprintf(&sb, "n%d   ->   m%d:   label %d\n", i, i+variant, i)
		case 1:
			fmt.Fprintf(&sb, "k%d:    {  x%d ;  y%d  }\n", i, i, variant)
		case 2:
			fmt.Fprintf(&sb, "q%d.style.opacity:     0.%d\n", i, 1+i%9)
		default:
			fmt.Fprintf(&sb, "\n\n\n# comment %d\nz%d  :  \"v%d\"\n", i, i, variant)
		}
	}
	b := sb.Bytes()[:size]
	// never end inside a quoted string or a key: finish with a harmless tail
	tail := []byte("\nend\n")
	copy(b[size-len(tail):], tail)
	// blank the truncated line before the tail
	cut := bytes.LastIndexByte(b[:size-len(tail)], '\n')
	for i := cut + 1; i < size-len(tail); i++ {
		b[i] = ' '
	}
	return b
}

func c48RenderSource(shapes, variant int) []byte {
	var sb bytes.Buffer
	if shapes < 1 {
		shapes = 1
	}
	for i := 0; i < shapes; i++ {
		fmt.Fprintf(&sb, "s%d: shape %d of variant %d\n", i, i, variant)
		if i > 0 {
			fmt.Fprintf(&sb, "s%d -> s%d\n", (i*7+variant)%i, i)
		}
	}
	return sb.Bytes()
}

var (
	killatOnce sync.Once
	killatPath string
	killatErr  error
)

func killatBin() (string, error) {
	killatOnce.Do(func() {
		src, err := filepath.Abs(filepath.Join("testdata", "killat.c"))
		if err != nil {
			killatErr = err
			return
		}
		if _, err := os.Stat(src); err != nil {
			root := os.Getenv("VERIF_ROOT")
			if root == "" {
				root = "/verif"
			}
			src = filepath.Join(root, "harness", "p_cli", "testdata", "killat.c")
		}
		out := filepath.Join(workRoot, fmt.Sprintf("killat-%d", os.Getpid()))
		cmd := exec.Command("gcc", "-O1", "-o", out, src)
		if b, err := cmd.CombinedOutput(); err != nil {
			killatErr = fmt.Errorf("gcc: %v: %s", err, clip(string(b), 400))
			return
		}
		killatPath = out
	})
	return killatPath, killatErr
}

// the file-system calls that are enumerated (the same set as killat.c's table)
const c48Calls = "open,creat,unlink,truncate,chmod,mkdir,rmdir,stat,lstat,access,openat,unlinkat,newfstatat,mkdirat,fchmodat,faccessat," +
	"read,write,pwrite64,writev,close,fsync,fdatasync,ftruncate,fchmod,fcntl,fstat,lseek,rename,renameat,renameat2,epoll_ctl"

type killPoint struct {
	Name string // system call
	Ord  int    // strace: ordinal among calls of that name touching the target; killat: global index
	Desc string
	Idx  int // position in the uninjected list (0-based)
}

var straceCall = regexp.MustCompile(`^\d+\s+([a-z_0-9]+)\(`)

// parseStrace lists the calls (in order) of a `strace -f -o` log.
func parseStrace(log []byte) (names []string, lines []string) {
	for _, l := range strings.Split(string(log), "\n") {
		if m := straceCall.FindStringSubmatch(l); m != nil {
			names = append(names, m[1])
			lines = append(lines, l)
		}
	}
	return
}

var killatLine = regexp.MustCompile(`^(\d+) ([a-z_0-9]+) (.*)$`)

type c48Env struct {
	c      c48Case
	sb     *sandbox
	old    []byte
	inData []byte   // render: the source
	args   []string // CLI arguments (relative to the worker directory)
}

// every worker has its own directory with its own copy of the files: <deep>/w<i>/
func (e *c48Env) dir(w int) string { return filepath.Join(e.sb.Deep, fmt.Sprintf("w%d", w)) }
func (e *c48Env) target(w int) string {
	if e.c.Cmd == "fmt" {
		return filepath.Join(e.dir(w), "f.d2")
	}
	return filepath.Join(e.dir(w), "out", "out.svg")
}
func (e *c48Env) prefix(w int) string {
	if e.c.Cmd == "fmt" {
		return e.target(w)
	}
	return filepath.Join(e.dir(w), "out") // the target, its directory and the temp file next to it
}

// reset restores the files of worker w to the state before the command.
func (e *c48Env) reset(w int) error {
	os.RemoveAll(e.dir(w))
	if err := mkdirAll(filepath.Dir(e.target(w))); err != nil {
		return err
	}
	if e.c.Link {
		// the existing output is a symbolic link to a regular file in the same directory
		real := filepath.Join(filepath.Dir(e.target(w)), "real-"+filepath.Base(e.target(w)))
		if err := writeFile(real, e.old); err != nil {
			return err
		}
		if err := os.Symlink(filepath.Base(real), e.target(w)); err != nil {
			return err
		}
	} else if err := writeFile(e.target(w), e.old); err != nil {
		return err
	}
	if e.c.Cmd == "render" {
		return writeFile(filepath.Join(e.dir(w), "in.d2"), e.inData)
	}
	return nil
}

// run executes the command under the tracer in worker w's directory; kp == nil: uninjected.
func (e *c48Env) run(w int, kp *killPoint) (log []byte, res runResult, err error) {
	logPath := filepath.Join(e.sb.Root, fmt.Sprintf("trace%d.log", w))
	os.Remove(logPath)
	var name string
	var args []string
	switch e.c.Tracer {
	case "strace":
		name = "strace"
		// no --seccomp-bpf: with it strace 6.1 silently skips the signal injection
		args = []string{"-f", "-qq", "-y", "-e", "signal=none", "-e", "trace=" + c48Calls, "-P", e.target(w), "-o", logPath}
		if kp != nil {
			args = append(args, "-e", fmt.Sprintf("inject=%s:signal=SIGKILL:when=%d", kp.Name, kp.Ord))
		}
		args = append(args, cliPath())
	default:
		k, kerr := killatBin()
		if kerr != nil {
			return nil, res, fmt.Errorf("killat-build: %v", kerr)
		}
		name = k
		args = []string{"-o", logPath, "-p", e.prefix(w)}
		if kp != nil {
			args = append(args, "-k", strconv.Itoa(kp.Ord))
		}
		args = append(args, "--", cliPath())
	}
	args = append(args, e.args...)
	res = runCmd(e.dir(w), e.sb.Env, 180*time.Second, name, args...)
	if res.Err != nil {
		return nil, res, fmt.Errorf("tracer-exec: %v", res.Err)
	}
	if res.TimedOut {
		return nil, res, fmt.Errorf("tracer-timeout: %s %v", name, e.args)
	}
	log, _ = os.ReadFile(logPath)
	return log, res, nil
}

type c48Outcome struct {
	kp     killPoint
	at     killPoint // where the process really died
	exact  bool
	killed bool
	missed bool
	state  string // "old" | "new" | description of a partial state
	bad    bool
	err    error
}

func (e *c48Env) inject(w int, kp killPoint, newBytes []byte) (o c48Outcome) {
	o.kp, o.at = kp, kp
	if o.err = e.reset(w); o.err != nil {
		return
	}
	ilog, ires, err := e.run(w, &kp)
	if err != nil {
		o.err = err
		return
	}
	o.killed = ires.Signal == syscall.SIGKILL || ires.Exit == 137
	switch e.c.Tracer {
	case "strace":
		names, lines := parseStrace(ilog)
		n := 0
		for _, x := range names {
			if x == kp.Name {
				n++
			}
		}
		o.exact = o.killed && len(names) > 0 && names[len(names)-1] == kp.Name && n == kp.Ord && strings.Contains(lines[len(lines)-1], "= ?")
		if o.killed && !o.exact && len(lines) > 0 {
			o.at = killPoint{Name: names[len(names)-1], Idx: len(names) - 1, Desc: "(another thread reached the ordinal) " + clip(lines[len(lines)-1], 160)}
		}
	default:
		o.exact = o.killed && bytes.Contains(ilog, []byte(fmt.Sprintf("\nKILLED %d\n", kp.Ord)))
	}
	if !o.killed {
		if ires.Exit != 0 {
			o.err = fmt.Errorf("injected-run: neither killed nor successful: exit=%d stderr=%s", ires.Exit, clip(string(ires.Stderr), 300))
			return
		}
		o.missed = true // the call migrated to a thread whose own count never reached the ordinal
		return
	}
	got, rerr := os.ReadFile(e.target(w))
	switch {
	case rerr != nil:
		o.bad, o.state = true, "target missing: "+rerr.Error()
	case bytes.Equal(got, e.old):
		o.state = "old"
	case bytes.Equal(got, newBytes):
		o.state = "new"
	default:
		o.bad = true
		o.state = fmt.Sprintf("%d bytes (old %d, new %d), common prefix with new %d", len(got), len(e.old), len(newBytes), commonPrefix(got, newBytes))
	}
	return
}

const c48Workers = 4

func checkC48(h *hx.H, c c48Case) {
	if (c.Cmd != "fmt" && c.Cmd != "render") || (c.Tracer != "strace" && c.Tracer != "killat") || c.Size < 1 || c.Size > 4<<20 || c.Old < 0 || c.Old > 4<<20 {
		h.Reject("bad-case")
	}
	if c.Cmd == "render" && c.Size > 400 {
		h.Reject("bad-case")
	}
	if c.Link && (c.Tracer != "killat" || c.Cmd != "render") {
		h.Reject("bad-case") // the per-path numbering of the strace tracer does not see the link's target
	}
	if c.Link {
		h.Label("target-is-symlink")
	}
	sb, err := newSandbox()
	if err != nil {
		harnessError(h, "sandbox", "%v", err)
	}
	defer sb.cleanup()
	e := &c48Env{c: c, sb: sb}
	switch c.Cmd {
	case "fmt":
		e.old = c48Source(c.Size, c.Variant)
		e.args = []string{"fmt", "f.d2"}
	default:
		e.inData = c48RenderSource(c.Size, c.Variant)
		e.old = bytes.Repeat([]byte("old output file content\n"), c.Old/24+1)[:c.Old]
		e.args = []string{"--layout", "dagre", "in.d2", "out/out.svg"}
	}
	h.Label("cmd:"+c.Cmd, "tracer:"+c.Tracer, "size:"+sizeClass(len(e.old)))

	// ---- uninjected traced run: new bytes + the calls to enumerate
	if err := e.reset(0); err != nil {
		harnessError(h, "sandbox", "%v", err)
	}
	log, res, err := e.run(0, nil)
	if err != nil {
		harnessError(h, "tracer", "%v", err)
	}
	if res.Exit != 0 || res.Signal != 0 {
		if c.Cmd == "fmt" && bytes.Contains(res.Stderr, []byte("err:")) && !bytes.Contains(res.Stderr, []byte("strace")) {
			h.Reject("input-not-formattable")
		}
		harnessError(h, "baseline", "uninjected traced run failed: exit=%d signal=%v stderr=%s", res.Exit, res.Signal, clip(string(res.Stderr), 300))
	}
	newBytes, err := os.ReadFile(e.target(0))
	if err != nil {
		harnessError(h, "baseline", "target unreadable after the uninjected run: %v", err)
	}
	if bytes.Equal(newBytes, e.old) {
		h.Reject("command-does-not-change-the-file")
	}
	var points []killPoint
	switch c.Tracer {
	case "strace":
		names, lines := parseStrace(log)
		cnt := map[string]int{}
		for i, n := range names {
			cnt[n]++
			points = append(points, killPoint{Name: n, Ord: cnt[n], Desc: clip(lines[i], 160), Idx: i})
		}
	default:
		for _, l := range strings.Split(string(log), "\n") {
			if m := killatLine.FindStringSubmatch(l); m != nil {
				n, _ := strconv.Atoi(m[1])
				points = append(points, killPoint{Name: m[2], Ord: n, Desc: clip(l, 160), Idx: len(points)})
			}
		}
	}
	if len(points) == 0 {
		harnessError(h, "baseline", "the tracer listed no call touching %s; log: %s", e.target(0), clip(string(log), 300))
	}
	h.AddExtra(c.Cmd+"_kill_points_enumerated", int64(len(points)))

	// ---- one injected run per point, a few at a time (each worker on its own copy of the files)
	outs := make([]c48Outcome, len(points))
	var wg sync.WaitGroup
	next := make(chan int)
	for w := 1; w <= c48Workers; w++ {
		wg.Add(1)
		go func(w int) {
			defer wg.Done()
			for i := range next {
				outs[i] = e.inject(w, points[i], newBytes)
			}
		}(w)
	}
	for i := range points {
		next <- i
	}
	close(next)
	wg.Wait()

	var bads []c48Outcome
	hit, missed, between := 0, 0, 0
	for _, o := range outs {
		if o.err != nil {
			harnessError(h, "injected-run", "%v", o.err)
		}
		switch {
		case o.missed:
			missed++
			continue
		case o.exact:
			hit++
			if o.kp.Idx > 0 && o.kp.Idx < len(points)-1 {
				between++
			}
		default:
			// killed somewhere else (a thread reached the ordinal at another call): still a crash
			// point, the oracle applies; counted separately
			h.AddExtra(c.Cmd+"_kills_elsewhere", 1)
		}
		if o.bad {
			bads = append(bads, o)
		} else {
			h.Label("after-kill:" + o.state)
		}
	}
	h.AddExtra(c.Cmd+"_kill_points_hit", int64(hit))
	h.AddExtra(c.Cmd+"_kill_points_missed", int64(missed))
	h.AddExtra("injected_runs", int64(len(points)))
	if missed > 0 {
		h.Label("has-missed-points")
	}
	if len(bads) > 0 {
		var sb strings.Builder
		for _, b := range bads {
			fmt.Fprintf(&sb, "\n  killed before #%d %s: target holds %s", b.at.Idx+1, b.at.Desc, b.state)
		}
		h.FailSoft("partial:"+c.Cmd, "`d2 %s` killed before %d of %d enumerated calls leaves the target neither old nor new:%s",
			strings.Join(e.args, " "), len(bads), len(points), clip(sb.String(), 2500))
	}
	h.NonTrivial(between >= 1)
}

func commonPrefix(a, b []byte) int {
	n := 0
	for n < len(a) && n < len(b) && a[n] == b[n] {
		n++
	}
	return n
}

func sizeClass(n int) string {
	switch {
	case n <= 16:
		return "<=16B"
	case n <= 4096:
		return "<=4KiB"
	case n <= 65536:
		return "<=64KiB"
	case n <= 1<<20:
		return "<=1MiB"
	default:
		return ">1MiB"
	}
}

func coreC48() []c48Case {
	var out []c48Case
	fmtSizes := hx.Pick([]int{1, 5000, 2 << 20}, []int{1, 2, 16, 511, 4096, 4097, 65536, 65537, 262144, 1 << 20, 2<<20 - 1, 2 << 20})
	for i, s := range fmtSizes {
		out = append(out, c48Case{Cmd: "fmt", Tracer: "strace", Size: s, Variant: i})
	}
	// the same command through the second tracer (global numbering): no gaps from thread migration
	for i, s := range hx.Pick([]int{300}, []int{1, 300, 70000, 2 << 20}) {
		out = append(out, c48Case{Cmd: "fmt", Tracer: "killat", Size: s, Variant: i + 1})
	}
	type rs struct{ shapes, old int }
	renders := hx.Pick([]rs{{1, 5}, {12, 200000}, {40, 0}}, []rs{{1, 0}, {1, 5}, {2, 1 << 20}, {5, 4096}, {12, 200000}, {20, 65536}, {40, 0}, {40, 3 << 20}, {80, 10}, {120, 100000}, {3, 1}, {8, 2 << 20}})
	for i, r := range renders {
		out = append(out, c48Case{Cmd: "render", Tracer: "strace", Size: r.shapes, Old: r.old, Variant: i})
		out = append(out, c48Case{Cmd: "render", Tracer: "killat", Size: r.shapes, Old: r.old, Variant: i})
		if i%2 == 0 {
			out = append(out, c48Case{Cmd: "render", Tracer: "killat", Size: r.shapes, Old: r.old + 7, Variant: i, Link: true})
		}
	}
	return out
}

func genC48(t *rapid.T) c48Case {
	c := c48Case{Variant: rapid.IntRange(0, 50).Draw(t, "variant")}
	c.Cmd = rapid.SampledFrom([]string{"fmt", "render"}).Draw(t, "cmd")
	c.Tracer = rapid.SampledFrom([]string{"strace", "killat"}).Draw(t, "tracer")
	if c.Cmd == "fmt" {
		// log-uniform 1 B .. 2 MiB
		e := rapid.IntRange(0, 21).Draw(t, "exp")
		c.Size = 1<<e + rapid.IntRange(0, 1<<e-1).Draw(t, "off")
		if c.Size > 2<<20 {
			c.Size = 2 << 20
		}
	} else {
		c.Size = rapid.IntRange(1, hx.Pick(30, 120)).Draw(t, "shapes")
		c.Old = rapid.SampledFrom([]int{0, 1, 100, 5000, 70000, 1 << 20}).Draw(t, "old")
		if c.Tracer == "killat" && rapid.IntRange(0, 2).Draw(t, "link") == 0 {
			c.Link = true
		}
	}
	return c
}

func TestC48(t *testing.T) {
	hx.Run(t, hx.Spec[c48Case]{Prop: "C48", Core: coreC48, Gen: genC48, Check: checkC48, Timeout: 20 * time.Minute})
	reportHarnessErrors(t)
}
