package p_cli

import (
	"fmt"
	"path/filepath"
	"regexp"
	"sort"
	"strings"
	"testing"
	"time"

	"oss.terrastruct.com/d2/d2compiler"
	"oss.terrastruct.com/d2/d2graph"
	"pgregory.net/rapid"

	"verif/harness/gen"
	"verif/harness/hx"
)

// C34: multi-board output stays inside the output location, one file per board.
//
// The CLI is run as `d2 --layout dagre in.d2 out/o.svg` with cwd = the deepest sandbox
// directory. Reading d2cli/main.go:render: a diagram without boards is written to exactly
// out/o.svg; a diagram with boards gets "a self-contained folder" whose name is the output
// path without its extension (out/o/): the root board is out/o/index.svg and every other
// board is written below out/o/. So the location is: out/o.svg itself, or anything under out/o/.
type c34Board struct {
	Kind   string     `json:"kind,omitempty"` // layers|scenarios|steps ("" for the root)
	Name   string     `json:"name"`
	Shapes int        `json:"shapes"` // own shapes (0: empty body)
	Kids   []c34Board `json:"kids,omitempty"`
}

type c34Case struct {
	Root c34Board `json:"root"`
	Note string   `json:"note,omitempty"`
}

var boardKinds = []string{"layers", "scenarios", "steps"}

func (b *c34Board) write(sb *strings.Builder, indent string, uid *int) {
	id := *uid
	*uid++
	for i := 0; i < b.Shapes; i++ {
		fmt.Fprintf(sb, "%ss%d_%d\n", indent, id, i)
	}
	if b.Shapes >= 2 {
		fmt.Fprintf(sb, "%ss%d_0 -> s%d_1\n", indent, id, id)
	}
	for _, k := range boardKinds {
		open := false
		for i := range b.Kids {
			if b.Kids[i].Kind != k {
				continue
			}
			if !open {
				fmt.Fprintf(sb, "%s%s: {\n", indent, k)
				open = true
			}
			fmt.Fprintf(sb, "%s  %s: {\n", indent, d2Quote(b.Kids[i].Name))
			b.Kids[i].write(sb, indent+"    ", uid)
			fmt.Fprintf(sb, "%s  }\n", indent)
		}
		if open {
			fmt.Fprintf(sb, "%s}\n", indent)
		}
	}
}

func (c *c34Case) text() string {
	var sb strings.Builder
	uid := 0
	c.Root.write(&sb, "", &uid)
	return sb.String()
}

// walk visits every board with the names on the path from the root.
func (b *c34Board) walk(path []string, f func(b *c34Board, path []string)) {
	f(b, path)
	for i := range b.Kids {
		b.Kids[i].walk(append(append([]string(nil), path...), b.Kids[i].Name), f)
	}
}

func dotDots(name string) int { return strings.Count(name, "..") }

// nameClass classifies one board name by the path construct it contains.
func nameClasses(name string) []string {
	var out []string
	segs := strings.Split(name, "/")
	hasDD := false
	for _, s := range segs {
		if s == ".." {
			hasDD = true
		}
	}
	cl := filepath.Clean(name)
	switch {
	case hasDD:
		out = append(out, "dotdot")
	case name == "":
		out = append(out, "empty")
	case cl == ".":
		out = append(out, "dot")
	}
	if !hasDD {
		if cl == "index" || strings.HasSuffix(cl, "/index") {
			out = append(out, "index")
		}
		if strings.HasSuffix(name, ".svg") {
			out = append(out, "svg-suffix")
		}
		if strings.Contains(name, "/") && cl != "." {
			out = append(out, "slash")
		}
	}
	if strings.Contains(name, "\\") {
		out = append(out, "backslash")
	}
	for _, k := range boardKinds {
		if name == k {
			out = append(out, "kind-word")
		}
	}
	long := false
	for _, s := range segs {
		if len(s) > 250 {
			long = true
		}
	}
	if long {
		out = append(out, "long")
	}
	if strings.ContainsAny(name, " \t\n'\"`$*?~%&;|<>()[]{}#!") {
		out = append(out, "shell-char")
	}
	for _, r := range name {
		if r > 0x7f {
			out = append(out, "unicode")
			break
		}
	}
	return out
}

// construct picks the most dangerous path construct present among the board names: the
// failure signatures are "<kind>:<construct>-board-name".
func c34Construct(classes map[string]bool) string {
	for _, k := range []string{"dotdot", "empty", "dot", "index", "svg-suffix", "slash"} {
		if classes[k] {
			return k + "-board-name"
		}
	}
	return "plain-board-name"
}

type compiledBoard struct {
	path   []string // names from the root
	folder bool
	g      *d2graph.Graph
}

func flattenGraph(g *d2graph.Graph, path []string, out *[]compiledBoard) {
	*out = append(*out, compiledBoard{path: path, folder: g.IsFolderOnly, g: g})
	for _, l := range [][]*d2graph.Graph{g.Layers, g.Scenarios, g.Steps} {
		for _, k := range l {
			flattenGraph(k, append(append([]string(nil), path...), k.Name), out)
		}
	}
}

var successLine = regexp.MustCompile(`(?m)^success: successfully compiled (.*?) to (.*) in [0-9.]+(ns|µs|ms|s|m[0-9.]+s)$`)

func checkC34(h *hx.H, c c34Case) {
	// ---- harness safety: refuse anything that could climb out of the sandbox
	nBoards, depth, unsafe, dupName := 0, 0, false, false
	classes := map[string]bool{}
	kinds := map[string]bool{}
	hasNewline := false
	c.Root.walk(nil, func(b *c34Board, path []string) {
		nBoards++
		if len(path) > depth {
			depth = len(path)
		}
		dd := 0
		for _, n := range path {
			dd += dotDots(n)
		}
		if dd > maxDotDot {
			unsafe = true
		}
		if len(path) > 0 {
			for _, cl := range nameClasses(b.Name) {
				classes[cl] = true
			}
			kinds[b.Kind] = true
			if strings.ContainsAny(b.Name, "\n\r") {
				hasNewline = true
			}
			ok := false
			for _, k := range boardKinds {
				if b.Kind == k {
					ok = true
				}
			}
			if !ok {
				unsafe = true
			}
		}
		seen := map[string]bool{}
		for i := range b.Kids {
			if seen[b.Kids[i].Name] {
				dupName = true
			}
			seen[b.Kids[i].Name] = true
		}
	})
	if unsafe || depth > 3 || nBoards > 16 || c.Root.Name != "" || c.Root.Kind != "" {
		h.Reject("unsafe-or-oversized-case")
	}
	if dupName {
		h.Reject("duplicate-board-name")
	}
	text := c.text()

	// ---- which boards exist and which have content (IsFolderOnly boards get no file)
	g, _, err := d2compiler.Compile("in.d2", strings.NewReader(text), nil)
	if err != nil {
		h.Reject("compile-error")
	}
	var boards []compiledBoard
	flattenGraph(g, nil, &boards)
	var want [][]string
	c.Root.walk(nil, func(b *c34Board, path []string) { want = append(want, path) })
	if len(boards) != len(want) {
		h.Reject("board-tree-differs")
	}
	key := func(p []string) string { return strings.Join(p, "\x00/\x00") }
	{
		a, b := []string{}, []string{}
		for i := range boards {
			a = append(a, key(boards[i].path))
			b = append(b, key(want[i]))
		}
		sort.Strings(a)
		sort.Strings(b)
		if strings.Join(a, "\x01") != strings.Join(b, "\x01") {
			h.Reject("board-names-differ")
		}
	}
	content := 0
	for _, b := range boards {
		if !b.folder {
			content++
		}
	}
	multi := nBoards > 1

	// ---- sandbox
	sb, err := newSandbox()
	if err != nil {
		harnessError(h, "sandbox", "%v", err)
	}
	defer sb.cleanup()
	deep := sb.Deep
	must := func(err error) {
		if err != nil {
			harnessError(h, "sandbox", "%v", err)
		}
	}
	must(writeFile(filepath.Join(deep, "in.d2"), []byte(text)))
	must(mkdirAll(filepath.Join(deep, "out", "o")))
	must(writeFile(filepath.Join(deep, "out", "sentinel"), []byte("sentinel out\n")))
	must(writeFile(filepath.Join(deep, "out", "o", "stale.svg"), []byte("stale\n"))) // inside the location: may go
	// files sitting exactly where a climbing board name would write
	must(writeFile(filepath.Join(deep, "out.svg"), []byte("pre-existing l5/out.svg\n")))
	must(writeFile(filepath.Join(filepath.Dir(deep), "l5.svg"), []byte("pre-existing l4/l5.svg\n")))
	before, err := snapshot(sb.Root)
	must(err)

	res := runCmd(deep, sb.Env, 90*time.Second, cliPath(), "--layout", "dagre", "in.d2", "out/o.svg")
	if res.Err != nil {
		harnessError(h, "exec", "%v", res.Err)
	}
	if res.TimedOut {
		harnessError(h, "timeout", "CLI did not finish in 90s (%d boards)", nBoards)
	}
	if res.Signal != 0 {
		harnessError(h, "signal", "CLI killed by %v", res.Signal)
	}
	after, err := snapshot(sb.Root)
	must(err)

	// ---- classify every difference
	relDeep, _ := filepath.Rel(sb.Root, deep)
	locFile := filepath.Join(relDeep, "out", "o.svg")
	locDir := filepath.Join(relDeep, "out", "o")
	envDir := "env"
	inLoc := func(p string) bool { return p == locFile || inside(p, locDir) }
	var damaged, escaped, written []string
	for _, p := range sortedKeys(before) {
		if inLoc(p) || inside(p, envDir) {
			continue
		}
		b := before[p]
		a, ok := after[p]
		switch {
		case !ok:
			damaged = append(damaged, "deleted "+p)
		case b.Dir != a.Dir:
			damaged = append(damaged, "replaced "+p)
		case !b.Dir && (a.Sum != b.Sum || a.Size != b.Size):
			damaged = append(damaged, "overwritten "+p)
		case !b.Dir && a.Ino != b.Ino:
			damaged = append(damaged, "replaced-same-bytes "+p)
		case b.Dir && a.Ino != b.Ino:
			damaged = append(damaged, "directory-recreated "+p)
		}
	}
	envTouched := 0
	for _, p := range sortedKeys(after) {
		a := after[p]
		b, existed := before[p]
		if inside(p, envDir) {
			if !existed {
				envTouched++
			}
			continue
		}
		if !inLoc(p) {
			if !existed {
				escaped = append(escaped, "created "+p)
			}
			continue
		}
		if a.Dir {
			continue
		}
		if !existed || a.Sum != b.Sum || a.Ino != b.Ino {
			written = append(written, p)
		}
	}
	if envTouched > 0 {
		h.Label("env-dirs-touched")
	}

	cons := c34Construct(classes)
	for k := range classes {
		h.Label("name:" + k)
	}
	h.Label(fmt.Sprintf("boards:%d", min(nBoards, 9)), fmt.Sprintf("depth:%d", depth), fmt.Sprintf("kinds:%d", len(kinds)))
	if content < nBoards {
		h.Label("has-folder-only-board")
	}
	hostile := len(classes) > 0

	stderr := string(res.Stderr)
	if len(damaged) > 0 {
		h.FailSoft("damage:"+cons, "files outside the output location were deleted or overwritten: %s\ninput:\n%s\nstderr: %s",
			strings.Join(damaged, "; "), clip(text, 1500), clip(stderr, 800))
	}
	if len(escaped) > 0 {
		h.FailSoft("escape:"+cons, "paths were created outside out/o/ and out/o.svg: %s\ninput:\n%s\nstderr: %s",
			strings.Join(escaped, "; "), clip(text, 1500), clip(stderr, 800))
	}
	safetyBroken := len(damaged) > 0 || len(escaped) > 0

	if res.Exit != 0 {
		// The statement does not say that every name must be renderable (a 300-byte name cannot be
		// a file name); an error exit is accepted, the safety half above was still checked.
		h.Gray()
		switch {
		case strings.Contains(stderr, "file name too long"):
			h.Label("cli-error:name-too-long")
		case strings.Contains(stderr, "invalid argument"):
			h.Label("cli-error:invalid-argument")
		case strings.Contains(stderr, "is a directory") || strings.Contains(stderr, "not a directory"):
			h.Label("cli-error:dir-file-clash")
		default:
			h.Label("cli-error:other")
			h.Extra("cli_error_sample", clip(stderr, 300))
		}
		h.NonTrivial(nBoards >= 3 && hostile)
		return
	}
	h.Label("cli-ok")

	if !safetyBroken {
		// one distinct file per board with content, nothing else
		wantFiles := content
		if !multi {
			if len(written) != 1 || written[0] != locFile {
				h.Failf("single-board-location", "single-board render wrote %v, want exactly %s", written, locFile)
			}
		} else {
			for _, p := range written {
				if p == locFile {
					// tolerated by the location rule (it is the path the user gave), still counted as a file
					h.Label("wrote-output-path-itself-in-multi-board")
				}
			}
		}
		var targets []string
		if !hasNewline {
			for _, m := range successLine.FindAllStringSubmatch(stderr, -1) {
				targets = append(targets, m[2])
			}
			sort.Strings(targets)
			dups := []string{}
			for i := 1; i < len(targets); i++ {
				if targets[i] == targets[i-1] {
					dups = append(dups, targets[i])
				}
			}
			if len(dups) > 0 {
				h.FailSoft("collision:"+cons, "output path reported written more than once: %q (%d boards with content, %d distinct files)\ninput:\n%s",
					dups, content, len(written), clip(text, 1500))
				safetyBroken = true
			} else if len(targets) != content {
				h.FailSoft("report-count:"+cons, "%d boards have content but %d writes were reported\ninput:\n%s\nstderr: %s", content, len(targets), clip(text, 1500), clip(stderr, 800))
			}
		}
		if !safetyBroken {
			if len(written) < wantFiles {
				h.FailSoft("collision:"+cons, "%d boards have content but only %d distinct files were left: %v\ninput:\n%s\nstderr: %s",
					wantFiles, len(written), written, clip(text, 1500), clip(stderr, 800))
			} else if len(written) > wantFiles {
				h.FailSoft("extra-files:"+cons, "%d boards have content but %d files were written: %v\ninput:\n%s", wantFiles, len(written), written, clip(text, 1500))
			}
		}
	}
	h.NonTrivial(nBoards >= 3 && hostile)
}

// ---------------------------------------------------------------------------------------
// generator
// ---------------------------------------------------------------------------------------

var c34PathNames = []string{
	"..", ".", "index", "layers", "scenarios", "steps", "a/b", "a\\b", "/abs", "/", "//", "../x", "x/..", "./x", "x/", "x//y", "x/./y",
	"a/index", "index.svg", "x.svg", "", " ", "a b", "a'b", "a\"b", "日本語", "😀", "-", "--layout", "~", "$HOME", "%s", "*", "?", "x\ny", "x\ty",
	"...", "..x", "x..", ". .", "con", "nul", "a:b", "a|b", "tmp-o.svg-1", "o", "o.svg", "out", "in.d2", "sentinel", "\\..\\", "..\\x",
}

func c34Long(n int) string { return strings.Repeat("L", n) }

func genC34Name(t *rapid.T, siblings []string, parent string, budget int) string {
	var name string
	switch gen.Pick(t, "nameKind", 3, 5, 1, 1, 3) {
	case 0:
		name = rapid.SampledFrom(gen.PlainNames).Draw(t, "plain")
	case 1:
		name = rapid.SampledFrom(c34PathNames).Draw(t, "path")
	case 2:
		name = c34Long(rapid.SampledFrom([]int{100, 250, 251, 252, 255, 256, 300, 1000, 4100}).Draw(t, "long"))
	case 3:
		name = rapid.SampledFrom(gen.HostileNames).Draw(t, "hostile")
	default:
		// derived from a sibling / the parent: the constructs that make two boards meet on disk
		base := parent
		if len(siblings) > 0 && rapid.Bool().Draw(t, "fromSibling") {
			base = rapid.SampledFrom(siblings).Draw(t, "sib")
		}
		switch gen.Pick(t, "derive", 2, 2, 2, 1, 1, 1, 1) {
		case 0:
			name = base + "/index"
		case 1:
			name = base + "/" + rapid.SampledFrom(gen.PlainNames).Draw(t, "leaf")
		case 2:
			name = base + ".svg"
		case 3:
			name = "../" + base
		case 4:
			name = base + "/.."
		case 5:
			name = "./" + base
		default:
			name = base + "/"
		}
	}
	if strings.Contains(name, "${") || strings.ContainsRune(name, 0) || !strings.EqualFold(strings.ToValidUTF8(name, ""), name) {
		name = "v" // substitutions and invalid text are not this property's subject
	}
	if dotDots(name) > budget {
		name = "w"
	}
	return name
}

func genC34Board(t *rapid.T, kind, name string, level int, ddBudget int, total *int) c34Board {
	b := c34Board{Kind: kind, Name: name, Shapes: gen.Pick(t, "shapes", 1, 6, 3)}
	if level >= 3 || *total >= 9 {
		return b
	}
	maxKids := []int{4, 3, 2}[level]
	nk := rapid.IntRange(0, maxKids).Draw(t, "nkids")
	if level == 0 && nk == 0 {
		nk = 1
	}
	var names []string
	for i := 0; i < nk && *total < 9; i++ {
		k := rapid.SampledFrom(boardKinds).Draw(t, "kind")
		n := genC34Name(t, names, name, ddBudget)
		dup := false
		for _, x := range names {
			if x == n {
				dup = true
			}
		}
		if dup {
			continue
		}
		names = append(names, n)
		*total++
		b.Kids = append(b.Kids, genC34Board(t, k, n, level+1, ddBudget-dotDots(n), total))
	}
	return b
}

func genC34(t *rapid.T) c34Case {
	total := 1
	return c34Case{Root: genC34Board(t, "", "", 0, maxDotDot, &total)}
}

func coreC34() []c34Case {
	leaf := func(kind, name string) c34Board { return c34Board{Kind: kind, Name: name, Shapes: 1} }
	with := func(b c34Board, kids ...c34Board) c34Board { b.Kids = kids; return b }
	root := func(kids ...c34Board) c34Board { return c34Board{Shapes: 2, Kids: kids} }
	var out []c34Case
	add := func(note string, r c34Board) { out = append(out, c34Case{Root: r, Note: note}) }
	add("single board", c34Board{Shapes: 2})
	add("plain layers", root(leaf("layers", "x"), leaf("layers", "y")))
	add("all kinds", root(leaf("layers", "x"), leaf("scenarios", "s"), leaf("steps", "t")))
	add("three levels", root(with(leaf("layers", "x"), with(leaf("scenarios", "s"), leaf("steps", "t1"), leaf("steps", "t2")))))
	add("folder-only layer", root(c34Board{Kind: "layers", Name: "empty"}, leaf("layers", "x")))
	// every hostile name once as a lone layer, once beside a plain sibling with children, once with children itself
	for i, n := range c34PathNames {
		// alternate the two shapes of use; the rapid phase mixes them freely
		if i%2 == 0 || i < 12 {
			add("with children", root(with(leaf("layers", n), leaf("layers", "k")), leaf("layers", "x")))
		}
		if i%2 == 1 || i < 12 {
			add("lone layer", root(leaf("layers", n)))
		}
		if i < 8 {
			add("under kinds", root(leaf("layers", n), leaf("scenarios", "s")))
		}
	}
	for _, n := range []int{251, 252, 4100} {
		add("long", root(leaf("layers", c34Long(n)), leaf("layers", "x")))
	}
	// two boards meeting on disk
	add("a/b vs a.b", root(with(leaf("layers", "a"), leaf("layers", "b")), leaf("layers", "a/b")))
	add("a vs a.svg", root(leaf("layers", "a"), with(leaf("layers", "a.svg"), leaf("layers", "k"))))
	add("nested index", root(with(leaf("layers", "x"), leaf("layers", "index"))))
	add("dotdot twice", root(with(leaf("layers", ".."), leaf("layers", ".."))))
	add("dotdot/dotdot", root(leaf("layers", "../..")))
	add("dotdot/dotdot with kids", root(with(leaf("layers", "../.."), leaf("layers", "k"))))
	return out
}

func TestC34(t *testing.T) {
	hx.Run(t, hx.Spec[c34Case]{Prop: "C34", Core: coreC34, Gen: genC34, Check: checkC34, Timeout: 150 * time.Second})
	reportHarnessErrors(t)
}
