package p_shape

import (
	"fmt"
	"math"
	"regexp"
	"sort"
	"strconv"
	"strings"
	"sync"
	"testing"
	"time"

	"oss.terrastruct.com/d2/d2renderers/d2animate"
	"oss.terrastruct.com/d2/d2renderers/d2fonts"
	"oss.terrastruct.com/d2/d2renderers/d2svg"
	"oss.terrastruct.com/d2/d2target"
	"oss.terrastruct.com/d2/lib/font"
	"oss.terrastruct.com/util-go/go2"
	"pgregory.net/rapid"

	"verif/harness/hx"
)

// C33: animated SVGs show exactly one board at a time, in order.
//
// No hook: d2animate.Wrap is called the way d2cli/main.go does (root diagram, one SVG per board,
// render options, interval in ms) with n stub boards `<g id="b<i>">…</g>`; the emitted CSS is
// parsed back: every board element must carry `animation: <name_i> <n*T>ms infinite` and
// `@keyframes <name_i>` must exist. The keyframes are then evaluated with CSS semantics
// (keyframes sorted by offset, a later rule wins for an equal offset, interpolation between
// neighbours) on the cycle [0, n*T).
//
// How the code produces transitions (makeKeyframe): board i is 0 until (i*T-1) ms, 1 from i*T
// to (i+1)*T-1 ms and 0 from (i+1)*T ms; so every fade lies in a window [k*T-1, k*T] ms, k =
// 0..n (k=0 / k=n is the loop point). Offsets are printed with %f, six decimals of a per cent,
// so a printed offset is up to 5e-9*n*T ms away from the exact one. Excluded from the
// assertion: the windows [k*T-1-s, k*T+s] with s = 5e-9*n*T*(1+1e-3) + 1e-6 ms. Everywhere
// else board floor(t/T) must have opacity 1 and every other board opacity 0.
type c33Case struct {
	N int `json:"n"`
	T int `json:"t"`
}

type kf struct {
	off float64 // per cent
	val float64
}

var (
	c33KeyframesRe = regexp.MustCompile(`@keyframes\s+([A-Za-z0-9_-]+)\s*\{((?:[^{}]*\{[^{}]*\})*)\s*\}`)
	c33RuleRe      = regexp.MustCompile(`([^{}]+)\{([^{}]*)\}`)
	c33OpacityRe   = regexp.MustCompile(`^\s*opacity:\s*([0-9.eE+-]+)\s*;\s*$`)
	c33BoardRe     = regexp.MustCompile(`<g style="animation: ([A-Za-z0-9_-]+) ([0-9]+)ms infinite" id="b([0-9]+)">`)
)

// Wrap subsets and WOFF-encodes every font style on each call (~0.15 s with the bundled
// 300 KB faces) although the stub boards contain no text. To keep a case cheap the diagram
// uses a custom font family, registered once through the public d2fonts.AddFontFamily (what
// the CLI's --font-regular does), whose faces are Source Sans Pro cut down to one glyph. The
// keyframes do not depend on fonts. If the registration fails the bundled fonts are used.
var (
	c33FontOnce sync.Once
	c33FontFam  *d2fonts.FontFamily
)

func c33Font() *d2fonts.FontFamily {
	c33FontOnce.Do(func() {
		c33FontFam = go2.Pointer(d2fonts.SourceSansPro)
		defer func() { recover() }()
		face := d2fonts.FontFaces.Get(d2fonts.SourceSansPro.Font(0, d2fonts.FONT_STYLE_REGULAR))
		buf := make([]byte, len(face))
		copy(buf, face)
		tiny := font.UTF8CutFont(buf, "a")
		if fam, err := d2fonts.AddFontFamily("verif-tiny", tiny, tiny, tiny, tiny); err == nil && fam != nil {
			c33FontFam = fam
		}
	})
	return c33FontFam
}

func c33Wrap(n, T int) ([]byte, error) {
	diagram := d2target.NewDiagram()
	diagram.FontFamily = c33Font()
	diagram.MonoFontFamily = c33Font()
	boards := make([][]byte, n)
	for i := range boards {
		boards[i] = []byte(fmt.Sprintf(`<g id="b%d"><rect width="1" height="1"/></g>`, i))
	}
	opts := d2svg.RenderOpts{Pad: go2.Pointer(int64(0))}
	return d2animate.Wrap(diagram, boards, opts, T)
}

// evalKF evaluates sorted keyframes at fraction f (per cent), linear between neighbours (the
// real timing function only matters between keyframes of different value, where any result
// differs from both 0 and 1).
func evalKF(ks []kf, f float64) float64 {
	if f <= ks[0].off {
		return ks[0].val
	}
	for i := 0; i+1 < len(ks); i++ {
		a, b := ks[i], ks[i+1]
		if f >= a.off && f <= b.off {
			if b.off == a.off {
				continue
			}
			if a.val == b.val {
				return a.val
			}
			return a.val + (b.val-a.val)*(f-a.off)/(b.off-a.off)
		}
	}
	return ks[len(ks)-1].val
}

func checkC33(h *hx.H, c c33Case) {
	if c.N < 1 || c.N > 2000 || c.T < 1 || c.T > 10000000 {
		h.Reject("out-of-domain")
	}
	n, T := c.N, c.T
	total := float64(n) * float64(T)
	out, err := c33Wrap(n, T)
	if err != nil {
		h.Failf("wrap-error", "Wrap(n=%d, T=%d): %v", n, T, err)
	}
	src := string(out)

	// structure: board i animates with keyframes named ...-i for n*T ms, in order
	bm := c33BoardRe.FindAllStringSubmatch(src, -1)
	if len(bm) != n {
		h.Failf("structure:board-count", "n=%d T=%d: %d animated board elements in the output", n, T, len(bm))
	}
	names := make([]string, n)
	for i, m := range bm {
		if m[3] != strconv.Itoa(i) {
			h.Failf("structure:board-order", "n=%d T=%d: element %d is board %s", n, T, i, m[3])
		}
		if m[2] != strconv.FormatInt(int64(n)*int64(T), 10) {
			h.Failf("structure:duration", "n=%d T=%d: board %d animates for %sms, cycle is %dms", n, T, i, m[2], int64(n)*int64(T))
		}
		if !strings.HasSuffix(m[1], "-"+strconv.Itoa(i)) {
			h.Failf("structure:keyframes-name", "n=%d T=%d: board %d uses keyframes %q", n, T, i, m[1])
		}
		names[i] = m[1]
	}
	frames := map[string][]kf{}
	used := map[string]bool{}
	for _, nm := range names {
		used[nm] = true
	}
	for _, m := range c33KeyframesRe.FindAllStringSubmatch(src, -1) {
		if !used[m[1]] {
			continue // keyframes of the base stylesheet
		}
		var ks []kf
		for _, r := range c33RuleRe.FindAllStringSubmatch(m[2], -1) {
			om := c33OpacityRe.FindStringSubmatch(strings.TrimSpace(r[2]))
			if om == nil {
				h.Failf("parse:declaration", "n=%d T=%d: keyframes %s: unexpected declaration %q", n, T, m[1], r[2])
			}
			v, err := strconv.ParseFloat(om[1], 64)
			if err != nil {
				h.Failf("parse:opacity", "n=%d T=%d: keyframes %s: opacity %q", n, T, m[1], om[1])
			}
			for _, sel := range strings.Split(r[1], ",") {
				sel = strings.TrimSpace(sel)
				if !strings.HasSuffix(sel, "%") {
					h.Failf("parse:selector", "n=%d T=%d: keyframes %s: selector %q", n, T, m[1], sel)
				}
				p, err := strconv.ParseFloat(strings.TrimSuffix(sel, "%"), 64)
				if err != nil || math.IsNaN(p) || math.IsInf(p, 0) {
					h.Failf("percent-not-a-number", "n=%d T=%d: keyframes %s: selector %q", n, T, m[1], sel)
				}
				ks = append(ks, kf{p, v})
			}
		}
		if _, dup := frames[m[1]]; dup {
			h.Failf("structure:duplicate-keyframes", "n=%d T=%d: keyframes %s defined twice", n, T, m[1])
		}
		frames[m[1]] = ks
	}
	boards := make([][]kf, n)
	collapsed := false
	for i, name := range names {
		ks, ok := frames[name]
		if !ok || len(ks) == 0 {
			h.Failf("structure:keyframes-missing", "n=%d T=%d: no @keyframes %s", n, T, name)
		}
		// the statement: all percentages within [0, 100] and in increasing (non-decreasing) order
		for j, k := range ks {
			if k.off < 0 || k.off > 100 {
				h.Failf("percent-out-of-range", "n=%d T=%d board %d: keyframe offset %v%%", n, T, i, k.off)
			}
			if j > 0 && k.off < ks[j-1].off {
				h.Failf("percent-decreasing", "n=%d T=%d board %d: keyframe offsets %v%% then %v%%", n, T, i, ks[j-1].off, k.off)
			}
		}
		// CSS: sort by offset; for an equal offset the later rule wins
		sorted := append([]kf(nil), ks...)
		sort.SliceStable(sorted, func(a, b int) bool { return sorted[a].off < sorted[b].off })
		var ded []kf
		for _, k := range sorted {
			if len(ded) > 0 && ded[len(ded)-1].off == k.off {
				// Two keyframes that makeKeyframe computes 1 ms apart were printed as the same
				// offset (%f keeps six decimals of a per cent): the 1 ms fade becomes a ramp from
				// the previous keyframe. (Board 0 legitimately has "0%, 0%" twice.)
				// Two offsets 1 ms = 100/(n*T) per cent apart can only print identically
				// when that is below the print resolution of 1e-6, i.e. n*T > 1e8 ms; a
				// collision on a shorter cycle is not this finding.
				if ded[len(ded)-1].val != k.val && !(i == 0 && k.off == 0) && total > 1e8 {
					collapsed = true
				}
				ded[len(ded)-1] = k
			} else {
				ded = append(ded, k)
			}
		}
		// CSS fills in missing 0% / 100% keyframes from the element's own value (opacity 1)
		if ded[0].off != 0 {
			ded = append([]kf{{0, 1}}, ded...)
		}
		if ded[len(ded)-1].off != 100 {
			ded = append(ded, kf{100, 1})
		}
		boards[i] = ded
	}

	slack := 5e-9*total*(1+1e-3) + 1e-6
	inWindow := func(t float64) bool {
		// nearest boundary k*T at or above t
		k := math.Ceil((t - slack) / float64(T))
		b := k * float64(T)
		if t >= b-1-slack && t <= b+slack {
			return true
		}
		b -= float64(T) // boundary below
		return t <= b+slack
	}
	asserted := 0
	check := func(t float64) {
		if t < 0 || t >= total || inWindow(t) {
			return
		}
		asserted++
		want := int(math.Floor(t / float64(T)))
		f := t / total * 100
		for i := 0; i < n; i++ {
			v := evalKF(boards[i], f)
			if i == want {
				if v < 1-1e-9 {
					sig := "current-board-not-visible"
					if collapsed {
						sig = "fade-longer-than-1ms:percent-print-precision"
					}
					h.FailSoft(sig, "n=%d T=%d: at t=%vms (interval %d) board %d has opacity %v", n, T, t, want, i, v)
					return
				}
				continue
			}
			if v > 1e-9 {
				sig := "other-board-visible"
				switch {
				case v >= 1-1e-9 && n > 100 && i < want && i < n-1:
					// an earlier, non-last board that never fades out
					sig = "two-visible:n>100"
				case collapsed:
					sig = "fade-longer-than-1ms:percent-print-precision"
				case v >= 1-1e-9:
					sig = "two-visible"
				}
				h.FailSoft(sig, "n=%d T=%d: at t=%vms (interval %d) board %d also has opacity %v; its keyframes: %v", n, T, t, want, i, v, boards[i])
				return
			}
		}
	}
	if total <= 20000 {
		for t := 0; t < int(total); t++ {
			check(float64(t))
			check(float64(t) + 0.5)
		}
		h.Label("times:every-ms")
	} else {
		// 2000 strata, one deterministic pseudo-random time in each
		x := uint64(n)*0x9E3779B97F4A7C15 ^ uint64(T)*0xC2B2AE3D27D4EB4F
		for s := 0; s < 2000; s++ {
			x = x*6364136223846793005 + 1442695040888963407
			fr := float64(x>>11) / float64(1<<53)
			check((float64(s) + fr) / 2000 * total)
		}
		h.Label("times:stratified")
	}
	// always: just outside every transition window and in the middle of every interval
	d := slack*1.001 + 1e-6
	for k := 0; k <= n; k++ {
		b := float64(k) * float64(T)
		check(b + d)
		check(b - 1 - d)
		check(b + float64(T)/2)
	}
	h.AddExtra("times_asserted", int64(asserted))
	switch {
	case n == 1:
		h.Label("n:1")
	case n <= 100:
		h.Label("n:2-100")
	default:
		h.Label("n:>100")
	}
	switch {
	case T <= 2:
		h.Label("T:<=2ms")
	case T < 100:
		h.Label("T:3-99ms")
	case T <= 60000:
		h.Label("T:0.1-60s")
	default:
		h.Label("T:>60s")
	}
	if slack > 0.5 {
		h.Label("print-rounding-slack>0.5ms")
	}
	if collapsed {
		h.Label("keyframes-collapsed-by-%f")
	}
	if asserted == 0 {
		h.Label("nothing-outside-transition-windows")
	}
	// non-trivial: more than one board and at least one asserted time per board on average
	h.NonTrivial(n >= 2 && asserted >= n)
}

func coreC33() []c33Case {
	var out []c33Case
	for n := 1; n <= 130; n++ {
		for _, T := range []int{1, 2, 3, 7, 16, 100, 1000, 1200, 60000} {
			out = append(out, c33Case{N: n, T: T})
		}
	}
	for _, n := range []int{131, 199, 200, 201, 202, 256, 500, 999, 1000, 1001, 2000} {
		for _, T := range []int{1, 2, 5, 99, 100, 101, 1000, 10000000} {
			out = append(out, c33Case{N: n, T: T})
		}
	}
	return out
}

func genC33(t *rapid.T) c33Case {
	var c c33Case
	switch rapid.IntRange(0, 3).Draw(t, "nk") {
	case 0:
		c.N = rapid.IntRange(1, 20).Draw(t, "n")
	case 1:
		c.N = rapid.IntRange(90, 210).Draw(t, "n")
	default:
		c.N = rapid.IntRange(1, 2000).Draw(t, "n")
	}
	switch rapid.IntRange(0, 3).Draw(t, "tk") {
	case 0:
		c.T = rapid.IntRange(1, 50).Draw(t, "t")
	case 1:
		c.T = rapid.IntRange(50, 5000).Draw(t, "t")
	case 2:
		c.T = rapid.IntRange(1, 10000000).Draw(t, "t")
	default:
		c.T = rapid.SampledFrom([]int{1, 2, 10, 100, 500, 1000, 2000, 5000, 10000, 60000, 3600000, 10000000}).Draw(t, "t")
	}
	return c
}

func TestC33(t *testing.T) {
	hx.Run(t, hx.Spec[c33Case]{Prop: "C33", Core: coreC33, Gen: genC33, Check: checkC33, Timeout: 120 * time.Second})
}
