package p_shape

import (
	"fmt"
	"math"
	"os"
	"path/filepath"
	"regexp"
	"sort"
	"strings"
	"testing"
	"time"

	"oss.terrastruct.com/d2/lib/geo"
	"oss.terrastruct.com/d2/lib/shape"
	"pgregory.net/rapid"

	"verif/harness/geom"
	"verif/harness/hx"
)

// C27: fitted shapes contain their content; traced ends land on the outline.
//
// Reading of the callers (what the code promises, so what is asserted):
//
//   - d2graph.(*Object).SizeToContent(contentW, contentH, padX, padY) ("resizes the object to
//     fit content of the given width and height in its inner box with the given padding")
//     builds shape.NewShape(type, box(0,0,contentW,contentH)), calls
//     GetDimensionsToFit(contentW, contentH, padX, padY), and for AspectRatio1() shapes makes
//     width = height = max(width, height). The label/icon/grid cells are later placed inside
//     obj.ToShape().GetInnerBox() (cloud: the inner box chosen from the content's aspect
//     ratio, GetInnerBoxForContent(contentW, contentH), stored as ContentAspectRatio).
//   - "content" is contentW x contentH alone. The padding is extra room whose distribution is
//     shape specific (oval adds it along the diagonal only: padX*cos(theta)), so
//     inner >= content + padding is NOT promised and not asserted (its frequency is reported
//     as a label). Padding 0 is in the domain: d2grid calls SizeToContent(w, h, 0, 0) and
//     d2graph zeroes the padding of an axis with an explicit width/height.
//   - SizeToContent bypasses GetDimensionsToFit for PERSON (it uses content+padding
//     directly); the property is about GetDimensionsToFit, so Person is checked like the
//     other types.
//   - d2graph.(*Edge).TraceToShape moves a route end to the first intersection with the
//     object's *box* and then calls shape.TraceToShapeBorder(shape, borderPoint, prevPoint).
//     The documented precondition is "r is the point on the rectangular border, p the previous
//     point"; so the generator produces r on the box border and p outside the box, and only
//     rays that really enter the shape (see checkTrace) are asserted.
type c27Case struct {
	Kind string `json:"kind"` // fit | trace
	Type string `json:"type"`

	// fit: content size, paddings, top-left of the final box
	W  float64 `json:"w,omitempty"`
	H  float64 `json:"h,omitempty"`
	PX float64 `json:"px,omitempty"`
	PY float64 `json:"py,omitempty"`
	OX float64 `json:"ox,omitempty"`
	OY float64 `json:"oy,omitempty"`

	// trace: box, aim point (relative, inside the box), approach
	BX   float64 `json:"bx,omitempty"`
	BY   float64 `json:"by,omitempty"`
	BW   float64 `json:"bw,omitempty"`
	BH   float64 `json:"bh,omitempty"`
	U    float64 `json:"u,omitempty"`
	V    float64 `json:"v,omitempty"`
	Dir  int     `json:"dir,omitempty"`  // 0: free angle Ang; 1..4: exactly from top/right/bottom/left
	Ang  float64 `json:"ang,omitempty"`  // direction from the aim point towards the previous point
	Dist float64 `json:"dist,omitempty"` // distance of the previous point from the border point
	Snap bool    `json:"snap,omitempty"` // border point rounded to integers (as geo.IntersectionPoint does)
}

var c27Types = []string{
	shape.SQUARE_TYPE, shape.REAL_SQUARE_TYPE, shape.PARALLELOGRAM_TYPE, shape.DOCUMENT_TYPE,
	shape.CYLINDER_TYPE, shape.QUEUE_TYPE, shape.PAGE_TYPE, shape.PACKAGE_TYPE, shape.STEP_TYPE,
	shape.CALLOUT_TYPE, shape.STORED_DATA_TYPE, shape.PERSON_TYPE, shape.C4_PERSON_TYPE,
	shape.DIAMOND_TYPE, shape.OVAL_TYPE, shape.CIRCLE_TYPE, shape.HEXAGON_TYPE, shape.CLOUD_TYPE,
	shape.TABLE_TYPE, shape.CLASS_TYPE, shape.TEXT_TYPE, shape.CODE_TYPE, shape.IMAGE_TYPE,
}

// The tolerance for "on the outline": 1.5 px (DESIGN's value), justified by construction and by
// measurement. TraceToShapeBorder rounds the point it returns to integer pixels (error <=
// sqrt(0.5) = 0.7072 px); straight perimeter segments are intersected by geo.IntersectionPoint
// which itself rounds both coordinate offsets (again <= 0.7072 px from the true crossing); the
// C4Person head is intersected as an exact circle but drawn as four cubics with integer
// control points (a further ~0.3 px); the flattened reference outline is within 0.01 px.
// Measured (evidence: trace_dist_hist / trace_dist_tail_by_type, ~87k found points per quick
// run): 99.95% of the found points are < 0.72 px from the outline, the largest 1.05 px
// (C4Person head; cloud and cylinder arcs 0.85-1.0); when nothing is found the border point
// comes back and its distance is whatever the gap between box and outline is
// (trace_miss_dist_hist, mostly > 5 px).
const c27TraceTol = 1.5
const c27FlatTol = 0.01

var (
	c27TraceHist = map[string]int64{}
	c27FitHist   = map[string]int64{}
	c27TraceTail = map[string]int64{}
	c27MissHist  = map[string]int64{}
)

func bucket(v, step float64, max float64) string {
	if v >= max {
		return fmt.Sprintf(">=%.2f", max)
	}
	b := math.Floor(v/step) * step
	return fmt.Sprintf("%05.2f-%05.2f", b, b+step)
}

func isFinite(vs ...float64) bool {
	for _, v := range vs {
		if math.IsNaN(v) || math.IsInf(v, 0) {
			return false
		}
	}
	return true
}

func checkC27(h *hx.H, c c27Case) {
	known := false
	for _, t := range c27Types {
		if t == c.Type {
			known = true
		}
	}
	if !known {
		h.Reject("unknown-type")
	}
	h.Label("kind:"+c.Kind, "type:"+c.Type)
	switch c.Kind {
	case "fit":
		checkFit(h, c)
	case "trace":
		checkTrace(h, c)
	default:
		h.Reject("unknown-kind")
	}
}

// ------------------------------------------------------------------ fit

func checkFit(h *hx.H, c c27Case) {
	if !(c.W > 0 && c.W <= 3000 && c.H > 0 && c.H <= 3000 && c.PX >= 0 && c.PX <= 200 && c.PY >= 0 && c.PY <= 200) || !isFinite(c.OX, c.OY) {
		h.Reject("fit-out-of-domain")
	}
	// exactly what SizeToContent does
	s0 := shape.NewShape(c.Type, geo.NewBox(geo.NewPoint(0, 0), c.W, c.H))
	W, H := s0.GetDimensionsToFit(c.W, c.H, c.PX, c.PY)
	if !isFinite(W, H) || W <= 0 || H <= 0 {
		h.Failf("fit-bad-dimensions:"+c.Type, "GetDimensionsToFit(%v,%v,%v,%v) = (%v,%v)", c.W, c.H, c.PX, c.PY, W, H)
	}
	if s0.AspectRatio1() {
		side := math.Max(W, H)
		W, H = side, side
		h.Label("aspect-ratio-1")
	}
	s := shape.NewShape(c.Type, geo.NewBox(geo.NewPoint(c.OX, c.OY), W, H))

	type ib struct {
		name string
		b    *geo.Box
	}
	var inners []ib
	if c.Type == shape.CLOUD_TYPE {
		inners = append(inners, ib{"for-content", s.GetInnerBoxForContent(c.W, c.H)})
		// the pipeline: SizeToContent stores the aspect ratio of the inner box computed on the
		// *content* box, ToShape() feeds it back through SetInnerBoxAspectRatio
		i0 := s0.GetInnerBoxForContent(c.W, c.H)
		s2 := shape.NewShape(c.Type, geo.NewBox(geo.NewPoint(c.OX, c.OY), W, H))
		s2.SetInnerBoxAspectRatio(i0.Width / i0.Height)
		inners = append(inners, ib{"via-aspect-ratio", s2.GetInnerBox()})
	} else {
		inners = append(inners, ib{"inner", s.GetInnerBox()})
	}

	margin := math.Inf(1)
	for _, in := range inners {
		b := in.b
		if b == nil || b.TopLeft == nil || !isFinite(b.TopLeft.X, b.TopLeft.Y, b.Width, b.Height) {
			h.Failf("fit-inner-invalid:"+c.Type, "%s box of %s on %vx%v is %v", in.name, c.Type, W, H, b)
		}
		tolW := 1e-6 * math.Max(1, c.W)
		tolH := 1e-6 * math.Max(1, c.H)
		if dw := c.W - b.Width; dw > tolW {
			h.FailSoft(smallSig(c.Type, "w", dw),
				"%s: content %vx%v pad %v,%v -> fit %vx%v -> %s width %v < content width %v (short by %v)",
				c.Type, c.W, c.H, c.PX, c.PY, W, H, in.name, b.Width, c.W, dw)
		}
		if dh := c.H - b.Height; dh > tolH {
			h.FailSoft(smallSig(c.Type, "h", dh),
				"%s: content %vx%v pad %v,%v -> fit %vx%v -> %s height %v < content height %v (short by %v)",
				c.Type, c.W, c.H, c.PX, c.PY, W, H, in.name, b.Height, c.H, dh)
		}
		margin = math.Min(margin, math.Min(b.Width-c.W, b.Height-c.H))
		// inside the shape's box
		eps := 1e-6 * math.Max(1, math.Max(W, H))
		over := math.Max(math.Max(c.OX-b.TopLeft.X, c.OY-b.TopLeft.Y),
			math.Max(b.TopLeft.X+b.Width-(c.OX+W), b.TopLeft.Y+b.Height-(c.OY+H)))
		if over > eps {
			oc := "gt1px"
			if over <= 1 {
				oc = "le1px"
			}
			h.FailSoft(fmt.Sprintf("fit-inner-outside-box:%s:%s", c.Type, oc),
				"%s: content %vx%v pad %v,%v -> box (%v,%v) %vx%v but %s box (%v,%v) %vx%v sticks out by %v",
				c.Type, c.W, c.H, c.PX, c.PY, c.OX, c.OY, W, H, in.name, b.TopLeft.X, b.TopLeft.Y, b.Width, b.Height, over)
		}
		if b.Width >= c.W+c.PX-tolW && b.Height >= c.H+c.PY-tolH {
			h.Label("fit:inner>=content+padding")
		} else {
			h.Label("fit:inner<content+padding")
		}
	}
	switch {
	case margin < -2:
		c27FitHist["<-2"]++
	case margin < -1e-6:
		c27FitHist["-2..0"]++
	case margin < 1:
		c27FitHist["0..1"]++
	case margin < 10:
		c27FitHist["1..10"]++
	case margin < 100:
		c27FitHist["10..100"]++
	default:
		c27FitHist[">=100"]++
	}
	h.Extra("fit_margin_hist", c27FitHist)

	if c.PX == 0 && c.PY == 0 {
		h.Label("pad:zero")
	} else if c.PX == 0 || c.PY == 0 {
		h.Label("pad:one-zero")
	} else {
		h.Label("pad:positive")
	}
	if r := c.W / c.H; r > 20 || r < 1.0/20 {
		h.Label("aspect:extreme")
	}
	if c.W != math.Floor(c.W) || c.H != math.Floor(c.H) {
		h.Label("size:fractional")
	}
	if c.W < 5 || c.H < 5 {
		h.Label("size:tiny")
	}
	h.NonTrivial(!s.IsRectangular())
}

// smallSig classifies an inner box that is smaller than the content. Deficits of at most 2 px are
// the rounding class (Ceil of the inside placement on both sides, Round inside LimitAR); larger
// ones are formula errors and carry the axis.
func smallSig(typ, axis string, deficit float64) string {
	if deficit <= 2 {
		return "fit-inner-small:" + typ + ":le2px"
	}
	return "fit-inner-small:" + typ + ":" + axis + ":gt2px"
}

// ------------------------------------------------------------------ trace

// outlineOf builds the reference outline of a shape independently of lib/geo: the
// flattened SVG path data the renderer draws; an ellipse for oval/circle (d2svg draws them as
// <ellipse cx=center rx=w/2 ry=h/2>, they have no path data); the box rectangle for shapes
// without path data. Of several paths the first is the silhouette; a further path counts
// only if it reaches outside the first one (C4Person's head), not if it is an interior
// decoration (the cylinder/queue inner arc, the page fold).
func outlineOf(s shape.Shape) ([]geom.Poly, error) {
	b := s.GetBox()
	if s.Is(shape.OVAL_TYPE) || s.Is(shape.CIRCLE_TYPE) {
		return []geom.Poly{geom.Ellipse(geom.Pt{X: b.TopLeft.X + b.Width/2, Y: b.TopLeft.Y + b.Height/2}, b.Width/2, b.Height/2, c27FlatTol)}, nil
	}
	pd := s.GetSVGPathData()
	if len(pd) == 0 {
		return []geom.Poly{geom.Rect(b.TopLeft.X, b.TopLeft.Y, b.Width, b.Height)}, nil
	}
	var out []geom.Poly
	for i, d := range pd {
		ps, err := geom.FlattenPath(d, c27FlatTol)
		if err != nil {
			return nil, fmt.Errorf("path %d %q: %v", i, d, err)
		}
		if i == 0 {
			out = append(out, ps...)
			continue
		}
		outside := false
		for _, p := range ps {
			for _, q := range p.Pts {
				if !geom.InsideAny(q, out) && geom.DistTo(q, out) > 1.5 {
					outside = true
				}
			}
		}
		if outside {
			out = append(out, ps...)
		}
	}
	return out, nil
}

func hasCubic(s shape.Shape) bool {
	for _, d := range s.GetSVGPathData() {
		if strings.Contains(d, "C ") {
			return true
		}
	}
	return false
}

func checkTrace(h *hx.H, c c27Case) {
	if !(c.BW >= 2 && c.BW <= 3000 && c.BH >= 2 && c.BH <= 3000 && math.Abs(c.BX) <= 20000 && math.Abs(c.BY) <= 20000 &&
		c.U > 0 && c.U < 1 && c.V > 0 && c.V < 1 && c.Dist > 0 && c.Dist <= 5000 && c.Dir >= 0 && c.Dir <= 4) || !isFinite(c.Ang) {
		h.Reject("trace-out-of-domain")
	}
	box := geo.NewBox(geo.NewPoint(c.BX, c.BY), c.BW, c.BH)
	s := shape.NewShape(c.Type, box)
	outline, err := outlineOf(s)
	if err != nil {
		h.Failf("trace-bad-path-data:"+c.Type, "%s on box %v: %v", c.Type, box.ToString(), err)
	}
	// Boxes too small for a shape's fixed-size features (a page narrower than its 21 px fold, a
	// C4 person flatter than its head) give a drawn outline that leaves the box; tracing "from the
	// box border" is meaningless there, such cases are counted but not asserted. (Up to 2 px are
	// normal: relative path commands accumulate integer rounding, e.g. the cloud.)
	minX, minY, maxX, maxY := geom.BBox(outline)
	if ex := math.Max(math.Max(c.BX-minX, c.BY-minY), math.Max(maxX-(c.BX+c.BW), maxY-(c.BY+c.BH))); ex > 2.5 {
		h.Label("degenerate:outline-leaves-box:" + c.Type)
		h.Gray()
		return
	} else if ex > 1 {
		h.Label("outline-exceeds-box-by-1..2.5px:" + c.Type)
	}

	// the approach: from the aim point q go in direction d until the box border (r), then Dist further (p)
	q := geom.Pt{X: c.BX + c.U*c.BW, Y: c.BY + c.V*c.BH}
	var d geom.Pt
	switch c.Dir {
	case 0:
		d = geom.Pt{X: math.Cos(c.Ang), Y: math.Sin(c.Ang)}
	case 1:
		d = geom.Pt{X: 0, Y: -1}
	case 2:
		d = geom.Pt{X: 1, Y: 0}
	case 3:
		d = geom.Pt{X: 0, Y: 1}
	case 4:
		d = geom.Pt{X: -1, Y: 0}
	}
	tx, ty := math.Inf(1), math.Inf(1)
	if d.X > 0 {
		tx = (c.BX + c.BW - q.X) / d.X
	} else if d.X < 0 {
		tx = (c.BX - q.X) / d.X
	}
	if d.Y > 0 {
		ty = (c.BY + c.BH - q.Y) / d.Y
	} else if d.Y < 0 {
		ty = (c.BY - q.Y) / d.Y
	}
	var r geom.Pt
	if tx <= ty {
		r = geom.Pt{X: q.X + tx*d.X, Y: q.Y + tx*d.Y}
		if d.X > 0 {
			r.X = c.BX + c.BW
		} else {
			r.X = c.BX
		}
	} else {
		r = geom.Pt{X: q.X + ty*d.X, Y: q.Y + ty*d.Y}
		if d.Y > 0 {
			r.Y = c.BY + c.BH
		} else {
			r.Y = c.BY
		}
	}
	if c.Snap {
		r = geom.Pt{X: math.Round(r.X), Y: math.Round(r.Y)}
		h.Label("border-point:rounded")
	}
	p := r.Add(d.Mul(c.Dist))
	if !(p.X < c.BX || p.X > c.BX+c.BW || p.Y < c.BY || p.Y > c.BY+c.BH) {
		h.Reject("prev-point-not-outside-box")
	}
	u := r.Sub(p)
	ul := u.Len()
	if ul < 1e-9 {
		h.Reject("prev-point-on-border-point")
	}
	u = u.Mul(1 / ul)

	rect := s.IsRectangular()
	if !rect {
		// Domain: the ray from p through r really enters the shape. With the independent outline:
		// it crosses at least twice and the middle of the first chord lies inside, >= 1 px deep
		// (otherwise it is a miss or a graze, where "traced onto the shape" is undefined and the
		// two intersection routines may legitimately disagree).
		hits := geom.RayHits(p, u, outline)
		if len(hits) == 0 {
			h.Label("ray:misses-shape")
			h.Gray()
			return
		}
		if len(hits) < 2 {
			h.Label("ray:grazes")
			h.Gray()
			return
		}
		mid := p.Add(u.Mul((hits[0] + hits[1]) / 2))
		if !geom.InsideAny(mid, outline) || geom.DistTo(mid, outline) < 1 {
			h.Label("ray:grazes")
			h.Gray()
			return
		}
		first := p.Add(u.Mul(hits[0]))
		depth := hits[0] - ul // how far behind the border point the outline is met
		rp, pp := geo.NewPoint(r.X, r.Y), geo.NewPoint(p.X, p.Y)
		res := shape.TraceToShapeBorder(s, rp, pp)
		if res == nil || !isFinite(res.X, res.Y) {
			h.Failf("trace-invalid-point:"+c.Type, "TraceToShapeBorder returned %v", res)
		}
		dist := geom.DistTo(geom.Pt{X: res.X, Y: res.Y}, outline)
		// "back": nothing was found, the (rounded) border point itself came back
		back := res.X == math.Round(float64(float32(r.X))) && res.Y == math.Round(float64(float32(r.Y)))
		if back && depth >= 1 {
			c27MissHist[bucket(dist, 0.25, 5)]++
			h.Extra("trace_miss_dist_hist", c27MissHist)
		} else {
			c27TraceHist[bucket(dist, 0.05, 2)]++
			h.Extra("trace_dist_hist", c27TraceHist)
			if dist > 0.72 {
				c27TraceTail[c.Type+":"+bucket(dist, 0.05, 2)]++
				h.Extra("trace_dist_tail_by_type", c27TraceTail)
			}
		}
		if dist > c27TraceTol {
			// classification: nothing found (the rounded border point comes back) or a wrong point
			scale := c.BW
			if p.X == r.X {
				scale = c.BH
			}
			sig := "trace-off-outline:" + c.Type
			if back && depth > scale {
				// the outline is met deeper behind the border point than the probe segment reaches
				sig = "trace-miss:probe-too-short"
			} else if back && c.Dir == 0 && (math.Abs(u.X) < 1e-3 || math.Abs(u.Y) < 1e-3) {
				// within 0.001 rad of (but not exactly) vertical/horizontal: the cubic that
				// geo.ComputeIntersections solves for a curved edge degenerates
				sig = "trace-miss:near-axis-ray"
			} else if back && hasCubic(s) {
				// an edge drawn (and intersected) as a cubic Bezier: geo.ComputeIntersections / cubicRoots
				sig = "trace-miss:cubic-edge"
			} else if back {
				sig = "trace-miss:" + c.Type
			}
			h.FailSoft(sig, "%s box (%v,%v) %vx%v: border point (%v,%v), previous point (%v,%v): traced to (%v,%v), %.3f px from the outline; the ray first meets the outline at (%.3f,%.3f), %.3f px behind the border point",
				c.Type, c.BX, c.BY, c.BW, c.BH, r.X, r.Y, p.X, p.Y, res.X, res.Y, dist, first.X, first.Y, depth)
		} else if geom.Dist(geom.Pt{X: res.X, Y: res.Y}, first) <= c27TraceTol+0.75 {
			// (not asserted: the statement only asks for a point on the outline. The few "other"
			// cases on the unchanged tree are rays through a vertex of the outline, the C4Person head
			// that is intersected as a slightly larger circle than drawn, and misses whose border
			// point happens to lie within the tolerance of the outline.)
			h.Label("hit:first-crossing")
		} else {
			h.Label("hit:other-crossing", "hit:other-crossing:"+c.Type)
		}
		if depth > c.BW {
			h.Label("depth>width")
		}
		if depth < 1 {
			h.Label("depth<1px")
		}
	} else {
		rp, pp := geo.NewPoint(r.X, r.Y), geo.NewPoint(p.X, p.Y)
		res := shape.TraceToShapeBorder(s, rp, pp)
		if res == nil || !isFinite(res.X, res.Y) {
			h.Failf("trace-invalid-point:"+c.Type, "TraceToShapeBorder returned %v", res)
		}
		if dist := geom.DistTo(geom.Pt{X: res.X, Y: res.Y}, outline); dist > c27TraceTol {
			h.FailSoft("trace-off-outline:"+c.Type, "%s (rectangular) box (%v,%v) %vx%v: border point (%v,%v) traced to (%v,%v), %.3f px from the rectangle", c.Type, c.BX, c.BY, c.BW, c.BH, r.X, r.Y, res.X, res.Y, dist)
		}
	}
	switch {
	case c.Dir != 0:
		if c.Dir == 1 || c.Dir == 3 {
			h.Label("dir:exactly-vertical")
		} else {
			h.Label("dir:exactly-horizontal")
		}
	case math.Abs(d.X) < 0.06:
		h.Label("dir:near-vertical")
	case math.Abs(d.Y) < 0.06:
		h.Label("dir:near-horizontal")
	default:
		h.Label("dir:oblique")
	}
	if ar := c.BW / c.BH; ar > 5 {
		h.Label("box:wide")
	} else if ar < 0.2 {
		h.Label("box:tall")
	}
	h.NonTrivial(!rect)
}

// ------------------------------------------------------------------ cases

var c27Sizes = []float64{0.5, 1, 2, 3, 7.5, 10, 16, 33, 45, 61, 89.5, 100, 102, 200, 255.5, 500, 777, 1500, 2999.5, 3000}
var c27SizesQuick = []float64{0.5, 1, 3, 7.5, 16, 33, 45, 61, 100, 102, 200, 255.5, 500, 1500, 3000}

func coreC27() []c27Case {
	var out []c27Case
	for _, t := range c27Types {
		dpx, dpy := shape.NewShape(t, geo.NewBox(geo.NewPoint(0, 0), 10, 10)).GetDefaultPadding()
		pads := [][2]float64{{0, 0}, {dpx, dpy}, {200, 200}, {0, 200}, {200, 0}, {7.5, 13}}
		sizes := c27Sizes
		if !hx.Thorough() {
			sizes = c27SizesQuick
		}
		for _, w := range sizes {
			for _, hh := range sizes {
				for _, p := range pads {
					out = append(out, c27Case{Kind: "fit", Type: t, W: w, H: hh, PX: p[0], PY: p[1]})
				}
			}
		}
	}
	boxes := [][4]float64{{0, 0, 100, 100}, {10, 20, 200, 80}, {-300, -500, 80, 400}, {5, 5, 50, 1000}, {0, 0, 1000, 50},
		{1000, 2000, 333, 777}, {0.5, 0.25, 120.5, 60.75}, {0, 0, 20, 20}, {0, 0, 3000, 2000}}
	aims := [][2]float64{{0.5, 0.5}, {0.3, 0.6}, {0.7, 0.45}, {0.5, 0.8}, {0.45, 0.25}, {0.15, 0.5}}
	for _, t := range c27Types {
		rect := shape.NewShape(t, geo.NewBox(geo.NewPoint(0, 0), 10, 10)).IsRectangular()
		for bi, b := range boxes {
			if rect && bi > 1 {
				continue
			}
			for ai, a := range aims {
				if !hx.Thorough() && ai >= 4 {
					continue
				}
				for _, dist := range []float64{3, 250} {
					for k := 0; k < 24; k++ {
						out = append(out, c27Case{Kind: "trace", Type: t, BX: b[0], BY: b[1], BW: b[2], BH: b[3], U: a[0], V: a[1],
							Ang: 2*math.Pi*float64(k)/24 + 0.01, Dist: dist, Snap: k%2 == 1})
					}
					for dir := 1; dir <= 4; dir++ {
						out = append(out, c27Case{Kind: "trace", Type: t, BX: b[0], BY: b[1], BW: b[2], BH: b[3], U: a[0], V: a[1],
							Dir: dir, Dist: dist, Snap: dist == 3})
					}
					// a hair off the vertical / horizontal (the code special-cases only the exact vertical)
					for _, base := range []float64{math.Pi / 2, -math.Pi / 2, 0, math.Pi} {
						out = append(out, c27Case{Kind: "trace", Type: t, BX: b[0], BY: b[1], BW: b[2], BH: b[3], U: a[0], V: a[1],
							Ang: base + 0.002, Dist: dist})
					}
				}
			}
		}
	}
	return out
}

func genSize(t *rapid.T, name string) float64 {
	switch rapid.IntRange(0, 9).Draw(t, name+"k") {
	case 0, 1, 2:
		return float64(rapid.IntRange(1, 3000).Draw(t, name))
	case 3:
		return float64(rapid.IntRange(1, 6000).Draw(t, name)) / 2
	case 4:
		return float64(rapid.IntRange(1, 40).Draw(t, name))
	case 5:
		return float64(rapid.IntRange(2000, 3000).Draw(t, name))
	case 6:
		return rapid.SampledFrom(c27Sizes).Draw(t, name)
	default:
		v := rapid.Float64Range(0.5, 3000).Draw(t, name)
		return v
	}
}

func genPad(t *rapid.T, name string, def float64) float64 {
	switch rapid.IntRange(0, 5).Draw(t, name+"k") {
	case 0:
		return 0
	case 1:
		return def
	case 2, 3:
		return float64(rapid.IntRange(0, 200).Draw(t, name))
	default:
		return rapid.Float64Range(0, 200).Draw(t, name)
	}
}

func genC27(t *rapid.T) c27Case {
	typ := rapid.SampledFrom(c27Types).Draw(t, "type")
	if rapid.IntRange(0, 9).Draw(t, "kind") < 4 {
		dpx, dpy := shape.NewShape(typ, geo.NewBox(geo.NewPoint(0, 0), 10, 10)).GetDefaultPadding()
		c := c27Case{Kind: "fit", Type: typ, W: genSize(t, "w"), H: genSize(t, "h"), PX: genPad(t, "px", dpx), PY: genPad(t, "py", dpy)}
		switch rapid.IntRange(0, 5).Draw(t, "org") {
		case 0:
			c.OX, c.OY = float64(rapid.IntRange(-5000, 5000).Draw(t, "ox")), float64(rapid.IntRange(-5000, 5000).Draw(t, "oy"))
		case 1:
			c.OX, c.OY = rapid.Float64Range(-500, 500).Draw(t, "ox"), rapid.Float64Range(-500, 500).Draw(t, "oy")
		}
		return c
	}
	// rectangular types are trivial for tracing: draw them rarely
	if shape.NewShape(typ, geo.NewBox(geo.NewPoint(0, 0), 10, 10)).IsRectangular() && rapid.IntRange(0, 9).Draw(t, "keeprect") > 0 {
		nonRect := []string{}
		for _, x := range c27Types {
			if !shape.NewShape(x, geo.NewBox(geo.NewPoint(0, 0), 10, 10)).IsRectangular() {
				nonRect = append(nonRect, x)
			}
		}
		typ = rapid.SampledFrom(nonRect).Draw(t, "type2")
	}
	c := c27Case{Kind: "trace", Type: typ}
	dim := func(name string) float64 {
		switch rapid.IntRange(0, 5).Draw(t, name+"k") {
		case 0:
			return float64(rapid.IntRange(2, 60).Draw(t, name))
		case 1:
			return float64(rapid.IntRange(600, 3000).Draw(t, name))
		case 2:
			return rapid.Float64Range(2, 3000).Draw(t, name)
		default:
			return float64(rapid.IntRange(20, 600).Draw(t, name))
		}
	}
	c.BW, c.BH = dim("bw"), dim("bh")
	if rapid.IntRange(0, 3).Draw(t, "posk") == 0 {
		c.BX, c.BY = rapid.Float64Range(-5000, 5000).Draw(t, "bx"), rapid.Float64Range(-5000, 5000).Draw(t, "by")
	} else {
		c.BX, c.BY = float64(rapid.IntRange(-5000, 5000).Draw(t, "bx")), float64(rapid.IntRange(-5000, 5000).Draw(t, "by"))
	}
	c.U, c.V = rapid.Float64Range(0.02, 0.98).Draw(t, "u"), rapid.Float64Range(0.02, 0.98).Draw(t, "v")
	switch rapid.IntRange(0, 9).Draw(t, "dirk") {
	case 0, 1:
		c.Dir = rapid.IntRange(1, 4).Draw(t, "dir")
	case 2, 3:
		base := rapid.SampledFrom([]float64{0, math.Pi / 2, math.Pi, -math.Pi / 2}).Draw(t, "axis")
		c.Ang = base + rapid.Float64Range(-0.05, 0.05).Draw(t, "off")
	default:
		c.Ang = rapid.Float64Range(-math.Pi, math.Pi).Draw(t, "ang")
	}
	switch rapid.IntRange(0, 2).Draw(t, "distk") {
	case 0:
		c.Dist = rapid.Float64Range(0.01, 20).Draw(t, "dist")
	default:
		c.Dist = rapid.Float64Range(1, 3000).Draw(t, "dist")
	}
	c.Snap = rapid.Bool().Draw(t, "snap")
	return c
}

// the type list above must be the complete set of constants of lib/shape
func c27TypesComplete() error {
	repo := os.Getenv("VERIF_REPO")
	if repo == "" {
		repo = "/repo"
	}
	b, err := os.ReadFile(filepath.Join(repo, "lib", "shape", "shape.go"))
	if err != nil {
		return nil // source not available: nothing to compare with
	}
	var src []string
	for _, m := range regexp.MustCompile(`(?m)^\s*[A-Z0-9_]+_TYPE\s*=\s*"([^"]+)"`).FindAllStringSubmatch(string(b), -1) {
		src = append(src, m[1])
	}
	mine := append([]string(nil), c27Types...)
	sort.Strings(src)
	sort.Strings(mine)
	if fmt.Sprint(src) != fmt.Sprint(mine) {
		return fmt.Errorf("shape type constants changed:\n source: %v\n check:  %v", src, mine)
	}
	return nil
}

func TestC27(t *testing.T) {
	if err := c27TypesComplete(); err != nil {
		t.Fatal(err)
	}
	hx.Run(t, hx.Spec[c27Case]{Prop: "C27", Core: coreC27, Gen: genC27, Check: checkC27, Timeout: 30 * time.Second})
}
