// Package seeds extracts D2 sources from the repository under test: every .d2 file, every
// section of e2etests/txtar.txt, and string literals of the *_test.go tables that look like D2.
package seeds

import (
	"go/ast"
	"go/parser"
	"go/token"
	"os"
	"path/filepath"
	"sort"
	"strconv"
	"strings"
	"sync"
)

func Repo() string {
	if r := os.Getenv("VERIF_REPO"); r != "" {
		return r
	}
	return "/repo"
}

var (
	once sync.Once
	all  [][]byte
	d2   [][]byte
)

// Files returns the contents of all .d2 files and txtar sections (deterministic order).
func Files() [][]byte { load(); return d2 }

// All returns Files plus test-table literals.
func All() [][]byte { load(); return all }

func load() {
	once.Do(func() {
		root := Repo()
		var paths []string
		filepath.Walk(root, func(p string, info os.FileInfo, err error) error {
			if err != nil {
				return nil
			}
			if info.IsDir() {
				n := info.Name()
				if n == ".git" || n == "node_modules" {
					return filepath.SkipDir
				}
				return nil
			}
			if strings.HasSuffix(p, ".d2") || strings.HasSuffix(p, "_test.go") || strings.HasSuffix(p, "txtar.txt") {
				paths = append(paths, p)
			}
			return nil
		})
		sort.Strings(paths)
		seen := map[string]bool{}
		add := func(dst *[][]byte, s string) {
			if len(s) == 0 || len(s) > 1<<16 || seen[s] {
				return
			}
			seen[s] = true
			*dst = append(*dst, []byte(s))
		}
		var lits [][]byte
		for _, p := range paths {
			b, err := os.ReadFile(p)
			if err != nil {
				continue
			}
			switch {
			case strings.HasSuffix(p, ".d2"):
				add(&d2, string(b))
			case strings.HasSuffix(p, "txtar.txt"):
				for _, sec := range splitTxtar(string(b)) {
					add(&d2, sec)
				}
			default:
				fset := token.NewFileSet()
				f, err := parser.ParseFile(fset, p, b, 0)
				if err != nil {
					continue
				}
				ast.Inspect(f, func(n ast.Node) bool {
					bl, ok := n.(*ast.BasicLit)
					if !ok || bl.Kind != token.STRING {
						return true
					}
					s, err := strconv.Unquote(bl.Value)
					if err != nil || len(s) < 3 || len(s) > 8000 {
						return true
					}
					if strings.Contains(s, "->") || strings.Contains(s, ": ") || strings.Contains(s, "{") || strings.Contains(s, "--") {
						add(&lits, s)
					}
					return true
				})
			}
		}
		all = append(all, d2...)
		all = append(all, lits...)
	})
}

func splitTxtar(s string) []string {
	var out []string
	var cur strings.Builder
	for _, l := range strings.SplitAfter(s, "\n") {
		if strings.HasPrefix(l, "-- ") && strings.HasSuffix(strings.TrimRight(l, "\r\n"), " --") {
			if cur.Len() > 0 {
				out = append(out, cur.String())
			}
			cur.Reset()
			continue
		}
		cur.WriteString(l)
	}
	if cur.Len() > 0 {
		out = append(out, cur.String())
	}
	return out
}
