//go:build verif

package p_watch

import (
	"fmt"
	"os"
	"strings"
	"testing"
	"time"

	"pgregory.net/rapid"

	"verif/harness/hx"
)

// C44: watch mode always delivers the latest result to every client.
//
// A case is a history: writes of increasing versions to the watched file (in place,
// rename-replace, rename-replace while an fd on the old inode is still open), websocket
// clients connecting and leaving, pauses, and a delay plan for the watcher's hook points.
// The real watcher (real fsnotify, real compile with a row layout plugin, real websocket
// server) runs in-process; the oracle reads the recorded trace.
type c44Step struct {
	Op   string `json:"op"`             // write | connect | disconnect | pause | await
	Mode string `json:"mode,omitempty"` // write: inplace | rename | rename-held; disconnect: graceful | drop
	Idx  int    `json:"idx,omitempty"`  // disconnect: index into the currently open clients (mod their number)
	Hold int    `json:"hold,omitempty"` // rename-held: the old inode's fd is closed this many ms after the rename
	// await: continue once one more hook event of this kind has been recorded, or "settled": once the newest
	// version has reached every connected client (both bounded by 5 s, then the history goes on regardless)
	Kind string `json:"kind,omitempty"`
	Ms   int    `json:"ms"` // pause after the step
}

type c44Case struct {
	Steps  []c44Step   `json:"steps"`
	Delays []delayRule `json:"delays"`
}

// c44GoalBound is the liveness bound: a miss is inconclusive. Under the race detector a
// compile costs seconds instead of tens of milliseconds, so the bound is tripled there.
var c44GoalBound = map[bool]time.Duration{false: 30 * time.Second, true: 90 * time.Second}[raceBuild]

const (
	c44StuckAfter  = 12 * time.Second         // earliest moment a parked-forever state is judged
	c44QuietNeeded = 10500 * time.Millisecond // the goroutines involved must have been silent this long: more than one period of the
	// watch loop's 10 s poll, whose recompile-on-changed-mtime is the only thing that could still move them
	c44MaxStall = time.Second // the process itself must have been scheduled at least this often
)

var watchLoopKinds = map[string]bool{"fs-event": true, "burst-fire": true, "poll-tick": true, "request": true, "request-sent": true, "request-coalesced": true}
var compileLoopKinds = map[string]bool{"compile-wait": true, "compile-begin": true, "compile-end": true, "broadcast-begin": true, "broadcast-stored": true,
	"broadcast-signal": true, "broadcast-signal-coalesced": true, "broadcast-done": true}

func isEmptyNameFsEvent(e event) bool {
	return e.Kind == "fs-event" && strings.HasSuffix(e.Note, ` ""`)
}

// c44State is what the settle loop and the verdict read off a trace snapshot.
type c44State struct {
	final         int
	finalDone     int          // index of h-write-done of the final version (h-start if there was no write)
	compiledFinal bool         // a compile-end with the final version exists
	live          map[int]bool // harness clients that are connected and not hung up
	gotFinal      map[int]bool
	wedgeAt       int // index of an fs-event with empty name, -1
}

func c44Scan(evs []event, final int) c44State {
	st := c44State{final: final, finalDone: 0, live: map[int]bool{}, gotFinal: map[int]bool{}, wedgeAt: -1}
	for i, e := range evs {
		switch e.Kind {
		case "h-write-done":
			if e.Ver == final {
				st.finalDone = i
			}
		case "compile-end":
			if e.Ver == final {
				st.compiledFinal = true
			}
		case "h-dial-ok":
			st.live[e.Cl] = true
		case "h-close", "h-read-end":
			delete(st.live, e.Cl)
		case "h-recv":
			if e.Ver == final {
				st.gotFinal[e.Cl] = true
			}
		case "fs-event":
			if st.wedgeAt < 0 && isEmptyNameFsEvent(e) {
				st.wedgeAt = i
			}
		}
	}
	return st
}

func (st c44State) goal() bool {
	if !st.compiledFinal {
		return false
	}
	for cl := range st.live {
		if !st.gotFinal[cl] {
			return false
		}
	}
	return true
}

// lastOf returns the index of the last event satisfying f, or -1.
func lastOf(evs []event, f func(event) bool) int {
	for i := len(evs) - 1; i >= 0; i-- {
		if f(evs[i]) {
			return i
		}
	}
	return -1
}

// c44Stuck looks for a state that the watcher can never leave although the final version
// has not been compiled / delivered: every goroutine involved is parked at a wait point
// (by its last hook event) and no wake-up token can exist (by the events before). Returns
// a signature and explanation, or "" if the trace does not prove such a state.
// now is the time since the recorder started.
func c44Stuck(evs []event, st c44State, now time.Duration, quiet time.Duration) (sig, msg string) {
	age := func(i int) time.Duration { return now - evs[i].T }
	if !st.compiledFinal {
		// stage 1/2: change -> request -> compile
		cbAfter := lastOf(evs, func(e event) bool { return e.Kind == "compile-begin" && e.Seq > st.finalDone })
		if cbAfter >= 0 {
			return "", "" // a compile began after the final write: its result is judged by the safety checks
		}
		// a request issued after the final write whose select has completed
		req := -1
		for i := st.finalDone + 1; i < len(evs); i++ {
			if evs[i].Kind == "request-sent" || evs[i].Kind == "request-coalesced" {
				req = i
				break
			}
		}
		if req < 0 {
			return "", ""
		}
		lastC := lastOf(evs, func(e event) bool { return compileLoopKinds[e.Kind] })
		if lastC < 0 || evs[lastC].Kind != "compile-wait" {
			return "", ""
		}
		if age(lastC) < quiet || age(req) < quiet {
			return "", ""
		}
		return "quiescent:request-lost", fmt.Sprintf("the final version %d was written (event #%d), the watcher requested a compile afterwards (%s), "+
			"no compile has begun since, and the compile loop has been parked at its receive for %.1fs (last event %s): the request is lost",
			st.final, st.finalDone, evs[req], age(lastC).Seconds(), evs[lastC])
	}
	// stage 3: broadcast -> client
	bd := lastOf(evs, func(e event) bool { return e.Kind == "broadcast-done" && e.Ver == st.final })
	if bd < 0 {
		return "", ""
	}
	for cl := range st.live {
		if st.gotFinal[cl] {
			continue
		}
		lastK := lastOf(evs, func(e event) bool { return e.Cl == cl && strings.HasPrefix(e.Kind, "client-") })
		if lastK < 0 || evs[lastK].Kind != "client-wait" {
			continue
		}
		if lastOf(evs, func(e event) bool { return e.Cl == cl && e.Kind == "client-registered" }) < 0 {
			continue
		}
		// the last result this client's write loop fetched
		lg := lastOf(evs, func(e event) bool { return e.Cl == cl && e.Kind == "client-get" })
		if lg < 0 || evs[lg].Ver == st.final {
			continue // it fetched the final result: the rest is the network's business
		}
		if age(lastK) < quiet || age(bd) < quiet {
			continue
		}
		return "quiescent:wakeup-lost", fmt.Sprintf("the final version %d was broadcast (%s) but client %d, registered and connected, last fetched %s and has been parked "+
			"in its write loop's wait for %.1fs (last event %s): its wake-up is lost", st.final, evs[bd], cl, evs[lg], age(lastK).Seconds(), evs[lastK])
	}
	return "", ""
}

func checkC44(h *hx.H, c c44Case) {
	nWrites, nConnects := 0, 0
	for _, s := range c.Steps {
		switch s.Op {
		case "write":
			nWrites++
			h.Label("write:" + s.Mode)
		case "connect":
			nConnects++
		case "disconnect":
			h.Label("disconnect:" + s.Mode)
		case "await":
			h.Label("await:" + s.Kind)
		}
	}
	h.Label(fmt.Sprintf("writes:%s", bucket(nWrites)), fmt.Sprintf("connects:%s", bucket(nConnects)))
	if len(c.Delays) > 0 {
		h.Label("perturbed")
	}

	s, err := startSession("C44", c.Delays)
	if err != nil {
		h.Reject("inconclusive:watcher-start-failed")
	}
	rec := s.rec
	cleaned := false
	finish := func() (shutdownOK bool) {
		if cleaned {
			return true
		}
		cleaned = true
		ok := s.shutdown(45 * time.Second)
		waitTimeout(&s.hwg, 10*time.Second)
		s.cleanup()
		return ok
	}
	defer finish()

	// ---- execute the history
	var open []*wsClient
	var all []*wsClient
	version := 0
	nextID := 0
	for _, st := range c.Steps {
		switch st.Op {
		case "write":
			version++
			if st.Mode == "rename-held" {
				f, ferr := os.Open(s.input)
				s.writeVersion(version, "rename")
				if ferr == nil {
					time.Sleep(time.Duration(st.Hold) * time.Millisecond)
					rec.add("h-close-held-fd", -1, verNone, "")
					f.Close()
				}
			} else {
				s.writeVersion(version, st.Mode)
			}
		case "connect":
			cl, _, derr := s.dial(nextID, 20*time.Second)
			nextID++
			if derr == nil {
				open = append(open, cl)
				all = append(all, cl)
			}
		case "disconnect":
			if len(open) > 0 {
				i := st.Idx % len(open)
				s.hangup(open[i], st.Mode != "drop")
				open = append(open[:i], open[i+1:]...)
			}
		case "await":
			c44Await(rec, st.Kind, version)
		}
		if st.Ms > 0 {
			time.Sleep(time.Duration(st.Ms) * time.Millisecond)
		}
	}
	final := version
	settleStart := time.Since(rec.start)
	rec.add("h-settle", -1, final, "")

	// ---- wait for the goal (bounded; a miss is not a verdict by itself)
	meter := startStallMeter()
	var st c44State
	var evs []event
	outcome := "" // goal | wedged | stuck | timeout | exited
	stuckSig, stuckMsg := "", ""
	for {
		evs = rec.snapshot()
		st = c44Scan(evs, final)
		now := time.Since(rec.start)
		waited := now - settleStart
		if st.goal() {
			outcome = "goal"
			break
		}
		select {
		case <-s.runDone:
			outcome = "exited"
		default:
		}
		if outcome != "" {
			break
		}
		if st.wedgeAt >= 0 && !st.compiledFinal && waited > 300*time.Millisecond && strings.Contains(rec.logBuf.String(), "failed to watch") {
			// the watch loop entered ensureAddWatch("") whose only exits are os.Stat("") succeeding or shutdown
			lastW := lastOf(evs, func(e event) bool { return watchLoopKinds[e.Kind] })
			if lastW == st.wedgeAt {
				outcome = "wedged"
				break
			}
		}
		if waited > c44StuckAfter {
			if sig, msg := c44Stuck(evs, st, now, c44QuietNeeded); sig != "" {
				outcome, stuckSig, stuckMsg = "stuck", sig, msg
				break
			}
		}
		if waited > c44GoalBound {
			outcome = "timeout"
			break
		}
		time.Sleep(3 * time.Millisecond)
	}
	maxStall := meter.finish()
	shutdownOK := finish()
	evs = rec.snapshot()
	logText := rec.logBuf.String()

	if os.Getenv("VERIF_TRACE") != "" {
		fmt.Fprintf(os.Stderr, "C44 trace (outcome %s):\n%s", outcome, renderTrace(evs, 1<<30))
	}
	// ---- safety checks over the whole trace (hold on every trace of a correct watcher)
	if i := strings.Index(logText, "panic serving"); i >= 0 {
		h.Failf("panic:http-handler", "the watch server recovered a panic in a handler: %s", firstN(logText[i:], 1500))
	}
	if rep := raceReport(); rep != "" {
		h.Failf(raceSig(rep), "the race detector reported during this case:\n%s", firstN(rep, 3000))
	}
	c44Safety(h, evs)

	// labels about what the schedule exercised
	seen := map[string]int{}
	for _, e := range evs {
		seen[e.Kind]++
	}
	if seen["request-coalesced"] > 0 {
		h.Label("saw:request-coalesced")
	}
	if seen["broadcast-signal-coalesced"] > 0 {
		h.Label("saw:signal-coalesced")
	}
	if seen["compile-end"] >= 3 {
		h.Label("saw:3+compiles")
	}
	if seen["compile-end"] < nWrites+1 {
		h.Label("saw:fewer-compiles-than-writes")
	}
	h.AddExtra("hook_events", int64(len(evs)))
	h.AddExtra("hook_sleep_ms", rec.sleptMs)

	switch outcome {
	case "goal":
		h.Label("outcome:final-delivered")
	case "wedged":
		h.Label("outcome:watchloop-wedged")
		h.FailSoft("watchloop-wedged:fs-event-empty-name", "after %s the watch loop called ensureAddWatch(\"\") and retries os.Stat(\"\") forever (log: %q); "+
			"version %d (written at event #%d) is never compiled. Trace tail:\n%s", evs[st.wedgeAt], firstLineWith(logText, "failed to watch"), final, st.finalDone,
			renderTrace(evs[:min(len(evs), st.wedgeAt+12)], 40))
	case "stuck":
		if maxStall > c44MaxStall {
			h.Reject("inconclusive:process-stalled")
		}
		h.Failf(stuckSig, "%s\nTrace tail:\n%s", stuckMsg, renderTrace(evs, 60))
	case "exited":
		h.Reject("inconclusive:watcher-exited")
	default:
		h.AddExtra("liveness_bound_missed", 1)
		stage := "request"
		if st.compiledFinal {
			stage = "delivery"
		} else if lastOf(evs, func(e event) bool { return e.Kind == "compile-begin" && e.Seq > st.finalDone }) >= 0 {
			stage = "compile"
		} else if lastOf(evs, func(e event) bool { return e.Kind == "request" && e.Seq > st.finalDone }) >= 0 {
			stage = "compile-start"
		}
		h.Reject("inconclusive:not-delivered-in-bound:" + stage)
	}
	if !shutdownOK {
		h.Reject("inconclusive:shutdown-slow")
	}
	h.NonTrivial(nWrites >= 2 && len(all) >= 1)
}

// c44Safety asserts the order and freshness clauses on a trace. Every assertion only
// uses orderings that the trace really establishes: a hook event is recorded after the
// operations before it and before the operations after it on the same goroutine.
func c44Safety(h *hx.H, evs []event) {
	type wr struct{ start, done int }
	writes := map[int]*wr{0: {start: -1, done: -1}} // version 0 exists before the watcher starts
	maxVer := 0
	for i, e := range evs {
		switch e.Kind {
		case "h-write-start":
			writes[e.Ver] = &wr{start: i, done: len(evs) + 1}
			if e.Ver > maxVer {
				maxVer = e.Ver
			}
		case "h-write-done":
			if w := writes[e.Ver]; w != nil {
				w.done = i
			}
		}
	}
	// S2: a compile uses content at least as new as every write completed before it began,
	// and S5: compile results appear in non-decreasing version order.
	cb := -1
	lastCompiled := -1
	for i, e := range evs {
		switch e.Kind {
		case "compile-begin":
			cb = i
		case "compile-end":
			if cb < 0 {
				continue
			}
			if e.Ver >= 0 {
				lo, hi := 0, 0
				for v := 0; v <= maxVer; v++ {
					w := writes[v]
					if w == nil {
						continue
					}
					if w.done < cb && v > lo {
						lo = v
					}
					if w.start < i && v > hi {
						hi = v
					}
				}
				if e.Ver < lo {
					h.Failf("stale-compile", "the compile that began at %s ended with version %d (%s) although version %d had been completely written before it began (event #%d)\n%s",
						evs[cb], e.Ver, e, lo, writes[lo].done, renderTrace(evs[:i+1], 40))
				}
				if e.Ver > hi {
					h.Failf("harness:version-from-future", "compile result %d is newer than any write started before it ended (%d)", e.Ver, hi)
				}
				if e.Ver < lastCompiled {
					h.Failf("compile-order", "compile results went back from version %d to %d (%s)", lastCompiled, e.Ver, e)
				}
				lastCompiled = e.Ver
			} else {
				h.Label("saw:unversioned-compile")
			}
			cb = -1
		}
	}
	// S3: what a client's write loop fetches is at least the latest result stored before that
	// iteration of the loop began; S4: per client, results are written in compile order.
	// Result ids are assigned at first appearance (broadcast-begin), i.e. in compile order.
	latestStored := -1
	floor := map[int]int{}
	lastWritten := map[int]int{}
	for i, e := range evs {
		switch e.Kind {
		case "broadcast-stored":
			latestStored = e.Res
		case "client-registered":
			floor[e.Cl] = -1
			lastWritten[e.Cl] = -1
		case "client-loop":
			floor[e.Cl] = latestStored
		case "client-get":
			if f, ok := floor[e.Cl]; ok && e.Res < f {
				h.Failf("stale-get", "client %d fetched result #%d (%s) although result #%d had been stored before this loop iteration began\n%s", e.Cl, e.Res, e, f, renderTrace(evs[:i+1], 40))
			}
		case "client-write-begin":
			if p, ok := lastWritten[e.Cl]; ok && e.Res < p {
				h.Failf("client-order", "the server wrote result #%d to client %d after result #%d (%s)\n%s", e.Res, e.Cl, p, e, renderTrace(evs[:i+1], 40))
			}
			lastWritten[e.Cl] = e.Res
		}
	}
	// S1: what each client receives on the wire never goes back to an older version.
	lastRecv := map[int]int{}
	for i, e := range evs {
		if e.Kind != "h-recv" || e.Ver < 0 {
			continue
		}
		if p, ok := lastRecv[e.Cl]; ok && e.Ver < p {
			h.Failf("client-order", "client %d received version %d after version %d\n%s", e.Cl, e.Ver, p, renderTrace(evs[:i+1], 40))
		}
		lastRecv[e.Cl] = e.Ver
	}
}

// c44Await implements the await step: event-synchronised positioning of the next step, so
// that a history means the same on a fast and on a slow machine.
func c44Await(rec *recorder, kind string, version int) {
	rec.mu.Lock()
	base := rec.counts[kind]
	rec.mu.Unlock()
	deadline := time.Now().Add(5 * time.Second)
	for time.Now().Before(deadline) {
		if kind == "settled" {
			if c44Scan(rec.snapshot(), version).goal() {
				break
			}
		} else {
			rec.mu.Lock()
			n := rec.counts[kind]
			rec.mu.Unlock()
			if n > base {
				break
			}
		}
		time.Sleep(2 * time.Millisecond)
	}
	rec.add("h-await-done", -1, verNone, kind)
}

func firstLineWith(text, needle string) string {
	for _, l := range strings.Split(text, "\n") {
		if strings.Contains(l, needle) {
			return l
		}
	}
	return ""
}

func bucket(n int) string {
	switch {
	case n == 0:
		return "0"
	case n == 1:
		return "1"
	case n <= 3:
		return "2-3"
	case n <= 6:
		return "4-6"
	}
	return "7+"
}

func waitTimeout(wg interface{ Wait() }, d time.Duration) bool {
	done := make(chan struct{})
	go func() { wg.Wait(); close(done) }()
	select {
	case <-done:
		return true
	case <-time.After(d):
		return false
	}
}

// ---------------------------------------------------------------------------------------

func coreC44() []c44Case {
	w := func(mode string, ms int) c44Step { return c44Step{Op: "write", Mode: mode, Ms: ms} }
	conn := func(ms int) c44Step { return c44Step{Op: "connect", Ms: ms} }
	await := func(kind string) c44Step { return c44Step{Op: "await", Kind: kind} }
	settled := await("settled")
	return []c44Case{
		// no write at all: the initial compile is the final one
		{Steps: []c44Step{conn(0), conn(50)}},
		// one edit of each kind, client connected and up to date before
		{Steps: []c44Step{conn(0), settled, w("inplace", 0)}},
		{Steps: []c44Step{conn(0), settled, w("rename", 0)}},
		// a burst inside the 16 ms debounce window, then one more while the compile runs
		{Steps: []c44Step{conn(0), settled, w("inplace", 1), w("inplace", 3), w("inplace", 0), await("compile-begin"), w("inplace", 0)}},
		{Steps: []c44Step{conn(0), settled, w("rename", 20), w("inplace", 20), w("rename", 20), w("inplace", 0)}},
		// the final write lands while a compile is running (between its begin and its end). The final
		// write is a rename-replace in half of these: after an in-place write the 10 s poll of the
		// watch loop sees a changed mtime and recompiles once more, which would paper over a lost request.
		{Steps: []c44Step{conn(0), settled, w("inplace", 0), await("compile-begin"), w("rename", 0)},
			Delays: []delayRule{{Kind: "compile-begin", Ms: []int{0, 300}}}},
		{Steps: []c44Step{conn(0), settled, w("inplace", 0), await("compile-end"), w("inplace", 0)},
			Delays: []delayRule{{Kind: "compile-end", Ms: []int{0, 300}}}},
		{Steps: []c44Step{conn(0), settled, w("rename", 0), await("broadcast-begin"), w("rename", 0)},
			Delays: []delayRule{{Kind: "broadcast-begin", Ms: []int{0, 300}}, {Kind: "compile-wait", Ms: []int{20}}}},
		// requests pile up on the 1-slot channel while the compile loop is held in its hooks
		{Steps: []c44Step{conn(0), settled, w("inplace", 30), w("inplace", 30), w("inplace", 30), w("rename", 0)},
			Delays: []delayRule{{Kind: "compile-begin", Ms: []int{60}}, {Kind: "compile-end", Ms: []int{40}}, {Kind: "request", Ms: []int{0, 10}}}},
		// the final broadcast arrives while a client is still inside the write of the previous result
		{Steps: []c44Step{conn(0), settled, w("inplace", 0), await("client-write-begin"), w("rename", 0)},
			Delays: []delayRule{{Kind: "client-write-begin", Ms: []int{0, 4000, 0}}}},
		{Steps: []c44Step{conn(0), conn(0), settled, w("rename", 0), await("client-write-begin"), w("inplace", 0)},
			Delays: []delayRule{{Kind: "client-write-begin", Ms: []int{0, 0, 4000, 0, 0}}, {Kind: "client-wake", Ms: []int{0, 30}}}},
		// ... or while it is between the end of a write and its wait
		{Steps: []c44Step{conn(0), settled, w("inplace", 0), await("client-write-end"), w("rename", 0)},
			Delays: []delayRule{{Kind: "client-write-end", Ms: []int{0, 4000, 0}}}},
		{Steps: []c44Step{conn(0), settled, w("inplace", 0), await("client-wait"), w("rename", 0)},
			Delays: []delayRule{{Kind: "client-wait", Ms: []int{0, 0, 4000, 0}}, {Kind: "broadcast-stored", Ms: []int{15}}}},
		// a client connecting while a broadcast is in flight, one leaving mid-history
		{Steps: []c44Step{conn(0), settled, w("inplace", 0), await("broadcast-stored"), conn(0), w("inplace", 60), {Op: "disconnect", Mode: "drop", Idx: 0, Ms: 10}, w("rename", 0), conn(0)},
			Delays: []delayRule{{Kind: "broadcast-stored", Ms: []int{0, 80}}, {Kind: "client-registered", Ms: []int{20}}}},
		// atomic save while another process still has the old file open (reproducer of the known wedge)
		{Steps: []c44Step{conn(0), settled, {Op: "write", Mode: "rename-held", Hold: 150, Ms: 100}, w("inplace", 0)}},
	}
}

var c44HookKinds = []string{"fs-event", "burst-fire", "request", "request-sent", "request-coalesced", "compile-wait", "compile-begin", "compile-end",
	"broadcast-begin", "broadcast-stored", "broadcast-signal", "broadcast-done", "client-admitted", "client-accepted", "client-registered",
	"client-loop", "client-get", "client-write-begin", "client-write-end", "client-wait", "client-wake"}

var slowWriteMs = []int{150, 0, 60, 300, 20, 100}

func genDelays(t *rapid.T, kinds []string, values []int) []delayRule {
	var out []delayRule
	if rapid.SampledFrom([]int{1, 2, 3, 0, 4, 5, 6, 7}).Draw(t, "unperturbed") == 0 {
		return nil
	}
	for _, k := range kinds {
		if !rapid.SampledFrom([]bool{false, true, false}).Draw(t, "rule?"+k) {
			continue
		}
		n := rapid.IntRange(1, 4).Draw(t, "n")
		ms := make([]int, n)
		vals := values
		if k == "client-write-begin" {
			vals = slowWriteMs // a slow client: the write takes long enough for the next broadcast to arrive during it
		}
		for i := range ms {
			ms[i] = rapid.SampledFrom(vals).Draw(t, "ms")
		}
		out = append(out, delayRule{Kind: k, Ms: ms})
	}
	return out
}

// rapid's integer draws favour small values, so the weighted choices below are spelled out
// as interleaved lists (SampledFrom picks an index) instead of thresholds on one integer.
var (
	c44Ops     = []string{"write", "connect", "write", "await", "write", "disconnect", "write", "pause", "write", "await", "write", "connect", "write", "disconnect", "write", "await", "pause", "connect"}
	c44Awaits  = []string{"settled", "compile-begin", "settled", "client-write-begin", "compile-end", "broadcast-stored", "settled", "client-wait", "broadcast-done", "client-write-end", "burst-fire", "request"}
	c44Modes   = []string{"inplace", "rename", "inplace", "rename", "inplace", "rename-held", "inplace", "rename", "inplace", "inplace", "rename", "inplace", "rename", "inplace", "rename-held", "inplace", "rename", "inplace"}
	c44Pauses  = []int{0, 25, 3, 40, 1, 17, 90, 8, 0, 15, 200, 30, 60, 5, 120, 20}
	c44DelayMs = []int{0, 20, 0, 5, 1, 60, 0, 10, 0, 35}
)

func genC44(t *rapid.T) c44Case {
	n := rapid.IntRange(2, hx.Pick(12, 18)).Draw(t, "steps")
	var c c44Case
	if rapid.SampledFrom([]bool{true, true, false, true, true, true}).Draw(t, "connect-first") {
		c.Steps = append(c.Steps, c44Step{Op: "connect", Ms: rapid.SampledFrom(c44Pauses).Draw(t, "pause")})
	}
	for i := 0; i < n; i++ {
		var st c44Step
		st.Op = rapid.SampledFrom(c44Ops).Draw(t, "op")
		switch st.Op {
		case "write":
			st.Mode = rapid.SampledFrom(c44Modes).Draw(t, "mode")
			if st.Mode == "rename-held" {
				st.Hold = rapid.SampledFrom([]int{40, 0, 120, 5}).Draw(t, "hold")
			}
		case "disconnect":
			st.Mode = rapid.SampledFrom([]string{"graceful", "drop"}).Draw(t, "how")
			st.Idx = rapid.IntRange(0, 5).Draw(t, "idx")
		case "await":
			st.Kind = rapid.SampledFrom(c44Awaits).Draw(t, "kind")
		}
		if st.Op != "await" || rapid.Bool().Draw(t, "pause-after-await") {
			st.Ms = rapid.SampledFrom(c44Pauses).Draw(t, "pause")
		}
		c.Steps = append(c.Steps, st)
	}
	c.Delays = genDelays(t, c44HookKinds, c44DelayMs)
	return c
}

func TestC44(t *testing.T) {
	hx.Run(t, hx.Spec[c44Case]{Prop: "C44", Core: coreC44, Gen: genC44, Check: checkC44, Timeout: map[bool]time.Duration{false: 4 * time.Minute, true: 8 * time.Minute}[raceBuild]})
}
