//go:build verif

package p_watch

import (
	"fmt"
	"net"
	"os"
	"runtime"
	"strings"
	"sync"
	"testing"
	"time"

	"pgregory.net/rapid"

	"verif/harness/hx"
)

// C45: shutting down the watch server waits for every client handler and admits no
// client afterwards.
//
// A case is a timeline of up to 6 clients (websocket clients that read, or raw TCP
// clients that send the upgrade request and then go silent) connecting and leaving, a
// few writes to the watched file (so broadcasts and client writes are in flight), a
// shutdown (watcher.close() directly, or cancellation of the context as the CLI does on
// SIGINT) at a generated time or when the n-th hook event of a generated kind occurs,
// late clients dialling after the shutdown began, and a delay plan for the hook points.
type c45Client struct {
	Kind  string `json:"kind"`  // ws | raw
	At    int    `json:"at"`    // ms after the start of the timeline at which it dials
	Leave int    `json:"leave"` // ms after the dial at which it leaves; -1: stays until the end
	How   string `json:"how"`   // graceful | drop (ws only)
}

type c45Case struct {
	Warm     bool        `json:"warm"` // wait for the first compile before the timeline starts
	Clients  []c45Client `json:"clients"`
	Writes   []int       `json:"writes"`   // ms after the start of the timeline
	Shutdown string      `json:"shutdown"` // close | cancel
	CloseAt  int         `json:"close_at"` // ms after the start of the timeline
	CloseOn  string      `json:"close_on,omitempty"`
	CloseNth int         `json:"close_nth,omitempty"` // shut down when the nth event of kind CloseOn is recorded (or at CloseAt, whichever is first)
	Late     []int       `json:"late"`                // ms after the shutdown was initiated at which one more client dials
	RawHold  int         `json:"raw_hold"`            // ms after the shutdown was initiated at which remaining raw clients drop their connection
	Delays   []delayRule `json:"delays"`
}

func checkC45(h *hx.H, c c45Case) {
	h.Label("shutdown:"+c.Shutdown, fmt.Sprintf("clients:%d", len(c.Clients)))
	if c.CloseOn != "" {
		h.Label("close-on:" + c.CloseOn)
	}
	if len(c.Delays) > 0 {
		h.Label("perturbed")
	}
	runtime.GC()
	time.Sleep(2 * time.Millisecond)
	baseline := runtime.NumGoroutine()

	s, err := startSession("C45", c.Delays)
	if err != nil {
		h.Reject("inconclusive:watcher-start-failed")
	}
	rec := s.rec
	cleaned := false
	finish := func() {
		if cleaned {
			return
		}
		cleaned = true
		s.shutdown(45 * time.Second)
		waitTimeout(&s.hwg, 10*time.Second)
		s.cleanup()
	}
	defer finish()

	if c.Warm {
		c44Await(rec, "compile-end", 0)
	}

	// ---- shutdown machinery
	var shutOnce sync.Once
	shutStarted := make(chan struct{})
	shutReturned := make(chan struct{})
	doShutdown := func(why string) {
		shutOnce.Do(func() {
			rec.add("h-shutdown-begin", -1, verNone, c.Shutdown+" "+why)
			close(shutStarted)
			go func() {
				if c.Shutdown == "cancel" {
					s.cancel()
					<-s.runDone
				} else {
					s.vw.Close()
				}
				rec.add("h-shutdown-returned", -1, verNone, c.Shutdown)
				close(shutReturned)
			}()
		})
	}
	if c.CloseOn != "" && c.CloseNth > 0 {
		rec.mu.Lock()
		if rec.counts[c.CloseOn] >= c.CloseNth {
			rec.mu.Unlock()
			// already past: the time trigger decides
		} else {
			rec.trig = &trigger{kind: c.CloseOn, nth: c.CloseNth, fire: func() { doShutdown("on " + c.CloseOn) }}
			rec.mu.Unlock()
		}
	}

	// ---- the timeline
	t0 := time.Now()
	at := func(ms int) {
		if d := time.Until(t0.Add(time.Duration(ms) * time.Millisecond)); d > 0 {
			time.Sleep(d)
		}
	}
	var twg sync.WaitGroup
	var mu sync.Mutex
	var wsOpen []*wsClient
	var rawOpen []net.Conn
	for i, cl := range c.Clients {
		twg.Add(1)
		go func(id int, cl c45Client) {
			defer twg.Done()
			at(cl.At)
			select {
			case <-shutReturned:
				rec.add("h-dial-skipped", id, verNone, "the watcher is gone; its port may belong to someone else")
				return
			default:
			}
			if cl.Kind == "raw" {
				conn, err := s.rawUpgrade(id)
				if err != nil {
					return
				}
				if cl.Leave >= 0 {
					time.Sleep(time.Duration(cl.Leave) * time.Millisecond)
					rec.add("h-close", id, verNone, "raw drop")
					conn.Close()
					return
				}
				mu.Lock()
				rawOpen = append(rawOpen, conn)
				mu.Unlock()
				return
			}
			w, _, err := s.dial(id, 20*time.Second)
			if err != nil {
				return
			}
			if cl.Leave >= 0 {
				time.Sleep(time.Duration(cl.Leave) * time.Millisecond)
				s.hangup(w, cl.How != "drop")
				return
			}
			mu.Lock()
			wsOpen = append(wsOpen, w)
			mu.Unlock()
		}(i, cl)
	}
	twg.Add(1)
	go func() {
		defer twg.Done()
		for i, ms := range c.Writes {
			at(ms)
			select {
			case <-shutStarted:
				return
			default:
			}
			s.writeVersion(i+1, "inplace")
		}
	}()
	twg.Add(1)
	go func() {
		defer twg.Done()
		select {
		case <-shutStarted:
		case <-time.After(time.Until(t0.Add(time.Duration(c.CloseAt) * time.Millisecond))):
			doShutdown("at time")
		}
	}()
	<-shutStarted
	// late clients and the raw clients' hold are relative to the start of the shutdown
	ts := time.Now()
	for i, ms := range c.Late {
		twg.Add(1)
		go func(id, ms int) {
			defer twg.Done()
			time.Sleep(time.Until(ts.Add(time.Duration(ms) * time.Millisecond)))
			select {
			case <-shutReturned:
				rec.add("h-dial-skipped", id, verNone, "the watcher is gone; its port may belong to someone else")
				return
			default:
			}
			w, _, err := s.dial(id, 10*time.Second)
			if err == nil {
				mu.Lock()
				wsOpen = append(wsOpen, w)
				mu.Unlock()
			}
		}(100+i, ms)
	}
	twg.Add(1)
	go func() {
		defer twg.Done()
		time.Sleep(time.Until(ts.Add(time.Duration(c.RawHold) * time.Millisecond)))
		mu.Lock()
		for _, conn := range rawOpen {
			conn.Close()
		}
		rawOpen = nil
		mu.Unlock()
	}()

	// ---- wait for the shutdown to return (bounded: a miss is inconclusive)
	returned := false
	select {
	case <-shutReturned:
		returned = true
	case <-time.After(60 * time.Second):
	}
	twgOK := waitTimeout(&twg, 40*time.Second)
	mu.Lock()
	for _, conn := range rawOpen {
		conn.Close()
	}
	for _, w := range wsOpen {
		s.hangup(w, false)
	}
	mu.Unlock()
	runOK := false
	select {
	case <-s.runDone:
		runOK = true
	case <-time.After(45 * time.Second):
	}
	hwgOK := waitTimeout(&s.hwg, 10*time.Second)
	evs := rec.snapshot()
	logText := rec.logBuf.String()
	if os.Getenv("VERIF_TRACE") != "" {
		fmt.Fprintf(os.Stderr, "C45 trace (returned=%v):\n%s", returned, renderTrace(evs, 1<<30))
	}

	// ---- goroutines back to the baseline (polled; a miss is inconclusive)
	s.hc.CloseIdleConnections()
	leakOK := false
	var ng int
	for deadline := time.Now().Add(5 * time.Second); ; {
		ng = runtime.NumGoroutine()
		if ng <= baseline {
			leakOK = true
			break
		}
		if time.Now().After(deadline) {
			break
		}
		time.Sleep(5 * time.Millisecond)
	}
	var leaked []string
	if !leakOK {
		leaked = watcherGoroutines()
	}
	finish()

	// ---- oracle on the trace
	if i := strings.Index(logText, "panic serving"); i >= 0 {
		h.Failf("panic:http-handler", "the watch server recovered a panic in a handler: %s", firstN(logText[i:], 1500))
	}
	if rep := raceReport(); rep != "" {
		h.Failf(raceSig(rep), "the race detector reported during this case:\n%s", firstN(rep, 3000))
	}
	closeBegin, closeReturn := -1, -1
	for i, e := range evs {
		switch e.Kind {
		case "close-begin":
			if closeBegin < 0 {
				closeBegin = i
			}
		case "close-return":
			if closeReturn < 0 {
				closeReturn = i
			}
		}
	}
	admitted := map[int]int{}   // client -> index of client-admitted
	exited := map[int]int{}     // client -> index of client-exit
	registered := map[int]int{} // client -> index of client-registered
	refused, dialFailed, dialOK := 0, 0, 0
	for i, e := range evs {
		switch e.Kind {
		case "client-admitted":
			admitted[e.Cl] = i
			if closeBegin >= 0 && i > closeBegin {
				h.Failf("admitted-after-close", "client %d was admitted (%s) after the shutdown had begun (%s)\n%s", e.Cl, e, evs[closeBegin], renderTrace(evs[:min(len(evs), i+8)], 50))
			}
		case "client-registered":
			registered[e.Cl] = i
		case "client-exit":
			exited[e.Cl] = i
		case "client-refused":
			refused++
		case "h-dial-failed":
			dialFailed++
		case "h-dial-ok":
			dialOK++
		}
	}
	// Seen from outside, a handshake that started after close-begin and still succeeded proves nothing:
	// the port of the closed listener may already belong to the watcher of another shard. The exact
	// check is the one above, on this watcher's own admission events.
	dialStart := map[int]int{}
	for i, e := range evs {
		if e.Kind == "h-dial" {
			dialStart[e.Cl] = i
		}
		if e.Kind == "h-dial-ok" && closeBegin >= 0 && dialStart[e.Cl] > closeBegin {
			if _, ok := admitted[e.Cl]; !ok {
				h.Label("saw:late-dial-reached-foreign-listener")
			}
		}
	}
	if closeReturn >= 0 {
		for cl, a := range admitted {
			x, ok := exited[cl]
			if a < closeReturn && (!ok || x > closeReturn) {
				what := "has not finished at all"
				if ok {
					what = "finished only at " + evs[x].String()
				}
				h.Failf("close-returned-before-handler-exit", "close() returned (%s) while the handler of client %d, admitted at %s, %s\n%s",
					evs[closeReturn], cl, evs[a], what, renderTrace(evs[max(0, closeReturn-30):min(len(evs), closeReturn+15)], 60))
			}
		}
		// the same seen from the caller of the shutdown
		sr := lastOf(evs, func(e event) bool { return e.Kind == "h-shutdown-returned" })
		if sr >= 0 {
			for cl, x := range exited {
				if x > sr {
					h.Failf("close-returned-before-handler-exit", "the %s shutdown returned to its caller (%s) before the handler of client %d finished (%s)", c.Shutdown, evs[sr], cl, evs[x])
				}
			}
		}
	}

	// ---- distribution
	alive, inHandshake := 0, 0
	if closeBegin >= 0 {
		for cl, a := range admitted {
			if a < closeBegin {
				if x, ok := exited[cl]; !ok || x > closeBegin {
					alive++
					if r, ok := registered[cl]; !ok || r > closeBegin {
						inHandshake++
					}
				}
			}
		}
	}
	h.Label(fmt.Sprintf("alive-at-close:%s", bucket(alive)))
	if inHandshake > 0 {
		h.Label("saw:handshake-in-flight-at-close")
	}
	if refused > 0 {
		h.Label("saw:client-refused-503")
	}
	if dialFailed > refused {
		h.Label("saw:dial-failed-no-listener")
	}
	h.AddExtra("hook_events", int64(len(evs)))

	if !returned || closeReturn < 0 {
		h.Reject("inconclusive:shutdown-did-not-return-in-60s")
	}
	if !twgOK || !runOK || !hwgOK {
		h.Reject("inconclusive:slow-teardown")
	}
	if !leakOK {
		h.AddExtra("goroutines_above_baseline", 1)
		if len(leaked) > 0 {
			h.Extra("leaked_watcher_goroutine_sample", firstN(leaked[0], 1200))
		}
		h.Reject("inconclusive:goroutines-above-baseline")
	}
	_ = ng
	h.NonTrivial(len(admitted) >= 2 && (alive >= 1 || refused >= 1))
}

func coreC45() []c45Case {
	ws := func(at, leave int) c45Client { return c45Client{Kind: "ws", At: at, Leave: leave, How: "graceful"} }
	raw := func(at, leave int) c45Client { return c45Client{Kind: "raw", At: at, Leave: leave} }
	var out []c45Case
	for _, mode := range []string{"close", "cancel"} {
		out = append(out,
			// no client at all; one idle client; clients that already left
			c45Case{Shutdown: mode, CloseAt: 50, Warm: true},
			c45Case{Shutdown: mode, CloseAt: 100, Warm: true, Clients: []c45Client{ws(0, -1)}, Late: []int{0, 20}},
			c45Case{Shutdown: mode, CloseAt: 150, Warm: true, Clients: []c45Client{ws(0, 20), ws(10, 30), ws(20, -1)}, Late: []int{5}},
			// shutdown exactly when a client is between admission and the upgrade / registration
			c45Case{Shutdown: mode, CloseAt: 3000, CloseOn: "client-admitted", CloseNth: 2, Warm: true,
				Clients: []c45Client{ws(0, -1), ws(30, -1), ws(30, -1)}, Late: []int{0, 10, 50},
				Delays: []delayRule{{Kind: "client-admitted", Ms: []int{0, 40}}}},
			c45Case{Shutdown: mode, CloseAt: 3000, CloseOn: "client-accepted", CloseNth: 2, Warm: true,
				Clients: []c45Client{ws(0, -1), ws(30, -1), raw(30, -1)}, Late: []int{0, 30}, RawHold: 100,
				Delays: []delayRule{{Kind: "client-accepted", Ms: []int{0, 60, 60}}}},
			c45Case{Shutdown: mode, CloseAt: 3000, CloseOn: "client-registered", CloseNth: 1, Warm: true,
				Clients: []c45Client{ws(0, -1), ws(0, -1)}, Late: []int{0},
				Delays: []delayRule{{Kind: "client-registered", Ms: []int{50}}, {Kind: "close-begin", Ms: []int{30}}}},
			// shutdown while clients are inside a write, and while a broadcast walks the client set
			c45Case{Shutdown: mode, CloseAt: 3000, CloseOn: "client-write-begin", CloseNth: 3, Warm: true,
				Clients: []c45Client{ws(0, -1), ws(0, -1), ws(10, -1)}, Writes: []int{150, 200}, Late: []int{0},
				Delays: []delayRule{{Kind: "client-write-begin", Ms: []int{0, 0, 80}}}},
			c45Case{Shutdown: mode, CloseAt: 3000, CloseOn: "broadcast-signal", CloseNth: 2, Warm: false,
				Clients: []c45Client{ws(0, -1), ws(0, -1), ws(0, 400), raw(0, -1)}, Writes: []int{100}, Late: []int{0, 5}, RawHold: 50,
				Delays: []delayRule{{Kind: "broadcast-signal", Ms: []int{30}}}},
			// shutdown racing with the upgrade of the only client(s): nobody else keeps close() waiting
			c45Case{Shutdown: mode, CloseAt: 3000, CloseOn: "client-admitted", CloseNth: 1, Warm: true, Clients: []c45Client{ws(0, -1)}, Late: []int{0}},
			c45Case{Shutdown: mode, CloseAt: 3000, CloseOn: "client-admitted", CloseNth: 1, Warm: true, Clients: []c45Client{raw(0, -1)}, RawHold: 30},
			c45Case{Shutdown: mode, CloseAt: 3000, CloseOn: "client-admitted", CloseNth: 2, Warm: true, Clients: []c45Client{ws(0, 0), ws(0, -1), ws(1, -1)}, Late: []int{0, 1}},
			c45Case{Shutdown: mode, CloseAt: 3000, CloseOn: "client-admitted", CloseNth: 3, Warm: false, Clients: []c45Client{ws(0, 0), ws(0, 0), ws(0, -1), ws(0, -1)},
				Delays: []delayRule{{Kind: "client-ctx-done", Ms: []int{0}}, {Kind: "close-begin", Ms: []int{1}}}},
			// all six at once, shutdown in the middle of the handshakes
			c45Case{Shutdown: mode, CloseAt: 3000, CloseOn: "client-accepted", CloseNth: 3, Warm: false,
				Clients: []c45Client{ws(0, -1), ws(0, 5), raw(0, -1), ws(0, -1), raw(0, 10), ws(0, -1)}, Late: []int{0, 0, 0}, RawHold: 0,
				Delays: []delayRule{{Kind: "client-accepted", Ms: []int{20}}, {Kind: "client-admitted", Ms: []int{0, 10}}}},
		)
		// The same race again with 1..4 simultaneous dials and different admission delays: whether close()
		// overtakes a handler between its admission and its upgrade is decided by the scheduler, so this
		// part of the core is repeated rather than relying on one attempt.
		for n := 1; n <= 4; n++ {
			for _, d := range []int{0, 1, 3} {
				var cls []c45Client
				for i := 0; i < n; i++ {
					cls = append(cls, ws(0, -1))
				}
				out = append(out, c45Case{Shutdown: mode, CloseAt: 3000, CloseOn: "client-admitted", CloseNth: n, Warm: true, Clients: cls, Late: []int{0},
					Delays: []delayRule{{Kind: "client-admitted", Ms: []int{d}}}})
			}
		}
	}
	return out
}

var c45HookKinds = []string{"close-begin", "client-admitted", "client-refused", "client-accepted", "client-registered", "client-unregistered", "client-exit",
	"client-loop", "client-get", "client-write-begin", "client-write-end", "client-wait", "client-wake", "client-ctx-done",
	"broadcast-begin", "broadcast-stored", "broadcast-signal", "broadcast-done", "compile-begin", "compile-end"}

var (
	c45Times   = []int{0, 30, 5, 80, 1, 150, 15, 50, 300, 10}
	c45Leaves  = []int{-1, 0, -1, 20, -1, 100, 5, -1}
	c45CloseOn = []string{"", "client-admitted", "client-accepted", "", "client-registered", "client-write-begin", "broadcast-signal", "client-get", "", "client-wait", "broadcast-begin", "client-exit", "client-unregistered", "client-accepted"}
	c45DelayMs = []int{0, 20, 0, 5, 1, 50, 0, 10}
)

func genC45(t *rapid.T) c45Case {
	var c c45Case
	c.Warm = rapid.SampledFrom([]bool{true, false, true}).Draw(t, "warm")
	c.Shutdown = rapid.SampledFrom([]string{"close", "cancel"}).Draw(t, "shutdown")
	k := rapid.SampledFrom([]int{3, 1, 4, 2, 6, 5, 0, 2, 4}).Draw(t, "k")
	for i := 0; i < k; i++ {
		cl := c45Client{Kind: rapid.SampledFrom([]string{"ws", "ws", "raw", "ws"}).Draw(t, "kind")}
		cl.At = rapid.SampledFrom(c45Times).Draw(t, "at")
		cl.Leave = rapid.SampledFrom(c45Leaves).Draw(t, "leave")
		cl.How = rapid.SampledFrom([]string{"graceful", "drop"}).Draw(t, "how")
		c.Clients = append(c.Clients, cl)
	}
	nw := rapid.SampledFrom([]int{1, 0, 2, 3}).Draw(t, "writes")
	for i := 0; i < nw; i++ {
		c.Writes = append(c.Writes, rapid.SampledFrom(c45Times).Draw(t, "wt"))
	}
	// writeVersion numbers must increase with time
	for i := 1; i < len(c.Writes); i++ {
		if c.Writes[i] < c.Writes[i-1] {
			c.Writes[i] = c.Writes[i-1]
		}
	}
	c.CloseAt = rapid.SampledFrom([]int{60, 150, 30, 300, 100, 10, 200, 0, 80}).Draw(t, "close-at")
	if k > 0 && rapid.SampledFrom([]bool{true, false, false, true}).Draw(t, "close-near-dial") {
		// shut down within a few ms of some client's dial: handshakes are in flight
		c.CloseAt = c.Clients[rapid.IntRange(0, k-1).Draw(t, "near")].At + rapid.SampledFrom([]int{1, 0, 3, 8, 2, 5}).Draw(t, "delta")
	}
	c.CloseOn = rapid.SampledFrom(c45CloseOn).Draw(t, "close-on")
	if c.CloseOn != "" {
		c.CloseNth = rapid.IntRange(1, max(1, k)).Draw(t, "nth")
		c.CloseAt += 400 // give the event a chance to happen first
	}
	nl := rapid.SampledFrom([]int{1, 0, 2, 3}).Draw(t, "late")
	for i := 0; i < nl; i++ {
		c.Late = append(c.Late, rapid.SampledFrom([]int{0, 5, 0, 30, 1, 100}).Draw(t, "lt"))
	}
	c.RawHold = rapid.SampledFrom([]int{50, 0, 200, 20}).Draw(t, "raw-hold")
	c.Delays = genDelays(t, c45HookKinds, c45DelayMs)
	return c
}

func TestC45(t *testing.T) {
	hx.Run(t, hx.Spec[c45Case]{Prop: "C45", Core: coreC45, Gen: genC45, Check: checkC45, Timeout: 5 * time.Minute})
}
