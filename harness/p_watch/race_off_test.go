//go:build verif && !race

package p_watch

const raceBuild = false
