//go:build verif

// Package p_watch checks the watch server of d2cli (C44, C45). It drives the real,
// unexported watcher in-process through the hooks that exist under the build tag
// "verif" (d2cli/verif_on.go): every verifEvent of the case's own watcher is recorded into one
// totally ordered trace together with the harness' own actions, and is also a
// schedule-perturbation point (the hook sleeps according to a generated delay plan).
package p_watch

import (
	"bytes"
	"context"
	"encoding/json"
	"fmt"
	"io"
	"log/slog"
	"net"
	"net/http"
	"os"
	"path/filepath"
	"regexp"
	"runtime"
	"sort"
	"strconv"
	"strings"
	"sync"
	"sync/atomic"
	"syscall"
	"testing"
	"time"

	"github.com/coder/websocket"

	"oss.terrastruct.com/util-go/cmdlog"
	"oss.terrastruct.com/util-go/go2"
	"oss.terrastruct.com/util-go/xmain"
	"oss.terrastruct.com/util-go/xos"

	"oss.terrastruct.com/d2/d2cli"
	"oss.terrastruct.com/d2/d2graph"
	"oss.terrastruct.com/d2/d2plugin"
	"oss.terrastruct.com/d2/d2renderers/d2svg"
	"oss.terrastruct.com/d2/lib/geo"
	"oss.terrastruct.com/d2/lib/label"
	dlog "oss.terrastruct.com/d2/lib/log"
)

// ---------------------------------------------------------------------------------------
// A layout plugin that places shapes in a row. The watcher's real compile() runs (read
// file, d2lib.Compile, render SVG, write output); only the layout engine is replaced by
// this one through the public plugin interface, so no JavaScript engine is needed.

type flatLayout struct{}

func (flatLayout) Info(context.Context) (*d2plugin.PluginInfo, error) {
	return &d2plugin.PluginInfo{Name: "verifflat", Type: "bundled", ShortHelp: "row layout of the verification harness"}, nil
}
func (flatLayout) Flags(context.Context) ([]d2plugin.PluginSpecificFlag, error) { return nil, nil }
func (flatLayout) HydrateOpts([]byte) error                                     { return nil }
func (flatLayout) PostProcess(_ context.Context, b []byte) ([]byte, error)      { return b, nil }
func (flatLayout) Layout(_ context.Context, g *d2graph.Graph) error {
	x := 0.
	for _, o := range g.Objects {
		o.TopLeft = geo.NewPoint(x, 0)
		x += o.Width + 40
		if o.HasLabel() {
			o.LabelPosition = go2.Pointer(label.InsideMiddleCenter.String())
		}
	}
	for _, e := range g.Edges {
		e.Route = []*geo.Point{e.Src.Center(), e.Dst.Center()}
		if e.Label.Value != "" {
			e.LabelPosition = go2.Pointer(label.InsideMiddleCenter.String())
		}
	}
	return nil
}

// ---------------------------------------------------------------------------------------
// Trace

const (
	verNone        = -1 // event carries no result
	verUnversioned = -2 // a result without a (complete) version token: empty or half-written input, compile error
)

type event struct {
	Seq  int           `json:"seq"`
	T    time.Duration `json:"-"`
	Ms   float64       `json:"ms"`
	Kind string        `json:"kind"`
	Cl   int           `json:"cl"`  // harness client id, -1 if none / unknown
	Ver  int           `json:"ver"` // version carried by the event's result
	Res  int           `json:"res"` // identity of the compile result (order of first appearance), -1 none
	Note string        `json:"note,omitempty"`
}

func (e event) String() string {
	s := fmt.Sprintf("#%d %.1fms %s", e.Seq, e.Ms, e.Kind)
	if e.Cl >= 0 {
		s += fmt.Sprintf(" cl=%d", e.Cl)
	}
	if e.Ver != verNone {
		if e.Ver == verUnversioned {
			s += " ver=?"
		} else {
			s += fmt.Sprintf(" ver=%d", e.Ver)
		}
	}
	if e.Note != "" {
		s += " (" + e.Note + ")"
	}
	return s
}

// delayRule: the n-th occurrence (0-based) of hook Kind sleeps Ms[n % len(Ms)] milliseconds.
type delayRule struct {
	Kind string `json:"kind"`
	Ms   []int  `json:"ms"`
}

// trigger: when the Nth (1-based) hook event of Kind is recorded, fire() is called once
// (on a fresh goroutine).
type trigger struct {
	kind string
	nth  int
	fire func()
}

type recorder struct {
	mu      sync.Mutex
	start   time.Time
	evs     []event
	clByPtr map[any]int // *wsclient (opaque) -> harness client id
	foreign map[*http.Request]int
	token   string // marks this session's own handshake requests
	resByID map[any]int
	delays  map[string][]int
	counts  map[string]int
	trig    *trigger
	sleptMs int64
	logBuf  *capBuf
}

func newRecorder(plan []delayRule) *recorder {
	r := &recorder{start: time.Now(), clByPtr: map[any]int{}, foreign: map[*http.Request]int{}, resByID: map[any]int{}, delays: map[string][]int{}, counts: map[string]int{}, logBuf: &capBuf{}}
	for _, d := range plan {
		if len(d.Ms) > 0 {
			r.delays[d.Kind] = d.Ms
		}
	}
	return r
}

var versionRE = regexp.MustCompile(`ver([0-9]+)end`)

func versionOf(svg string) int {
	m := versionRE.FindStringSubmatch(svg)
	if m == nil {
		return verUnversioned
	}
	n, err := strconv.Atoi(m[1])
	if err != nil {
		return verUnversioned
	}
	return n
}

// clientIDOfRequest maps a handshake request seen by the watcher to the harness client that
// sent it. A request without this session's token comes from somebody else (shards run in
// parallel and ephemeral ports get reused, so a late dial of another process can reach this
// watcher): such a client gets its own id >= 1000 and is a client like any other for the
// server-side checks. Called with r.mu held.
func (r *recorder) clientIDOfRequest(q *http.Request) int {
	if q == nil || q.URL == nil {
		return -1
	}
	if q.URL.Query().Get("s") == r.token {
		if n, err := strconv.Atoi(q.URL.Query().Get("id")); err == nil {
			return n
		}
	}
	id, ok := r.foreign[q]
	if !ok {
		id = 1000 + len(r.foreign)
		r.foreign[q] = id
	}
	return id
}

// add records one event (harness side). Returns its sequence number.
func (r *recorder) add(kind string, cl, ver int, note string) int {
	r.mu.Lock()
	defer r.mu.Unlock()
	return r.addLocked(kind, cl, ver, -1, note)
}

func (r *recorder) addLocked(kind string, cl, ver, res int, note string) int {
	t := time.Since(r.start)
	e := event{Seq: len(r.evs), T: t, Ms: float64(t.Microseconds()) / 1000, Kind: kind, Cl: cl, Ver: ver, Res: res, Note: note}
	r.evs = append(r.evs, e)
	return e.Seq
}

// hook is the d2cli.VerifHookFunc of this session's watcher: only its events arrive here.
func (r *recorder) hook(kind string, args ...any) {
	cl, ver, res, note := -1, verNone, -1, ""
	var opaque any
	r.mu.Lock()
	for _, a := range args {
		switch v := a.(type) {
		case *http.Request:
			cl = r.clientIDOfRequest(v)
		case d2cli.VerifResult:
			if v.ID == nil {
				ver = verUnversioned
				note = "nil result"
				break
			}
			id, ok := r.resByID[v.ID]
			if !ok {
				id = len(r.resByID)
				r.resByID[v.ID] = id
			}
			res = id
			ver = versionOf(v.SVG)
			if v.Err != "" {
				note = "err: " + firstN(v.Err, 120)
			}
		case []byte: // compile-end: the svg
			ver = versionOf(string(v))
		case error:
			if v != nil {
				note = "err: " + firstN(v.Error(), 120)
			}
		case nil:
		default:
			// a value to print (fsnotify.Event) or an opaque identity (*wsclient)
			if s, ok := a.(fmt.Stringer); ok {
				note = s.String()
			} else {
				opaque = a
			}
		}
	}
	if opaque != nil {
		if kind == "client-registered" {
			r.clByPtr[opaque] = cl // cl was taken from the request argument
		} else if id, ok := r.clByPtr[opaque]; ok {
			cl = id
		}
	}
	r.addLocked(kind, cl, ver, res, note)
	n := r.counts[kind]
	r.counts[kind] = n + 1
	var fire func()
	if t := r.trig; t != nil && t.kind == kind && n+1 == t.nth {
		fire = t.fire
		r.trig = nil
	}
	d := 0
	if ms := r.delays[kind]; len(ms) > 0 {
		d = ms[n%len(ms)]
	}
	r.sleptMs += int64(d)
	r.mu.Unlock()
	if fire != nil {
		go fire()
	}
	if d > 0 {
		time.Sleep(time.Duration(d) * time.Millisecond)
	}
}

func firstN(s string, n int) string {
	if len(s) > n {
		return s[:n] + "…"
	}
	return s
}

func (r *recorder) snapshot() []event {
	r.mu.Lock()
	defer r.mu.Unlock()
	return append([]event(nil), r.evs...)
}

// tail renders the last n events (for failure messages).
func renderTrace(evs []event, n int) string {
	if len(evs) > n {
		evs = evs[len(evs)-n:]
	}
	var b strings.Builder
	for _, e := range evs {
		b.WriteString("  " + e.String() + "\n")
	}
	return b.String()
}

// capBuf keeps the first 256 KiB written to it (watcher log output).
type capBuf struct {
	mu sync.Mutex
	b  bytes.Buffer
}

func (c *capBuf) Write(p []byte) (int, error) {
	c.mu.Lock()
	if c.b.Len() < 256<<10 {
		c.b.Write(p)
	}
	c.mu.Unlock()
	return len(p), nil
}
func (c *capBuf) String() string {
	c.mu.Lock()
	defer c.mu.Unlock()
	return c.b.String()
}

// ---------------------------------------------------------------------------------------
// Running the watcher

type nopWC struct{ io.Writer }

func (nopWC) Close() error { return nil }

type session struct {
	rec     *recorder
	dir     string
	input   string
	vw      *d2cli.VerifWatcher
	addr    string
	cancel  context.CancelFunc
	runDone chan struct{}
	runErr  error
	hc      *http.Client
	tmpSeq  int

	hwg sync.WaitGroup // harness goroutines (client read loops)
}

var caseSeq atomic.Int64

func workDir() string {
	d := os.Getenv("VERIF_WORK")
	if d == "" {
		d = filepath.Join(os.TempDir(), "verif-p_watch")
	}
	return d
}

func d2Text(version int) []byte {
	return []byte(fmt.Sprintf("x: ver%dend\n", version))
}

// startSession creates the sandbox directory with version 0 of the input, installs the
// recorder and starts the real watcher on 127.0.0.1:0.
func startSession(prop string, plan []delayRule) (*session, error) {
	s := &session{rec: newRecorder(plan), runDone: make(chan struct{})}
	s.rec.token = fmt.Sprintf("%d-%d", os.Getpid(), caseSeq.Add(1))
	s.dir = filepath.Join(workDir(), prop+"-"+s.rec.token)
	if err := os.MkdirAll(s.dir, 0o755); err != nil {
		return nil, err
	}
	s.input = filepath.Join(s.dir, "in.d2")
	if err := os.WriteFile(s.input, d2Text(0), 0o644); err != nil {
		return nil, err
	}
	env := xos.NewEnv([]string{"BROWSER=0", "HOME=/nonexistent-home"})
	ms := &xmain.State{
		Name:   "d2",
		Stdin:  strings.NewReader(""),
		Stdout: nopWC{io.Discard},
		Stderr: nopWC{s.rec.logBuf},
		Env:    env,
		PWD:    s.dir,
	}
	ms.Log = cmdlog.New(env, s.rec.logBuf)
	ms.Opts = xmain.NewOpts(env, nil)

	ctx, cancel := context.WithCancel(context.Background())
	ctx = dlog.With(ctx, slog.New(slog.NewTextHandler(io.Discard, nil)))
	s.cancel = cancel
	s.rec.add("h-start", -1, 0, "")
	vw, err := d2cli.VerifNewWatcher(ctx, ms, d2cli.VerifWatcherOpts{
		Layout:     go2.Pointer("verifflat"),
		Plugins:    []d2plugin.Plugin{flatLayout{}},
		RenderOpts: d2svg.RenderOpts{Pad: go2.Pointer(int64(10)), ThemeID: go2.Pointer(int64(0)), OmitVersion: go2.Pointer(true)},
		Host:       "127.0.0.1",
		Port:       "0",
		InputPath:  s.input,
		OutputPath: filepath.Join(s.dir, "out.svg"),
	}, s.rec.hook)
	if err != nil {
		cancel()
		os.RemoveAll(s.dir)
		return nil, err
	}
	s.vw = vw
	s.addr = vw.Addr()
	s.hc = &http.Client{Transport: &http.Transport{DisableKeepAlives: true, Proxy: nil}}
	go func() {
		s.runErr = vw.Run()
		s.rec.add("h-run-return", -1, verNone, fmt.Sprint(s.runErr))
		close(s.runDone)
	}()
	return s, nil
}

// writeVersion replaces the input's content. mode "inplace": O_TRUNC + write (what most
// editors and os.WriteFile do); "rename": write a sibling temp file and rename it over the
// input (what vim, and atomic writers do).
func (s *session) writeVersion(v int, mode string) error {
	s.rec.add("h-write-start", -1, v, mode)
	var err error
	if mode == "rename" {
		s.tmpSeq++
		tmp := filepath.Join(s.dir, fmt.Sprintf("edit%d.new", s.tmpSeq))
		err = os.WriteFile(tmp, d2Text(v), 0o644)
		if err == nil {
			err = os.Rename(tmp, s.input)
		}
	} else {
		err = os.WriteFile(s.input, d2Text(v), 0o644)
	}
	note := mode
	if err != nil {
		note += " err: " + err.Error()
	}
	s.rec.add("h-write-done", -1, v, note)
	return err
}

// shutdown closes the watcher (idempotent w.r.t. an earlier close), waits for Run to
// return and for the harness' own goroutines. ok=false: Run did not return within the
// bound (inconclusive, never a verdict).
func (s *session) shutdown(bound time.Duration) (ok bool) {
	done := make(chan struct{})
	go func() {
		s.vw.Close()
		close(done)
	}()
	ok = true
	tm := time.NewTimer(bound)
	defer tm.Stop()
	select {
	case <-done:
	case <-tm.C:
		ok = false
	}
	if ok {
		select {
		case <-s.runDone:
		case <-tm.C:
			ok = false
		}
	}
	s.cancel()
	return ok
}

func (s *session) cleanup() {
	s.hc.CloseIdleConnections()
	s.vw.Release() // a watcher that is still winding down (slow shutdown) is not recorded any further
	os.RemoveAll(s.dir)
}

// ---------------------------------------------------------------------------------------
// Websocket clients of the harness

type wsClient struct {
	id     int
	c      *websocket.Conn
	cancel context.CancelFunc
	done   chan struct{} // read loop finished
	closed atomic.Bool   // the harness closed it
}

// dial connects client id to /watch. status is the HTTP status of a refused handshake
// (0 if none was received).
func (s *session) dial(id int, timeout time.Duration) (cl *wsClient, status int, err error) {
	s.rec.add("h-dial", id, verNone, "")
	ctx, cancel := context.WithTimeout(context.Background(), timeout)
	defer cancel()
	c, resp, err := websocket.Dial(ctx, fmt.Sprintf("ws://%s/watch?id=%d&s=%s", s.addr, id, s.rec.token), &websocket.DialOptions{
		HTTPClient:      s.hc,
		CompressionMode: websocket.CompressionDisabled,
	})
	if resp != nil {
		status = resp.StatusCode
	}
	if err != nil {
		s.rec.add("h-dial-failed", id, verNone, fmt.Sprintf("status=%d %s", status, firstN(err.Error(), 100)))
		return nil, status, err
	}
	c.SetReadLimit(1 << 26)
	s.rec.add("h-dial-ok", id, verNone, "")
	rctx, rcancel := context.WithCancel(context.Background())
	cl = &wsClient{id: id, c: c, cancel: rcancel, done: make(chan struct{})}
	s.hwg.Add(1)
	go func() {
		defer s.hwg.Done()
		defer close(cl.done)
		for {
			_, data, err := c.Read(rctx)
			if err != nil {
				s.rec.add("h-read-end", id, verNone, firstN(err.Error(), 100))
				return
			}
			var m struct {
				SVG string `json:"svg"`
				Err string `json:"err"`
			}
			note := ""
			if jerr := json.Unmarshal(data, &m); jerr != nil {
				note = "bad json: " + jerr.Error()
			} else if m.Err != "" {
				note = "err: " + firstN(m.Err, 100)
			}
			s.rec.add("h-recv", id, versionOf(m.SVG), note)
		}
	}()
	return cl, status, nil
}

// hangup ends a harness client. graceful: websocket close handshake; otherwise the TCP
// connection is dropped.
func (s *session) hangup(cl *wsClient, graceful bool) {
	if cl.closed.Swap(true) {
		return
	}
	if graceful {
		s.rec.add("h-close", cl.id, verNone, "graceful")
		cl.c.Close(websocket.StatusNormalClosure, "bye")
	} else {
		s.rec.add("h-close", cl.id, verNone, "drop")
		cl.c.CloseNow()
	}
	cl.cancel()
}

// rawUpgrade opens a TCP connection, sends a complete websocket upgrade request for
// client id and never reads or answers: a client stuck in (or right after) the handshake.
func (s *session) rawUpgrade(id int) (net.Conn, error) {
	s.rec.add("h-raw-dial", id, verNone, "")
	c, err := net.DialTimeout("tcp", s.addr, 5*time.Second)
	if err != nil {
		s.rec.add("h-dial-failed", id, verNone, firstN(err.Error(), 100))
		return nil, err
	}
	req := fmt.Sprintf("GET /watch?id=%d&s=%s HTTP/1.1\r\nHost: %s\r\nConnection: Upgrade\r\nUpgrade: websocket\r\nSec-WebSocket-Version: 13\r\nSec-WebSocket-Key: dGhlIHNhbXBsZSBub25jZQ==\r\n\r\n", id, s.rec.token, s.addr)
	c.SetWriteDeadline(time.Now().Add(5 * time.Second))
	if _, err := c.Write([]byte(req)); err != nil {
		c.Close()
		s.rec.add("h-dial-failed", id, verNone, firstN(err.Error(), 100))
		return nil, err
	}
	return c, nil
}

// ---------------------------------------------------------------------------------------
// Process health while waiting (guards the "nothing moved for a long time" verdicts)

// stallMeter measures the largest gap between ticks of a 20 ms ticker: if the process
// itself was not being scheduled, a long wait proves nothing.
type stallMeter struct {
	stop   chan struct{}
	done   chan struct{}
	maxGap atomic.Int64
}

func startStallMeter() *stallMeter {
	m := &stallMeter{stop: make(chan struct{}), done: make(chan struct{})}
	go func() {
		defer close(m.done)
		last := time.Now()
		t := time.NewTicker(20 * time.Millisecond)
		defer t.Stop()
		for {
			select {
			case <-m.stop:
				return
			case <-t.C:
				now := time.Now()
				if g := int64(now.Sub(last)); g > m.maxGap.Load() {
					m.maxGap.Store(g)
				}
				last = now
			}
		}
	}()
	return m
}

func (m *stallMeter) finish() time.Duration {
	close(m.stop)
	<-m.done
	return time.Duration(m.maxGap.Load())
}

// goroutineDump returns the stacks of goroutines that run watcher code.
func watcherGoroutines() []string {
	buf := make([]byte, 1<<20)
	n := runtime.Stack(buf, true)
	var out []string
	for _, g := range strings.Split(string(buf[:n]), "\n\n") {
		if strings.Contains(g, "d2cli.(*watcher)") || strings.Contains(g, "d2cli.(*wsclient)") || strings.Contains(g, "d2cli.wsHeartbeat") {
			out = append(out, g)
		}
	}
	return out
}

// ---------------------------------------------------------------------------------------
// Race detector reports (thorough tier: the driver builds this package with -race).
//
// A data race in the watcher is a violation of C44/C45's "no interleaving causes a crash"
// reading and must be tied to the case that produced it. The race runtime only takes its
// options from the environment at process start, so a -race binary re-executes itself once
// with GORACE=log_path=<work dir>/race; after every case the report files are read back.

func TestMain(m *testing.M) {
	if raceBuild && os.Getenv("GORACE") == "" {
		dir := workDir()
		if os.MkdirAll(dir, 0o755) == nil {
			env := append(os.Environ(), "GORACE=log_path="+filepath.Join(dir, "race")+" halt_on_error=0")
			if exe, err := os.Executable(); err == nil {
				syscall.Exec(exe, os.Args, env) // only returns on error
			}
		}
	}
	os.Exit(m.Run())
}

var raceSeen int

// raceReport returns the race detector output that appeared since the last call ("" if none).
func raceReport() string {
	if !raceBuild {
		return ""
	}
	files, _ := filepath.Glob(filepath.Join(workDir(), "race.*"))
	sort.Strings(files)
	var all []byte
	for _, f := range files {
		b, _ := os.ReadFile(f)
		all = append(all, b...)
	}
	if len(all) <= raceSeen {
		return ""
	}
	out := string(all[raceSeen:])
	raceSeen = len(all)
	if !strings.Contains(out, "DATA RACE") {
		return ""
	}
	return out
}

// raceSig names a race by the first d2 function in the report.
func raceSig(report string) string {
	for _, l := range strings.Split(report, "\n") {
		l = strings.TrimSpace(l)
		if strings.HasPrefix(l, "oss.terrastruct.com/d2/") {
			if i := strings.LastIndex(l, "("); i > 0 {
				l = l[:i]
			}
			return "race:" + strings.TrimPrefix(l, "oss.terrastruct.com/d2/")
		}
	}
	return "race:unknown"
}
