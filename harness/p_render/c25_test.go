package p_render

import (
	"bytes"
	"fmt"
	"sync"
	"testing"
	"time"

	"pgregory.net/rapid"

	"verif/harness/gen"
	"verif/harness/hx"
)

// C25: rendering is deterministic regardless of scheduling.
type c25Case struct {
	Text   string     `json:"text"`
	Engine string     `json:"engine"`
	Opts   renderOpts `json:"opts"`
	N      int        `json:"n"`
	Others []int      `json:"others"`
}

var (
	poolOnce sync.Once
	poolWant [][]byte
)

func c25pool() {
	poolOnce.Do(func() {
		for _, s := range renderSnippets {
			svg, err := renderAll(s, "dagre", renderOpts{})
			if err != nil {
				svg = []byte("ERR " + err.Error())
			}
			poolWant = append(poolWant, svg)
		}
	})
}

func checkC25(h *hx.H, c c25Case) {
	c25pool()
	h.Label("engine:" + c.Engine)
	if c.Opts.Sketch {
		h.Label("sketch")
	}
	want, err := renderAll(c.Text, c.Engine, c.Opts)
	if err != nil {
		h.Reject("layout-or-compile-error")
	}
	for i := 0; i < 2; i++ {
		got, err := renderAll(c.Text, c.Engine, c.Opts)
		if err != nil {
			h.Failf("error-on-repeat", "rendering the same input again fails: %v", err)
		}
		if !bytes.Equal(got, want) {
			h.Failf("sequential-differs:"+c.Engine, "rendering the same input again gives different bytes %s\n%s", firstDiff(want, got), c.Text)
		}
	}
	n := c.N
	if n < 2 {
		n = 2
	}
	res := make([][]byte, n)
	ores := make([][]byte, len(c.Others))
	var wg sync.WaitGroup
	for i := 0; i < n; i++ {
		wg.Add(1)
		go func(i int) {
			defer wg.Done()
			defer func() {
				if r := recover(); r != nil {
					res[i] = []byte(fmt.Sprintf("PANIC %v", r))
				}
			}()
			svg, err := renderAll(c.Text, c.Engine, c.Opts)
			if err != nil {
				svg = []byte("ERR " + err.Error())
			}
			res[i] = svg
		}(i)
	}
	for j, idx := range c.Others {
		wg.Add(1)
		go func(j, idx int) {
			defer wg.Done()
			defer func() {
				if r := recover(); r != nil {
					ores[j] = []byte(fmt.Sprintf("PANIC %v", r))
				}
			}()
			svg, err := renderAll(renderSnippets[idx%len(renderSnippets)], "dagre", renderOpts{})
			if err != nil {
				svg = []byte("ERR " + err.Error())
			}
			ores[j] = svg
		}(j, idx)
	}
	wg.Wait()
	for i, got := range res {
		if !bytes.Equal(got, want) {
			h.Failf("concurrent-differs:"+c.Engine, "goroutine %d of %d rendering the same input concurrently got different bytes %s\n%s", i, n, firstDiff(want, got), c.Text)
		}
	}
	for j, idx := range c.Others {
		if !bytes.Equal(ores[j], poolWant[idx%len(renderSnippets)]) {
			h.Failf("concurrent-differs-other", "pool diagram %d rendered concurrently differs from its sequential rendering %s", idx%len(renderSnippets), firstDiff(poolWant[idx%len(renderSnippets)], ores[j]))
		}
	}
	feat := 0
	for _, k := range []string{"|md", "|go", "|latex", "sql_table", "shape: class"} {
		if bytes.Contains([]byte(c.Text), []byte(k)) {
			feat++
		}
	}
	if c.Opts.Sketch {
		feat++
	}
	h.NonTrivial(feat >= 2)
}

func genC25(t *rapid.T) c25Case {
	o := gen.LayoutDiagramOpts()
	d := gen.GenDiagram(t, o)
	text := d.Text()
	extras := []string{"xmd: |md\n  # Title\n  some *text* and `code`\n|\n", "xgo: |go\n  func f() int { return 1 }\n|\n", "xtex: |latex\n  \\frac{a}{b}\n|\n",
		"xcls: {shape: class; +id: int; get(): string}\n", "xtbl: {shape: sql_table; id: int {constraint: primary_key}}\n"}
	for i, e := range extras {
		if rapid.Bool().Draw(t, fmt.Sprintf("extra%d", i)) {
			text += e
		}
	}
	c := c25Case{Text: text, Engine: engineOf(t), N: rapid.IntRange(2, hx.Pick(6, 16)).Draw(t, "n")}
	c.Opts.Sketch = gen.Pick(t, "sketch", 4, 1) == 1
	k := rapid.IntRange(0, 4).Draw(t, "nothers")
	for i := 0; i < k; i++ {
		c.Others = append(c.Others, rapid.IntRange(0, 100).Draw(t, "other"))
	}
	return c
}

func coreC25() []c25Case {
	var out []c25Case
	for i, s := range renderSnippets {
		out = append(out, c25Case{Text: s, Engine: "dagre", N: 4, Others: []int{i + 1, i + 2}})
		out = append(out, c25Case{Text: s, Engine: "elk", N: 3})
		if i < 3 {
			out = append(out, c25Case{Text: s, Engine: "dagre", N: 3, Opts: renderOpts{Sketch: true}})
		}
	}
	return out
}

func TestC25(t *testing.T) {
	hx.Run(t, hx.Spec[c25Case]{Prop: "C25", Core: coreC25, Gen: genC25, Check: checkC25, Timeout: 600 * time.Second})
}
