package p_render

import (
	"bytes"
	"fmt"
	"strings"
	"sync"
	"testing"
	"time"

	"pgregory.net/rapid"

	"verif/harness/gen"
	"verif/harness/hx"
)

// C25: rendering is deterministic regardless of scheduling.
type c25Case struct {
	Text   string     `json:"text"`
	Engine string     `json:"engine"`
	Opts   renderOpts `json:"opts"`
	N      int        `json:"n"`
	Others []int      `json:"others"`
}

var (
	poolOnce sync.Once
	poolWant [][]byte
)

func c25pool() {
	poolOnce.Do(func() {
		for _, s := range renderSnippets {
			svg, err := renderAll(s, "dagre", renderOpts{})
			if err != nil {
				svg = []byte("ERR " + err.Error())
			}
			poolWant = append(poolWant, svg)
		}
	})
}

func checkC25(h *hx.H, c c25Case) {
	c25pool()
	h.Label("engine:" + c.Engine)
	if c.Opts.Sketch {
		h.Label("sketch")
	}
	want, err := renderAll(c.Text, c.Engine, c.Opts)
	if err != nil {
		h.Reject("layout-or-compile-error")
	}
	for i := 0; i < 2; i++ {
		got, err := renderAll(c.Text, c.Engine, c.Opts)
		if err != nil {
			h.Failf("error-on-repeat", "rendering the same input again fails: %v", err)
		}
		if !bytes.Equal(got, want) {
			h.Failf("sequential-differs:"+c.Engine, "rendering the same input again gives different bytes %s\n%s", firstDiff(want, got), c.Text)
		}
	}
	n := c.N
	if n < 2 {
		n = 2
	}
	res := make([][]byte, n)
	ores := make([][]byte, len(c.Others))
	var wg sync.WaitGroup
	for i := 0; i < n; i++ {
		wg.Add(1)
		go func(i int) {
			defer wg.Done()
			defer func() {
				if r := recover(); r != nil {
					res[i] = []byte(fmt.Sprintf("PANIC %v", r))
				}
			}()
			svg, err := renderAll(c.Text, c.Engine, c.Opts)
			if err != nil {
				svg = []byte("ERR " + err.Error())
			}
			res[i] = svg
		}(i)
	}
	for j, idx := range c.Others {
		wg.Add(1)
		go func(j, idx int) {
			defer wg.Done()
			defer func() {
				if r := recover(); r != nil {
					ores[j] = []byte(fmt.Sprintf("PANIC %v", r))
				}
			}()
			svg, err := renderAll(renderSnippets[idx%len(renderSnippets)], "dagre", renderOpts{})
			if err != nil {
				svg = []byte("ERR " + err.Error())
			}
			ores[j] = svg
		}(j, idx)
	}
	wg.Wait()
	for i, got := range res {
		if !bytes.Equal(got, want) {
			h.Failf("concurrent-differs:"+c.Engine, "goroutine %d of %d rendering the same input concurrently got different bytes %s\n%s", i, n, firstDiff(want, got), c.Text)
		}
	}
	for j, idx := range c.Others {
		if !bytes.Equal(ores[j], poolWant[idx%len(renderSnippets)]) {
			h.Failf("concurrent-differs-other", "pool diagram %d rendered concurrently differs from its sequential rendering %s", idx%len(renderSnippets), firstDiff(poolWant[idx%len(renderSnippets)], ores[j]))
		}
	}
	feat := 0
	for _, k := range []string{"|md", "|go", "|latex", "sql_table", "shape: class"} {
		if bytes.Contains([]byte(c.Text), []byte(k)) {
			feat++
		}
	}
	if c.Opts.Sketch {
		feat++
	}
	deep := strings.Count(c.Text, ".") >= 12 && strings.Contains(c.Text, "->")
	if deep {
		h.Label("deep-nesting")
	}
	h.NonTrivial(feat >= 2 || deep)
}

// genDeepDagre draws containers nested three or four deep with several sibling sub-containers,
// leaves and containers that carry margins (style.multiple, person, outside labels, long
// labels) and connections across containers: the shape for which dagre's post-processing has to
// grow several ancestors per shift - its result once depended on map iteration order.
func genDeepDagre(t *rapid.T) string {
	var sb strings.Builder
	var leaves []string
	id := 0
	var build func(prefix string, depth int)
	decorate := func(path string, container bool) {
		if container {
			if rapid.IntRange(0, 2).Draw(t, "clbl") == 0 {
				fmt.Fprintf(&sb, "%s.label: \"container label container label \"\n", path)
			}
			if rapid.IntRange(0, 5).Draw(t, "cnear") == 0 {
				fmt.Fprintf(&sb, "%s.label.near: %s\n", path, rapid.SampledFrom([]string{"outside-top-center", "outside-right-center", "outside-bottom-left", "outside-left-center"}).Draw(t, "cnv"))
			}
			return
		}
		switch rapid.IntRange(0, 6).Draw(t, "ldec") {
		case 0:
			fmt.Fprintf(&sb, "%s.shape: person\n", path)
		case 1:
			fmt.Fprintf(&sb, "%s.style.multiple: true\n", path)
		case 2:
			fmt.Fprintf(&sb, "%s.label: \"long label \"\n%s.label.near: %s\n", path, path, rapid.SampledFrom([]string{"outside-top-center", "outside-bottom-center", "outside-right-center"}).Draw(t, "lnv"))
		case 3:
			fmt.Fprintf(&sb, "%s.shape: person\n%s.style.multiple: true\n%s.label: \"long label \"\n", path, path, path)
		case 4:
			fmt.Fprintf(&sb, "%s.style.3d: true\n", path)
		}
	}
	build = func(prefix string, depth int) {
		n := rapid.IntRange(1, 3).Draw(t, "kids")
		if depth == 0 {
			n = rapid.IntRange(2, 4).Draw(t, "roots")
		}
		for i := 0; i < n; i++ {
			id++
			path := fmt.Sprintf("%sn%d", prefix, id)
			if depth < 3 && (depth == 0 && i > 0 || rapid.IntRange(0, 2).Draw(t, "iscont") > 0) && id < 22 {
				decorate(path, true)
				build(path+".", depth+1)
			} else {
				fmt.Fprintf(&sb, "%s\n", path)
				decorate(path, false)
				leaves = append(leaves, path)
			}
		}
	}
	build("", 0)
	if len(leaves) >= 2 {
		ne := rapid.IntRange(2, 7).Draw(t, "nedges")
		for i := 0; i < ne; i++ {
			a := leaves[rapid.IntRange(0, len(leaves)-1).Draw(t, "ea")]
			b := leaves[rapid.IntRange(0, len(leaves)-1).Draw(t, "eb")]
			if a == b {
				continue
			}
			lbl := ""
			if rapid.IntRange(0, 3).Draw(t, "elbl") == 0 {
				lbl = ": edge label"
			}
			fmt.Fprintf(&sb, "%s -> %s%s\n", a, b, lbl)
		}
	}
	return sb.String()
}

func genC25(t *rapid.T) c25Case {
	if gen.Pick(t, "deep", 1, 1) == 1 {
		c := c25Case{Text: genDeepDagre(t), Engine: "dagre", N: rapid.IntRange(3, hx.Pick(6, 12)).Draw(t, "n")}
		if rapid.IntRange(0, 4).Draw(t, "deepelk") == 0 {
			c.Engine = "elk"
		}
		return c
	}
	o := gen.LayoutDiagramOpts()
	d := gen.GenDiagram(t, o)
	text := d.Text()
	extras := []string{"xmd: |md\n  # Title\n  some *text* and `code`\n|\n", "xgo: |go\n  func f() int { return 1 }\n|\n", "xtex: |latex\n  \\frac{a}{b}\n|\n",
		"xcls: {shape: class; +id: int; get(): string}\n", "xtbl: {shape: sql_table; id: int {constraint: primary_key}}\n"}
	for i, e := range extras {
		if rapid.Bool().Draw(t, fmt.Sprintf("extra%d", i)) {
			text += e
		}
	}
	c := c25Case{Text: text, Engine: engineOf(t), N: rapid.IntRange(2, hx.Pick(6, 16)).Draw(t, "n")}
	c.Opts.Sketch = gen.Pick(t, "sketch", 4, 1) == 1
	k := rapid.IntRange(0, 4).Draw(t, "nothers")
	for i := 0; i < k; i++ {
		c.Others = append(c.Others, rapid.IntRange(0, 100).Draw(t, "other"))
	}
	return c
}

func coreC25() []c25Case {
	var out []c25Case
	for i, s := range renderSnippets {
		out = append(out, c25Case{Text: s, Engine: "dagre", N: 4, Others: []int{i + 1, i + 2}})
		out = append(out, c25Case{Text: s, Engine: "elk", N: 3})
		if i < 3 {
			out = append(out, c25Case{Text: s, Engine: "dagre", N: 3, Opts: renderOpts{Sketch: true}})
		}
	}
	return out
}

func TestC25(t *testing.T) {
	hx.Run(t, hx.Spec[c25Case]{Prop: "C25", Core: coreC25, Gen: genC25, Check: checkC25, Timeout: 600 * time.Second})
}
