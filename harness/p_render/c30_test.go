package p_render

import (
	"bytes"
	"encoding/xml"
	"fmt"
	"io"
	"strings"
	"testing"
	"time"

	"oss.terrastruct.com/d2/d2renderers/d2svg"
	"oss.terrastruct.com/d2/d2renderers/d2svg/appendix"
	"pgregory.net/rapid"

	"verif/harness/gen"
	"verif/harness/hx"
	"verif/harness/lay"
)

// C30: rendered SVG is well-formed and user text cannot inject markup.
//
// Every user-controlled string carries a canary with XML metacharacters that would, if it
// were written unescaped, open an element <zqN…> or add an attribute zqaN="1".
type c30Field struct {
	Kind  string `json:"kind"`  // label | tooltip | link | id | class | edge-label | arrowhead-label | icon | column | field | code | gradient | legend | board
	Extra string `json:"extra"` // additional hostile text placed before the canary
	Shape string `json:"shape,omitempty"` // for id / label / container-label: the shape keyword
	Flag  string `json:"flag,omitempty"`  // … and a style flag (3d, multiple, double-border, shadow, …)
}

// decor is the attribute block that gives the object of a field its shape and style flag:
// several renderers build element ids and masks from the object's ID for such shapes.
func (f c30Field) decor() string {
	var parts []string
	if f.Shape != "" {
		parts = append(parts, "shape: "+f.Shape)
	}
	if f.Flag != "" {
		switch f.Flag {
		case "fill-pattern":
			parts = append(parts, "style.fill-pattern: dots")
		case "border-radius":
			parts = append(parts, "style.border-radius: 8")
		case "animated", "stroke-dash":
			parts = append(parts, "style.stroke-dash: 3")
		default:
			parts = append(parts, "style."+f.Flag+": true")
		}
	}
	return strings.Join(parts, "; ")
}

var c30Shapes = []string{"rectangle", "square", "page", "parallelogram", "document", "cylinder", "queue", "package", "step", "callout", "stored_data", "person", "diamond", "oval", "circle", "hexagon", "cloud", "c4-person"}
var c30Flags = []string{"3d", "multiple", "double-border", "shadow", "fill-pattern", "border-radius", "stroke-dash"}

type c30Case struct {
	Fields []c30Field `json:"fields"`
	Engine string     `json:"engine"`
	Opts   renderOpts `json:"opts"`
	Appendix bool     `json:"appendix"`
}

func canary(n int) string {
	return fmt.Sprintf(`"'><zq%d zqa%d="1">&#x3c;]]>&amp;<!--`, n, n)
}

var c30Extras = []string{"", "plain ", "a & b ", "<b>x</b> ", "\\\" ", "' or ''=' ", "\t", "é 日本 ", "]]> ", "--> ", "&lt; &#60; ", "\u0001\u0008 ", "{{}} ", "javascript:alert(1) ", "</text></svg> ", "</style> ", "url(x) ", "\n"}

func (c c30Case) text() string {
	var sb strings.Builder
	var tail strings.Builder
	q := gen.QuoteValue
	for i, f := range c.Fields {
		v := f.Extra + canary(i)
		if f.Kind == "tooltip" || f.Kind == "text-shape" {
			// these are parsed as Markdown by the compiler, which rejects stray tags: use the
			// quote-only canary (attribute injection) and tag-free prefixes
			v = strings.NewReplacer("<", "(", ">", ")", "\u0001", "", "\u0008", "").Replace(f.Extra) + fmt.Sprintf(`"' zqa%d="1" &amp;`, i)
		}
		switch f.Kind {
		case "label":
			fmt.Fprintf(&sb, "o%d: %s {%s}\n", i, q(v), f.decor())
		case "tooltip":
			fmt.Fprintf(&sb, "o%d: {tooltip: %s}\n", i, q(v))
		case "link":
			fmt.Fprintf(&sb, "o%d: {link: %s}\n", i, q("https://example.com/?q="+v))
		case "id":
			fmt.Fprintf(&sb, "%s: plain {%s}\n", q("id"+v), f.decor())
			fmt.Fprintf(&tail, "%s -> o0x\n", q("id"+v))
		case "class":
			fmt.Fprintf(&sb, "o%d: {class: %s}\n", i, q("cls"+strings.ReplaceAll(v, "\n", " ")))
		case "edge-label":
			fmt.Fprintf(&tail, "e%da -> e%db: %s\n", i, i, q(v))
		case "arrowhead-label":
			fmt.Fprintf(&tail, "e%da -> e%db: {source-arrowhead.label: %s; target-arrowhead: {shape: diamond; label: %s}}\n", i, i, q(v), q(v))
		case "icon":
			fmt.Fprintf(&sb, "o%d: {icon: %s}\n", i, q("https://icons.terrastruct.com/"+strings.ReplaceAll(strings.ReplaceAll(v, "\n", ""), " ", "_")+".svg"))
		case "column":
			fmt.Fprintf(&sb, "o%d: {shape: sql_table; %s: %s {constraint: %s}}\n", i, q("c"+strings.ReplaceAll(v, "\n", " ")), q("t"+strings.ReplaceAll(v, "\n", " ")), q("k"+strings.ReplaceAll(v, "\n", " ")))
		case "field":
			fmt.Fprintf(&sb, "o%d: {shape: class; %s: %s}\n", i, q("+f"+strings.ReplaceAll(v, "\n", " ")), q("T"+strings.ReplaceAll(v, "\n", " ")))
		case "code":
			fmt.Fprintf(&sb, "o%d: |||go\n  x := `%s`\n|||\n", i, strings.ReplaceAll(v, "\n", " "))
		case "gradient":
			// a colour stop is "<colour> <position>" split at blanks, a stop with more than two
			// words is dropped: the canary must be free of blanks to reach the output
			nb := func(x string) string {
				return strings.NewReplacer(" ", "", "\n", "", "\t", "", ",", "", "(", "", ")", "").Replace(x)
			}
			gc := nb(f.Extra) + fmt.Sprintf(`"/><zq%d/><z`, i)
			switch i % 3 {
			case 0:
				fmt.Fprintf(&sb, "o%d: {style.fill: %s}\n", i, q("linear-gradient(#000 0%, #fff 10"+gc+")"))
			case 1:
				fmt.Fprintf(&sb, "o%d: {style.fill: %s}\n", i, q("radial-gradient(red"+gc+", blue)"))
			default:
				fmt.Fprintf(&sb, "o%d: {style.stroke: %s}\n", i, q("linear-gradient(to right"+gc+", #000"+gc+" 0%, #fff)"))
			}
		case "legend":
			fmt.Fprintf(&tail, "vars: {d2-legend: {l%d: %s}}\n", i, q(v))
		case "text-shape":
			fmt.Fprintf(&sb, "o%d: %s {shape: text}\n", i, q(v))
		case "container-label":
			fmt.Fprintf(&sb, "o%d: %s {inner%d; %s}\n", i, q(v), i, f.decor())
		}
	}
	sb.WriteString("o0x\n")
	sb.WriteString(tail.String())
	return sb.String()
}

func checkC30(h *hx.H, c c30Case) {
	h.Label("engine:" + c.Engine)
	text := c.text()
	ro := c.Opts.svgOpts()
	d, _, err := lay.Run(text, c.Engine, ro)
	if err != nil {
		// e.g. the gradient with the canary is rejected by colour validation: fine
		h.Reject("does-not-compile-or-layout")
	}
	svg, err := d2svg.Render(d, ro)
	if err != nil {
		h.Failf("render-error", "render failed: %v\n%s", err, text)
	}
	if c.Appendix {
		svg = appendix.Append(d, ro, lay.NewRuler(), svg)
		h.Label("appendix")
	}
	for _, f := range c.Fields {
		h.Label("field:" + f.Kind)
	}
	dec := xml.NewDecoder(bytes.NewReader(svg))
	dec.Strict = true
	dec.Entity = xml.HTMLEntity // markdown output may use named HTML entities such as &nbsp;
	depth := 0
	seenCanary := 0
	for {
		tok, err := dec.Token()
		if err == io.EOF {
			break
		}
		if err != nil {
			off := dec.InputOffset()
			lo := int(off) - 200
			if lo < 0 {
				lo = 0
			}
			hi := int(off) + 60
			if hi > len(svg) {
				hi = len(svg)
			}
			h.Failf(c30sig(c, svg[lo:hi], "not-well-formed"), "the SVG is not well-formed XML: %v\n…%s…\n%s", err, svg[lo:hi], text)
		}
		switch t := tok.(type) {
		case xml.StartElement:
			depth++
			if strings.Contains(strings.ToLower(t.Name.Local), "zq") {
				h.Failf(c30sig(c, nil, "element-injected"), "user text became an element <%s>\n%s", t.Name.Local, text)
			}
			for _, a := range t.Attr {
				if strings.Contains(strings.ToLower(a.Name.Local), "zq") {
					h.Failf(c30sig(c, []byte(t.Name.Local+" "+a.Name.Local), "attribute-injected:"+t.Name.Local), "user text became an attribute %s=%q on <%s>\n%s", a.Name.Local, a.Value, t.Name.Local, text)
				}
				if strings.Contains(a.Value, "zq") {
					seenCanary++
				}
			}
		case xml.EndElement:
			depth--
		case xml.CharData:
			if bytes.Contains(t, []byte("zq")) {
				seenCanary++
			}
		}
	}
	if depth != 0 {
		h.Failf("unbalanced", "unbalanced elements at end of document")
	}
	h.NonTrivial(len(c.Fields) >= 5 && seenCanary >= 3)
}

func c30sig(c c30Case, ctx []byte, base string) string {
	return base
}

var c30Kinds = []string{"label", "tooltip", "link", "id", "class", "edge-label", "arrowhead-label", "icon", "column", "field", "code", "gradient", "legend", "text-shape", "container-label"}

func genC30(t *rapid.T) c30Case {
	c := c30Case{Engine: "dagre"}
	if gen.Pick(t, "elk", 6, 1) == 1 {
		c.Engine = "elk"
	}
	n := rapid.IntRange(3, 9).Draw(t, "nfields")
	hasLegend := false
	for i := 0; i < n; i++ {
		k := rapid.SampledFrom(c30Kinds).Draw(t, "kind")
		if k == "legend" {
			if hasLegend {
				k = "label"
			}
			hasLegend = true
		}
		f := c30Field{Kind: k, Extra: rapid.SampledFrom(c30Extras).Draw(t, "extra")}
		if (k == "id" || k == "label" || k == "container-label") && rapid.Bool().Draw(t, "decorated") {
			f.Shape = rapid.SampledFrom(c30Shapes).Draw(t, "shape")
			if rapid.Bool().Draw(t, "flagged") {
				f.Flag = rapid.SampledFrom(c30Flags).Draw(t, "flag")
			}
		}
		c.Fields = append(c.Fields, f)
	}
	c.Opts.Sketch = gen.Pick(t, "sketch", 6, 1) == 1
	c.Opts.Dark = gen.Pick(t, "dark", 3, 1) == 1
	c.Opts.Pad = int64(rapid.SampledFrom([]int{0, 0, 5, 100, 333}).Draw(t, "pad"))
	c.Opts.Scale = rapid.SampledFrom([]string{"", "", "0.5", "2"}).Draw(t, "scale")
	c.Opts.Center = gen.Pick(t, "center", 3, 1) == 1
	c.Opts.NoXML = gen.Pick(t, "noxml", 3, 1) == 1
	c.Opts.Theme = rapid.SampledFrom([]int64{0, 0, 1, 3, 300, 301}).Draw(t, "theme")
	c.Appendix = gen.Pick(t, "appendix", 2, 1) == 1
	return c
}

func coreC30() []c30Case {
	var out []c30Case
	// each field kind alone and all together, plain options and every option alone
	var all []c30Field
	for _, k := range c30Kinds {
		out = append(out, c30Case{Engine: "dagre", Fields: []c30Field{{Kind: k}, {Kind: "label", Extra: "x "}}})
		all = append(all, c30Field{Kind: k, Extra: "a & b "})
	}
	out = append(out, c30Case{Engine: "dagre", Fields: all}, c30Case{Engine: "elk", Fields: all, Appendix: true})
	for _, o := range []renderOpts{{Sketch: true}, {Dark: true}, {Pad: 7}, {Scale: "2"}, {Center: true}, {NoXML: true}, {Theme: 300}} {
		out = append(out, c30Case{Engine: "dagre", Fields: all, Opts: o, Appendix: true})
	}
	// every shape with every style flag (and none), the hostile text in the object's ID, its
	// label and a container's label; plain and sketch
	for si, sh := range c30Shapes {
		for fi, fl := range append([]string{""}, c30Flags...) {
			cs := c30Case{Engine: "dagre", Fields: []c30Field{{Kind: "id", Extra: "a.b ", Shape: sh, Flag: fl}, {Kind: "label", Extra: "a & b ", Shape: sh, Flag: fl}, {Kind: "container-label", Extra: "", Shape: sh, Flag: fl}}}
			cs.Opts.Sketch = (si+fi)%2 == 1
			out = append(out, cs)
			if fl == "3d" || fl == "multiple" {
				cs2 := cs
				cs2.Opts.Sketch = !cs.Opts.Sketch
				out = append(out, cs2)
			}
		}
	}
	for _, e := range c30Extras {
		out = append(out, c30Case{Engine: "dagre", Fields: []c30Field{{Kind: "label", Extra: e}, {Kind: "tooltip", Extra: e}, {Kind: "edge-label", Extra: e}, {Kind: "id", Extra: e}, {Kind: "class", Extra: e}}, Appendix: true})
	}
	return out
}

func TestC30(t *testing.T) {
	hx.Run(t, hx.Spec[c30Case]{Prop: "C30", Core: coreC30, Gen: genC30, Check: checkC30, Timeout: 600 * time.Second})
}
