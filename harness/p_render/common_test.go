package p_render

import (
	"fmt"
	"strings"

	"oss.terrastruct.com/d2/d2renderers/d2svg"
	"pgregory.net/rapid"

	"verif/harness/gen"
	"verif/harness/lay"
)

type renderOpts struct {
	Sketch   bool   `json:"sketch,omitempty"`
	Dark     bool   `json:"dark,omitempty"`
	Pad      int64  `json:"pad,omitempty"`
	Scale    string `json:"scale,omitempty"` // "" | "0.5" | "2"
	Center   bool   `json:"center,omitempty"`
	NoXML    bool   `json:"no_xml,omitempty"`
	Theme    int64  `json:"theme,omitempty"`
}

func (o renderOpts) svgOpts() *d2svg.RenderOpts {
	ro := &d2svg.RenderOpts{}
	if o.Sketch {
		t := true
		ro.Sketch = &t
	}
	if o.Dark {
		d := int64(200)
		ro.DarkThemeID = &d
	}
	if o.Pad != 0 {
		p := o.Pad
		ro.Pad = &p
	}
	switch o.Scale {
	case "0.5":
		s := 0.5
		ro.Scale = &s
	case "2":
		s := 2.0
		ro.Scale = &s
	}
	if o.Center {
		c := true
		ro.Center = &c
	}
	if o.NoXML {
		n := true
		ro.NoXMLTag = &n
	}
	th := o.Theme
	ro.ThemeID = &th
	return ro
}

// renderAll compiles, lays out and renders text; returns the SVG of the root board.
func renderAll(text, engine string, o renderOpts) ([]byte, error) {
	ro := o.svgOpts()
	d, _, err := lay.Run(text, engine, ro)
	if err != nil {
		return nil, err
	}
	return d2svg.Render(d, ro)
}

func engineOf(t *rapid.T) string {
	if gen.Pick(t, "engine", 3, 1) == 1 {
		return "elk"
	}
	return "dagre"
}

func firstDiff(a, b []byte) string {
	i := 0
	for i < len(a) && i < len(b) && a[i] == b[i] {
		i++
	}
	lo := i - 100
	if lo < 0 {
		lo = 0
	}
	ha, hb := i+150, i+150
	if ha > len(a) {
		ha = len(a)
	}
	if hb > len(b) {
		hb = len(b)
	}
	return fmt.Sprintf("at byte %d (lengths %d / %d):\n  A: …%s\n  B: …%s", i, len(a), len(b), a[lo:ha], b[lo:hb])
}

var renderSnippets = []string{
	"a -> b: hello\nb -> c\nc: {d; e -> f: {style.stroke: red}}",
	"a: |md # Title\n\nsome *markdown* **bold** `code`\n- item |\nb: |go\nfunc main() {\n  fmt.Println(1)\n}\n|\nc: |latex \\frac{a}{b} + \\sum_i x_i |\na -> b -> c",
	"t: {shape: sql_table; id: int {constraint: primary_key}; name: varchar}\nc: {shape: class; +f(): int; -x: string}\nt.id -> c",
	"s: {shape: sequence_diagram; a; b; a -> b: hi; b -> a: yo; a.x -> b.y}\ng: {grid-rows: 2; p; q; r}\ns -> g",
	"a: {style.multiple: true; style.fill-pattern: dots}\nb: {style.3d: true; style.shadow: true}\nc: {shape: cloud; style.fill: \"linear-gradient(#000, #fff)\"}\na -> b -> c: lbl {style.animated: true}",
	"x: {tooltip: a tip; link: https://example.com}\ny: {icon: https://icons.terrastruct.com/essentials/004-picture.svg}\nx -> y: {source-arrowhead: {shape: diamond; label: 1}; target-arrowhead.label: N}",
	"vars: {d2-legend: {a: {style.fill: red}; b; a -> b: calls}}\nm -> n",
}

var _ = strings.Contains
