package p_semantics

import (
	"fmt"
	"strings"
	"testing"
	"time"

	"pgregory.net/rapid"

	"verif/harness/gen"
	"verif/harness/hx"
)

// C11: parallel connections are indexed consecutively; indexed references hit one.
type c11Case struct {
	Prog Program `json:"prog"`
}

func checkC11(h *hx.H, c c11Case) {
	text := c.Prog.Print()
	b := newBoard()
	deletedIn := map[string]bool{} // group -> an indexed deletion happened
	afterDeletionOps := 0            // indexed references / declarations in a group after a deletion in it
	grayRef := false
	maxGroup, refs := 0, 0
	for _, s := range c.Prog.Stmts {
		if s.Kind == "null" {
			sc := b.lookup(b.Root, s.Scope)
			if sc == nil || b.lookup(sc, s.Path) == nil {
				h.Reject("null-on-missing-object")
			}
			if len(s.Path) > 0 && s.Path[len(s.Path)-1] == "zz_inner" {
				h.Reject("null-on-connection-host")
			}
		}
		if s.Kind == "conn" && s.Under && len(s.Scope) > 0 && !s.Abs {
			b.ensure(b.ensure(b.Root, s.Scope), []string{"zz_inner"})
		}
		gk := ""
		if s.Kind == "conn" || s.Kind == "connref" {
			gk = foldPath(append(append([]string{}, s.Scope...), s.Src...)) + s.Arrow + foldPath(append(append([]string{}, s.Scope...), s.Dst...))
		}
		if s.Kind == "connref" && s.Key == "" && s.Value == nil && len(s.ScopeAlt) > 0 {
			h.Label("deletion-ref-spells-shared-container-two-ways")
		}
		if s.Kind == "connref" {
			refs++
			if deletedIn[gk] {
				// numbering after a deletion is not fixed by the statement: only "exactly one"
				grayRef = true
				if s.Key == "" && s.Value == nil {
					afterDeletionOps++ // a second deletion: which connection it hits depends on the numbering
				}
			}
			if s.Key == "" && s.Value == nil {
				deletedIn[gk] = true
			}
		}
		if s.Kind == "conn" && deletedIn[gk] {
			grayRef = true
		}
		b.Apply(s)
	}
	for _, e := range b.Edges {
		if n := len(b.group(e.Src, e.Dst, e.SrcArrow, e.DstArrow)); n > maxGroup {
			maxGroup = n
		}
	}
	g, err := compileText(text)
	if len(b.Errors) > 0 && !grayRef {
		if err == nil {
			onlyNull := true
			for _, e := range b.Errors {
				if e != "missing-index-null" {
					onlyNull = false
				}
			}
			if onlyNull {
				h.Failf("missing-index-accepted:null", "`(a -> b)[i]: null` with an index that does not exist compiles (and deletes nothing)\n%s", text)
			}
			h.Failf("missing-index-accepted", "a reference to a connection index that does not exist compiles\n%s", text)
		}
		if !strings.Contains(err.Error(), "index") && !strings.Contains(err.Error(), "not found") {
			h.Gray()
		}
		h.Label("expected_error")
		h.NonTrivial(refs > 0)
		return
	}
	if err != nil {
		if grayRef {
			h.Gray()
			return
		}
		h.Failf("unexpected-error", "the program should compile: %v\n%s", err, text)
	}
	// (1) per group the indices are exactly 0..k-1 in order, and all IDs are unique
	groups := map[string][]int{}
	ids := map[string]bool{}
	for _, e := range g.Edges {
		k := fmt.Sprintf("%s|%v|%v|%s", e.Src.AbsID(), e.SrcArrow, e.DstArrow, e.Dst.AbsID())
		groups[k] = append(groups[k], e.Index)
		if ids[e.AbsID()] {
			sig := "duplicate-connection-id"
			if len(deletedIn) > 0 {
				sig = "duplicate-connection-id:after-indexed-deletion"
			}
			h.FailSoft(sig, "two connections share the ID %s\n%s", e.AbsID(), text)
		}
		ids[e.AbsID()] = true
	}
	for k, idx := range groups {
		for i, v := range idx {
			if v != i {
				sig := "indices-not-consecutive"
				if len(deletedIn) > 0 {
					sig = "indices-not-consecutive:after-indexed-deletion"
				}
				h.FailSoft(sig, "connections %s are numbered %v instead of 0..%d\n%s", k, idx, len(idx)-1, text)
				break
			}
		}
	}
	// (1b) a value written through an indexed reference is unique in the program (markerN /
	// #0000NN), so it must sit on at most one connection, whatever the numbering convention
	seenMarker := map[string]string{}
	for _, e := range g.Edges {
		var vals []string
		if strings.HasPrefix(e.Label.Value, "marker") {
			vals = append(vals, e.Label.Value)
		}
		if e.Style.Stroke != nil && strings.HasPrefix(e.Style.Stroke.Value, "#0000") {
			vals = append(vals, e.Style.Stroke.Value)
		}
		for _, v := range vals {
			if prev, dup := seenMarker[v]; dup {
				sig := "marker-on-several-connections"
				if len(deletedIn) > 0 {
					sig = "marker-on-several-connections:after-indexed-deletion"
				}
				h.FailSoft(sig, "the value %q written through one indexed reference sits on both %s and %s\n%s", v, prev, e.AbsID(), text)
			}
			seenMarker[v] = e.AbsID()
		}
	}
	// (2) the reference: same connections with the same indices, labels and attributes
	if !grayRef {
		wo, we := b.Flat()
		gobjs, gedges := graphFlat(g)
		compareObjects(h, wo, gobjs, text)
		compareEdges(h, we, gedges, true, text)
	} else {
		h.Gray()
		// still: the number of connections is what the reference says
		_, we := b.Flat()
		if afterDeletionOps == 0 && len(we) != len(g.Edges) {
			h.FailSoft("connection-count:after-indexed-deletion", "the reference has %d connections, compiled %d\n%s", len(we), len(g.Edges), text)
		}
	}
	h.NonTrivial(maxGroup >= 3 && refs >= 1)
}

func genC11(t *rapid.T) c11Case {
	// few names so that groups grow; many connections and indexed references
	g := &progGen{t: t}
	var prog Program
	names := []string{"a", "b", "A", "x"}
	n := rapid.IntRange(3, hx.Pick(14, 30)).Draw(t, "n")
	var conns []Stmt
	for i := 0; i < n; i++ {
		switch gen.Pick(t, "k", 6, 4, 1, 1) {
		case 0:
			s := Stmt{Kind: "conn", Arrow: rapid.SampledFrom([]string{"->", "->", "->", "<-", "--", "<->"}).Draw(t, "arrow")}
			a, b := rapid.SampledFrom(names).Draw(t, "s"), rapid.SampledFrom(names).Draw(t, "d")
			switch gen.Pick(t, "form", 3, 2, 2, 1) {
			case 0:
				s.Src, s.Dst = []string{a}, []string{b}
			case 1:
				s.Scope, s.Src, s.Dst = []string{"box"}, []string{a}, []string{b}
			case 2:
				s.Scope, s.Src, s.Dst, s.Abs = []string{"box"}, []string{a}, []string{b}, true
				if gen.Pick(t, "altscope_c", 3, 1) == 1 {
					s.ScopeAlt = []string{rapid.SampledFrom([]string{"BOX", "Box"}).Draw(t, "altc")}
				}
			default:
				s.Scope, s.Src, s.Dst, s.Under = []string{"box"}, []string{a}, []string{b}, true
			}
			if rapid.Bool().Draw(t, "l") {
				s.Value = strp(fmt.Sprintf("m%d", i))
			}
			prog.Stmts = append(prog.Stmts, s)
			conns = append(conns, s)
		case 1:
			if len(conns) == 0 {
				continue
			}
			c := conns[rapid.IntRange(0, len(conns)-1).Draw(t, "ci")]
			s := Stmt{Kind: "connref", Scope: c.Scope, Src: c.Src, Dst: c.Dst, Arrow: c.Arrow, Abs: c.Abs || c.Under, Index: rapid.IntRange(0, 4).Draw(t, "idx")}
			if s.Abs && len(s.Scope) == 1 && gen.Pick(t, "altscope", 2, 1) == 1 {
				// names are case-insensitive: the two ends may spell the shared container differently
				s.ScopeAlt = []string{rapid.SampledFrom([]string{"BOX", "Box", "bOx"}).Draw(t, "alt")}
			}
			switch gen.Pick(t, "rk", 3, 3, 1) {
			case 0:
				s.Key, s.Value = "style.stroke", strp(fmt.Sprintf("#0000%02x", i))
			case 1:
				s.Key, s.Value = "label", strp(fmt.Sprintf("marker%d", i))
			default:
			}
			prog.Stmts = append(prog.Stmts, s)
		case 2:
			prog.Stmts = append(prog.Stmts, Stmt{Kind: "obj", Path: []string{rapid.SampledFrom(names).Draw(t, "on")}})
		default:
			_ = g
			prog.Stmts = append(prog.Stmts, Stmt{Kind: "obj", Path: []string{"box", rapid.SampledFrom(names).Draw(t, "bn")}})
		}
	}
	return c11Case{Prog: prog}
}

func coreC11() []c11Case {
	conn := func(l string) Stmt { return Stmt{Kind: "conn", Src: []string{"a"}, Dst: []string{"b"}, Arrow: "->", Value: strp(l)} }
	ref := func(i int, key string, v *string) Stmt {
		return Stmt{Kind: "connref", Src: []string{"a"}, Dst: []string{"b"}, Arrow: "->", Index: i, Key: key, Value: v}
	}
	return []c11Case{
		{Prog: Program{Stmts: []Stmt{conn("one"), conn("two"), conn("three"), ref(1, "style.stroke", strp("red")), ref(2, "label", strp("m"))}}},
		{Prog: Program{Stmts: []Stmt{conn("one"), conn("two"), ref(0, "", nil), conn("three"), ref(1, "style.stroke", strp("#0000aa"))}}},
		{Prog: Program{Stmts: []Stmt{conn("one"), ref(1, "style.stroke", strp("red"))}}},
		{Prog: Program{Stmts: []Stmt{conn("one"), {Kind: "conn", Src: []string{"a"}, Dst: []string{"b"}, Arrow: "<-"}, {Kind: "conn", Src: []string{"b"}, Dst: []string{"a"}, Arrow: "->"}, {Kind: "conn", Src: []string{"A"}, Dst: []string{"B"}, Arrow: "->"}, ref(1, "label", strp("second"))}}},
		{Prog: Program{Stmts: []Stmt{{Kind: "conn", Scope: []string{"box"}, Src: []string{"a"}, Dst: []string{"b"}, Arrow: "->"}, {Kind: "conn", Scope: []string{"box"}, Src: []string{"a"}, Dst: []string{"b"}, Arrow: "->", Abs: true}, {Kind: "conn", Scope: []string{"box"}, Src: []string{"a"}, Dst: []string{"b"}, Arrow: "->", Under: true},
			{Kind: "connref", Scope: []string{"box"}, Src: []string{"a"}, Dst: []string{"b"}, Arrow: "->", Index: 2, Key: "label", Value: strp("third")}, {Kind: "connref", Scope: []string{"box"}, Src: []string{"a"}, Dst: []string{"b"}, Arrow: "->", Abs: true, Index: 0, Key: "style.stroke", Value: strp("red")}}}},
	}
}

func TestC11(t *testing.T) {
	hx.Run(t, hx.Spec[c11Case]{Prop: "C11", Core: coreC11, Gen: genC11, Check: checkC11, Timeout: 30 * time.Second})
}
