package p_semantics

import (
	"bytes"
	"fmt"
	"sort"
	"strings"
	"testing"
	"time"

	"oss.terrastruct.com/d2/d2compiler"
	"oss.terrastruct.com/d2/d2graph"
	"oss.terrastruct.com/d2/lib/memfs"
	"pgregory.net/rapid"

	"verif/harness/canon"
	"verif/harness/gen"
	"verif/harness/hx"
)

// C14: imports behave like inlining, and import cycles are always reported.
type c14File struct {
	Lines   []string `json:"lines"`   // own statements (one per line, no imports)
	Imports []c14Imp `json:"imports"` // imports performed by this file
}

type c14Imp struct {
	Kind   string `json:"kind"`   // spread (at the top of the file) | value (k: @f) | key (k: @f.sub)
	File   string `json:"file"`   // target file name without .d2, relative to the root of the file set
	Spell  string `json:"spell"`  // how the path is written: plain | ext | quoted | dotslash
	Target string `json:"target"` // value/key imports: the key receiving the import
	Sub    string `json:"sub"`    // key imports: key inside the imported file
}

type c14Case struct {
	Kind  string             `json:"kind"` // twin | cycle | globs
	Files map[string]c14File `json:"files"`
	Cycle bool               `json:"cycle"`
}

func relPath(fromFile, toFile string) string {
	// both relative to the set's root; files live in "" or "sub/"
	fromDir, toDir := "", ""
	if i := strings.LastIndex(fromFile, "/"); i >= 0 {
		fromDir = fromFile[:i+1]
	}
	if i := strings.LastIndex(toFile, "/"); i >= 0 {
		toDir = toFile[:i+1]
	}
	base := toFile[len(toDir):]
	switch {
	case fromDir == toDir:
		return base
	case fromDir == "":
		return toDir + base
	default: // from sub/ to root
		return "../" + base
	}
}

func (im c14Imp) ref(fromFile string) string {
	p := relPath(fromFile, im.File)
	switch im.Spell {
	case "ext":
		p += ".d2"
	case "quoted":
		p = "\"" + p + "\""
	case "dotslash":
		if !strings.HasPrefix(p, "../") {
			p = "./" + p
		}
	}
	if im.Kind == "key" {
		p += "." + im.Sub
	}
	return "@" + p
}

func (c c14Case) fileText(name string) string {
	f := c.Files[name]
	var sb strings.Builder
	for _, im := range f.Imports {
		if im.Kind == "spread" {
			sb.WriteString("..." + im.ref(name) + "\n")
		}
	}
	for _, l := range f.Lines {
		sb.WriteString(l + "\n")
	}
	for _, im := range f.Imports {
		if im.Kind != "spread" {
			sb.WriteString(im.Target + ": " + im.ref(name) + "\n")
		}
	}
	return sb.String()
}

// inline returns the text of file name with every import replaced by the imported content.
func (c c14Case) inline(name string, depth int) string {
	if depth > 6 {
		return ""
	}
	f := c.Files[name]
	var sb strings.Builder
	dir := ""
	if i := strings.LastIndex(name, "/"); i >= 0 {
		dir = name[:i+1]
	}
	rebase := func(s string) string {
		// relative icons of an imported file are resolved against its directory
		if depth > 0 {
			s = strings.ReplaceAll(s, "icon: ./", "icon: "+dir)
		}
		return s
	}
	for _, im := range f.Imports {
		if im.Kind == "spread" {
			sb.WriteString(c.inline(im.File, depth+1))
		}
	}
	for _, l := range f.Lines {
		sb.WriteString(rebase(l) + "\n")
	}
	for _, im := range f.Imports {
		switch im.Kind {
		case "value":
			sb.WriteString(im.Target + ": {\n" + indentAll(c.inline(im.File, depth+1)) + "}\n")
		case "key":
			// only the named key of the imported file: its map content lands on the target
			body := c.keyBody(im.File, im.Sub, depth+1)
			sb.WriteString(im.Target + ": {\n" + indentAll(body) + "}\n")
		}
	}
	return sb.String()
}

// keyBody extracts the content declared for key `sub` in the file (generated files declare
// it as a one-line map `sub: {…}` or flat `sub.x…` lines).
func (c c14Case) keyBody(name, sub string, depth int) string {
	var sb strings.Builder
	for _, l := range strings.Split(c.inline(name, depth), "\n") {
		t := l // top-level statements only: nested (indented) content belongs to other keys
		if strings.HasPrefix(t, sub+".") {
			t = strings.TrimPrefix(t, sub+".")
			t = strings.ReplaceAll(t, "-> "+sub+".", "-> ")
			sb.WriteString(t + "\n")
		}
	}
	return sb.String()
}

func indentAll(s string) string {
	var sb strings.Builder
	for _, l := range strings.Split(strings.TrimRight(s, "\n"), "\n") {
		if l != "" {
			sb.WriteString("  " + l + "\n")
		}
	}
	return sb.String()
}

func compileSet(files map[string]string) (*d2graph.Graph, error) {
	m := map[string]string{}
	for k, v := range files {
		m[k+".d2"] = v
	}
	fs, _ := memfs.New(m)
	g, _, err := d2compiler.Compile("index.d2", bytes.NewReader([]byte(files["index"])), &d2compiler.CompileOptions{FS: fs})
	return g, err
}

func checkC14(h *hx.H, c c14Case) {
	h.Label("kind:" + c.Kind)
	files := map[string]string{}
	var names []string
	for n := range c.Files {
		names = append(names, n)
	}
	sort.Strings(names)
	nimports, nested := 0, false
	for _, n := range names {
		files[n] = c.fileText(n)
		nimports += len(c.Files[n].Imports)
		if n != "index" && len(c.Files[n].Imports) > 0 {
			nested = true
		}
	}
	dump := func() string {
		var sb strings.Builder
		for _, n := range names {
			sb.WriteString("--- " + n + ".d2\n" + files[n])
		}
		return sb.String()
	}
	g, err := compileSet(files)
	switch c.Kind {
	case "cycle":
		if c.Cycle {
			if err == nil {
				h.Failf("cycle-not-reported", "a cyclic import chain compiles without error\n%s", dump())
			}
			if !strings.Contains(err.Error(), "cycl") {
				h.Failf("cycle-other-error", "a cyclic import chain is rejected, but not as a cycle: %v\n%s", err, dump())
			}
		} else {
			if err != nil && strings.Contains(err.Error(), "cycl") {
				h.Failf("false-cycle", "an acyclic import graph is rejected as cyclic: %v\n%s", err, dump())
			}
		}
		h.NonTrivial(len(names) >= 2)
		return
	case "globs":
		if err != nil {
			h.Failf("unexpected-error", "the file set should compile: %v\n%s", err, dump())
		}
		// files: index has `mine` (+ connections, a container, a layer), x has `theirs`, a
		// connection and globs over objects and/or connections; imported by spread at the top
		fieldTriple := strings.Contains(files["x"], "***.style.fill")
		edgeTriple := strings.Contains(files["x"], "(*** -> ***)")
		fieldAny := strings.Contains(files["x"], ".style.fill")
		edgeAny := strings.Contains(files["x"], "[*].style.stroke")
		var walk func(gr *d2graph.Graph, board string)
		walk = func(gr *d2graph.Graph, board string) {
			for _, o := range gr.Objects {
				fill := ""
				if o.Style.Fill != nil {
					fill = o.Style.Fill.Value
				}
				switch o.ID {
				case "theirs", "t2":
					if fieldAny && fill != "red" && board == "" {
						h.Failf("glob-not-applied-in-own-file", "the imported file's glob does not apply to its own object %s\n%s", o.ID, dump())
					}
				default:
					if fieldTriple && fill != "red" {
						h.Failf("triple-glob-does-not-reach-importer", "a *** glob of the imported file does not reach the importing file's object %s%s\n%s", board, o.AbsID(), dump())
					}
					if !fieldTriple && fill == "red" {
						h.Failf("glob-leaks-into-importer", "a */** glob of the imported file reaches the importing file's object %s%s\n%s", board, o.AbsID(), dump())
					}
				}
			}
			for _, e := range gr.Edges {
				stroke := ""
				if e.Style.Stroke != nil {
					stroke = e.Style.Stroke.Value
				}
				if e.Src.ID == "theirs" {
					if edgeAny && stroke != "red" && board == "" {
						h.Failf("glob-not-applied-in-own-file", "the imported file's connection glob does not apply to its own connection\n%s", dump())
					}
					continue
				}
				if edgeTriple && stroke != "red" {
					h.Failf("triple-glob-does-not-reach-importer", "a *** connection glob of the imported file does not reach the importing file's connection %s%s\n%s", board, e.AbsID(), dump())
				}
				if !edgeTriple && stroke == "red" {
					h.Failf("glob-leaks-into-importer", "a */** connection glob of the imported file reaches the importing file's connection %s%s\n%s", board, e.AbsID(), dump())
				}
			}
			for _, l := range gr.Layers {
				walk(l, board+"layers."+l.Name+": ")
			}
		}
		walk(g, "")
		h.NonTrivial(true)
		return
	}
	if err != nil {
		h.Failf("unexpected-error", "the file set should compile: %v\n%s", err, dump())
	}
	twin := c.inline("index", 0)
	g2, err := compileSet(map[string]string{"index": twin})
	if err != nil {
		h.Reject("twin-does-not-compile")
	}
	if d := canon.Diff(canon.Of(g).Sorted(), canon.Of(g2).Sorted()); d != "" {
		sig := "import-differs-from-inlining"
		// the same connection declared in two files of the set: imports merge it into one
		// connection (same index), writing the content in place declares it twice
		connLines := map[string]int{}
		for _, n := range names {
			seen := map[string]bool{}
			for _, l := range c.Files[n].Lines {
				if strings.Contains(l, "->") && !seen[l] {
					seen[l] = true
					connLines[l]++
				}
			}
		}
		refs := map[string]int{}
		for _, n := range names {
			for _, im := range c.Files[n].Imports {
				refs[im.File]++
			}
		}
		for _, n := range names {
			for _, l := range c.Files[n].Lines {
				if strings.Contains(l, "->") && refs[n] >= 2 {
					sig = "import-differs-from-inlining:same-connection-in-two-files" // the same file reached through two imports
				}
			}
		}
		for _, k := range connLines {
			if k >= 2 {
				sig = "import-differs-from-inlining:same-connection-in-two-files"
			}
		}
		// a relative icon that came from one import is rebased again by a later spread
		// import from another directory
		iconOutsideSub, spreadFromSub := false, false
		for _, n := range names {
			for _, l := range c.Files[n].Lines {
				if strings.Contains(l, "icon: ./") {
					iconOutsideSub = true // any relative icon present before the spread import runs
				}
			}
			for _, im := range c.Files[n].Imports {
				if im.Kind == "spread" && strings.HasPrefix(im.File, "sub/") {
					spreadFromSub = true
				}
			}
		}
		if sig == "import-differs-from-inlining" && iconOutsideSub && spreadFromSub && strings.Contains(d, "img.png") {
			sig = "import-differs-from-inlining:icon-rebased-by-other-import"
		}
		h.Failf(sig, "the file set and the single file with the imports inlined compile differently: %s\n%s--- inlined\n%s", d, dump(), twin)
	}
	h.NonTrivial(len(names) >= 2 && (nested || nimports >= 2))
}

var c14Lines = []string{"a", "b: label B", "a -> b: edge", "c.d", "c.style.fill: blue", "e: {shape: circle}", "c.d -> a", "f: {g: {h}}", "style.stroke: green", "label: file label", "b.style.opacity: 0.5", "n.icon: ./img.png", "k.m: {q}", "k.style.fill: orange", "k.r -> k.m"}

func genC14(t *rapid.T) c14Case {
	switch gen.Pick(t, "kind", 6, 3, 1) {
	case 1:
		return genC14Cycle(t)
	case 2:
		xl := []string{"theirs", "theirs -> t2"}
		gl := func(label string) string { return rapid.SampledFrom([]string{"*", "**", "***"}).Draw(t, label) }
		switch gen.Pick(t, "globforms", 2, 2, 2) {
		case 0:
			xl = append(xl, gl("fg")+".style.fill: red")
		case 1:
			g := gl("eg")
			xl = append(xl, "("+g+" -> "+g+")[*].style.stroke: red")
		default:
			g := gl("eg")
			xl = append(xl, gl("fg")+".style.fill: red", "("+g+" -> "+g+")[*].style.stroke: red")
		}
		if rapid.Bool().Draw(t, "globfirst") {
			xl = append(xl[2:], xl[:2]...)
		}
		idx := c14File{Lines: []string{"mine"}, Imports: []c14Imp{{Kind: "spread", File: "x", Spell: "plain"}}}
		for _, l := range []string{"late", "mine -> late", "box: {in1 -> in2}", "layers: {l: {f -> g}}"} {
			if rapid.Bool().Draw(t, "idxline") {
				idx.Lines = append(idx.Lines, l)
			}
		}
		return c14Case{Kind: "globs", Files: map[string]c14File{"index": idx, "x": {Lines: xl}}}
	}
	c := c14Case{Kind: "twin", Files: map[string]c14File{}}
	all := []string{"x", "y", "sub/z"}
	n := rapid.IntRange(1, 3).Draw(t, "nfiles")
	names := all[:n]
	lines := func(label string) []string {
		k := rapid.IntRange(1, 5).Draw(t, label)
		var out []string
		seen := map[string]bool{}
		for i := 0; i < k; i++ {
			l := rapid.SampledFrom(c14Lines).Draw(t, label+"l")
			if !seen[l] {
				seen[l] = true
				out = append(out, l)
			}
		}
		return out
	}
	// imported files may import files later in the list (acyclic)
	for i := len(names) - 1; i >= 0; i-- {
		f := c14File{Lines: lines("fl")}
		for j := i + 1; j < len(names); j++ {
			if gen.Pick(t, "nestimp", 2, 1) == 1 {
				f.Imports = append(f.Imports, c14Imp{Kind: "value", File: names[j], Spell: rapid.SampledFrom([]string{"plain", "ext", "quoted", "dotslash"}).Draw(t, "sp"), Target: fmt.Sprintf("imp%d", j)})
			}
		}
		c.Files[names[i]] = f
	}
	idx := c14File{Lines: lines("il")}
	for j, nm := range names {
		switch gen.Pick(t, "impkind", 3, 3, 1, 2) {
		case 0:
			idx.Imports = append(idx.Imports, c14Imp{Kind: "spread", File: nm, Spell: rapid.SampledFrom([]string{"plain", "ext", "quoted", "dotslash"}).Draw(t, "sp2")})
		case 1:
			idx.Imports = append(idx.Imports, c14Imp{Kind: "value", File: nm, Spell: rapid.SampledFrom([]string{"plain", "ext", "quoted", "dotslash"}).Draw(t, "sp3"), Target: fmt.Sprintf("box%d", j)})
		case 2:
			// key import needs the key to exist in the file
			f := c.Files[nm]
			f.Lines = append(f.Lines, "k.m: {q}")
			c.Files[nm] = f
			idx.Imports = append(idx.Imports, c14Imp{Kind: "key", File: nm, Spell: "plain", Target: fmt.Sprintf("key%d", j), Sub: "k"})
		}
	}
	c.Files["index"] = idx
	return c
}

func genC14Cycle(t *rapid.T) c14Case {
	c := c14Case{Kind: "cycle", Files: map[string]c14File{}}
	names := []string{"index", "x", "y", "sub/z"}
	n := rapid.IntRange(1, 4).Draw(t, "n")
	names = names[:n]
	c.Cycle = rapid.Bool().Draw(t, "cyclic")
	spell := func() string { return rapid.SampledFrom([]string{"plain", "ext", "quoted", "dotslash"}).Draw(t, "cs") }
	kind := func() string { return rapid.SampledFrom([]string{"spread", "value"}).Draw(t, "ck") }
	// chain index -> x -> y -> z
	for i, nm := range names {
		f := c14File{Lines: []string{fmt.Sprintf("o%d", i)}}
		if i+1 < len(names) {
			f.Imports = append(f.Imports, c14Imp{Kind: kind(), File: names[i+1], Spell: spell(), Target: fmt.Sprintf("t%d", i)})
		}
		c.Files[nm] = f
	}
	if c.Cycle {
		// close the chain from the last file back to some earlier file (possibly itself)
		back := rapid.IntRange(0, n-1).Draw(t, "back")
		last := names[n-1]
		f := c.Files[last]
		f.Imports = append(f.Imports, c14Imp{Kind: kind(), File: names[back], Spell: spell(), Target: "back"})
		c.Files[last] = f
	} else if n >= 3 && rapid.Bool().Draw(t, "diamond") {
		// diamond: index also imports the last file directly (shared, not cyclic)
		f := c.Files["index"]
		f.Imports = append(f.Imports, c14Imp{Kind: "value", File: names[n-1], Spell: spell(), Target: "direct"})
		c.Files["index"] = f
	}
	return c
}

func coreC14() []c14Case {
	var out []c14Case
	for _, sp := range []string{"plain", "ext", "quoted", "dotslash"} {
		out = append(out,
			c14Case{Kind: "twin", Files: map[string]c14File{"index": {Lines: []string{"own", "own -> a"}, Imports: []c14Imp{{Kind: "spread", File: "x", Spell: sp}, {Kind: "value", File: "sub/z", Spell: sp, Target: "box"}}},
				"x": {Lines: []string{"a", "b: label B", "a -> b: edge"}}, "sub/z": {Lines: []string{"c.d", "n.icon: ./img.png", "label: file label", "style.stroke: green"}, Imports: []c14Imp{{Kind: "value", File: "x", Spell: sp, Target: "inner"}}}}},
			c14Case{Kind: "cycle", Cycle: true, Files: map[string]c14File{"index": {Lines: []string{"a"}, Imports: []c14Imp{{Kind: "value", File: "index", Spell: sp, Target: "self"}}}}},
			c14Case{Kind: "cycle", Cycle: true, Files: map[string]c14File{"index": {Imports: []c14Imp{{Kind: "spread", File: "x", Spell: sp}}}, "x": {Imports: []c14Imp{{Kind: "value", File: "sub/z", Spell: sp, Target: "t"}}}, "sub/z": {Imports: []c14Imp{{Kind: "spread", File: "index", Spell: sp}}}}},
		)
	}
	out = append(out,
		c14Case{Kind: "twin", Files: map[string]c14File{"index": {Lines: []string{"topobj"}, Imports: []c14Imp{{Kind: "key", File: "x", Spell: "plain", Target: "only", Sub: "k"}}}, "x": {Lines: []string{"k.m: {q}", "k.style.fill: orange", "other", "k.r -> k.m"}}}},
		c14Case{Kind: "globs", Files: map[string]c14File{"index": {Lines: []string{"mine", "late"}, Imports: []c14Imp{{Kind: "spread", File: "x", Spell: "plain"}}}, "x": {Lines: []string{"theirs", "*.style.fill: red"}}}},
		c14Case{Kind: "globs", Files: map[string]c14File{"index": {Lines: []string{"mine", "late"}, Imports: []c14Imp{{Kind: "spread", File: "x", Spell: "plain"}}}, "x": {Lines: []string{"theirs", "***.style.fill: red"}}}},
		c14Case{Kind: "cycle", Cycle: false, Files: map[string]c14File{"index": {Imports: []c14Imp{{Kind: "value", File: "x", Spell: "plain", Target: "p"}, {Kind: "value", File: "y", Spell: "plain", Target: "q"}}}, "x": {Imports: []c14Imp{{Kind: "value", File: "sub/z", Spell: "plain", Target: "r"}}}, "y": {Imports: []c14Imp{{Kind: "value", File: "sub/z", Spell: "ext", Target: "s"}}}, "sub/z": {Lines: []string{"leaf"}}}},
	)
	return out
}

func TestC14(t *testing.T) {
	hx.Run(t, hx.Spec[c14Case]{Prop: "C14", Core: coreC14, Gen: genC14, Check: checkC14, Timeout: 30 * time.Second})
}
