package p_semantics

import (
	"fmt"
	"strings"
	"testing"
	"time"

	"pgregory.net/rapid"

	"verif/harness/canon"
	"verif/harness/gen"
	"verif/harness/hx"
)

// C13: variable substitution equals textual replacement from the innermost scope.
//
// Metamorphic twin: the generator prints P (with ${v} uses) and P' (each use replaced by the
// value found in the innermost enclosing vars block that defines v); both must compile to
// the same diagram.
type c13Use struct {
	Kind string `json:"kind"` // alone | unquoted | dq | sq | edge | fill | width | twice | pair | pairdq | array
	Var  string `json:"var"`
	Var2 string `json:"var2,omitempty"` // pair kinds: a second, different substitution in the same string
}

type c13Scope struct {
	Name     string            `json:"name"` // container name ("" = root)
	Vars     map[string]string `json:"vars"` // name -> value (scalars)
	VarOrder []string          `json:"var_order"`
	Uses     []c13Use          `json:"uses"`
	Children []*c13Scope       `json:"children"`
	VarsLast bool              `json:"vars_last"` // vars block written after the uses
}

type c13Case struct {
	Root *c13Scope `json:"root"`
}

var c13VarNames = []string{"v", "w", "col", "n", "deep.k"}

func quoteVarValue(v string) string {
	if strings.ContainsAny(v, " #") {
		return gen.QuoteValue(v)
	}
	return v
}

// print returns P and P'. undefined is set when some use has no definition in scope.
func (c c13Case) print() (p, twin string, undefined []string, shadowUsed bool, insideString bool) {
	var sbP, sbT strings.Builder
	counter := 0
	var rec func(s *c13Scope, chain []*c13Scope, indent string)
	rec = func(s *c13Scope, chain []*c13Scope, indent string) {
		chain = append(chain, s)
		writeVars := func() {
			if len(s.VarOrder) == 0 {
				return
			}
			var lines []string
			nested := map[string][]string{}
			for _, name := range s.VarOrder {
				if i := strings.IndexByte(name, '.'); i > 0 {
					nested[name[:i]] = append(nested[name[:i]], name[i+1:]+": "+quoteVarValue(s.Vars[name]))
				} else {
					lines = append(lines, name+": "+quoteVarValue(s.Vars[name]))
				}
			}
			for k, v := range nested {
				lines = append(lines, k+": {"+strings.Join(v, "; ")+"}")
			}
			block := indent + "vars: {\n"
			for _, l := range lines {
				block += indent + "  " + l + "\n"
			}
			block += indent + "}\n"
			sbP.WriteString(block)
			sbT.WriteString(block)
		}
		if !s.VarsLast {
			writeVars()
		}
		for _, u := range s.Uses {
			counter++
			// innermost definition
			val, found, depthFound := "", false, -1
			for i := len(chain) - 1; i >= 0; i-- {
				if v, ok := chain[i].Vars[u.Var]; ok {
					val, found, depthFound = v, true, i
					break
				}
			}
			if found {
				for i := 0; i < depthFound; i++ {
					if _, ok := chain[i].Vars[u.Var]; ok {
						shadowUsed = true
					}
				}
			}
			if !found && u.Kind != "sq" {
				undefined = append(undefined, u.Var)
			}
			// second variable of the pair kinds
			val2, found2 := "", true
			if u.Var2 != "" {
				found2 = false
				for i := len(chain) - 1; i >= 0; i-- {
					if v, ok := chain[i].Vars[u.Var2]; ok {
						val2, found2 = v, true
						break
					}
				}
				if !found2 {
					undefined = append(undefined, u.Var2)
				}
			}
			ref2 := "${" + u.Var2 + "}"
			ref := "${" + u.Var + "}"
			var lp, lt string
			id := fmt.Sprintf("u%d", counter)
			switch u.Kind {
			case "alone":
				lp, lt = id+": "+ref, id+": "+quoteVarValue(val)
			case "unquoted":
				insideString = true
				lp, lt = id+": pre "+ref+" post", id+": pre "+val+" post"
			case "dq":
				insideString = true
				lp, lt = id+": \"in "+ref+" dq\"", id+": \"in "+val+" dq\""
			case "sq":
				lp, lt = id+": 'in "+ref+" sq'", id+": 'in "+ref+" sq'"
			case "edge":
				lp, lt = id+"a -> "+id+"b: "+ref, id+"a -> "+id+"b: "+quoteVarValue(val)
			case "fill":
				lp, lt = id+".style.fill: "+ref, id+".style.fill: "+quoteVarValue(val)
			case "width":
				lp, lt = id+".width: "+ref, id+".width: "+quoteVarValue(val)
			case "pair":
				insideString = true
				lp, lt = id+": "+ref+" and "+ref2, id+": "+val+" and "+val2
			case "pairdq":
				insideString = true
				lp, lt = id+": \""+ref+"/"+ref2+"\"", id+": \""+val+"/"+val2+"\""
			case "array":
				insideString = true
				lp, lt = id+".class: [k; x"+ref+ref2+"]", id+".class: [k; x"+val+val2+"]"
			case "twice":
				insideString = true
				lp, lt = id+": "+ref+"-"+ref, id+": "+val+"-"+val
			}
			sbP.WriteString(indent + lp + "\n")
			sbT.WriteString(indent + lt + "\n")
		}
		for _, ch := range s.Children {
			sbP.WriteString(indent + ch.Name + ": {\n")
			sbT.WriteString(indent + ch.Name + ": {\n")
			rec(ch, chain, indent+"  ")
			sbP.WriteString(indent + "}\n")
			sbT.WriteString(indent + "}\n")
		}
		if s.VarsLast {
			writeVars()
		}
	}
	rec(c.Root, nil, "")
	return sbP.String(), sbT.String(), undefined, shadowUsed, insideString
}

func checkC13(h *hx.H, c c13Case) {
	p, twin, undefined, shadowUsed, inString := c.print()
	g1, err1 := compileText(p)
	if len(undefined) > 0 {
		h.Label("undefined_reference")
		if err1 == nil {
			h.Failf("undefined-variable-accepted", "a reference to the undefined variable %q compiles\n%s", undefined[0], p)
		}
		if !strings.Contains(err1.Error(), "could not resolve variable") {
			h.Failf("undefined-variable-other-error", "expected a 'could not resolve variable' error, got: %v\n%s", err1, p)
		}
		h.NonTrivial(true)
		return
	}
	if err1 != nil {
		h.Failf("unexpected-error", "the program should compile: %v\n%s", err1, p)
	}
	g2, err2 := compileText(twin)
	if err2 != nil {
		h.Reject("twin-does-not-compile") // generator problem, not d2's
	}
	if d := canon.Diff(canon.Of(g1).Sorted(), canon.Of(g2).Sorted()); d != "" {
		h.Failf("substitution-differs-from-replacement", "the program with substitutions and the program with the values written in place compile differently: %s\n--- with substitutions\n%s\n--- replaced textually\n%s", d, p, twin)
	}
	if shadowUsed {
		h.Label("shadowed_use")
	}
	if inString {
		h.Label("inside_string")
	}
	h.NonTrivial(shadowUsed && inString)
}

func genC13Scope(t *rapid.T, depth int, name string) *c13Scope {
	s := &c13Scope{Name: name, Vars: map[string]string{}, VarsLast: false}
	nv := rapid.IntRange(0, 3).Draw(t, "nvars")
	if depth == 0 && nv == 0 {
		nv = 2
	}
	for i := 0; i < nv; i++ {
		n := rapid.SampledFrom(c13VarNames).Draw(t, "vname")
		if _, dup := s.Vars[n]; dup {
			continue
		}
		// a scalar and a map under the same name cannot coexist: "deep.k" vs "deep"
		var v string
		switch n {
		case "col":
			v = rapid.SampledFrom([]string{"red", "blue", "green", "orange"}).Draw(t, "colv")
		case "n":
			v = fmt.Sprint(rapid.IntRange(10, 300).Draw(t, "nv"))
		default:
			v = rapid.SampledFrom([]string{"hello", "world", "two words", "x1", "Value", "a b c"}).Draw(t, "vv") + fmt.Sprint(depth)
		}
		s.Vars[n] = v
		s.VarOrder = append(s.VarOrder, n)
	}
	nu := rapid.IntRange(0, 4).Draw(t, "nuses")
	for i := 0; i < nu; i++ {
		vn := rapid.SampledFrom(c13VarNames).Draw(t, "uvar")
		kinds := []string{"alone", "unquoted", "dq", "sq", "edge", "twice"}
		if vn == "col" {
			kinds = append(kinds, "fill", "fill")
		}
		if vn == "n" {
			kinds = append(kinds, "width", "width")
		}
		u := c13Use{Kind: rapid.SampledFrom(kinds).Draw(t, "ukind"), Var: vn}
		if gen.Pick(t, "pair", 3, 1) == 1 {
			u.Kind = rapid.SampledFrom([]string{"pair", "pairdq", "array"}).Draw(t, "pairkind")
			u.Var2 = rapid.SampledFrom(c13VarNames).Draw(t, "uvar2")
		}
		s.Uses = append(s.Uses, u)
	}
	if depth < 3 {
		nc := rapid.IntRange(0, 2).Draw(t, "nchildren")
		for i := 0; i < nc; i++ {
			s.Children = append(s.Children, genC13Scope(t, depth+1, fmt.Sprintf("c%d_%d", depth, i)))
		}
	}
	return s
}

func genC13(t *rapid.T) c13Case {
	return c13Case{Root: genC13Scope(t, 0, "")}
}

func coreC13() []c13Case {
	return []c13Case{
		{Root: &c13Scope{Vars: map[string]string{"v": "outer", "col": "red"}, VarOrder: []string{"v", "col"}, Uses: []c13Use{{Kind: "alone", Var: "v"}, {Kind: "dq", Var: "v"}, {Kind: "sq", Var: "v"}, {Kind: "fill", Var: "col"}},
			Children: []*c13Scope{{Name: "c", Vars: map[string]string{"v": "inner"}, VarOrder: []string{"v"}, Uses: []c13Use{{Kind: "alone", Var: "v"}, {Kind: "unquoted", Var: "v"}, {Kind: "edge", Var: "v"}, {Kind: "fill", Var: "col"}},
				Children: []*c13Scope{{Name: "d", Vars: map[string]string{}, Uses: []c13Use{{Kind: "twice", Var: "v"}, {Kind: "alone", Var: "col"}}}}}}}},
		{Root: &c13Scope{Vars: map[string]string{"v": "x"}, VarOrder: []string{"v"}, Uses: []c13Use{{Kind: "alone", Var: "missing"}}}},
		{Root: &c13Scope{Vars: map[string]string{"v": "x"}, VarOrder: []string{"v"}, Uses: []c13Use{{Kind: "pair", Var: "v", Var2: "missing"}}}},
		{Root: &c13Scope{Vars: map[string]string{"v": "x"}, VarOrder: []string{"v"}, Uses: []c13Use{{Kind: "pairdq", Var: "v", Var2: "missing"}}}},
		{Root: &c13Scope{Vars: map[string]string{"v": "x"}, VarOrder: []string{"v"}, Uses: []c13Use{{Kind: "array", Var: "v", Var2: "missing"}}}},
		{Root: &c13Scope{Vars: map[string]string{"v": "x", "w": "y"}, VarOrder: []string{"v", "w"}, Uses: []c13Use{{Kind: "pair", Var: "v", Var2: "w"}, {Kind: "pairdq", Var: "w", Var2: "v"}, {Kind: "array", Var: "v", Var2: "w"}}}},
		{Root: &c13Scope{Vars: map[string]string{"deep.k": "nested value"}, VarOrder: []string{"deep.k"}, Uses: []c13Use{{Kind: "alone", Var: "deep.k"}, {Kind: "dq", Var: "deep.k"}}}},
		{Root: &c13Scope{Vars: map[string]string{"n": "120"}, VarOrder: []string{"n"}, Uses: []c13Use{{Kind: "width", Var: "n"}, {Kind: "unquoted", Var: "n"}}}},
	}
}

func TestC13(t *testing.T) {
	hx.Run(t, hx.Spec[c13Case]{Prop: "C13", Core: coreC13, Gen: genC13, Check: checkC13, Timeout: 30 * time.Second})
}
