package p_semantics

import (
	"fmt"
	"strings"
	"testing"
	"time"

	"pgregory.net/rapid"

	"verif/harness/gen"
	"verif/harness/hx"
)

// C12: globs apply to exactly the matching objects and connections, even later ones.
type c12Case struct {
	Prog Program `json:"prog"`
}

func attrsWithout(m map[string]string, gray map[string]bool) map[string]string {
	out := map[string]string{}
	for k, v := range m {
		if !gray[k] {
			out[k] = v
		}
	}
	return out
}

func checkC12(h *hx.H, c c12Case) {
	text := c.Prog.Print()
	b := newBoard()
	// objects created from outside the map that declares a glob covering them (known finding)
	type scoped struct{ scope string }
	var inMapGlobs []string // folded scope paths of globs written inside a container's map
	var inMapEdgeGlobs []string
	suspectEdges := false
	suspect := map[string]bool{}
	nglobs, lateMatches, conflicts, connGlobs := 0, 0, 0, 0
	for _, s := range c.Prog.Stmts {
		before := map[string]bool{}
		b.walk(b.Root, func(o *rObj) { before[foldPath(o.path())] = true })
		prevInMap := append([]string{}, inMapGlobs...)
		prevEdgeInMap := len(inMapEdgeGlobs)
		switch s.Kind {
		case "globconn":
			nglobs++
			connGlobs++
		case "glob", "edgeglob":
			nglobs++
			if !s.Abs && len(s.Scope) > 0 {
				inMapGlobs = append(inMapGlobs, foldPath(s.Scope))
				if s.Kind == "edgeglob" {
					inMapEdgeGlobs = append(inMapEdgeGlobs, foldPath(s.Scope))
				}
			}
		}
		b.Apply(s)
		if s.Kind == "conn" {
			for _, gs := range inMapEdgeGlobs[:prevEdgeInMap] {
				if foldPath(s.Scope) == gs {
					suspectEdges = true
				}
			}
		}
		{
			inMapGlobs := prevInMap
			b.walk(b.Root, func(o *rObj) {
				p := foldPath(o.path())
				if before[p] {
					return
				}
				if nglobs > 0 {
					lateMatches++
				}
				// created now: was it created by a statement written outside a glob's declaring map?
				stmtScope := foldPath(s.Scope)
				if s.Abs {
					stmtScope = ""
				}
				_ = stmtScope
				for _, gs := range inMapGlobs {
					// every statement of a generated program opens its own map, so anything created
					// later under the scope is created after the glob's declaring map has closed
					if strings.HasPrefix(p, gs+"\x1f") {
						suspect[p] = true
					}
				}
			})
			if s.Kind == "attr" && nglobs > 0 {
				conflicts++
			}
		}
	}
	_ = scoped{}
	repeated := false
	seenGlob := map[string]bool{}
	for _, s := range c.Prog.Stmts {
		if s.Kind == "glob" || s.Kind == "edgeglob" {
			k := fmt.Sprintf("%s|%v|%s|%s|%s", foldPath(s.Scope), s.Kind, strings.ToLower(s.Pattern), s.Key, *s.Value)
			if seenGlob[k] {
				repeated = true
			}
			seenGlob[k] = true
		}
	}
	g, err := compileText(text)
	if err != nil {
		h.Failf("unexpected-error", "the program should compile: %v\n%s", err, text)
	}
	wo, we := b.Flat()
	gobjs, gedges := graphFlat(g)
	wm, gm := map[string]flatObj{}, map[string]flatObj{}
	for _, o := range wo {
		wm[o.Path] = o
	}
	for _, o := range gobjs {
		gm[o.Path] = o
	}
	for p, w := range wm {
		got, ok := gm[p]
		if !ok {
			h.Failf("object-missing", "the reference has object %s, the compiled diagram does not\n%s", showPath(p), text)
		}
		if len(w.Gray) > 0 {
			h.Gray()
		}
		wa, ga := attrsWithout(w.Attrs, w.Gray), attrsWithout(got.Attrs, w.Gray)
		if normAttrs(wa) != normAttrs(ga) {
			sig := "glob-result-differs"
			if repeated {
				sig = "glob-result-differs:identical-glob-repeated"
			}
			if suspect[p] {
				sig = "glob-result-differs:created-outside-declaring-map"
			}
			h.FailSoft(sig, "object %s: attributes should be {%s} (globs applied to existing and later targets, values in source order), compiled {%s}\n%s", showPath(p), normAttrs(wa), normAttrs(ga), text)
		}
		if !w.Gray["label"] && got.Label != w.Label && !(w.LabelAlt != nil && got.Label == *w.LabelAlt) {
			sig := "glob-label-differs"
			if repeated {
				sig = "glob-label-differs:identical-glob-repeated"
			}
			if suspect[p] {
				sig = "glob-label-differs:created-outside-declaring-map"
			}
			h.FailSoft(sig, "object %s: label should be %q, compiled %q\n%s", showPath(p), w.Label, got.Label, text)
		}
	}
	for p := range gm {
		if _, ok := wm[p]; !ok {
			h.Failf("object-extra", "the compiled diagram has object %s which no declaration creates (a glob must not create objects here)\n%s", showPath(p), text)
		}
	}
	if repeated && !suspectEdges {
		var w, gg []string
		for _, e := range we {
			w = append(w, edgeKey(e, false))
		}
		for _, e := range gedges {
			gg = append(gg, edgeKey(e, false))
		}
		sortStrings(w)
		sortStrings(gg)
		if strings.Join(w, "\n") != strings.Join(gg, "\n") {
			h.FailSoft("edges-differ:identical-glob-repeated", "connections differ:\n reference:\n  %s\n compiled:\n  %s\n%s", strings.Join(w, "\n  "), strings.Join(gg, "\n  "), text)
		}
	} else if suspectEdges {
		// connections declared after an in-map connection glob closed: same known limitation
		func() {
			defer func() {
				if r := recover(); r != nil {
					panic(r)
				}
			}()
			var w, gg []string
			for _, e := range we {
				w = append(w, edgeKey(e, false))
			}
			for _, e := range gedges {
				gg = append(gg, edgeKey(e, false))
			}
			sortStrings(w)
			sortStrings(gg)
			if strings.Join(w, "\n") != strings.Join(gg, "\n") {
				h.FailSoft("edges-differ:created-outside-declaring-map", "connections differ:\n reference:\n  %s\n compiled:\n  %s\n%s", strings.Join(w, "\n  "), strings.Join(gg, "\n  "), text)
			}
		}()
	} else if connGlobs >= 2 {
		// two connection-creating globs: which of the parallel connections they create a
		// `(* -> *)[*]` glob reaches is inconsistent in d2 (known finding)
		var w, gg []string
		for _, e := range we {
			w = append(w, edgeKey(e, false))
		}
		for _, e := range gedges {
			gg = append(gg, edgeKey(e, false))
		}
		sortStrings(w)
		sortStrings(gg)
		if strings.Join(w, "\n") != strings.Join(gg, "\n") {
			h.FailSoft("edges-differ:several-connection-creating-globs", "connections differ:\n reference:\n  %s\n compiled:\n  %s\n%s", strings.Join(w, "\n  "), strings.Join(gg, "\n  "), text)
		}
	} else {
		compareEdges(h, we, gedges, false, text)
	}
	for _, e := range g.Edges {
		if e.Src == e.Dst && !strings.Contains(text, e.Src.ID+" -> "+e.Src.ID) {
			_ = e
		}
	}
	if connGlobs > 0 {
		h.Label("connection-creating-glob")
	}
	h.NonTrivial(nglobs >= 1 && lateMatches >= 1 && (conflicts >= 1 || connGlobs >= 1))
}

var c12Names = []string{"alpha", "alps", "beta", "bat", "Alpha", "gamma", "tab", "ab", "a", "alphabet", "b"}
var c12Patterns = []string{"*", "*", "**", "a*", "*a", "al*", "*ta", "a*a", "*b*", "A*", "*T", "b*", "alpha*", "*alpha", "al*bet"}

// genC12Conn: programs at the root scope with connection-creating globs (`* -> *`, `a* -> *`,
// `hub -> *`): they create a connection between every pair of matching objects, now and when a
// matching object appears later, never from an object to itself; connection globs
// (`(* -> *)[*]…`) in force reach the connections so created. One level only (`**` in a
// connection glob can make compilation diverge, C07 finding), no bodies on the glob (how a
// body's value and a `(* -> *)[*]` value rank is not stated).
func genC12Conn(t *rapid.T) c12Case {
	var prog Program
	names := []string{"alpha", "alps", "beta", "hub", "Alpha", "tab", "ab"}
	// (prefix patterns only: whether `*a` is anchored at the end of the name is a gray area, see checkC12)
	pats := []string{"*", "*", "*", "a*", "al*", "alp*", "b*", "hub", "beta"}
	n := rapid.IntRange(3, hx.Pick(10, 18)).Draw(t, "n")
	seen := map[string]bool{}
	nconn := 0
	maxConn := 1
	if gen.Pick(t, "twoconnglobs", 4, 1) == 1 {
		maxConn = 2
	}
	for i := 0; i < n; i++ {
		switch gen.Pick(t, "ckind", 4, 3, 2, 2, 1) {
		case 0:
			prog.Stmts = append(prog.Stmts, Stmt{Kind: "obj", Path: []string{rapid.SampledFrom(names).Draw(t, "on")}})
		case 1:
			sp, dp := rapid.SampledFrom(pats).Draw(t, "sp"), rapid.SampledFrom(pats).Draw(t, "dp")
			if !strings.Contains(sp, "*") && !strings.Contains(dp, "*") {
				dp = "*"
			}
			k := strings.ToLower(sp + ">" + dp)
			if seen[k] || nconn >= maxConn {
				continue // a literally repeated glob is dropped as a duplicate (known finding)
			}
			seen[k] = true
			nconn++
			prog.Stmts = append(prog.Stmts, Stmt{Kind: "globconn", Src: []string{sp}, Dst: []string{dp}})
		case 2:
			v := attrValue(t, "style.stroke")
			k := "eg>" + v
			if seen[k] {
				continue
			}
			seen[k] = true
			prog.Stmts = append(prog.Stmts, Stmt{Kind: "edgeglob", Key: "style.stroke", Value: &v})
		case 3:
			prog.Stmts = append(prog.Stmts, Stmt{Kind: "conn", Src: []string{rapid.SampledFrom(names).Draw(t, "cs")}, Dst: []string{rapid.SampledFrom(names).Draw(t, "cd")}, Arrow: "->"})
		default:
			v := attrValue(t, "style.fill")
			k := "fg>" + v
			if seen[k] {
				continue
			}
			seen[k] = true
			prog.Stmts = append(prog.Stmts, Stmt{Kind: "glob", Pattern: "*", Key: "style.fill", Value: &v})
		}
	}
	return c12Case{Prog: prog}
}

func genC12(t *rapid.T) c12Case {
	if gen.Pick(t, "connglobs", 3, 1) == 1 {
		return genC12Conn(t)
	}
	var prog Program
	n := rapid.IntRange(3, hx.Pick(12, 24)).Draw(t, "n")
	scopes := [][]string{nil, nil, {"box"}, {"box", "inner"}}
	name := func() string { return rapid.SampledFrom(c12Names).Draw(t, "name") }
	for i := 0; i < n; i++ {
		scope := scopes[rapid.IntRange(0, len(scopes)-1).Draw(t, "scope")]
		switch gen.Pick(t, "kind", 4, 4, 3, 2, 1) {
		case 0: // glob
			k := rapid.SampledFrom([]string{"style.fill", "style.fill", "shape", "style.opacity", "label"}).Draw(t, "gkey")
			v := ""
			if k == "label" {
				v = fmt.Sprintf("G%d", i)
			} else {
				v = attrValue(t, k)
			}
			prog.Stmts = append(prog.Stmts, Stmt{Kind: "glob", Scope: scope, Abs: gen.Pick(t, "abs", 1, 3) == 1, Pattern: rapid.SampledFrom(c12Patterns).Draw(t, "pat"), Key: k, Value: &v})
		case 1: // object (maybe nested path)
			p := []string{name()}
			if gen.Pick(t, "deep", 3, 1) == 1 {
				p = append(p, name())
			}
			s := Stmt{Kind: "obj", Scope: scope, Path: p, Abs: false, Nested: rapid.Bool().Draw(t, "nested")}
			if gen.Pick(t, "viaouter", 3, 1) == 1 && len(scope) > 0 {
				// written at the root with the full path
				s.Path = append(append([]string{}, scope...), p...)
				s.Scope = nil
			}
			prog.Stmts = append(prog.Stmts, s)
		case 2: // explicit attribute
			k := rapid.SampledFrom([]string{"style.fill", "shape", "style.opacity", "label"}).Draw(t, "akey")
			v := ""
			if k == "label" {
				v = fmt.Sprintf("E%d", i)
			} else {
				v = attrValue(t, k)
			}
			prog.Stmts = append(prog.Stmts, Stmt{Kind: "attr", Scope: scope, Path: []string{name()}, Key: k, Value: &v})
		case 3: // connection between siblings
			prog.Stmts = append(prog.Stmts, Stmt{Kind: "conn", Scope: scope, Src: []string{name()}, Dst: []string{name()}, Arrow: "->"})
		default: // edge glob
			v := attrValue(t, "style.stroke")
			prog.Stmts = append(prog.Stmts, Stmt{Kind: "edgeglob", Scope: scope, Abs: gen.Pick(t, "eabs", 1, 3) == 1, Key: "style.stroke", Value: &v})
		}
	}
	return c12Case{Prog: prog}
}

func coreC12() []c12Case {
	o := func(scope []string, p ...string) Stmt { return Stmt{Kind: "obj", Scope: scope, Path: p} }
	gl := func(scope []string, pat, k, v string) Stmt { return Stmt{Kind: "glob", Scope: scope, Pattern: pat, Key: k, Value: &v} }
	at := func(p, k, v string) Stmt { return Stmt{Kind: "attr", Path: []string{p}, Key: k, Value: &v} }
	red, blue, green := "red", "blue", "green"
	_ = green
	return []c12Case{
		{Prog: Program{Stmts: []Stmt{gl(nil, "*", "style.fill", red), at("a", "style.fill", blue), o(nil, "b"), {Kind: "attr", Path: []string{"b"}, Key: "style.fill", Value: &green}}}},
		{Prog: Program{Stmts: []Stmt{at("a", "style.fill", blue), gl(nil, "*", "style.fill", red), o(nil, "b")}}},
		{Prog: Program{Stmts: []Stmt{o(nil, "alpha"), o(nil, "beta"), gl(nil, "a*", "shape", "circle"), o(nil, "alps"), o(nil, "tab"), gl(nil, "*ta", "style.opacity", "0.5"), o(nil, "Alpha")}}},
		{Prog: Program{Stmts: []Stmt{o(nil, "box", "a"), gl(nil, "**", "style.fill", red), o(nil, "box", "inner", "b"), o(nil, "c")}}},
		{Prog: Program{Stmts: []Stmt{gl([]string{"box"}, "*", "style.fill", red), o([]string{"box"}, "x"), o(nil, "box", "w"), o(nil, "outside")}}},
		{Prog: Program{Stmts: []Stmt{{Kind: "conn", Src: []string{"a"}, Dst: []string{"b"}, Arrow: "->"}, {Kind: "edgeglob", Key: "style.stroke", Value: &red}, {Kind: "conn", Src: []string{"b"}, Dst: []string{"c"}, Arrow: "->"}, {Kind: "conn", Scope: []string{"box"}, Src: []string{"a"}, Dst: []string{"b"}, Arrow: "->"}}}},
	}
}

func TestC12(t *testing.T) {
	hx.Run(t, hx.Spec[c12Case]{Prop: "C12", Core: coreC12, Gen: genC12, Check: checkC12, Timeout: 30 * time.Second})
}
