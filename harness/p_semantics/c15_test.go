package p_semantics

import (
	"fmt"
	"strings"
	"testing"
	"time"

	"oss.terrastruct.com/d2/d2graph"
	"pgregory.net/rapid"

	"verif/harness/gen"
	"verif/harness/hx"
)

// C15: boards inherit from their base and never leak changes back.
type boardBody struct {
	Stmts []Stmt      `json:"stmts"`
	Decls []boardDecl `json:"decls,omitempty"`
}

type boardDecl struct {
	Kind   string       `json:"kind"` // layers | scenarios | steps
	Pos    int          `json:"pos"`  // the block is written before statement #Pos of the enclosing body
	Names  []string     `json:"names"`
	Bodies []*boardBody `json:"bodies"`
}

type c15Case struct {
	Root boardBody `json:"root"`
}

func (b *boardBody) print(indent string) string {
	var sb strings.Builder
	emit := func(pos int) {
		for _, d := range b.Decls {
			if d.Pos != pos {
				continue
			}
			sb.WriteString(indent + d.Kind + ": {\n")
			for i, name := range d.Names {
				sb.WriteString(indent + "  " + name + ": {\n")
				sb.WriteString(d.Bodies[i].print(indent + "    "))
				sb.WriteString(indent + "  }\n")
			}
			sb.WriteString(indent + "}\n")
		}
	}
	for i, s := range b.Stmts {
		emit(i)
		for _, l := range strings.Split(strings.TrimRight(s.print(), "\n"), "\n") {
			sb.WriteString(indent + l + "\n")
		}
	}
	for pos := len(b.Stmts); pos <= len(b.Stmts)+3; pos++ {
		emit(pos)
	}
	return sb.String()
}

// ----- reference -----

func (b *rBoard) clone() *rBoard {
	nb := &rBoard{seq: b.seq}
	m := map[*rObj]*rObj{}
	var cp func(o, parent *rObj) *rObj
	cp = func(o, parent *rObj) *rObj {
		n := &rObj{Name: o.Name, primSeq: o.primSeq, fldSeq: o.fldSeq, Attrs: map[string]string{}, Parent: parent}
		if o.Primary != nil {
			v := *o.Primary
			n.Primary = &v
		}
		if o.LabelFld != nil {
			v := *o.LabelFld
			n.LabelFld = &v
		}
		for k, v := range o.Attrs {
			n.Attrs[k] = v
		}
		m[o] = n
		for _, c := range o.Children {
			n.Children = append(n.Children, cp(c, n))
		}
		return n
	}
	nb.Root = cp(b.Root, nil)
	for _, e := range b.Edges {
		if e.dead {
			continue
		}
		ne := &rEdge{Src: m[e.Src], Dst: m[e.Dst], SrcArrow: e.SrcArrow, DstArrow: e.DstArrow, Attrs: map[string]string{}}
		if e.Label != nil {
			v := *e.Label
			ne.Label = &v
		}
		for k, v := range e.Attrs {
			ne.Attrs[k] = v
		}
		nb.Edges = append(nb.Edges, ne)
	}
	// a scenario/step is "the base plus its own changes": the base's globs keep acting on
	// what the board adds
	for _, g := range b.Globs {
		ng := *g
		ng.Scope = m[g.Scope]
		if ng.Scope != nil {
			nb.Globs = append(nb.Globs, &ng)
		}
	}
	return nb
}

type refBoardTree struct {
	Board    *rBoard
	Children map[string]*refBoardTree // "layers.l1" -> ...
	Order    []string
	invalid  string
}

func applyStmt(h *hx.H, b *rBoard, s Stmt) {
	if s.Kind == "null" {
		sc := b.lookup(b.Root, s.Scope)
		if sc == nil || b.lookup(sc, s.Path) == nil {
			h.Reject("null-on-missing-object")
		}
	}
	b.Apply(s)
}

func evalBody(h *hx.H, body *boardBody, start *rBoard) *refBoardTree {
	t := &refBoardTree{Board: start, Children: map[string]*refBoardTree{}}
	b := start
	doDecls := func(pos int) {
		for _, d := range body.Decls {
			if d.Pos != pos {
				continue
			}
			var prevStep *rBoard
			for i, name := range d.Names {
				var base *rBoard
				switch d.Kind {
				case "layers":
					base = newBoard()
				case "scenarios":
					base = b.clone() // the base as declared before the scenario
				default:
					if prevStep == nil {
						base = b.clone()
					} else {
						base = prevStep.clone()
					}
				}
				sub := evalBody(h, d.Bodies[i], base)
				prevStep = sub.Board
				key := d.Kind + "." + name
				t.Children[key] = sub
				t.Order = append(t.Order, key)
			}
		}
	}
	for i, s := range body.Stmts {
		doDecls(i)
		applyStmt(h, b, s)
	}
	for pos := len(body.Stmts); pos <= len(body.Stmts)+3; pos++ {
		doDecls(pos)
	}
	return t
}

func compareBoardTree(h *hx.H, path string, want *refBoardTree, g *d2graph.Graph, text string) {
	wo, we := want.Board.Flat()
	gobjs, gedges := graphFlat(g)
	wrap := func(f func()) {
		defer func() {
			if r := recover(); r != nil {
				panic(r)
			}
		}()
		f()
	}
	_ = wrap
	compareObjectsAt(h, path, wo, gobjs, text)
	compareEdgesAt(h, path, we, gedges, text)
	find := func(kind, name string) *d2graph.Graph {
		var list []*d2graph.Graph
		switch kind {
		case "layers":
			list = g.Layers
		case "scenarios":
			list = g.Scenarios
		default:
			list = g.Steps
		}
		for _, b := range list {
			if b.Name == name {
				return b
			}
		}
		return nil
	}
	for _, key := range want.Order {
		i := strings.IndexByte(key, '.')
		sub := find(key[:i], key[i+1:])
		if sub == nil {
			h.Failf("board-missing", "%s: board %s is missing from the compiled diagram\n%s", path, key, text)
		}
		compareBoardTree(h, path+"."+key, want.Children[key], sub, text)
	}
	if n := len(g.Layers) + len(g.Scenarios) + len(g.Steps); n != len(want.Order) {
		h.Failf("board-count", "%s: %d boards compiled, %d declared\n%s", path, n, len(want.Order), text)
	}
}

func compareObjectsAt(h *hx.H, path string, want, got []flatObj, text string) {
	wm, gm := map[string]flatObj{}, map[string]flatObj{}
	for _, o := range want {
		wm[o.Path] = o
	}
	for _, o := range got {
		gm[o.Path] = o
	}
	for p, w := range wm {
		g, ok := gm[p]
		if !ok {
			h.Failf("board-object-missing", "board %s: the reference has object %s, the compiled board does not\n%s", path, showPath(p), text)
		}
		if g.Label != w.Label && !(w.LabelAlt != nil && g.Label == *w.LabelAlt) {
			h.Failf("board-label-differs", "board %s: object %s should have label %q, compiled %q\n%s", path, showPath(p), w.Label, g.Label, text)
		}
		if normAttrs(g.Attrs) != normAttrs(w.Attrs) {
			sig := "board-attrs-differ"
			if c15NestedGlobs {
				sig = "board-attrs-differ:nested-board-with-globs"
			} else if c15StepGlobs {
				sig = "board-attrs-differ:steps-with-globs"
			}
			h.FailSoft(sig, "board %s: object %s should have attributes {%s}, compiled {%s}\n%s", path, showPath(p), normAttrs(w.Attrs), normAttrs(g.Attrs), text)
		}
	}
	for p := range gm {
		if _, ok := wm[p]; !ok {
			h.Failf("board-object-extra", "board %s: the compiled board has object %s which it should not have (leaked, not inherited, or deleted)\n%s", path, showPath(p), text)
		}
	}
}

func compareEdgesAt(h *hx.H, path string, want, got []flatEdge, text string) {
	var w, g []string
	for _, e := range want {
		w = append(w, edgeKey(e, false))
	}
	for _, e := range got {
		g = append(g, edgeKey(e, false))
	}
	sortStrings(w)
	sortStrings(g)
	if strings.Join(w, "\n") != strings.Join(g, "\n") {
		h.Failf("board-edges-differ", "board %s: connections differ:\n reference:\n  %s\n compiled:\n  %s\n%s", path, strings.Join(w, "\n  "), strings.Join(g, "\n  "), text)
	}
}

var c15NestedGlobs, c15StepGlobs bool

func checkC15(h *hx.H, c c15Case) {
	text := c.Root.print("")
	c15NestedGlobs = false
	hasGlob := false
	for _, st := range c.Root.Stmts {
		if st.Kind == "glob" || st.Kind == "edgeglob" {
			hasGlob = true
		}
	}
	c15StepGlobs = false
	for _, d := range c.Root.Decls {
		if d.Kind == "steps" && hasGlob {
			c15StepGlobs = true
		}
		for _, bb := range d.Bodies {
			if len(bb.Decls) > 0 && hasGlob {
				c15NestedGlobs = true
			}
		}
	}
	want := evalBody(h, &c.Root, newBoard())
	g, err := compileText(text)
	if err != nil {
		h.Failf("unexpected-error", "the program should compile: %v\n%s", err, text)
	}
	compareBoardTree(h, "root", want, g, text)
	// isolation twin: removing all board blocks leaves the root board unchanged
	stripped := boardBody{Stmts: c.Root.Stmts}
	g2, err := compileText(stripped.print(""))
	if err == nil {
		o1, e1 := graphFlat(g)
		o2, e2 := graphFlat(g2)
		compareObjectsAt(h, "root(without boards)", o2, o1, text)
		compareEdgesAt(h, "root(without boards)", e2, e1, text)
	}
	nboards, overriding := 0, false
	var count func(b *boardBody, inherited bool)
	count = func(b *boardBody, inherited bool) {
		for _, d := range b.Decls {
			for _, bb := range d.Bodies {
				nboards++
				for _, s := range bb.Stmts {
					if d.Kind != "layers" && (s.Kind == "null" || s.Kind == "attr") {
						overriding = true
					}
				}
				count(bb, d.Kind != "layers")
			}
		}
	}
	count(&c.Root, false)
	h.NonTrivial(nboards >= 2 && overriding)
}

func sortStrings(s []string) {
	for i := 1; i < len(s); i++ {
		for j := i; j > 0 && s[j] < s[j-1]; j-- {
			s[j], s[j-1] = s[j-1], s[j]
		}
	}
}

func genBoardBody(t *rapid.T, depth int, maxStmts int, noNull bool) boardBody {
	p := genProgram(t, maxStmts, false)
	var stmts []Stmt
	withGlobs := depth == 0 && gen.Pick(t, "withglobs", 1, 1) == 1
	if withGlobs {
		noNull = true // whether a glob is applied again to an object re-created after null is not stated (d2 does not)
	}
	for _, s := range p.Stmts {
		if s.Kind == "conn" && s.Under {
			s.Under = false // keep helper maps out of board bodies
		}
		if noNull && (s.Kind == "null" || (s.Kind == "attr" && s.Value == nil)) {
			// (`*.style.fill: red` + `a.style.fill: null` creating a: compile error about an empty
			// `style`, a glob matter outside this property)
			continue
		}
		stmts = append(stmts, s)
	}
	// root-scope globs (path-prefixed form: the in-map form has a known limitation, C12)
	if withGlobs {
		ng := rapid.IntRange(1, 2).Draw(t, "nglobs")
		for i := 0; i < ng; i++ {
			pos := rapid.IntRange(0, len(stmts)).Draw(t, "gpos")
			var gs Stmt
			if rapid.Bool().Draw(t, "edgeglob") {
				v := attrValue(t, "style.stroke")
				gs = Stmt{Kind: "edgeglob", Key: "style.stroke", Value: &v}
			} else {
				k := rapid.SampledFrom([]string{"style.fill", "shape", "style.opacity"}).Draw(t, "gk")
				v := attrValue(t, k)
				gs = Stmt{Kind: "glob", Pattern: rapid.SampledFrom([]string{"*", "**", "a*", "*b"}).Draw(t, "gpat"), Key: k, Value: &v}
			}
			dup := false
			for _, e := range stmts {
				if e.Kind == gs.Kind && e.Key == gs.Key && e.Pattern == gs.Pattern && e.Value != nil && *e.Value == *gs.Value {
					dup = true // a textually repeated glob is dropped as a duplicate (C12 …:identical-glob-repeated)
				}
			}
			if dup {
				continue
			}
			stmts = append(stmts[:pos:pos], append([]Stmt{gs}, stmts[pos:]...)...)
		}
	}
	b := boardBody{Stmts: stmts}
	if depth >= 2 || (depth >= 1 && noNull) {
		// with globs in play boards are not nested: a glob applied inside a nested board first is
		// then skipped for the enclosing board (KNOWN_FINDINGS C15 …:nested-board-with-globs)
		return b
	}
	kinds := []string{"layers", "scenarios", "steps"}
	if noNull {
		// glob applications made inside a step are remembered for the board that declares the
		// steps (KNOWN_FINDINGS C15 …:steps-with-globs): steps stay out of glob programs
		kinds = kinds[:2]
	}
	for _, k := range kinds {
		if gen.Pick(t, "hasboards_"+k, 2, 1) == 0 && !(depth == 0 && k == "scenarios") {
			continue
		}
		d := boardDecl{Kind: k, Pos: rapid.IntRange(0, len(stmts)).Draw(t, "pos")}
		n := rapid.IntRange(1, 3).Draw(t, "nboards")
		for i := 0; i < n; i++ {
			name := fmt.Sprintf("%s%d", k[:1], i+1)
			if k == "steps" {
				name = fmt.Sprint(i + 1)
			}
			d.Names = append(d.Names, name)
			bb := genBoardBody(t, depth+1, 6, noNull)
			d.Bodies = append(d.Bodies, &bb)
		}
		b.Decls = append(b.Decls, d)
	}
	return b
}

func genC15(t *rapid.T) c15Case {
	return c15Case{Root: genBoardBody(t, 0, 8, false)}
}

func coreC15() []c15Case {
	o := func(p ...string) Stmt { return Stmt{Kind: "obj", Path: p} }
	return []c15Case{
		{Root: boardBody{Stmts: []Stmt{o("a"), o("c")}, Decls: []boardDecl{{Kind: "scenarios", Pos: 1, Names: []string{"s"}, Bodies: []*boardBody{{Stmts: []Stmt{o("b")}}}}}}},
		{Root: boardBody{Stmts: []Stmt{{Kind: "conn", Src: []string{"a"}, Dst: []string{"b"}, Arrow: "->", Value: strp("e1")}}, Decls: []boardDecl{
			{Kind: "scenarios", Pos: 1, Names: []string{"s1", "s2"}, Bodies: []*boardBody{{Stmts: []Stmt{{Kind: "attr", Path: []string{"a"}, Key: "style.fill", Value: strp("red")}, {Kind: "connref", Src: []string{"a"}, Dst: []string{"b"}, Arrow: "->", Index: 0}, o("c")}}, {Stmts: []Stmt{{Kind: "null", Path: []string{"b"}}}}}},
			{Kind: "steps", Pos: 1, Names: []string{"1", "2", "3"}, Bodies: []*boardBody{{Stmts: []Stmt{o("x")}}, {Stmts: []Stmt{{Kind: "null", Path: []string{"x"}}, o("y")}}, {Stmts: []Stmt{o("z")}}}},
			{Kind: "layers", Pos: 1, Names: []string{"l"}, Bodies: []*boardBody{{Stmts: []Stmt{o("only")}, Decls: []boardDecl{{Kind: "scenarios", Pos: 1, Names: []string{"ls"}, Bodies: []*boardBody{{Stmts: []Stmt{o("more")}}}}}}}},
		}}},
	}
}

func TestC15(t *testing.T) {
	hx.Run(t, hx.Spec[c15Case]{Prop: "C15", Core: coreC15, Gen: genC15, Check: checkC15, Timeout: 30 * time.Second})
}
