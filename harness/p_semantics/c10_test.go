package p_semantics

import (
	"fmt"
	"sort"
	"strings"
	"testing"
	"time"

	"oss.terrastruct.com/d2/d2compiler"
	"oss.terrastruct.com/d2/d2graph"
	"pgregory.net/rapid"

	"verif/harness/gen"
	"verif/harness/hx"
)

// C10: later declarations override earlier ones; null removes.
type c10Case struct {
	Prog Program `json:"prog"`
}

func compileText(s string) (*d2graph.Graph, error) {
	g, _, err := d2compiler.Compile("index.d2", strings.NewReader(s), nil)
	return g, err
}

var attrKeys = []string{"shape", "style.fill", "style.stroke", "style.opacity", "style.stroke-width", "style.bold"}
var edgeAttrKeys = []string{"style.stroke", "style.opacity", "style.stroke-width", "style.animated"}

func attrValue(t *rapid.T, k string) string {
	switch k {
	case "shape":
		return rapid.SampledFrom([]string{"circle", "square", "oval", "hexagon", "rectangle", "diamond", "cloud"}).Draw(t, "shape")
	case "style.fill", "style.stroke":
		return rapid.SampledFrom([]string{"red", "blue", "green", "#abcdef", "orange"}).Draw(t, "color")
	case "style.opacity":
		return rapid.SampledFrom([]string{"0.1", "0.5", "1", "0"}).Draw(t, "op")
	case "style.stroke-width":
		return fmt.Sprint(rapid.IntRange(0, 15).Draw(t, "sw"))
	default:
		return rapid.SampledFrom([]string{"true", "false"}).Draw(t, "b")
	}
}

func objAttrs(o *d2graph.Attributes) map[string]string {
	m := map[string]string{}
	if o.Shape.Value != "" && o.Shape.Value != "rectangle" {
		m["shape"] = o.Shape.Value
	}
	add := func(k string, s *d2graph.Scalar) {
		if s != nil {
			m[k] = s.Value
		}
	}
	add("style.fill", o.Style.Fill)
	add("style.stroke", o.Style.Stroke)
	add("style.opacity", o.Style.Opacity)
	add("style.stroke-width", o.Style.StrokeWidth)
	add("style.bold", o.Style.Bold)
	add("style.animated", o.Style.Animated)
	return m
}

func normAttrs(m map[string]string) string {
	var ks []string
	for k, v := range m {
		if k == "shape" && v == "rectangle" {
			continue
		}
		ks = append(ks, k+"="+v)
	}
	sort.Strings(ks)
	return strings.Join(ks, ",")
}

func graphFlat(g *d2graph.Graph) ([]flatObj, []flatEdge) {
	var objs []flatObj
	for _, o := range g.Objects {
		var p []string
		for q := o; q != nil && q.Parent != nil; q = q.Parent {
			p = append([]string{q.IDVal}, p...)
		}
		objs = append(objs, flatObj{Path: foldPath(p), Name: o.IDVal, Label: o.Label.Value, Attrs: objAttrs(&o.Attributes)})
	}
	sort.Slice(objs, func(i, j int) bool { return objs[i].Path < objs[j].Path })
	var edges []flatEdge
	pathOf := func(o *d2graph.Object) string {
		var p []string
		for q := o; q != nil && q.Parent != nil; q = q.Parent {
			p = append([]string{q.IDVal}, p...)
		}
		return foldPath(p)
	}
	for _, e := range g.Edges {
		edges = append(edges, flatEdge{Src: pathOf(e.Src), Dst: pathOf(e.Dst), SrcArrow: e.SrcArrow, DstArrow: e.DstArrow, Index: e.Index, Label: e.Label.Value, Attrs: objAttrs(&e.Attributes)})
	}
	return objs, edges
}

func showPath(p string) string { return strings.ReplaceAll(p, "\x1f", ".") }

// compareObjects reports the first difference between the reference and d2.
func compareObjects(h *hx.H, want, got []flatObj, text string) {
	wm, gm := map[string]flatObj{}, map[string]flatObj{}
	for _, o := range want {
		wm[o.Path] = o
	}
	for _, o := range got {
		gm[o.Path] = o
	}
	for p, w := range wm {
		g, ok := gm[p]
		if !ok {
			h.Failf("object-missing", "the reference has object %s, the compiled diagram does not\n%s", showPath(p), text)
		}
		if g.Name != w.Name {
			h.Failf("object-spelling", "object %s should keep its first spelling %q, compiled %q\n%s", showPath(p), w.Name, g.Name, text)
		}
		if g.Label != w.Label && w.LabelAlt != nil && g.Label == *w.LabelAlt {
			h.Gray()
		} else if g.Label != w.Label {
			h.Failf("label-differs", "object %s: label should be %q (last assignment), compiled %q\n%s", showPath(p), w.Label, g.Label, text)
		}
		if normAttrs(g.Attrs) != normAttrs(w.Attrs) {
			h.Failf("attrs-differ", "object %s: attributes should be {%s}, compiled {%s}\n%s", showPath(p), normAttrs(w.Attrs), normAttrs(g.Attrs), text)
		}
	}
	for p := range gm {
		if _, ok := wm[p]; !ok {
			h.Failf("object-extra", "the compiled diagram has object %s which the reference does not (removed or never declared)\n%s", showPath(p), text)
		}
	}
}

func edgeKey(e flatEdge, withIndex bool) string {
	s := fmt.Sprintf("%s %v/%v %s label=%q attrs={%s}", showPath(e.Src), e.SrcArrow, e.DstArrow, showPath(e.Dst), e.Label, normAttrs(e.Attrs))
	if withIndex {
		s += fmt.Sprintf(" index=%d", e.Index)
	}
	return s
}

func compareEdges(h *hx.H, want, got []flatEdge, withIndex bool, text string) {
	var w, g []string
	for _, e := range want {
		w = append(w, edgeKey(e, withIndex))
	}
	for _, e := range got {
		g = append(g, edgeKey(e, withIndex))
	}
	sort.Strings(w)
	sort.Strings(g)
	if strings.Join(w, "\n") != strings.Join(g, "\n") {
		h.Failf("edges-differ", "connections differ:\n reference:\n  %s\n compiled:\n  %s\n%s", strings.Join(w, "\n  "), strings.Join(g, "\n  "), text)
	}
}

func checkC10(h *hx.H, c c10Case) {
	text := c.Prog.Print()
	b := newBoard()
	overrides, nullThenRedeclare := 0, 0
	nulled := map[string]bool{}
	seenAttr := map[string]bool{}
	for _, s := range c.Prog.Stmts {
		if s.Kind == "conn" && s.Under && len(s.Scope) > 0 && !s.Abs {
			b.ensure(b.ensure(b.Root, s.Scope), []string{"zz_inner"})
		}
		full := foldPath(append(append([]string{}, s.Scope...), s.Path...))
		switch s.Kind {
		case "null":
			sc := b.lookup(b.Root, s.Scope)
			if sc == nil || b.lookup(sc, s.Path) == nil {
				// null on something that does not exist: whether the containers on the path
				// come into being is not stated (d2 creates them)
				h.Reject("null-on-missing-object")
			}
			if len(s.Path) > 0 && s.Path[len(s.Path)-1] == "zz_inner" {
				// the helper map only hosts a connection between objects outside it; what its
				// removal does to that connection is not covered by the statement
				h.Reject("null-on-connection-host")
			}
			nulled[full] = true
		case "obj", "attr":
			if nulled[full] {
				nullThenRedeclare++
				delete(nulled, full)
			}
			k := full + "|" + s.Key
			if s.Kind == "obj" {
				k = full + "|primary"
			}
			if (s.Kind == "attr" || s.Value != nil) && seenAttr[k] {
				overrides++
			}
			seenAttr[k] = true
		}
		b.Apply(s)
	}
	g, err := compileText(text)
	if len(b.Errors) > 0 {
		if err == nil {
			onlyNull := true
			for _, e := range b.Errors {
				if e != "missing-index-null" {
					onlyNull = false
				}
			}
			if onlyNull {
				h.Failf("missing-index-accepted:null", "`(a -> b)[i]: null` with an index that does not exist compiles (and deletes nothing)\n%s", text)
			}
			h.Failf("missing-index-accepted", "a reference to a connection index that does not exist compiles\n%s", text)
		}
		h.Label("expected_error")
		return
	}
	if err != nil {
		h.Failf("unexpected-error", "the program should compile: %v\n%s", err, text)
	}
	wo, we := b.Flat()
	gobjs, gedges := graphFlat(g)
	compareObjects(h, wo, gobjs, text)
	compareEdges(h, we, gedges, false, text)
	if overrides > 0 {
		h.Label("has_override")
	}
	if nullThenRedeclare > 0 {
		h.Label("null_then_redeclare")
	}
	h.NonTrivial(overrides >= 1 && nullThenRedeclare >= 1)
}

// ----- generator -----

var semNames = []string{"a", "b", "c", "d", "x", "y", "A", "B", "X", "foo", "Foo", "FOO", "a b", "A B", "é", "É", "σ", "Σ", "ς", "q.r", "n1"}

type progGen struct {
	t      *rapid.T
	paths  [][]string // object paths created so far (absolute)
	groups map[string]int
	deletedGroup map[string]bool
	conns  []Stmt
}

func (g *progGen) name() string { return rapid.SampledFrom(semNames).Draw(g.t, "name") }

func (g *progGen) path(allowNew bool) []string {
	t := g.t
	if len(g.paths) > 0 && (!allowNew || gen.Pick(t, "reuse", 1, 2) == 1) {
		p := g.paths[rapid.IntRange(0, len(g.paths)-1).Draw(t, "pidx")]
		// respell with a case variant of the same names sometimes
		out := append([]string{}, p...)
		if gen.Pick(t, "respell", 2, 1) == 1 {
			for i := range out {
				out[i] = respell(t, out[i])
			}
		}
		if allowNew && gen.Pick(t, "extend", 3, 1) == 1 && len(out) < 4 {
			out = append(out, g.name())
		}
		return out
	}
	n := gen.Pick(t, "plen", 5, 3, 1) + 1
	var p []string
	for i := 0; i < n; i++ {
		p = append(p, g.name())
	}
	return p
}

func respell(t *rapid.T, s string) string {
	var cands []string
	for _, n := range semNames {
		if strings.EqualFold(n, s) {
			cands = append(cands, n)
		}
	}
	if len(cands) == 0 {
		return s
	}
	return rapid.SampledFrom(cands).Draw(t, "variant")
}

func (g *progGen) remember(p []string) {
	for i := 1; i <= len(p); i++ {
		g.paths = append(g.paths, append([]string{}, p[:i]...))
	}
}

func splitScope(t *rapid.T, p []string) (scope, rest []string) {
	if len(p) > 1 && gen.Pick(t, "scoped", 2, 1) == 1 {
		k := rapid.IntRange(1, len(p)-1).Draw(t, "scopelen")
		return p[:k], p[k:]
	}
	return nil, p
}

func strp(s string) *string { return &s }

func genProgram(t *rapid.T, maxStmts int, withConnRefs bool) Program {
	g := &progGen{t: t, groups: map[string]int{}, deletedGroup: map[string]bool{}}
	var prog Program
	n := rapid.IntRange(3, maxStmts).Draw(t, "nstmts")
	for i := 0; i < n; i++ {
		switch gen.Pick(t, "stmtkind", 5, 5, 4, 3, 3) {
		case 0: // object declaration
			p := g.path(true)
			scope, rest := splitScope(t, p)
			s := Stmt{Kind: "obj", Scope: scope, Path: rest, Nested: rapid.Bool().Draw(t, "nested")}
			if rapid.Bool().Draw(t, "haslabel") {
				s.Value = strp(rapid.SampledFrom([]string{"L1", "L2", "second label", "x", "Ünï"}).Draw(t, "lbl"))
			}
			prog.Stmts = append(prog.Stmts, s)
			g.remember(p)
		case 1: // attribute
			p := g.path(true)
			scope, rest := splitScope(t, p)
			k := rapid.SampledFrom(append([]string{"label", "label"}, attrKeys...)).Draw(t, "akey")
			s := Stmt{Kind: "attr", Scope: scope, Path: rest, Key: k}
			if gen.Pick(t, "attrnull", 5, 1) == 0 {
				if k == "label" {
					s.Value = strp(rapid.SampledFrom([]string{"F1", "F2", "field label"}).Draw(t, "flbl"))
				} else {
					s.Value = strp(attrValue(t, k))
				}
			}
			prog.Stmts = append(prog.Stmts, s)
			g.remember(p)
		case 2: // connection
			a, b := g.path(true), g.path(true)
			s := Stmt{Kind: "conn", Src: a, Dst: b, Arrow: rapid.SampledFrom([]string{"->", "->", "<-", "<->", "--"}).Draw(t, "arrow")}
			// same container: optionally write it inside the container with relative keys
			if len(a) > 1 && len(b) > 1 && strings.EqualFold(a[0], b[0]) && gen.Pick(t, "inscope", 1, 1) == 1 {
				s.Scope, s.Src, s.Dst = a[:1], a[1:], b[1:]
				s.Abs = gen.Pick(t, "absform", 2, 1) == 1
				s.Under = !s.Abs && gen.Pick(t, "under", 4, 1) == 1
			}
			if rapid.Bool().Draw(t, "clabel") {
				s.Value = strp(rapid.SampledFrom([]string{"e1", "e2", "calls"}).Draw(t, "clbl"))
			}
			prog.Stmts = append(prog.Stmts, s)
			g.remember(a)
			g.remember(b)
			if s.Under {
				g.remember(append(append([]string{}, s.Scope...), "zz_inner"))
			}
			g.conns = append(g.conns, s)
		case 3: // null on an object
			if len(g.paths) == 0 {
				continue
			}
			p := g.path(false)
			scope, rest := splitScope(t, p)
			prog.Stmts = append(prog.Stmts, Stmt{Kind: "null", Scope: scope, Path: rest})
		default: // indexed connection reference
			if !withConnRefs || len(g.conns) == 0 {
				continue
			}
			c := g.conns[rapid.IntRange(0, len(g.conns)-1).Draw(t, "cidx")]
			if c.Under {
				continue
			}
			s := Stmt{Kind: "connref", Scope: c.Scope, Src: c.Src, Dst: c.Dst, Arrow: c.Arrow, Abs: c.Abs, Index: rapid.IntRange(0, 2).Draw(t, "eidx")}
			if gen.Pick(t, "refrespell", 2, 1) == 1 {
				// names are case-insensitive: the reference may spell each end (and the container the
				// two ends share) differently from the declaration and from each other
				rs := func(p []string) []string {
					out := append([]string{}, p...)
					for i := range out {
						if rapid.Bool().Draw(t, "rsp") {
							out[i] = respell(t, out[i])
						}
					}
					return out
				}
				s.Src, s.Dst = rs(s.Src), rs(s.Dst)
			}
			switch gen.Pick(t, "refkind", 4, 2, 1) {
			case 0:
				s.Key = rapid.SampledFrom(edgeAttrKeys).Draw(t, "ekey")
				s.Value = strp(attrValue(t, s.Key))
			case 1:
				s.Key = "label"
				s.Value = strp(rapid.SampledFrom([]string{"r1", "r2"}).Draw(t, "rlbl"))
			default:
				// deletion of the connection
			}
			prog.Stmts = append(prog.Stmts, s)
		}
	}
	return prog
}

func genC10(t *rapid.T) c10Case {
	return c10Case{Prog: genProgram(t, hx.Pick(14, 30), false)}
}

func coreC10() []c10Case {
	mk := func(stmts ...Stmt) c10Case { return c10Case{Prog: Program{Stmts: stmts}} }
	return []c10Case{
		mk(Stmt{Kind: "obj", Path: []string{"a"}, Value: strp("one")}, Stmt{Kind: "obj", Path: []string{"A"}, Value: strp("two")}, Stmt{Kind: "attr", Path: []string{"a"}, Key: "style.fill", Value: strp("red")}, Stmt{Kind: "attr", Path: []string{"A"}, Key: "style.fill", Value: strp("blue")}),
		mk(Stmt{Kind: "obj", Path: []string{"a", "b", "c"}, Nested: true, Value: strp("deep")}, Stmt{Kind: "null", Path: []string{"a", "b"}}, Stmt{Kind: "obj", Path: []string{"a", "b", "d"}}),
		mk(Stmt{Kind: "obj", Path: []string{"a"}, Value: strp("p")}, Stmt{Kind: "attr", Path: []string{"a"}, Key: "label", Value: strp("f")}, Stmt{Kind: "attr", Path: []string{"a"}, Key: "label", Value: nil}),
		mk(Stmt{Kind: "conn", Src: []string{"a"}, Dst: []string{"b"}, Arrow: "->", Value: strp("e")}, Stmt{Kind: "null", Path: []string{"a"}}, Stmt{Kind: "obj", Path: []string{"a", "c"}}),
		mk(Stmt{Kind: "conn", Scope: []string{"x"}, Src: []string{"a"}, Dst: []string{"b"}, Arrow: "->"}, Stmt{Kind: "conn", Scope: []string{"x"}, Src: []string{"a"}, Dst: []string{"b"}, Arrow: "->", Abs: true}, Stmt{Kind: "conn", Scope: []string{"x"}, Src: []string{"a"}, Dst: []string{"b"}, Arrow: "->", Under: true}, Stmt{Kind: "null", Path: []string{"x", "b"}}),
		mk(Stmt{Kind: "attr", Path: []string{"σ"}, Key: "shape", Value: strp("circle")}, Stmt{Kind: "attr", Path: []string{"Σ"}, Key: "shape", Value: strp("square")}, Stmt{Kind: "attr", Path: []string{"ς"}, Key: "shape", Value: nil}),
	}
}

func TestC10(t *testing.T) {
	hx.Run(t, hx.Spec[c10Case]{Prop: "C10", Core: coreC10, Gen: genC10, Check: checkC10, Timeout: 30 * time.Second})
}
