package p_semantics

import (
	"fmt"
	"sort"
	"strings"

	"verif/harness/gen"
)

// ----- structured programs over the core fragment (generated; never parsed from text) -----

// Stmt is one statement of the core fragment. Paths are written relative to Scope.
type Stmt struct {
	Kind   string   `json:"kind"`            // obj | attr | conn | connref | null
	Scope  []string `json:"scope,omitempty"` // container in whose map the statement is written
	Path   []string `json:"path,omitempty"`  // obj/attr/null: object path relative to scope
	Nested bool     `json:"nested,omitempty"` // obj: print a.b.c as a: {b: {c}}
	Value  *string  `json:"value,omitempty"` // obj: primary label; attr/connref: value (nil = null)
	Key    string   `json:"key,omitempty"`   // attr/connref: label | shape | style.fill | ...
	Src    []string `json:"src,omitempty"`
	Dst    []string `json:"dst,omitempty"`
	Arrow  string   `json:"arrow,omitempty"` // -> <- <-> --
	Index  int      `json:"index,omitempty"`
	Abs    bool     `json:"abs,omitempty"`   // conn/connref: written at root with absolute paths instead of inside Scope
	ScopeAlt []string `json:"scope_alt,omitempty"` // conn/connref with Abs: another spelling (letter case) of Scope, used for the destination side
	Under  bool     `json:"under,omitempty"` // conn: written inside a child map with `_.` prefixes
	Pattern string  `json:"pattern,omitempty"` // glob: one segment containing '*', or "**"
}

type Program struct {
	Stmts []Stmt `json:"stmts"`
}

func needsQuote(s string) bool { return gen.QuoteKey(s) != s }

func key(parts []string) string {
	var out []string
	for _, p := range parts {
		out = append(out, gen.QuoteKey(p))
	}
	return strings.Join(out, ".")
}

func val(v *string) string {
	if v == nil {
		return "null"
	}
	return gen.QuoteValue(*v)
}

// Print renders the program as D2 text.
func (p Program) Print() string {
	var sb strings.Builder
	for _, s := range p.Stmts {
		sb.WriteString(s.print())
	}
	return sb.String()
}

func (s Stmt) print() string {
	open, close := "", ""
	if len(s.Scope) > 0 && !s.Abs {
		open = key(s.Scope) + ": {\n  "
		close = "\n}"
	}
	full := func(p []string) []string {
		if s.Abs {
			return append(append([]string{}, s.Scope...), p...)
		}
		return p
	}
	var body string
	switch s.Kind {
	case "obj":
		p := full(s.Path)
		if s.Nested && len(p) > 1 {
			body = key(p[:1])
			for _, seg := range p[1:] {
				body += ": {" + key([]string{seg})
			}
			if s.Value != nil {
				body += ": " + val(s.Value)
			}
			body += strings.Repeat("}", len(p)-1)
		} else {
			body = key(p)
			if s.Value != nil {
				body += ": " + val(s.Value)
			}
		}
	case "attr":
		body = key(full(s.Path)) + "." + s.Key + ": " + val(s.Value)
	case "null":
		body = key(full(s.Path)) + ": null"
	case "conn":
		src, dst := full(s.Src), full(s.Dst)
		if s.Abs && len(s.ScopeAlt) == len(s.Scope) && len(s.Scope) > 0 {
			dst = append(append([]string{}, s.ScopeAlt...), s.Dst...)
		}
		if s.Under && len(s.Scope) > 0 && !s.Abs {
			// written one level deeper, climbing back with underscores
			return key(s.Scope) + ": {\n  zz_inner: {\n    _." + key(src) + " " + s.Arrow + " _." + key(dst) + labelSuffix(s.Value) + "\n  }\n}\n"
		}
		body = key(src) + " " + s.Arrow + " " + key(dst) + labelSuffix(s.Value)
	case "glob":
		pre := ""
		if s.Abs && len(s.Scope) > 0 {
			pre = key(s.Scope) + "."
		}
		body = pre + s.Pattern + "." + s.Key + ": " + val(s.Value)
	case "edgeglob":
		pre := ""
		if s.Abs && len(s.Scope) > 0 {
			pre = key(s.Scope) + "."
		}
		body = pre + "(* -> *)[*]." + s.Key + ": " + val(s.Value)
	case "globconn":
		body = s.Src[0] + " -> " + s.Dst[0]
	case "connref":
		src, dst := full(s.Src), full(s.Dst)
		if s.Abs && len(s.ScopeAlt) == len(s.Scope) && len(s.Scope) > 0 {
			dst = append(append([]string{}, s.ScopeAlt...), s.Dst...)
		}
		body = fmt.Sprintf("(%s %s %s)[%d]", key(src), s.Arrow, key(dst), s.Index)
		if s.Key != "" {
			body += "." + s.Key
		}
		body += ": " + val(s.Value)
	}
	return open + body + close + "\n"
}

func labelSuffix(v *string) string {
	if v == nil {
		return ""
	}
	return ": " + gen.QuoteValue(*v)
}

// ----- reference model -----

type rObj struct {
	GrayAttrs map[string]bool // attributes whose value the statements leave open
	Name     string // first spelling
	Primary  *string
	LabelFld *string
	primSeq  int
	fldSeq   int
	Attrs    map[string]string // shape, style.fill, ...
	Children []*rObj
	Parent   *rObj
}

type rEdge struct {
	Src, Dst           *rObj
	SrcArrow, DstArrow bool
	Label              *string
	Attrs              map[string]string
	dead               bool
}

type rGlob struct {
	Scope   *rObj
	Pattern string // one segment with '*', or "**"
	Key     string
	Value   string
	EdgeAll bool // (* -> *)[*].<key>: value, in Scope
	// Conn: `SrcPat -> DstPat` in Scope: a connection from every matching direct child of Scope
	// to every other matching direct child, now and whenever such a child is created later
	Conn           bool
	SrcPat, DstPat string
}

type rBoard struct {
	Root  *rObj
	Edges []*rEdge
	Globs []*rGlob
	seq   int
	// Gray marks constructs whose outcome the statements leave open
	Gray   bool
	Errors []string // expected compile errors (kinds)
}

func newBoard() *rBoard { return &rBoard{Root: &rObj{Attrs: map[string]string{}}} }

func (o *rObj) child(name string) *rObj {
	for _, c := range o.Children {
		if strings.EqualFold(c.Name, name) {
			return c
		}
	}
	return nil
}

func (b *rBoard) ensure(from *rObj, path []string) *rObj {
	cur := from
	for _, seg := range path {
		if seg == "_" {
			if cur.Parent != nil {
				cur = cur.Parent
			}
			continue
		}
		c := cur.child(seg)
		if c == nil {
			c = &rObj{Name: seg, Attrs: map[string]string{}, Parent: cur}
			cur.Children = append(cur.Children, c)
			b.globsOnCreate(c)
		}
		cur = c
	}
	return cur
}

func (b *rBoard) lookup(from *rObj, path []string) *rObj {
	cur := from
	for _, seg := range path {
		c := cur.child(seg)
		if c == nil {
			return nil
		}
		cur = c
	}
	return cur
}

func arrows(a string) (bool, bool) {
	switch a {
	case "<-":
		return true, false
	case "<->":
		return true, true
	case "--":
		return false, false
	}
	return false, true
}

func (o *rObj) within(anc *rObj) bool {
	for p := o; p != nil; p = p.Parent {
		if p == anc {
			return true
		}
	}
	return false
}

func (b *rBoard) group(src, dst *rObj, sa, da bool) []*rEdge {
	var out []*rEdge
	for _, e := range b.Edges {
		if !e.dead && e.Src == src && e.Dst == dst && e.SrcArrow == sa && e.DstArrow == da {
			out = append(out, e)
		}
	}
	return out
}

// Apply interprets one statement.
func (b *rBoard) Apply(s Stmt) {
	b.seq++
	scope := b.ensure(b.Root, s.Scope)
	switch s.Kind {
	case "obj":
		o := b.ensure(scope, s.Path)
		if s.Value != nil {
			v := *s.Value
			o.Primary, o.primSeq = &v, b.seq
		}
	case "attr":
		o := b.ensure(scope, s.Path)
		if s.Key == "label" {
			if s.Value == nil {
				o.LabelFld = nil
			} else {
				v := *s.Value
				o.LabelFld, o.fldSeq = &v, b.seq
			}
			return
		}
		if s.Value == nil {
			delete(o.Attrs, s.Key)
		} else {
			o.Attrs[s.Key] = *s.Value
		}
	case "null":
		o := b.lookup(scope, s.Path)
		if o == nil {
			return // deleting something that does not exist: nothing happens
		}
		par := o.Parent
		for i, c := range par.Children {
			if c == o {
				par.Children = append(par.Children[:i:i], par.Children[i+1:]...)
				break
			}
		}
		for _, e := range b.Edges {
			if e.Src.within(o) || e.Dst.within(o) {
				e.dead = true
			}
		}
	case "glob":
		b.seq--
		b.DeclareGlob(&rGlob{Scope: scope, Pattern: s.Pattern, Key: s.Key, Value: *s.Value})
	case "edgeglob":
		b.seq--
		b.DeclareGlob(&rGlob{Scope: scope, Key: s.Key, Value: *s.Value, EdgeAll: true})
	case "globconn":
		b.seq--
		b.DeclareConnGlob(scope, s.Src[0], s.Dst[0])
	case "conn":
		src := b.ensure(scope, s.Src)
		dst := b.ensure(scope, s.Dst)
		sa, da := arrows(s.Arrow)
		b.addEdge(src, dst, sa, da, s.Value)
	case "connref":
		src := b.lookup(scope, s.Src)
		dst := b.lookup(scope, s.Dst)
		sa, da := arrows(s.Arrow)
		var grp []*rEdge
		if src != nil && dst != nil {
			grp = b.group(src, dst, sa, da)
		}
		if s.Index >= len(grp) {
			if s.Key == "" && s.Value == nil {
				b.Errors = append(b.Errors, "missing-index-null")
			} else {
				b.Errors = append(b.Errors, "missing-index")
			}
			return
		}
		e := grp[s.Index]
		switch {
		case s.Key == "" && s.Value == nil:
			e.dead = true
		case s.Key == "" || s.Key == "label":
			if s.Value == nil {
				e.Label = nil
			} else {
				v := *s.Value
				e.Label = &v
			}
		default:
			if s.Value == nil {
				delete(e.Attrs, s.Key)
			} else {
				e.Attrs[s.Key] = *s.Value
			}
		}
	}
}

func (o *rObj) label() string {
	switch {
	case o.Primary != nil && (o.LabelFld == nil || o.primSeq > o.fldSeq):
		return *o.Primary
	case o.LabelFld != nil:
		return *o.LabelFld
	}
	return o.Name
}

func (o *rObj) path() []string {
	if o.Parent == nil {
		return nil
	}
	return append(o.Parent.path(), o.Name)
}

// Flat is the comparable form of a board: objects by folded path, edges in order.
type flatObj struct {
	Path  string
	Name  string
	Label string
	// LabelAlt: a second admissible label where the statements leave the outcome open (a
	// primary value assigned after an explicit .label: d2 lets the .label field win)
	LabelAlt *string
	Attrs    map[string]string
	Gray     map[string]bool
}

type flatEdge struct {
	Src, Dst           string
	SrcArrow, DstArrow bool
	Index              int
	Label              string
	Attrs              map[string]string
}

func foldPath(p []string) string {
	var out []string
	for _, s := range p {
		out = append(out, gen.FoldKey(s))
	}
	return strings.Join(out, "\x1f")
}

func (b *rBoard) Flat() ([]flatObj, []flatEdge) {
	var objs []flatObj
	var walk func(o *rObj)
	walk = func(o *rObj) {
		for _, c := range o.Children {
			fo := flatObj{Path: foldPath(c.path()), Name: c.Name, Label: c.label(), Attrs: c.Attrs, Gray: c.GrayAttrs}
			if c.Primary != nil && c.LabelFld != nil && c.primSeq > c.fldSeq {
				fo.LabelAlt = c.LabelFld
			}
			objs = append(objs, fo)
			walk(c)
		}
	}
	walk(b.Root)
	sort.Slice(objs, func(i, j int) bool { return objs[i].Path < objs[j].Path })
	var edges []flatEdge
	count := map[string]int{}
	for _, e := range b.Edges {
		if e.dead {
			continue
		}
		fe := flatEdge{Src: foldPath(e.Src.path()), Dst: foldPath(e.Dst.path()), SrcArrow: e.SrcArrow, DstArrow: e.DstArrow, Attrs: e.Attrs}
		k := fmt.Sprintf("%s|%v|%v|%s", fe.Src, fe.SrcArrow, fe.DstArrow, fe.Dst)
		fe.Index = count[k]
		count[k]++
		if e.Label != nil {
			fe.Label = *e.Label
		}
		edges = append(edges, fe)
	}
	return objs, edges
}

// ----- globs -----

// matchPattern: literal pieces case-insensitively, in order, the first anchored at the start.
// anchoredTail additionally requires the last piece to end the name. The property statement
// ("whose name matches the pattern") means the anchored reading; d2 leaves the tail open, which
// an existing test pins, so names where the two readings differ are treated as gray.
func matchPattern(name, pattern string, anchoredTail bool) bool {
	n := strings.ToLower(name)
	parts := strings.Split(strings.ToLower(pattern), "*")
	if len(parts) == 1 {
		return n == parts[0]
	}
	if !strings.HasPrefix(n, parts[0]) {
		return false
	}
	n = n[len(parts[0]):]
	for i := 1; i < len(parts); i++ {
		p := parts[i]
		last := i == len(parts)-1
		if last && anchoredTail {
			return strings.HasSuffix(n, p)
		}
		if p == "" {
			continue
		}
		j := strings.Index(n, p)
		if j < 0 {
			return false
		}
		n = n[j+len(p):]
	}
	return true
}

func (b *rBoard) globTargets(g *rGlob, o *rObj) (match, gray bool) {
	if g.Pattern == "**" {
		return o != g.Scope && o.within(g.Scope), false
	}
	if o.Parent != g.Scope {
		return false, false
	}
	a, u := matchPattern(o.Name, g.Pattern, true), matchPattern(o.Name, g.Pattern, false)
	return a, a != u
}

func (b *rBoard) applyGlob(g *rGlob, o *rObj) {
	m, gray := b.globTargets(g, o)
	if gray {
		if o.GrayAttrs == nil {
			o.GrayAttrs = map[string]bool{}
		}
		o.GrayAttrs[g.Key] = true
		return
	}
	if !m {
		return
	}
	if g.Key == "label" {
		v := g.Value
		o.LabelFld, o.fldSeq = &v, b.seq
		return
	}
	o.Attrs[g.Key] = g.Value
}

func (b *rBoard) globsOnCreate(o *rObj) {
	for _, g := range b.Globs {
		if g.Conn {
			if o.Parent != g.Scope {
				continue
			}
			for _, x := range o.Parent.Children {
				if x == o {
					continue
				}
				if matchPattern(o.Name, g.SrcPat, true) && matchPattern(x.Name, g.DstPat, true) {
					b.addEdge(o, x, false, true, nil)
				}
				if matchPattern(x.Name, g.SrcPat, true) && matchPattern(o.Name, g.DstPat, true) {
					b.addEdge(x, o, false, true, nil)
				}
			}
			continue
		}
		if !g.EdgeAll {
			b.applyGlob(g, o)
		}
	}
}

// addEdge appends a connection and lets the connection globs in force act on it.
func (b *rBoard) addEdge(src, dst *rObj, sa, da bool, label *string) *rEdge {
	e := &rEdge{Src: src, Dst: dst, SrcArrow: sa, DstArrow: da, Attrs: map[string]string{}}
	if label != nil {
		v := *label
		e.Label = &v
	}
	b.Edges = append(b.Edges, e)
	for _, g := range b.Globs {
		if g.EdgeAll {
			b.applyEdgeGlob(g, e)
		}
	}
	return e
}

// DeclareConnGlob: `P -> Q` written in scope. A pattern without a star names one object, which
// the statement creates like any connection end.
func (b *rBoard) DeclareConnGlob(scope *rObj, srcPat, dstPat string) {
	if !strings.Contains(srcPat, "*") {
		b.ensure(scope, []string{srcPat})
	}
	if !strings.Contains(dstPat, "*") {
		b.ensure(scope, []string{dstPat})
	}
	g := &rGlob{Scope: scope, Conn: true, SrcPat: srcPat, DstPat: dstPat}
	b.Globs = append(b.Globs, g)
	kids := append([]*rObj{}, scope.Children...)
	for _, x := range kids {
		for _, y := range kids {
			if x != y && matchPattern(x.Name, srcPat, true) && matchPattern(y.Name, dstPat, true) {
				b.addEdge(x, y, false, true, nil)
			}
		}
	}
}

func (b *rBoard) walk(o *rObj, f func(*rObj)) {
	for _, c := range o.Children {
		f(c)
		b.walk(c, f)
	}
}

// DeclareGlob registers the glob and applies it to everything that exists now.
func (b *rBoard) DeclareGlob(g *rGlob) {
	b.seq++
	b.Globs = append(b.Globs, g)
	if g.EdgeAll {
		for _, e := range b.Edges {
			b.applyEdgeGlob(g, e)
		}
		return
	}
	b.walk(b.Root, func(o *rObj) { b.applyGlob(g, o) })
}

// (* -> *)[*] in scope S: connections between two direct children of S
func (b *rBoard) applyEdgeGlob(g *rGlob, e *rEdge) {
	if e.dead || e.Src.Parent != g.Scope || e.Dst.Parent != g.Scope {
		return
	}
	if e.SrcArrow || !e.DstArrow {
		return // the pattern is written with ->: it addresses connections of that direction
	}
	e.Attrs[g.Key] = g.Value
}
