package p_semantics

import (
	"fmt"
	"sort"
	"strings"

	"verif/harness/gen"
)

// ----- structured programs over the core fragment (generated; never parsed from text) -----

// Stmt is one statement of the core fragment. Paths are written relative to Scope.
type Stmt struct {
	Kind   string   `json:"kind"`            // obj | attr | conn | connref | null
	Scope  []string `json:"scope,omitempty"` // container in whose map the statement is written
	Path   []string `json:"path,omitempty"`  // obj/attr/null: object path relative to scope
	Nested bool     `json:"nested,omitempty"` // obj: print a.b.c as a: {b: {c}}
	Value  *string  `json:"value,omitempty"` // obj: primary label; attr/connref: value (nil = null)
	Key    string   `json:"key,omitempty"`   // attr/connref: label | shape | style.fill | ...
	Src    []string `json:"src,omitempty"`
	Dst    []string `json:"dst,omitempty"`
	Arrow  string   `json:"arrow,omitempty"` // -> <- <-> --
	Index  int      `json:"index,omitempty"`
	Abs    bool     `json:"abs,omitempty"`   // conn/connref: written at root with absolute paths instead of inside Scope
	Under  bool     `json:"under,omitempty"` // conn: written inside a child map with `_.` prefixes
}

type Program struct {
	Stmts []Stmt `json:"stmts"`
}

func needsQuote(s string) bool { return gen.QuoteKey(s) != s }

func key(parts []string) string {
	var out []string
	for _, p := range parts {
		out = append(out, gen.QuoteKey(p))
	}
	return strings.Join(out, ".")
}

func val(v *string) string {
	if v == nil {
		return "null"
	}
	return gen.QuoteValue(*v)
}

// Print renders the program as D2 text.
func (p Program) Print() string {
	var sb strings.Builder
	for _, s := range p.Stmts {
		sb.WriteString(s.print())
	}
	return sb.String()
}

func (s Stmt) print() string {
	open, close := "", ""
	if len(s.Scope) > 0 && !s.Abs {
		open = key(s.Scope) + ": {\n  "
		close = "\n}"
	}
	full := func(p []string) []string {
		if s.Abs {
			return append(append([]string{}, s.Scope...), p...)
		}
		return p
	}
	var body string
	switch s.Kind {
	case "obj":
		p := full(s.Path)
		if s.Nested && len(p) > 1 {
			body = key(p[:1])
			for _, seg := range p[1:] {
				body += ": {" + key([]string{seg})
			}
			if s.Value != nil {
				body += ": " + val(s.Value)
			}
			body += strings.Repeat("}", len(p)-1)
		} else {
			body = key(p)
			if s.Value != nil {
				body += ": " + val(s.Value)
			}
		}
	case "attr":
		body = key(full(s.Path)) + "." + s.Key + ": " + val(s.Value)
	case "null":
		body = key(full(s.Path)) + ": null"
	case "conn":
		src, dst := full(s.Src), full(s.Dst)
		if s.Under && len(s.Scope) > 0 && !s.Abs {
			// written one level deeper, climbing back with underscores
			return key(s.Scope) + ": {\n  zz_inner: {\n    _." + key(src) + " " + s.Arrow + " _." + key(dst) + labelSuffix(s.Value) + "\n  }\n}\n"
		}
		body = key(src) + " " + s.Arrow + " " + key(dst) + labelSuffix(s.Value)
	case "connref":
		src, dst := full(s.Src), full(s.Dst)
		body = fmt.Sprintf("(%s %s %s)[%d]", key(src), s.Arrow, key(dst), s.Index)
		if s.Key != "" {
			body += "." + s.Key
		}
		body += ": " + val(s.Value)
	}
	return open + body + close + "\n"
}

func labelSuffix(v *string) string {
	if v == nil {
		return ""
	}
	return ": " + gen.QuoteValue(*v)
}

// ----- reference model -----

type rObj struct {
	Name     string // first spelling
	Primary  *string
	LabelFld *string
	primSeq  int
	fldSeq   int
	Attrs    map[string]string // shape, style.fill, ...
	Children []*rObj
	Parent   *rObj
}

type rEdge struct {
	Src, Dst           *rObj
	SrcArrow, DstArrow bool
	Label              *string
	Attrs              map[string]string
	dead               bool
}

type rBoard struct {
	Root  *rObj
	Edges []*rEdge
	seq   int
	// Gray marks constructs whose outcome the statements leave open
	Gray   bool
	Errors []string // expected compile errors (kinds)
}

func newBoard() *rBoard { return &rBoard{Root: &rObj{Attrs: map[string]string{}}} }

func (o *rObj) child(name string) *rObj {
	for _, c := range o.Children {
		if strings.EqualFold(c.Name, name) {
			return c
		}
	}
	return nil
}

func (b *rBoard) ensure(from *rObj, path []string) *rObj {
	cur := from
	for _, seg := range path {
		if seg == "_" {
			if cur.Parent != nil {
				cur = cur.Parent
			}
			continue
		}
		c := cur.child(seg)
		if c == nil {
			c = &rObj{Name: seg, Attrs: map[string]string{}, Parent: cur}
			cur.Children = append(cur.Children, c)
		}
		cur = c
	}
	return cur
}

func (b *rBoard) lookup(from *rObj, path []string) *rObj {
	cur := from
	for _, seg := range path {
		c := cur.child(seg)
		if c == nil {
			return nil
		}
		cur = c
	}
	return cur
}

func arrows(a string) (bool, bool) {
	switch a {
	case "<-":
		return true, false
	case "<->":
		return true, true
	case "--":
		return false, false
	}
	return false, true
}

func (o *rObj) within(anc *rObj) bool {
	for p := o; p != nil; p = p.Parent {
		if p == anc {
			return true
		}
	}
	return false
}

func (b *rBoard) group(src, dst *rObj, sa, da bool) []*rEdge {
	var out []*rEdge
	for _, e := range b.Edges {
		if !e.dead && e.Src == src && e.Dst == dst && e.SrcArrow == sa && e.DstArrow == da {
			out = append(out, e)
		}
	}
	return out
}

// Apply interprets one statement.
func (b *rBoard) Apply(s Stmt) {
	b.seq++
	scope := b.ensure(b.Root, s.Scope)
	switch s.Kind {
	case "obj":
		o := b.ensure(scope, s.Path)
		if s.Value != nil {
			v := *s.Value
			o.Primary, o.primSeq = &v, b.seq
		}
	case "attr":
		o := b.ensure(scope, s.Path)
		if s.Key == "label" {
			if s.Value == nil {
				o.LabelFld = nil
			} else {
				v := *s.Value
				o.LabelFld, o.fldSeq = &v, b.seq
			}
			return
		}
		if s.Value == nil {
			delete(o.Attrs, s.Key)
		} else {
			o.Attrs[s.Key] = *s.Value
		}
	case "null":
		o := b.lookup(scope, s.Path)
		if o == nil {
			return // deleting something that does not exist: nothing happens
		}
		par := o.Parent
		for i, c := range par.Children {
			if c == o {
				par.Children = append(par.Children[:i:i], par.Children[i+1:]...)
				break
			}
		}
		for _, e := range b.Edges {
			if e.Src.within(o) || e.Dst.within(o) {
				e.dead = true
			}
		}
	case "conn":
		src := b.ensure(scope, s.Src)
		dst := b.ensure(scope, s.Dst)
		sa, da := arrows(s.Arrow)
		e := &rEdge{Src: src, Dst: dst, SrcArrow: sa, DstArrow: da, Attrs: map[string]string{}}
		if s.Value != nil {
			v := *s.Value
			e.Label = &v
		}
		b.Edges = append(b.Edges, e)
	case "connref":
		src := b.lookup(scope, s.Src)
		dst := b.lookup(scope, s.Dst)
		sa, da := arrows(s.Arrow)
		var grp []*rEdge
		if src != nil && dst != nil {
			grp = b.group(src, dst, sa, da)
		}
		if s.Index >= len(grp) {
			if s.Key == "" && s.Value == nil {
				b.Errors = append(b.Errors, "missing-index-null")
			} else {
				b.Errors = append(b.Errors, "missing-index")
			}
			return
		}
		e := grp[s.Index]
		switch {
		case s.Key == "" && s.Value == nil:
			e.dead = true
		case s.Key == "" || s.Key == "label":
			if s.Value == nil {
				e.Label = nil
			} else {
				v := *s.Value
				e.Label = &v
			}
		default:
			if s.Value == nil {
				delete(e.Attrs, s.Key)
			} else {
				e.Attrs[s.Key] = *s.Value
			}
		}
	}
}

func (o *rObj) label() string {
	switch {
	case o.Primary != nil && (o.LabelFld == nil || o.primSeq > o.fldSeq):
		return *o.Primary
	case o.LabelFld != nil:
		return *o.LabelFld
	}
	return o.Name
}

func (o *rObj) path() []string {
	if o.Parent == nil {
		return nil
	}
	return append(o.Parent.path(), o.Name)
}

// Flat is the comparable form of a board: objects by folded path, edges in order.
type flatObj struct {
	Path  string
	Name  string
	Label string
	// LabelAlt: a second admissible label where the statements leave the outcome open (a
	// primary value assigned after an explicit .label: d2 lets the .label field win)
	LabelAlt *string
	Attrs    map[string]string
}

type flatEdge struct {
	Src, Dst           string
	SrcArrow, DstArrow bool
	Index              int
	Label              string
	Attrs              map[string]string
}

func foldPath(p []string) string {
	var out []string
	for _, s := range p {
		out = append(out, gen.FoldKey(s))
	}
	return strings.Join(out, "\x1f")
}

func (b *rBoard) Flat() ([]flatObj, []flatEdge) {
	var objs []flatObj
	var walk func(o *rObj)
	walk = func(o *rObj) {
		for _, c := range o.Children {
			fo := flatObj{Path: foldPath(c.path()), Name: c.Name, Label: c.label(), Attrs: c.Attrs}
			if c.Primary != nil && c.LabelFld != nil && c.primSeq > c.fldSeq {
				fo.LabelAlt = c.LabelFld
			}
			objs = append(objs, fo)
			walk(c)
		}
	}
	walk(b.Root)
	sort.Slice(objs, func(i, j int) bool { return objs[i].Path < objs[j].Path })
	var edges []flatEdge
	count := map[string]int{}
	for _, e := range b.Edges {
		if e.dead {
			continue
		}
		fe := flatEdge{Src: foldPath(e.Src.path()), Dst: foldPath(e.Dst.path()), SrcArrow: e.SrcArrow, DstArrow: e.DstArrow, Attrs: e.Attrs}
		k := fmt.Sprintf("%s|%v|%v|%s", fe.Src, fe.SrcArrow, fe.DstArrow, fe.Dst)
		fe.Index = count[k]
		count[k]++
		if e.Label != nil {
			fe.Label = *e.Label
		}
		edges = append(edges, fe)
	}
	return objs, edges
}
