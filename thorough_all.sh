#!/bin/sh
# validation run of the thorough tier (sizes reduced for the heaviest properties so that the whole
# pass fits into one session; the registered thorough commands use the sizes in props.d)
run() { p=$1; shift; timeout 1500 ./check $p --tier thorough "$@" 2>&1 | grep -v KNOWN-FINDING | tail -4; }
for p in C01 C02 C03 C05 C43 C04 C06 C07 C09 C16 C10 C11 C13 C14; do run $p; done
run C08 --checks 100000; run C12 --checks 400000; run C15 --checks 200000
for p in C36 C37 C38 C39 C40 C41; do run $p --checks 30000; done
run C27 --checks 2000000; run C33; run C46 --checks 5000; run C42 --checks 80000
run C30 --checks 7000; run C31 --checks 3000; run C32 --checks 2500; run C47 --checks 3000
run C34 --checks 1200; run C35 --checks 130000; run C48 --checks 24
for p in C17 C18 C19 C20 C21 C22 C23 C24 C26 C28 C29; do run $p --checks 6000; done
run C25 --checks 1000; run C44 --checks 120; run C45 --checks 400
