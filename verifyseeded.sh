#!/bin/sh
# usage: verifyseeded.sh [IDs...]  - applies each seeded/<ID>/patch.diff to a fresh scratch worktree of /repo HEAD,
# runs the demonstration there (must fail) and on /repo (must pass). Nothing is left behind.
export GOFLAGS=-mod=mod GOPROXY=off
IDS="$@"; [ -z "$IDS" ] && IDS=$(ls /verif/seeded)
for ID in $IDS; do
  S=/verif/seeded/$ID; WT=/tmp/vs-$ID
  git -C /repo worktree add -q $WT HEAD 2>/dev/null || { echo "$ID: worktree failed"; continue; }
  if ! git -C $WT apply $S/patch.diff 2>/tmp/vs-$ID.err; then echo "$ID: PATCH DOES NOT APPLY to HEAD: $(head -1 /tmp/vs-$ID.err)"; git -C /repo worktree remove --force $WT; continue; fi
  run() { D=/tmp/vsd-$ID; rm -rf $D; mkdir -p $D; cp $S/demo_test.go $D/; sed -e 's#^module .*#module demo#' /repo/go.mod > $D/go.mod; printf '\nrequire oss.terrastruct.com/d2 v0.0.0\nreplace oss.terrastruct.com/d2 => %s\n' "$1" >> $D/go.mod; cp /repo/go.sum $D/; (cd $D && go test -vet=off -count=1 ./... >/tmp/vs-$ID.out 2>&1; echo $?); }
  a=$(run $WT); b=$(run /repo)
  echo "$ID: demo on change rc=$a (want 1), on /repo rc=$b (want 0) $( [ "$a" != 0 ] && [ "$b" = 0 ] && echo OK || echo PROBLEM)"
  rm -rf /tmp/vsd-$ID /tmp/vs-$ID.err /tmp/vs-$ID.out; git -C /repo worktree remove --force $WT
done
