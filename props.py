# Per-property run parameters for ./check (engine package, campaign sizes, evidence rule text).
PROPS = {
    "C01": dict(
        engine="p_syntax", quick_checks=200000, thorough_checks=3000000, quick_shards=14, thorough_shards=16,
        rule="inputs: hostile byte constants (unterminated openers, nest runs up to 20k, BOMs, invalid UTF-8, long keys), every .d2 file / "
             "txtar section / test-table literal of the repo (also re-encoded as UTF-16LE+BOM), then rapid: raw bytes, syntax-biased runes, "
             "mutated seeds, grammar text and token-mutated grammar text, each parsed with Parse (UTF16Pos on/off), ParseKey, ParseMapKey, "
             "ParseValue. non-trivial = Parse produced more than the root node or at least one error; distinct by SHA-256 of the case.",
        assumptions=["a per-case watchdog of 20 s stands in for 'terminates' (typical cost is microseconds)"],
    ),
    "C02": dict(
        engine="p_syntax", quick_checks=100000, thorough_checks=2000000, quick_shards=14, thorough_shards=16,
        rule="inputs: snippets, every repo .d2 file/txtar section, hostile constants, then rapid grammar text with multi-byte/astral/tab/CRLF "
             "splices, token mutations (valid and invalid UTF-8), hostile names; each in UTF-8 and UTF-16 position mode and additionally as "
             "UTF-16LE+BOM bytes. oracle: independent offset table (line/col/offset per rune boundary), range inside input, start<=end, "
             "child inside parent, key-segment source re-parses to the same segment. non-trivial = >=5 nodes and (non-ASCII rune or >=1 error).",
        assumptions=["newline is '\\n' only, as Position documents"],
    ),
}
