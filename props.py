# Per-property run parameters for ./check: merged from props.d/*.py (one fragment per engine).
import glob, os

PROPS = {}
for _f in sorted(glob.glob(os.path.join(os.path.dirname(os.path.abspath(__file__)), "props.d", "*.py"))):
    _ns = {}
    exec(compile(open(_f).read(), _f, "exec"), _ns)
    PROPS.update(_ns.get("PROPS", {}))
