# p_oracle engine: C36 C37 C38 C39 C40 C41 (stateful checks of the editing API, d2oracle)
_MACHINE = (
    "one shared machine (harness/p_oracle/machine_test.go). a case is a value {files: index.d2 (+ imp.d2/imp2.d2), ops: [Op]}; every Op carries "
    "small integers (kind, object/connection #A, object #B, fresh-name index N, attribute index T, value index V, flags F, board index Bd) that are "
    "resolved against the CURRENT compiled graph when the op is executed, so a case replays from its JSON and shrinks field by field. start states: "
    "structured diagrams (gen.GenDiagram: containers <= 3 deep, parallel connections, self loops, shapes, styles, sizes, constant nears, links, "
    "tooltips, names needing quotes / non-ASCII) printed by a printer that mixes nested blocks, dotted keys, re-opened blocks, late dotted attribute "
    "keys, connections written inside their common container or through `_`; every object and connection carries a unique marker label L<n>; 35-45 % "
    "of the starts have layers/scenarios/steps (<= 2 levels, scenario/step blocks override and extend what they inherit), 18 % import a second file "
    "(`...@imp` or `k: @imp`). histories of 1-20 edits (thorough 1-60): Create (object under root/container, with a missing container, colliding "
    "name; connection between existing objects incl. parallel), Set (label with fresh marker + hostile suffix, raw label values, md block string; "
    "shape, 18 style keywords, width/height, near, link, tooltip, arrowhead shape/label/filled with in-domain values), Delete (object, container, "
    "connection, attribute), Rename (fresh / colliding name), Move (into / out of containers, +-includeDescendants, same or new name, never into its "
    "own subtree), ReconnectEdge, UpdateImport (remove / re-path), each addressed to the root or a nested board. names: 25 plain, ~115 from "
    "gen.HostileNames (minus reserved-keyword spellings, newline/empty, and letters with special case folding such as ς ſ K ı: see C06). after every successful edit the state is recompiled from "
    "d2format.Format(g.AST); a refused edit (error) keeps the state and is counted (refused:<op>); elements without marker (new objects, containers "
    "created on the way, raw labels) are re-marked by automatic, fully checked Set calls. a panic inside an API call is a violation of the property "
    "governing the operation (Create/Set C37, Delete C38, Rename/Move C39, *IDDeltas C40, Reconnect/UpdateImport C36). every failing history and "
    "every 8th history is executed twice; differing outcomes are reported as nondeterministic-edit. failing histories are minimised (edits, source "
    "lines/blocks, op fields) before they are reported. hand-written core: 547 histories (every kind x element x flag on two fixed programs, every "
    "board of a fixed board tree, an import file set, parallel connections with indexed references, the design-phase probes) plus the ~100 committed reproducers. non-trivial = the property's operation succeeded on a non-root-level "
    "element or on a nested board after >= 1 earlier successful edit; distinct by SHA-256 of the case. ")

_COMMON = [
    "the start state compiles (others are rejected and counted)",
    "signatures of violations carry the construct the edit touches (imported element, `key: @file`, source with `x: null`, dotted keys / `_`, "
    "inherited target, nested board); for imported elements and sources with null statements all failure kinds of one operation share one signature",
]

def _p(rule, extra=(), qc=4000, tc=100000):
    return dict(engine="p_oracle", quick_checks=qc, thorough_checks=tc, quick_shards=14, thorough_shards=16,
                quick_budget_s=300, thorough_budget_s=1500, needs_cli=False, level="exploration",
                gomaxprocs=[2],  # 14-16 single-purpose processes: more threads per process only fight over the collector
                rule=_MACHINE + rule, assumptions=_COMMON + list(extra))

PROPS = {
    "C36": _p("C36 oracle, after every successful edit: t' = Format(g'.AST) compiles (same file set); canon(compile(t')).Sorted() == "
              "canon(g').Sorted() for the returned graph, boards recursively; Format(Parse(t')) == t'. UpdateImport: the returned text compiles and is "
              "formatter-stable."),
    "C37": _p("C37 oracle: Create => the returned key denotes (d2oracle.GetObj/GetEdge) an element that did not exist and exists now; a new connection "
              "joins the two requested objects and does not renumber an existing parallel one; the new elements are exactly that element plus "
              "ancestors on its path; no element lost; no cell (label, language, shape, every style keyword, icon, tooltip, link, width, height, top, "
              "left, near, direction, grid-*, label/icon/tooltip position, classes, arrowhead cells, ID, parent, ends, index) of another element "
              "differs - on the addressed board, on boards that start from it (objects only), and on all other boards (no difference at all). "
              "Set => the cell equals the value exactly (EqualFold for shape, near, text-transform, font, fill-pattern, arrowhead shape), language = "
              "markdown for a md block string, no other element differs, and in the target only the cell (label: + language, shape; arrowhead: "
              "cells of that arrowhead).",
              ["elements are matched by ID for Create/Set (these edits never rename)",
               "white space at the ends of a block-string label is not asserted (block strings cannot carry it)"]),
    "C38": _p("C38 oracle, elements matched by marker: Delete(object) => it and exactly the connections attached to it are gone; each child lives "
              "under the deleted object's parent, with its name unless a sibling there has it (EqualFold); deeper descendants and their connections "
              "change nothing but the ID prefix (parallel ones may be renumbered); nothing else differs; nothing new. Delete(connection) => exactly it "
              "is gone, later parallel ones (same ends, same arrow) have index-1, nothing else differs. Delete(attribute) => the cell is absent "
              "afterwards, no other cell of any element differs. boards that do not start from the addressed one: no difference.",
              ["only constant nears are generated (a near that names a deleted object has to change)",
               "boards that start from the addressed board are not compared for Delete"]),
    "C39": _p("C39 oracle, elements matched by marker: no marker lost; new elements only as containers above the moved object; the target lives "
              "under the destination container (Move across containers) and only its ID/parent differ; with includeDescendants every descendant "
              "keeps its parent; without, each child lives under the target's former parent with its name unless taken there; deeper descendants "
              "keep theirs; every connection joins the same two markers with the same attributes; connections not attached to the moved subtree and "
              "all other objects do not differ at all; boards that do not start from the addressed one: no difference.",
              ["a Move within the same container is a rename (children stay) whatever includeDescendants says",
               "the index of a connection attached to the moved subtree may change (parallel connections swap order): counted, not asserted",
               "the new name itself (uniquified or not) is not asserted"]),
    "C40": _p("C40 oracle: DeleteIDDeltas / RenameIDDeltas / MoveIDDeltas (root board only: it takes no board path) / ReconnectEdgeIDDeltas are "
              "computed on the graph, then the edit is applied to the same graph; for every marker present before and after: new ID == delta[old ID] "
              "if predicted, else == old ID; no delta for an element the edit removes.",
              ["a prediction that returns an error while the edit succeeds is counted, not asserted",
               "edits that lose elements they must keep (C38/C39 findings) are not compared with their prediction (counted: unchecked:edit-lost-elements)",
               "only histories in which every element of the addressed board carries a unique marker before and after are compared"]),
    "C41": _p("C41 oracle, edits with a non-empty board path: canon (objects, attributes, connections; nested boards cut off) of every board that "
              "does not start from the addressed one (layers never inherit; a scenario starts from its parent board, step k from step k-1, the first "
              "from the parent) is unchanged after a successful edit; after a refused edit the caller's graph is printed (Format(g.AST)), must "
              "compile, and the same boards must be unchanged. generator: 85 % of the starts have boards, 85 % of the edits address a nested board.",
              ["what a refused edit does to the addressed board itself is not asserted"]),
}
