# p_shape engine: C27 (lib/shape fit + trace), C33 (d2animate keyframes)
PROPS = {
    "C27": dict(
        engine="p_shape", quick_checks=100000, thorough_checks=5000000, quick_shards=14, thorough_shards=16,
        quick_budget_s=240, thorough_budget_s=1500, needs_cli=False, level="exploration",
        rule="placeholder",
    ),
}
