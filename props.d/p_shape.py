# p_shape engine: C27 (lib/shape fit + trace), C33 (d2animate keyframes)
PROPS = {
    "C27": dict(
        engine="p_shape", quick_checks=100000, thorough_checks=5000000, quick_shards=14, thorough_shards=16,
        quick_budget_s=240, thorough_budget_s=1500, needs_cli=False, level="exploration",
        rule="every shape type constant of lib/shape (the list is compared with the source at start). fit cases: core grid 23 types x 20x20 content "
             "sizes (0.5..3000: integers, halves, class boundaries) x 6 padding pairs (0,0 / the shape's default / 200,200 / 0,200 / 200,0 / 7.5,13), "
             "then rapid: integer, half, tiny, large and float sizes, paddings 0 / default / integer / float in [0,200], box origin 0, integer or "
             "fractional. oracle: (W,H)=GetDimensionsToFit on the content box as SizeToContent does, W=H=max for AspectRatio1 shapes; GetInnerBox "
             "(cloud: GetInnerBoxForContent(w,h) and the SetInnerBoxAspectRatio pipeline) has width>=w, height>=h (1e-6 relative) and lies in the box. "
             "trace cases: core grid types x 9 boxes (square, wide, tall, fractional, small, large) x 6 aim points x {24 angles, 4 exact axis "
             "directions, 4 directions 0.002 rad off an axis} x 2 distances, then rapid boxes 2..3000 px, aim, angle (free / exactly axial / within "
             "0.05 rad of an axis), previous-point distance 0.01..3000, border point exact or rounded to integers. oracle: if the ray previous point "
             "-> border point enters the independently flattened outline (>= 2 crossings, first chord >= 1 px deep; else counted gray), "
             "TraceToShapeBorder's point is within 1.5 px of that outline (SVG path data flattened to 0.01 px; ellipse for oval/circle; rectangle for "
             "shapes without path data). non-trivial = non-rectangular shape type; distinct by SHA-256 of the case. No symbolic reasoning: search only.",
        assumptions=[
            "'content' is the content size alone; inner >= content + padding is not promised by the code (oval pads along the diagonal) and is only counted",
            "the border point lies on the box border and the previous point outside the box (documented precondition of TraceToShapeBorder)",
            "rays that miss or graze the drawn outline, and boxes so small that the drawn outline leaves the box by more than 2.5 px, are counted, not asserted",
            "coordinates within +-20000 so that the float32 truncation inside TraceToShapeBorder stays below 0.01 px",
        ],
    ),
    "C33": dict(
        engine="p_shape", quick_checks=210, thorough_checks=16000, quick_shards=14, thorough_shards=16,
        quick_budget_s=300, thorough_budget_s=1500, needs_cli=False, level="exploration",
        rule="(n boards, interval T ms): core n in 1..130 x T in {1,2,3,7,16,100,1000,1200,60000} plus n in {131,199..202,256,500,999..1001,2000} x "
             "T in {1,2,5,99,100,101,1000,1e7}; rapid n<=2000 (biased to 1..20 and 90..210), T<=1e7. d2animate.Wrap is called with n stub boards; every "
             "board element must reference @keyframes number i with duration n*T ms; percentages in [0,100], non-decreasing; the keyframes are evaluated "
             "with CSS semantics at every integer and half millisecond when n*T<=20000, else at 2000 stratified times, plus just outside every transition "
             "window and mid-interval: outside the windows [kT-1-s, kT+s] (s = 5e-9*n*T + 1e-6 ms print rounding) board floor(t/T) has opacity 1, every "
             "other board 0. non-trivial = n>=2 and at least n asserted times.",
        assumptions=[
            "a later keyframe rule wins for an equal offset and equal offsets merge (CSS Animations); the timing function only matters inside fades",
            "each Wrap call costs ~0.15 s (font subsetting), which bounds the number of cases",
        ],
    ),
}
