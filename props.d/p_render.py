# p_render engine: C25 C30
PROPS = {
    "C25": dict(
        engine="p_render", quick_checks=160, thorough_checks=4000, quick_shards=14, thorough_shards=16, quick_budget_s=500, thorough_budget_s=3400,
        gomaxprocs=[1, 4, 16, 2], thorough_race=True,
        rule="structured compilable diagrams (markdown, code, latex, class/sql_table, grids, sequences, all shapes, hostile names; sketch on in 1/5), dagre "
             "3/4 and ELK 1/4; core = 7 snippets x {dagre, elk, sketch}. oracle: byte-identical SVG for the same (text, options): 3 sequential "
             "compile+layout+render runs; then 2-6 (thorough 2-16) goroutines render the same input while up to 4 other diagrams are rendered "
             "concurrently, every result equal to its sequential one. Shards run under GOMAXPROCS 1/4/16/2; the thorough tier uses a -race build. "
             "half of the random cases are deep dagre diagrams: containers nested 3-4 deep, several sibling sub-containers, leaves with margins (multiple, person, outside labels), "
             "cross-container connections (the shape on which dagre's post-processing once depended on map order). "
             "non-trivial = the diagram uses >=2 of {markdown, code, latex, sketch, class/table} or is such a deep diagram.",
        assumptions=["only schedules the Go runtime produces under these settings are observed", "separate-process comparison is covered by the shards themselves: "
                     "all 14 shards render the same 7 core snippets and the driver does not compare them (not asserted)"],
    ),
    "C30": dict(
        engine="p_render", quick_checks=350, thorough_checks=20000, quick_shards=14, thorough_shards=16, quick_budget_s=500, thorough_budget_s=3400,
        rule="diagrams of 3-9 user-controlled fields (label, tooltip, link, object ID, class name, connection label, arrowhead label, icon URL, table "
             "column/type/constraint, class field, code block, gradient stop, legend label, text shape, container label), each carrying a per-field "
             "canary with XML metacharacters and quotes plus one of 18 hostile prefixes (control characters, ]]>, -->, </style>, entities); options: "
             "sketch, dark theme, pad, scale, center, no-xml-tag, themes, appendix; dagre/ELK. core = each field kind alone, all together, each "
             "option alone, each prefix. oracle: strict encoding/xml parse of the whole output succeeds with balanced elements, and no element or "
             "attribute name contains a canary (the canary would open <zqN> or add zqaN=\"1\" if written unescaped). Markdown labels carry no "
             "canary. non-trivial = >=5 fields and the canary text is found in >=3 text nodes/attribute values.",
    ),
}
