# p_syntax engine: C01 C02 C03 C05 C43
PROPS = {
    "C01": dict(fuzz_target="FuzzC01", fuzz_s=240, technique="property-based testing (rapid) with explicit oracle; the thorough tier adds a coverage-guided stage (Go native fuzzing driving the same check; failing inputs are saved as replay files)", 
        engine="p_syntax", quick_checks=200000, thorough_checks=3000000, quick_shards=14, thorough_shards=16,
        rule="inputs: hostile byte constants (unterminated openers, nest runs up to 20k, BOMs, invalid UTF-8, long keys), every .d2 file / "
             "txtar section / test-table literal of the repo (also re-encoded as UTF-16LE+BOM), then rapid: raw bytes, syntax-biased runes, "
             "mutated seeds, grammar text and token-mutated grammar text, each parsed with Parse (UTF16Pos on/off), ParseKey, ParseMapKey, "
             "ParseValue. non-trivial = Parse produced more than the root node or at least one error; distinct by SHA-256 of the case.",
        assumptions=["a per-case watchdog of 20 s stands in for 'terminates' (typical cost is microseconds)"],
    ),
    "C02": dict(fuzz_target="FuzzC02", fuzz_s=240, technique="property-based testing (rapid) with explicit oracle; the thorough tier adds a coverage-guided stage (Go native fuzzing driving the same check; failing inputs are saved as replay files)", 
        engine="p_syntax", quick_checks=100000, thorough_checks=2000000, quick_shards=14, thorough_shards=16,
        rule="inputs: snippets, every repo .d2 file/txtar section, hostile constants, then rapid grammar text with multi-byte/astral/tab/CRLF "
             "splices, token mutations (valid and invalid UTF-8), hostile names; each in UTF-8 and UTF-16 position mode and additionally as "
             "UTF-16LE+BOM bytes. oracle: independent offset table (line/col/offset per rune boundary), range inside input, start<=end, "
             "child inside parent, key-segment source re-parses to the same segment. non-trivial = >=5 nodes and (non-ASCII rune or >=1 error).",
        assumptions=["newline is '\\n' only, as Position documents"],
    ),
    "C05": dict(
        engine="p_syntax", quick_checks=150000, thorough_checks=3000000, quick_shards=14, thorough_shards=16,
        rule="strings: every plain/hostile/keyword name (keywords in 4 letter cases) as core, then rapid Unicode strings <=24 runes biased to "
             "syntax-significant runes, keywords, numbers, white space. oracle: Format(RawString(s, key)) -> ParseKey == [s]; "
             "Format(RawString(s, value)) -> ParseValue is a string/number scalar == s; d2oracle.Set(x, s) recompiles to label s; "
             "d2oracle.Rename(x, s) recompiles to exactly one object with the returned name. non-trivial = s needs quoting/escaping or is a "
             "keyword or number spelling.",
        assumptions=["edits refused with an error are legal outcomes (counted as set_refused / rename_refused)"],
    ),
    "C03": dict(fuzz_target="FuzzC03", fuzz_s=240, technique="property-based testing (rapid) with explicit oracle; the thorough tier adds a coverage-guided stage (Go native fuzzing driving the same check; failing inputs are saved as replay files)", 
        engine="p_syntax", quick_checks=100000, thorough_checks=2000000, quick_shards=14, thorough_shards=16,
        rule="inputs: all repo .d2 files, txtar sections and test-table literals, snippets per construct, then rapid grammar text (comments, block "
             "strings, boards, imports, globs, substitutions, edge groups, arrays), lightly mutated text and hostile-name pairs; inputs with parse "
             "errors are rejected and counted. oracle: f1=Format(Parse(x)); Parse(f1) has no errors; Format(Parse(f1))==f1 byte for byte. "
             "non-trivial = formatting changed the text or the input has >=3 construct kinds.",
    ),
    "C43": dict(
        engine="p_syntax", quick_checks=60000, thorough_checks=1500000, quick_shards=14, thorough_shards=16,
        rule="byte strings: empty, every single byte, runs and pseudo-random blocks around 256/64Ki, repo .d2 files, hostile constants, then rapid "
             "raw bytes (<=2KiB quick, <=64KiB thorough), syntax-biased bytes, repeated dictionary words, grammar text. oracle: Decode(Encode(s))==s, "
             "Encode(s) matches ^[A-Za-z0-9_=-]*$ and survives url.Parse(...).Query().Get. non-trivial = non-empty input.",
        assumptions=["'=' padding counts as URL-safe inside a query value"],
    ),
}
