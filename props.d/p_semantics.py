# p_semantics engine: C10-C15
PROPS = {
    "C10": dict(
        engine="p_semantics", quick_checks=60000, thorough_checks=1500000, quick_shards=14, thorough_shards=16,
        rule="structured programs of 3-14 (thorough 3-30) statements over the core fragment: object declarations (flat a.b.c or nested maps, written at "
             "the root or inside a container's map, names re-spelled in other letter cases incl. non-ASCII fold orbits, quoted names), attribute "
             "assignments (label, shape, 5 style keys; repeated; null), connections (4 arrow forms, written absolutely, inside the common container, "
             "or one level deeper with `_.`), null on objects/containers. The same structure is interpreted by an independent reference model "
             "(identity by EqualFold, first spelling kept, last assignment wins, primary vs .label sources, null removes the subtree and the attached "
             "connections, re-declaration is fresh) and compared with the compiled graph: objects by folded path (spelling, label, attributes) and the "
             "multiset of connections (endpoints, arrows, label, attributes). non-trivial = >=1 overriding assignment and >=1 null followed by a re-declaration.",
        oracle_kind="an independent reference interpreter",
    ),
    "C11": dict(
        engine="p_semantics", quick_checks=60000, thorough_checks=1500000, quick_shards=14, thorough_shards=16,
        rule="structured programs over 4 names (with case variants) where the same endpoints are connected repeatedly: written at the root, inside the "
             "container, by absolute path, or `_`-relative (all one group), in mixed arrow forms (distinct groups), with marker labels, indexed updates "
             "(style, label), indexed deletions and further declarations. oracle: per (source, destination, direction) the compiled indices are exactly "
             "0..k-1 in list order and all connection IDs are unique; the compiled connections equal the reference model's (endpoints, arrows, index, "
             "label, attributes), so a marker written through an index sits on exactly that connection; an index >= the current count is a compile "
             "error. After an indexed deletion in a group the numbering convention is not fixed by the statement: only uniqueness, consecutiveness and "
             "the count are asserted there (gray). non-trivial = a group of >=3 members and >=1 indexed reference.",
        oracle_kind="an independent reference interpreter",
    ),
    "C13": dict(
        engine="p_semantics", quick_checks=40000, thorough_checks=1000000, quick_shards=14, thorough_shards=16,
        rule="programs with a vars block at the root and in 0-3 levels of nested containers (shadowing chains, dotted variable paths, scalar values: "
             "words, numbers, spaced phrases) and 0-4 uses per scope: alone, inside unquoted text, inside double-quoted text, inside single-quoted "
             "text (never substituted), as connection label, as style value, as width, twice in one string; undefined names. Metamorphic twin: the "
             "printer emits P and P' where each ${v} is replaced by the value of the innermost enclosing vars block defining v; oracle: "
             "canon(compile(P)) == canon(compile(P')); any undefined reference => 'could not resolve variable' error. non-trivial = a shadowed variable "
             "is used and a substitution sits inside a larger string.",
        oracle_kind="a metamorphic twin program",
    ),
    "C14": dict(
        engine="p_semantics", quick_checks=30000, thorough_checks=600000, quick_shards=14, thorough_shards=16,
        rule="file sets of 1-4 files (index, x, y, sub/z) in an in-memory FS. twin class: each file has 1-5 statements (objects, labels, connections, "
             "styles, root-level label/style, relative icons) and imports later files; the index imports by spread at the top, by value into an "
             "otherwise empty key, or by key (@f.k); paths spelled plain / with .d2 / quoted / with ./ and ../ ; oracle: the set compiles to the same "
             "canonical diagram as the single file with every import replaced by the imported content (relative icons pre-joined with the import "
             "directory). cycle class: chains of length 1-4 closed back to any earlier file through any spelling must be rejected with an error "
             "naming a cycle; acyclic chains and diamonds must not. globs class: a * / ** glob of a spread-imported file must not touch the "
             "importer's objects, a *** glob must (also objects declared after the import). non-trivial = >=2 files and (nested import or >=2 imports).",
        oracle_kind="a metamorphic twin (inlined imports) and direct rule checks",
    ),
    "C15": dict(
        engine="p_semantics", quick_checks=30000, thorough_checks=600000, quick_shards=14, thorough_shards=16,
        rule="a root body of core-fragment statements (objects, attributes, connections, null) with layers / scenarios / steps blocks (1-3 boards each, "
             "nested <=2 levels) inserted at random positions; board bodies add objects, override attributes, null inherited objects/connections. "
             "Reference: scenario = deep copy of the enclosing board's state at the block's position + own statements; step k = copy of step k-1's "
             "final state (step 1: the enclosing board); layer = empty + own; copies make isolation true in the model. oracle: every compiled board "
             "(recursively, by kind and name) equals the reference board (objects, labels, attributes, connections), and the root board equals the "
             "program with all board blocks removed. non-trivial = >=2 boards of which one overrides or deletes something inherited.",
        oracle_kind="an independent reference interpreter plus a deletion twin",
        assumptions=["classes, variables and board-wide globs inherited by layers are not generated here (C12 covers *** globs into layers)"],
    ),
    "C12": dict(
        engine="p_semantics", quick_checks=40000, thorough_checks=1000000, quick_shards=14, thorough_shards=16,
        rule="structured programs of 3-12 (thorough 3-24) statements in the root, a container and a nested container: globs (*, **, prefix, suffix, "
             "infix and two-star patterns in any letter case; written inside the container's map or with a path prefix) assigning fill/shape/opacity/"
             "label, object declarations before, between and after the globs (also through an outer path), explicit assignments before and after, "
             "connections, and `(* -> *)[*]` connection globs. Reference expansion: a glob is applied to every existing match at its position and to "
             "each later match at creation time, before the creating statement's own assignments, so later explicit beats glob and later glob beats "
             "earlier explicit; `*` = direct children of the scope, `**` = all descendants; names matched case-insensitively, literal pieces in "
             "order, first anchored; names on which the anchored-tail and open-tail readings differ are gray (an existing d2 test pins the open "
             "tail). oracle: compiled objects == reference (no object created by a glob, attributes and labels equal) and connections equal. "
             "non-trivial = >=1 glob, >=1 target created after it and >=1 explicit/glob precedence conflict.",
        oracle_kind="an independent reference expansion of the globs",
        assumptions=["glob filters, *** across boards/imports and connection-creating globs (`* -> x`) are not generated (the latter can make compilation diverge: C07 finding)"],
    ),
}
