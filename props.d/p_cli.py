# p_cli engine: C34 C35 C48 (subprocess of the freshly built CLI binary $VERIF_BIN/d2)
PROPS = {
    "C34": dict(
        engine="p_cli", quick_checks=160, thorough_checks=4000, quick_shards=16, thorough_shards=16,
        quick_budget_s=240, thorough_budget_s=1500, needs_cli=True, level="exploration", shrinktime="6s",
        rule="TODO",
        assumptions=[],
    ),
    "C35": dict(
        engine="p_cli", quick_checks=16000, thorough_checks=400000, quick_shards=16, thorough_shards=16,
        quick_budget_s=240, thorough_budget_s=1500, needs_cli=True, level="exploration", shrinktime="6s",
        rule="TODO",
        assumptions=[],
    ),
}
