# p_cli engine: C34 C35 C48 (subprocess of the freshly built CLI binary $VERIF_BIN/d2)
PROPS = {
    "C34": dict(
        engine="p_cli", quick_checks=128, thorough_checks=4000, quick_shards=16, thorough_shards=16,
        quick_budget_s=300, thorough_budget_s=1500, needs_cli=True, level="exploration", shrinktime="6s",
        rule="board trees (<=3 levels, <=9 boards, layers/scenarios/steps, 0-2 own shapes per board) whose names are drawn from plain names, a table of "
             "path constructs (.., ., index, layers, a/b, a\\b, /abs, x/.., ./x, x//y, '', blanks, quotes, unicode, --layout, $HOME, tmp-o.svg-1, o.svg, "
             "in.d2 ...), long names (100..4100 bytes), the hostile-name pool and names derived from a sibling/parent (<sib>/index, <sib>/<leaf>, "
             "<sib>.svg, ../<sib>, <sib>/.., ./<sib>, <sib>/); core = every table name as a lone layer / with a child beside a sibling / beside a scenario. "
             "Each case runs `d2 --layout dagre in.d2 out/o.svg` in work/sb/<n>/l1/l2/l3/l4/l5 (sentinel at every level, HOME/TMPDIR/XDG inside, "
             "<=2 '..' per board path, checked again in the oracle). Oracle: every pre-existing file outside out/o/ and out/o.svg byte- and inode-identical, "
             "nothing created outside, number of files written under out/o/ == number of boards that are not folder-only (IsFolderOnly of an in-process "
             "compile), no output path reported twice. non-trivial = >=3 boards and >=1 name with a path construct.",
        assumptions=["the 'directory derived from the output path' of a multi-board render of out/o.svg is out/o/ (render(): output path minus extension); "
                     "writing out/o.svg itself is tolerated",
                     "a CLI error exit (name too long, file/directory clash) is not a violation of the one-file-per-board half (counted gray); the "
                     "safety half is still asserted"],
    ),
    "C35": dict(
        engine="p_cli", quick_checks=16000, thorough_checks=400000, quick_shards=16, thorough_shards=16,
        quick_budget_s=300, thorough_budget_s=1500, needs_cli=True, level="exploration", shrinktime="6s",
        rule="board trees (<=8 boards, <=3 levels, plain/quoted/dotted/keyword-like names) whose bodies may come from imported files (board value `x: @f`, "
             "spread `...@f` first or last, at the root too; memfs), objects (flat or nested in a container, three ways of writing the link) with links "
             "drawn as key segments: relative to a descendant, absolute (`root` = root of the file the text is in), `_`-relative via the common ancestor "
             "(sometimes one `_` too many), self, URLs / other text, keyword in another letter case; then mutated (dangling segment, wrong kind word, "
             "unknown name, extra level, last segment dropped). Oracle A: every object's compiled link in every board (g.Layers/Scenarios/Steps) against a "
             "reference resolver over the logical tree: existing other board -> its absolute path; missing or self -> dropped; URL -> verbatim; for objects "
             "inherited into scenarios/steps only 'dropped or an existing other board'. Oracle B (about 0.7 % of the cases + 36 core cases): the real CLI "
             "renders the same sources, board->file from the run's own report (verified by a marker shape per board), every <a href> of every SVG == "
             "relative path between the two files for each stored link. non-trivial = >=1 link to a board of another level and >=1 dropped link.",
        assumptions=["link text that is not a URL and does not start with root/_/layers/scenarios/steps (the code drops it), board keywords in another letter "
                     "case and `_` used as a board name are left open by the statement: counted gray, not asserted",
                     "`root` inside an imported file denotes the importing board (rebasing), `_` above it continues into the importing file",
                     "cases whose compiled board tree differs from the written one (spread import of a file with steps/scenarios into a board with own "
                     "steps: about 1 %) are rejected"],
    ),
    "C48": dict(
        engine="p_cli", quick_checks=16, thorough_checks=96, quick_shards=16, thorough_shards=16,
        quick_budget_s=400, thorough_budget_s=1800, needs_cli=True, level="fault_enumeration", shrinktime="1s",
        rule="one case = (command, input, tracer): `d2 fmt f.d2` on an unformatted source of exactly N bytes (quick core 1 B, 5000 B, 2 MiB; thorough 12 sizes; "
             "rapid log-uniform 1 B..2 MiB) or a single-board `d2 --layout dagre in.d2 out/out.svg` over an existing out.svg (1-120 shapes, old file 0 B..3 MiB). "
             "An uninjected traced run on a copy gives the new bytes and the list of file-system calls touching the target (strace -f -P <target>) or any "
             "path under the output directory incl. the temp file (ptrace helper testdata/killat.c, global numbering); then one run per listed call with the "
             "process SIGKILLed on entry to it (strace inject=<call>:signal=SIGKILL:when=<n>, n per call name; killat -k <index>). Oracle: target == old "
             "bytes or == new bytes. Evidence extras: <cmd>_kill_points_enumerated / _hit (died exactly there) / _missed (no kill: strace counts per thread) / "
             "_kills_elsewhere. non-trivial = a hit point strictly between the first and the last listed call.",
        assumptions=["the kill arrives on entry to a system call (before it runs); kills inside the kernel's write are not enumerated",
                     "CLI runs use GOMAXPROCS=1 to keep the calls on few threads"],
    ),
}
