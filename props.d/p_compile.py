# p_compile engine: C04 C06 C07 C08 C09 C16
PROPS = {
    "C07": dict(fuzz_target="FuzzC07", fuzz_s=240, technique="property-based testing (rapid) with explicit oracle; the thorough tier adds a coverage-guided stage (Go native fuzzing driving the same check; failing inputs are saved as replay files)", 
        engine="p_compile", quick_checks=100000, thorough_checks=2500000, quick_shards=14, thorough_shards=16,
        rule="inputs: every repo .d2 file/txtar section/test-table literal, ~90 construct snippets (nil-prone value shapes, cyclic vars, globs of "
             "globs, import cycles of length 1-4 through different path spellings, diamond imports), then rapid: 1-4 file sets of grammar text with "
             "imports between them (cycles arise), token-mutated texts, mutated seeds, raw bytes; UTF16Pos on/off. oracle: no panic/death, "
             "exactly one of (graph, error), error is a positioned error list with non-empty messages inside one of the supplied files, per-case "
             "watchdog 20 s (typical 0.1-5 ms). non-trivial = entry file parses without errors (IR compilation reached) and has >=3 statements.",
        assumptions=["a 20 s watchdog for <=4 KiB inputs stands in for 'time bound proportional to the input size'"],
    ),
    "C08": dict(
        engine="p_compile", quick_checks=20000, thorough_checks=300000, quick_shards=14, thorough_shards=16,
        gomaxprocs=[1, 2, 4, 16], thorough_race=True, thorough_budget_s=3000,
        rule="inputs: the C07 core (repo seeds, construct snippets, import cycles) and rapid 1-4 file sets of grammar text (errors included). "
             "oracle: ordered canonical projection (objects and their order, edges, attributes, boards, config) or the error text of 3 sequential "
             "compiles is identical; then 2-8 (thorough 2-32) goroutines compile the same input while up to 6 other programs of a fixed pool are "
             "compiled concurrently: every result equals its sequential one. Shards run under GOMAXPROCS 1/2/4/16; thorough tier uses a -race "
             "build. non-trivial = >=4 statements and at least one of glob/class/import/vars/board.",
        assumptions=["only schedules that the Go runtime actually produces under these GOMAXPROCS values, goroutine counts and -race are observed"],
    ),
    "C09": dict(
        engine="p_compile", quick_checks=30000, thorough_checks=1000000, quick_shards=14, thorough_shards=16,
        rule="inputs: repo seeds and snippets (class/sql_table with fields and column edges, sequence diagrams, grids, underscores, boards), then "
             "rapid: structured compilable diagrams (containers, all shapes, class/table, sequence, grid, nears; hostile names) and 1-4 file sets of "
             "grammar text filtered by 'compiles' (rejected inputs are counted). oracle per board (recursively): Objects duplicate-free, parent "
             "chain of every object ends at this board's root, parent lists the child exactly once in ChildrenArray and under lower(ID) in the "
             "map, map and array sizes agree, class/sql_table objects have no children, every edge endpoint is an object of the same board; for "
             "generated single-file glob-free diagrams Objects are in order of first textual appearance. non-trivial = >=1 container and >=1 edge.",
    ),
    "C06": dict(
        engine="p_compile", quick_checks=40000, thorough_checks=1000000, quick_shards=14, thorough_shards=16,
        rule="inputs: repo .d2 files, every plain/hostile/keyword name (quotes, dots, spaces, arrows, keywords in 4 letter cases, non-ASCII, case-fold "
             "orbits) as root object, child and connection end, then rapid: structured diagrams with hostile names, programs of 1-6 drawn names in nested "
             "positions with connections between them, grammar-text file sets filtered by 'compiles'. oracle per board: ParseKey(ID) is one segment == "
             "the object's name; ParseKey(AbsID) == name path from the root; no two distinct objects with EqualFold-equal AbsIDs; GetObj(AbsID) returns "
             "the object; each connection AbsID is unique, parses (ParseMapKey) to one connection with its index, and GetEdge / Root.HasEdge on it "
             "return exactly that connection. non-trivial = >=2 objects and >=1 name that needs quoting or is non-ASCII.",
    ),
    "C04": dict(
        engine="p_compile", quick_checks=30000, thorough_checks=600000, quick_shards=14, thorough_shards=16,
        rule="inputs: repo seeds, ~60 construct snippets (keywords in any letter case as keys and values, board blocks before/between/after other "
             "content, all arrow forms, globs, vars, classes, imports), then rapid: structured diagrams (optionally with upper-cased reserved keys), "
             "grammar-text file sets, diagrams with a board block inserted at a random position; inputs that do not compile are rejected and counted. "
             "oracle: canon(compile(x)) == canon(compile(Format(Parse(x)))) as unordered object/edge maps, boards recursively, plus configuration; "
             "imported files untouched. non-trivial = formatting changed the text and (>=3 objects or a board or a glob).",
    ),
    "C16": dict(
        engine="p_compile", quick_checks=40000, thorough_checks=600000, quick_shards=14, thorough_shards=16,
        rule="for each of ~35 attribute keywords x context (object, connection, arrowhead, d2-config): an enumerated core of boundary and variant "
             "values (numeric edges -1/0/1/max/max+1/huge/NaN/Inf/-0/non-ASCII digits, case variants, colour syntax variants, enum members in any "
             "case) written quoted and bare, then rapid values (probes, integers -20..120, decimals, rune strings). Each value is classified by a "
             "three-valued table written from the statement and the error texts: valid (must compile and reach the graph unchanged / case-folded), "
             "invalid (must be rejected with an error on the value's line), gray (lexical variants the documentation is silent about: counted, not "
             "asserted). non-trivial = every classified case; distinct by (attribute, context, value, quoting).",
        assumptions=["'error at the value' is checked as: some reported error starts on the line of the value"],
    ),
}
