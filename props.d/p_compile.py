# p_compile engine: C04 C06 C07 C08 C09 C16
PROPS = {
    "C07": dict(
        engine="p_compile", quick_checks=100000, thorough_checks=2500000, quick_shards=14, thorough_shards=16,
        rule="inputs: every repo .d2 file/txtar section/test-table literal, ~90 construct snippets (nil-prone value shapes, cyclic vars, globs of "
             "globs, import cycles of length 1-4 through different path spellings, diamond imports), then rapid: 1-4 file sets of grammar text with "
             "imports between them (cycles arise), token-mutated texts, mutated seeds, raw bytes; UTF16Pos on/off. oracle: no panic/death, "
             "exactly one of (graph, error), error is a positioned error list with non-empty messages inside one of the supplied files, per-case "
             "watchdog 20 s (typical 0.1-5 ms). non-trivial = entry file parses without errors (IR compilation reached) and has >=3 statements.",
        assumptions=["a 20 s watchdog for <=4 KiB inputs stands in for 'time bound proportional to the input size'"],
    ),
}
