# p_watch engine: C44 C45 (watch server of d2cli). Needs the add-only hooks of hooks/watch-hooks.patch
# (build tag "verif": d2cli/verif_on.go, verifEvent call sites in d2cli/watch.go) applied to the repo.
PROPS = {
    "C44": dict(
        engine="p_watch", quick_checks=56, thorough_checks=400, quick_shards=8, thorough_shards=8,
        quick_budget_s=420, thorough_budget_s=2400, thorough_race=True, shrinktime="60s", replay_timeout=300,
        needs_cli=False, level="exploration",
        rule="the real watcher runs in-process (real fsnotify on a sandbox directory, the real compile() with a row-layout plugin instead of "
             "dagre, the real websocket server on 127.0.0.1:0); the input's label encodes a version number recovered from every result. "
             "A case is a history drawn as a value: writes of increasing versions (in place, rename-replace, rename-replace while an fd on the "
             "old inode stays open), websocket clients connecting / leaving (close handshake or dropped TCP), pauses of 0-200 ms (inside and "
             "outside the 16 ms debounce window), await steps (continue when the next hook event of a kind is recorded, or when the newest "
             "version reached every client) and a delay plan for 21 hook points (0-60 ms, 0-300 ms for a slow client write) = generated "
             "schedule perturbation. 15 enumerated core histories put the final write inside a running compile / broadcast / client write. "
             "Oracle on the recorded trace (every ordering used is one the trace establishes): a compile result is never older than a write "
             "completed before the compile began; compile results and, per client, server writes and received versions never go back; a "
             "client's write loop never fetches a result older than the one stored before its iteration began; after the last write the "
             "final version is compiled and reaches every connected client within 30 s (a miss is inconclusive) unless the trace proves a "
             "state the watcher cannot leave (all goroutines involved parked at their wait points for longer than the watcher's 10 s poll "
             "period, no pending wake-up, process scheduled normally) - that is a violation; no recovered handler panic; thorough: no race "
             "report. non-trivial = at least 2 writes and at least 1 connected client.",
        assumptions=[
            "liveness ('eventually') is checked as: delivered within 30 s => pass; not delivered => inconclusive (counted as rejected:inconclusive:*), "
            "except when the trace shows every goroutine involved parked at a wait point with no wake-up pending for > 10.5 s while a 20 ms "
            "ticker in the same process never stalled for 1 s (a runnable goroutine is assumed to run within that time)",
            "file-system stage (kernel/fsnotify delivering an event for a change) is not asserted: a change that produces no compile request is "
            "inconclusive, except the proven wedge (fs event with empty name followed by the 'failed to watch' retry loop)",
            "schedules are explored by generated delays at hook points and real timers, not enumerated (no model checking)",
            "the layout engine is replaced by a trivial plugin through the public d2plugin interface; everything else of compile() is real",
        ],
    ),
    "C45": dict(
        engine="p_watch", quick_checks=240, thorough_checks=1600, quick_shards=8, thorough_shards=8,
        quick_budget_s=420, thorough_budget_s=2400, thorough_race=True, shrinktime="60s", replay_timeout=300,
        needs_cli=False, level="exploration",
        rule="the real watcher runs in-process; a case is a timeline of k<=6 clients (websocket clients that read, raw TCP clients that send the "
             "upgrade request and go silent) dialling at 0-300 ms and leaving (close handshake / dropped connection) or staying, 0-3 writes "
             "(broadcasts and client writes in flight), a shutdown by watcher.close() or by cancelling the context (the CLI's SIGINT path) at a "
             "generated time, within a few ms of a dial, or when the n-th hook event of a generated kind is recorded (admission, upgrade, "
             "registration, client write, broadcast signal, handler exit), up to 3 late clients dialling after the shutdown was initiated, and a "
             "delay plan for 20 hook points. 50 enumerated core timelines (both shutdown modes). Oracle on hook events: no client-admitted "
             "after close-begin (both recorded under the watcher's client mutex) and no handshake started after close-begin succeeds; when "
             "close() returns every admitted handler has recorded its exit (exit is recorded before WaitGroup.Done, close-return after Wait), "
             "also seen from the caller (Close() / Run() return); goroutine count back to the baseline within 5 s (else inconclusive); no "
             "recovered handler panic; thorough: no race report. non-trivial = at least 2 clients admitted and (a handler alive when the "
             "shutdown began or a client refused).",
        assumptions=[
            "'shutdown has begun' is the moment closing=true is set (close-begin hook under the same mutex as admission)",
            "a shutdown that does not return within 60 s, or goroutines above the baseline after 5 s, are inconclusive, not violations",
            "schedules are explored by generated delays at hook points and real timers, not enumerated (no model checking)",
        ],
    ),
}
