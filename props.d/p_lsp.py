# p_lsp engine: C42
PROPS = {
    "C42": dict(
        engine="p_lsp", quick_checks=10000, thorough_checks=250000, quick_shards=14, thorough_shards=16,
        quick_budget_s=240, thorough_budget_s=1500, needs_cli=False, level="exploration",
        rule="cases: structured models of small D2 file sets (index.d2, optionally x.d2/y.d2 imported by `...@x` / `k: @x` / `layers: {n: @x}`, or an "
             "unrelated decoy file) printed by a printer that records the byte span of every mention of every object key (declarations, dotted "
             "path prefixes, attribute paths, connection endpoints, indexed-connection endpoints), of every connection and indexed reference, and "
             "of every board block (layers/scenarios/steps, nested <= 3); names come in several spellings per key (letter case, quotes, quoted "
             "dots, escaped dots, non-ASCII). classes: core (one file, no globs/imports: soundness + completeness of GetRefRanges), imports and "
             "globs (soundness only). every key and connection of every board is queried (<= 48 per file, chosen by a drawn seed, spelled in a "
             "drawn variant, connections also un-indexed and written from the board root); GetBoardAtPosition and GetCompletionItems are called "
             "at every byte position of every text, GetCompletionItems also on mutated/raw grammar text. hand-written core: the repo's own LSP "
             "test inputs, spelling variants, inheritance chains, one-line layouts, broken snippets. non-trivial = some queried key has >= 3 "
             "mentions in >= 2 syntactic forms, or a board block at depth >= 2 has interior positions; distinct by SHA-256 of the case.",
        assumptions=[
            "file sets that d2compiler.Compile rejects are outside the domain (counted as rejected)",
            "positions on the '{' and '}' of a board block are not asserted (the statement does not say whether braces belong to the block)",
            "a range 'names the key' if it parses as a key path whose segments are the trailing segments of the queried key (EqualFold) and it "
            "covers a place where the printer wrote that key in the queried board or a board it inherits from",
            "mentions inherited by a scenario/step from text before its block are accepted but not required; undeclared keys are queried but "
            "nothing is asserted about them (crashes there are counted in extra.absent_key_panics)",
        ],
    ),
}
