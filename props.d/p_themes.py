# p_themes engine: C31 C32 C47 (themes/overrides, ASCII renderer, embedded font subsets)
PROPS = {
    "C31": dict(
        engine="p_themes", quick_checks=400, thorough_checks=10000, quick_shards=14, thorough_shards=16, quick_budget_s=400, thorough_budget_s=3000,
        needs_cli=True, level="exploration",
        rule="small generated diagrams (<=6 objects: all shapes, containers, class/sql_table, sequence, grid, markdown/code, tooltips/links, user styles, "
             "labelled connections) compiled with dagre under a light theme drawn from all 20 catalog themes (core: every theme once), given through "
             "RenderOpts or through the in-source d2-config; each compiled diagram is rendered four times: no dark theme, dark themes 200 and 201, and "
             "a light-catalog theme as dark theme; light and dark override sets are random subsets (0, 1-5, 6-17, all 18) of the 18 codes (lower-case "
             "keys in d2-config) with named colours in any letter case, #rgb, #rrggbb, transparent; about 1/60 cases put currentcolor. 1/25 cases pass an "
             "unknown theme ID (light or dark; RenderOpts or d2-config); core adds CLI runs (--theme/--dark-theme/D2_THEME/D2_DARK_THEME with unknown "
             "IDs, two positive controls checked by the same oracle). Oracle: own CSS reader over the one theme <style>: for each of 18 codes x "
             "{fill,stroke,background-color,color} a rule .<root hash> .<prop>-<code>{<prop>:<v>} exists in the base block with v == override if given "
             "else the catalog colour of the light theme (case-insensitive), likewise inside @media screen and (prefers-color-scheme:dark) with the "
             "dark theme / dark overrides, and no dark block without a dark theme; colours of the .md variables and of .appendix text.text belong to "
             "the resolved palette of their block; without a dark theme every SVG element with class <prop>-<code> carries the attribute <prop> equal "
             "to the resolved light colour; unknown IDs: d2lib.Compile or d2svg.Render returns an error / the CLI exits non-zero. "
             "non-trivial = >=3 overrides (light+dark) or a rejected unknown ID.",
        assumptions=["'rejected' = some stage of the pipeline (d2lib.Compile, d2svg.Render, CLI exit status) reports an error; which stage is recorded as a label",
                     "HTML elements inside <foreignObject> (markdown div) carrying a colour class without an inline colour are counted gray: an XML "
                     "attribute has no meaning on them and the statement speaks of inline colours of the drawing",
                     "with a dark theme requested nothing is asserted about inline colours"],
    ),
    "C32": dict(
        engine="p_themes", quick_checks=300, thorough_checks=8000, quick_shards=14, thorough_shards=16, quick_budget_s=400, thorough_budget_s=3000,
        level="exploration",
        rule="TODO",
    ),
    "C47": dict(
        engine="p_themes", quick_checks=400, thorough_checks=10000, quick_shards=14, thorough_shards=16, quick_budget_s=400, thorough_budget_s=3000,
        level="exploration",
        rule="TODO",
    ),
}
